"""C02 — Transactions are atomic. spec/BaseApp.tla model-checked (M); executions of the REAL
gno.land application recorded by harness/cmd/baseapp and validated line by line against
spec/BaseAppTrace.tla (V)."""
import json, os, vlib, tracelib
LEVEL = "model_checking"
PID = "C02"
F1_KEY = "C02:block-gas-limit-crossed:msg-effects-flushed-before-block-charge"


def model_check(ctx, witnesses=True):
    cfg = "BaseApp_q.cfg" if ctx.tier == "quick" else "BaseApp_t.cfg"
    r = vlib.run_tlc(ctx, "MCBaseApp", cfg, timeout=1800)
    vlib.require_model_ok(r, cfg)
    ctx.add_tlc(r, "exhaustive " + cfg)
    # non-vacuity: every gas-related outcome class is reachable in the model (checked by negation)
    for w in (("SomeBlockGas", "SomeNoBlockGas", "SomePreOOG") if witnesses else ()):
        rw = vlib.run_tlc(ctx, "MCBaseApp", "BaseApp_w_%s.cfg" % w, timeout=600, workers=4, jvm=["-Xmx2g"])
        if rw.violated != w:
            raise vlib.Inconclusive("VACUOUS", "outcome %s unreachable in the model" % w)


def record(ctx, binary, n):
    out = os.path.join(ctx.scratch_dir("rec"), "baseapp_trace.ndjson")
    res = vlib.run_driver(ctx, binary, ["-mode", "record", "-out", out, "-n", str(n)], timeout=3000)
    s = vlib.handle_driver_results(ctx, res)
    lines = [json.loads(l) for l in open(out) if l.strip()]
    return lines, s


def block_of(lines, k):
    """lines of the block containing 0-based index k (BeginBlock..Commit)."""
    a = k
    while a > 0 and lines[a].get("act") != "BeginBlock":
        a -= 1
    b = k
    while b < len(lines) - 1 and lines[b].get("act") != "Commit":
        b += 1
    return lines[a:b + 1]


def classify(ctx, scen, kfail, pid):
    """scen: lines of one scenario; kfail: 1-based failing line inside it (or None)."""
    blk = block_of(scen, (kfail or 1) - 1)
    classes = sorted({"%s/%s" % (x["res"]["cls"], x["res"]["loc"]) for x in blk if x.get("act") == "DeliverTx"})
    act = scen[kfail - 1].get("act") if kfail else "?"
    # is it exactly the known order-of-flush defect? ask the spec with the named deviation switched on
    if any(x.get("act") == "DeliverTx" and x["res"]["loc"] == "block" for x in blk):
        ok, _, _ = tracelib.validate(ctx, "BaseAppTrace", "BaseAppTrace_f1.cfg", "baseapp_trace.ndjson", strip(scen))
        if ok:
            return F1_KEY, "a tx reported failed with 'out of gas ... block gas meter' kept its message effects (state after Commit equals the flush-then-charge order)", blk
    # gas/verdict logic alone (state comparison off)?
    okg, kg, _ = tracelib.validate(ctx, "BaseAppTrace", "BaseAppTrace_gas.cfg", "baseapp_trace.ndjson", strip(scen))
    if not okg:
        return "gas", "reported verdict / gas not explainable by the gas model at line %s (%s)" % (kg, ",".join(classes)), blk
    return "%s:state-mismatch:%s:%s" % (pid, act, "+".join(classes)), "state after the block differs from what the spec allows for the reported results", blk


def strip(scen):
    return scen[:-1] if scen and scen[-1].get("act") == "Reset" else scen


def validate_all(ctx, lines, pid, want_gas_only=False, key_filter=None):
    """key_filter (full-state mode): predicate on the violation key; rejected scenarios whose key it refuses are
    noted, not reported (used by C10 to judge only blocks that contain an out-of-gas transaction)."""
    cfg = "BaseAppTrace_gas.cfg" if want_gas_only else "BaseAppTrace.cfg"
    scens = [s for _, s in tracelib.split_scenarios(lines)]
    remaining = list(scens)
    accepted = 0
    rounds = 0
    while remaining and rounds < 12:
        rounds += 1
        flat = []
        for s in remaining:
            flat += s
        flat = strip(flat)
        ok, k, r = tracelib.validate(ctx, "BaseAppTrace", cfg, "baseapp_trace.ndjson", flat)
        if rounds == 1:
            ctx.cov.setdefault("trace_states", 0)
        ctx.cov["trace_states"] = ctx.cov.get("trace_states", 0) + r.distinct
        if ok:
            accepted += len(remaining)
            remaining = []
            break
        if k is None:
            raise vlib.Inconclusive("TRACE", "rejected without position:\n" + r.out[-2000:])
        # locate scenario
        pos = 0
        idx = None
        for j, s in enumerate(remaining):
            if pos < k <= pos + len(s):
                idx, kin = j, k - pos
                break
            pos += len(s)
        if idx is None:
            raise vlib.Inconclusive("TRACE", "cannot locate line %d" % k)
        bad = remaining[idx]
        accepted += idx
        if want_gas_only:
            blk = block_of(bad, kin - 1)
            classes = sorted({"%s/%s" % (x["res"]["cls"], x["res"]["loc"]) for x in blk if x.get("act") == "DeliverTx"})
            ctx.violation("%s:gas-verdict:%s" % (pid, "+".join(classes)),
                          "reported verdict / gas figures not explainable by the gas rules at line %d of the scenario" % kin,
                          {"scenario": bad, "failed_at": kin})
        else:
            key, what, blk = classify(ctx, bad, kin, pid)
            if key == "gas":
                ctx.notes.append("scenario rejected by the gas model (attributed to C10): " + what)
                ctx.add("scenarios_left_to_C10", 1)
            elif key_filter is not None and not key_filter(key):
                ctx.notes.append("state mismatch outside this property's clause (left to C02): " + key)
            else:
                ctx.violation(key, what, {"scenario": bad, "failed_at": kin, "block": blk})
        remaining = remaining[idx + 1:]
    if remaining:
        raise vlib.Inconclusive("TRACE", "more than 12 rejected scenarios; stopping")
    return accepted, len(scens)


def run(ctx, pid=PID, gas_only=False):
    binary = vlib.go_build("baseapp", ctx)
    case = ctx.replay_case()
    if case:
        scen = case["scenario"]
        ok, k, r = tracelib.validate(ctx, "BaseAppTrace", "BaseAppTrace_gas.cfg" if gas_only else "BaseAppTrace.cfg", "baseapp_trace.ndjson", strip(scen))
        # a replay file holds a recorded trace: re-validating it re-checks the spec side; the code side is re-run by the seed
        ctx.cov.update({"states": r.distinct or 1, "transitions": r.generated or 1, "traces_validated_against_impl": 1})
        ctx.sample(scen[:3])
        if not ok:
            ctx.violation("%s:replayed-trace-rejected" % pid, "recorded trace rejected at line %s" % k, case)
        return
    model_check(ctx)
    n = 4 if ctx.tier == "quick" else 60
    lines, s = record(ctx, binary, n)
    ctx.cov["recorded_lines"] = len(lines)
    ctx.cov["outcome_counts"] = {k[2:]: v for k, v in s.items() if k.startswith("n_")}
    need = ["n_ok", "n_fail:oog:block", "n_fail:oog:noblock", "n_fail:oog:tx", "n_fail:funds:tx", "n_fail:unauthorized:tx"]
    missing = [k for k in need if not s.get(k)]
    if missing:
        raise vlib.Inconclusive("VACUOUS", "recorded run never produced outcome(s) %s" % missing)
    acc, total = validate_all(ctx, lines, pid, want_gas_only=gas_only)
    ctx.add("traces_validated_against_impl", total)
    ctx.cov["scenarios_accepted"] = acc
    for x in lines[:6]:
        ctx.sample(x, limit=6)
    ctx.assumptions += ["storage-deposit delta of a block with exactly one successful realm call is attributed to that call; blocks where it is not attributable restart the scenario from the observed state (counted as resync)",
                        "gas amounts are inputs taken from the application's own report; the spec constrains how they relate to verdicts and effects, not their values",
                        "projection through ABCI Query on committed state (per block, per tx in single-tx blocks)"]
