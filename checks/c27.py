"""C27 — A crash during commit never leaves a torn state. spec/Commit.tla model-checked with a
Crash action enabled in every phase (M); crash-point enumeration over every physical DB write of the
REAL store stack (plain BaseApp with two stores in four configurations, goleveldb in the thorough
tier, and the real gno.land application), recorded by harness/cmd/crashcommit and validated line by
line against spec/CommitTrace.tla (V)."""
import json, os, threading, vlib, tracelib
LEVEL = "fault_enumeration"

PLAIN = "plain-fast-prune,plain-fast-keepall-nilmount,plain-iavl-prune,plain-toggle-fast"
_lock = threading.Lock()


def model(ctx):
    cfgs = [("Commit_c27p.cfg", "crash anywhere, KeepRecent=1")]
    if ctx.tier == "thorough":
        cfgs.append(("Commit_c27.cfg", "crash anywhere, keep all"))
    for cfg, label in cfgs:
        r = vlib.run_tlc(ctx, "MCCommit", cfg, timeout=600, workers=4)
        vlib.require_model_ok(r, cfg)
        ctx.add_tlc(r, label)
    # the invariant is load-bearing: each model-level mutant (a store outside the collector,
    # s/latest written directly) must violate Recoverable
    for cfg in (("Commit_c27_mStore.cfg", "Commit_c27_mMeta.cfg") if ctx.tier == "thorough" else ("Commit_c27_mMeta.cfg",)):
        r = vlib.run_tlc(ctx, "MCCommit", cfg, timeout=600, workers=4)
        if r.violated != "Recoverable":
            raise vlib.Inconclusive("VACUOUS", "%s does not violate Recoverable (%s)" % (cfg, r.violated or r.error))
    ctx.cov["model_mutants_caught"] = 2 if ctx.tier == "thorough" else 1


def drive(ctx, binary, scen, extra, out, res):
    try:
        with _lock:
            d = ctx.scratch_dir("rec")
        path = os.path.join(d, "trace.ndjson")
        r = vlib.run_driver(ctx, binary, ["-x", scen, "-n", str(extra), "-out", path], timeout=3000)
        out.append((scen, path, r))
    except Exception as e:  # noqa
        res.append(e)


def whole(disk):
    return disk["main"] == disk["base"] == disk["meta"] and disk["meta"] >= 0


def validate(ctx, lines, flagged):
    scens = [s for _, s in tracelib.split_scenarios(lines)]
    # crash points the driver already reported are not re-judged by TLC (their traces are in the replay files)
    scens = [s for s in scens if (s[0].get("scenario"), s[0].get("k"), s[0].get("mode")) not in flagged]
    remaining, accepted, rounds = list(scens), 0, 0
    while remaining and rounds < 8:
        rounds += 1
        flat = [x for s in remaining for x in s]
        if flat and flat[-1].get("act") == "Reset":
            flat = flat[:-1]
        ok, k, r = tracelib.validate(ctx, "MCCommitTrace", "CommitTrace.cfg", "commit_trace.ndjson", flat, timeout=1500)
        ctx.add("states", r.distinct)
        ctx.add("transitions", r.generated)
        if ok:
            accepted += len(remaining)
            return accepted, len(scens)
        if k is None:
            raise vlib.Inconclusive("TRACE", "rejected without position:\n" + r.out[-2000:])
        pos, idx = 0, None
        for j, s in enumerate(remaining):
            if pos < k <= pos + len(s):
                idx, kin = j, k - pos
                break
            pos += len(s)
        if idx is None:
            raise vlib.Inconclusive("TRACE", "cannot locate line %d" % k)
        bad = remaining[idx]
        ln = bad[kin - 1]
        head = bad[0]
        accepted += idx
        if ln.get("act") in ("Write", "Crash") and not whole(ln["disk"]):
            ctx.violation("C27:torn-write:%s" % head.get("scenario"),
                          "after physical write %s (%s) the DB regions are at different versions: %s" % (ln.get("k"), ln.get("kind", ln.get("mode")), ln["disk"]),
                          {"scenario": head.get("scenario"), "k": head.get("k"), "mode": head.get("mode"), "lines": bad, "failed_at": kin})
        elif ln.get("act") in ("Reopen", "End") and not all(ln.get(f, True) for f in ("ok", "hash_ok", "content_ok", "hashes_ok")):
            ctx.violation("C27:bad-recovery:%s" % head.get("scenario"), "recovery line rejected: %s" % ln,
                          {"scenario": head.get("scenario"), "k": head.get("k"), "mode": head.get("mode"), "lines": bad, "failed_at": kin})
        else:
            raise vlib.Inconclusive("MODEL-DIVERGENCE", "trace line %d of scenario %s rejected without a recovery anomaly: %s" % (kin, head, ln))
        remaining = remaining[idx + 1:]
    if remaining:
        raise vlib.Inconclusive("TRACE", "more than 8 rejected scenarios; stopping")
    return accepted, len(scens)


def run(ctx):
    binary = vlib.go_build("crashcommit", ctx)
    case = ctx.replay_case()
    if case:
        res = vlib.run_driver(ctx, binary, ["-x", case["scenario"], "-mode", "%s:%s" % (case["k"], case["mode"])], timeout=1500)
        s = vlib.handle_driver_results(ctx, res)
        ctx.cov.update({"evaluations": int(s.get("evaluations", 0)), "distinct_nontrivial": int(s.get("distinct_nontrivial", 0)),
                        "rule": "replay of one crash point"})
        return
    model(ctx)
    extra = 0 if ctx.tier == "quick" else 4
    groups = [PLAIN, "gnoland"] + (["plain-fast-prune-goleveldb"] if ctx.tier == "thorough" else [])
    out, errs, ths = [], [], []
    for g in groups:
        t = threading.Thread(target=drive, args=(ctx, binary, g, extra, out, errs))
        t.start()
        ths.append(t)
    for t in ths:
        t.join()
    if errs:
        raise errs[0]
    lines, per = [], {}
    ev = nt = 0
    for scen, path, res in sorted(out, key=lambda x: x[0]):
        s = vlib.handle_driver_results(ctx, res)
        ev += int(s.get("evaluations", 0))
        nt += int(s.get("distinct_nontrivial", 0))
        per.update(s.get("per_scenario", {}))
        lines += [json.loads(l) for l in open(path) if l.strip()]
    if ev == 0:
        raise vlib.Inconclusive("VACUOUS", "no crash point executed")
    flagged = set()
    for _, _, res in out:
        for x in res:
            if x.get("kind") == "mismatch" and isinstance(x.get("case"), dict):
                c = x["case"]
                flagged.add((c.get("scenario"), c.get("k"), c.get("mode")))
    acc, total = validate(ctx, lines, flagged)
    ctx.cov["crash_points_flagged_by_driver"] = len(flagged)
    ctx.cov.update({"evaluations": ev, "distinct_nontrivial": nt, "per_scenario": per, "exhaustive": True,
                    "trace_lines": len(lines), "scenarios_accepted_by_tlc": acc, "traces_validated_against_impl": total,
                    "rule": "one case = (configuration, k, before|after): the configuration's whole history (InitChain + blocks with sets, "
                            "deletes, pruning, fast-index maintenance) is re-run on a fresh DB and the process state is discarded just before / "
                            "just after the k-th PHYSICAL write call reaching the backing DB, for every k = 1..K (K measured by the reference run); "
                            "all cases are distinct by construction and non-trivial because every physical write happens inside InitChain/Commit "
                            "with the block's writes still pending in memory"})
    ctx.assumptions += ["a single back-end batch write is atomic (goleveldb / pebble batch semantics; memdb applies a batch under one lock)",
                        "the toggle configuration compares DB content without the (unauthenticated, hash-neutral) fast-index records, which the reference life does not have"]
