"""C30 — The IAVL tree is a correct versioned, provable map.
spec/VersionedTree.tla with Impl = "iavl" (second adapter of harness/cmd/vtree): (M) exhaustive on
3 keys, (R) every edge, every read on every small map and simulated long behaviours over 6 / 300
keys on the real iavl.MutableTree (memdb and goleveldb, cache sizes, with and without fast
storage); hash identities (root hash = function of the history) checked on every replay; ics23
membership / non-membership proofs with every mutation class (spec/MerkleProof.tla) on the tree
states of the simulated behaviours."""
import os, sys
sys.path.insert(0, os.path.dirname(os.path.abspath(__file__)))
import vlib
import vtree_common as vt
import c24

LEVEL = "model_checking"

EDGE_VARIANTS = [
    {"db": "memdb", "cache": 0, "fast": False},       # skipFastStorageUpgrade = true: how the gno stores open it
    {"db": "memdb", "cache": 10000, "fast": True},
]
SIM_VARIANTS = [{"db": "memdb", "init": True}, {"db": "goleveldb", "init": True}]


def run(ctx):
    binary = vlib.go_build("vtree", ctx)
    ctx.log("driver built")
    case = ctx.replay_case()
    if case:
        vt.replay_case(ctx, binary, case)
        return
    R = vt.Run(ctx, binary, "C30")
    quick = ctx.tier == "quick"
    ecfg, rcfg, xcfg = ("VersionedTree_iqe.cfg", "VersionedTree_iqr.cfg", "VersionedTree_iq.cfg") if quick else \
                       ("VersionedTree_ite.cfg", "VersionedTree_itr.cfg", "VersionedTree_it.cfg")
    n_s, n_l = (60, 16) if quick else (2000, 300)
    procs = 1 if quick else 6
    jobs = [
        lambda: R.tlc(ecfg, "exhaustive+edges 3 keys " + ecfg, tags=("EDGE",), timeout=3000, workers=6),
        lambda: R.tlc(rcfg, "exhaustive+edges reads on every map over 3 keys " + rcfg, tags=("EDGE",), timeout=3000, workers=4),
        lambda: R.tlc(xcfg, "exhaustive (no emission) " + xcfg, timeout=3000, workers=4),
        lambda: R.sims("VersionedTree_isims.cfg", "simulate 6 keys, 5 versions, 2 snapshots, depth 40", n_s, 45, procs=min(procs, 3), timeout=3000),
        lambda: R.sims("VersionedTree_isim.cfg", "simulate 300 keys, 8 versions, depth 50", n_l, 55, procs=procs, timeout=3000),
    ]
    n_t = 24 if quick else 600
    jobs.append(lambda: R.sims("VersionedTree_itiny.cfg", "tiny trees: single-leaf version, unchanged versions, growth, one-version-per-call pruning", n_t, 30, procs=1 if quick else 3, timeout=3000))
    ns, nm = (2, 5) if quick else (8, 16)
    jobs.append(lambda: c24.families(ctx, R, "VersionedTree_iskel.cfg", "VersionedTree_ifam.cfg", "iavl, 120 keys", ns, nm))
    rs = vt.parallel(jobs)
    edges, redges, sims_s, sims_l = rs[0].traces, rs[1].traces, rs[3], rs[4]
    sims_t = rs[5]
    members = rs[6][0]
    ctx.cov["edges_emitted"] = len(edges) + len(redges)
    ctx.log("TLC done: %d + %d edges, %d + %d simulated behaviours" % (len(edges), len(redges), len(sims_s), len(sims_l)))
    proofs, fam = {}, {}

    def prove():
        proofs.update(R.drive("VersionedTree_isim.cfg", sims_l, SIM_VARIANTS[:1], mode="proofs", proofs=3, bitflips=0 if quick else 24))
    vt.parallel([
        lambda: R.drive(ecfg, edges, EDGE_VARIANTS, checklast=1, hashes=True, proofcheck=True),
        lambda: R.drive(rcfg, redges, EDGE_VARIANTS, checklast=1),
        # proofcheck: on every version step, for every retained version, the tree's own membership / non-membership proofs
        # of a dense sample of keys must verify through ics23 against that version's root hash (in-process and after Reopen)
        lambda: R.drive("VersionedTree_isims.cfg", sims_s, SIM_VARIANTS, hashes=True, proofcheck=True),
        lambda: R.drive("VersionedTree_isim.cfg", sims_l, SIM_VARIANTS, hashes=True, proofcheck=True),
        lambda: R.drive("VersionedTree_itiny.cfg", sims_t, SIM_VARIANTS, hashes=True, proofcheck=True),
        prove,
        # root hash = function of the history: families of behaviours sharing the hash-relevant script (as C24)
        lambda: fam.update(R.drive("VersionedTree_ifam.cfg", members, SIM_VARIANTS, mode="family", svsample=2)),
    ])
    R.finish()
    for k in ("tree_states_probed", "membership_proofs", "nonmembership_proofs", "mutations_rejected", "bitflips_rejected"):
        ctx.cov[k] = int(proofs.get(k, 0))
    ctx.cov["hash_families"] = {k: int(fam.get(k, 0)) for k in ("families", "positions", "cross_comparisons", "min_members")}
    ctx.cov["iavl_prune_refused_after_restart"] = int(R.sum.get("iavl_prune_refused_after_restart", 0))
    for k in ("replays_saved_idempotently", "proofs_through_replayed_nodes", "version_proofs_verified", "stepwise_prune_patterns"):
        ctx.cov[k] = int(R.sum.get(k, 0))
    # vacuity: LoadVersion(older) + identical replay accepted by SaveVersion, then >= 1 new version from the same session,
    # then a proof through a node the replay wrote, verified against a later version's root
    # vacuity: a single-leaf version, then an unchanged version, then a growth, then two consecutive one-version prunes
    if not ctx.violations and ctx.cov["stepwise_prune_patterns"] < 1:
        raise vlib.Inconclusive("VACUOUS", "no 'single-leaf version / unchanged version / growth / two one-step prunes' history was replayed")
    if not ctx.violations and ctx.cov["proofs_through_replayed_nodes"] < 1:
        raise vlib.Inconclusive("VACUOUS", "no proof through a replayed node after an idempotent save (replays saved idempotently: %d)" % ctx.cov["replays_saved_idempotently"])
    ctx.cov["exhaustive"] = True
    ctx.cov["variants"] = ["memdb / goleveldb", "cache 0 / 1 / 10000", "fast storage off (as the gno stores) / on / toggled at Reopen"]
    ctx.log("replayed %d behaviours, %d steps; %d + %d proofs, %d mutations rejected" % (
        R.sum.get("replays", 0), R.sum.get("steps", 0), proofs.get("membership_proofs", 0), proofs.get("nonmembership_proofs", 0), proofs.get("mutations_rejected", 0)))
    ctx.assumptions += [
        "single goroutine; iterators are drained and closed within a step",
        "calls naming a deleted version, pruning while the working tree or a snapshot rests on a pruned version, and pruning with unsaved changes are outside iavl's contract and not generated (spec header)",
        "iavl.AvailableVersions' [0] for an empty DB and versions below the first retained one (lazy deletion) are not compared",
        "after a restart iavl may refuse DeleteVersionsTo (a deleted version whose root node a retained version shares is rediscovered as first version): counted in iavl_prune_refused_after_restart, the retained versions are still compared in full",
        "collision resistance of SHA-256; ics23 cannot verify empty values (documented), proof runs use non-empty values",
    ]
