"""C49 — The concurrent list is linearizable and never loses wake-ups.
(M) spec/CList.tla: tm2/pkg/clist/clist.go at lock granularity, exhaustive over all interleavings,
    refinement of the sequential spec CListSeq.tla + wake-up safety + liveness under fairness.
(V) un-gated stress of the real clist (harness/cmd/clist): call/return histories validated for
    linearisability by TLC (spec/CListTrace.tla); watchdog for parked waiters after quiescence."""
import json, os, shutil
import vlib
LEVEL = "model_checking"

TRACE = "clist_trace.ndjson"


def model(ctx):
    quick = ctx.tier == "quick"
    runs = [("CList_q.cfg", "safety: 3 elements, 1 pusher, 1 remover, NextWait + NextWaitChan traversers", 900),
            ("CList_live2.cfg" if quick else "CList_live.cfg",
             "liveness NoLostWakeup under fairness, %d elements" % (2 if quick else 3), 1500)]
    if not quick:
        runs += [("CList_t.cfg", "safety: 4 elements, 2 removers, 2 traversers", 2400),
                 ("CList_t3.cfg", "safety: 3 elements, 1 remover, 3 traversers", 2400)]
    for cfg, label, to in runs:
        r = vlib.run_tlc(ctx, "MCCList", cfg, tags=(), timeout=to)
        vlib.require_model_ok(r, cfg)
        ctx.add_tlc(r, label)
        ctx.log("%s: %d distinct states, depth %d, %.0fs" % (cfg, r.distinct, r.depth, r.wall))
    if not quick:
        # the model's properties are not vacuous: each single-line mutant of the MODEL must be caught
        for cfg, want in (("CList_mNoReplaceWg.cfg", "NoPanic"), ("CList_mNoSetRemoved.cfg", "RefRemoved"),
                          ("CList_mNoWake.cfg", "NoLostWakeup"), ("CList_mNoRelink.cfg", "RefNext")):
            r = vlib.run_tlc(ctx, "MCCList", cfg, tags=(), timeout=900)
            if r.error or not r.violated:
                raise vlib.Inconclusive("VACUOUS", "%s: model mutant not caught (%s)" % (cfg, r.error or "no violation"))
            ctx.log("%s: model mutant caught (%s)" % (cfg, r.violated))
        ctx.cov["model_mutants_caught"] = 4


def split_runs(path):
    """-> list of (first_line_no, [events]) per run (1-based line numbers)."""
    runs, cur = [], None
    for i, line in enumerate(open(path), 1):
        e = json.loads(line)
        if e.get("act") == "Reset":
            cur = (i, [e])
            runs.append(cur)
        elif cur:
            cur[1].append(e)
    return runs


def validate(ctx, path, label):
    """TLC accepts the file iff every run has a linearisation. Returns (ok, hwm, TLCResult)."""
    r = vlib.run_tlc(ctx, "CListTrace", "CListTrace.cfg", workers=1, tags=("HWM",), timeout=1800, extra_files=[path])
    if r.ok:
        return True, None, r
    if r.traces and "Accepted" in (r.out or ""):
        return False, int(r.traces[0]), r
    raise vlib.Inconclusive("TLC-ERROR", "%s: %s" % (label, r.error or r.violated or r.out[-800:]))


def stress(ctx, binary, n, seed=None):
    """One driver invocation -> (driver result lines, trace path)."""
    d = ctx.scratch_dir("trace")
    path = os.path.join(d, TRACE)
    env = {"VERIF_SEED": str(seed)} if seed is not None else None
    res = vlib.run_driver(ctx, binary, ["-n", str(n), "-out", path], timeout=900, env_extra=env)
    return res, path


def one_round(ctx, binary, n, seed, label):
    """Returns dict(mismatches=[...], suspects=[...], rejected=None|(run_events, hwm), summary, path, tlc)."""
    res, path = stress(ctx, binary, n, seed)
    out = {"mismatches": [r for r in res if r.get("kind") == "mismatch"],
           "suspects": [r for r in res if r.get("kind") == "suspect"],
           "summary": next((r for r in res if r.get("kind") == "summary"), {}), "path": path, "rejected": None, "tlc": None}
    if out["mismatches"]:
        return out
    ok, hwm, r = validate(ctx, path, label)
    out["tlc"] = r
    if not ok:
        runs = split_runs(path)
        bad = [ev for (first, ev) in runs if first <= hwm + 1][-1] if runs else []
        out["rejected"] = (bad, hwm)
    return out


def conc(ctx, binary, n, seed, label):
    o = one_round(ctx, binary, n, seed, label)
    if o["mismatches"] or o["suspects"] or o["rejected"]:
        # soundness rule 4 / the brief: reproduce before reporting; timing-only => inconclusive
        ctx.log("%s: disagreement (%d panics, %d parked-waiter suspects, rejected=%s) — re-running the same seed" % (
            label, len(o["mismatches"]), len(o["suspects"]), bool(o["rejected"])))
        # (a rejected history / parked waiter of a rare schedule gets more runs to show up again)
        again = [one_round(ctx, binary, n if o["mismatches"] else max(n, 300), seed, label + " (rerun %d)" % i) for i in (1, 2)]
        if o["mismatches"]:
            key = o["mismatches"][0].get("key")
            if all(any(m.get("key") == key for m in a["mismatches"]) for a in again):
                m = o["mismatches"][0]
                ctx.violation(key, m.get("what", ""), m.get("case"))
                return o
            raise vlib.Inconclusive("FLAKY", "panic %s did not reproduce twice" % key)
        if o["suspects"]:
            s = o["suspects"][0]
            definite = lambda x: any(y.get("parked_in_clist", 0) > 0 for y in x["suspects"])
            if definite(o) and all(definite(a) for a in again):
                ctx.violation("C49:lost-wakeup",
                              "after quiescence (every element has a successor or is removed) goroutines stay parked inside clist waits: %s; reproduced in 3 of 3 runs of seed %d\n%s" % (
                                  s.get("stuck"), seed, (s.get("dump") or "")[:1500]),
                              {"kind": "concurrent", "seed": seed, "n": n, "stuck": s.get("stuck"), "events": s.get("events")})
                return o
            raise vlib.Inconclusive("FLAKY", "parked-waiter suspect did not reproduce twice (timing-only): %s" % s.get("stuck"))
        if all(a["rejected"] for a in again):
            ev, hwm = o["rejected"]
            nxt = ""
            try:
                nxt = open(o["path"]).read().splitlines()[hwm]
            except Exception:
                pass
            ctx.violation("C49:not-linearizable",
                          "history of the real clist has no linearisation w.r.t. CListSeq: longest consumable prefix ends at line %d, next event %s; reproduced in 3 of 3 runs of seed %d" % (hwm, nxt, seed),
                          {"kind": "trace", "seed": seed, "n": n, "events": ev})
            return o
        raise vlib.Inconclusive("FLAKY", "rejected history did not reproduce twice")
    s, r = o["summary"], o["tlc"]
    ctx.add("traces_validated_against_impl", int(s.get("runs", 0)))
    ctx.add("impl_calls", int(s.get("ops", 0)))
    ctx.add_tlc(r, label)
    ctx.log("%s: %d runs, %d calls, %d events accepted (%d states, %.0fs)" % (label, s.get("runs", 0), s.get("ops", 0), s.get("events", 0), r.distinct, r.wall))
    return o


def selftest_binding(ctx, path):
    """Corrupt one logged reply: the trace must be rejected (once per run of the check)."""
    lines = open(path).read().splitlines()
    idx = [i for i, l in enumerate(lines[:1500]) if '"act":"Ret"' in l]
    if not idx:
        raise vlib.Inconclusive("VACUOUS", "no Ret event to corrupt")
    i = idx[len(idx) // 2]
    e = json.loads(lines[i])
    e["r"] = e["r"] + 1 if e["r"] < 900 else 0
    lines[i] = json.dumps(e)
    d = ctx.scratch_dir("corrupt")
    p = os.path.join(d, TRACE)
    with open(p, "w") as f:
        f.write("\n".join(lines[:1500 if len(lines) > 1500 else len(lines)]) + "\n")
    ok, hwm, _ = validate(ctx, p, "binding self-test")
    if ok or hwm != i:
        raise vlib.Inconclusive("VACUOUS", "corrupted reply at line %d not rejected there (ok=%s hwm=%s)" % (i + 1, ok, hwm))
    ctx.cov["binding_selftest"] = "reply at line %d corrupted -> rejected with high-water mark %d" % (i + 1, hwm)


def run(ctx):
    binary = vlib.go_build("clist", ctx)
    case = ctx.replay_case()
    if case:
        # un-gated concurrency cannot be replayed step by step: re-run the recorded seed against the current tree
        conc(ctx, binary, int(case.get("n", 40)), int(case.get("seed", ctx.seed)), "replay of seed %s" % case.get("seed"))
        ctx.cov.setdefault("states", 1)
        ctx.cov.setdefault("transitions", 1)
        ctx.cov.setdefault("traces_validated_against_impl", 0)
        return
    quick = ctx.tier == "quick"
    model(ctx)
    o = conc(ctx, binary, 30 if quick else 300, ctx.seed, "stress seed %d" % ctx.seed)
    if ctx.violations:
        return
    selftest_binding(ctx, o["path"])
    for ev in split_runs(o["path"])[-1:]:
        ctx.sample(ev[1][:12])
    if not quick:
        for k in range(1, 5):
            conc(ctx, binary, 300, ctx.seed * 1000 + k, "stress seed %d" % (ctx.seed * 1000 + k))
            if ctx.violations:
                return
    ctx.cov["exhaustive"] = True
    ctx.assumptions += [
        "sync.WaitGroup(1)/closed channel modelled as one-shot latches; sync.RWMutex as atomic critical sections",
        "(V) is un-gated: it validates the schedules the Go runtime produced (GOMAXPROCS = all cores), not all schedules; all schedules are covered on the model only",
        "linearisability is claimed for the forward interface (PushBack, Remove, Front/FrontWait, Next/NextWait/NextWaitChan, Len); Prev/PrevWait/Removed() are not atomic with it by design of Remove"]
