"""C08 — coins leave an address only with that address's authority.
spec/BankerAuth.tla is the statement; spec/Banker.tla model-checks the banker capability mechanics
against it (M) and shows with five mutant switches that the invariants bite; harness/cmd/banker runs
attack programs, negative controls and benign traffic on the REAL gno.land application and records,
per transaction, every tracked balance before/after, the signer's envelope and the honest realm's own
authority counters; spec/BankerTrace.tla (V) accepts a recorded transaction only if it satisfies the
statement."""
import json, os, threading, concurrent.futures as cf, vlib, tracelib
LEVEL = "exploration"
_lock = threading.Lock()
TRACKED = ["u1", "u2", "att", "vault", "vdep", "mal", "mdep", "rtr", "rdep", "coll"]
MUTANTS = {"Banker_mFrom.cfg": ("InvDecrease",), "Banker_mCur.cfg": ("InvDecrease", "InvCapsNeedGrant"), "Banker_mOrigin.cfg": ("InvDecrease", "InvOriginNet"), "Banker_mLast.cfg": ("InvDecrease", "InvOriginNet"), "Banker_mDenom.cfg": ("InvDenom",)}


def lock_scratch(ctx):
    orig = ctx.scratch_dir

    def locked(name):
        with _lock:
            return orig(name)
    ctx.scratch_dir = locked


def record(ctx, binary, rounds):
    out = os.path.join(ctx.scratch_dir("rec"), "banker_trace.ndjson")
    res = vlib.run_driver(ctx, binary, ["-mode", "record", "-out", out, "-n", str(rounds)], timeout=1800)
    summ = {}
    for r in res:
        if r.get("kind") == "summary":
            summ = r
    return [json.loads(l) for l in open(out) if l.strip()], summ


def explain(line):
    """Which clause of the statement does the rejected line break? (guidance for the key only:
    the verdict is TLC's rejection of the line)"""
    pre, post = line["pre"], line["post"]
    dec = [a for a in TRACKED if post[a] < pre[a]]
    if not line["ok"]:
        moved = [a for a in TRACKED if post[a] != pre[a] and a not in (line["signer"], "coll")]
        if moved:
            return "failed-tx-moved-coins:" + "+".join(moved)
        return "failed-tx-overcharged:" + line["signer"]
    bad = []
    for a in dec:
        d = pre[a] - post[a]
        if a == line["signer"]:
            locked = max(0, post["vdep"] - pre["vdep"]) + max(0, post["mdep"] - pre["mdep"]) + max(0, post["rdep"] - pre["rdep"])
            if not line["run"] and (d > line["fee"] + line["sends"] + locked or locked > line["maxdep"]):
                bad.append(a + "-beyond-signed-envelope")
        elif a == "vault":
            if not (line["spends"] > 0 or line["deleg"] > 0):
                bad.append("vault-without-its-authority")
        elif a == "vdep":
            if not line["storV"] < 0:
                bad.append("vdep-without-release")
        elif a in ("u1", "u2", "att"):
            bad.append(a + "-did-not-sign")
    if bad:
        return "unauthorised-decrease:" + "+".join(bad)
    if any(line["postV"][a] < line["preV"][a] for a in TRACKED) or sum(line["postV"].values()) != sum(line["preV"].values()):
        return "realm-denom-without-issuer"
    return "statement"


def validate(ctx, lines, pid="C08"):
    """One TLC run over the whole trace; returns (#accepted, [rejected lines])."""
    import re
    ok, k, r = tracelib.validate(ctx, "BankerTrace", "BankerTrace.cfg", "banker_trace.ndjson", lines, timeout=900)
    ctx.add("trace_states", r.distinct)
    ntx = sum(1 for x in lines if x.get("act") == "Tx")
    if ok:
        return ntx, []
    m = re.search(r'<<\s*"BAD-LINES",\s*<<([0-9,\s]*)>>', r.out)
    bad = [int(x) for x in m.group(1).split(",") if x.strip()] if m else []
    if not bad:
        raise vlib.Inconclusive("TRACE", "trace not consumed (stopped at line %s):\n%s" % (k, r.out[-1500:]))
    return ntx - len(bad), [lines[i - 1] for i in bad]


def run(ctx):
    lock_scratch(ctx)
    binary = vlib.go_build("banker", ctx)
    case = ctx.replay_case()
    if case:
        lines = case["lines"]
        ok, k, r = tracelib.validate(ctx, "BankerTrace", "BankerTrace.cfg", "banker_trace.ndjson", lines)
        ctx.cov.update({"evaluations": len(lines), "distinct_nontrivial": 2, "rule": "re-validation of one recorded transaction (Init line + Tx line)"})
        ctx.sample(lines[-1])
        if not ok:
            ctx.violation("C08:replayed-transaction-rejected", "recorded transaction rejected by BankerTrace", case)
        return
    quick = ctx.tier == "quick"
    # ---- (M)
    with cf.ThreadPoolExecutor(max_workers=6) as ex:
        fm = ex.submit(vlib.run_tlc, ctx, "Banker", "Banker_q.cfg" if quick else "Banker_t.cfg", timeout=2400, workers=4 if quick else None)
        fmut = {c: ex.submit(vlib.run_tlc, ctx, "Banker", c, timeout=600, workers=1) for c in MUTANTS}
        rm = fm.result()
        rmut = {c: f.result() for c, f in fmut.items()}
    vlib.require_model_ok(rm, "Banker")
    ctx.add_tlc(rm, "capability model, all attacker schedules (%s)" % ("1 tx x 3 ops" if quick else "2 txs x 3 ops"))
    for c, want in MUTANTS.items():
        if rmut[c].violated not in want:
            raise vlib.Inconclusive("VACUOUS", "%s: expected %s to be violated, got %s / %s" % (c, want, rmut[c].violated, rmut[c].error))
        ctx.add_tlc(rmut[c], "mutant switch %s violates %s" % (c, rmut[c].violated))
    # ---- (V)
    rounds = 1 if quick else 6
    lines, summ = record(ctx, binary, rounds)
    txs = [x for x in lines if x.get("act") == "Tx"]
    acc, rejected = validate(ctx, lines)
    if rejected:
        # soundness rule 4: reproduce from a fresh application before reporting
        lines2, _ = record(ctx, binary, rounds)
        _, rejected2 = validate(ctx, lines2)
        labels2 = {(x["label"], explain(x)) for x in rejected2}
        for bad in rejected:
            why = explain(bad)
            if (bad["label"], why) not in labels2:
                raise vlib.Inconclusive("FLAKY", "transaction %s rejected once but not on the re-run" % bad["label"])
            pre = {"act": "Init", "bal": bad["pre"], "balV": bad["preV"]}
            ctx.violation("C08:%s:%s" % (why, bad["label"]),
                          "transaction '%s' (%s, signer %s, tx %s) on the real app breaks the statement: %s; balance changes %s" % (
                              bad["label"], bad["cls"], bad["signer"], "ok" if bad["ok"] else "failed", why,
                              {a: bad["post"][a] - bad["pre"][a] for a in TRACKED if bad["post"][a] != bad["pre"][a]}),
                          {"lines": [pre, bad]})
    # ---- what the run covered
    reached = [x for x in txs if x["kind"] != "typecheck"]
    attacks = {x["label"] for x in reached if x["cls"] == "attack"}
    blocked = sum(1 for x in reached if x["cls"] == "attack" and not x["ok"])
    cover = {
        "vault_decrease_with_own_spend": sum(1 for x in txs if x["ok"] and x["post"]["vault"] < x["pre"]["vault"] and x["spends"] > 0),
        "vault_decrease_after_delegation": sum(1 for x in txs if x["ok"] and x["post"]["vault"] < x["pre"]["vault"] and x["deleg"] > 0),
        "deposit_refund_on_release": sum(1 for x in txs if x["ok"] and x["post"]["vdep"] < x["pre"]["vdep"]),
        "signer_pays_send_or_deposit": sum(1 for x in txs if x["ok"] and x["pre"][x["signer"]] - x["post"][x["signer"]] > x["fee"]),
        "origin_send_forwarded": sum(1 for x in txs if x["ok"] and x["origin"] > 0),
        "origin_send_instalments_within_envelope": sum(1 for x in txs if x["ok"] and x["label"] in ("inst-2x-half-exact", "router-2x-half-exact")),
        "realm_denom_mint_burn": sum(1 for x in txs if x["ok"] and x["issues"] > 0),
    }
    ctx.cov.update({"evaluations": len(txs), "distinct_nontrivial": len(attacks),
                    "rule": "one evaluation = one signed transaction run on the real gno.land app (own block), recorded with all tracked balances before/after and validated by TLC against BankerAuth; distinct_nontrivial = distinct attack programs (forged 'from' with RealmSend/OriginSend/RealmIssue and persisted bankers, bankers over cur.Previous() / stale / leaked realm values, hooks called by the victim, fake Banker implementations, relays through the attacker realm, origin-send over-spend, foreign denominations, deposit over-charge, ...) whose code passed type-check and ran on the VM",
                    "attacks_blocked_by_vm": blocked, "attacks_ok_tx": sum(1 for x in reached if x["cls"] == "attack" and x["ok"]),
                    "rejected_at_typecheck": sum(1 for x in txs if x["kind"] == "typecheck"), "controls_ok": sum(1 for x in txs if x["cls"] == "control" and x["ok"]),
                    "benign_ok": sum(1 for x in txs if x["cls"] == "benign" and x["ok"]), "authorised_decrease_classes_observed": cover,
                    "transactions_accepted": acc, "transactions_rejected": len(rejected), "rounds": rounds})
    for x in txs[:2] + [t for t in txs if t["cls"] == "attack"][:2]:
        ctx.sample({k: x[k] for k in ("label", "cls", "signer", "fee", "sends", "maxdep", "ok", "kind", "spends", "deleg", "storV")} |
                   {"delta": {a: x["post"][a] - x["pre"][a] for a in TRACKED if x["post"][a] != x["pre"][a]}}, limit=4)
    missing = [k for k, v in cover.items() if v == 0]
    if rejected:
        return      # violations were reported: the coverage floors below describe a healthy run only
    if missing:
        raise vlib.Inconclusive("VACUOUS", "no recorded transaction exercised: %s" % missing)
    inst = sum(1 for x in reached if x["cls"] == "attack" and ("inst-" in x["label"] or x["label"].startswith("router-")))
    ctx.cov["origin_send_instalment_attacks"] = inst
    if inst < 15:
        raise vlib.Inconclusive("VACUOUS", "only %d origin-send instalment attacks reached the VM" % inst)
    if len(attacks) < 40 or blocked < 40:
        raise vlib.Inconclusive("VACUOUS", "only %d attack programs reached the VM (%d blocked)" % (len(attacks), blocked))
    if ctx.cov["controls_ok"] < 2:
        raise vlib.Inconclusive("VACUOUS", "the delegation controls did not drain the vault: the harness cannot observe a theft")
    ctx.log("txs %d (attacks on VM %d, blocked %d, typecheck-rejected %d, controls ok %d), accepted %d, rejected %d" % (
        len(txs), len(attacks), blocked, ctx.cov["rejected_at_typecheck"], ctx.cov["controls_ok"], acc, len(rejected)))
    ctx.assumptions += ["'a banker minted by R was used' is observed through counters the honest realm keeps in its own state (incremented by its own code right before it mints a banker or hands out its live realm value)",
                        "the attacker's programs are the fixed list of harness/cmd/banker (amounts and order seeded), not all Gno programs",
                        "storage-deposit amounts are bounded by the signer's MaxDeposit only (exact deposit arithmetic is C09)"]
