"""C12 — Published package code is immutable and namespace-protected. spec/Packages.tla (M): the VM
keeper's AddPackage checks as guards in code order over path classes x file-set variants x
public/private x creators, invariants PublicImmutable, PrivateStaysPrivate, OnlyAuthorizedNamespace,
OnlyValidStored, PStateFrozen; (R): TLC behaviours (edges of the bounded graph, stratified by
transaction class) replayed as real signed MsgAddPackage / MsgCall transactions on the real
gno.land application; after every step vm/qfile of every path and the package state (vm/qeval)
are compared with the spec."""
import json, random, threading
from concurrent.futures import ThreadPoolExecutor
import vlib

LEVEL = "model_checking"
JVM = ["-XX:ParallelGCThreads=2"]


def _lock_scratch(ctx):
    if getattr(ctx, "_locked", False):
        return
    lock = threading.Lock()
    orig = ctx.scratch_dir

    def locked(name):
        with lock:
            return orig(name)
    ctx.scratch_dir = locked
    ctx._locked = True


def stratum(beh):
    """Class of the last step: the transaction (creator, path class, file set, flag / call kind),
    the predicted verdict and reason, and what the target path held before."""
    s = beh[-1]
    before = "-"
    if s["act"] == "AddPkg" and len(beh) > 1:
        rec = beh[-2]["st"]["pkgs"].get(s["p"])
        if rec is not None:
            before = "none" if rec["fs"] == "none" else ("private" if rec.get("priv") else "public")
    return json.dumps([s["act"], s.get("c"), s.get("p"), s.get("f"), s.get("priv"), s.get("kind"), s["reply"], s.get("why"), before])


def stratified(behs, k, seed):
    rng = random.Random(seed)
    by = {}
    for b in behs:
        by.setdefault(stratum(b), []).append(b)
    out = []
    for key in sorted(by):
        grp = by[key]
        out += grp if len(grp) <= k else rng.sample(grp, k)
    return out, len(by)


def replay(ctx, binary, jobs, workers):
    _lock_scratch(ctx)
    total = sum(len(b) for _, b in jobs)
    if total == 0:
        return
    workers = max(1, min(workers, total // 60 + 1))
    shards = [[] for _ in range(workers)]
    for label, behs in jobs:
        for i, b in enumerate(behs):
            shards[i % workers].append(b)
    env = {"GNOROOT": vlib.REPO, "GOMAXPROCS": "3"}

    def one(shard):
        return vlib.run_driver(ctx, binary, [], behaviours=shard, timeout=3000, env_extra=env)
    with ThreadPoolExecutor(max_workers=workers) as ex:
        results = list(ex.map(one, [s for s in shards if s]))
    tot = {}
    for res in results:
        s = vlib.handle_driver_results(ctx, res)
        for k, v in s.items():
            if isinstance(v, (int, float)) and not isinstance(v, bool):
                tot[k] = tot.get(k, 0) + v
            elif v:
                tot[k] = v
    if int(tot.get("behaviours", 0)) != total:
        raise vlib.Inconclusive("DRIVER-INCOMPLETE", "%d of %d behaviours replayed" % (tot.get("behaviours", 0), total))
    ctx.add("traces_validated_against_impl", int(tot.get("replays", 0)))
    ctx.add("impl_steps", int(tot.get("steps", 0)))
    ctx.add("impl_txs", int(tot.get("txs", 0)))
    ctx.add("impl_queries", int(tot.get("queries", 0)))
    ctx.add("errclass_drift", int(tot.get("errclass_drift", 0)))
    if tot.get("unreported_failures"):
        ctx.add("unreported_failures", int(tot["unreported_failures"]))
    if tot.get("drift_sample"):
        ctx.cov.setdefault("drift_sample", tot["drift_sample"])
    ctx.log("%d behaviours replayed on the real app in %d processes: %d ok, %d transactions, %d ABCI queries, error-class drift %d" % (
        total, len([s for s in shards if s]), tot.get("replays_ok", 0), tot.get("txs", 0), tot.get("queries", 0), tot.get("errclass_drift", 0)))


def require_acts(behs, acts, what):
    """Vacuity guard: every action of the spec occurs in the behaviours that are replayed."""
    seen = set()
    for b in behs:
        for s in b:
            seen.add(s["act"])
            if "via" in s:
                seen.add("via:" + s["via"])
    missing = sorted(set(acts) - seen)
    if missing:
        raise vlib.Inconclusive("VACUOUS", "%s: no behaviour takes %s" % (what, missing))


def run(ctx):
    binary = vlib.go_build("packages", ctx)
    case = ctx.replay_case()
    if case:
        replay(ctx, binary, [("replay", [case["steps"]])], 1)
        ctx.cov.update({"states": 1, "transitions": 1})
        ctx.sample(case["steps"])
        return
    quick = ctx.tier == "quick"
    _lock_scratch(ctx)
    if quick:
        runs = [("edges <= 3 transactions, all path classes / file sets / mutation kinds", "Packages_qe.cfg", "edge", 1),
                ("exhaustive <= 5 transactions, core alphabet", "Packages_q.cfg", "check", 0)]
    else:
        runs = [("edges <= 3 transactions, all path classes / file sets / mutation kinds", "Packages_qe.cfg", "edge", 4),
                ("edges <= 4 transactions", "Packages_te.cfg", "edge", 6),
                ("exhaustive <= 7 transactions", "Packages_t.cfg", "check", 0)]

    def tlc(run_):
        label, cfg, mode, k = run_
        return vlib.run_tlc(ctx, "MCPackages", cfg, tags=("EDGE",) if mode == "edge" else (), workers=4 if quick else 6, timeout=3000, jvm=JVM)
    with ThreadPoolExecutor(max_workers=3) as ex:
        results = list(ex.map(tlc, runs))
    jobs = []
    for (label, cfg, mode, k), r in zip(runs, results):
        vlib.require_model_ok(r, cfg)
        ctx.add_tlc(r, label + " (" + cfg + ")")
        n = 0
        if mode == "edge":
            behs, ns = stratified(r.traces, k, ctx.seed)
            ctx.cov["strata_" + cfg.split("_")[1].split(".")[0]] = ns
            jobs.append((label, behs))
            n = len(behs)
        ctx.log("TLC %s: %d distinct states, %d transitions, %d behaviours emitted, %d replayed, %.1fs" % (label, r.distinct, r.generated, len(r.traces), n, r.wall))
    require_acts([b for _, bs in jobs for b in bs], ["AddPkg", "Call"], "C12")
    replay(ctx, binary, jobs, 3 if quick else 8)
    ctx.cov["exhaustive"] = True
    ctx.assumptions += [
        "every behaviour uses its own fresh path strings on one application instance (package paths are independent store keys)",
        "the namespace registry is a minimal gno.land/r/sys/names realm deployed at genesis by the driver (alice -> A, bob -> B, own-address namespaces); the keeper mechanism under test is the call to it and the namespace extraction",
        "replayed behaviours are a stratified sample of the emitted edges: every class (transaction x verdict x reason x prior state of the path) is replayed",
    ]
