"""C29 — All database back ends implement the same key-value semantics.
spec/KVBackend.tla (M) + replay (R) of every edge of the bounded graph and of simulated long
behaviours on memdb, goleveldb, pebbledb, boltdb, lmdbdb/mdbxdb (when the build has cgo) and on
the PrefixDB / CollectingDB / ImmutableDB / SnapshotDB wrappers (harness/cmd/kvbackend)."""
import json, os, threading
import vlib

LEVEL = "model_checking"

# abstract key i (1..N) -> bytes (hex); second table: same order without the empty key, for the
# back ends whose doc comments say empty keys are stored under a sentinel (boltdb, lmdbdb, mdbxdb)
TABLES = {
    5: (["", "00", "61", "6100", "ff"], ["00", "0000", "61", "6100", "ff"]),
    8: (["", "00", "61", "6100", "6161", "62", "ff", "ffff"], ["00", "0000", "61", "6100", "6161", "62", "ff", "ffff"]),
}
PURE_GO = ["memdb", "goleveldb", "pebbledb", "boltdb"]
CGO = ["lmdbdb", "mdbxdb"]


class Locked:
    """ctx proxy: scratch_dir under a lock, so TLC runs / drivers can run in parallel threads"""
    _lock = threading.Lock()

    def __init__(self, ctx):
        object.__setattr__(self, "_c", ctx)

    def __getattr__(self, k):
        return getattr(self._c, k)

    def scratch_dir(self, name):
        with Locked._lock:
            return self._c.scratch_dir(name)


def parallel(jobs):
    """jobs: list of callables; returns results in order; re-raises the first exception"""
    res, err = [None] * len(jobs), []

    def run(i, fn):
        try:
            res[i] = fn()
        except BaseException as e:   # noqa
            err.append(e)
    ths = [threading.Thread(target=run, args=(i, fn)) for i, fn in enumerate(jobs)]
    for t in ths:
        t.start()
    for t in ths:
        t.join()
    if err:
        raise err[0]
    return res


def build(ctx):
    try:
        return vlib.go_build("kvbackend", ctx), True
    except vlib.Inconclusive as e:
        if "cgo" not in e.msg and "gcc" not in e.msg and "lmdb" not in e.msg and "mdbx" not in e.msg:
            raise
    old = os.environ.get("CGO_ENABLED")
    os.environ["CGO_ENABLED"] = "0"      # cgo back ends do not build here: pure Go ones only
    try:
        return vlib.go_build("kvbackend", ctx), False
    finally:
        if old is None:
            os.environ.pop("CGO_ENABLED", None)
        else:
            os.environ["CGO_ENABLED"] = old


class Run:
    def __init__(self, ctx, binary):
        self.ctx, self.lctx, self.binary = ctx, Locked(ctx), binary
        self.flaky = []
        self.sum = {}
        self.lock = threading.Lock()

    def tlc(self, cfg, label, **kw):
        r = vlib.run_tlc(self.lctx, "MCKVBackend", cfg, **kw)
        vlib.require_model_ok(r, cfg)
        with self.lock:
            self.ctx.add_tlc(r, label)
            self.ctx.log("tlc %s: %d generated, %d distinct, %d payloads, %.1fs" % (cfg, r.generated, r.distinct, len(r.traces), r.wall))
        return r

    def drive(self, variants, n, behs, timeout=1500):
        if not variants or not behs:
            return
        import time
        t0 = time.time()
        try:
            self._drive(variants, n, behs, timeout)
        finally:
            self.ctx.log("driver: %d behaviours x %d variants (%s ...) in %.1fs" % (len(behs), len(variants), variants[0], time.time() - t0))

    def _drive(self, variants, n, behs, timeout):
        x = {"variants": variants, "table": TABLES[n][0], "table_ne": TABLES[n][1]}
        res = vlib.run_driver(self.lctx, self.binary, ["-x", json.dumps(x)], behaviours=behs, timeout=timeout)
        with self.lock:
            for r in res:
                if r.get("kind") == "flaky":
                    self.flaky.append(r)
            s = vlib.handle_driver_results(self.ctx, res)
            for k, v in s.items():
                if isinstance(v, (int, float)) and not isinstance(v, bool):
                    self.sum[k] = self.sum.get(k, 0) + v


def sample(behs, every, seed):
    return [b for i, b in enumerate(behs) if (i + seed) % every == 0]


def run(ctx):
    binary, cgo = build(ctx)
    res = vlib.run_driver(ctx, binary, ["-mode", "list"])
    have = [r for r in res if r.get("kind") == "backends"][0]["names"]
    R = Run(ctx, binary)
    case = ctx.replay_case()
    if case:
        n = len(case["table"])
        x = {"variants": [case["variant"]], "table": case["table"], "table_ne": case["table"]}
        out = vlib.run_driver(ctx, binary, ["-x", json.dumps(x)], behaviours=[case["steps"]])
        vlib.handle_driver_results(ctx, out)
        ctx.cov.update({"states": 1, "transitions": 1, "traces_validated_against_impl": 1})
        ctx.sample(case["steps"][:8])
        return
    bases = [b for b in PURE_GO + CGO if b in have]
    skipped = [b for b in PURE_GO + CGO if b not in have]
    quick = ctx.tier == "quick"
    # variants. "fast" ones (in memory) get every behaviour, the on-disk ones a seed dependent sample in the quick tier
    fast = ["memdb", "prefix:memdb:70", "prefix:memdb:ff", "prefix:memdb:70ff"]
    slow = [b for b in bases if b != "memdb"] + ["prefix:goleveldb:70ff", "prefix:pebbledb:70", "prefix:boltdb:ff"]
    cfast = ["collecting:memdb"]
    cslow = ["collecting:goleveldb", "collecting:pebbledb", "collecting:boltdb"]
    if not quick:
        slow += ["prefix:%s:%s" % (b, p) for b in bases if b != "memdb" for p in ("70", "ff", "70ff")
                 if "prefix:%s:%s" % (b, p) not in slow]
        cslow += ["collecting:" + b for b in bases if b in CGO]

    ecfg, eccfg = ("KVBackend_qe.cfg", "KVBackend_qce.cfg") if quick else ("KVBackend_te.cfg", "KVBackend_tce.cfg")
    nsim, nsimc = (120, 80) if quick else (3000, 2000)
    jobs = [
        lambda: R.tlc(ecfg, "exhaustive+edges plain " + ecfg, tags=("EDGE",), timeout=1500, workers=6),
        lambda: R.tlc(eccfg, "exhaustive+edges CollectingDB " + eccfg, tags=("EDGE",), timeout=1500, workers=6),
        lambda: R.tlc("KVBackend_sim.cfg", "simulate plain N=8 depth 40", mode="simulate", simulate=nsim, depth=45, tags=("TRACE",), timeout=1500),
        lambda: R.tlc("KVBackend_simc.cfg", "simulate CollectingDB N=8 depth 40", mode="simulate", simulate=nsimc, depth=45, tags=("TRACE",), timeout=1500),
    ]
    if not quick:
        jobs += [lambda: R.tlc("KVBackend_t1.cfg", "exhaustive plain len<=6 (no emission)", timeout=3000, workers=4),
                 lambda: R.tlc("KVBackend_t1c.cfg", "exhaustive CollectingDB len<=6 (no emission)", timeout=3000, workers=4)]
    rs = parallel(jobs)
    edges, cedges, sim, simc = rs[0].traces, rs[1].traces, rs[2].traces, rs[3].traces
    ctx.cov["edges_emitted"] = len(edges) + len(cedges)
    ctx.log("TLC done: %d + %d edges, %d + %d simulated behaviours" % (len(edges), len(cedges), len(sim), len(simc)))
    every = 25 if quick else 6      # on-disk variants: every n-th edge behaviour (offset by the seed)
    severy = 2 if quick else 2       # ... and every n-th simulated behaviour
    djobs = [
        lambda: R.drive(fast, 5, edges),
        lambda: R.drive(fast, 8, sim),
        lambda: R.drive(slow, 5, sample(edges, every, ctx.seed)),
        lambda: R.drive(slow, 8, sample(sim, severy, ctx.seed)),
        lambda: R.drive(cfast, 5, cedges),
        lambda: R.drive(cfast, 8, simc),
        lambda: R.drive(cslow, 5, sample(cedges, every, ctx.seed)),
        lambda: R.drive(cslow, 8, sample(simc, severy, ctx.seed)),
    ]
    parallel(djobs)
    s = R.sum
    ctx.add("traces_validated_against_impl", int(s.get("replays", 0)))
    ctx.add("impl_steps", int(s.get("steps", 0)))
    ctx.cov["replays_per_variant"] = {k[len("replays."):]: int(v) for k, v in sorted(s.items()) if k.startswith("replays.")}
    for k in ("iter_items", "iter_write_probes", "held_slices_checked", "get_write_probes", "get_aliased_in_contract",
              "iter_nil_for_empty_value", "snapshot_steps_skipped"):
        ctx.cov[k] = int(s.get(k, 0))
    ctx.cov["backends"] = bases
    ctx.cov["backends_skipped"] = skipped
    ctx.cov["exhaustive"] = True
    ctx.log("replayed %d behaviours x variants = %d replays (%d ok), %d steps; back ends %s, not in this build: %s" %
            (len(edges) + len(cedges) + len(sim) + len(simc), s.get("replays", 0), s.get("replays_ok", 0), s.get("steps", 0),
             ",".join(bases), ",".join(skipped) or "-"))
    ctx.assumptions += [
        "abstract keys 1..N are embedded by order preserving byte tables (empty key, 0x00/0xFF neighbours, prefix-adjacent decoys)",
        "documented per back end constants: empty keys go to a sentinel on boltdb/lmdbdb/mdbxdb (table without the empty key); snapshots only on memdb and pebbledb; CollectingDB iterators and snapshots bypass pending writes",
        "Get's returned value is read-only for the caller by the interface contract: writing into it is measured (get_aliased_in_contract), not a verdict; iterator Key/Value must be copies",
        "on-disk back ends run with their documented no-sync options (boltdb NoSync, lmdb NoSync, mdbx UtterlyNoSync); durability across power loss is C27's subject",
    ]
    if R.flaky:
        raise vlib.Inconclusive("FLAKY", json.dumps(R.flaky[:3])[:1500])
