"""C36 — Commit verification accepts exactly the commits with +2/3 valid signatures.
spec/CommitVerify.tla (M: Sound / Complete on every enumerated commit shape) + (R) every shape
built with real ed25519 signatures and given to the real VerifyCommit / VerifyFutureCommit."""
import vlib
LEVEL = "model_checking"


def run(ctx):
    binary = vlib.go_build("commitverify", ctx)
    case = ctx.replay_case()
    if case:
        s = vlib.handle_driver_results(ctx, vlib.run_driver(ctx, binary, [], behaviours=[case["steps"]]))
        ctx.cov.update({"states": 1, "transitions": 1, "traces_validated_against_impl": int(s.get("replays", 0))})
        ctx.sample(case["steps"])
        return
    cfg = "CommitVerify_q.cfg" if ctx.tier == "quick" else "CommitVerify_t.cfg"
    r = vlib.run_tlc(ctx, "MCCommitVerify", cfg, tags=("TRACE",), timeout=2400)
    vlib.require_model_ok(r, cfg)
    ctx.add_tlc(r, "exhaustive shapes " + cfg)
    if len(r.traces) != r.distinct - 1:
        raise vlib.Inconclusive("VACUOUS", "%d shapes emitted for %d states" % (len(r.traces), r.distinct))
    ctx.log("TLC: %d commit shapes, Sound/Complete hold, %.1fs" % (len(r.traces), r.wall))
    s = vlib.handle_driver_results(ctx, vlib.run_driver(ctx, binary, [], behaviours=r.traces, timeout=2400))
    ctx.add("traces_validated_against_impl", int(s.get("replays", 0)))
    ctx.add("impl_calls", int(s.get("calls", 0)))
    ctx.cov["impl_accepts"] = int(s.get("accepts", 0))
    ctx.cov["impl_future_accepts"] = int(s.get("vfc_accepts", 0))
    ctx.cov["shapes_round_tripped_through_amino"] = int(s.get("decodable", 0))
    spec_acc = sum(1 for t in r.traces for st in t[1:] if st["reply"] == "accept")
    ctx.cov["spec_accepts"] = spec_acc
    if spec_acc == 0 or not any(st["reply"] == "accept" and st["act"] == "VFC" for t in r.traces for st in t[1:]):
        raise vlib.Inconclusive("VACUOUS", "no accepting call among the enumerated shapes")
    ctx.log("replayed %d shapes / %d calls on the real ValidatorSet: %d fully agreeing, %d accepts (%d future)" % (
        s.get("replays", 0), s.get("calls", 0), s.get("replays_ok", 0), s.get("accepts", 0), s.get("vfc_accepts", 0)))
    ctx.cov["exhaustive"] = True
    ctx.assumptions += [
        "ed25519 signatures of the test keys verify/fail as the primitive specifies (C44/C47 territory)",
        "a present precommit with a signature that does not verify rejects the commit even when it is a stray one (documented in VerifyCommit; spec header)",
        "CommitSig.ValidatorAddress/ValidatorIndex are unsigned and ignored by VerifyCommit; VerifyFutureCommit maps entries to old validators by ValidatorAddress (spec header)",
        "validator sets of 0-4 members over a pool of 4 keys, powers 1-4; entry classes of the spec; heights 0,3,4",
    ]
