"""C28 — Queries never interfere with consensus and see one committed version. spec/Commit.tla:
the required design is model-checked exhaustively (M); every edge of the bounded interleaving graph
of the code's step structure is replayed on the REAL sdk.BaseApp + rootmulti with both connections
gated at DB-wrapper calls, the Commit log call and (when present) the verifhook yield points (R);
free-running queries against the real gno.land application are validated against the per-height
reference (V)."""
import os, vlib
LEVEL = "model_checking"


_cache = {}


def replay(ctx, binary, cfg, x, label, timeout=900, gno=0):
    if cfg not in _cache:
        r = vlib.run_tlc(ctx, "MCCommit", cfg, tags=("EDGE",), timeout=timeout, workers=4)
        vlib.require_model_ok(r, cfg)
        ctx.add_tlc(r, label)
        _cache[cfg] = (r, vlib.dedup_prefix(r.traces))
    r, behs = _cache[cfg]
    args = ["-x", x] + (["-mode", "gno", "-n", str(gno)] if gno else [])
    res = vlib.run_driver(ctx, binary, args, behaviours=behs, timeout=2400)
    for line in res:
        if line.get("kind") == "flaky":
            raise vlib.Inconclusive("FLAKY", "%s: %s then %s" % (line.get("key"), line.get("what"), line.get("second")))
    s = vlib.handle_driver_results(ctx, res)
    if s.get("stuck_steps", 0) >= 3:
        raise vlib.Inconclusive("TIMEOUT", "%s: a goroutine the schedule says is runnable did not reach its gate (%s)" % (label, s.get("drift_samples")))
    if s.get("gate_drift", 0):
        # a schedule that leaves the model's gate sequence is still judged on what its queries return;
        # only when none of the drifted schedules shows a verdict violation is the drift itself the result
        if not s.get("gate_drift_with_violation", 0):
            raise vlib.Inconclusive("GATE-DRIFT", "%s: %d schedules left the model and none of them violated the verdict: %s" % (label, s["gate_drift"], s.get("drift_samples")))
        ctx.notes.append("%s: %d schedules left the model's gate sequence, %d of them with a verdict violation: %s" %
                         (label, s["gate_drift"], s["gate_drift_with_violation"], (s.get("drift_samples") or [""])[0]))
    if not s.get("queries_ok"):
        raise vlib.Inconclusive("VACUOUS", "%s: no query completed" % label)
    ctx.add("traces_validated_against_impl", int(s.get("replays", 0)))
    ctx.add("impl_steps", int(s.get("steps", 0)))
    ctx.add("queries_run", int(s.get("queries", 0)))
    ctx.add("queries_ok", int(s.get("queries_ok", 0)))
    ctx.add("mempool_checktx_run", int(s.get("checktx_run", 0)))
    ctx.add("query_results_differing_from_code_model", int(s.get("query_drift", 0)))
    ctx.cov.setdefault("replays", []).append({"cfg": cfg, "x": x, "app": "gno.land" if gno else "plain BaseApp", "edges": len(r.traces), "behaviours": int(s.get("behaviours", 0)),
                                              "violating": int(s.get("violating", 0)), "by_key": s.get("violations_by_key")})
    ctx.log("%s%s: %d edges -> %d behaviours replayed, %d queries, %d violating" % (label, " [gno.land app]" if gno else "", len(r.traces), s.get("behaviours", 0), s.get("queries", 0), s.get("violating", 0)))
    return s


def run(ctx):
    hooks = os.path.exists(os.path.join(vlib.REPO, "tm2", "pkg", "verifhook", "on.go"))
    binary = vlib.go_build("querycommit", ctx, tags="verif,verifhook" if hooks else "verif")
    ctx.cov["hooks_present"] = hooks
    case = ctx.replay_case()
    if case:
        if case.get("hooks") and not hooks:
            raise vlib.Inconclusive("HOOK-MISSING", "the replay file needs the verifhook yield points")
        args = ["-x", case["cfg"]] + (["-mode", "gno"] if case.get("app") == "gnoland" else [])
        res = vlib.run_driver(ctx, binary, args, behaviours=[case["steps"]])
        s = vlib.handle_driver_results(ctx, res)
        ctx.cov.update({"states": 1, "transitions": 1, "traces_validated_against_impl": int(s.get("replays", 0))})
        ctx.sample([x.get("act") for x in case["steps"]])
        return
    # (M) the design the property requires: resolve+acquire atomic w.r.t. the publication steps
    r = vlib.run_tlc(ctx, "MCCommit", "Commit_q.cfg", timeout=900, workers=4)
    vlib.require_model_ok(r, "Commit_q")
    ctx.add_tlc(r, "required design, exhaustive: 3 commits, 2 queries (custom/simulate/store, both read orders)")
    if ctx.tier == "thorough":
        r = vlib.run_tlc(ctx, "MCCommit", "Commit_t.cfg", timeout=1800)
        vlib.require_model_ok(r, "Commit_t")
        ctx.add_tlc(r, "required design, exhaustive: 4 commits, 3 queries, KeepRecent=1")
        rc = vlib.run_tlc(ctx, "MCCommit", "Commit_code.cfg", timeout=900, workers=4)
        if rc.error:
            raise vlib.Inconclusive("TLC-ERROR", rc.error)
        ctx.cov["code_step_structure_in_model"] = ("violates " + rc.violated) if rc.violated else "satisfies QueryConsistent"
    # (R) every edge of the code-structured graph on the real code
    if hooks:
        replay(ctx, binary, "Commit_codef_qe.cfg", "snap=1,keep=-1,maxver=3,fine=1", "code structure with yield hooks, snapshots")
    else:
        replay(ctx, binary, "Commit_code_qe.cfg", "snap=1,keep=-1,maxver=3", "code structure (DB-wrapper and logger gates), snapshots")
        ctx.cov["skipped"] = ["schedules that separate LastBlockHeight()|acquire and snapshot swap|setLastCommitID: tm2/pkg/verifhook is not in the tree (hooks/verifhook-rootmulti.diff)"]
    replay(ctx, binary, "Commit_nosnap_qe.cfg", "snap=0,keep=-1,maxver=3", "backend without snapshots (ImmutableDB fallback)")
    # the same schedules on the real gno.land application (vm/qeval and .app/simulate of a realm function
    # that returns its counter - base store - and its coins - main store)
    ng = 40 if ctx.tier == "quick" else 600
    if hooks:
        replay(ctx, binary, "Commit_codef_qe.cfg", "snap=1,fine=1", "code structure with yield hooks, snapshots", gno=ng)
    else:
        replay(ctx, binary, "Commit_code_qe.cfg", "snap=1", "code structure (DB-wrapper and logger gates), snapshots", gno=ng)
    if ctx.tier == "thorough":
        replay(ctx, binary, "Commit_codep_qe.cfg", "snap=1,keep=0,maxver=3", "code structure, KeepRecent=0 (queries racing pruning)")
        replay(ctx, binary, "Commit_code_qe.cfg", "snap=1,keep=-1,maxver=3,main=iavl,mount=nil", "IAVL main store, nil mount")
    ctx.cov["exhaustive"] = True
    ctx.assumptions += ["block n writes the tag n to both stores, so the height a value came from is read off the value",
                        "model/code agreement on (published height, durable height, snapshot height) is checked after every step; "
                        "query results are judged on the real values only (one height per query, durable when read)",
                        "Snapshots=FALSE backends: reads are documented as unisolated; only 'never uncommitted' and non-interference are judged there"]
