"""C23 — The B+ tree is a correct versioned ordered map.
spec/VersionedTree.tla (Impl = "bptree"): (M) exhaustive on 3 keys, (R) every edge of the bounded
graph, every read on every small map, and simulated long behaviours over 6 / 90 / 700 / 1300 / 1500 keys
(leaf and inner-node splits, redistribution, merges, root collapse of the B = 32 tree) replayed on
the real bptree.MutableTree over memdb and goleveldb, with every cache size / fast-index setting."""
import os, sys
sys.path.insert(0, os.path.dirname(os.path.abspath(__file__)))
import vlib
import vtree_common as vt

LEVEL = "model_checking"

EDGE_VARIANTS = [
    {"db": "memdb", "cache": 0, "fast": True},
    {"db": "memdb", "cache": 10000, "fast": False},
]
SIM_VARIANTS = [{"db": "memdb", "init": True}, {"db": "goleveldb", "init": True}]
# the shape replays: no node cache, a small one, and whatever the behaviour starts with (Reopen changes it on the way)
SHAPE_VARIANTS = [{"db": "memdb", "cache": 0, "fast": False}, {"db": "goleveldb", "cache": 8, "fast": True}, {"db": "memdb", "init": True}]


def run(ctx):
    binary = vlib.go_build("vtree", ctx)
    ctx.log("driver built")
    case = ctx.replay_case()
    if case:
        vt.replay_case(ctx, binary, case)
        return
    R = vt.Run(ctx, binary, "C23")
    quick = ctx.tier == "quick"
    ecfg, rcfg, xcfg = ("VersionedTree_qe.cfg", "VersionedTree_qr.cfg", "VersionedTree_q.cfg") if quick else \
                       ("VersionedTree_te.cfg", "VersionedTree_tr.cfg", "VersionedTree_t.cfg")
    n_s, n_m, n_l, n_x, n_y = (60, 24, 0, 0, 8) if quick else (2000, 400, 160, 120, 160)
    procs = 1 if quick else 6
    jobs = [
        lambda: R.tlc(ecfg, "exhaustive+edges 3 keys " + ecfg, tags=("EDGE",), timeout=3000, workers=6),
        lambda: R.tlc(rcfg, "exhaustive+edges reads on every map over 3 keys " + rcfg, tags=("EDGE",), timeout=3000, workers=4),
        lambda: R.tlc(xcfg, "exhaustive (no emission) " + xcfg, timeout=3000, workers=4),
        lambda: R.sims("VersionedTree_sims.cfg", "simulate 6 keys, 5 versions, 2 snapshots, depth 40", n_s, 45, procs=min(procs, 3), timeout=3000),
        lambda: R.sims("VersionedTree_simm.cfg", "simulate 90 keys, depth 50", n_m, 55, procs=procs, timeout=3000),
        lambda: R.sims("VersionedTree_sim.cfg", "simulate 700 keys, 8 versions, depth 50", n_l, 55, procs=8, timeout=3000) if n_l else [],
        lambda: R.sims("VersionedTree_simx.cfg", "simulate 1300 keys (tree height 2: inner-node splits / merges), depth 50", n_x, 55, procs=8, timeout=3000) if n_x else [],
        # shape simulation: cycles of clear / full fill / trim every leaf to the minimum / one key out of every leaf, so that
        # inner nodes underflow next to siblings with unequal children (borrow from the right / left inner sibling, inner merges)
        lambda: R.sims("VersionedTree_simy.cfg", "shape simulation 1500 keys (three levels; inner-node borrow / merge), depth 35", n_y, 40, procs=2 if quick else 8, timeout=3000),
    ]
    rs = vt.parallel(jobs)
    edges, redges, sims_s, sims_m, sims_l, sims_x, sims_y = rs[0].traces, rs[1].traces, rs[3], rs[4], rs[5], rs[6], rs[7]
    ctx.cov["edges_emitted"] = len(edges) + len(redges)
    ctx.log("TLC done: %d + %d edges, %d + %d + %d + %d + %d simulated behaviours" % (len(edges), len(redges), len(sims_s), len(sims_m), len(sims_l), len(sims_x), len(sims_y)))
    # every proper prefix of an edge behaviour is an edge behaviour of its own: the full projection
    # (all reads of the working tree and of every retained version) is compared on the last step,
    # replies on every step
    vt.parallel([
        lambda: R.drive(ecfg, edges, EDGE_VARIANTS, checklast=1),
        lambda: R.drive(rcfg, redges, EDGE_VARIANTS[:1], checklast=1),
        lambda: R.drive("VersionedTree_sims.cfg", sims_s, SIM_VARIANTS, freshhandle=True),
        # large trees: GetByIndex / GetWithIndex on every 3rd..7th key and index, and on every key within 40 of the span
        # the last write worked on (working tree every step; every retained version and open snapshot on version steps)
        lambda: R.drive("VersionedTree_simm.cfg", sims_m, SIM_VARIANTS, denseidx=True, freshhandle=True),
        lambda: R.drive("VersionedTree_sim.cfg", sims_l, SIM_VARIANTS, denseidx=True, freshhandle=True),
        lambda: R.drive("VersionedTree_simx.cfg", sims_x, SIM_VARIANTS, denseidx=True, freshhandle=True),
        # freshhandle: after every SaveVersion a brand-new handle on the same DB must report the hash SaveVersion returned and
        # the contents of the version (nothing may live only in the node cache of the writing handle)
        lambda: R.drive("VersionedTree_simy.cfg", sims_y, SHAPE_VARIANTS, denseidx=True, freshhandle=True, shapestats=True, svsample=3),
    ])
    R.finish()
    ctx.cov["inner_merges_into_untouched_left"] = int(R.sum.get("inner_merges_into_untouched_left", 0))
    ctx.cov["replays_saved_idempotently"] = int(R.sum.get("replays_saved_idempotently", 0))
    ctx.cov["exhaustive"] = True
    ctx.cov["variants"] = ["memdb / goleveldb", "cache 0 / 1 / 4 / 10000", "fast index on / off / toggled at Reopen"]
    ctx.log("replayed %d behaviours, %d steps, %d states compared" % (R.sum.get("replays", 0), R.sum.get("steps", 0), R.sum.get("states_compared", 0)))
    ctx.assumptions += [
        "single goroutine (the MutableTree contract); iterators are drained and closed within a step",
        "the working tree of a poisoned session (failed SaveVersion) is not read until Rollback / LoadVersion (its staged values are discarded by design)",
        "Reopen models a restart without a crash inside a batch write (C26 / C27)",
        "hashes are not compared here (C24)",
    ]
