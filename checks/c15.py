"""C15 — Only correctly signed, fresh transactions take effect.
spec/Ante.tla model-checked (M); one behaviour per edge of the bounded graph (every single-field
corruption of every signer set, resubmissions in the same block / a later block / after a
restart) and simulated longer histories replayed as real signed bytes on the REAL gno.land
application (R)."""
import random, threading, vlib
LEVEL = "model_checking"
PID = "C15"
JVM = ["-XX:ActiveProcessorCount=4", "-XX:TieredStopAtLevel=1"]   # short runs on a shared machine

NEED = ["A:none:none/accept", "B:none:none/accept", "AB:none:none/accept", "AA:none:none/accept", "M:none:none/accept",
        "S:none:none/accept", "R:none:none/accept", "M:ms3:none/accept", "A:nopk:none/accept", "B:nopk:none/reject",
        "A:chain:none/reject", "A:accnum:none/reject", "A:stale:none/reject", "A:future:none/reject", "A:body:none/reject",
        "A:flip:none/reject", "A:otherkey:none/reject", "A:crosskey:none/reject", "S:crosskey:none/reject",
        "A:unknownsess:none/reject", "M:ms1:none/reject", "M:msbad:none/reject", "AB:none:swap/reject",
        "AB:none:missing/reject", "AA:none:extra/reject", "A:none:fee/reject", "S:none:none/reject",
        "Resubmit:same/reject", "Resubmit:next/reject", "Resubmit:restart/reject"]


def cls(step):
    if step.get("act") == "Resubmit":
        return "Resubmit:%s/%s" % (step.get("where"), step.get("reply"))
    return "%s:%s:%s/%s" % (step.get("k"), step.get("mu"), step.get("tm"), step.get("reply"))


def was_accepted_before(b):
    """last step resubmits a transaction that had been accepted earlier in the behaviour"""
    s = b[-1]
    return s.get("act") == "Resubmit" and b[int(s["j"]) - 1].get("reply") == "accept"


def run(ctx):
    binary = vlib.go_build("ante", ctx)
    case = ctx.replay_case()
    if case:
        res = vlib.run_driver(ctx, binary, ["-mode", "signers"] if case.get("mode") == "signers" else [], behaviours=[case["steps"]], timeout=1200)
        vlib.handle_driver_results(ctx, res)
        ctx.cov.update({"states": 1, "transitions": 1, "traces_validated_against_impl": 1})
        ctx.sample(case["steps"][-1])
        return
    quick = ctx.tier == "quick"
    if not quick:
        r = vlib.run_tlc(ctx, "MCAnte", "Ante_t.cfg", timeout=3000, workers=4, jvm=JVM)
        vlib.require_model_ok(r, "Ante_t.cfg")
        ctx.add_tlc(r, "exhaustive, 4 submissions, all properties")
    ecfg = "Ante_qe.cfg" if quick else "Ante_te.cfg"
    n = 60 if quick else 1500
    out = {}

    def edges():
        out["e"] = vlib.run_tlc(ctx, "MCAnte", ecfg, tags=("EDGE",), timeout=3000, workers=4, jvm=JVM)
        if not quick:   # the 2-submission graph with same-block submissions as well
            out["e2"] = vlib.run_tlc(ctx, "MCAnte", "Ante_qe.cfg", tags=("EDGE",), timeout=3000, workers=4, jvm=JVM)

    def sims():
        out["s"] = vlib.run_tlc(ctx, "MCAnte", "Ante_simq.cfg" if quick else "Ante_sim.cfg", mode="simulate", simulate=n, depth=9, tags=("TRACE",), timeout=1800,
                                jvm=["-XX:ActiveProcessorCount=2", "-XX:TieredStopAtLevel=1"])
    lock = threading.Lock()
    orig = ctx.scratch_dir

    def locked(name):
        with lock:
            return orig(name)
    ctx.scratch_dir = locked
    def signer_edges():
        out["g"] = vlib.run_tlc(ctx, "MCAnteSigners", "AnteSigners_qe.cfg", tags=("EDGE",), timeout=3000, workers=4, jvm=JVM)
    ths = [threading.Thread(target=f) for f in (edges, sims, signer_edges)]
    for t in ths:
        t.start()
    for t in ths:
        t.join()
    ctx.scratch_dir = orig
    if "e" not in out or "s" not in out or "g" not in out:
        raise vlib.Inconclusive("TLC-ERROR", "a TLC run did not return")
    r, rs = out["e"], out["s"]
    vlib.require_model_ok(r, ecfg)
    vlib.require_model_ok(rs, "Ante_sim.cfg")
    ctx.add_tlc(r, "exhaustive (NoReplay, SeqBumpedExactlyOnce, AnteRejectIsNoOp, OnlyValidTakeEffect) + one behaviour per edge, " + ecfg)
    ctx.add_tlc(rs, "simulate, %d submissions" % (5 if quick else 7))
    ctx.cov["edges_emitted"] = len(r.traces)
    behs = vlib.dedup_prefix(r.traces)
    if "e2" in out:
        vlib.require_model_ok(out["e2"], "Ante_qe.cfg")
        ctx.add_tlc(out["e2"], "exhaustive + one behaviour per edge, Ante_qe.cfg")
        ctx.cov["edges_emitted"] += len(out["e2"].traces)
        behs += [b for b in vlib.dedup_prefix(out["e2"].traces) if any(s.get("where") == "same" for s in b)]
    if quick:
        # all resubmissions of an accepted transaction, a few behaviours of every input class, and a seeded sample of the rest
        rng = random.Random(ctx.seed)
        must = [b for b in behs if was_accepted_before(b)]
        rest = [b for b in behs if not was_accepted_before(b)]
        rng.shuffle(rest)
        per, first, later = {}, [], []
        for b in rest:
            k = cls(b[-1])
            per[k] = per.get(k, 0) + 1
            (first if per[k] <= 3 else later).append(b)
        behs = must + first + later[:max(0, 450 - len(must) - len(first))]
    ctx.cov["edges_replayed"] = len(behs)
    seen = {}
    for b in behs:
        k = cls(b[-1])
        seen[k] = seen.get(k, 0) + 1
        if was_accepted_before(b):
            seen["replay-of-accepted"] = seen.get("replay-of-accepted", 0) + 1
    for b in rs.traces:
        for s in b:
            k = cls(s)
            seen[k] = seen.get(k, 0) + 1
    missing = [k for k in NEED + ["replay-of-accepted"] if not seen.get(k)]
    if missing:
        raise vlib.Inconclusive("VACUOUS", "input classes never generated: %s" % missing)
    ctx.cov["input_classes"] = len(seen)
    ctx.cov["replays_of_accepted_tx"] = seen.get("replay-of-accepted", 0)
    # second machine (AnteSigners.tla): WHO must sign - messages with several signers, on the real ante handler + keepers
    g = out["g"]
    vlib.require_model_ok(g, "AnteSigners_qe.cfg")
    ctx.add_tlc(g, "exhaustive (EverySignerSigned, ExactlyOneEach, SeqExactlySigners, RejectIsNoOp) + one behaviour per edge, AnteSigners_qe.cfg")
    gb = vlib.dedup_prefix(g.traces)
    ctx.cov["signer_edges_emitted"] = len(g.traces)
    if quick:
        rng2 = random.Random(ctx.seed + 17)
        trap = [b for b in gb if b[-1].get("trap")]
        rest = [b for b in gb if not b[-1].get("trap")]
        rng2.shuffle(trap)
        rng2.shuffle(rest)
        gb = trap[:800] + rest[:700]
    ctx.cov["signer_edges_replayed"] = len(gb)
    gres = vlib.run_driver(ctx, binary, ["-mode", "signers"], behaviours=gb, timeout=3000)
    gs = vlib.handle_driver_results(ctx, gres)
    if gs.get("flaky"):
        raise vlib.Inconclusive("FLAKY", "%d signer-set behaviours failed once and passed on a fresh keeper" % gs["flaky"])
    if not gs.get("trap_rejected") or not gs.get("trap_accepted"):
        raise vlib.Inconclusive("VACUOUS", "no transaction whose later message starts with the last collected signer and needs further signers (rejected %s, accepted %s)" % (gs.get("trap_rejected"), gs.get("trap_accepted")))
    ctx.cov["later_message_starts_with_last_collected_signer"] = {"under-signed, must be rejected": int(gs["trap_rejected"]), "fully signed, must be accepted": int(gs["trap_accepted"])}
    ctx.add("traces_validated_against_impl", int(gs.get("replays", 0)))
    ctx.add("impl_steps", int(gs.get("steps", 0)))
    ctx.log("%d signer-set behaviours replayed on the real ante handler (%d txs), %d ok" % (len(gb), gs.get("steps", 0), gs.get("replays_ok", 0)))
    res = vlib.run_driver(ctx, binary, [], behaviours=behs + rs.traces, timeout=6000)
    s = vlib.handle_driver_results(ctx, res)
    if s.get("flaky"):
        raise vlib.Inconclusive("FLAKY", "%d behaviours failed once and passed on a fresh application" % s["flaky"])
    ctx.add("traces_validated_against_impl", int(s.get("replays", 0)))
    ctx.add("impl_steps", int(s.get("steps", 0)))
    ctx.log("%d behaviours replayed on the real application (%d txs), %d ok" % (len(behs) + len(rs.traces), s.get("steps", 0), s.get("replays_ok", 0)))
    ctx.cov["exhaustive"] = True
    ctx.assumptions += [
        "secp256k1 signatures of the test keys verify / fail as the primitive specifies (C44/C47 territory)",
        "quick tier: histories of 2 submissions exhaustively in the model, of which all resubmissions of accepted transactions and a seeded sample of the remaining edges are replayed, plus simulated histories of 7; the thorough tier replays every edge of the 3-submission graph",
        "the fee collector is shared between behaviours run in the same blocks: the fee is observed at the payer",
        "messages with several signers exist only as the repository's registered test message (testutils.TestMsg): the signer-set machine is bound to Tx.GetSigners / Tx.ValidateBasic / the real ante handler and keepers, not to the full application",
    ]
