"""C26 — The bptree fast index never serves a stale value. spec/FastIndex.tla model-checked (M):
writer session, commits, crashes, restarts with the feature toggled, rootmulti's collector, and a
read-only loader whose three reads interleave with commits (the gno#6011 window). Behaviours are
replayed on the REAL storebptree.Store, standalone / mounted in a real rootmulti / with a gated
concurrent loader over the live DB, with a projection-level FastSound scan after every step (R)."""
import vlib
LEVEL = "model_checking"

MODES = {  # cfg -> driver -x
    "FastIndex_sqe.cfg": "mode=S,keep=-1", "FastIndex_dqe.cfg": "mode=S,keep=-1", "FastIndex_se.cfg": "mode=S,keep=-1", "FastIndex_ssim.cfg": "mode=S,keep=1",
    "FastIndex_rqe.cfg": "mode=R,keep=1", "FastIndex_re.cfg": "mode=R,keep=1", "FastIndex_rsim.cfg": "mode=R,keep=1",
    "FastIndex_lqe.cfg": "mode=L,keep=-1", "FastIndex_le.cfg": "mode=L,keep=-1", "FastIndex_lsim.cfg": "mode=L,keep=-1",
}


def replay(ctx, binary, cfg, label, sim=0, depth=18, timeout=1500, need=()):
    if sim:
        r = vlib.run_tlc(ctx, "MCFastIndex", cfg, mode="simulate", simulate=sim, depth=depth, tags=("TRACE",), timeout=timeout)
    else:
        r = vlib.run_tlc(ctx, "MCFastIndex", cfg, tags=("EDGE",), timeout=timeout)
    vlib.require_model_ok(r, cfg)
    ctx.add_tlc(r, label)
    behs = r.traces if sim else vlib.dedup_prefix(r.traces)
    res = vlib.run_driver(ctx, binary, ["-x", MODES[cfg]], behaviours=behs, timeout=3000)
    for line in res:
        if line.get("kind") == "flaky":
            raise vlib.Inconclusive("FLAKY", "%s: %s" % (line.get("key"), line.get("what")))
    s = vlib.handle_driver_results(ctx, res)
    if s.get("stuck_steps", 0) >= 3:
        raise vlib.Inconclusive("TIMEOUT", "%s: gated loader did not reach its gates" % label)
    # "drift" counts behaviours whose raw DB content left the model WITHOUT a verdict violation; a behaviour
    # that diverges is still scanned and probed to its end, and when one of the diverging behaviours fails the
    # verdict the divergence is only noted
    if s.get("drift", 0) and (s.get("drift_with_violation", 0) or s.get("violating", 0) or ctx.violations):
        ctx.notes.append("%s: %d behaviours drifted from the model without, %d with a verdict violation (%d violating in all)" %
                         (label, s["drift"], s.get("drift_with_violation", 0), s.get("violating", 0)))
    elif s.get("drift", 0):
        raise vlib.Inconclusive("MODEL-DIVERGENCE", "%s: %d behaviours where the real DB content differs from the model and no verdict violation: %s" % (label, s["drift"], s.get("drift_samples")))
    for k in need:
        if not s.get(k):
            raise vlib.Inconclusive("VACUOUS", "%s: history class %s never generated" % (label, k))
        ctx.add(k, int(s[k]))
    if not s.get("fast_index_entries_found_by_reads"):
        raise vlib.Inconclusive("VACUOUS", "%s: no read ever found a fast-index entry" % label)
    ctx.add("traces_validated_against_impl", int(s.get("replays", 0)))
    ctx.add("impl_steps", int(s.get("steps", 0)))
    ctx.add("fastsound_reads_compared", int(s.get("scan_reads", 0)))
    ctx.add("fast_index_entries_found_by_reads", int(s.get("fast_index_entries_found_by_reads", 0)))
    ctx.log("%s: %d behaviours, %d steps, %d fast-vs-walk reads compared, %d violating" % (label, len(behs), s.get("steps", 0), s.get("scan_reads", 0), s.get("violating", 0)))
    return s


def run(ctx):
    binary = vlib.go_build("fastindex", ctx)
    case = ctx.replay_case()
    if case:
        res = vlib.run_driver(ctx, binary, ["-x", case["cfg"]], behaviours=[case["steps"]])
        s = vlib.handle_driver_results(ctx, res)
        ctx.cov.update({"states": 1, "transitions": 1, "traces_validated_against_impl": int(s.get("replays", 0))})
        ctx.sample([x.get("act") for x in case["steps"]])
        return
    quick = ctx.tier == "quick"
    # (M) exhaustive
    for cfg, label in ([("FastIndex_q.cfg", "store + concurrent loader over the live DB, 2 keys x 2 values, 3 versions, <=10 steps")] if quick else
                       [("FastIndex_t.cfg", "store + concurrent loader + feature toggled at restarts, 3 versions, <=14 steps"),
                        ("FastIndex_r.cfg", "store under rootmulti's collector, KeepRecent=1, toggles, <=14 steps")]):
        r = vlib.run_tlc(ctx, "MCFastIndex", cfg, timeout=3000)
        vlib.require_model_ok(r, cfg)
        ctx.add_tlc(r, "exhaustive: " + label)
    if not quick:
        # every defence is load-bearing in the model: each switch flipped must break FastSound
        want = {"FastIndex_mRDE.cfg": "LiveSound", "FastIndex_mVG.cfg": "ImmSound", "FastIndex_mSG.cfg": "QuerySound", "FastIndex_mRM.cfg": "LoaderLeavesDisk"}
        for cfg, inv in want.items():
            r = vlib.run_tlc(ctx, "MCFastIndex", cfg, timeout=900)
            if not r.violated or inv not in str(r.violated):
                raise vlib.Inconclusive("VACUOUS", "%s: expected %s to fail, got %s" % (cfg, inv, r.violated or r.error))
        ctx.cov["model_switches_load_bearing"] = sorted(want)
    # (R) replay with the FastSound scan after every step
    if quick:
        replay(ctx, binary, "FastIndex_dqe.cfg", "every edge, standalone store, index toggled at restarts over removed keys, <=10 steps",
               need=("reopened_on_over_emptied_tree_with_stale_index", "reopened_on_over_partly_removed_keys_with_stale_index"))
        replay(ctx, binary, "FastIndex_sqe.cfg", "every edge, standalone store (toggles, same-handle reloads), <=6 steps")
        replay(ctx, binary, "FastIndex_rqe.cfg", "every edge, under rootmulti (collector, KeepRecent=1, toggles, same-handle reloads), <=6 steps")
        replay(ctx, binary, "FastIndex_lqe.cfg", "every edge, gated concurrent loader over the live DB, <=7 steps")
        replay(ctx, binary, "FastIndex_lsim.cfg", "simulation, loader + toggles, 4 versions, 18 steps", sim=150)
    else:
        replay(ctx, binary, "FastIndex_dqe.cfg", "every edge, standalone store, index toggled at restarts over removed keys, <=10 steps",
               need=("reopened_on_over_emptied_tree_with_stale_index", "reopened_on_over_partly_removed_keys_with_stale_index"))
        replay(ctx, binary, "FastIndex_se.cfg", "every edge, standalone store with toggles, <=8 steps")
        replay(ctx, binary, "FastIndex_re.cfg", "every edge, under rootmulti, <=8 steps")
        replay(ctx, binary, "FastIndex_le.cfg", "every edge, gated concurrent loader, <=9 steps", timeout=3000)
        replay(ctx, binary, "FastIndex_ssim.cfg", "simulation standalone, 4 versions, pruning, 16 steps", sim=2000, depth=16)
        replay(ctx, binary, "FastIndex_rsim.cfg", "simulation under rootmulti, 4 versions, pruning, 16 steps", sim=2000, depth=16)
        replay(ctx, binary, "FastIndex_lsim.cfg", "simulation, loader + toggles, 4 versions, 18 steps", sim=3000)
    ctx.cov["exhaustive"] = True
    ctx.assumptions += ["the authoritative value is the one the store iterator (tree walk, never the index) returns on the same handle; "
                        "for the concurrent loader, an index-free immutable store at the same version",
                        "a batch write of the backing DB is atomic (the loader's reads interleave between, not inside, commits)",
                        "the loader runs over the live DB handle (ImmutableDB fallback / direct library use); with a snapshot backend its reads are atomic",
                        "after the last step of every behaviour one more real block (unrelated key, commit) is executed and scanned: "
                        "state a step left staged behind the model's back becomes durable there"]
