"""C43 — Multiplexed peer connections deliver each channel's messages intact and in order.
spec/MConn.tla model-checked with TLC (M); executions of two real conn.MConnection objects over
the driver's chunking pipe (seeded message sizes around the packet payload limit, 1-3 channels,
injected pings / malformed packets, arbitrary read chunking) validated by spec/MConnTrace.tla (V)."""
import json, os, queue, threading
import vlib
LEVEL = "model_checking"
TRACE = "mconn_trace.ndjson"
KCFG = {1: "MConnTrace_k1.cfg", 2: "MConnTrace_k2.cfg"}   # MaxPacketMsgPayloadSize 1024 / 16


def split_runs(path):
    runs, cur = [], None
    for raw in open(path):
        raw = raw.strip()
        if not raw:
            continue
        l = json.loads(raw)
        if l.get("act") == "Reset":
            cur = [l]
            runs.append(cur)
        elif cur is not None:
            cur.append(l)
    return runs


def write_runs(ctx, runs):
    path = os.path.join(ctx.scratch_dir("trace"), TRACE)
    with open(path, "w") as f:
        for r in runs:
            for l in r:
                f.write(json.dumps(l, separators=(",", ":")) + "\n")
    return path


def dropped_empty(run):
    """Accepted zero-length messages that were skipped: no packet of them ever reached the stream although
    the side flushed everything (clean run) or a later message of the same channel did."""
    kind = json.loads(run[0]["scenario"]).get("kind") if run and run[0].get("scenario") else "clean"
    acc = {(l["x"], l["id"]): l["ch"] for l in run if l.get("act") == "Send" and l.get("ok") and l.get("len") == 0}
    pk = [(l["x"], l["ch"], l["id"]) for l in run if l.get("act") == "Pkt" and l.get("kind") == "msg"]
    seen = {(x, i) for x, _c, i in pk}
    out = []
    for (x, i), ch in acc.items():
        if (x, i) in seen:
            continue
        if kind == "clean" or any(px == x and pc == ch and pi > i for px, pc, pi in pk):
            out.append((x, i))
    return sorted(out)


def classify(run, idx):
    """Key of the failing class from the first event TLC could not take."""
    line = run[idx] if idx < len(run) else {"act": "end-of-trace"}
    act = line.get("act")
    if dropped_empty(run) and (act in ("Pkt", "Close", "EOF", "Final") or (act == "Recv" and line.get("id") != -1)):
        return "C43:Send:empty-message-dropped"
    if act == "Recv":
        if line.get("id") == -1:
            return "C43:Recv:corrupt-or-mixed-message"
        before = [l for l in run[:idx] if l.get("act") == "Recv" and l.get("x") == line.get("x") and l.get("id") == line.get("id")]
        return "C43:Recv:duplicate" if before else "C43:Recv:out-of-order-or-partial"
    if act == "Pkt":
        return "C43:Pkt:packetisation" if line.get("kind") == "msg" else "C43:Pkt:" + str(line.get("kind"))
    if act in ("Close", "EOF"):
        return "C43:%s:lost-or-unflushed" % act
    if act == "Final":
        return "C43:Final:failure-not-reported-or-message-lost"
    if act == "Idle":
        return "C43:Idle:malformed-packet-accepted"
    if act == "Err":
        return "C43:Err:unexpected"
    if act == "Ret":
        return "C43:Send:refused-while-running"
    return "C43:trace:%s" % act


def validate(ctx, k, runs, label, timeout=2400):
    """(accepted, index of the rejected run, index of the rejected event in it, TLCResult)"""
    path = write_runs(ctx, runs)
    r = vlib.run_tlc(ctx, "MConnTrace", KCFG[k], workers=1, tags=("HWM",), timeout=timeout, extra_files=[path], jvm=["-Xmx3g"])
    if r.ok:
        return True, None, None, r
    if "Accepted" in (r.out or "") and r.traces:
        hwm = int(r.traces[0])          # events consumed; the next one (0-based index hwm) is refused
        n = 0
        for i, run in enumerate(runs):
            if hwm < n + len(run):
                return False, i, hwm - n, r
            n += len(run)
        return False, len(runs) - 1, len(runs[-1]), r
    raise vlib.Inconclusive("TLC-ERROR", "%s: %s" % (label, r.error or r.violated or r.out[-1200:]))


def record(ctx, binary, k, n, seed, scenario=None):
    path = os.path.join(ctx.scratch_dir("rec"), TRACE)
    x = {"k": k}
    if scenario is not None:
        x["scenario"] = scenario
    res = vlib.run_driver(ctx, binary, ["-n", str(n), "-out", path, "-x", json.dumps(x)], timeout=1800,
                          env_extra={"VERIF_SEED": str(seed)})
    s = vlib.handle_driver_results(ctx, res)
    return split_runs(path), s


def reproduce(ctx, binary, k, run, key, reps=40):
    """The schedule of the goroutines is not controlled, so the scenario is executed `reps` more times
    from fresh objects; the same failure class must be observed again on at least two of them."""
    sc = json.loads(run[0]["scenario"])
    runs, _s = record(ctx, binary, k, reps, ctx.seed, scenario=sc)
    runs.sort(key=lambda r: 0 if dropped_empty(r) else 1)     # likely candidates first (fewer TLC calls)
    again = 0
    for _ in range(6):
        if not runs or again >= 2:
            break
        ok, i, j, _r = validate(ctx, k, runs, "reproduction")
        if ok:
            break
        if classify(runs[i], j) == key:
            again += 1
        runs = runs[i + 1:]
    return again >= 2


def handle_batch(ctx, binary, k, runs, label, max_rounds, seen, pending):
    """Validate a batch; every refused run is classified, re-confirmed, reported and dropped.
    seen: keys already confirmed (shared by all batches); pending: refused runs whose failure class
    was not observed again (reported only if the class is confirmed elsewhere, else FLAKY)."""
    accepted = 0
    rounds = 0
    while runs:
        ok, i, j, r = validate(ctx, k, runs, label)
        ctx.add_tlc(r, "%s k=%d (%d runs)" % (label, k, len(runs)))
        if ok:
            accepted += len(runs)
            break
        accepted += i
        bad = runs[i]
        key = classify(bad, j)
        what = "execution of two real MConnections is no behaviour of MConn.tla: event %d %s cannot be taken (scenario %s)" % (
            j, json.dumps(bad[j] if j < len(bad) else "end", sort_keys=True), bad[0]["scenario"])
        case = {"k": k, "scenario": json.loads(bad[0]["scenario"]), "events": bad, "failed_at": j}
        if key not in seen:
            if reproduce(ctx, binary, k, bad, key):
                seen.add(key)
                ctx.violation(key, what, case)
            else:
                pending.append((key, what, case))
        ctx.add("runs_refused", 1)
        runs = runs[i + 1:]
        rounds += 1
        if rounds >= max_rounds:
            ctx.add("runs_not_validated", len(runs))
            break
    return accepted


def run(ctx):
    binary = vlib.go_build("mconn", ctx)
    case = ctx.replay_case()
    if case:
        # the schedule is not controlled: the scenario is executed 20 times, the first refused execution counts
        runs, _s = record(ctx, binary, case["k"], 20, ctx.seed, scenario=case["scenario"])
        runs.sort(key=lambda r: 0 if dropped_empty(r) else 1)
        ok, i, j, r = validate(ctx, case["k"], runs, "replay")
        ctx.add_tlc(r, "replay")
        if not ok:
            ctx.violation(classify(runs[i], j), "event %d %s cannot be taken" % (j, json.dumps(runs[i][j] if j < len(runs[i]) else "end")), case)
        ctx.cov.setdefault("traces_validated_against_impl", len(runs) if ok else i)
        return
    quick = ctx.tier == "quick"
    lock = threading.RLock()
    orig = ctx.scratch_dir

    def scratch_dir(name):
        with lock:
            return orig(name)
    ctx.scratch_dir = scratch_dir
    # (M) the specification itself
    mres = {}

    def model():
        try:
            cfgs = ["MConn_q.cfg", "MConn_q2.cfg"] if quick else ["MConn_q.cfg", "MConn_q2.cfg", "MConn_t3.cfg", "MConn_t2.cfg", "MConn_t.cfg"]
            mres["r"] = [(c, vlib.run_tlc(ctx, "MCMConn", c, timeout=3000, workers=4 if quick else max(4, vlib.NCPU // 2))) for c in cfgs]
        except Exception as e:
            mres["r"] = e
    mt = threading.Thread(target=model)
    mt.start()
    # (V) recorded executions; the two configurations are recorded and validated side by side
    n = 80 if quick else 1500
    vio, add, log = ctx.violation, ctx.add, ctx.log

    def locked(fn):
        def g(*a, **kw):
            with lock:
                return fn(*a, **kw)
        return g
    ctx.violation, ctx.add, ctx.add_tlc, ctx.sample = locked(vio), locked(add), locked(ctx.add_tlc), locked(ctx.sample)
    res = {}
    seen, pending = set(), []

    def batch(k):
        try:
            runs, s = record(ctx, binary, k, n, ctx.seed)
            main = [r for r in runs if not dropped_empty(r)]
            suspect = [r for r in runs if dropped_empty(r)]
            for key in ("runs", "lines", "messages_sent", "malformed_runs", "backpressure_runs"):
                ctx.add({"runs": "runs_recorded", "lines": "events_recorded"}.get(key, key), int(s.get(key, 0)))
            log("k=%d: %d runs recorded (%d events, %d messages accepted), %d of them with an accepted empty message that never reached the stream" % (
                k, s.get("runs", 0), s.get("lines", 0), s.get("messages_sent", 0), len(suspect)))
            if main:
                ctx.sample({"scenario": json.loads(main[0][0]["scenario"]), "first_events": main[0][1:6]})
            a = handle_batch(ctx, binary, k, main, "trace validation", 6, seen, pending)
            b = handle_batch(ctx, binary, k, suspect, "trace validation (runs with a dropped empty message)", 2, seen, pending) if suspect else 0
            log("k=%d: %d runs accepted by MConnTrace.tla" % (k, a + b))
            res[k] = a + b
        except Exception as e:
            res[k] = e
    ths = [threading.Thread(target=batch, args=(k,)) for k in (1, 2)]
    for t in ths:
        t.start()
    for t in ths:
        t.join()
    total = 0
    for k in (1, 2):
        if isinstance(res[k], Exception):
            mt.join()
            raise res[k]
        total += res[k]
    ctx.add("traces_validated_against_impl", total)
    flaky = [p for p in pending if p[0] not in seen]
    ctx.add("runs_refused_not_reconfirmed", len(pending))
    mt.join()
    if isinstance(mres["r"], Exception):
        raise mres["r"]
    for cfg, r in mres["r"]:
        vlib.require_model_ok(r, cfg)
        ctx.add_tlc(r, "exhaustive " + cfg)
    if flaky:
        # refused executions whose failure class did not show again in 40 more executions of the scenario
        raise vlib.Inconclusive("FLAKY", "%s was not observed again in 40 more executions of the scenario: %s" % (flaky[0][0], flaky[0][1][:400]))
    ctx.cov["exhaustive"] = True
    ctx.assumptions += [
        "in-memory transport: Close is a half-close (the peer reads what was written before, then EOF; the end of a stream is handed to the reader after both FlushStop calls returned in clean runs)",
        "un-gated goroutines: the schedules validated are the ones the Go runtime produced; the trace specification accepts every interleaving across channels and sides",
        "send-queue capacity (when TrySend refuses) is not constrained; rate limiting off, ping timer off (pings are injected by the driver)"]
