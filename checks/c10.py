"""C10 — Gas metering is sound and consistent. Same specification as C02 (spec/BaseApp.tla):
(M) GasUsedLeWanted, OkWithinBlock, NoTxAfterExhausted on the bounded model; (V) executions
of the real application validated against the gas/verdict rules (state comparison off);
determinism: the same seeded history run twice, once with a node restart before every block,
must report identical results and gas; termination: unbounded-work Gno programs must stop."""
import json, os, importlib.util, vlib, tracelib
LEVEL = "model_checking"
here = os.path.dirname(os.path.abspath(__file__))
spec = importlib.util.spec_from_file_location("c02", os.path.join(here, "c02.py"))
c02 = importlib.util.module_from_spec(spec)
spec.loader.exec_module(c02)


def run(ctx):
    import concurrent.futures as cf
    binary = vlib.go_build("baseapp", ctx)
    case = ctx.replay_case()
    if case and "scenario" in case:
        return c02.run(ctx, pid="C10", gas_only=True)
    spec1 = importlib.util.spec_from_file_location("c01", os.path.join(here, "c01.py"))
    c01 = importlib.util.module_from_spec(spec1)
    spec1.loader.exec_module(c01)
    hb = vlib.go_build("history", ctx)
    n = 3 if ctx.tier == "quick" else 40
    nb = 6
    splits = (2, 4) if ctx.tier == "quick" else (1, 2, 3, 4, 5)
    out2 = os.path.join(ctx.scratch_dir("rec"), "t2.ndjson")
    # every real-code run is its own process; start them all, model-check meanwhile
    with cf.ThreadPoolExecutor(max_workers=8) as ex:
        f_rec = ex.submit(c02.record, ctx, binary, n)
        f_rec2 = ex.submit(vlib.run_driver, ctx, binary, ["-mode", "record", "-out", out2, "-n", str(n), "-x", "restart"], None, 3000)
        f_term = ex.submit(vlib.run_driver, ctx, binary, ["-mode", "terminate"], None, 3000)
        f_ref = ex.submit(c01.run_variant, ctx, hb, ctx.seed, nb, "memdb", 0, 16, "ref")
        f_split = {sp: ex.submit(c01.run_variant, ctx, hb, ctx.seed, nb, "goleveldb", 0, 16, "split%d" % sp, sp) for sp in splits}
        c02.model_check(ctx, witnesses=False)
        lines, s = f_rec.result()
        res2 = f_rec2.result()
        res_term = f_term.result()
        ref, _ = f_ref.result()
        split_runs = {sp: f.result()[0] for sp, f in f_split.items()}
    ctx.cov["outcome_counts"] = {k[2:]: v for k, v in s.items() if k.startswith("n_")}
    need = ["n_ok", "n_fail:oog:block", "n_fail:oog:noblock", "n_fail:oog:tx"]
    missing = [k for k in need if not s.get(k)]
    if missing:
        raise vlib.Inconclusive("VACUOUS", "recorded run never produced outcome(s) %s" % missing)
    acc, total = c02.validate_all(ctx, lines, "C10", want_gas_only=True)
    ctx.add("traces_validated_against_impl", total)
    # "a transaction that exceeds its gas fails ... its message effects are discarded while its fee is still paid":
    # the same recorded blocks validated WITH the state comparison; only blocks containing an out-of-gas transaction
    # are judged here (every other state mismatch is C02's subject)
    c02.validate_all(ctx, lines, "C10", want_gas_only=False, key_filter=lambda key: "oog/" in key)
    ctx.cov["oog_blocks_state_checked"] = sum(1 for x in lines if x.get("act") == "DeliverTx" and (x.get("res") or {}).get("cls") == "oog")
    # determinism: same seed again, with a restart (new app object, cold caches) before every block
    vlib.handle_driver_results(ctx, res2)
    lines2 = [json.loads(l) for l in open(out2) if l.strip()]
    ntx = 0
    if len(lines) != len(lines2):
        ctx.violation("C10:nondeterministic:trace-length", "same seeded history produced %d vs %d events with restarts" % (len(lines), len(lines2)), None)
    else:
        for i, (a, b) in enumerate(zip(lines, lines2)):
            if a.get("act") == "DeliverTx":
                ntx += 1
            if a != b:
                what = "event %d differs between a warm run and a run restarted before every block: %s vs %s" % (i, json.dumps(a)[:400], json.dumps(b)[:400])
                key = "C10:gas-differs-after-restart" if (a.get("act") == "DeliverTx" and a["res"].get("used") != b["res"].get("used") and a["res"].get("ok") == b["res"].get("ok")) else "C10:result-differs-after-restart"
                ctx.violation(key, what, {"warm": a, "restarted": b, "index": i})
                break
    ctx.cov["determinism_txs_compared"] = ntx
    ctx.add("traces_validated_against_impl", 1)
    # determinism across a TRUE restart: the same history continued by a second process on the same on-disk DB
    # (process-global caches cold) must report the same results and gas as the uninterrupted run
    for split, var in sorted(split_runs.items()):
        if len(var) != len(ref):
            ctx.violation("C10:process-restart:block-count", "history split at block %d produced %d blocks, reference %d" % (split, len(var), len(ref)), None)
            continue
        for a, b in zip(ref, var):
            ga = [(t["ok"], t["used"]) for t in a["txs"]]
            gb = [(t["ok"], t["used"]) for t in b["txs"]]
            if ga != gb:
                ctx.violation("C10:gas-differs-after-process-restart", "block h=%s: (ok, gas used) per tx %s in the uninterrupted run vs %s in a run continued by a second process from block %d" % (a["h"], ga, gb, split),
                              {"reference": a, "restarted": b, "split": split, "seed": ctx.seed})
                break
        ctx.add("traces_validated_against_impl", 1)
    # termination of unbounded-work programs
    st = vlib.handle_driver_results(ctx, res_term)
    ctx.cov["unbounded_programs_run"] = int(st.get("programs_run", 0))
    ctx.cov["unbounded_programs_stopped"] = int(st.get("stopped", 0))
    if not st.get("programs_run"):
        raise vlib.Inconclusive("DRIVER", "termination family did not run")
    ctx.add("traces_validated_against_impl", int(st.get("programs_run", 0)))
    for x in lines[:4]:
        ctx.sample(x, limit=8)
    ctx.assumptions += ["'any Gno program' is covered for the generated unbounded-work families only (loop, recursion, slice/string/map growth, allocation, native calls, closures, realm writes, defer/recover)",
                        "gas amounts are not specified by the model, only their relation to verdicts (used<=wanted on success, block accumulation, exhaustion)"]
