"""C10 — Gas metering is sound and consistent. Same specification as C02 (spec/BaseApp.tla):
(M) GasUsedLeWanted, OkWithinBlock, NoTxAfterExhausted on the bounded model; (V) executions
of the real application validated against the gas/verdict rules (state comparison off);
determinism: the same seeded history run twice, once with a node restart before every block,
must report identical results and gas; termination: unbounded-work Gno programs must stop."""
import json, os, importlib.util, vlib, tracelib
LEVEL = "model_checking"
here = os.path.dirname(os.path.abspath(__file__))
spec = importlib.util.spec_from_file_location("c02", os.path.join(here, "c02.py"))
c02 = importlib.util.module_from_spec(spec)
spec.loader.exec_module(c02)


def run(ctx):
    binary = vlib.go_build("baseapp", ctx)
    case = ctx.replay_case()
    if case and "scenario" in case:
        return c02.run(ctx, pid="C10", gas_only=True)
    c02.model_check(ctx, witnesses=False)
    n = 3 if ctx.tier == "quick" else 40
    lines, s = c02.record(ctx, binary, n)
    ctx.cov["outcome_counts"] = {k[2:]: v for k, v in s.items() if k.startswith("n_")}
    need = ["n_ok", "n_fail:oog:block", "n_fail:oog:noblock", "n_fail:oog:tx"]
    missing = [k for k in need if not s.get(k)]
    if missing:
        raise vlib.Inconclusive("VACUOUS", "recorded run never produced outcome(s) %s" % missing)
    acc, total = c02.validate_all(ctx, lines, "C10", want_gas_only=True)
    ctx.add("traces_validated_against_impl", total)
    # determinism: same seed again, with a restart (new app object, cold caches) before every block
    out2 = os.path.join(ctx.scratch_dir("rec"), "t2.ndjson")
    vlib.handle_driver_results(ctx, vlib.run_driver(ctx, binary, ["-mode", "record", "-out", out2, "-n", str(n), "-x", "restart"], timeout=3000))
    lines2 = [json.loads(l) for l in open(out2) if l.strip()]
    ntx = 0
    if len(lines) != len(lines2):
        ctx.violation("C10:nondeterministic:trace-length", "same seeded history produced %d vs %d events with restarts" % (len(lines), len(lines2)), None)
    else:
        for i, (a, b) in enumerate(zip(lines, lines2)):
            if a.get("act") == "DeliverTx":
                ntx += 1
            if a != b:
                what = "event %d differs between a warm run and a run restarted before every block: %s vs %s" % (i, json.dumps(a)[:400], json.dumps(b)[:400])
                key = "C10:gas-differs-after-restart" if (a.get("act") == "DeliverTx" and a["res"].get("used") != b["res"].get("used") and a["res"].get("ok") == b["res"].get("ok")) else "C10:result-differs-after-restart"
                ctx.violation(key, what, {"warm": a, "restarted": b, "index": i})
                break
    ctx.cov["determinism_txs_compared"] = ntx
    ctx.add("traces_validated_against_impl", 1)
    # termination of unbounded-work programs
    res = vlib.run_driver(ctx, binary, ["-mode", "terminate"], timeout=3000)
    st = vlib.handle_driver_results(ctx, res)
    ctx.cov["unbounded_programs_run"] = int(st.get("programs_run", 0))
    ctx.cov["unbounded_programs_stopped"] = int(st.get("stopped", 0))
    if not st.get("programs_run"):
        raise vlib.Inconclusive("DRIVER", "termination family did not run")
    ctx.add("traces_validated_against_impl", int(st.get("programs_run", 0)))
    for x in lines[:4]:
        ctx.sample(x, limit=8)
    ctx.assumptions += ["'any Gno program' is covered for the generated unbounded-work families only (loop, recursion, slice/string/map growth, allocation, native calls, closures, realm writes, defer/recover)",
                        "gas amounts are not specified by the model, only their relation to verdicts (used<=wanted on success, block accumulation, exhaustion)"]
