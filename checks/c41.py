"""C41 — Block and state stores return exactly what was saved. spec/BlockStore.tla (M: storage layout
+ the code's LoadValidators / LoadConsensusParams lookups, small checkpoint interval, every position
of a change relative to checkpoints) + edge-coverage replay (R) on the real store.BlockStore and state
store over memdb with the real interval 100000 and heights 99996..100006 / 199998..200007."""
import re
import vlib
LEVEL = "model_checking"


def consts(cfg):
    txt = open(vlib.SPEC + "/" + cfg).read()
    return int(re.search(r"H0 = (\d+)", txt).group(1)), int(re.search(r"NV = (\d+)", txt).group(1))


def replay(ctx, binary, behs, cfg, label, mode="replay"):
    h0, nv = consts(cfg)
    res = vlib.run_driver(ctx, binary, ["-x", "%d|%d" % (h0, nv), "-mode", mode], behaviours=behs, timeout=2400)
    s = vlib.handle_driver_results(ctx, res)
    ctx.add("traces_validated_against_impl", int(s.get("replays", 0)))
    ctx.add("impl_steps", int(s.get("steps", 0)))
    ctx.add("impl_loads_compared", int(s.get("loads", 0)))
    ctx.log("%s: %d behaviours replayed (H0=%d), %d ok, %d loads compared" % (label, len(behs), h0, s.get("replays_ok", 0), s.get("loads", 0)))


def run(ctx):
    binary = vlib.go_build("blockstore", ctx)
    case = ctx.replay_case()
    if case:
        res = vlib.run_driver(ctx, binary, ["-x", "%d|%d" % (case["h0"], case["nv"])], behaviours=[case["steps"]])
        vlib.handle_driver_results(ctx, res)
        ctx.cov.update({"states": 1, "transitions": 1, "traces_validated_against_impl": 1})
        ctx.sample(case["steps"])
        return
    quick = ctx.tier == "quick"
    # (M) small checkpoint interval: lookups vs ghost truth for every history
    # (quick: the edge run below is itself exhaustive with all invariants; JVM starts dominate there)
    for cfg, label in ([] if quick else
                       [("BlockStore_t.cfg", "exhaustive K=3 H0=1 <=9 steps"), ("BlockStore_q.cfg", "exhaustive K=3 H0=2 <=6 steps"),
                        ("BlockStore_q1.cfg", "exhaustive K=4 H0=1 <=6 steps")]):
        r = vlib.run_tlc(ctx, "MCBlockStore", cfg, timeout=3000)
        vlib.require_model_ok(r, cfg)
        ctx.add_tlc(r, label)
    # (M)+(R) real interval, heights around the checkpoint, one behaviour per edge
    for ecfg, label in ([("BlockStore_qe.cfg", "edges K=100000 H0=99997 <=6 steps")] if quick else
                        [("BlockStore_te.cfg", "edges K=100000 H0=99996 <=8 steps"), ("BlockStore_te2.cfg", "edges K=100000 H0=199998 <=7 steps")]):
        r = vlib.run_tlc(ctx, "MCBlockStore", ecfg, tags=("EDGE",), timeout=3000)
        vlib.require_model_ok(r, ecfg)
        ctx.add_tlc(r, label)
        ctx.add("edges_emitted", len(r.traces))
        # one behaviour per edge, compared at its last step: every transition is checked exactly once
        replay(ctx, binary, r.traces, ecfg, label, mode="last")
    n = 150 if quick else 3000
    r = vlib.run_tlc(ctx, "MCBlockStore", "BlockStore_sim.cfg", mode="simulate", simulate=n, depth=30, tags=("TRACE",), timeout=1800)
    vlib.require_model_ok(r, "BlockStore_sim")
    ctx.add_tlc(r, "simulate K=100000 H0=99990, 24 steps")
    replay(ctx, binary, r.traces, "BlockStore_sim.cfg", "simulation")
    ctx.cov["exhaustive"] = True
    ctx.assumptions += [
        "State values are synthesised with the operations of execution.go/updateState on real ValidatorSet / ConsensusParams objects (MakeGenesisState with InitialHeight = H0), not by executing 10^5 blocks",
        "memdb back end (back-end equivalence is C29)",
        "the validator set 'in effect' includes proposer priorities advanced by one round per block, as updateState does",
    ]
