"""C50 — The avl tree package is a balanced ordered map. spec/OrderedMap.tla (M): abstract ordered
map + the AVL algorithm of node.gno, invariants Refines/Balanced/WellFormed on every reachable
state; (R): every TLC behaviour (one per edge of the bounded graphs + simulation with 40 keys) is
compiled into a Gno program that calls the real gno.land/p/nt/avl/v0 package on the real GnoVM
(MsgRun on the real gno.land app, package sources read from $VERIF_REPO/examples) and the
printed replies / tree walks are compared with the spec's predictions."""
import json, random, threading
from concurrent.futures import ThreadPoolExecutor
import vlib

LEVEL = "model_checking"
JVM = ["-XX:ParallelGCThreads=2"]
MUT = ("Set", "Remove")


def _lock_scratch(ctx):
    if getattr(ctx, "_locked", False):
        return
    lock = threading.Lock()
    orig = ctx.scratch_dir

    def locked(name):
        with lock:
            return orig(name)
    ctx.scratch_dir = locked
    ctx._locked = True


def replay(ctx, binary, jobs, workers):
    """jobs: [(label, nk, behaviours)]. Every driver process builds one in-process gno.land app
    and replays its shard of every job; behaviours sharing a mutation prefix stay together."""
    _lock_scratch(ctx)
    total = sum(len(b) for _, _, b in jobs)
    if total == 0:
        return
    workers = max(1, min(workers, total // 60 + 1))
    shards = [[] for _ in range(workers)]
    for label, nk, behs in jobs:
        behs = sorted(behs, key=lambda b: json.dumps([s for s in b if s["act"] in MUT], sort_keys=True))
        size = (len(behs) + workers - 1) // workers
        for w in range(workers):
            part = behs[w * size:(w + 1) * size]
            if part:
                shards[w] += [{"nk": nk, "label": label}] + part
    env = {"GNOROOT": vlib.REPO, "GOMAXPROCS": "3"}

    def one(shard):
        return vlib.run_driver(ctx, binary, [], behaviours=shard, timeout=3000, env_extra=env)
    with ThreadPoolExecutor(max_workers=workers) as ex:
        results = list(ex.map(one, [s for s in shards if s]))
    per = {}
    for res in results:
        for line in res:
            if line.get("kind") == "summary":
                d = per.setdefault(line.get("set", "?"), {})
                for k, v in line.items():
                    if isinstance(v, (int, float)) and not isinstance(v, bool):
                        d[k] = d.get(k, 0) + v
                    elif k == "drift_sample" and v:
                        d[k] = v
        vlib.handle_driver_results(ctx, res)
    for label, _, behs in jobs:
        d = per.get(label, {})
        if int(d.get("replays", 0)) != len(behs):
            raise vlib.Inconclusive("DRIVER-INCOMPLETE", "%s: %d of %d behaviours replayed" % (label, d.get("replays", 0), len(behs)))
        ctx.add("traces_validated_against_impl", int(d.get("replays", 0)))
        ctx.add("impl_lines_compared", int(d.get("lines", 0)))
        ctx.add("gno_msgruns", int(d.get("msgruns", 0)))
        ctx.add("shape_drift", int(d.get("shape_drift", 0)))
        if d.get("unreported_failures"):
            ctx.add("unreported_failures", int(d["unreported_failures"]))
        if d.get("drift_sample"):
            ctx.cov.setdefault("drift_sample", d["drift_sample"])
        ctx.log("%s: %d behaviours replayed on the real avl package, %d ok, %d output lines compared, shape drift %d" % (
            label, len(behs), d.get("replays_ok", 0), d.get("lines", 0), d.get("shape_drift", 0)))


def require_acts(behs, acts, what):
    """Vacuity guard: every action of the spec occurs in the behaviours that are replayed."""
    seen = set()
    for b in behs:
        for s in b:
            seen.add(s["act"])
            if "via" in s:
                seen.add("via:" + s["via"])
    missing = sorted(set(acts) - seen)
    if missing:
        raise vlib.Inconclusive("VACUOUS", "%s: no behaviour takes %s" % (what, missing))


def tag_counts(behs):
    """How often each rebalancing situation of spec BalTags occurs as the last step."""
    c = {}
    for b in behs:
        for t in b[-1].get("tags", []):
            c[t] = c.get(t, 0) + 1
    return c


def pick_tagged(behs, extra, seed):
    """All behaviours ending in a Remove whose rebalancing meets a balance-0 heavy child with the
    grandchild leaning the other way (L0x / R0x: the situations in which a wrong choice between
    single and double rotation leaves an unbalanced node) plus a seeded sample of the others."""
    hard = [b for b in behs if any(t.endswith("x") for t in b[-1].get("tags", []))]
    rest = [b for b in behs if not any(t.endswith("x") for t in b[-1].get("tags", []))]
    if extra is not None and len(rest) > extra:
        rest = random.Random(seed).sample(rest, extra)
    return hard + rest


def thin_sim(traces):
    """TLC's simulator evaluates the emitting invariant on every successor of the last state,
    so each run yields one trace per disjunct of SimNext sharing all but the last step. Keep
    the ones that end in a read (replayed together with their prefix) and one that ends in a
    mutation per prefix."""
    out, seen_mut = [], set()
    for t in traces:
        if not t:
            continue
        if t[-1]["act"] in MUT:
            key = json.dumps(t[:-1], sort_keys=True)
            if key in seen_mut:
                continue
            seen_mut.add(key)
        out.append(t)
    return out


def run(ctx):
    binary = vlib.go_build("avl", ctx)
    case = ctx.replay_case()
    if case:
        replay(ctx, binary, [("replay", int(case["nk"]), [case["steps"]])], 1)
        ctx.cov.update({"states": 1, "transitions": 1})
        ctx.sample(case["steps"])
        return
    quick = ctx.tier == "quick"
    _lock_scratch(ctx)
    # label -> (cfg, nk replayed or None, mode)
    if quick:
        runs = [("edges/all-reads 3 keys x 2 values", "OrderedMap_qe.cfg", 3, "edge"),
                ("edges/mutations 5 keys", "OrderedMap_qm.cfg", 5, "edge"),
                ("edges/removals rebalancing over a balance-0 child, 9 keys", "OrderedMap_qr.cfg", 9, "edge-tagged"),
                ("exhaustive 7 keys", "OrderedMap_q.cfg", None, "check"),
                ("simulation 40 keys x 70 steps", "OrderedMap_sim.cfg", 40, "sim")]
        nsim, tw = 6, 4
    else:
        runs = [("edges/all-reads 4 keys x 2 values", "OrderedMap_te.cfg", 4, "edge"),
                ("edges/mutations 8 keys", "OrderedMap_tm.cfg", 8, "edge"),
                ("edges/removals rebalancing over a balance-0 child, 10 keys", "OrderedMap_tr.cfg", 10, "edge-tagged"),
                ("exhaustive 12 keys", "OrderedMap_t.cfg", None, "check"),
                ("exhaustive 7 keys x 2 values", "OrderedMap_t2.cfg", None, "check"),
                ("simulation 40 keys x 70 steps", "OrderedMap_sim.cfg", 40, "sim")]
        nsim, tw = 300, 6

    def tlc(run_):
        label, cfg, nk, mode = run_
        if mode == "sim":
            return vlib.run_tlc(ctx, "MCOrderedMap", cfg, mode="simulate", simulate=nsim, depth=71, tags=("TRACE",), timeout=3000, jvm=JVM)
        return vlib.run_tlc(ctx, "MCOrderedMap", cfg, tags=("EDGE",) if mode.startswith("edge") else (), workers=tw, timeout=3000, jvm=JVM)
    with ThreadPoolExecutor(max_workers=len(runs)) as ex:
        results = list(ex.map(tlc, runs))
    jobs = []
    for (label, cfg, nk, mode), r in zip(runs, results):
        vlib.require_model_ok(r, cfg)
        ctx.add_tlc(r, label + " (" + cfg + ")")
        if mode == "edge":
            jobs.append((label, nk, vlib.dedup_prefix(r.traces)))
        elif mode == "edge-tagged":
            # only edges whose last step is such a Remove are emitted (EmitEdgeTagged); they are
            # not prefixes of each other. Quick: every L0x/R0x case + 80 others; thorough: all.
            tc = tag_counts(r.traces)
            ctx.cov["rebalance_situations_emitted"] = tc
            if not tc.get("L0x") or not tc.get("R0x"):
                raise vlib.Inconclusive("VACUOUS", "%s: no Remove reaches a balance-0 heavy child with an opposite-leaning grandchild (%s)" % (cfg, tc))
            sel = pick_tagged(r.traces, 80 if quick else None, ctx.seed)
            ctx.cov["rebalance_situations_replayed"] = tag_counts(sel)
            jobs.append((label, nk, sel))
        elif mode == "sim":
            jobs.append((label, nk, thin_sim(r.traces)))
        ctx.log("TLC %s: %d distinct states, %d transitions, %d behaviours, %.1fs" % (label, r.distinct, r.generated, len(r.traces), r.wall))
    require_acts([b for _, _, bs in jobs for b in bs], ["Set", "Remove", "Get", "Has", "Size", "GetByIndex", "Iterate", "ReverseIterate",
                                                        "IterateByOffset", "ReverseIterateByOffset"], "C50")
    replay(ctx, binary, jobs, 4 if quick else 8)
    ctx.cov["exhaustive"] = True
    ctx.assumptions += [
        "key ids are mapped to strings by a strictly increasing table (id 1 = empty string, NUL-adjacent neighbours); values are small ints",
        "the real node structure is read through a second *avl.Node root driven with the same calls as the *avl.Tree (Tree.Set/Remove delegate to Node.Set/Remove)",
        "exact tree shape vs the spec's AVL model is a guidance observable (shape_drift), balance / contents / size fields / replies are verdicts",
    ]
