"""Shared by c23 / c24 / c30 / c25: TLC runs of spec/VersionedTree.tla and replays through
harness/cmd/vtree. Not a check by itself."""
import json, os, re, threading
import vlib

MODULE = "MCVersionedTree"
TLC_SLOTS = threading.BoundedSemaphore(8)   # concurrent TLC processes of one check (the box is shared)


def cfg_consts(cfg):
    """NK / NV / MaxVer / Impl from the cfg file, so that driver and model cannot drift apart"""
    src = open(os.path.join(vlib.SPEC, cfg)).read()
    out = {}
    for name, key in (("NK", "nk"), ("NV", "nv"), ("MaxVer", "maxver")):
        out[key] = int(re.search(r"^\s*%s = (\d+)" % name, src, re.M).group(1))
    out["impl"] = re.search(r'^\s*Impl = "(\w+)"', src, re.M).group(1)
    return out


class Locked:
    _lock = threading.Lock()

    def __init__(self, ctx):
        object.__setattr__(self, "_c", ctx)

    def __getattr__(self, k):
        return getattr(self._c, k)

    def scratch_dir(self, name):
        with Locked._lock:
            return self._c.scratch_dir(name)


def parallel(jobs):
    res, err = [None] * len(jobs), []

    def run(i, fn):
        try:
            res[i] = fn()
        except BaseException as e:   # noqa
            err.append(e)
    ths = [threading.Thread(target=run, args=(i, fn)) for i, fn in enumerate(jobs)]
    for t in ths:
        t.start()
    for t in ths:
        t.join()
    if err:
        raise err[0]
    return res


class Run:
    def __init__(self, ctx, binary, prop):
        self.ctx, self.lctx, self.binary, self.prop = ctx, Locked(ctx), binary, prop
        self.flaky, self.sum, self.lock = [], {}, threading.Lock()

    def tlc(self, cfg, label, **kw):
        kw.setdefault("jvm", ["-Xmx4g"])
        with TLC_SLOTS:
            r = vlib.run_tlc(self.lctx, MODULE, cfg, **kw)
        vlib.require_model_ok(r, cfg)
        with self.lock:
            self.ctx.add_tlc(r, label)
            self.ctx.log("tlc %s: %d generated, %d distinct, %d payloads, %.1fs" % (cfg, r.generated, r.distinct, len(r.traces), r.wall))
        return r

    def sims(self, cfg, label, n, depth, procs=1, **kw):
        """n simulated behaviours, split over procs TLC processes with different seeds"""
        per = (n + procs - 1) // procs
        rs = parallel([(lambda i=i: self.tlc(cfg, "%s (seed %d)" % (label, self.ctx.seed * 100 + i), mode="simulate", simulate=per,
                                              depth=depth, tags=("TRACE",), seed=self.ctx.seed * 100 + i, **kw)) for i in range(procs)])
        out = []
        for r in rs:
            out += r.traces
        return out

    def drive(self, cfg, behs, variants, mode=None, timeout=2400, **extra):
        if not behs:
            return {}
        x = dict(cfg_consts(cfg), prop=self.prop, variants=variants, **extra)
        args = ["-x", json.dumps(x)]
        if mode:
            args += ["-mode", mode]
        res = vlib.run_driver(self.lctx, self.binary, args, behaviours=behs, timeout=timeout)
        with self.lock:
            self.flaky += [r for r in res if r.get("kind") == "flaky"]
            s = vlib.handle_driver_results(self.ctx, res)
            for k, v in s.items():
                if isinstance(v, (int, float)) and not isinstance(v, bool):
                    self.sum[k] = self.sum.get(k, 0) + v
            if s.get("max_height_histogram"):
                self.ctx.cov.setdefault("tree_heights", {})[cfg] = s["max_height_histogram"]
        return s

    def finish(self):
        s = self.sum
        self.ctx.add("traces_validated_against_impl", int(s.get("replays", 0)))
        self.ctx.add("impl_steps", int(s.get("steps", 0)))
        self.ctx.cov["states_compared_on_impl"] = int(s.get("states_compared", 0))
        if self.flaky:
            raise vlib.Inconclusive("FLAKY", json.dumps(self.flaky[:3])[:1500])


def replay_case(ctx, binary, case):
    """--replay: the stored cfg (one variant) and steps"""
    cfg = case["cfg"]
    if "family" in case:
        res = vlib.run_driver(ctx, binary, ["-x", json.dumps(cfg), "-mode", "family"], behaviours=case["family"])
    else:
        res = vlib.run_driver(ctx, binary, ["-x", json.dumps(cfg)] + (["-mode", case["mode"]] if case.get("mode") else []),
                              behaviours=[case["steps"]])
    vlib.handle_driver_results(ctx, res)
    ctx.cov.update({"states": 1, "transitions": 1, "traces_validated_against_impl": 1})
    steps = case.get("steps") or case["family"][0]
    ctx.sample([{k: v for k, v in s.items() if k not in ("st", "sv", "m")} for s in steps[:12]])
