"""C33 — A node recovers from a crash at any point of block processing. (M) spec/CrashRecovery.tla:
write order of one height, Crash anywhere, Recover = the handshake case analysis; (V) a REAL
single-validator node is killed before and after every persistent write of a short run, rebuilt
from its media and continued; every experiment is one trace line held to CrashRecoveryTrace.tla."""
import json, os, re, vlib, tracelib
LEVEL = "fault_enumeration"


def run(ctx):
    binary = vlib.go_build("crashrec", ctx)
    r = vlib.run_tlc(ctx, "CrashRecovery", "CrashRecovery_q.cfg", workers=4, timeout=600, jvm=["-Xmx2g"])
    vlib.require_model_ok(r, "CrashRecovery_q")
    ctx.add_tlc(r, "write order x crash x handshake cases, MaxHeight 3")
    heights = 2 if ctx.tier == "quick" else 4
    out = os.path.join(ctx.scratch_dir("rec"), "crashrec_trace.ndjson")
    case = ctx.replay_case()
    env = {}
    if case and "k" in case:
        env = {"VERIF_K": str(case["k"])}
        heights = case.get("heights", heights)
    res = vlib.run_driver(ctx, binary, ["-out", out, "-n", str(heights)], timeout=3000, env_extra=env)
    s = vlib.handle_driver_results(ctx, res)
    lines = [json.loads(l) for l in open(out) if l.strip()]
    points = [x for x in lines if x.get("act") == "CrashPoint"]
    reached = [x for x in points if x.get("reached")]
    if len(reached) < 2:
        raise vlib.Inconclusive("VACUOUS", "no crash point reached")
    remaining = lines
    nviol = 0
    for _ in range(12):
        d = ctx.scratch_dir("trace")
        path = os.path.join(d, "crashrec_trace.ndjson")
        tracelib.write_ndjson(path, remaining)
        t = vlib.run_tlc(ctx, "CrashRecoveryTrace", "CrashRecoveryTrace.cfg", workers=1, timeout=900, extra_files=[path], deadlock=True, tags=(), jvm=["-Xmx3g"])
        if t.violated:
            ls = re.findall(r"/\\ l = (\d+)", t.out)
            vs = re.findall(r"/\\ viol = (\{[^}]*\})", t.out, re.S)
            k = int(ls[-1]) - 1
            ev = remaining[k - 1]
            names = "+".join(sorted(re.findall(r'"([^"]+)"', vs[-1]))) if vs else "unknown"
            phase = "first-height" if ev.get("before", {}).get("store", 0) == 0 else "later-height"
            ctx.violation("C33:%s:%s" % (names, phase),
                          "crash %s write #%s (%s): %s; before=%s wal_end=%s after_recover=%s final=%s %s" % (
                              "after" if ev.get("after") else "before", ev.get("k"), ev.get("label"), names, ev.get("before"), ev.get("wal_end"),
                              ev.get("after_recover"), ev.get("final"), ev.get("recover_error", ev.get("continue_panic", ""))[:300]),
                          {"k": ev.get("k"), "after": ev.get("after"), "heights": heights, "event": ev})
            nviol += 1
            # drop that experiment and go on with the rest
            remaining = [remaining[0]] + [x for x in remaining[1:] if not (x.get("k") == ev.get("k") and x.get("after") == ev.get("after"))]
            continue
        if t.error or not t.ok:
            raise vlib.Inconclusive("TLC-ERROR", t.error or t.out[-1500:])
        break
    labels = sorted({x.get("label", "?").split("(")[0] for x in reached})
    shapes = sorted({(x["before"]["store"], x["before"]["state"], x["before"]["app"], x.get("wal_end")) for x in reached})
    ctx.cov.update({"evaluations": len(points), "distinct_nontrivial": len(reached),
                    "rule": "one evaluation = one crash experiment: the k-th persistent write (block store Set/SetSync, state store Set/SetSync, application commit, WAL Write/WriteSync/EndHeight, signer Sign) of a %d-height run of a real single-validator node, crash before or after it, restart through Handshake + WAL catch-up, continue two heights; distinct_nontrivial = experiments whose crash point was reached (every k, both sides: exhaustive over the write sequence)" % heights,
                    "exhaustive": True, "writes_per_run": int(s.get("writes_per_run", 0)), "write_kinds": labels,
                    "distinct_media_states_at_crash": [list(x) for x in shapes],
                    "states": ctx.cov.get("states", 0), "transitions": ctx.cov.get("transitions", 0)})
    for x in reached[:2] + reached[len(reached) // 2: len(reached) // 2 + 1]:
        ctx.sample({k: x.get(k) for k in ("k", "after", "label", "before", "wal_end", "after_recover", "final")})
    ctx.assumptions += ["single validator (the crashed node must make progress alone); kvstore-like application whose commit is one atomic write (C27 covers the real application's commit)",
                        "media write calls are atomic (memdb / file append); unflushed WAL buffer contents are lost with the process",
                        "PrivValidator state-file crash points are C34"]
