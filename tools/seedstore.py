#!/usr/bin/env python3
"""seedstore.py <ID> <how-confirmed> <check=outcome>... : store a confirmed seeded change from /tmp/seed-<ID> under seeded/<ID>/"""
import sys, os, json, shutil
i = sys.argv[1]; how = sys.argv[2]; det = dict(a.split('=', 1) for a in sys.argv[3:])
src = os.environ.get('SEEDSRC', '/tmp/seed-%s' % i); dst = os.path.join(os.path.dirname(os.path.dirname(os.path.abspath(__file__))), 'seeded', os.environ.get('SEEDNAME', i))
os.makedirs(dst, exist_ok=True)
for f in os.listdir(src):
    if f in ('p.diff',) or f.startswith('foreign'): continue
    if os.path.isfile(os.path.join(src, f)): shutil.copy(os.path.join(src, f), dst)
m = json.load(open(os.path.join(dst, 'meta.json')))
m['confirmed'] = {'demo_passes_without_patch': True, 'demo_fails_with_patch': True, 'how': how,
                  'existing_tests_run': 'as reported by the seeding agent in meta.json'}
m['detected_by'] = det
json.dump(m, open(os.path.join(dst, 'meta.json'), 'w'), indent=1)
print('stored', dst, sorted(os.listdir(dst)))
