"""Trace validation helpers: run a trace spec over an NDJSON file, report the first line TLC
could not consume (high-water mark), split multi-scenario files at Reset lines."""
import json, os, re, vlib


def write_ndjson(path, lines):
    with open(path, "w") as f:
        for x in lines:
            f.write(json.dumps(x, separators=(",", ":")) + "\n")


def validate(ctx, module, cfg, fname, lines, timeout=900, dfs=False):
    """Returns (accepted, failing_line_index_1based_or_None, TLCResult)."""
    d = ctx.scratch_dir("trace")
    path = os.path.join(d, fname)
    write_ndjson(path, lines)
    r = vlib.run_tlc(ctx, module, cfg, workers=1, timeout=timeout, extra_files=[path], deadlock=True, tags=(), dfs=dfs, jvm=["-Xmx3g"])
    m = re.search(r'<<"REJECTED-AT", (\d+)>>', r.out)
    if m:
        return False, int(m.group(1)), r
    if r.violated and "Accepted" not in str(r.violated):
        # an invariant of the spec failed on a recorded state: position = l of the last state printed
        ls = re.findall(r"/\\ l = (\d+)", r.out)
        return False, (int(ls[-1]) if ls else None), r
    if r.error:
        raise vlib.Inconclusive("TLC-ERROR", "%s %s: %s" % (module, cfg, r.error))
    if not r.ok:
        raise vlib.Inconclusive("TLC-ERROR", "%s %s: %s" % (module, cfg, r.out[-1500:]))
    return True, None, r


def split_scenarios(lines):
    """[(start_index, [lines...])] split at Reset lines (Reset terminates a scenario)."""
    out, cur, start = [], [], 0
    for i, x in enumerate(lines):
        cur.append(x)
        if x.get("act") == "Reset":
            out.append((start, cur))
            cur, start = [], i + 1
    if cur:
        out.append((start, cur))
    return out
