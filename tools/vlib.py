"""Common machinery for /verif checks: scratch dirs, TLC runs (check / simulate / edge
emission / trace validation), Go harness builds, evidence, known findings, verdicts.

Exit codes (DESIGN.md 2.7): 0 held, 1 violation, 2 inconclusive (infrastructure)."""
import json, os, re, shutil, subprocess, sys, tempfile, time, hashlib

VERIF = os.path.dirname(os.path.dirname(os.path.abspath(__file__)))
REPO = os.environ.get("VERIF_REPO", "/repo")
SPEC = os.path.join(VERIF, "spec")
HARNESS = os.path.join(VERIF, "harness")
BUILD = os.path.join(VERIF, ".build")
NCPU = os.cpu_count() or 4


class Inconclusive(Exception):
    def __init__(self, kind, msg):
        super().__init__(f"{kind}: {msg}")
        self.kind = kind
        self.msg = msg


def goenv():
    e = dict(os.environ)
    e["GOFLAGS"] = "-mod=mod"
    e["GOPROXY"] = "off"
    e.pop("GOTOOLCHAIN", None)   # the toolchain auto-switch to go1.25.9 must stay on
    e.pop("GOSUMDB", None)
    return e


GOMOD_TMPL = """module verifharness

go 1.25.9

require github.com/gnolang/gno v0.0.0

replace github.com/gnolang/gno => %s
"""


def go_build(cmd, ctx=None, tags="verif", timeout=1800):
    """Build harness/cmd/<cmd> against REPO's current working tree (env VERIF_REPO overrides
    /repo, for scratch worktrees). A private go.mod/go.sum pair is generated per build and
    passed with -modfile, so concurrent builds never share or reuse a rewritten go.mod
    (a go.mod that -mod=mod already pruned breaks offline resolution). Returns binary path."""
    if ctx is not None:
        d = ctx.scratch_dir("gobuild")
    else:
        os.makedirs(BUILD, exist_ok=True)
        d = tempfile.mkdtemp(prefix="gobuild.", dir=BUILD)
    with open(os.path.join(d, "go.mod"), "w") as f:
        f.write(GOMOD_TMPL % REPO)
    shutil.copyfile(os.path.join(REPO, "go.sum"), os.path.join(d, "go.sum"))
    out = os.path.join(d, cmd)
    p = subprocess.run(["go", "build", "-modfile=" + os.path.join(d, "go.mod"), "-tags", tags, "-o", out, "./cmd/" + cmd],
                       cwd=HARNESS, env=goenv(), capture_output=True, text=True, timeout=timeout)
    if p.returncode != 0:
        kind = "HOOK-STALE" if "verif_" in p.stderr else "BUILD-FAILED"
        raise Inconclusive(kind, p.stderr[-3000:])
    return out


# ----------------------------------------------------------------------------- TLC

class TLCResult:
    def __init__(self):
        self.generated = 0
        self.distinct = 0
        self.depth = 0
        self.ok = False
        self.violated = None      # name of violated invariant / property
        self.error = None
        self.out = ""
        self.traces = []          # parsed TRACE / EDGE payloads
        self.wall = 0.0
        self.coverage = {}        # action -> count (when coverage requested)
        self.cex = None           # counterexample states (text)


_re_final = re.compile(r"(\d+) states generated, (\d+) distinct states found")
_re_depth = re.compile(r"The depth of the complete state graph search is (\d+)")
_re_inv = re.compile(r"Invariant (\S+) is violated")
_re_prop = re.compile(r"(Action property|Temporal properties|Property) (\S+)? ?(is|were) violated")
_re_sim = re.compile(r"The number of states generated: (\d+)")


def _parse_payload(line, tag):
    # line looks like: <<"TRACE", "[{\"act\":...}]">>
    pre = '<<"%s", ' % tag
    if not line.startswith(pre):
        return None
    body = line[len(pre):].rstrip()
    if body.endswith(">>"):
        body = body[:-2]
    try:
        s = json.loads(body)          # TLA+ string literal uses JSON-compatible escapes
        return json.loads(s)
    except Exception:
        return None


def run_tlc(ctx, module, cfg, mode="check", workers=None, simulate=None, depth=None,
            tags=("TRACE", "EDGE"), timeout=600, deadlock=False, coverage=False,
            extra_files=(), jvm=None, max_payloads=None, dfs=False, seed=None, env_extra=None):
    """Run TLC in a scratch copy of /verif/spec. mode: check | simulate.
    cfg is a path relative to spec/. Payload lines (PrintT(<<tag, ToJson(x)>>)) are parsed."""
    d = ctx.scratch_dir("tlc")
    for f in os.listdir(SPEC):
        if f.endswith(".tla") or f.endswith(".cfg"):
            shutil.copy(os.path.join(SPEC, f), d)
    for src in extra_files:
        shutil.copy(src, d)
    meta = os.path.join(d, "meta")
    args = ["tlc", "-metadir", meta, "-config", cfg]
    if workers is None:
        workers = NCPU if mode == "check" else 1
    args += ["-workers", str(workers)]
    if mode == "simulate":
        args += ["-simulate", "num=%d" % simulate, "-depth", str(depth or 20)]
        args += ["-seed", str(seed if seed is not None else ctx.seed)]
    if not deadlock:
        args += ["-deadlock"]      # -deadlock DISABLES deadlock checking
    if coverage:
        args += ["-coverage", "1"]
    args += [module]
    env = dict(os.environ)
    opts = ["-Xss512m"]
    if jvm:
        opts += jvm
    if dfs:
        opts.append("-Dtlc2.tool.queue.IStateQueue=StateDeque")
    env["JAVA_TOOL_OPTIONS"] = " ".join(opts)
    if env_extra:
        env.update(env_extra)
    r = TLCResult()
    t0 = time.time()
    try:
        p = subprocess.Popen(args, cwd=d, env=env, stdout=subprocess.PIPE, stderr=subprocess.STDOUT, text=True)
    except Exception as e:
        raise Inconclusive("TLC-START", str(e))
    lines = []
    deadline = t0 + timeout
    import threading
    killed = []

    def killer():
        while p.poll() is None:
            if time.time() > deadline:
                killed.append(1)
                p.kill()
                return
            time.sleep(0.5)
    th = threading.Thread(target=killer, daemon=True)
    th.start()
    keep = []
    for line in p.stdout:
        got = False
        for tag in tags:
            if line.startswith('<<"%s", ' % tag):
                if max_payloads is None or len(r.traces) < max_payloads:
                    pl = _parse_payload(line, tag)
                    if pl is not None:
                        r.traces.append(pl)
                got = True
                break
        if not got:
            keep.append(line)
            if len(keep) > 20000:
                keep = keep[:2000] + keep[-8000:]
    p.wait()
    r.wall = time.time() - t0
    r.out = "".join(keep)
    if killed:
        raise Inconclusive("TIMEOUT", "tlc %s %s exceeded %ds" % (module, cfg, timeout))
    m = None
    for m in _re_final.finditer(r.out):
        pass
    if m:
        r.generated, r.distinct = int(m.group(1)), int(m.group(2))
    m = _re_depth.search(r.out)
    if m:
        r.depth = int(m.group(1))
    m = _re_sim.search(r.out)
    if m and not r.generated:
        r.generated = int(m.group(1))
    m = _re_inv.search(r.out)
    if m:
        r.violated = m.group(1)
    elif "is violated" in r.out or "was violated" in r.out or "were violated" in r.out:
        mm = re.search(r"(?:property|Property|postcondition|Postcondition) (\S+)", r.out)
        r.violated = mm.group(1) if mm else "property"
    if "Error:" in r.out and not r.violated:
        # find first error line
        idx = r.out.find("Error:")
        r.error = r.out[idx:idx + 1500]
    if coverage:
        for mm in re.finditer(r"<(\w+) line \d+, col \d+ to line \d+, col \d+ of module (\w+)>: (\d+):(\d+)", r.out):
            r.coverage[mm.group(1)] = r.coverage.get(mm.group(1), 0) + int(mm.group(4))
    if r.violated:
        i = r.out.find("is violated")
        r.cex = r.out[max(0, i - 200): i + 6000]
    r.ok = (p.returncode == 0) and not r.violated and not r.error
    if not r.ok and not r.violated and not r.error:
        r.error = "tlc exit %d: %s" % (p.returncode, r.out[-1500:])
    shutil.rmtree(meta, ignore_errors=True)
    return r


def require_model_ok(r, what):
    """A failing exhaustive run of the MODEL is never a violation of the code by itself
    (DESIGN 4.1): raise inconclusive MODEL-DIVERGENCE; callers that can reproduce the
    counterexample on real code handle r.violated before calling this."""
    if r.error:
        raise Inconclusive("TLC-ERROR", "%s: %s" % (what, r.error))
    if r.violated:
        raise Inconclusive("MODEL-DIVERGENCE", "%s: model violates %s\n%s" % (what, r.violated, r.cex or ""))


def run_apalache(ctx, module, inv, length=0, init=None, cinit=None, timeout=300, extra=()):
    d = ctx.scratch_dir("apa")
    for f in os.listdir(SPEC):
        if f.endswith(".tla"):
            shutil.copy(os.path.join(SPEC, f), d)
    args = ["apalache-mc", "check", "--length=%d" % length, "--inv=" + inv,
            "--out-dir=" + os.path.join(d, "out"), "--run-dir=" + os.path.join(d, "run")]
    if init:
        args.append("--init=" + init)
    if cinit:
        args.append("--cinit=" + cinit)
    args += list(extra) + [module]
    t0 = time.time()
    try:
        p = subprocess.run(args, cwd=d, capture_output=True, text=True, timeout=timeout)
    except subprocess.TimeoutExpired:
        raise Inconclusive("TIMEOUT", "apalache %s %s" % (module, inv))
    out = p.stdout + p.stderr
    res = {"wall": time.time() - t0, "out": out[-4000:], "dir": d}
    if "The outcome is: NoError" in out:
        res["outcome"] = "NoError"
    elif "The outcome is: Error" in out or "violation" in out.lower():
        res["outcome"] = "Error"
        # counterexample file
        for root, _, files in os.walk(os.path.join(d, "run")):
            for fn in files:
                if fn.endswith(".itf.json") and "violation" in fn:
                    res["cex"] = json.load(open(os.path.join(root, fn)))
                    break
    else:
        res["outcome"] = "Unknown"
    return res


# ----------------------------------------------------------------------------- context

import threading as _threading
_scratch_lock = _threading.Lock()


class Ctx:
    def __init__(self, pid, tier, seed, level, replay=None):
        self.pid = pid
        self.tier = tier
        self.seed = seed
        self.level = level
        self.replay = replay
        self.t0 = time.time()
        self.scratch = tempfile.mkdtemp(prefix="verif.%s." % pid)
        self._n = 0
        self.cov = {"samples": []}
        self.assumptions = []
        self.violations = []      # (key, what, replay_path)
        self.known_hits = []
        self.notes = []
        kf = os.path.join(VERIF, "known_findings.json")
        self.known = json.load(open(kf)) if os.path.exists(kf) else {"findings": []}

    def scratch_dir(self, name):
        with _scratch_lock:
            self._n += 1
            k = self._n
        d = os.path.join(self.scratch, "%s%d" % (name, k))
        os.makedirs(d)
        return d

    def log(self, *a):
        print("[%s %6.1fs]" % (self.pid, time.time() - self.t0), *a, flush=True)

    # ---- coverage accumulation
    def add(self, key, n):
        self.cov[key] = self.cov.get(key, 0) + n

    def sample(self, s, limit=4):
        if len(self.cov["samples"]) < limit:
            self.cov["samples"].append(s)

    def add_tlc(self, r, label=None):
        self.add("states", r.distinct)
        self.add("transitions", r.generated)
        runs = self.cov.setdefault("tlc_runs", [])
        runs.append({"label": label, "generated": r.generated, "distinct": r.distinct,
                     "depth": r.depth, "wall_s": round(r.wall, 2), "payloads": len(r.traces)})

    # ---- verdicts
    def violation(self, key, what, replay_obj=None):
        """Record a violation observed ON REAL CODE. key identifies the failing class."""
        for f in self.known.get("findings", []):
            if f.get("property") == self.pid and f.get("status") == "known" and f.get("key") == key:
                if key not in self.known_hits:
                    self.known_hits.append(key)
                    print("KNOWN-FINDING: property=%s %s — %s" % (self.pid, key, f.get("what", what)), flush=True)
                return False
        path = None
        if self.replay and isinstance(self.replay, str):
            path = self.replay
        else:
            rd = os.path.join(VERIF, "replay", self.pid)
            os.makedirs(rd, exist_ok=True)
            path = os.path.join(rd, "%d-%d.json" % (self.seed, len(self.violations)))
            obj = {"property": self.pid, "key": key, "what": what, "seed": self.seed, "tier": self.tier}
            if replay_obj is not None:
                obj["case"] = replay_obj
            with open(path, "w") as f:
                json.dump(obj, f, indent=1, default=str)
        if len(self.violations) < 4:
            print("VIOLATION property=%s replay=%s" % (self.pid, path), flush=True)
            print("  key=%s :: %s" % (key, str(what)[:600]), flush=True)
        self.violations.append((key, what, path))
        return True

    def replay_case(self):
        """Case object of a --replay file (None when not replaying)."""
        if not self.replay:
            return None
        obj = json.load(open(self.replay))
        return obj.get("case", obj)

    def write_evidence(self):
        # runs against a scratch tree (VERIF_REPO: seeded changes, mutants) must not overwrite the evidence of /repo
        evdir = os.path.join(VERIF, "evidence") if os.path.realpath(REPO) == "/repo" else os.path.join(VERIF, ".build", "evidence-alt")
        os.makedirs(evdir, exist_ok=True)
        cov = dict(self.cov)
        if not cov.get("samples"):
            cov["samples"] = ["(no sample recorded)"]
        cov["known_findings_hit"] = self.known_hits
        ev = {"property_id": self.pid, "tier": self.tier, "seed": self.seed, "level": self.level,
              "coverage": cov, "assumptions": self.assumptions,
              "wall_s": round(time.time() - self.t0, 2), "violations": len(self.violations)}
        if self.notes:
            ev["notes"] = self.notes
        p = os.path.join(evdir, self.pid + ".json")
        tmp = p + ".tmp%d" % os.getpid()
        with open(tmp, "w") as f:
            json.dump(ev, f, indent=1, default=str)
        os.replace(tmp, p)

    def cleanup(self):
        shutil.rmtree(self.scratch, ignore_errors=True)


# ----------------------------------------------------------------------------- driver I/O

def run_driver(ctx, binary, args, behaviours=None, timeout=900, env_extra=None, stdin_text=None):
    """Run a Go driver. behaviours (list of JSON docs) are written one per line to a file
    passed as -in. Driver prints NDJSON result lines on stdout; returns parsed list."""
    a = [binary] + list(args)
    if behaviours is not None:
        path = os.path.join(ctx.scratch_dir("in"), "behaviours.ndjson")
        with open(path, "w") as f:
            for b in behaviours:
                f.write(json.dumps(b, separators=(",", ":")) + "\n")
        a += ["-in", path]
    env = dict(os.environ)
    env["VERIF_SEED"] = str(ctx.seed)
    env["VERIF_TIER"] = ctx.tier
    env["TMPDIR"] = ctx.scratch
    if env_extra:
        env.update(env_extra)
    try:
        p = subprocess.run(a, capture_output=True, text=True, timeout=timeout, env=env, input=stdin_text)
    except subprocess.TimeoutExpired:
        raise Inconclusive("TIMEOUT", "driver %s" % " ".join(a[:3]))
    out = []
    for line in p.stdout.splitlines():
        line = line.strip()
        if line.startswith("{"):
            try:
                out.append(json.loads(line))
            except Exception:
                pass
    if p.returncode != 0:
        raise Inconclusive("DRIVER-DIED", "%s exit %d\nstdout tail: %s\nstderr tail: %s" %
                           (os.path.basename(binary), p.returncode, p.stdout[-1500:], p.stderr[-3000:]))
    return out


def handle_driver_results(ctx, results, keyfn=None):
    """Standard result lines: {"kind":"summary",...} | {"kind":"mismatch","key":..,"what":..,"case":..}
    | {"kind":"sample",...}. Returns summary dict (merged)."""
    summary = {}
    for r in results:
        k = r.get("kind")
        if k == "summary":
            for kk, vv in r.items():
                if kk == "kind":
                    continue
                if isinstance(vv, (int, float)) and not isinstance(vv, bool):
                    summary[kk] = summary.get(kk, 0) + vv
                else:
                    summary[kk] = vv
        elif k == "mismatch":
            key = r.get("key") or (keyfn(r) if keyfn else "mismatch")
            ctx.violation(key, r.get("what", ""), r.get("case"))
        elif k == "sample":
            ctx.sample(r.get("sample"))
    return summary


def dedup_prefix(behaviours):
    """Drop behaviours that are a strict prefix of another one (edge emission produces one
    behaviour per edge; replaying the maximal ones covers the same edges)."""
    keys = [json.dumps(b, sort_keys=True, separators=(",", ":")) for b in behaviours]
    # a behaviour is list of steps: prefix relation on lists
    seen = set()
    tup = []
    for b in behaviours:
        tup.append(tuple(json.dumps(s, sort_keys=True, separators=(",", ":")) for s in b))
    alls = set(tup)
    prefixes = set()
    for t in alls:
        for i in range(1, len(t)):
            prefixes.add(t[:i])
    out = []
    for b, t in zip(behaviours, tup):
        if t in prefixes or t in seen:
            continue
        seen.add(t)
        out.append(b)
    return out


def main_wrapper(pid, level, fn):
    import argparse
    ap = argparse.ArgumentParser()
    ap.add_argument("--tier", default=os.environ.get("VERIF_TIER", "quick"))
    ap.add_argument("--replay", default=None)
    ap.add_argument("--keep", action="store_true")
    a = ap.parse_args(sys.argv[2:] if len(sys.argv) > 1 and sys.argv[1] == pid else sys.argv[1:])
    tier = a.tier if a.tier in ("quick", "thorough") else "quick"
    try:
        seed = int(os.environ.get("VERIF_SEED", "1"))
    except ValueError:
        seed = 1
    seed = seed % (2 ** 31 - 1) or 1
    ctx = Ctx(pid, tier, seed, level, replay=a.replay)
    code = 0
    try:
        fn(ctx)
        ctx.write_evidence()
        if ctx.violations:
            code = 1
        else:
            ctx.log("OK: held on everything explored (%s tier, seed %d)" % (tier, seed))
    except Inconclusive as e:
        print("INCONCLUSIVE property=%s %s" % (pid, e), flush=True)
        ctx.notes.append("inconclusive: %s" % e.kind)
        # a reproduced violation recorded earlier still counts
        try:
            ctx.write_evidence()
        except Exception:
            pass
        code = 1 if ctx.violations else 2
    finally:
        if not a.keep:
            ctx.cleanup()
        else:
            print("scratch kept:", ctx.scratch)
    sys.exit(code)
