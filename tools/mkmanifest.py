#!/usr/bin/env python3
"""Assemble /verif/MANIFEST.json from manifest.d/*.json fragments (one per claimed
property) + manifest.d/_base.json (setup, hooks, engines, notes, not_applicable).
Validates against /root/.vp/MANIFEST.schema.json when jsonschema is importable."""
import json, os, glob, sys
here = os.path.dirname(os.path.dirname(os.path.abspath(__file__)))
base = json.load(open(os.path.join(here, "manifest.d", "_base.json")))
checks = []
enabled = set(open(os.path.join(here, "manifest.d", "_enabled.txt")).read().split())
for f in sorted(glob.glob(os.path.join(here, "manifest.d", "C*.json"))):
    c = json.load(open(f))
    pid = c["property_id"]
    if pid not in enabled:   # fragments of checks still being built / reviewed are not claimed
        continue
    c.setdefault("quick_cmd", "bin/vcheck %s --tier quick" % pid)
    c.setdefault("thorough_cmd", "bin/vcheck %s --tier thorough" % pid)
    c.setdefault("evidence_file", "/verif/evidence/%s.json" % pid)
    c.setdefault("replay_cmd_template", "bin/vcheck %s --replay {path}" % pid)
    checks.append(c)
claimed = {c["property_id"] for c in checks}
props = [json.loads(l)["id"] for l in open(os.path.join(here, "properties.jsonl"))]
na = [x for x in base.get("not_applicable", []) if x["property_id"] not in claimed]
listed = {x["property_id"] for x in na}
for p in props:
    if p not in claimed and p not in listed:
        na.append({"property_id": p, "reason": "not yet built in this round: the specification and binding planned in DESIGN.md section 6 are not finished and validated, so the property is not claimed"})
na.sort(key=lambda x: x["property_id"])
m = dict(base)
m["checks"] = checks
m["not_applicable"] = na
out = os.path.join(here, "MANIFEST.json")
json.dump(m, open(out + ".tmp", "w"), indent=1)
try:
    import jsonschema
    jsonschema.validate(json.load(open(out + ".tmp")), json.load(open("/root/.vp/MANIFEST.schema.json")))
except ImportError:
    pass
os.replace(out + ".tmp", out)
print("MANIFEST.json: %d checks, %d not_applicable" % (len(checks), len(na)))
