#!/bin/sh
# seedtry.sh <ID> <demo-file> <dest-dir-in-tree> <go test pkg> <run-regex> -- confirm a seeded change in a scratch worktree:
# demonstration passes without / fails with the patch. Leaves the worktree /tmp/wt-try-<ID> WITH the patch applied.
ID=$1; DEMO=$2; DEST=$3; PKG=$4; RUN=$5
WT=/tmp/wt-try-$ID
git -C /repo worktree remove --force $WT 2>/dev/null
git -C /repo worktree add --detach $WT HEAD -q || exit 2
export GOFLAGS=-mod=mod GOPROXY=off
cp "$DEMO" $WT/$DEST/ || exit 2
cd $WT
echo "== without patch (expect PASS)"; go test -count=1 -run "$RUN" $PKG 2>&1 | grep -E "^(ok|FAIL|--- FAIL|panic)" | head -5
git apply ${SEEDDIR:-/tmp/seed-$ID}/patch.diff || { echo "PATCH DOES NOT APPLY"; exit 2; }
echo "== with patch (expect FAIL)"; go test -count=1 -run "$RUN" $PKG 2>&1 | grep -E "^(ok|FAIL|--- FAIL|panic)" | head -5
rm -f $WT/$DEST/$(basename "$DEMO")
