#!/usr/bin/env python3
"""Validate MANIFEST.json and every evidence/<id>.json of a claimed property against the /root/.vp schemas."""
import json, sys, os, glob
try:
    import jsonschema
except ImportError:
    sys.path.insert(0, glob.glob('/opt/veriftools/pyvenv/lib/python3*/site-packages')[0]); import jsonschema
V = os.path.dirname(os.path.dirname(os.path.abspath(__file__)))
m = json.load(open(V + '/MANIFEST.json'))
jsonschema.validate(m, json.load(open('/root/.vp/MANIFEST.schema.json')))
es = json.load(open('/root/.vp/EVIDENCE.schema.json'))
bad = 0
for c in m['checks']:
    i = c.get('property_id') or c.get('id')
    p = V + '/evidence/%s.json' % i
    if not os.path.exists(p):
        print('MISSING', i); bad += 1; continue
    try:
        e = json.load(open(p)); jsonschema.validate(e, es)
        if e.get('level') != (c.get("level_claimed") or {}).get("category"): print('LEVEL MISMATCH', i, e.get('level'), (c.get("level_claimed") or {}).get("category")); bad += 1
    except Exception as ex:
        print('INVALID', i, str(ex).splitlines()[0][:200]); bad += 1
print('checked', len(m['checks']), 'bad', bad)
sys.exit(1 if bad else 0)
