#!/bin/sh
# MANIFEST.setup_cmd: build every harness driver once (warms the Go build cache), offline.
cd "$(dirname "$0")/.." || exit 1
python3 - <<'PY'
import sys, os
sys.path.insert(0, "tools")
import vlib
ok = True
for d in sorted(os.listdir("harness/cmd")):
    try:
        import shutil
        out = vlib.go_build(d)
        shutil.rmtree(os.path.dirname(out), ignore_errors=True)
        print("built", d, flush=True)
    except Exception as e:
        ok = False
        print("FAILED", d, str(e)[:2000], flush=True)
sys.exit(0 if ok else 1)
PY
