#!/bin/bash
# usage: seedcheck.sh <SEEDID> <CHECKID...> : apply seeded/<SEEDID>/patch.diff in scratch worktree, run checks, remove
S=$1; shift
WT=/tmp/wt-sc-$S
git -C /repo worktree remove --force $WT 2>/dev/null
git -C /repo worktree add --detach $WT HEAD -q || exit 3
(cd $WT && git apply /verif/seeded/$S/patch.diff) || { echo "APPLY FAILED $S"; git -C /repo worktree remove --force $WT; exit 3; }
cd /verif
for c in "$@"; do
  out=$(VERIF_REPO=$WT bin/vcheck $c 2>&1); rc=$?
  echo "seed=$S check=$c rc=$rc $(echo "$out" | grep -m1 -E 'key=' | cut -c1-200)"
done
git -C /repo worktree remove --force $WT
