// Package appenv builds the REAL gno.land application in-process (gnoland.NewAppWithOptions
// over a memdb or any dbm.DB) and offers the handful of operations the /verif drivers need:
// genesis with funded test accounts and packages, signed transactions, block stepping,
// and read-only projections through the public ABCI Query interface.
package appenv

import (
	"encoding/json"
	"fmt"
	"path/filepath"
	"strings"
	"time"

	"github.com/gnolang/gno/gno.land/pkg/gnoland"
	"github.com/gnolang/gno/gno.land/pkg/sdk/vm"
	"github.com/gnolang/gno/gnovm/pkg/gnoenv"
	"github.com/gnolang/gno/gnovm/pkg/gnolang"
	abci "github.com/gnolang/gno/tm2/pkg/bft/abci/types"
	bft "github.com/gnolang/gno/tm2/pkg/bft/types"
	"github.com/gnolang/gno/tm2/pkg/amino"
	"github.com/gnolang/gno/tm2/pkg/crypto"
	"github.com/gnolang/gno/tm2/pkg/crypto/secp256k1"
	dbm "github.com/gnolang/gno/tm2/pkg/db"
	"github.com/gnolang/gno/tm2/pkg/db/memdb"
	"github.com/gnolang/gno/tm2/pkg/events"
	"github.com/gnolang/gno/tm2/pkg/log"
	"github.com/gnolang/gno/tm2/pkg/sdk"
	"github.com/gnolang/gno/tm2/pkg/std"
	"github.com/gnolang/gno/tm2/pkg/store/types"
)

const ChainID = "verif-chain"

type Account struct {
	Name string
	Priv secp256k1.PrivKeySecp256k1
	Addr crypto.Address
}

func NewAccount(name string) *Account {
	p := secp256k1.GenPrivKeySecp256k1([]byte("verif-acct-" + name))
	return &Account{Name: name, Priv: p, Addr: p.PubKey().Address()}
}

type Pkg struct {
	Path  string
	Files map[string]string // name -> body (gnomod.toml generated)
}

type Options struct {
	DB        dbm.DB
	MaxGas    int64
	Balances  map[crypto.Address]int64 // ugnot
	Deployer  *Account
	Pkgs      []Pkg
	GenesisTx []std.Tx // extra genesis txs (unsigned; genesis sig verification is off)
	Time      time.Time
	Mutate    func(*gnoland.GnoGenesisState)
}

type Env struct {
	App     *sdk.BaseApp
	DB      dbm.DB
	Height  int64
	Time    time.Time
	Opts    Options
	InBlock bool
}

func appOptions(db dbm.DB) *gnoland.AppOptions {
	return &gnoland.AppOptions{
		DB:          db,
		Logger:      log.NewNoopLogger(),
		EventSwitch: events.NewEventSwitch(),
		InitChainerConfig: gnoland.InitChainerConfig{
			GenesisTxResultHandler: gnoland.PanicOnFailingTxResultHandler,
			StdlibDir:              filepath.Join(gnoenv.RootDir(), "gnovm", "stdlibs"),
			CacheStdlibLoad:        true,
		},
		SkipGenesisSigVerification: true,
		PruneStrategy:              types.PruneNothingStrategy,
	}
}

func memFiles(p Pkg) []*std.MemFile {
	names := []string{}
	for n := range p.Files {
		names = append(names, n)
	}
	names = append(names, "gnomod.toml")
	// MemPackage files must be sorted by name
	for i := 0; i < len(names); i++ {
		for j := i + 1; j < len(names); j++ {
			if names[j] < names[i] {
				names[i], names[j] = names[j], names[i]
			}
		}
	}
	var out []*std.MemFile
	for _, n := range names {
		if n == "gnomod.toml" {
			out = append(out, &std.MemFile{Name: n, Body: gnolang.GenGnoModLatest(p.Path)})
		} else {
			out = append(out, &std.MemFile{Name: n, Body: p.Files[n]})
		}
	}
	return out
}

func AddPkgMsg(creator crypto.Address, p Pkg) vm.MsgAddPackage {
	return vm.NewMsgAddPackage(creator, p.Path, memFiles(p))
}

// New creates the app and runs InitChain.
func New(o Options) (*Env, error) {
	if o.DB == nil {
		o.DB = memdb.NewMemDB()
	}
	if o.MaxGas == 0 {
		o.MaxGas = 3_000_000_000
	}
	if o.Time.IsZero() {
		o.Time = time.Unix(1_700_000_000, 0).UTC()
	}
	app, err := gnoland.NewAppWithOptions(appOptions(o.DB))
	if err != nil {
		return nil, err
	}
	e := &Env{App: app.(*sdk.BaseApp), DB: o.DB, Opts: o, Time: o.Time}
	gs := gnoland.DefaultGenState()
	for a, amt := range o.Balances {
		gs.Balances = append(gs.Balances, gnoland.Balance{Address: a, Amount: std.Coins{{Denom: "ugnot", Amount: amt}}})
	}
	// deterministic order
	for i := 0; i < len(gs.Balances); i++ {
		for j := i + 1; j < len(gs.Balances); j++ {
			if gs.Balances[j].Address.Compare(gs.Balances[i].Address) < 0 {
				gs.Balances[i], gs.Balances[j] = gs.Balances[j], gs.Balances[i]
			}
		}
	}
	for _, p := range o.Pkgs {
		tx := std.Tx{
			Msgs:       []std.Msg{AddPkgMsg(o.Deployer.Addr, p)},
			Fee:        std.Fee{GasWanted: min(o.MaxGas, 100_000_000), GasFee: std.Coin{Denom: "ugnot", Amount: 1_000_000}},
			Signatures: []std.Signature{{}},
		}
		gs.Txs = append(gs.Txs, gnoland.TxWithMetadata{Tx: tx})
	}
	for _, tx := range o.GenesisTx {
		gs.Txs = append(gs.Txs, gnoland.TxWithMetadata{Tx: tx})
	}
	if o.Mutate != nil {
		o.Mutate(&gs)
	}
	resp := e.App.InitChain(abci.RequestInitChain{
		Time:    o.Time,
		ChainID: ChainID,
		ConsensusParams: &abci.ConsensusParams{
			Block: &abci.BlockParams{MaxTxBytes: 1_000_000, MaxDataBytes: 2_000_000, MaxBlockBytes: 0, MaxGas: o.MaxGas, TimeIotaMS: 100},
		},
		Validators: []abci.ValidatorUpdate{},
		AppState:   gs,
	})
	if !resp.IsOK() {
		return nil, fmt.Errorf("InitChain: %v", resp.Error)
	}
	e.App.Commit()
	return e, nil
}

// Reopen builds a fresh app object over the same DB (cold caches), as after a restart.
func (e *Env) Reopen() error {
	app, err := gnoland.NewAppWithOptions(appOptions(e.DB))
	if err != nil {
		return err
	}
	e.App = app.(*sdk.BaseApp)
	return nil
}

func (e *Env) BeginBlock() {
	e.Height = e.App.LastBlockHeight() + 1
	e.Time = e.Time.Add(5 * time.Second)
	e.App.BeginBlock(abci.RequestBeginBlock{Header: &bft.Header{ChainID: ChainID, Height: e.Height, Time: e.Time}})
	e.InBlock = true
}

func (e *Env) EndBlockCommit() (abci.ResponseEndBlock, abci.ResponseCommit) {
	eb := e.App.EndBlock(abci.RequestEndBlock{Height: e.Height})
	c := e.App.Commit()
	e.InBlock = false
	return eb, c
}

func (e *Env) Deliver(tx std.Tx) abci.ResponseDeliverTx {
	return e.App.DeliverTx(abci.RequestDeliverTx{Tx: amino.MustMarshal(tx)})
}

// SignTx signs msgs with the given account at (accNum, seq).
func SignTx(msgs []std.Msg, gasWanted, fee int64, chainID string, signer *Account, accNum, seq uint64) std.Tx {
	tx := std.Tx{Msgs: msgs, Fee: std.Fee{GasWanted: gasWanted, GasFee: std.Coin{Denom: "ugnot", Amount: fee}}}
	sb, err := tx.GetSignBytes(chainID, accNum, seq)
	if err != nil {
		panic(err)
	}
	sig, err := signer.Priv.Sign(sb)
	if err != nil {
		panic(err)
	}
	tx.Signatures = []std.Signature{{PubKey: signer.Priv.PubKey(), Signature: sig}}
	return tx
}

// ---- projections through ABCI Query (committed state)

type AccInfo struct {
	Exists  bool
	Num     uint64
	Seq     uint64
	Ugnot   int64
	HasPub  bool
	RawJSON string
}

func (e *Env) Account(addr crypto.Address) AccInfo {
	res := e.App.Query(abci.RequestQuery{Path: "auth/accounts/" + addr.String()})
	var out AccInfo
	if !res.IsOK() || len(res.Data) == 0 || string(res.Data) == "null" {
		return out
	}
	out.RawJSON = string(res.Data)
	var w struct {
		BaseAccount struct {
			Coins   string `json:"coins"`
			PubKey  any    `json:"public_key"`
			AccNum  string `json:"account_number"`
			Seq     string `json:"sequence"`
			Address string `json:"address"`
		} `json:"BaseAccount"`
	}
	if err := json.Unmarshal(res.Data, &w); err != nil {
		return out
	}
	out.Exists = w.BaseAccount.Address != ""
	fmt.Sscan(w.BaseAccount.AccNum, &out.Num)
	fmt.Sscan(w.BaseAccount.Seq, &out.Seq)
	out.HasPub = w.BaseAccount.PubKey != nil
	return out
}

// Balance returns the ugnot balance via bank/balances.
func (e *Env) Balance(addr crypto.Address) int64 {
	res := e.App.Query(abci.RequestQuery{Path: "bank/balances/" + addr.String()})
	if !res.IsOK() {
		return -1
	}
	s := strings.Trim(string(res.Data), "\"\n ")
	if s == "" {
		return 0
	}
	coins, err := std.ParseCoins(s)
	if err != nil {
		return -2
	}
	return coins.AmountOf("ugnot")
}

func (e *Env) QEval(pkg, expr string) (string, error) {
	res := e.App.Query(abci.RequestQuery{Path: "vm/qeval", Data: []byte(pkg + "." + expr)})
	if !res.IsOK() {
		return "", res.Error
	}
	return string(res.Data), nil
}

func PkgAddr(path string) crypto.Address     { return gnolang.DerivePkgCryptoAddr(path) }
func DepositAddr(path string) crypto.Address { return gnolang.DeriveStorageDepositCryptoAddr(path) }

// ErrClass maps an ABCI error to a coarse class name (guidance, not text comparison).
func ErrClass(err abci.Error) string {
	if err == nil {
		return "ok"
	}
	switch err.(type) {
	case std.OutOfGasError:
		return "oog"
	case std.InsufficientFundsError, std.InsufficientCoinsError:
		return "funds"
	case std.UnauthorizedError:
		return "unauthorized"
	case std.InvalidGasWantedError:
		return "gaswanted"
	case std.InsufficientFeeError:
		return "fee"
	case std.UnknownAddressError:
		return "unknownaddr"
	case std.InvalidPubKeyError:
		return "pubkey"
	case std.InvalidSequenceError:
		return "sequence"
	case std.InternalError:
		return "internal"
	}
	return fmt.Sprintf("%T", err)
}
