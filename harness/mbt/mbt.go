// Package mbt is the common loop of every /verif driver: read TLC-generated behaviours
// (one JSON array of hist records per line), step a real object through them, compare,
// and print NDJSON result lines for tools/vlib.py.
package mbt

import (
	"bufio"
	"encoding/json"
	"flag"
	"fmt"
	"math/rand"
	"os"
	"reflect"
	"runtime/debug"
	"sort"
	"strconv"
	"strings"
	"sync"
)

// Step is one hist record: flat JSON object with at least "act".
type Step map[string]any

func (s Step) Act() string { return s.Str("act") }
func (s Step) Str(k string) string {
	v, ok := s[k]
	if !ok || v == nil {
		return ""
	}
	if x, ok := v.(string); ok {
		return x
	}
	return fmt.Sprint(v)
}
func (s Step) Int(k string) int {
	switch x := s[k].(type) {
	case float64:
		return int(x)
	case int:
		return x
	case string:
		n, _ := strconv.Atoi(x)
		return n
	case json.Number:
		n, _ := x.Int64()
		return int(n)
	}
	return 0
}
func (s Step) Bool(k string) bool {
	b, _ := s[k].(bool)
	return b
}
func (s Step) Has(k string) bool { _, ok := s[k]; return ok }

// Ints converts a JSON array of numbers.
func Ints(v any) []int {
	a, _ := v.([]any)
	out := make([]int, 0, len(a))
	for _, x := range a {
		switch y := x.(type) {
		case float64:
			out = append(out, int(y))
		case string:
			n, _ := strconv.Atoi(y)
			out = append(out, n)
		}
	}
	return out
}

func Strs(v any) []string {
	a, _ := v.([]any)
	out := make([]string, 0, len(a))
	for _, x := range a {
		out = append(out, fmt.Sprint(x))
	}
	return out
}

var (
	outMu sync.Mutex
	out   = bufio.NewWriterSize(os.Stdout, 1<<16)
)

func Emit(v any) {
	bz, err := json.Marshal(v)
	if err != nil {
		panic(err)
	}
	outMu.Lock()
	out.Write(bz)
	out.WriteByte('\n')
	outMu.Unlock()
}

func Flush() { outMu.Lock(); out.Flush(); outMu.Unlock() }

// Mismatch reports a verdict-observable disagreement between real code and spec.
func Mismatch(key, what string, c any) {
	Emit(map[string]any{"kind": "mismatch", "key": key, "what": what, "case": c})
}

func Sample(s any) { Emit(map[string]any{"kind": "sample", "sample": s}) }

func Summary(m map[string]any) {
	m["kind"] = "summary"
	Emit(m)
}

// ReadBehaviours reads the -in file: each line is a JSON array of steps.
func ReadBehaviours(path string) ([][]Step, error) {
	f, err := os.Open(path)
	if err != nil {
		return nil, err
	}
	defer f.Close()
	var res [][]Step
	sc := bufio.NewScanner(f)
	sc.Buffer(make([]byte, 1<<20), 1<<28)
	for sc.Scan() {
		line := sc.Bytes()
		if len(line) == 0 {
			continue
		}
		var steps []Step
		if err := json.Unmarshal(line, &steps); err != nil {
			return nil, fmt.Errorf("bad behaviour line: %w", err)
		}
		res = append(res, steps)
	}
	return res, sc.Err()
}

// Flags common to all drivers.
type Flags struct {
	In    string
	Seed  int64
	Tier  string
	Mode  string
	N     int
	Out   string
	Extra string
}

func ParseFlags() *Flags {
	f := &Flags{}
	flag.StringVar(&f.In, "in", "", "behaviours file (ndjson)")
	flag.StringVar(&f.Mode, "mode", "replay", "driver mode")
	flag.IntVar(&f.N, "n", 0, "count for generator modes")
	flag.StringVar(&f.Out, "out", "", "output file (trace ndjson)")
	flag.StringVar(&f.Extra, "x", "", "extra driver-specific argument")
	flag.Parse()
	f.Seed = 1
	if s := os.Getenv("VERIF_SEED"); s != "" {
		if n, err := strconv.ParseInt(s, 10, 64); err == nil {
			f.Seed = n
		}
	}
	f.Tier = os.Getenv("VERIF_TIER")
	if f.Tier == "" {
		f.Tier = "quick"
	}
	return f
}

func (f *Flags) Rand() *rand.Rand { return rand.New(rand.NewSource(f.Seed)) }

// Guard runs fn and converts a panic into (panicked=true, value).
func Guard(fn func()) (panicked bool, val any, stack string) {
	defer func() {
		if r := recover(); r != nil {
			panicked = true
			val = r
			stack = string(debug.Stack())
		}
	}()
	fn()
	return
}

// Eq compares an observed Go value with an expected JSON value structurally, after
// normalising both through JSON.
func Eq(observed, expected any) bool {
	return reflect.DeepEqual(Norm(observed), Norm(expected))
}

func Norm(v any) any {
	bz, err := json.Marshal(v)
	if err != nil {
		return fmt.Sprint(v)
	}
	var x any
	if err := json.Unmarshal(bz, &x); err != nil {
		return string(bz)
	}
	return x
}

func JS(v any) string {
	bz, _ := json.Marshal(v)
	return string(bz)
}

// SetOf normalises a JSON array into a sorted slice of strings (TLA+ sets are emitted as
// arrays in unspecified order).
func SetOf(v any) []string {
	a, _ := v.([]any)
	out := make([]string, 0, len(a))
	for _, x := range a {
		out = append(out, JS(x))
	}
	sort.Strings(out)
	return out
}

func Die(format string, a ...any) {
	Flush()
	fmt.Fprintf(os.Stderr, format+"\n", a...)
	os.Exit(3)
}

func ShortStack(st string) string {
	lines := strings.Split(st, "\n")
	var keep []string
	for _, l := range lines {
		if strings.Contains(l, "gnolang/gno") || strings.Contains(l, "/repo/") {
			keep = append(keep, strings.TrimSpace(l))
		}
		if len(keep) >= 8 {
			break
		}
	}
	return strings.Join(keep, " | ")
}
