package main

// GateDB wraps the backing dbm.DB of the application: every call that can matter for an
// interleaving (reads by key class, version-discovery iterators, physical batch writes,
// NewSnapshot, reads through a snapshot) first passes a scheduler gate. It also keeps what the
// driver needs as ground truth: the number of physical writes applied (= durable height for the
// plain app), the version a snapshot was taken at, and whether a snapshot is read after Close.
// (copied between harness/cmd/querycommit and harness/cmd/fastindex: keep in sync)

import (
	"errors"
	"regexp"
	"strconv"
	"strings"
	"sync"

	"github.com/gnolang/gno/tm2/pkg/amino"
	dbm "github.com/gnolang/gno/tm2/pkg/db"
)

var reCInfo = regexp.MustCompile(`^s/[0-9]+$`)

// keyClass names the kind of record a key addresses (bptree layout under a store prefix).
func keyClass(key []byte) string {
	k := string(key)
	switch {
	case k == "s/latest":
		return "latest"
	case reCInfo.MatchString(k):
		return "cinfo"
	}
	i := -1
	switch {
	case strings.HasPrefix(k, "s/_/"):
		i = 4
	case strings.HasPrefix(k, "s/k:"):
		if j := strings.IndexByte(k[4:], '/'); j >= 0 {
			i = 4 + j + 1
		}
	default:
		i = 0 // a store used directly over the DB (no rootmulti prefix)
	}
	if i < 0 || i >= len(k) {
		return "other"
	}
	rest := k[i:]
	switch rest[0] {
	case 'R':
		return "root"
	case 'M':
		if rest == "Mfastidx" {
			return "stamp"
		}
		return "tmeta"
	case 'F':
		return "fast"
	case 'V':
		return "val"
	case 'B':
		return "node"
	case 'O':
		return "orphan"
	}
	return "base"
}

type GateDB struct {
	dbm.DB
	S         *Sched
	Snapshots bool

	mu         sync.Mutex
	Writes     int // physical writes applied
	NewSnaps   int
	AfterClose []string // reads through a closed snapshot (use after free on a real backend)
	lastSnapV  int64
}

func (g *GateDB) gate(p string) {
	if g.S != nil {
		g.S.Gate(p)
	}
}

func (g *GateDB) Get(k []byte) ([]byte, error) { g.gate("get:" + keyClass(k)); return g.DB.Get(k) }
func (g *GateDB) Has(k []byte) (bool, error)   { g.gate("has:" + keyClass(k)); return g.DB.Has(k) }
func (g *GateDB) Iterator(s, e []byte) (dbm.Iterator, error) {
	g.gate("iter:" + keyClass(s))
	return g.DB.Iterator(s, e)
}
func (g *GateDB) ReverseIterator(s, e []byte) (dbm.Iterator, error) {
	g.gate("iter:" + keyClass(s))
	return g.DB.ReverseIterator(s, e)
}
func (g *GateDB) applied() { g.mu.Lock(); g.Writes++; g.mu.Unlock() }
func (g *GateDB) Set(k, v []byte) error {
	g.gate("write")
	err := g.DB.Set(k, v)
	g.applied()
	return err
}
func (g *GateDB) SetSync(k, v []byte) error {
	g.gate("write")
	err := g.DB.SetSync(k, v)
	g.applied()
	return err
}
func (g *GateDB) Delete(k []byte) error {
	g.gate("write")
	err := g.DB.Delete(k)
	g.applied()
	return err
}
func (g *GateDB) DeleteSync(k []byte) error {
	g.gate("write")
	err := g.DB.DeleteSync(k)
	g.applied()
	return err
}
func (g *GateDB) NewBatch() dbm.Batch            { return &gateBatch{Batch: g.DB.NewBatch(), g: g} }
func (g *GateDB) NewBatchWithSize(n int) dbm.Batch { return &gateBatch{Batch: g.DB.NewBatchWithSize(n), g: g} }
func (g *GateDB) Close() error                   { return nil }

func latestOf(get func([]byte) ([]byte, error)) int64 {
	bz, err := get([]byte("s/latest"))
	if err != nil || bz == nil {
		return 0
	}
	var v int64
	if amino.UnmarshalSized(bz, &v) != nil {
		return -1
	}
	return v
}

func (g *GateDB) NewSnapshot() (dbm.Snapshot, error) {
	g.gate("newsnap")
	if !g.Snapshots {
		return nil, errors.New("snapshots not supported")
	}
	sn, err := g.DB.NewSnapshot()
	if err != nil {
		return nil, err
	}
	g.mu.Lock()
	g.NewSnaps++
	id := g.NewSnaps
	g.lastSnapV = latestOf(sn.Get)
	g.mu.Unlock()
	return &gateSnap{Snapshot: sn, g: g, id: id}, nil
}

// LastSnapshotVersion = s/latest inside the newest snapshot handed out (-1: none yet).
func (g *GateDB) LastSnapshotVersion() int64 {
	g.mu.Lock()
	defer g.mu.Unlock()
	if g.NewSnaps == 0 {
		return -1
	}
	return g.lastSnapV
}

func (g *GateDB) DurableVersion() int64 { return latestOf(g.DB.Get) }

type gateBatch struct {
	dbm.Batch
	g *GateDB
}

func (b *gateBatch) Write() error {
	b.g.gate("write")
	err := b.Batch.Write()
	b.g.applied()
	return err
}
func (b *gateBatch) WriteSync() error {
	b.g.gate("write")
	err := b.Batch.WriteSync()
	b.g.applied()
	return err
}

type gateSnap struct {
	dbm.Snapshot
	g      *GateDB
	id     int
	closed bool
}

func (s *gateSnap) use(what string) {
	s.g.mu.Lock()
	if s.closed {
		s.g.AfterClose = append(s.g.AfterClose, "snapshot "+strconv.Itoa(s.id)+" "+what)
	}
	s.g.mu.Unlock()
}
func (s *gateSnap) Get(k []byte) ([]byte, error) {
	s.g.gate("get:" + keyClass(k))
	s.use("Get")
	return s.Snapshot.Get(k)
}
func (s *gateSnap) Has(k []byte) (bool, error) {
	s.g.gate("has:" + keyClass(k))
	s.use("Has")
	return s.Snapshot.Has(k)
}
func (s *gateSnap) Iterator(a, e []byte) (dbm.Iterator, error) {
	s.g.gate("iter:" + keyClass(a))
	s.use("Iterator")
	return s.Snapshot.Iterator(a, e)
}
func (s *gateSnap) ReverseIterator(a, e []byte) (dbm.Iterator, error) {
	s.g.gate("iter:" + keyClass(a))
	s.use("ReverseIterator")
	return s.Snapshot.ReverseIterator(a, e)
}
func (s *gateSnap) Close() error {
	s.g.mu.Lock()
	s.closed = true
	s.g.mu.Unlock()
	return s.Snapshot.Close()
}
