//go:build verifhook

package main

import (
	"sync"

	"github.com/gnolang/gno/tm2/pkg/verifhook"
)

const hooksAvailable = true

var hookOnce sync.Once

// installHooks routes verifhook.Yield(point) to the scheduler owning the calling goroutine.
func installHooks(*Sched) {
	hookOnce.Do(func() {
		verifhook.Set(func(point string) {
			if s := ownerOfCurrent(); s != nil {
				s.Gate("hook:" + point)
			}
		})
	})
}
