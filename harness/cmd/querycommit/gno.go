package main

// The same gated replay on the REAL gno.land application (gnoland.NewAppWithOptions): the
// consensus goroutine executes blocks whose one transaction calls a realm function with a coin
// send (the realm's counter lives in the unversioned "base" store, its coins in the versioned
// "main" store, both move by one per block), the query goroutine runs vm/qeval and .app/simulate
// of a function that returns both. One application instance serves many schedules: a schedule
// starts from whatever height H the chain has reached; model version v is real height H+v.
// The VM decides when it reads, so a query is only gated before its first view read; with a
// snapshot view that is observationally the same (the view is frozen once acquired).

import (
	"encoding/hex"
	"fmt"
	"log/slog"
	"path/filepath"
	"regexp"
	"sort"
	"strconv"
	"strings"
	"time"

	"github.com/gnolang/gno/gno.land/pkg/gnoland"
	"github.com/gnolang/gno/gno.land/pkg/sdk/vm"
	"github.com/gnolang/gno/gnovm/pkg/gnoenv"
	"github.com/gnolang/gno/tm2/pkg/amino"
	abci "github.com/gnolang/gno/tm2/pkg/bft/abci/types"
	bft "github.com/gnolang/gno/tm2/pkg/bft/types"
	"github.com/gnolang/gno/tm2/pkg/crypto"
	dbm "github.com/gnolang/gno/tm2/pkg/db"
	"github.com/gnolang/gno/tm2/pkg/db/memdb"
	"github.com/gnolang/gno/tm2/pkg/events"
	"github.com/gnolang/gno/tm2/pkg/sdk"
	"github.com/gnolang/gno/tm2/pkg/std"
	"github.com/gnolang/gno/tm2/pkg/store/types"

	"verifharness/appenv"
	"verifharness/mbt"
)

const tallyPath = "gno.land/r/verif/tally"

const tallySrc = `package tally

import (
	"chain"
	"chain/banker"
	"strconv"
)

var n int

func Bump(cur realm) { n++ }

// Peek returns the counter (a realm object: base store) and the realm's own coins (bank: main store).
func Peek() string {
	b := banker.NewReadonlyBanker()
	return "n=" + strconv.Itoa(n) + ";c=" + strconv.FormatInt(b.GetCoin(chain.PackageAddress("gno.land/r/verif/tally"), "ugnot"), 10)
}

func PeekTx(cur realm) string { return Peek() }
`

type gnoApp struct {
	app    *sdk.BaseApp
	a, q   *appenv.Account
	accNum uint64
	seq    uint64
	qNum   uint64
}

func newGnoApp(db dbm.DB, logger *slog.Logger) (*gnoApp, error) {
	a, q, d := appenv.NewAccount("a"), appenv.NewAccount("q"), appenv.NewAccount("deployer")
	abciApp, err := gnoland.NewAppWithOptions(&gnoland.AppOptions{
		DB: db, Logger: logger, EventSwitch: events.NewEventSwitch(),
		InitChainerConfig: gnoland.InitChainerConfig{
			GenesisTxResultHandler: gnoland.PanicOnFailingTxResultHandler,
			StdlibDir:              filepath.Join(gnoenv.RootDir(), "gnovm", "stdlibs"),
			CacheStdlibLoad:        true,
		},
		SkipGenesisSigVerification: true,
		PruneStrategy:              types.PruneNothingStrategy,
	})
	if err != nil {
		return nil, err
	}
	g := &gnoApp{app: abciApp.(*sdk.BaseApp), a: a, q: q}
	gs := gnoland.DefaultGenState()
	bals := map[crypto.Address]int64{a.Addr: 1_000_000_000, q.Addr: 1_000_000_000, d.Addr: 1_000_000_000}
	for ad, amt := range bals {
		gs.Balances = append(gs.Balances, gnoland.Balance{Address: ad, Amount: std.Coins{{Denom: "ugnot", Amount: amt}}})
	}
	sort.Slice(gs.Balances, func(i, j int) bool { return gs.Balances[i].Address.Compare(gs.Balances[j].Address) < 0 })
	gs.Txs = append(gs.Txs, gnoland.TxWithMetadata{Tx: std.Tx{
		Msgs:       []std.Msg{appenv.AddPkgMsg(d.Addr, appenv.Pkg{Path: tallyPath, Files: map[string]string{"tally.gno": tallySrc}})},
		Fee:        std.Fee{GasWanted: 100_000_000, GasFee: std.Coin{Denom: "ugnot", Amount: 1_000_000}},
		Signatures: []std.Signature{{}},
	}})
	resp := g.app.InitChain(abci.RequestInitChain{
		Time: plainT0, ChainID: appenv.ChainID,
		ConsensusParams: &abci.ConsensusParams{Block: &abci.BlockParams{MaxTxBytes: 1_000_000, MaxDataBytes: 2_000_000, MaxGas: 3_000_000_000, TimeIotaMS: 100}},
		Validators:      []abci.ValidatorUpdate{}, AppState: gs,
	})
	if !resp.IsOK() {
		return nil, fmt.Errorf("InitChain: %v", resp.Error)
	}
	// block 1 commits the genesis state, as on a node
	g.app.BeginBlock(abci.RequestBeginBlock{Header: &bft.Header{ChainID: appenv.ChainID, Height: 1, Time: plainT0.Add(5 * time.Second)}})
	g.app.EndBlock(abci.RequestEndBlock{Height: 1})
	g.app.Commit()
	e := &appenv.Env{App: g.app}
	ai, qi := e.Account(a.Addr), e.Account(q.Addr)
	g.accNum, g.seq, g.qNum = ai.Num, ai.Seq, qi.Num
	return g, nil
}

// exec = BeginBlock, one transaction (Bump with a 1 ugnot send), EndBlock
func (g *gnoApp) exec() error {
	h := g.app.LastBlockHeight() + 1
	g.app.BeginBlock(abci.RequestBeginBlock{Header: &bft.Header{ChainID: appenv.ChainID, Height: h, Time: plainT0.Add(time.Duration(h) * 5 * time.Second)}})
	call := vm.NewMsgCall(g.a.Addr, std.Coins{{Denom: "ugnot", Amount: 1}}, tallyPath, "Bump", nil)
	tx := appenv.SignTx([]std.Msg{call}, 20_000_000, 1_000_000, appenv.ChainID, g.a, g.accNum, g.seq)
	r := g.app.DeliverTx(abci.RequestDeliverTx{Tx: amino.MustMarshal(tx)})
	if !r.IsOK() {
		return fmt.Errorf("block %d: %v %.300s", h, r.Error, r.Log)
	}
	g.seq++
	g.app.EndBlock(abci.RequestEndBlock{Height: h})
	return nil
}

var rePeek = regexp.MustCompile(`n=([0-9]+);c=([0-9]+)`)

// peek runs one query and returns (counter height, coin height): both are 1 + the number of bumps
func (g *gnoApp) peek(kind string) (raw string, tags []int64, stores []string, errText string) {
	var data string
	switch kind {
	case "custom":
		res := g.app.Query(abci.RequestQuery{Path: "vm/qeval", Data: []byte(tallyPath + ".Peek()")})
		if res.Error != nil {
			return "", nil, nil, res.Error.Error()
		}
		data = string(res.Data)
	case "simulate":
		call := vm.NewMsgCall(g.q.Addr, nil, tallyPath, "PeekTx", nil)
		tx := appenv.SignTx([]std.Msg{call}, 20_000_000, 1_000_000, appenv.ChainID, g.q, g.qNum, 0)
		res := g.app.Query(abci.RequestQuery{Path: ".app/simulate", Data: amino.MustMarshal(tx)})
		if res.Error != nil {
			return "", nil, nil, res.Error.Error()
		}
		var r sdk.Result
		if err := amino.Unmarshal(res.Value, &r); err != nil {
			return "", nil, nil, "decode: " + err.Error()
		}
		if r.Error != nil {
			return "", nil, nil, r.Error.Error() + " " + r.Log
		}
		data = string(r.Data)
	default:
		return "", nil, nil, "unsupported kind " + kind
	}
	m := rePeek.FindStringSubmatch(data)
	if m == nil {
		return data, nil, nil, "unparsable: " + data
	}
	n, _ := strconv.ParseInt(m[1], 10, 64)
	c, _ := strconv.ParseInt(m[2], 10, 64)
	return m[0], []int64{c + 1, n + 1}, []string{"main", "base"}, ""
}

type gnoWorld struct {
	s      *Sched
	g      *GateDB
	app    *gnoApp
	ref    *gnoApp // the same chain without any query, advanced in lockstep
	cproc  *Proc
	qproc  *Proc
	q      *queryObs
	cerr   string
	lastH  string
	fine   bool
}

func newGnoWorld(fine bool) *gnoWorld {
	w := &gnoWorld{s: NewSched(), fine: fine}
	w.g = &GateDB{DB: memdb.NewMemDB(), S: w.s, Snapshots: true}
	var err error
	if w.app, err = newGnoApp(w.g, slog.New(gateLogger{w.s, nil})); err != nil {
		mbt.Die("gno.land app: %v", err)
	}
	if w.ref, err = newGnoApp(memdb.NewMemDB(), slog.New(slog.NewTextHandler(discard{}, &slog.HandlerOptions{Level: slog.LevelError}))); err != nil {
		mbt.Die("gno.land reference app: %v", err)
	}
	installHooks(w.s)
	w.cproc = w.s.Spawn("C", func(pt string) bool {
		return pt == "write" || pt == "newsnap" || pt == "log:commit-synced" || strings.HasPrefix(pt, "c.") || (fine && pt == "hook:rootmulti.Commit:swapped")
	}, func() {
		for {
			w.s.Gate("c.idle")
			if err := w.app.exec(); err != nil {
				w.cerr = err.Error()
				return
			}
			w.s.Gate("c.exec")
			w.app.app.Commit()
			w.lastH = hex.EncodeToString(w.app.app.LastCommitID().Hash)
		}
	})
	if err := w.s.Step(w.cproc); err != nil || w.cproc.At != "c.idle" { // park at the first idle gate
		mbt.Die("gno.land consensus goroutine: %v at %s", err, w.cproc.At)
	}
	return w
}

func (w *gnoWorld) startQuery(kind string) {
	q := &queryObs{Kind: kind, Ord: "mb", StartH: w.app.app.LastBlockHeight()}
	w.q = q
	seen := false
	w.qproc = w.s.Spawn("Q", func(pt string) bool {
		if pt == "hook:rootmulti.immutableAtVersion:enter" {
			return w.fine
		}
		if pt == "get:cinfo" && !seen {
			seen = true
			q.SawView = true
			return true
		}
		return false
	}, func() {
		raw, tags, stores, errText := w.app.peek(kind)
		q.Raw, q.Tags, q.Stores = raw, tags, stores
		if errText != "" {
			q.Err, q.ErrText = true, errText
		}
		for range tags {
			q.Durable = append(q.Durable, w.g.DurableVersion())
		}
	})
}

var gnoGateAfter = map[string]string{"CExec": "c.exec", "CPrepare": "write", "CWriteSync": "newsnap", "CSwapPublish": "log:commit-synced",
	"CSwap": "hook:rootmulti.Commit:swapped", "CPublish": "log:commit-synced", "CSetHeader": "c.idle",
	"QStart": "get:cinfo", "QResolve": "hook:rootmulti.immutableAtVersion:enter", "QAcquire": "get:cinfo"}

// drain brings the application back to an idle consensus connection with no query in flight.
func (w *gnoWorld) drain() error {
	if w.qproc != nil && !w.qproc.Done {
		if err := w.s.Finish(w.qproc); err != nil {
			return err
		}
	}
	for i := 0; w.cproc.At != "c.idle" && !w.cproc.Done; i++ {
		if i > 20 {
			return fmt.Errorf("consensus goroutine does not return to idle (at %s)", w.cproc.At)
		}
		if err := w.s.Step(w.cproc); err != nil {
			return err
		}
		if w.cproc.At == "c.idle" {
			if err := w.advanceRef(); err != nil {
				return err
			}
		}
	}
	if w.cproc.Done {
		return fmt.Errorf("consensus goroutine ended: %v %s", w.cproc.Panic, w.cerr)
	}
	return nil
}

func (w *gnoWorld) advanceRef() error {
	if err := w.ref.exec(); err != nil {
		return err
	}
	w.ref.app.Commit()
	return nil
}

func (w *gnoWorld) replay(beh []mbt.Step) (o outcome, obs []queryObs, skipped bool) {
	for _, st := range beh {
		if st.Str("kind") == "store" {
			return o, nil, true
		}
	}
	H := w.app.app.LastBlockHeight()
	rel := func(x int64) int64 { return x - H }
	for k, st := range beh {
		act := st.Act()
		var p *Proc
		switch {
		case act == "QStart" || act == "QResolve":
			w.startQuery(st.Str("kind"))
			p = w.qproc
		case strings.HasPrefix(act, "Q"):
			p = w.qproc
		default:
			p = w.cproc
		}
		switch {
		case act == "QLoad" || act == "QRead":
			// the VM reads when it wants: the query runs on at QLoad; its remaining model steps are no-ops
			if !p.Done {
				if err := w.s.Finish(p); err != nil {
					o.drift = fmt.Sprintf("step %d %s: %v", k, act, err)
					return
				}
			}
		case act == "QEnd":
			if !p.Done {
				if err := w.s.Finish(p); err != nil {
					o.drift = fmt.Sprintf("step %d %s: %v", k, act, err)
					return
				}
			}
		default:
			if err := w.s.Step(p); err != nil {
				o.drift = fmt.Sprintf("step %d %s: %v", k, act, err)
				return
			}
			if want := gnoGateAfter[act]; !p.Done && p.At != want {
				if o.drift == "" {
					o.drift = fmt.Sprintf("step %d %s: process at gate %q, expected %q", k, act, p.At, want)
				}
				if p != w.qproc {
					return
				}
			}
		}
		if p == w.cproc && p.Done {
			o.violKey, o.violWhat = "C28:commit-panic", fmt.Sprintf("gno.land consensus connection ended at step %d %s: %v %s", k, act, p.Panic, w.cerr)
			return
		}
		if act == "QEnd" {
			q := w.q
			for i := range q.Tags {
				q.Tags[i] = rel(q.Tags[i])
				q.Durable[i] = rel(q.Durable[i])
			}
			judgeObs(q, w.qproc, true, st, &o, fmt.Sprintf("gno.land application at height %d+", H))
			obs = append(obs, *q)
			if o.violKey != "" {
				return
			}
		}
		if act == "CSetHeader" {
			if err := w.advanceRef(); err != nil {
				o.drift = "reference chain: " + err.Error()
				return
			}
			if rh := hex.EncodeToString(w.ref.app.LastCommitID().Hash); rh != w.lastH || w.ref.app.LastBlockHeight() != w.app.app.LastBlockHeight() {
				o.violKey = "C28:interference:commit-hash"
				o.violWhat = fmt.Sprintf("gno.land block %d committed with hash %s, the query-free chain has %s at height %d", w.app.app.LastBlockHeight(), w.lastH, rh, w.ref.app.LastBlockHeight())
				return
			}
		}
		if len(w.g.AfterClose) > 0 {
			o.violKey, o.violWhat = "C28:snapshot-used-after-close", strings.Join(w.g.AfterClose, "; ")
			return
		}
		exp := st["st"].(map[string]any)
		cid, dm, sv := rel(w.app.app.LastBlockHeight()), rel(w.g.DurableVersion()), rel(w.g.LastSnapshotVersion())
		if cid > dm && o.violKey == "" {
			o.violKey = "C28:published-height-not-durable"
			o.violWhat = fmt.Sprintf("gno.land: after step %d %s LastBlockHeight() is %d ahead of the durable height", k, act, cid-dm)
			return
		}
		esv := int64(mbt.Step(exp).Int("snapv"))
		if esv == -1 {
			esv = 0
		}
		if o.drift == "" && (cid != int64(mbt.Step(exp).Int("cid")) || dm != int64(mbt.Step(exp).Int("dmeta")) || sv != esv) {
			o.drift = fmt.Sprintf("step %d %s: projection (cid %d, durable %d, snapshot %d) relative to %d, model %v", k, act, cid, dm, sv, H, exp)
		}
	}
	return
}
