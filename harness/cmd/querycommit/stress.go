package main

import "verifharness/mbt"

func stress(f *mbt.Flags) { mbt.Die("stress mode not built yet") }
