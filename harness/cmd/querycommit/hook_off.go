//go:build !verifhook

package main

// The tm2/pkg/verifhook package (hooks/verifhook-rootmulti.diff) is not in the tree under test:
// the yield points between LastBlockHeight()/acquire and between snapshot swap/setLastCommitID
// do not exist, so schedules that need them are skipped (reported as skipped in the evidence).
const hooksAvailable = false

func installHooks(*Sched) {}
