package main

// A plain sdk.BaseApp with the two stores of gno.land (a versioned tree store "main" and the
// unversioned dbadapter store "base") mounted the way gno.land mounts them, no ante handler,
// one message route and one query route. Block n writes the tag n under a fixed key of both
// stores (plus per-height keys that are later deleted, so that pruning, orphan lists and
// fast-index deletes all happen), which makes the height a value came from readable.
// (started as a copy of harness/cmd/crashcommit/plainapp.go; this one additionally has an ante handler
// with an account-style sequence, read back by simulations, for the mempool scenarios of C28)

import (
	"fmt"
	"log/slog"
	"strconv"
	"strings"
	"time"

	"github.com/gnolang/gno/tm2/pkg/amino"
	abci "github.com/gnolang/gno/tm2/pkg/bft/abci/types"
	bft "github.com/gnolang/gno/tm2/pkg/bft/types"
	dbm "github.com/gnolang/gno/tm2/pkg/db"
	"github.com/gnolang/gno/tm2/pkg/sdk"
	"github.com/gnolang/gno/tm2/pkg/sdk/testutils"
	"github.com/gnolang/gno/tm2/pkg/std"
	"github.com/gnolang/gno/tm2/pkg/store"
	storebptree "github.com/gnolang/gno/tm2/pkg/store/bptree"
	"github.com/gnolang/gno/tm2/pkg/store/dbadapter"
	storeiavl "github.com/gnolang/gno/tm2/pkg/store/iavl"
	"github.com/gnolang/gno/tm2/pkg/store/types"
)

const plainChainID = "verif-plain"

var (
	keyX     = []byte("x")   // main store: tag of the last block
	keyBX    = []byte("b:x") // base store: tag of the last block
	keySeq   = []byte("seq") // main store: transactions delivered so far (bumped by the ante handler)
	simMB    = int64(1_000_001)
	simBM    = int64(1_000_002)
	plainT0  = time.Unix(1_700_000_000, 0).UTC()
	noopHook = func(string) {}
)

type PlainOpts struct {
	DB     dbm.DB
	Logger *slog.Logger
	Main   string // bptree-fast | bptree | iavl
	Mount  string // "db" (MountStoreWithDB(key, cons, db): shared prefix s/_/, as gno.land) | "nil" (s/k:<name>/)
	Keep   int64  // KeepRecent; <0 = keep every version
	Yield  func(point string) // gated driver: called by the handlers before each store read and before returning
}

type PlainApp struct {
	App     *sdk.BaseApp
	CMS     types.CommitMultiStore
	mainKey types.StoreKey
	baseKey types.StoreKey
	height  int64
	yield   func(string)
}

type plainHandler struct{ p *PlainApp }

type seqCtxKey struct{}

// ante: like the auth module, read the stored sequence and bump it. DeliverTx commits the bump with the
// block, CheckTx leaves it in checkState, a simulation in its throw-away cache. The value seen is handed to
// the message handler so that a simulation can report it.
func (p *PlainApp) ante(ctx sdk.Context, tx std.Tx, simulate bool) (sdk.Context, sdk.Result, bool) {
	st := ctx.Store(p.mainKey)
	seq := readTag(st.Get(nil, keySeq))
	if seq < 0 {
		seq = 0
	}
	if p.yield != nil {
		p.yield("n.ante") // a note for the driver (not a gate): when the sequence was read
	}
	st.Set(nil, keySeq, tagBytes(seq+1))
	return ctx.WithValue(seqCtxKey{}, seq), sdk.Result{GasWanted: tx.Fee.GasWanted}, false
}

func tagBytes(n int64) []byte { return []byte(strconv.FormatInt(n, 10)) }

func readTag(bz []byte) int64 {
	if bz == nil {
		return -1
	}
	n, err := strconv.ParseInt(string(bz), 10, 64)
	if err != nil {
		return -2
	}
	return n
}

func (p *PlainApp) writeBlock(ctx sdk.Context, n int64) {
	m, b := ctx.Store(p.mainKey), ctx.Store(p.baseKey)
	m.Set(nil, keyX, tagBytes(n))
	b.Set(nil, keyBX, tagBytes(n))
	m.Set(nil, []byte(fmt.Sprintf("k%03d", n)), tagBytes(n))
	b.Set(nil, []byte(fmt.Sprintf("b:k%03d", n)), tagBytes(n))
	if n >= 3 { // delete what block n-2 added: removals reach the tree, the fast index and the orphan lists
		m.Delete(nil, []byte(fmt.Sprintf("k%03d", n-2)))
		b.Delete(nil, []byte(fmt.Sprintf("b:k%03d", n-2)))
	}
}

func (p *PlainApp) readBoth(ctx sdk.Context, order string) string {
	y := p.yield
	if y == nil {
		y = noopHook
	}
	var out []string
	for _, c := range order {
		switch c {
		case 'm':
			y("q.read.main")
			out = append(out, fmt.Sprintf("m=%d", readTag(ctx.Store(p.mainKey).Get(nil, keyX))))
		case 'b':
			y("q.read.base")
			out = append(out, fmt.Sprintf("b=%d", readTag(ctx.Store(p.baseKey).Get(nil, keyBX))))
		}
	}
	y("q.done")
	return strings.Join(out, ";")
}

func (h plainHandler) Process(ctx sdk.Context, msg std.Msg) sdk.Result {
	mc, ok := msg.(testutils.MsgCounter)
	if !ok {
		return sdk.ABCIResultFromError(std.ErrUnknownRequest("unexpected msg"))
	}
	var res sdk.Result
	switch mc.Counter {
	case simMB, simBM:
		order := "mb"
		if mc.Counter == simBM {
			order = "bm"
		}
		seq, _ := ctx.Value(seqCtxKey{}).(int64)
		res.Data = []byte(fmt.Sprintf("%s;s=%d", h.p.readBoth(ctx, order), seq))
	default:
		h.p.writeBlock(ctx, mc.Counter)
	}
	return res
}

func (h plainHandler) Query(ctx sdk.Context, req abci.RequestQuery) (res abci.ResponseQuery) {
	order := string(req.Data)
	if order == "" {
		order = "mb"
	}
	res.Data = []byte(h.p.readBoth(ctx, order))
	res.Height = req.Height
	return
}

func mainCons(name string) types.CommitStoreConstructor {
	switch name {
	case "bptree":
		return storebptree.StoreConstructor
	case "iavl":
		return storeiavl.StoreConstructor
	default:
		return storebptree.FastStoreConstructor
	}
}

// NewPlainApp builds the app object over db and loads the latest version (as a node start does).
func NewPlainApp(o PlainOpts) (p *PlainApp, err error) {
	if o.Logger == nil {
		o.Logger = slog.New(slog.NewTextHandler(discard{}, &slog.HandlerOptions{Level: slog.LevelError}))
	}
	p = &PlainApp{mainKey: store.NewStoreKey("main"), baseKey: store.NewStoreKey("base"), yield: o.Yield}
	cms := store.NewCommitMultiStore(o.DB)
	p.CMS = cms
	po := types.PruneNothing
	if o.Keep >= 0 {
		po = types.NewPruningOptions(o.Keep, 0)
	}
	app := sdk.NewBaseApp("plain", o.Logger, o.DB, p.baseKey, p.mainKey,
		func(a *sdk.BaseApp) { a.SetCMS(cms) }, sdk.SetPruningOptions(po))
	var mdb dbm.DB
	if o.Mount != "nil" {
		mdb = o.DB
	}
	app.MountStoreWithDB(p.mainKey, mainCons(o.Main), mdb)
	app.MountStoreWithDB(p.baseKey, dbadapter.StoreConstructor, mdb)
	app.Router().AddRoute(testutils.RouteMsgCounter, plainHandler{p})
	app.Router().AddRoute("kv", plainHandler{p})
	app.SetAnteHandler(p.ante)
	app.SetInitChainer(func(ctx sdk.Context, req abci.RequestInitChain) abci.ResponseInitChain {
		p.writeBlock(ctx, 1)
		return abci.ResponseInitChain{}
	})
	if err = app.LoadLatestVersion(); err != nil {
		return nil, err
	}
	p.App = app
	p.height = app.LastBlockHeight()
	return p, nil
}

// ExecGenesis = InitChain followed by the (empty) block 1, as a node does: the genesis state is
// committed by block 1's Commit, so version 1 carries tag 1 and a header of height 1.
func (p *PlainApp) ExecGenesis() {
	p.App.InitChain(abci.RequestInitChain{ChainID: plainChainID, Time: plainT0,
		ConsensusParams: &abci.ConsensusParams{Block: &abci.BlockParams{MaxTxBytes: 1_000_000, MaxDataBytes: 2_000_000, MaxGas: -1, TimeIotaMS: 100}}})
	p.App.BeginBlock(abci.RequestBeginBlock{Header: &bft.Header{ChainID: plainChainID, Height: 1, Time: plainT0.Add(time.Second)}})
	p.App.EndBlock(abci.RequestEndBlock{Height: 1})
}

func (p *PlainApp) Genesis() {
	p.ExecGenesis()
	p.App.Commit()
	p.height = 1
}

func counterTx(n int64) []byte {
	tx := std.Tx{Msgs: []std.Msg{testutils.MsgCounter{Counter: n}}, Fee: std.Fee{GasWanted: 1_000_000, GasFee: std.Coin{Denom: "ugnot", Amount: 1}}}
	return amino.MustMarshal(tx)
}

// Exec = BeginBlock, the block's one transaction, EndBlock (no Commit).
func (p *PlainApp) Exec() (int64, error) {
	n := p.App.LastBlockHeight() + 1
	p.App.BeginBlock(abci.RequestBeginBlock{Header: &bft.Header{ChainID: plainChainID, Height: n, Time: plainT0.Add(time.Duration(n) * time.Second)}})
	r := p.App.DeliverTx(abci.RequestDeliverTx{Tx: counterTx(n)})
	if !r.IsOK() {
		return n, fmt.Errorf("DeliverTx block %d: %v %s", n, r.Error, r.Log)
	}
	p.App.EndBlock(abci.RequestEndBlock{Height: n})
	return n, nil
}

func (p *PlainApp) Block() (int64, error) {
	n, err := p.Exec()
	if err != nil {
		return n, err
	}
	p.App.Commit()
	p.height = n
	return n, nil
}

// Probe reads the committed content through the public query paths.
func (p *PlainApp) Probe() string {
	h := p.App.LastBlockHeight()
	if h == 0 {
		return "empty"
	}
	a := p.App.Query(abci.RequestQuery{Path: "kv", Data: []byte("mb")})
	s := p.App.Query(abci.RequestQuery{Path: ".store/main/key", Data: keyX})
	out := fmt.Sprintf("h=%d kv[%s err=%v] store[%d err=%v]", h, a.Data, a.Error != nil, readTag(s.Value), s.Error != nil)
	for _, k := range []int64{h - 1, h} {
		if k < 1 {
			continue
		}
		r := p.App.Query(abci.RequestQuery{Path: ".store/main/key", Data: []byte(fmt.Sprintf("k%03d", k))})
		out += fmt.Sprintf(" k%03d=%d", k, readTag(r.Value))
	}
	return out
}

type discard struct{}

func (discard) Write(p []byte) (int, error) { return len(p), nil }
