// Driver for C28 (spec/Commit.tla): gated replay of TLC-generated interleavings of the block
// commit pipeline and the query path on the REAL sdk.BaseApp + rootmulti store (and, in stress
// mode, free-running queries against the real gno.land application).
//
// Two goroutines, one per ABCI connection, advance only when the schedule says so:
//   consensus:  CExec -> (explicit yield) CPrepare -> gate before Batch.WriteSync, CWriteSync ->
//               gate before NewSnapshot, CSwapPublish -> gate in the logger ("Commit synced", emitted
//               by BaseApp.Commit between cms.Commit() and setCheckState), CSetHeader -> idle
//   query:      QStart -> gate before the first read of the view (commit info of the resolved height),
//               QLoad -> yield before the handler's first store read, QRead -> next yield, QEnd
// With the verifhook package (build tag verifhook) QResolve|QAcquire and CSwap|CPublish are separate.
//
// Verdict observables (taken from the real code only): every value a query returns (all reads of
// one query must carry one height, and that height must have been durable when read), the commit
// hashes (equal to a query-free run), panics, reads through a closed snapshot. The projection
// (published height, durable height, snapshot height) after every step keeps model and code in
// step; a disagreement there is reported as drift (inconclusive), never as a violation.
package main

import (
	"context"
	"encoding/hex"
	"fmt"
	"log/slog"
	"regexp"
	"runtime"
	"strconv"
	"strings"
	"sync"
	"sync/atomic"

	"github.com/gnolang/gno/tm2/pkg/amino"
	abci "github.com/gnolang/gno/tm2/pkg/bft/abci/types"
	"github.com/gnolang/gno/tm2/pkg/db/memdb"
	"github.com/gnolang/gno/tm2/pkg/sdk"

	"verifharness/mbt"
)

type config struct {
	Snapshots bool
	Keep      int64
	Main      string
	Mount     string
	MaxVer    int
	Fine      bool // the schedule separates the verifhook yield points
}

// gateLogger turns one log call of BaseApp.Commit into a gate.
type gateLogger struct {
	s     *Sched
	onMsg func(msg string)
}

func (h gateLogger) Enabled(context.Context, slog.Level) bool { return true }
func (h gateLogger) Handle(_ context.Context, r slog.Record) error {
	if r.Message == "Commit synced" {
		h.s.Gate("log:commit-synced")
	} else if h.onMsg != nil {
		h.onMsg(r.Message)
	}
	return nil
}
func (h gateLogger) WithAttrs([]slog.Attr) slog.Handler { return h }
func (h gateLogger) WithGroup(string) slog.Handler      { return h }

type queryObs struct {
	Kind    string  `json:"kind"`
	Ord     string  `json:"ord"`
	Err     bool    `json:"err"`
	ErrText string  `json:"errtext,omitempty"`
	Raw     string  `json:"raw"`
	Tags    []int64 `json:"tags"`
	Stores  []string `json:"stores"`
	Durable []int64 `json:"durable"` // durable height when each value was read
	Panic   string  `json:"panic,omitempty"`
	Live    bool    `json:"live,omitempty"` // .store query that fell back to the live multistore
	SawView bool    `json:"saw_view"`       // the query loaded a view (read the commit info of its height through it)
	StartH  int64   `json:"start_height"`   // published height when the query was issued
	SeqDur  []int64 `json:"-"`
	judged  bool
}

type world struct {
	cfg    config
	s      *Sched
	g      *GateDB
	p      *PlainApp
	cproc  *Proc
	qproc  *Proc
	q      *queryObs
	stop   atomic.Bool
	hashes []string
	cerr   string
}

var reKV = regexp.MustCompile(`([mbs])=(-?[0-9]+)`)

func newWorld(cfg config) *world {
	w := &world{cfg: cfg, s: NewSched()}
	w.g = &GateDB{DB: memdb.NewMemDB(), S: w.s, Snapshots: cfg.Snapshots}
	p, err := NewPlainApp(PlainOpts{DB: w.g, Logger: slog.New(gateLogger{w.s, func(msg string) {
			// the live fallback reads through the LIVE store's PrefixDB, whose mutex the reader holds
			// during Get: parking it there would block the writer, so its reads are not gated
			if w.q != nil && strings.HasPrefix(msg, "store query snapshot path unavailable") {
				w.q.Live = true
			}
		}}), Main: cfg.Main, Mount: cfg.Mount, Keep: cfg.Keep,
		Yield: func(point string) {
			w.s.Gate(point)
			if w.q != nil && strings.HasPrefix(point, "q.read") {
				w.q.Durable = append(w.q.Durable, w.g.DurableVersion())
			}
			if w.q != nil && point == "n.ante" && w.s.current() == w.qproc {
				w.q.SeqDur = append(w.q.SeqDur, w.g.DurableVersion())
			}
		}})
	if err != nil {
		mbt.Die("plain app: %v", err)
	}
	w.p = p
	installHooks(w.s)
	w.cproc = w.s.Spawn("C", func(pt string) bool {
		return pt == "write" || pt == "newsnap" || pt == "log:commit-synced" || strings.HasPrefix(pt, "c.") || (cfg.Fine && pt == "hook:rootmulti.Commit:swapped")
	}, w.commitLoop)
	return w
}

func (w *world) commitLoop() {
	for !w.stop.Load() {
		if w.p.App.LastBlockHeight() == 0 && len(w.hashes) == 0 {
			w.p.ExecGenesis()
		} else if _, err := w.p.Exec(); err != nil {
			w.cerr = err.Error()
			return
		}
		w.s.Gate("c.exec")
		if w.stop.Load() {
			return
		}
		w.p.App.Commit()
		w.hashes = append(w.hashes, hex.EncodeToString(w.p.App.LastCommitID().Hash))
		w.s.Gate("c.idle")
	}
}

func (w *world) startQuery(kind, ord string) {
	q := &queryObs{Kind: kind, Ord: ord, StartH: w.p.App.LastBlockHeight()}
	w.q = q
	seenC, seenD := false, false
	want := func(pt string) bool {
		switch {
		case pt == "get:cinfo":
			if seenC {
				return false
			}
			seenC = true
			q.SawView = true
			return true
		case strings.HasPrefix(pt, "q."):
			return true
		case pt == "hook:rootmulti.immutableAtVersion:enter":
			return w.cfg.Fine
		case kind == "store" && (pt == "get:fast" || pt == "get:val"):
			if seenD || q.Live {
				return false
			}
			seenD = true
			return true
		}
		return false
	}
	w.qproc = w.s.Spawn("Q", want, func() {
		defer func() {
			if r := recover(); r != nil {
				q.Panic = fmt.Sprint(r)
				panic(r)
			}
		}()
		var data []byte
		var aerr abci.Error
		switch kind {
		case "custom":
			res := w.p.App.Query(abci.RequestQuery{Path: "kv", Data: []byte(ord)})
			data, aerr = res.Data, res.Error
		case "simulate":
			n := simMB
			if ord == "bm" {
				n = simBM
			}
			res := w.p.App.Query(abci.RequestQuery{Path: ".app/simulate", Data: counterTx(n)})
			aerr = res.Error
			if aerr == nil {
				var r sdk.Result
				if err := amino.Unmarshal(res.Value, &r); err != nil {
					q.Err, q.ErrText = true, "decode: "+err.Error()
					return
				}
				data, aerr = r.Data, r.Error
			}
		case "store":
			res := w.p.App.Query(abci.RequestQuery{Path: ".store/main/key", Data: keyX})
			aerr = res.Error
			if aerr == nil && res.Value != nil {
				data = []byte("m=" + string(res.Value))
			} else if aerr == nil {
				q.Err, q.ErrText = true, "no value: "+res.Log
			}
			q.Durable = append(q.Durable, w.g.DurableVersion())
		}
		if aerr != nil {
			q.Err, q.ErrText = true, aerr.Error()
			return
		}
		q.Raw = string(data)
		for _, m := range reKV.FindAllStringSubmatch(q.Raw, -1) {
			n, _ := strconv.ParseInt(m[2], 10, 64)
			switch m[1] {
			case "m":
				q.Stores = append(q.Stores, "main")
			case "b":
				q.Stores = append(q.Stores, "base")
			default:
				// the sequence the simulation's ante handler saw (main store): one bump per delivered block
				// transaction, so the committed value at height h is h-1
				n++
				q.Stores = append(q.Stores, "seq")
				if len(q.SeqDur) > 0 {
					q.Durable = append(q.Durable, q.SeqDur[0])
				}
			}
			q.Tags = append(q.Tags, n)
		}
	})
}

func ordOf(v any) string {
	var b strings.Builder
	for _, s := range mbt.Strs(v) {
		b.WriteString(s[:1])
	}
	return b.String()
}

func (w *world) proj() map[string]any {
	sv := w.g.LastSnapshotVersion()
	if w.g.NewSnaps <= 1 { // only the start-up snapshot of the empty DB exists: the model has none yet
		sv = -1
	}
	return map[string]any{"cid": w.p.App.LastBlockHeight(), "dmeta": w.g.DurableVersion(), "snapv": sv}
}

type outcome struct {
	violKey, violWhat string
	drift             string // gate / projection drift (inconclusive)
	qdrift            int
	queries           int
	qok               int
	mixedSeen         bool
	checktx           int
	all               [][2]string // every query-level violation of the schedule (key, what): a schedule goes on after one,
	// so that a class that is already known cannot hide a different one later in the same schedule
}

// stash sets a query-level violation aside (one per distinct key) so that the schedule can go on.
func (o *outcome) stash() {
	if o.violKey == "" {
		return
	}
	for _, v := range o.all {
		if v[0] == o.violKey {
			o.violKey, o.violWhat = "", ""
			return
		}
	}
	o.all = append(o.all, [2]string{o.violKey, o.violWhat})
	o.violKey, o.violWhat = "", ""
}

func (o *outcome) keys() string {
	ks := []string{}
	for _, v := range o.all {
		ks = append(ks, v[0])
	}
	return strings.Join(ks, "|")
}

// expected gate after each action of the schedule
var gateAfter = map[string]string{"CExec": "c.exec", "CPrepare": "write", "CWriteSync": "newsnap", "CSwapPublish": "log:commit-synced",
	"CSwap": "hook:rootmulti.Commit:swapped", "CPublish": "log:commit-synced", "CSetHeader": "c.idle",
	"QStart": "get:cinfo", "QResolve": "hook:rootmulti.immutableAtVersion:enter", "QAcquire": "get:cinfo"}

func (w *world) judge(st mbt.Step, o *outcome, refHashes []string) {
	judgeObs(w.q, w.qproc, w.cfg.Snapshots, st, o,
		fmt.Sprintf("published height %d, durable %d, query snapshot %d", w.p.App.LastBlockHeight(), w.g.DurableVersion(), w.g.LastSnapshotVersion()))
}

// judgeObs evaluates the property on the values one real query returned (st == nil: no model step to
// compare with). Failing classes are keyed by what is observed: the API, which values disagree, and
// whether the query ever loaded a view (a query that read without one was served by live state).
func judgeObs(q *queryObs, qproc *Proc, snapshots bool, st mbt.Step, o *outcome, where string) {
	if q.judged {
		return
	}
	q.judged = true
	o.queries++
	if qproc.Panic != nil {
		o.violKey, o.violWhat = "C28:query-panic:"+q.Kind, fmt.Sprintf("query %s panicked: %v | %s", q.Kind, qproc.Panic, mbt.ShortStack(qproc.Stack))
		return
	}
	view := ""
	if !q.SawView {
		view = ":no-snapshot-view:at-height-1"
		if q.StartH != 1 {
			view = ":no-snapshot-view:at-height-2+"
		}
	}
	if !q.Err && len(q.Tags) > 0 {
		o.qok++
		mixed := false
		for i := range q.Tags {
			if q.Tags[i] != q.Tags[0] {
				mixed = true
			}
			if i < len(q.Durable) && q.Tags[i] > q.Durable[i] && o.violKey == "" {
				what := "block-in-progress-write"
				if q.Stores[i] == "seq" {
					what = "checktx-ante-write"
				}
				o.violKey = "C28:uncommitted-visible:" + q.Kind + ":" + what + view
				o.violWhat = fmt.Sprintf("%s query read %s at height-equivalent %d while the durable height was %d (%s; view loaded: %v; %s)",
					q.Kind, q.Stores[i], q.Tags[i], q.Durable[i], q.Raw, q.SawView, where)
			}
		}
		if mixed && (snapshots || !q.SawView) && o.violKey == "" {
			cls := "unordered"
			var mt, bt int64 = -1, -1
			for i, st := range q.Stores {
				switch st {
				case "main":
					mt = q.Tags[i]
				case "base":
					bt = q.Tags[i]
				}
			}
			switch {
			case !q.SawView:
				cls = view[1:] // read without any view: not the height/snapshot race
			case mt >= 0 && bt >= 0 && mt < bt:
				cls = "versioned-store-behind-snapshot" // main read at the separately resolved height, base at the snapshot's
			case mt > bt && bt >= 0:
				cls = "versioned-store-ahead-of-snapshot"
			}
			o.violKey = "C28:mixed-heights:" + q.Kind + ":" + cls
			o.violWhat = fmt.Sprintf("one %s query returned values of different heights: %s = heights %v of %v (view loaded: %v; %s)", q.Kind, q.Raw, q.Tags, q.Stores, q.SawView, where)
		}
		if mixed {
			o.mixedSeen = true
		}
	}
	if st == nil {
		return
	}
	// model prediction (code structure): guidance only
	expErr := st.Str("res") == "err"
	var expTags, gotTags []int64
	if rs, ok := st["reads"].([]any); ok {
		for _, r := range rs {
			expTags = append(expTags, int64(mbt.Step(r.(map[string]any)).Int("tag")))
		}
	}
	for i, t := range q.Tags {
		if q.Stores[i] != "seq" {
			gotTags = append(gotTags, t)
		}
	}
	if expErr != q.Err || (!q.Err && !mbt.Eq(gotTags, expTags)) {
		o.qdrift++
	}
}

func replay(cfg config, beh []mbt.Step, refHashes []string) (o outcome, obs []queryObs) {
	w := newWorld(cfg)
	defer w.teardown()
	var pubKey, pubWhat string
	defer func() {
		if o.violKey == "" && pubKey != "" {
			o.violKey, o.violWhat = pubKey, pubWhat
		}
		o.stash()
		if len(o.all) > 0 {
			o.violKey, o.violWhat = o.all[0][0], o.all[0][1]
		}
	}()
	for k, st := range beh {
		act := st.Act()
		var p *Proc
		switch {
		case act == "QStart" || act == "QResolve":
			if w.q != nil && !w.q.judged { // the previous query left the model's gate sequence: finish and judge it first
				if err := w.s.Finish(w.qproc); err == nil {
					w.judge(nil, &o, refHashes)
					obs = append(obs, *w.q)
					o.stash()
				}
			}
			w.startQuery(st.Str("kind"), ordOf(st["ord"]))
			p = w.qproc
		case strings.HasPrefix(act, "Q"):
			p = w.qproc
		default:
			p = w.cproc
		}
		if p == nil {
			o.drift = fmt.Sprintf("step %d %s: no process", k, act)
			return
		}
		if act == "QEnd" || p.Done {
			// the real query may already have returned (failed load, store query): nothing left to release
			if !p.Done {
				if err := w.s.Finish(p); err != nil {
					o.drift = fmt.Sprintf("step %d %s: %v", k, act, err)
					return
				}
			}
		} else if err := w.s.Step(p); err != nil {
			o.drift = fmt.Sprintf("step %d %s: %v", k, act, err)
			return
		}
		if p == w.cproc && p.Done {
			if p.Panic != nil {
				o.violKey, o.violWhat = "C28:commit-panic", fmt.Sprintf("consensus connection panicked at step %d %s: %v | %s", k, act, p.Panic, mbt.ShortStack(p.Stack))
			} else {
				o.drift = fmt.Sprintf("step %d %s: consensus process ended: %s", k, act, w.cerr)
			}
			return
		}
		if want, ok := gateAfter[act]; ok && !p.Done && p.At != want {
			if o.drift == "" {
				o.drift = fmt.Sprintf("step %d %s: process at gate %q, expected %q", k, act, p.At, want)
			}
			if p != w.qproc {
				return
			}
			// a query that left the model's gate sequence is not a reason to stop judging: it goes on one
			// gate per scheduled step and its results are evaluated like any other query's
		}
		if act == "QEnd" {
			w.judge(st, &o, refHashes)
			obs = append(obs, *w.q)
			o.stash()
		}
		if act == "CSetHeader" {
			n := len(w.hashes)
			if n > len(refHashes) || w.hashes[n-1] != refHashes[n-1] {
				o.violKey = "C28:interference:commit-hash"
				o.violWhat = fmt.Sprintf("commit %d produced hash %s, the query-free run %v", n, w.hashes[n-1], refHashes)
				return
			}
			// Commit has returned: the mempool connection (same mutex as consensus) checks its pending
			// transactions; their ante writes (sequence bump) stay in checkState until the next Commit
			for i := 0; i < st.Int("checktx"); i++ {
				if r := w.p.App.CheckTx(abci.RequestCheckTx{Tx: counterTx(7)}); r.Error != nil {
					o.drift = fmt.Sprintf("step %d CheckTx: %v", k, r.Error)
					return
				}
				o.checktx++
			}
		}
		if len(w.g.AfterClose) > 0 {
			o.violKey, o.violWhat = "C28:snapshot-used-after-close", strings.Join(w.g.AfterClose, "; ")
			return
		}
		// projection after the step: keeps model and code in step (drift = inconclusive, the schedule goes on)
		exp := st["st"].(map[string]any)
		got := w.proj()
		if got["cid"].(int64) > got["dmeta"].(int64) && pubKey == "" {
			// what Info / LastBlockHeight report on the query connection is itself a query result;
			// kept aside so that a query reading uncommitted data later in the schedule is reported first
			pubKey = "C28:published-height-not-durable"
			pubWhat = fmt.Sprintf("after step %d %s LastBlockHeight() = %v while the durable height is %v", k, act, got["cid"], got["dmeta"])
		}
		for _, f := range []string{"cid", "dmeta", "snapv"} {
			if (cfg.Snapshots || f != "snapv") && o.drift == "" && !mbt.Eq(got[f], exp[f]) {
				o.drift = fmt.Sprintf("step %d %s: projection %s = %v, model %v", k, act, f, got[f], exp[f])
			}
		}
	}
	if w.q != nil && !w.q.judged && o.violKey == "" {
		// the schedule ends (or drifted) with a query in flight: let it return and judge what it read
		if err := w.s.Finish(w.qproc); err == nil {
			w.judge(nil, &o, refHashes)
			obs = append(obs, *w.q)
			o.stash()
		}
	}
	return
}

func (w *world) teardown() {
	w.stop.Store(true)
	if w.qproc != nil && !w.qproc.Done {
		w.s.Finish(w.qproc)
	}
	if !w.cproc.Done {
		w.s.Finish(w.cproc)
	}
}

// reference: the same chain with no query at all
func reference(cfg config) []string {
	w := newWorld(cfg)
	defer w.teardown()
	for len(w.hashes) < cfg.MaxVer {
		if err := w.s.Step(w.cproc); err != nil {
			mbt.Die("reference run: %v", err)
		}
		if w.cproc.Done {
			mbt.Die("reference run ended early: %v %s", w.cproc.Panic, w.cerr)
		}
	}
	return append([]string(nil), w.hashes...)
}

func parseCfg(x string) config {
	c := config{Snapshots: true, Keep: -1, Main: "bptree-fast", Mount: "db", MaxVer: 3}
	for _, kv := range strings.Split(x, ",") {
		p := strings.SplitN(kv, "=", 2)
		if len(p) != 2 {
			continue
		}
		switch p[0] {
		case "snap":
			c.Snapshots = p[1] == "1"
		case "keep":
			c.Keep, _ = strconv.ParseInt(p[1], 10, 64)
		case "main":
			c.Main = p[1]
		case "mount":
			c.Mount = p[1]
		case "maxver":
			c.MaxVer, _ = strconv.Atoi(p[1])
		case "fine":
			c.Fine = p[1] == "1"
		}
	}
	return c
}

func main() {
	f := mbt.ParseFlags()
	cfg := parseCfg(f.Extra)
	if f.Mode == "gno" {
		gnoMain(f, cfg)
		return
	}
	if cfg.Fine && !hooksAvailable {
		mbt.Die("fine schedules need the verifhook build")
	}
	behs, err := mbt.ReadBehaviours(f.In)
	if err != nil {
		mbt.Die("%v", err)
	}
	ref := reference(cfg)
	var mu sync.Mutex
	var steps, replays, queries, qok, qdrift, drifts, driftViol, checktx, mixed, viol, flaky int64
	var driftSamples []string
	reported := map[string]int{}
	nw := runtime.NumCPU() / 2
	if nw < 2 {
		nw = 2
	}
	var wg sync.WaitGroup
	for wk := 0; wk < nw; wk++ {
		wg.Add(1)
		go func(wk int) {
			defer wg.Done()
			for i := wk; i < len(behs); i += nw {
				if stuckSteps.Load() >= 3 {
					return // a goroutine the schedule says is runnable does not reach its gate: inconclusive
				}
				o, obs := replay(cfg, behs[i], ref)
				if o.violKey != "" {
					// determinism: the failing schedule must reproduce from a fresh application
					o2, _ := replay(cfg, behs[i], ref)
					if o2.keys() != o.keys() {
						atomic.AddInt64(&flaky, 1)
						mbt.Emit(map[string]any{"kind": "flaky", "key": o.keys(), "what": o.violWhat, "second": o2.keys() + " " + o2.drift})
						continue
					}
					atomic.AddInt64(&viol, 1)
					for _, v := range o.all {
						mu.Lock()
						reported[v[0]]++
						first := reported[v[0]] == 1
						mu.Unlock()
						if first { // one replay file per failing class; the count goes to the summary
							mbt.Mismatch(v[0], v[1], map[string]any{"cfg": f.Extra, "steps": behs[i], "observed": obs, "hooks": hooksAvailable})
						}
					}
				}
				mu.Lock()
				if o.drift != "" {
					drifts++
					if o.violKey != "" {
						driftViol++
					}
					if len(driftSamples) < 5 {
						driftSamples = append(driftSamples, o.drift)
					}
				}
				if o.mixedSeen {
					mixed++
				}
				mu.Unlock()
				atomic.AddInt64(&steps, int64(len(behs[i])))
				atomic.AddInt64(&replays, 1)
				atomic.AddInt64(&queries, int64(o.queries))
				atomic.AddInt64(&qok, int64(o.qok))
				atomic.AddInt64(&qdrift, int64(o.qdrift))
				atomic.AddInt64(&checktx, int64(o.checktx))
				if i < 2 {
					mbt.Sample(map[string]any{"schedule": actsOf(behs[i]), "queries": obs})
				}
			}
		}(wk)
	}
	wg.Wait()
	mbt.Summary(map[string]any{"behaviours": len(behs), "replays": replays, "steps": steps, "queries": queries, "queries_ok": qok,
		"query_drift": qdrift, "gate_drift": drifts, "gate_drift_with_violation": driftViol, "checktx_run": checktx, "mixed_queries": mixed, "violating": viol, "flaky": flaky, "drift_samples": driftSamples,
		"hooks": hooksAvailable, "ref_hashes": len(ref), "violations_by_key": reported, "stuck_steps": stuckSteps.Load()})
	mbt.Flush()
}

func actsOf(b []mbt.Step) []string {
	var out []string
	for _, s := range b {
		a := s.Act()
		if a == "QStart" || a == "QResolve" {
			a += "(" + s.Str("kind") + "," + ordOf(s["ord"]) + ")"
		}
		out = append(out, a)
	}
	return out
}

// gnoMain: the schedules on the real gno.land application (-n = how many, picked by the seed).
func gnoMain(f *mbt.Flags, cfg config) {
	behs, err := mbt.ReadBehaviours(f.In)
	if err != nil {
		mbt.Die("%v", err)
	}
	var pick [][]mbt.Step
	for _, b := range behs { // only complete queries of the kinds the VM serves are interesting here
		ok, hasQ := true, false
		for _, st := range b {
			if st.Str("kind") == "store" {
				ok = false
			}
			if st.Act() == "QEnd" {
				hasQ = true
			}
		}
		if ok && hasQ {
			pick = append(pick, b)
		}
	}
	rng := f.Rand()
	rng.Shuffle(len(pick), func(i, j int) { pick[i], pick[j] = pick[j], pick[i] })
	if f.N > 0 && len(pick) > f.N {
		pick = pick[:f.N]
	}
	nw := 4
	var mu sync.Mutex
	var steps, replays, queries, qok, qdrift, drifts, driftViol, checktx, mixed, viol, flaky int64
	var driftSamples []string
	reported := map[string]int{}
	var wg sync.WaitGroup
	for wk := 0; wk < nw; wk++ {
		wg.Add(1)
		go func(wk int) {
			defer wg.Done()
			var w *gnoWorld
			for i := wk; i < len(pick); i += nw {
				if stuckSteps.Load() >= 3 {
					return
				}
				if w == nil {
					w = newGnoWorld(cfg.Fine)
				}
				o, obs, _ := w.replay(pick[i])
				if err := w.drain(); err != nil {
					w = nil
					if o.drift == "" {
						o.drift = "drain: " + err.Error()
					}
				}
				if o.violKey != "" && w != nil {
					o2, _, _ := w.replay(pick[i]) // must reproduce (same application, later height)
					if err := w.drain(); err != nil {
						w = nil
					}
					if o2.violKey != o.violKey {
						atomic.AddInt64(&flaky, 1)
						mbt.Emit(map[string]any{"kind": "flaky", "key": o.violKey, "what": o.violWhat, "second": o2.violKey + " " + o2.drift})
						continue
					}
				}
				mu.Lock()
				if o.violKey != "" {
					viol++
					reported[o.violKey]++
					if reported[o.violKey] == 1 {
						mbt.Mismatch(o.violKey, o.violWhat, map[string]any{"cfg": f.Extra, "app": "gnoland", "steps": pick[i], "observed": obs, "hooks": hooksAvailable})
					}
				}
				if o.drift != "" {
					drifts++
					if o.violKey != "" {
						driftViol++
					}
					if len(driftSamples) < 5 {
						driftSamples = append(driftSamples, o.drift)
					}
				}
				if o.mixedSeen {
					mixed++
				}
				steps += int64(len(pick[i]))
				replays++
				queries += int64(o.queries)
				qok += int64(o.qok)
				qdrift += int64(o.qdrift)
				mu.Unlock()
				if i < 2 {
					mbt.Sample(map[string]any{"app": "gnoland", "schedule": actsOf(pick[i]), "queries": obs})
				}
			}
		}(wk)
	}
	wg.Wait()
	mbt.Summary(map[string]any{"behaviours": len(pick), "replays": replays, "steps": steps, "queries": queries, "queries_ok": qok,
		"query_drift": qdrift, "gate_drift": drifts, "gate_drift_with_violation": driftViol, "checktx_run": checktx, "mixed_queries": mixed, "violating": viol, "flaky": flaky, "drift_samples": driftSamples,
		"hooks": hooksAvailable, "violations_by_key": reported, "stuck_steps": stuckSteps.Load()})
	mbt.Flush()
}
