// Driver for C35 (spec/VoteSet.tla): replays TLC behaviours on the real types.VoteSet.
package main

import (
	"fmt"
	"runtime"
	"sort"
	"strings"
	"sync"
	"sync/atomic"
	"time"

	"github.com/gnolang/gno/tm2/pkg/bft/types"
	"github.com/gnolang/gno/tm2/pkg/crypto"
	"github.com/gnolang/gno/tm2/pkg/crypto/ed25519"

	"verifharness/mbt"
)

const chainID = "verif-chain"

type env struct {
	power  []int
	privs  []ed25519.PrivKeyEd25519
	valset *types.ValidatorSet
	vs     *types.VoteSet
	typ    types.SignedMsgType
	blocks []string
}

func blockID(name string) types.BlockID {
	if name == "nil" {
		return types.BlockID{}
	}
	h := make([]byte, 32)
	copy(h, []byte("block-"+name))
	ph := make([]byte, 32)
	copy(ph, []byte("parts-"+name))
	return types.BlockID{Hash: h, PartsHeader: types.PartSetHeader{Total: 1, Hash: ph}}
}

func blockName(b types.BlockID, blocks []string) string {
	for _, n := range blocks {
		if blockID(n).Equals(b) {
			return n
		}
	}
	return "?"
}

var keyPool []ed25519.PrivKeyEd25519

func init() {
	for i := 0; i < 8; i++ {
		keyPool = append(keyPool, ed25519.GenPrivKeyFromSecret([]byte(fmt.Sprintf("verif-val-%d", i))))
	}
	sort.Slice(keyPool, func(i, j int) bool {
		return keyPool[i].PubKey().Address().Compare(keyPool[j].PubKey().Address()) < 0
	})
}

func newEnv(power []int, typ types.SignedMsgType, blocks []string) *env {
	e := &env{power: power, typ: typ, blocks: blocks}
	vals := make([]*types.Validator, len(power))
	for i, p := range power {
		e.privs = append(e.privs, keyPool[i])
		vals[i] = types.NewValidator(keyPool[i].PubKey(), int64(p))
	}
	e.valset = types.NewValidatorSet(vals)
	for i := range power { // sanity: index order == key pool order
		addr, v := e.valset.GetByIndex(i)
		if addr != keyPool[i].PubKey().Address() || v.VotingPower != int64(power[i]) {
			mbt.Die("validator order assumption broken")
		}
	}
	e.vs = types.NewVoteSet(chainID, 1, 0, typ, e.valset)
	return e
}

var ts = [2]time.Time{time.Unix(1700000000, 0).UTC(), time.Unix(1700000001, 0).UTC()}

var (
	voteCache   = map[string]*types.Vote{}
	voteCacheMu sync.Mutex
)

// mkVote returns a fresh copy of the (cached) signed vote for (validator, block, class).
func (e *env) mkVote(v int, b string, cls string) *types.Vote {
	key := fmt.Sprintf("%d|%d|%s|%s|%d", len(e.power), v, b, cls, e.typ)
	voteCacheMu.Lock()
	c := voteCache[key]
	voteCacheMu.Unlock()
	if c == nil {
		c = e.mkVote0(v, b, cls)
		voteCacheMu.Lock()
		voteCache[key] = c
		voteCacheMu.Unlock()
	}
	cp := *c
	cp.Signature = append([]byte(nil), c.Signature...)
	return &cp
}

func (e *env) mkVote0(v int, b string, cls string) *types.Vote {
	idx := v - 1
	vote := &types.Vote{
		Type: e.typ, Height: 1, Round: 0, BlockID: blockID(b), Timestamp: ts[0],
		ValidatorAddress: e.privs[idx].PubKey().Address(), ValidatorIndex: idx,
	}
	signer := e.privs[idx]
	switch cls {
	case "s1":
		vote.Timestamp = ts[1]
	case "wrongheight":
		vote.Height = 2
	case "wronground":
		vote.Round = 1
	case "wrongtype":
		if e.typ == types.PrevoteType {
			vote.Type = types.PrecommitType
		} else {
			vote.Type = types.PrevoteType
		}
	case "negindex":
		vote.ValidatorIndex = -1
	case "bigindex":
		vote.ValidatorIndex = len(e.power)
	case "wrongaddr":
		o := (idx + 1) % len(e.power)
		vote.ValidatorAddress = e.privs[o].PubKey().Address()
		signer = e.privs[o]
	}
	sig, err := signer.Sign(vote.SignBytes(chainID))
	if err != nil {
		panic(err)
	}
	if cls == "bad" {
		sig[7] ^= 0x40
	}
	vote.Signature = sig
	return vote
}

func classify(added bool, err error) string {
	if err == nil {
		if added {
			return "added"
		}
		return "dup"
	}
	if _, ok := err.(*types.VoteConflictingVotesError); ok {
		if added {
			return "conflict_added"
		}
		return "conflict_dropped"
	}
	s := err.Error()
	switch {
	case added:
		return "added_with_error:" + s
	case strings.Contains(s, types.ErrVoteUnexpectedStep.Error()):
		return "step"
	case strings.Contains(s, types.ErrVoteInvalidValidatorIndex.Error()):
		return "index"
	case strings.Contains(s, types.ErrVoteNonDeterministicSignature.Error()):
		return "nondet"
	case strings.Contains(s, types.ErrVoteInvalidSignature.Error()):
		return "badsig"
	case strings.Contains(s, types.ErrVoteInvalidValidatorAddress.Error()):
		return "addr"
	}
	return "err:" + s
}

// project reads the abstract state through the public query methods only.
func (e *env) project() map[string]any {
	n := len(e.power)
	votes := make([]string, n)
	for i := 0; i < n; i++ {
		v := e.vs.GetByIndex(i)
		if v == nil {
			votes[i] = "none"
		} else {
			votes[i] = blockName(v.BlockID, e.blocks)
		}
	}
	maj := "none"
	if b, ok := e.vs.TwoThirdsMajority(); ok {
		maj = blockName(b, e.blocks)
	}
	if e.vs.HasTwoThirdsMajority() != (maj != "none") {
		maj = "inconsistent-HasTwoThirdsMajority"
	}
	byb := map[string]any{}
	for _, b := range e.blocks {
		ba := e.vs.BitArrayByBlockID(blockID(b))
		voters := []int{}
		if ba != nil {
			for i := 0; i < n; i++ {
				if ba.GetIndex(i) {
					voters = append(voters, i+1)
				}
			}
		}
		byb[b] = map[string]any{"tracked": ba != nil, "voters": voters}
	}
	return map[string]any{"votes": votes, "maj23": maj, "any23": e.vs.HasTwoThirdsAny(),
		"hasall": e.vs.HasAll(), "byb": byb}
}

func normExp(st map[string]any) map[string]any {
	// spec emits voters as a set (array, any order) and sum (not observable: dropped)
	out := map[string]any{"votes": st["votes"], "maj23": st["maj23"], "any23": st["any23"], "hasall": st["hasall"]}
	byb := map[string]any{}
	for b, x := range st["byb"].(map[string]any) {
		m := x.(map[string]any)
		vs := mbt.Ints(m["voters"])
		sort.Ints(vs)
		byb[b] = map[string]any{"tracked": m["tracked"], "voters": vs}
	}
	out["byb"] = byb
	return out
}

// checkCommit: MakeCommit on a precommit set with a majority.
func (e *env) checkCommit(st map[string]any) (string, bool) {
	maj := st["maj23"].(string)
	if e.typ != types.PrecommitType || maj == "none" {
		return "", true
	}
	var commit *types.Commit
	if p, val, _ := mbt.Guard(func() { commit = e.vs.MakeCommit() }); p {
		return fmt.Sprintf("MakeCommit panicked: %v", val), false
	}
	if !commit.BlockID.Equals(blockID(maj)) {
		return "commit block id is not the majority block", false
	}
	byb := st["byb"].(map[string]any)[maj].(map[string]any)
	for _, v := range mbt.Ints(byb["voters"]) {
		pc := commit.Precommits[v-1]
		if pc == nil || !pc.BlockID.Equals(blockID(maj)) {
			return fmt.Sprintf("validator %d counted for the majority block but its commit entry is %v", v, pc), false
		}
	}
	if maj != "nil" {
		if err := e.valset.VerifyCommit(chainID, blockID(maj), 1, commit); err != nil {
			return "MakeCommit result does not verify: " + err.Error(), false
		}
	}
	return "", true
}

func replay(beh []mbt.Step, power []int, blocks []string, typ types.SignedMsgType, bi int) (ok bool) {
	e := newEnv(power, typ, blocks)
	for k, s := range beh {
		var reply string
		switch s.Act() {
		case "AddVote":
			vote := e.mkVote(s.Int("v"), s.Str("b"), s.Str("cls"))
			var added bool
			var err error
			if p, val, st := mbt.Guard(func() { added, err = e.vs.AddVote(vote) }); p {
				mbt.Mismatch("C35:AddVote:panic", fmt.Sprintf("AddVote panicked: %v at %s", val, mbt.ShortStack(st)),
					map[string]any{"power": power, "type": typ, "steps": beh[:k+1]})
				return false
			}
			reply = classify(added, err)
			if ce, isC := err.(*types.VoteConflictingVotesError); isC {
				// conflicting votes are reported as such: the evidence names two different votes of this validator
				if ce.VoteA == nil || ce.VoteB == nil || ce.VoteA.BlockID.Equals(ce.VoteB.BlockID) ||
					ce.VoteA.ValidatorIndex != ce.VoteB.ValidatorIndex || ce.PubKey.Address() != vote.ValidatorAddress {
					reply = "conflict_bad_evidence"
				}
			}
		case "SetPeerMaj23":
			err := e.vs.SetPeerMaj23(types.P2PID(s.Str("p")), blockID(s.Str("b")))
			if err == nil {
				reply = "ok"
			} else {
				reply = "err"
			}
		default:
			mbt.Die("unknown act %q", s.Act())
		}
		exp := normExp(s["st"].(map[string]any))
		obs := e.project()
		if reply != s.Str("reply") || !mbt.Eq(obs, exp) {
			mbt.Mismatch(fmt.Sprintf("C35:%s:%s", s.Act(), s.Str("reply")),
				fmt.Sprintf("step %d %s: reply %q (spec %q); state %s (spec %s)", k, mbt.JS(s), reply, s.Str("reply"), mbt.JS(obs), mbt.JS(exp)),
				map[string]any{"power": power, "type": typ, "steps": beh[:k+1]})
			return false
		}
		if why, ok := e.checkCommit(exp); !ok {
			mbt.Mismatch("C35:MakeCommit", fmt.Sprintf("step %d: %s", k, why),
				map[string]any{"power": power, "type": typ, "steps": beh[:k+1]})
			return false
		}
	}
	return true
}

func main() {
	f := mbt.ParseFlags()
	// -x "1,1,2|A,B,nil"
	parts := strings.Split(f.Extra, "|")
	var power []int
	for _, p := range strings.Split(parts[0], ",") {
		var n int
		fmt.Sscan(p, &n)
		power = append(power, n)
	}
	blocks := strings.Split(parts[1], ",")
	behs, err := mbt.ReadBehaviours(f.In)
	if err != nil {
		mbt.Die("%v", err)
	}
	var steps, okc int64
	var wg sync.WaitGroup
	nw := runtime.NumCPU()
	for w := 0; w < nw; w++ {
		wg.Add(1)
		go func(w int) {
			defer wg.Done()
			for i := w; i < len(behs); i += nw {
				for _, typ := range []types.SignedMsgType{types.PrevoteType, types.PrecommitType} {
					if replay(behs[i], power, blocks, typ, i) {
						atomic.AddInt64(&okc, 1)
					}
					atomic.AddInt64(&steps, int64(len(behs[i])))
				}
			}
		}(w)
	}
	wg.Wait()
	for i := 0; i < len(behs) && i < 2; i++ {
		mbt.Sample(behs[i])
	}
	mbt.Summary(map[string]any{"behaviours": len(behs), "replays": 2 * len(behs), "replays_ok": okc, "steps": steps})
	mbt.Flush()
	_ = crypto.Address{}
}
