// Driver for C26 (spec/FastIndex.tla): replays TLC behaviours on the REAL bptree store.
//
// Besides Set / Remove / Commit / Crash / Reopen the writer can abandon its session on the SAME
// handle (Reload = Store.LoadLatestVersion, LoadVersion = Store.LoadVersion(v)).
//
//   -x mode=S  standalone storebptree.Store over a DB (Direct: a tree commit reaches the DB at once)
//   -x mode=R  the same store mounted in a real rootmulti store (commits ride the BatchCollector and
//              reach the DB with the block's single WriteSync; a start-up rebuild waits there too)
//   -x mode=L  mode S plus a concurrent read-only loader: an Immutable store loaded over the LIVE DB
//              in its own goroutine, gated at the DB-wrapper calls of the gno#6011 window
//              (discoverVersions iterator, first root read, stamp read) and between its reads
//
// After EVERY step a projection-level FastSound scan runs on the real objects: for the live store's
// working tree, for every retained version through Store.GetImmutable, and (mode R) for every
// retained version through MultiImmutableCacheWrapWithVersion, each key is read through the
// fast-index path (Store.Get) and through the authoritative walk (the store iterator, which never
// consults the index); the two must agree. The loader's reads are compared with an index-free
// immutable store at the same version. Those comparisons are the verdict; the model's own
// expectation (tree content per version, raw index entries, stamp) only keeps model and code in
// step (a disagreement there is reported as drift, i.e. inconclusive).
package main

import (
	"bytes"
	"encoding/binary"
	"fmt"
	"hash/crc32"
	"runtime"
	"sort"
	"strconv"
	"strings"
	"sync"
	"sync/atomic"

	dbm "github.com/gnolang/gno/tm2/pkg/db"
	"github.com/gnolang/gno/tm2/pkg/db/memdb"
	"github.com/gnolang/gno/tm2/pkg/store"
	storebptree "github.com/gnolang/gno/tm2/pkg/store/bptree"
	"github.com/gnolang/gno/tm2/pkg/store/types"

	"verifharness/mbt"
)

type config struct {
	Mode string // S | R | L
	Keep int64
	Keys []string
}

const storePrefix = "s/k:main/"

var crcTable = crc32.MakeTable(crc32.Castagnoli)

func unframe(data []byte) ([]byte, bool) {
	if len(data) < 4 {
		return nil, false
	}
	pl := data[:len(data)-4]
	return pl, crc32.Checksum(pl, crcTable) == binary.BigEndian.Uint32(data[len(data)-4:])
}

// countDB counts fast-index probes that found an entry (non-vacuity of the scan).
var fastProbes atomic.Int64

type countDB struct {
	dbm.DB
	fastFound *atomic.Int64
}

func (c countDB) Get(k []byte) ([]byte, error) {
	v, err := c.DB.Get(k)
	if v != nil && keyClass(k) == "fast" {
		c.fastFound.Add(1)
	}
	return v, err
}

type world struct {
	cfg    config
	raw    *memdb.MemDB
	gdb    *GateDB // mode L: the loader's view of raw
	s      *Sched
	fast   bool
	up     bool
	st     *storebptree.Store       // live store (S, L)
	ms     types.CommitMultiStore   // mode R
	key    types.StoreKey
	loadOK bool

	loader *Proc
	lres   loaderState
}

type loaderState struct {
	v       int64
	err     string
	nextKey string
	got     string
	quit    bool
}

func popts(keep int64) types.StoreOptions {
	po := types.PruneNothing
	if keep >= 0 {
		po = types.NewPruningOptions(keep, 0)
	}
	return types.StoreOptions{PruningOptions: po}
}

func cons(fast bool) types.CommitStoreConstructor {
	if fast {
		return storebptree.FastStoreConstructor
	}
	return storebptree.StoreConstructor
}

func newWorld(cfg config) *world {
	w := &world{cfg: cfg, raw: memdb.NewMemDB(), fast: true}
	if cfg.Mode == "L" {
		w.s = NewSched()
		w.gdb = &GateDB{DB: w.raw, S: w.s}
	}
	w.open(true)
	return w
}

// open = node start: build the store object(s) over the DB and load the latest version.
func (w *world) open(fast bool) (ok bool, errText string) {
	w.fast, w.up = fast, true
	db := dbm.DB(countDB{w.raw, &fastProbes})
	if w.cfg.Mode == "R" {
		ms := store.NewCommitMultiStore(db)
		ms.SetStoreOptions(popts(w.cfg.Keep))
		w.key = store.NewStoreKey("main")
		ms.MountStoreWithDB(w.key, cons(fast), nil)
		w.ms = ms
		if err := ms.LoadLatestVersion(); err != nil {
			w.loadOK = false
			return false, err.Error()
		}
		w.st = ms.GetCommitStore(w.key).(*storebptree.Store)
		w.loadOK = true
		return true, ""
	}
	st := cons(fast)(dbm.NewPrefixDB(db, []byte(storePrefix)), popts(w.cfg.Keep)).(*storebptree.Store)
	w.st = st
	if err := st.LoadLatestVersion(); err != nil {
		w.loadOK = false
		return false, err.Error()
	}
	w.loadOK = true
	return true, ""
}

func (w *world) crash() {
	// the process is gone: store objects, their staged batches and the collector are dropped
	w.up, w.st, w.ms = false, nil, nil
}

func (w *world) commit() {
	if w.cfg.Mode == "R" {
		w.ms.Commit()
		return
	}
	w.st.Commit()
}

// ---------------------------------------------------------------- raw projection (guidance)

func (w *world) rawProj() map[string]any {
	stamp := int64(-1)
	if bz, _ := w.raw.Get([]byte(storePrefix + "Mfastidx")); bz != nil {
		if pl, ok := unframe(bz); ok && len(pl) == 8 {
			stamp = int64(binary.BigEndian.Uint64(pl))
		} else {
			stamp = -2
		}
	}
	fast := map[string]any{}
	for _, k := range w.cfg.Keys {
		e := map[string]any{"val": "none", "ver": 0}
		if bz, _ := w.raw.Get([]byte(storePrefix + "F" + k)); bz != nil {
			if pl, ok := unframe(bz); ok && len(pl) >= 8 {
				e = map[string]any{"val": string(pl[8:]), "ver": int64(binary.BigEndian.Uint64(pl[:8]))}
			} else {
				e = map[string]any{"val": "corrupt", "ver": -1}
			}
		}
		fast[k] = e
	}
	roots := []int64{}
	it, _ := w.raw.Iterator([]byte(storePrefix+"R"), []byte(storePrefix+"S"))
	for ; it.Valid(); it.Next() {
		k := it.Key()
		if len(k) == len(storePrefix)+9 {
			roots = append(roots, int64(binary.BigEndian.Uint64(k[len(storePrefix)+1:])))
		}
	}
	it.Close()
	sort.Slice(roots, func(i, j int) bool { return roots[i] < roots[j] })
	return map[string]any{"stamp": stamp, "fast": fast, "roots": roots}
}

func normProj(st map[string]any) map[string]any {
	rs := mbt.Ints(st["roots"])
	sort.Ints(rs)
	r64 := make([]int64, len(rs))
	for i, x := range rs {
		r64[i] = int64(x)
	}
	return map[string]any{"stamp": st["stamp"], "fast": st["fast"], "roots": r64}
}

// ---------------------------------------------------------------- FastSound scan (verdict)

func walkGet(s types.Store, k string) string {
	it := s.Iterator(nil, []byte(k), append([]byte(k), 0))
	defer it.Close()
	if it.Valid() && bytes.Equal(it.Key(), []byte(k)) {
		return string(it.Value())
	}
	return "none"
}

func fastGet(s types.Store, k string) string {
	v := s.Get(nil, []byte(k))
	if v == nil {
		return "none"
	}
	return string(v)
}

type finding struct{ key, what string }

// history classes that must be generated (counted for the vacuity check): the index is switched on
// again over a DB whose index is behind (stamp < latest version, i.e. versions were committed with the
// index off) and still holds entries for keys the latest tree no longer has -- all of them (the latest
// tree is empty) or some of them.
var clsEmptied, clsPartly atomic.Int64

func (w *world) noteToggleClass() {
	rp := w.rawProj()
	roots := rp["roots"].([]int64)
	if len(roots) == 0 || rp["stamp"].(int64) >= roots[len(roots)-1] {
		return
	}
	as := storebptree.StoreConstructor(dbm.NewPrefixDB(w.raw, []byte(storePrefix)), types.StoreOptions{Immutable: true}).(*storebptree.Store)
	if err := as.LoadVersion(roots[len(roots)-1]); err != nil {
		return
	}
	stale, live := 0, 0
	for _, k := range w.cfg.Keys {
		has := as.Has(nil, []byte(k))
		if has {
			live++
		}
		if e := rp["fast"].(map[string]any)[k].(map[string]any); e["val"] != "none" && !has {
			stale++
		}
	}
	switch {
	case stale > 0 && live == 0:
		clsEmptied.Add(1)
	case stale > 0:
		clsPartly.Add(1)
	}
}

// flushProbe runs after the last step of a behaviour, on the real objects only: one more block that
// writes an unrelated key and commits, then the scan again. Whatever an earlier step left staged
// behind the model's back (a session that was abandoned but not discarded) becomes durable here and
// is then served by the fast path; the verdict is still fast path vs tree walk on the real store.
func (w *world) flushProbe() (f *finding, reads int) {
	defer func() {
		if r := recover(); r != nil && f == nil {
			f = &finding{"C26:panic:flush-probe", fmt.Sprint(r)}
		}
	}()
	if !w.up || !w.loadOK {
		return nil, 0
	}
	rp := w.rawProj()
	roots := rp["roots"].([]int64)
	latest := int64(0)
	if len(roots) > 0 {
		latest = roots[len(roots)-1]
	}
	if w.st.LastCommitID().Version != latest {
		return nil, 0 // the working tree sits on an older version: writing needs a reload first
	}
	w.st.Set(nil, []byte("p"), []byte("probe"))
	w.commit()
	roots = w.rawProj()["roots"].([]int64)
	keys := w.cfg.Keys
	w.cfg.Keys = append(append([]string{}, keys...), "p")
	defer func() { w.cfg.Keys = keys }()
	if f, reads = w.scan(roots); f != nil {
		return
	}
	// and once more through a store object opened afresh over the same DB (a restarted node)
	if w.fast && w.cfg.Mode != "L" {
		w.crash()
		if ok, _ := w.open(true); ok {
			f2, n2 := w.scan(roots)
			reads += n2
			if f2 != nil {
				f2.key += ":after-restart"
				f = f2
			}
		}
	}
	return
}

func (w *world) scan(roots []int64) (f *finding, reads int) {
	defer func() {
		if r := recover(); r != nil && f == nil {
			msg := fmt.Sprint(r)
			if strings.Contains(msg, "read-only") { // a read-only query view tried to write (index maintenance on load)
				f = &finding{"C26:query-load-writes", "a read-only view attempted a DB write while loading / reading: " + msg}
			} else {
				f = &finding{"C26:scan-panic", msg}
			}
		}
	}()
	if !w.up || !w.loadOK {
		return nil, 0
	}
	chk := func(handle string, v int64, s types.Store) *finding {
		for _, k := range w.cfg.Keys {
			g, a := fastGet(s, k), walkGet(s, k)
			reads++
			if g != a {
				return &finding{"C26:stale-fast-read:" + handle,
					fmt.Sprintf("%s at version %d: Get(%q) = %q through the fast path, the tree holds %q", handle, v, k, g, a)}
			}
		}
		return nil
	}
	if x := chk("working-tree", w.st.LastCommitID().Version, w.st); x != nil {
		return x, reads
	}
	for _, v := range roots {
		im, err := w.st.GetImmutable(v)
		if err != nil {
			continue
		}
		if x := chk("immutable", v, im); x != nil {
			return x, reads
		}
		if w.cfg.Mode == "R" {
			cms, release, err := w.ms.MultiImmutableCacheWrapWithVersion(v)
			if err != nil {
				continue // not durable yet (start-up rebuild pending) or pruned
			}
			x := chk("query-view", v, cms.GetStore(w.key))
			release()
			if x != nil {
				return x, reads
			}
		}
	}
	return nil, reads
}

// treeAsModel renders the working tree for comparison with the model (drift only).
func (w *world) liveContent() map[string]string {
	out := map[string]string{}
	for _, k := range w.cfg.Keys {
		out[k] = walkGet(w.st, k)
	}
	return out
}

// ---------------------------------------------------------------- loader (mode L)

func (w *world) startLoader(v int64) {
	w.lres = loaderState{v: v}
	seenRoot := false
	want := func(pt string) bool {
		switch pt {
		case "iter:root", "get:stamp", "r.ready":
			return true
		case "get:root":
			if seenRoot {
				return false
			}
			seenRoot = true
			return true
		}
		return false
	}
	w.loader = w.s.Spawn("R", want, func() {
		ls := cons(w.fast)(dbm.NewPrefixDB(w.gdb, []byte(storePrefix)), types.StoreOptions{Immutable: true}).(*storebptree.Store)
		if err := ls.LoadVersion(v); err != nil {
			w.lres.err = err.Error()
			return
		}
		for {
			w.s.Gate("r.ready")
			if w.lres.quit {
				return
			}
			w.lres.got = fastGet(ls, w.lres.nextKey)
		}
	})
}

// authoritative value at version v: an index-free immutable store over the raw DB
func (w *world) authAt(v int64, k string) (string, error) {
	as := storebptree.StoreConstructor(dbm.NewPrefixDB(w.raw, []byte(storePrefix)), types.StoreOptions{Immutable: true}).(*storebptree.Store)
	if err := as.LoadVersion(v); err != nil {
		return "", err
	}
	return fastGet(as, k), nil
}

var loaderGate = map[string]string{"RStart": "iter:root", "RDiscover": "get:root", "RLoad": "get:stamp", "RStamp": "r.ready", "RGet": "r.ready"}

// ---------------------------------------------------------------- replay

type outcome struct {
	viol  *finding
	drift string
	reads  int
	steps  int
	probes int
}

func replay(cfg config, beh []mbt.Step) (o outcome) {
	w := newWorld(cfg)
	defer func() {
		if w.loader != nil && !w.loader.Done {
			w.lres.quit = true
			w.s.Finish(w.loader)
		}
	}()
	var guard any
	for i, st := range beh {
		o.steps++
		act := st.Act()
		func() {
			defer func() {
				if r := recover(); r != nil {
					guard = r
				}
			}()
			switch act {
			case "Set":
				w.st.Set(nil, []byte(st.Str("k")), []byte(st.Str("v")))
			case "Remove":
				w.st.Delete(nil, []byte(st.Str("k")))
			case "Commit":
				w.commit()
			case "Reload", "LoadVersion":
				// the SAME store handle abandons its working session by loading committed state again
				var err error
				if act == "Reload" {
					err = w.st.LoadLatestVersion()
				} else {
					err = w.st.LoadVersion(int64(st.Int("v")))
				}
				w.loadOK = err == nil
				if (err == nil) != st.Bool("ok") && o.drift == "" {
					o.drift = fmt.Sprintf("step %d %s: load error %v, model ok=%v", i, act, err, st.Bool("ok"))
				}
			case "Crash":
				w.crash()
			case "Reopen":
				if st.Bool("f") {
					w.noteToggleClass()
				}
				ok, errText := w.open(st.Bool("f"))
				if ok != st.Bool("ok") && o.drift == "" {
					o.drift = fmt.Sprintf("step %d Reopen(fast=%v): load ok=%v (%s), model %v", i, st.Bool("f"), ok, errText, st.Bool("ok"))
				}
			case "RStart":
				w.startLoader(int64(st.Int("v")))
				stepLoader(w, act, &o, i)
			case "RDiscover", "RLoad", "RStamp":
				stepLoader(w, act, &o, i)
				if act == "RLoad" && w.loader.Done != !st.Bool("ok") && o.drift == "" {
					o.drift = fmt.Sprintf("step %d RLoad: loader finished=%v (%s), model ok=%v", i, w.loader.Done, w.lres.err, st.Bool("ok"))
				}
			case "RGet":
				k := st.Str("k")
				w.lres.nextKey = k
				if w.loader == nil || w.loader.Done {
					// the real load ended (error) where the model has a ready view: nothing was read, nothing to judge
					if o.drift == "" {
						o.drift = fmt.Sprintf("step %d RGet: the loader is not running (%s)", i, w.lres.err)
					}
					return
				}
				w.lres.got = "<no read>"
				stepLoader(w, act, &o, i)
				for n := 0; n < 4 && w.lres.got == "<no read>" && !w.loader.Done; n++ {
					stepLoader(w, act, &o, i) // the gates sit elsewhere than in the model: go on until the read has happened
				}
				if w.lres.got == "<no read>" {
					if o.drift == "" {
						o.drift = fmt.Sprintf("step %d RGet: the loader did not perform the read (%s)", i, w.lres.err)
					}
					return
				}
				if w.loader.Panic != nil {
					o.viol = &finding{"C26:loader-panic", fmt.Sprintf("read-only loader panicked: %v | %s", w.loader.Panic, mbt.ShortStack(w.loader.Stack))}
					return
				}
				auth, err := w.authAt(w.lres.v, k)
				if err != nil {
					if o.drift == "" {
						o.drift = fmt.Sprintf("step %d RGet: authoritative load of version %d failed: %v", i, w.lres.v, err)
					}
					return
				}
				o.reads++
				if w.lres.got != auth {
					o.viol = &finding{"C26:stale-fast-read:concurrent-loader",
						fmt.Sprintf("read-only view at version %d loaded concurrently with commits: Get(%q) = %q, the tree of that version holds %q", w.lres.v, k, w.lres.got, auth)}
				} else if w.lres.got != st.Str("got") && o.drift == "" {
					o.drift = fmt.Sprintf("step %d RGet(%s) = %q, model %q", i, k, w.lres.got, st.Str("got"))
				}
			case "RDone":
				w.lres.quit = true
				if !w.loader.Done {
					if err := w.s.Finish(w.loader); err != nil && o.drift == "" {
						o.drift = err.Error()
					}
				}
			default:
				mbt.Die("unknown act %q", act)
			}
		}()
		if guard != nil {
			o.viol = &finding{"C26:panic:" + act, fmt.Sprintf("step %d %s panicked: %v", i, act, guard)}
			return
		}
		if o.viol != nil {
			return
		}
		if w.loader != nil && w.loader.Panic != nil {
			o.viol = &finding{"C26:loader-panic", fmt.Sprintf("read-only loader panicked: %v | %s", w.loader.Panic, mbt.ShortStack(w.loader.Stack))}
			return
		}
		// verdict: the scan on the real objects
		exp := normProj(st["st"].(map[string]any))
		f, n := w.scan(exp["roots"].([]int64))
		o.reads += n
		if f != nil {
			o.viol = f
			return
		}
		// guidance: raw DB content vs the model
		if o.drift == "" {
			got := w.rawProj()
			if !mbt.Eq(got, exp) {
				o.drift = fmt.Sprintf("step %d %s: raw DB %s, model %s", i, act, mbt.JS(got), mbt.JS(exp))
			}
		}
	}
	// the probe runs whether or not the raw DB content still agrees with the model: a divergence there is
	// guidance, the verdict is what the real store serves
	f, n := w.flushProbe()
	o.reads += n
	o.probes++
	if f != nil {
		f.what += " (after the behaviour's last step one more block wrote an unrelated key and committed)"
		o.viol = f
	}
	return
}

func stepLoader(w *world, act string, o *outcome, i int) {
	if w.loader == nil || w.loader.Done {
		return
	}
	if act == "RStamp" && w.loader.At == "r.ready" {
		return // an empty tree at the loaded version has no index to gate: getImmutable reads no stamp
	}
	if err := w.s.Step(w.loader); err != nil {
		if o.drift == "" {
			o.drift = fmt.Sprintf("step %d %s: %v", i, act, err)
		}
		return
	}
	if want := loaderGate[act]; !w.loader.Done && w.loader.At != want && !(act == "RLoad" && w.loader.At == "r.ready") && o.drift == "" {
		o.drift = fmt.Sprintf("step %d %s: loader at gate %q, expected %q", i, act, w.loader.At, want)
	}
}

func parseCfg(x string) config {
	c := config{Mode: "S", Keep: -1, Keys: []string{"a", "b"}}
	for _, kv := range strings.Split(x, ",") {
		p := strings.SplitN(kv, "=", 2)
		if len(p) != 2 {
			continue
		}
		switch p[0] {
		case "mode":
			c.Mode = p[1]
		case "keep":
			c.Keep, _ = strconv.ParseInt(p[1], 10, 64)
		case "keys":
			c.Keys = strings.Split(p[1], "+")
		}
	}
	return c
}

func main() {
	f := mbt.ParseFlags()
	cfg := parseCfg(f.Extra)
	behs, err := mbt.ReadBehaviours(f.In)
	if err != nil {
		mbt.Die("%v", err)
	}
	var mu sync.Mutex
	var steps, reads, replays, drifts, driftViol, viol, flaky int64
	var driftSamples []string
	reported := map[string]int{}
	nw := runtime.NumCPU() / 2
	if nw < 2 {
		nw = 2
	}
	var wg sync.WaitGroup
	for wk := 0; wk < nw; wk++ {
		wg.Add(1)
		go func(wk int) {
			defer wg.Done()
			for i := wk; i < len(behs); i += nw {
				if stuckSteps.Load() >= 3 {
					return
				}
				o := replay(cfg, behs[i])
				atomic.AddInt64(&steps, int64(o.steps))
				atomic.AddInt64(&reads, int64(o.reads))
				atomic.AddInt64(&replays, 1)
				if o.viol != nil {
					o2 := replay(cfg, behs[i]) // determinism: must reproduce from fresh objects
					if o2.viol == nil || o2.viol.key != o.viol.key {
						atomic.AddInt64(&flaky, 1)
						mbt.Emit(map[string]any{"kind": "flaky", "key": o.viol.key, "what": o.viol.what})
						continue
					}
					atomic.AddInt64(&viol, 1)
					if o.drift != "" {
						atomic.AddInt64(&driftViol, 1)
					}
					mu.Lock()
					reported[o.viol.key]++
					first := reported[o.viol.key] == 1
					mu.Unlock()
					if first {
						mbt.Mismatch(o.viol.key, o.viol.what, map[string]any{"cfg": f.Extra, "steps": behs[i][:o.steps]})
					}
					continue
				}
				if o.drift != "" {
					mu.Lock()
					drifts++
					if len(driftSamples) < 4 {
						driftSamples = append(driftSamples, o.drift)
					}
					mu.Unlock()
				}
				if i < 2 {
					mbt.Sample(behs[i])
				}
			}
		}(wk)
	}
	wg.Wait()
	mbt.Summary(map[string]any{"behaviours": len(behs), "replays": replays, "steps": steps, "scan_reads": reads, "drift": drifts,
		"drift_samples": driftSamples, "violating": viol, "flaky": flaky, "violations_by_key": reported, "drift_with_violation": driftViol, "stuck_steps": stuckSteps.Load(),
		"reopened_on_over_emptied_tree_with_stale_index": clsEmptied.Load(), "reopened_on_over_partly_removed_keys_with_stale_index": clsPartly.Load(), "fast_index_entries_found_by_reads": fastProbes.Load()})
	mbt.Flush()
}
