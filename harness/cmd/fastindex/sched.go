package main

// Deterministic scheduler for gated goroutine replay: every logical process runs in its own
// goroutine, at most one of them is runnable at any time, and a process only advances from one
// gate to the next when the driver (following the TLC schedule) releases it. Gates are reached
// from instrumented code (DB wrapper, logger, handlers, optional verifhook yield points); the
// process a call belongs to is found through the goroutine id. No sleeps, no wall-clock ordering;
// the timeout only turns a stuck step into an inconclusive result.
// (copied between harness/cmd/querycommit and harness/cmd/fastindex: keep in sync)

import (
	"bytes"
	"fmt"
	"runtime"
	"strconv"
	"sync"
	"sync/atomic"
	"time"
)

type arrival struct {
	gate string
	done bool
	pnc  any
	stk  string
}

type Proc struct {
	Name   string
	want   func(point string) bool
	resume chan struct{}
	arrive chan arrival
	Done   bool
	At     string
	Panic  any
	Stack  string
}

type Sched struct {
	mu      sync.Mutex
	procs   map[uint64]*Proc
	Timeout time.Duration
}

// stuckSteps counts steps that ran into the timeout (drivers give up after a few: each costs Timeout)
var stuckSteps atomic.Int64

// owners maps a goroutine id to the scheduler whose process it runs (for package-level hooks).
var owners sync.Map

func ownerOfCurrent() *Sched {
	if v, ok := owners.Load(goid()); ok {
		return v.(*Sched)
	}
	return nil
}

func NewSched() *Sched { return &Sched{procs: map[uint64]*Proc{}, Timeout: 15 * time.Second} }

func goid() uint64 {
	var buf [64]byte
	n := runtime.Stack(buf[:], false)
	// "goroutine 123 [running]:"
	f := bytes.Fields(buf[:n])
	id, _ := strconv.ParseUint(string(f[1]), 10, 64)
	return id
}

// Spawn creates a process that starts running fn at its first Step.
func (s *Sched) Spawn(name string, want func(string) bool, fn func()) *Proc {
	p := &Proc{Name: name, want: want, resume: make(chan struct{}), arrive: make(chan arrival), At: "start"}
	go func() {
		id := goid()
		s.mu.Lock()
		s.procs[id] = p
		s.mu.Unlock()
		owners.Store(id, s)
		defer func() {
			owners.Delete(id)
			s.mu.Lock()
			delete(s.procs, id)
			s.mu.Unlock()
			a := arrival{done: true}
			if r := recover(); r != nil {
				a.pnc = r
				b := make([]byte, 8192)
				a.stk = string(b[:runtime.Stack(b, false)])
			}
			p.arrive <- a
		}()
		<-p.resume
		fn()
	}()
	return p
}

func (s *Sched) current() *Proc {
	id := goid()
	s.mu.Lock()
	p := s.procs[id]
	s.mu.Unlock()
	return p
}

// Gate is called from instrumented code. Calls from goroutines that are not processes (the
// driver's own projections) and points the process is not interested in pass through.
func (s *Sched) Gate(point string) {
	p := s.current()
	if p == nil || !p.want(point) {
		return
	}
	p.arrive <- arrival{gate: point}
	<-p.resume
}

// Step releases p and waits until it reaches its next gate or finishes.
func (s *Sched) Step(p *Proc) error {
	if p.Done {
		return fmt.Errorf("process %s already finished", p.Name)
	}
	select {
	case p.resume <- struct{}{}:
	case <-time.After(s.Timeout):
		stuckSteps.Add(1)
		return fmt.Errorf("process %s is not waiting at its gate (%s) after %v", p.Name, p.At, s.Timeout)
	}
	select {
	case a := <-p.arrive:
		if a.done {
			p.Done, p.At, p.Panic, p.Stack = true, "done", a.pnc, a.stk
		} else {
			p.At = a.gate
		}
		return nil
	case <-time.After(s.Timeout):
		stuckSteps.Add(1)
		return fmt.Errorf("process %s did not reach a gate within %v after %s", p.Name, s.Timeout, p.At)
	}
}

// Finish lets p run to completion (every remaining gate is passed at once).
func (s *Sched) Finish(p *Proc) error {
	for i := 0; !p.Done; i++ {
		if i > 10000 {
			return fmt.Errorf("process %s does not terminate", p.Name)
		}
		if err := s.Step(p); err != nil {
			return err
		}
	}
	return nil
}
