package main

// The REAL gno.land application (gnoland.NewAppWithOptions through verifharness/appenv) as a
// crash-enumeration scenario: genesis with a realm package and funded accounts, then blocks
// with a bank send and a realm call that moves coins (both stores written in every block).

import (
	"crypto/sha256"
	"fmt"
	"time"

	"github.com/gnolang/gno/gno.land/pkg/sdk/vm"
	abci "github.com/gnolang/gno/tm2/pkg/bft/abci/types"
	"github.com/gnolang/gno/tm2/pkg/crypto"
	dbm "github.com/gnolang/gno/tm2/pkg/db"
	"github.com/gnolang/gno/tm2/pkg/sdk/bank"
	"github.com/gnolang/gno/tm2/pkg/std"

	"verifharness/appenv"
)

const tallyPath = "gno.land/r/verif/tally"

const tallySrc = `package tally

var n int

func Bump(cur realm) { n++ }
func N() int         { return n }
`

type gnoNode struct {
	e    *appenv.Env
	opts appenv.Options
	a, b *appenv.Account
}

func gnoOptions(db dbm.DB) (appenv.Options, *appenv.Account, *appenv.Account) {
	a, b, d := appenv.NewAccount("a"), appenv.NewAccount("b"), appenv.NewAccount("deployer")
	return appenv.Options{
		DB:       db,
		MaxGas:   100_000_000,
		Balances: map[crypto.Address]int64{a.Addr: 100_000_000, b.Addr: 100_000_000, d.Addr: 1_000_000_000},
		Deployer: d,
		Pkgs:     []appenv.Pkg{{Path: tallyPath, Files: map[string]string{"tally.gno": tallySrc}}},
	}, a, b
}

func gnolandScenario(blocks int) scenario {
	return scenario{name: "gnoland", blocks: blocks, backend: "memdb", open: func(db dbm.DB, phase int) (node, error) {
		o, a, b := gnoOptions(db)
		g := &gnoNode{opts: o, a: a, b: b}
		// the app object is built here when the chain already exists (restart); a new chain is
		// built inside Genesis (appenv.New = NewApp + InitChain + Commit)
		it, err := db.Iterator(nil, nil)
		if err != nil {
			return nil, err
		}
		empty := !it.Valid()
		it.Close()
		if !empty {
			e := &appenv.Env{DB: db, Opts: o, Time: plainT0}
			if err := e.Reopen(); err != nil {
				return nil, err
			}
			e.Height = e.App.LastBlockHeight()
			g.e = e
		}
		return g, nil
	}}
}

func (g *gnoNode) Genesis() error {
	e, err := appenv.New(g.opts)
	if err != nil {
		return err
	}
	g.e = e
	return nil
}

func (g *gnoNode) Height() int64 {
	if g.e == nil {
		return 0
	}
	return g.e.App.LastBlockHeight()
}

func (g *gnoNode) Hash() []byte { return g.e.App.LastCommitID().Hash }

func (g *gnoNode) Block() (int64, error) {
	e := g.e
	// block time must not depend on the life of the process: derive it from the height
	h := e.App.LastBlockHeight() + 1
	e.Time = plainT0.Add(time.Duration(h-2) * 5 * time.Second) // BeginBlock adds the 5 s step
	e.BeginBlock()
	acc := e.Account(g.a.Addr)
	send := bank.MsgSend{FromAddress: g.a.Addr, ToAddress: g.b.Addr, Amount: std.Coins{{Denom: "ugnot", Amount: 5}}}
	call := vm.NewMsgCall(g.a.Addr, std.Coins{{Denom: "ugnot", Amount: 1}}, tallyPath, "Bump", nil)
	tx := appenv.SignTx([]std.Msg{send, call}, 20_000_000, 1_000_000, appenv.ChainID, g.a, acc.Num, acc.Seq)
	r := e.Deliver(tx)
	if !r.IsOK() {
		return h, fmt.Errorf("gnoland block %d: %v %.300s", h, r.Error, r.Log)
	}
	e.EndBlockCommit()
	return h, nil
}

func (g *gnoNode) Probe() string {
	if g.e == nil {
		return "empty"
	}
	e := g.e
	n, err := e.QEval(tallyPath, "N()")
	acc := e.Account(g.a.Addr)
	st := e.App.Query(abci.RequestQuery{Path: ".store/main/key", Data: append([]byte("/a/"), g.a.Addr[:]...)})
	return fmt.Sprintf("h=%d n=%s err=%v balA=%d balB=%d realm=%d seqA=%d storeAcc=%x", e.App.LastBlockHeight(), n, err != nil,
		e.Balance(g.a.Addr), e.Balance(g.b.Addr), e.Balance(appenv.PkgAddr(tallyPath)), acc.Seq, shortHash(st.Value))
}

func shortHash(b []byte) []byte {
	h := sha256.Sum256(b)
	return h[:6]
}
