// Driver for C27 (spec/Commit.tla, spec/CommitTrace.tla): crash-point enumeration of block
// commits on the REAL store stack. A CrashDB wrapper counts the PHYSICAL write calls that reach
// the backing DB (Set/SetSync/Delete/DeleteSync/Batch.Write/WriteSync). A reference run records,
// per committed height, the app hash, a probe of the committed content through the query paths
// and a raw dump of the DB split into regions (main store, base store, rootmulti metadata).
// Then for every k and for "before"/"after" the k-th physical write the scenario is re-run on a
// fresh DB, the process state is thrown away at that point (panic out of the write call, sticky),
// the DB is re-opened by a fresh application object, and the projected
// (region tags, latest version, hash, content, later hashes) is written as an NDJSON trace that
// TLC validates against Commit.tla (Recoverable, RecoveredVersion in every recorded state).
package main

import (
	"bytes"
	"crypto/sha256"
	"encoding/hex"
	"encoding/json"
	"fmt"
	"os"
	"regexp"
	"sort"
	"strings"

	"github.com/gnolang/gno/tm2/pkg/amino"
	dbm "github.com/gnolang/gno/tm2/pkg/db"
	"github.com/gnolang/gno/tm2/pkg/db/goleveldb"
	"github.com/gnolang/gno/tm2/pkg/db/memdb"
	"github.com/gnolang/gno/tm2/pkg/store/types"

	"verifharness/mbt"
)

// ---------------------------------------------------------------- CrashDB

type crashSignal struct {
	K    int
	Mode string
}

type writeRec struct {
	K    int    `json:"k"`
	Kind string `json:"kind"`
	Ops  int    `json:"ops"`
}

type crashCtl struct {
	n      int    // physical writes seen
	at     int    // crash point (0 = never)
	mode   string // before | after
	dead   bool   // sticky: once crashed every call panics
	writes []writeRec
	onDone func(k int) // called after a physical write was applied
}

func (c *crashCtl) check() {
	if c.dead {
		panic(crashSignal{c.at, c.mode})
	}
}

// phys wraps one physical write.
func (c *crashCtl) phys(kind string, ops int, apply func() error) error {
	c.check()
	c.n++
	k := c.n
	if c.at == k && c.mode == "before" {
		c.dead = true
		panic(crashSignal{k, "before"})
	}
	err := apply()
	c.writes = append(c.writes, writeRec{k, kind, ops})
	if c.onDone != nil {
		c.onDone(k)
	}
	if c.at == k && c.mode == "after" {
		c.dead = true
		panic(crashSignal{k, "after"})
	}
	return err
}

type CrashDB struct {
	dbm.DB
	c *crashCtl
}

func (d *CrashDB) Get(k []byte) ([]byte, error) { d.c.check(); return d.DB.Get(k) }
func (d *CrashDB) Has(k []byte) (bool, error)   { d.c.check(); return d.DB.Has(k) }
func (d *CrashDB) Set(k, v []byte) error {
	return d.c.phys("Set", 1, func() error { return d.DB.Set(k, v) })
}
func (d *CrashDB) SetSync(k, v []byte) error {
	return d.c.phys("SetSync", 1, func() error { return d.DB.SetSync(k, v) })
}
func (d *CrashDB) Delete(k []byte) error {
	return d.c.phys("Delete", 1, func() error { return d.DB.Delete(k) })
}
func (d *CrashDB) DeleteSync(k []byte) error {
	return d.c.phys("DeleteSync", 1, func() error { return d.DB.DeleteSync(k) })
}
func (d *CrashDB) Iterator(s, e []byte) (dbm.Iterator, error) {
	d.c.check()
	return d.DB.Iterator(s, e)
}
func (d *CrashDB) ReverseIterator(s, e []byte) (dbm.Iterator, error) {
	d.c.check()
	return d.DB.ReverseIterator(s, e)
}
func (d *CrashDB) NewBatch() dbm.Batch            { return &crashBatch{Batch: d.DB.NewBatch(), c: d.c} }
func (d *CrashDB) NewBatchWithSize(n int) dbm.Batch { return &crashBatch{Batch: d.DB.NewBatchWithSize(n), c: d.c} }
func (d *CrashDB) Close() error                   { return nil } // the driver owns the backing DB

type crashBatch struct {
	dbm.Batch
	c   *crashCtl
	ops int
}

func (b *crashBatch) Set(k, v []byte) error { b.ops++; return b.Batch.Set(k, v) }
func (b *crashBatch) Delete(k []byte) error { b.ops++; return b.Batch.Delete(k) }
func (b *crashBatch) Write() error {
	return b.c.phys("Batch.Write", b.ops, b.Batch.Write)
}
func (b *crashBatch) WriteSync() error {
	return b.c.phys("Batch.WriteSync", b.ops, b.Batch.WriteSync)
}

// ---------------------------------------------------------------- raw dump, regions, tags

var reCommitInfo = regexp.MustCompile(`^s/[0-9]+$`)

// mirror of rootmulti.commitInfo (unexported): amino is structural for plain structs
type ciMirror struct {
	Version    int64
	StoreInfos []siMirror
}
type siMirror struct {
	Name string
	Core struct{ CommitID types.CommitID }
}

// normMeta renders a commitInfo record independent of the (map-iteration) order of its stores.
func normMeta(v []byte) string {
	var ci ciMirror
	if err := amino.UnmarshalSized(v, &ci); err != nil {
		return "raw:" + hex.EncodeToString(v)
	}
	var parts []string
	for _, si := range ci.StoreInfos {
		parts = append(parts, fmt.Sprintf("%s@%d:%x", si.Name, si.Core.CommitID.Version, si.Core.CommitID.Hash))
	}
	sort.Strings(parts)
	return fmt.Sprintf("v%d[%s]", ci.Version, strings.Join(parts, ","))
}

func regionOf(key string) string {
	switch {
	case key == "s/latest" || reCommitInfo.MatchString(key):
		return "meta"
	case strings.HasPrefix(key, "s/k:main/"):
		return "main"
	case strings.HasPrefix(key, "s/k:base/"):
		return "base"
	case strings.HasPrefix(key, "s/_/"):
		// both stores share the prefix when mounted with the DB (gno.land): bptree records start
		// with one of its prefix bytes; everything else belongs to the dbadapter store
		if len(key) > 4 && strings.IndexByte("BVRMOF", key[4]) >= 0 {
			return "main"
		}
		return "base"
	}
	return "other"
}

type regionHashes map[string]string

// ignoreFast: leave the bptree fast-index records (F‖key, M‖"fastidx") out of the region content.
// Only set by the scenario that switches the (unauthenticated, hash-neutral) index on at the
// restart, where the reference run legitimately has no such records; C26 owns their soundness.
var ignoreFast bool

func isFastRecord(key string) bool {
	i := strings.Index(key, "/F")
	j := strings.Index(key, "/Mfastidx")
	pre := func(n int) bool { return n >= 0 && (key[:n] == "s/_" || key[:n] == "s/k:main") }
	return pre(i) || (pre(j) && key[j:] == "/Mfastidx")
}

func dumpRegions(db dbm.DB) (regionHashes, int) {
	it, err := db.Iterator(nil, nil)
	if err != nil {
		mbt.Die("iterator: %v", err)
	}
	defer it.Close()
	hs := map[string]interface {
		Write([]byte) (int, error)
		Sum([]byte) []byte
	}{}
	n := 0
	for ; it.Valid(); it.Next() {
		k, v := string(it.Key()), it.Value()
		r := regionOf(k)
		if ignoreFast && r == "main" && isFastRecord(k) {
			continue
		}
		h := hs[r]
		if h == nil {
			h = sha256.New()
			hs[r] = h
		}
		val := v
		if r == "meta" && k != "s/latest" {
			val = []byte(normMeta(v))
		}
		fmt.Fprintf(h, "%d:%s=%d:", len(k), k, len(val))
		h.Write(val)
		n++
	}
	out := regionHashes{}
	for _, r := range []string{"main", "base", "meta", "other"} {
		if h := hs[r]; h != nil {
			out[r] = hex.EncodeToString(h.Sum(nil)[:12])
		} else {
			out[r] = "empty"
		}
	}
	return out, n
}

// ---------------------------------------------------------------- scenarios

type node interface {
	Genesis() error
	Block() (int64, error)
	Height() int64
	Hash() []byte
	Probe() string
}

type scenario struct {
	name    string
	noFast  bool                                            // compare DB content without the fast-index records
	blocks  int                                             // blocks after genesis
	open    func(db dbm.DB, phase int) (node, error)        // phase 0 = first start, 1 = after a crash
	backend string                                          // memdb | goleveldb
}

type plainNode struct{ p *PlainApp }

func (n plainNode) Genesis() error        { n.p.Genesis(); return nil }
func (n plainNode) Block() (int64, error) { return n.p.Block() }
func (n plainNode) Height() int64         { return n.p.App.LastBlockHeight() }
func (n plainNode) Hash() []byte          { return n.p.App.LastCommitID().Hash }
func (n plainNode) Probe() string         { return n.p.Probe() }

func plainScenario(name, main, mount string, keep int64, blocks int, toggle bool) scenario {
	return scenario{name: name, blocks: blocks, backend: "memdb", noFast: toggle, open: func(db dbm.DB, phase int) (node, error) {
		m := main
		if toggle && phase == 0 {
			m = "bptree" // first life without the fast index, every restart with it: the rebuild rides the collector
		}
		p, err := NewPlainApp(PlainOpts{DB: db, Main: m, Mount: mount, Keep: keep})
		if err != nil {
			return nil, err
		}
		return plainNode{p}, nil
	}}
}

// ---------------------------------------------------------------- one run

type refState struct {
	Height  int64
	Hash    string
	Probe   string
	Regions regionHashes
}

type runner struct {
	sc     scenario
	dir    string
	raw    dbm.DB
	ref    map[int64]refState // by committed height (reference run)
	refW   []writeRec
	refWR  []regionHashes // regions after each physical write of the reference run
}

func (r *runner) newRaw() dbm.DB {
	if r.sc.backend == "goleveldb" {
		d, err := os.MkdirTemp("", "c27ldb")
		if err != nil {
			mbt.Die("%v", err)
		}
		r.dir = d
		db, err := goleveldb.NewGoLevelDB("app", d)
		if err != nil {
			mbt.Die("%v", err)
		}
		return db
	}
	return memdb.NewMemDB()
}

// reopenRaw models the new process getting the DB: for goleveldb the files are closed and re-opened.
func (r *runner) reopenRaw() {
	if r.sc.backend == "goleveldb" {
		r.raw.Close()
		db, err := goleveldb.NewGoLevelDB("app", r.dir)
		if err != nil {
			mbt.Die("reopen leveldb: %v", err)
		}
		r.raw = db
	}
}

func (r *runner) closeRaw() {
	if r.raw != nil {
		r.raw.Close()
	}
	if r.dir != "" {
		os.RemoveAll(r.dir)
		r.dir = ""
	}
}

// tags maps the regions of a dump to the committed height whose content they equal (-1: none).
func (r *runner) tags(rh regionHashes) map[string]int64 {
	out := map[string]int64{}
	for _, reg := range []string{"main", "base", "meta"} {
		out[reg] = -1
		if rh[reg] == "empty" {
			out[reg] = 0
			continue
		}
		for h, st := range r.ref {
			if st.Regions[reg] == rh[reg] {
				out[reg] = h
			}
		}
	}
	return out
}

// drive runs genesis + blocks on n, calling after() behind every commit. Returns the crash signal if one fired.
func drive(n node, from int64, blocks int, after func(h int64)) (sig *crashSignal, err error) {
	defer func() {
		if x := recover(); x != nil {
			if cs, ok := x.(crashSignal); ok {
				sig = &cs
				return
			}
			panic(x)
		}
	}()
	if from == 0 {
		if err := n.Genesis(); err != nil {
			return nil, err
		}
		after(1)
	}
	for n.Height() < int64(1+blocks) {
		h, err := n.Block()
		if err != nil {
			return nil, err
		}
		after(h)
	}
	return nil, nil
}

func (r *runner) reference() {
	r.raw = r.newRaw()
	defer r.closeRaw()
	ctl := &crashCtl{}
	ctl.onDone = func(k int) {
		rh, _ := dumpRegions(r.raw)
		r.refWR = append(r.refWR, rh)
	}
	n, err := r.sc.open(&CrashDB{r.raw, ctl}, 0)
	if err != nil {
		mbt.Die("%s: open: %v", r.sc.name, err)
	}
	r.ref = map[int64]refState{}
	sig, err := drive(n, 0, r.sc.blocks, func(h int64) {
		rh, _ := dumpRegions(r.raw)
		r.ref[h] = refState{Height: h, Hash: hex.EncodeToString(n.Hash()), Probe: n.Probe(), Regions: rh}
	})
	if err != nil || sig != nil {
		mbt.Die("%s: reference run failed: %v %v", r.sc.name, err, sig)
	}
	r.refW = ctl.writes
}

type line map[string]any

func tagsJSON(t map[string]int64) map[string]any {
	return map[string]any{"main": t["main"], "base": t["base"], "meta": t["meta"]}
}

// crashRun executes one crash point and returns the trace lines of the scenario and its verdict facts.
func (r *runner) crashRun(k int, mode string) (lines []line, facts map[string]any) {
	r.raw = r.newRaw()
	defer r.closeRaw()
	ctl := &crashCtl{at: k, mode: mode}
	facts = map[string]any{"scenario": r.sc.name, "k": k, "mode": mode}
	lines = append(lines, line{"act": "Init", "scenario": r.sc.name, "k": k, "mode": mode})
	n, err := r.sc.open(&CrashDB{r.raw, ctl}, 0)
	if err != nil {
		mbt.Die("%s: open: %v", r.sc.name, err)
	}
	lastH := int64(0)
	sig, err := drive(n, 0, r.sc.blocks, func(h int64) { lastH = h })
	if err != nil {
		mbt.Die("%s: crash run k=%d: %v", r.sc.name, k, err)
	}
	if sig == nil {
		mbt.Die("%s: crash point k=%d %s never reached (%d writes)", r.sc.name, k, mode, ctl.n)
	}
	// the writes that completed before the crash are those of the reference run (same inputs);
	// check the cheap fingerprint and reuse the reference's region dumps for them
	for i, w := range ctl.writes {
		if i >= len(r.refW) || r.refW[i].Kind != w.Kind || r.refW[i].Ops != w.Ops {
			mbt.Die("%s: run k=%d diverges from the reference at write %d (%+v)", r.sc.name, k, i+1, w)
		}
		lines = append(lines, line{"act": "Write", "k": w.K, "kind": w.Kind, "ops": w.Ops, "disk": tagsJSON(r.tags(r.refWR[i]))})
	}
	// ---- the process is gone: only the DB remains
	n = nil
	r.reopenRaw()
	rh, _ := dumpRegions(r.raw)
	dt := r.tags(rh)
	facts["published_before_crash"] = lastH
	facts["disk"] = tagsJSON(dt)
	lines = append(lines, line{"act": "Crash", "k": k, "mode": mode, "gcid": lastH, "disk": tagsJSON(dt)})
	whole := dt["main"] == dt["base"] && dt["base"] == dt["meta"] && dt["meta"] >= 0
	facts["whole"] = whole
	// ---- restart
	ctl2 := &crashCtl{}
	ctl2.onDone = func(k2 int) {
		rh2, _ := dumpRegions(r.raw)
		w := ctl2.writes[len(ctl2.writes)-1]
		lines = append(lines, line{"act": "Write", "k": k2, "kind": w.Kind, "ops": w.Ops, "disk": tagsJSON(r.tags(rh2))})
	}
	var n2 node
	var openErr string
	func() {
		defer func() {
			if x := recover(); x != nil {
				openErr = fmt.Sprintf("panic: %v", x)
			}
		}()
		var e error
		n2, e = r.sc.open(&CrashDB{r.raw, ctl2}, 1)
		if e != nil {
			openErr = e.Error()
		}
	}()
	if openErr != "" {
		facts["reopen_ok"] = false
		facts["reopen_err"] = openErr
		lines = append(lines, line{"act": "Reopen", "ok": false, "cid": -1, "hash_ok": false, "content_ok": false})
		lines = append(lines, line{"act": "Reset"})
		return
	}
	cid := n2.Height()
	ref, known := r.ref[cid]
	hashOK := cid == 0 || (known && hex.EncodeToString(n2.Hash()) == ref.Hash)
	probe := n2.Probe()
	rh3, _ := dumpRegions(r.raw)
	contentOK := cid == 0 || (known && probe == ref.Probe && rh3["main"] == ref.Regions["main"] && rh3["base"] == ref.Regions["base"] && rh3["meta"] == ref.Regions["meta"])
	if cid == 0 {
		contentOK = rh3["main"] == "empty" && rh3["base"] == "empty" && rh3["meta"] == "empty"
	}
	facts["reopen_ok"], facts["cid"], facts["hash_ok"], facts["content_ok"] = true, cid, hashOK, contentOK
	if !contentOK {
		facts["probe"] = probe
		facts["want_probe"] = ref.Probe
	}
	lines = append(lines, line{"act": "Reopen", "ok": true, "cid": cid, "hash_ok": hashOK, "content_ok": contentOK})
	// ---- continue: the chain must produce the reference's later hashes
	hashesOK := true
	var bad []string
	var contErr string
	func() {
		defer func() {
			if x := recover(); x != nil {
				contErr = fmt.Sprintf("panic: %v", x)
			}
		}()
		_, e := drive(n2, cid, r.sc.blocks, func(h int64) {
			if hex.EncodeToString(n2.Hash()) != r.ref[h].Hash || n2.Probe() != r.ref[h].Probe {
				hashesOK = false
				bad = append(bad, fmt.Sprint(h))
			}
		})
		if e != nil {
			contErr = e.Error()
		}
	}()
	if contErr != "" {
		hashesOK = false
		facts["continue_err"] = contErr
	}
	end := n2.Height()
	facts["hashes_ok"], facts["end"] = hashesOK, end
	if len(bad) > 0 {
		facts["bad_heights"] = strings.Join(bad, ",")
	}
	lines = append(lines, line{"act": "End", "cid": end, "hashes_ok": hashesOK && end == int64(1+r.sc.blocks)})
	lines = append(lines, line{"act": "Reset"})
	return
}

func anomaly(f map[string]any) (string, bool) {
	b := func(k string) bool { v, _ := f[k].(bool); return v }
	switch {
	case !b("whole"):
		return "torn-db", true
	case !b("reopen_ok"):
		return "reopen-fails", true
	case !b("hash_ok"):
		return "wrong-hash-after-reopen", true
	case !b("content_ok"):
		return "wrong-content-after-reopen", true
	case !b("hashes_ok"):
		return "later-hashes-differ", true
	}
	cid, _ := f["cid"].(int64)
	pub, _ := f["published_before_crash"].(int64)
	if cid != pub && cid != pub+1 {
		return "version-jump", true
	}
	return "", false
}

func main() {
	f := mbt.ParseFlags()
	var scs []scenario
	want := map[string]bool{}
	for _, s := range strings.Split(f.Extra, ",") {
		if s != "" {
			want[s] = true
		}
	}
	x := f.N // extra blocks (thorough tier)
	all := []scenario{
		plainScenario("plain-fast-prune", "bptree-fast", "db", 1, 5+x, false),
		plainScenario("plain-fast-keepall-nilmount", "bptree-fast", "nil", -1, 4+x, false),
		plainScenario("plain-iavl-prune", "iavl", "nil", 1, 5+x, false),
		plainScenario("plain-toggle-fast", "bptree-fast", "db", 1, 5+x, true),
		gnolandScenario(2 + x/2),
	}
	ldb := plainScenario("plain-fast-prune-goleveldb", "bptree-fast", "db", 1, 4+x, false)
	ldb.backend = "goleveldb"
	all = append(all, ldb)
	for _, s := range all {
		if len(want) == 0 || want[s.name] {
			scs = append(scs, s)
		}
	}
	var out *os.File
	if f.Out != "" {
		var err error
		out, err = os.Create(f.Out)
		if err != nil {
			mbt.Die("%v", err)
		}
		defer out.Close()
	}
	only := -1
	onlyMode := ""
	if f.Mode != "replay" && f.Mode != "" { // -mode k:before|k:after : a single crash point (for --replay)
		fmt.Sscanf(f.Mode, "%d:%s", &only, &onlyMode)
	}
	evals, nontrivial, sampled := 0, 0, 0
	perScenario := map[string]any{}
	for _, sc := range scs {
		r := &runner{sc: sc}
		ignoreFast = sc.noFast
		r.reference()
		K := len(r.refW)
		perScenario[sc.name] = map[string]any{"physical_writes": K, "heights": 1 + sc.blocks}
		for k := 1; k <= K; k++ {
			for _, mode := range []string{"before", "after"} {
				if only >= 0 && (k != only || mode != onlyMode) {
					continue
				}
				if only < 0 && sc.name == "gnoland" && f.Tier == "quick" && mode == "after" && k < K {
					// "just after write k" leaves the same DB as "just before write k+1" (only process memory
					// differs, and that is discarded): the quick tier runs one of the two on the slow application
					continue
				}
				lines, facts := r.crashRun(k, mode)
				evals++
				nontrivial++ // every crash point lies inside InitChain/Commit: uncommitted state is pending in memory
				if out != nil {
					for _, l := range lines {
						bz, _ := json.Marshal(l)
						out.Write(bz)
						out.Write([]byte("\n"))
					}
				}
				if why, bad := anomaly(facts); bad {
					mbt.Mismatch("C27:"+why+":"+sc.name, fmt.Sprintf("crash %s physical write %d of %s: %s", mode, k, sc.name, mbt.JS(facts)),
						map[string]any{"scenario": sc.name, "k": k, "mode": mode, "facts": facts, "lines": lines})
				}
				if sampled < 3 && k > 1 {
					mbt.Sample(map[string]any{"facts": facts, "trace": lines})
					sampled++
				}
			}
		}
	}
	mbt.Summary(map[string]any{"evaluations": evals, "distinct_nontrivial": nontrivial, "scenarios": len(scs), "per_scenario": perScenario})
	mbt.Flush()
	_ = bytes.MinRead
}
