// Driver for C18 (spec/Coins.tla): replays TLC behaviours on the real std.Coins of tm2/pkg/std.
//
//	-x <k>   amounts of the behaviours are embedded as v -> v << k (k = 0: identity; k = 60: the spec's
//	         representable range -8..7 becomes exactly the int64 range, so overflow is reachable).
//
// Two registers X, Y hold real std.Coins slices. Per step:
//
//	Init   X, Y := the operand sets (fresh slices)
//	Add    r := X.Add(Y)   Sub  r := X.Sub(Y)   then X := r when the call returned
//	Cmp    every comparison helper on (X, Y) (valid sets only, generated that way by the spec)
//	Query  X.AmountOf(each denom), X.IsValid(), X.IsZero()
//	Parse  std.ParseCoins(X.String())
//	Swap   X, Y := Y, X
//
// Verdict observables (C18): panic / no panic of Add and Sub, the returned set element by element
// (sorted, zero-free), BOTH operand slices compared element-wise with deep copies taken before the
// call, the boolean of every helper, AmountOf, the parsed set.
package main

import (
	"fmt"
	"math"
	"sort"
	"strconv"
	"sync"

	"github.com/gnolang/gno/tm2/pkg/std"

	"verifharness/mbt"
)

var denomNames = []string{"aaa", "bbb", "ccc", "ddd", "eee"}

var shift uint

// coinsOf builds a real std.Coins from the spec's sequence of {d, n}.
func coinsOf(v any) std.Coins {
	a, _ := v.([]any)
	out := make(std.Coins, 0, len(a))
	for _, e := range a {
		m := e.(map[string]any)
		d := int(m["d"].(float64))
		n := int64(m["n"].(float64))
		out = append(out, std.Coin{Denom: denomNames[d-1], Amount: n << shift})
	}
	return out
}

func clone(c std.Coins) std.Coins {
	if c == nil {
		return nil
	}
	out := make(std.Coins, len(c))
	copy(out, c)
	return out
}

func same(a, b std.Coins) bool {
	if len(a) != len(b) {
		return false
	}
	for i := range a {
		if a[i] != b[i] {
			return false
		}
	}
	return true
}

func hasZero(c std.Coins) bool {
	for _, x := range c {
		if x.Amount == 0 {
			return true
		}
	}
	return false
}

func hasMin(c std.Coins) bool {
	for _, x := range c {
		if x.Amount == math.MinInt64 {
			return true
		}
	}
	return false
}

func show(c std.Coins) string {
	s := "{"
	for i, x := range c {
		if i > 0 {
			s += ","
		}
		s += fmt.Sprintf("%d%s", x.Amount, x.Denom)
	}
	return s + "}"
}

type mis struct {
	idx  int
	what string
	c    any
}

var (
	mu       sync.Mutex
	reported = map[string][]mis{}
	stats    = map[string]int64{}
)

func count(k string, n int64) { mu.Lock(); stats[k] += n; mu.Unlock() }

func report(idx int, key, what string, c any) {
	mu.Lock()
	defer mu.Unlock()
	stats["mismatches"]++
	stats["mismatch:"+key]++
	l := append(reported[key], mis{idx, what, c})
	sort.Slice(l, func(i, j int) bool { return l[i].idx < l[j].idx })
	if len(l) > 2 {
		l = l[:2]
	}
	reported[key] = l
}

// guardBool evaluates a helper; a panic is reported as (false, true).
func guardBool(f func() bool) (r bool, panicked bool) {
	defer func() {
		if x := recover(); x != nil {
			r, panicked = false, true
		}
	}()
	return f(), false
}

func replay(idx int, beh []mbt.Step) {
	var X, Y std.Coins
	for k, s := range beh {
		c := map[string]any{"shift": shift, "steps": beh[:k+1]}
		count("steps", 1)
		// the spec's registers before the step must be what the driver holds (operands as the spec sees them)
		if s.Act() != "Init" {
			if !same(X, coinsOf(s["a"])) || !same(Y, coinsOf(s["b"])) {
				mbt.Die("driver out of step at %d of behaviour %d: X=%s Y=%s, spec a=%s b=%s", k, idx, show(X), show(Y), mbt.JS(s["a"]), mbt.JS(s["b"]))
			}
		}
		switch act := s.Act(); act {
		case "Init":
			X, Y = coinsOf(s["a"]), coinsOf(s["b"])
		case "Swap":
			X, Y = Y, X
		case "Add", "Sub":
			bx, by := clone(X), clone(Y)
			var res std.Coins
			panicked, val, _ := mbt.Guard(func() {
				if act == "Add" {
					res = X.Add(Y)
				} else {
					res = X.Sub(Y)
				}
			})
			expPanic := s.Str("reply") == "panic"
			switch {
			case panicked != expPanic:
				key := fmt.Sprintf("C18:%s:reply", act)
				if act == "Sub" && panicked && hasMin(by) {
					key = "C18:Sub:min-amount-negation"
				}
				got := "returned " + show(res)
				if panicked {
					got = fmt.Sprintf("panicked (%v)", val)
				}
				want := "return " + show(coinsOf(s["res"]))
				if expPanic {
					want = "panic (a result amount overflows or the result is invalid)"
				}
				report(idx, key, fmt.Sprintf("%s.%s(%s) %s; the multiset model requires it to %s", show(bx), act, show(by), got, want), c)
				return
			case !panicked && !same(res, coinsOf(s["res"])):
				report(idx, fmt.Sprintf("C18:%s:result", act), fmt.Sprintf("%s.%s(%s) = %s, the sorted zero-free per-denomination result is %s",
					show(bx), act, show(by), show(res), show(coinsOf(s["res"]))), c)
				return
			}
			// "never modify their operands": element-wise against the copies taken before the call
			for _, o := range []struct {
				name        string
				now, before std.Coins
			}{{"receiver", X, bx}, {"argument", Y, by}} {
				if !same(o.now, o.before) {
					key := fmt.Sprintf("C18:%s:operand-mutated", act)
					if hasZero(o.before) {
						key += ":zero-amount-entry"
					}
					report(idx, key, fmt.Sprintf("%s.%s(%s) modified its %s: %s became %s", show(bx), act, show(by), o.name, show(o.before), show(o.now)), c)
					return
				}
			}
			if !panicked {
				X = res
			}
		case "Cmp":
			bx, by := clone(X), clone(Y)
			for _, h := range []struct {
				name string
				f    func() bool
			}{
				{"allgt", func() bool { return X.IsAllGT(Y) }}, {"allgte", func() bool { return X.IsAllGTE(Y) }},
				{"alllt", func() bool { return X.IsAllLT(Y) }}, {"alllte", func() bool { return X.IsAllLTE(Y) }},
				{"anygt", func() bool { return X.IsAnyGT(Y) }}, {"anygte", func() bool { return X.IsAnyGTE(Y) }},
				{"eq", func() bool { return X.IsEqual(Y) }},
			} {
				got, panicked := guardBool(h.f)
				// IsEqual documents a panic for equally long sets with different denominations: read as "not equal"
				if panicked && h.name != "eq" {
					report(idx, "C18:Cmp:"+h.name+":panic", fmt.Sprintf("%s vs %s: helper %s panicked", show(bx), show(by), h.name), c)
					return
				}
				if got != s.Bool(h.name) {
					report(idx, "C18:Cmp:"+h.name, fmt.Sprintf("%s vs %s: helper %s = %v, per-denomination comparison gives %v", show(bx), show(by), h.name, got, s.Bool(h.name)), c)
					return
				}
			}
			if !same(X, bx) || !same(Y, by) {
				report(idx, "C18:Cmp:operand-mutated", fmt.Sprintf("comparison helpers modified an operand: %s / %s became %s / %s", show(bx), show(by), show(X), show(Y)), c)
				return
			}
		case "Query":
			bx := clone(X)
			exp := mbt.Ints(s["amounts"])
			for i, e := range exp {
				var got int64
				if p, v, _ := mbt.Guard(func() { got = X.AmountOf(denomNames[i]) }); p {
					report(idx, "C18:AmountOf:panic", fmt.Sprintf("%s.AmountOf(%s) panicked: %v", show(bx), denomNames[i], v), c)
					return
				}
				if got != int64(e)<<shift {
					report(idx, "C18:AmountOf", fmt.Sprintf("%s.AmountOf(%s) = %d, expected %d", show(bx), denomNames[i], got, int64(e)<<shift), c)
					return
				}
			}
			if X.IsValid() != s.Bool("valid") {
				report(idx, "C18:IsValid", fmt.Sprintf("%s.IsValid() = %v, expected %v", show(bx), X.IsValid(), s.Bool("valid")), c)
				return
			}
			if X.IsZero() != s.Bool("zero") {
				report(idx, "C18:IsZero", fmt.Sprintf("%s.IsZero() = %v, expected %v", show(bx), X.IsZero(), s.Bool("zero")), c)
				return
			}
			if !same(X, bx) {
				report(idx, "C18:Query:operand-mutated", fmt.Sprintf("a read modified %s into %s", show(bx), show(X)), c)
				return
			}
		case "Parse":
			str := X.String()
			parsed, err := std.ParseCoins(str)
			if err != nil || !same(parsed, coinsOf(s["res"])) {
				report(idx, "C18:Parse", fmt.Sprintf("ParseCoins(%q) = %s, %v; expected the set %s itself", str, show(parsed), err, show(X)), c)
				return
			}
		default:
			mbt.Die("unknown act %q", act)
		}
		count("steps_ok", 1)
		count("act:"+s.Act(), 1)
	}
	count("replays_ok", 1)
}

func main() {
	f := mbt.ParseFlags()
	if f.Extra != "" {
		n, err := strconv.Atoi(f.Extra)
		if err != nil || n < 0 || n > 60 {
			mbt.Die("bad -x shift %q", f.Extra)
		}
		shift = uint(n)
	}
	behs, err := mbt.ReadBehaviours(f.In)
	if err != nil {
		mbt.Die("%v", err)
	}
	var wg sync.WaitGroup
	nw := 8
	for w := 0; w < nw; w++ {
		wg.Add(1)
		go func(w int) {
			defer wg.Done()
			for i := w; i < len(behs); i += nw {
				replay(i, behs[i])
			}
		}(w)
	}
	wg.Wait()
	keys := make([]string, 0, len(reported))
	for k := range reported {
		keys = append(keys, k)
	}
	sort.Strings(keys)
	for _, k := range keys {
		for _, m := range reported[k] {
			mbt.Mismatch(k, m.what, m.c)
		}
	}
	for i := 0; i < len(behs) && i < 2; i++ {
		mbt.Sample(behs[(len(behs)-1)*i])
	}
	sum := map[string]any{"behaviours": len(behs), "replays": len(behs)}
	for k, v := range stats {
		sum[k] = v
	}
	mbt.Summary(sum)
	mbt.Flush()
}
