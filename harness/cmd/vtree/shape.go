// Coverage statistics only (never a verdict): the persisted bptree node records of two consecutive versions are
// read straight from the DB (record layout of tm2/pkg/bptree/node.go) to count the structural event C24 requires
// as non-vacuous: an inner node merged INTO ITS LEFT SIBLING in a session that had not touched that sibling, i.e.
// a new inner record whose child references start with all the child references, unchanged, of an inner record of
// the previous version that is gone from the tree.
package main

import (
	"bytes"
	"encoding/binary"

	dbm "github.com/gnolang/gno/tm2/pkg/db"
)

type innerRec struct {
	version  int64
	height   int
	children [][]byte
}

// readInner parses an inner-node record; ok = false for leaves, missing or unreadable records.
func readInner(db dbm.DB, nk []byte) (rec innerRec, ok bool) {
	data, err := db.Get(append([]byte{'B'}, nk...))
	if err != nil || len(data) < 6 || data[0] != 0x01 {
		return rec, false
	}
	r := bytes.NewReader(data[1 : len(data)-4]) // strip type byte and crc32
	numKeys, err := binary.ReadUvarint(r)
	if err != nil || numKeys > 31 {
		return rec, false
	}
	for i := uint64(0); i <= numKeys; i++ {
		if _, err := binary.ReadVarint(r); err != nil {
			return rec, false
		}
	}
	h, err := binary.ReadUvarint(r)
	if err != nil {
		return rec, false
	}
	for i := uint64(0); i < numKeys; i++ {
		l, err := binary.ReadUvarint(r)
		if err != nil || l > 1<<20 {
			return rec, false
		}
		if _, err := r.Seek(int64(l), 1); err != nil {
			return rec, false
		}
	}
	rec.height = int(h)
	rec.version = int64(binary.BigEndian.Uint64(nk[:8]))
	for i := uint64(0); i <= numKeys; i++ {
		c := make([]byte, 12)
		if _, err := r.Read(c); err != nil {
			return rec, false
		}
		rec.children = append(rec.children, c)
	}
	return rec, true
}

// innerNodes: the non-root inner nodes of a version, by node key
func innerNodes(db dbm.DB, version int64) map[string]innerRec {
	out := map[string]innerRec{}
	key := make([]byte, 9)
	key[0] = 'R'
	binary.BigEndian.PutUint64(key[1:], uint64(version))
	data, err := db.Get(key)
	if err != nil || len(data) != 12+32+4 {
		return out
	}
	var walk func(nk []byte, root bool)
	walk = func(nk []byte, root bool) {
		rec, ok := readInner(db, nk)
		if !ok {
			return
		}
		if !root {
			out[string(nk)] = rec
		}
		if rec.height > 1 {
			for _, c := range rec.children {
				walk(c, false)
			}
		}
	}
	walk(data[:12], true)
	return out
}

// mergesIntoUntouchedLeft compares the inner nodes of the version just saved with those of the version before.
func mergesIntoUntouchedLeft(prev, cur map[string]innerRec, v int64) int {
	n := 0
	for _, m := range cur {
		if m.version != v {
			continue
		}
		for lk, l := range prev {
			if _, still := cur[lk]; still || len(l.children) >= len(m.children) || l.height != m.height {
				continue
			}
			prefix := true
			for i, c := range l.children {
				if !bytes.Equal(c, m.children[i]) {
					prefix = false
					break
				}
			}
			if prefix {
				n++
			}
		}
	}
	return n
}
