// Adapters: the two real trees behind one interface (spec/VersionedTree.tla, Impl).
package main

import (
	"errors"
	"fmt"

	ics23 "github.com/cosmos/ics23/go"

	bp "github.com/gnolang/gno/tm2/pkg/bptree"
	dbm "github.com/gnolang/gno/tm2/pkg/db"
	"github.com/gnolang/gno/tm2/pkg/iavl"
)

type opt struct {
	Cache int  `json:"cache"`
	Fast  bool `json:"fast"`
}

type kv struct{ k, v []byte }

// reader: the read API common to the working tree and to snapshots.
type reader interface {
	Get(k []byte) ([]byte, error)
	Has(k []byte) (bool, error)
	Size() int64
	GetByIndex(i int64) ([]byte, []byte, error)
	GetWithIndex(k []byte) (int64, []byte, error)
	Range(start, end []byte, asc bool) ([]kv, error)
	Hash() []byte
	Member(k []byte) (*ics23.CommitmentProof, error)
	NonMember(k []byte) (*ics23.CommitmentProof, error)
	Close()
}

type tree interface {
	reader // the working tree (Hash = WorkingHash; proofs: last committed version)
	Set(k, v []byte) (bool, error)
	Remove(k []byte) ([]byte, bool, error)
	SaveVersion() ([]byte, int64, error)
	Rollback()
	LoadVersion(v int64) (int64, error)
	Prune(to int64) error
	Snapshot(v int64) (reader, error)
	GetVersioned(k []byte, v int64) ([]byte, error)
	Version() int64
	AvailableVersions() []int
	VersionExists(v int64) bool
	SavedHash() []byte
	// ExportTo exports version v and imports it into a fresh tree on db
	ExportTo(v int64, db dbm.DB, o opt) (tree, error)
	Spec() *ics23.ProofSpec
	Height() int // of the working tree (coverage statistics only)
	// VersionedProof: the tree's own "proof for key at version" entry point (existence or non-existence)
	VersionedProof(k []byte, v int64) (*ics23.CommitmentProof, error)
}

func drain(it dbm.Iterator) ([]kv, error) {
	var out []kv
	defer it.Close()
	for ; it.Valid(); it.Next() {
		k, v := it.Key(), it.Value()
		if err := it.Error(); err != nil {
			return out, err
		}
		out = append(out, kv{k, v})
	}
	return out, it.Error()
}

// ------------------------------------------------------------------ bptree

type bpTree struct {
	t *bp.MutableTree
}

type bpSnap struct{ t *bp.ImmutableTree }

func openBp(db dbm.DB, o opt) (tree, error) {
	t := bp.NewMutableTreeWithDB(db, o.Cache, bp.NewNopLogger(), bp.FastIndexOption(o.Fast))
	if _, err := t.Load(); err != nil {
		return nil, err
	}
	return &bpTree{t}, nil
}

func (b *bpTree) Get(k []byte) ([]byte, error) { return b.t.Get(k) }
func (b *bpTree) Has(k []byte) (bool, error)   { return b.t.Has(k) }
func (b *bpTree) Size() int64                  { return b.t.Size() }
func (b *bpTree) GetByIndex(i int64) ([]byte, []byte, error) {
	return b.t.GetByIndex(i)
}
func (b *bpTree) GetWithIndex(k []byte) (int64, []byte, error) { return b.t.GetWithIndex(k) }
func (b *bpTree) Range(s, e []byte, asc bool) ([]kv, error) {
	it, err := b.t.Iterator(s, e, asc)
	if err != nil {
		return nil, err
	}
	return drain(it)
}
func (b *bpTree) Hash() []byte      { return b.t.WorkingHash() }
func (b *bpTree) SavedHash() []byte { return b.t.Hash() }
func (b *bpTree) Member(k []byte) (*ics23.CommitmentProof, error) {
	return b.t.GetMembershipProof(k)
}
func (b *bpTree) NonMember(k []byte) (*ics23.CommitmentProof, error) {
	return b.t.GetNonMembershipProof(k)
}
func (b *bpTree) Close()                                { b.t.Close() }
func (b *bpTree) Set(k, v []byte) (bool, error)         { return b.t.Set(k, v) }
func (b *bpTree) Remove(k []byte) ([]byte, bool, error) { return b.t.Remove(k) }
func (b *bpTree) SaveVersion() ([]byte, int64, error)   { return b.t.SaveVersion() }
func (b *bpTree) Rollback()                             { b.t.Rollback() }
func (b *bpTree) LoadVersion(v int64) (int64, error)    { return b.t.LoadVersion(v) }
func (b *bpTree) Prune(to int64) error                  { return b.t.PruneVersionsTo(to) }
func (b *bpTree) Snapshot(v int64) (reader, error) {
	im, err := b.t.GetImmutable(v)
	if err != nil {
		return nil, err
	}
	return &bpSnap{im}, nil
}
func (b *bpTree) GetVersioned(k []byte, v int64) ([]byte, error) { return b.t.GetVersioned(k, v) }
func (b *bpTree) Version() int64                                 { return b.t.Version() }
func (b *bpTree) AvailableVersions() []int                       { return b.t.AvailableVersions() }
func (b *bpTree) VersionExists(v int64) bool                     { return b.t.VersionExists(v) }
func (b *bpTree) Spec() *ics23.ProofSpec                         { return bp.BptreeSpec }
func (b *bpTree) VersionedProof(k []byte, v int64) (*ics23.CommitmentProof, error) {
	im, err := b.t.GetImmutable(v)
	if err != nil {
		return nil, err
	}
	defer im.Close()
	if has, err := im.Has(k); err != nil {
		return nil, err
	} else if has {
		return im.GetMembershipProof(k)
	}
	return im.GetNonMembershipProof(k)
}
func (b *bpTree) Height() int { return int(b.t.Height()) }

func (b *bpTree) ExportTo(v int64, db dbm.DB, o opt) (tree, error) {
	im, err := b.t.GetImmutable(v)
	if err != nil {
		return nil, err
	}
	defer im.Close()
	ex, err := im.Export(nil) // nil nodeDB: values resolve through the snapshot's committed-value resolver
	if err != nil {
		return nil, err
	}
	defer ex.Close()
	nt := bp.NewMutableTreeWithDB(db, o.Cache, bp.NewNopLogger(), bp.FastIndexOption(o.Fast))
	if _, err := nt.Load(); err != nil {
		return nil, err
	}
	imp, err := nt.Import(v)
	if err != nil {
		return nil, err
	}
	defer imp.Close()
	for {
		n, err := ex.Next()
		if errors.Is(err, bp.ErrExportDone) {
			break
		}
		if err != nil {
			return nil, err
		}
		if err := imp.Add(n); err != nil {
			return nil, err
		}
	}
	if err := imp.Commit(); err != nil {
		return nil, err
	}
	// the importing handle goes on as the live tree after a Load (index maintenance as at start-up)
	if _, err := nt.Load(); err != nil {
		return nil, err
	}
	return &bpTree{nt}, nil
}

func (s *bpSnap) Get(k []byte) ([]byte, error) { return s.t.Get(k) }
func (s *bpSnap) Has(k []byte) (bool, error)   { return s.t.Has(k) }
func (s *bpSnap) Size() int64                  { return s.t.Size() }
func (s *bpSnap) GetByIndex(i int64) ([]byte, []byte, error) {
	return s.t.GetByIndex(i)
}
func (s *bpSnap) GetWithIndex(k []byte) (int64, []byte, error) { return s.t.GetWithIndex(k) }
func (s *bpSnap) Range(st, e []byte, asc bool) ([]kv, error) {
	it, err := s.t.Iterator(st, e, asc)
	if err != nil {
		return nil, err
	}
	return drain(it)
}
func (s *bpSnap) Hash() []byte { return s.t.Hash() }
func (s *bpSnap) Member(k []byte) (*ics23.CommitmentProof, error) {
	return s.t.GetMembershipProof(k)
}
func (s *bpSnap) NonMember(k []byte) (*ics23.CommitmentProof, error) {
	return s.t.GetNonMembershipProof(k)
}
func (s *bpSnap) Close() { s.t.Close() }

// ------------------------------------------------------------------ iavl

type iaTree struct {
	t *iavl.MutableTree
}
type iaSnap struct{ t *iavl.ImmutableTree }

func openIavl(db dbm.DB, o opt) (tree, error) {
	t := iavl.NewMutableTree(db, o.Cache, !o.Fast, iavl.NewNopLogger())
	if _, err := t.Load(); err != nil {
		return nil, err
	}
	return &iaTree{t}, nil
}

func (b *iaTree) Get(k []byte) ([]byte, error) { return b.t.Get(k) }
func (b *iaTree) Has(k []byte) (bool, error)   { return b.t.Has(k) }
func (b *iaTree) Size() int64                  { return b.t.Size() }
func (b *iaTree) GetByIndex(i int64) ([]byte, []byte, error) {
	return b.t.GetByIndex(i)
}
func (b *iaTree) GetWithIndex(k []byte) (int64, []byte, error) { return b.t.GetWithIndex(k) }
func (b *iaTree) Range(s, e []byte, asc bool) ([]kv, error) {
	it, err := b.t.Iterator(s, e, asc)
	if err != nil {
		return nil, err
	}
	return drain(it)
}
func (b *iaTree) Hash() []byte      { return b.t.WorkingHash() }
func (b *iaTree) SavedHash() []byte { return b.t.Hash() }
func (b *iaTree) lastSaved() (*iavl.ImmutableTree, error) {
	if b.t.Version() == 0 {
		return nil, fmt.Errorf("no committed version")
	}
	return b.t.GetImmutable(b.t.Version())
}
func (b *iaTree) Member(k []byte) (*ics23.CommitmentProof, error) {
	im, err := b.lastSaved()
	if err != nil {
		return nil, err
	}
	return im.GetMembershipProof(k)
}
func (b *iaTree) NonMember(k []byte) (*ics23.CommitmentProof, error) {
	im, err := b.lastSaved()
	if err != nil {
		return nil, err
	}
	return im.GetNonMembershipProof(k)
}
func (b *iaTree) Close()                                { b.t.Close() }
func (b *iaTree) Set(k, v []byte) (bool, error)         { return b.t.Set(k, v) }
func (b *iaTree) Remove(k []byte) ([]byte, bool, error) { return b.t.Remove(k) }
func (b *iaTree) SaveVersion() ([]byte, int64, error)   { return b.t.SaveVersion() }
func (b *iaTree) Rollback()                             { b.t.Rollback() }
func (b *iaTree) LoadVersion(v int64) (int64, error)    { return b.t.LoadVersion(v) }
func (b *iaTree) Prune(to int64) error                  { return b.t.DeleteVersionsTo(to) }
func (b *iaTree) Snapshot(v int64) (reader, error) {
	im, err := b.t.GetImmutable(v)
	if err != nil {
		return nil, err
	}
	return &iaSnap{im}, nil
}
func (b *iaTree) GetVersioned(k []byte, v int64) ([]byte, error) { return b.t.GetVersioned(k, v) }
func (b *iaTree) Version() int64                                 { return b.t.Version() }

// AvailableVersions: iavl reports [0] for a DB without versions (first = latest = 0, both ends
// inclusive); 0 is no version (VersionExists(0) is false), it is dropped here (named deviation).
func (b *iaTree) AvailableVersions() []int {
	var out []int
	for _, v := range b.t.AvailableVersions() {
		if v != 0 {
			out = append(out, v)
		}
	}
	return out
}
func (b *iaTree) VersionExists(v int64) bool { return b.t.VersionExists(v) }
func (b *iaTree) Spec() *ics23.ProofSpec     { return ics23.IavlSpec }
func (b *iaTree) VersionedProof(k []byte, v int64) (*ics23.CommitmentProof, error) {
	return b.t.GetVersionedProof(k, v)
}
func (b *iaTree) Height() int { return int(b.t.Height()) }

func (b *iaTree) ExportTo(v int64, db dbm.DB, o opt) (tree, error) {
	im, err := b.t.GetImmutable(v)
	if err != nil {
		return nil, err
	}
	ex, err := im.Export()
	if err != nil {
		return nil, err
	}
	defer ex.Close()
	nt := iavl.NewMutableTree(db, o.Cache, !o.Fast, iavl.NewNopLogger())
	if _, err := nt.Load(); err != nil {
		return nil, err
	}
	imp, err := nt.Import(v)
	if err != nil {
		return nil, err
	}
	defer imp.Close()
	for {
		n, err := ex.Next()
		if errors.Is(err, iavl.ErrExportDone) {
			break
		}
		if err != nil {
			return nil, err
		}
		if err := imp.Add(n); err != nil {
			return nil, err
		}
	}
	if err := imp.Commit(); err != nil {
		return nil, err
	}
	if _, err := nt.Load(); err != nil {
		return nil, err
	}
	return &iaTree{nt}, nil
}

func (s *iaSnap) Get(k []byte) ([]byte, error) { return s.t.Get(k) }
func (s *iaSnap) Has(k []byte) (bool, error)   { return s.t.Has(k) }
func (s *iaSnap) Size() int64                  { return s.t.Size() }
func (s *iaSnap) GetByIndex(i int64) ([]byte, []byte, error) {
	return s.t.GetByIndex(i)
}
func (s *iaSnap) GetWithIndex(k []byte) (int64, []byte, error) { return s.t.GetWithIndex(k) }
func (s *iaSnap) Range(st, e []byte, asc bool) ([]kv, error) {
	it, err := s.t.Iterator(st, e, asc)
	if err != nil {
		return nil, err
	}
	return drain(it)
}
func (s *iaSnap) Hash() []byte { return s.t.Hash() }
func (s *iaSnap) Member(k []byte) (*ics23.CommitmentProof, error) {
	return s.t.GetMembershipProof(k)
}
func (s *iaSnap) NonMember(k []byte) (*ics23.CommitmentProof, error) {
	return s.t.GetNonMembershipProof(k)
}
func (s *iaSnap) Close() {}

// freshSnapshot: version v through a brand-new handle on the same DB (no node cache, no fast index, nothing loaded)
func freshSnapshot(impl string, db dbm.DB, v int64) (reader, func(), error) {
	switch impl {
	case "bptree":
		t := bp.NewMutableTreeWithDB(db, 0, bp.NewNopLogger())
		im, err := t.GetImmutable(v)
		if err != nil {
			t.Close()
			return nil, nil, err
		}
		return &bpSnap{im}, func() { im.Close(); t.Close() }, nil
	case "iavl":
		t := iavl.NewMutableTree(db, 0, true, iavl.NewNopLogger())
		im, err := t.GetImmutable(v)
		if err != nil {
			return nil, nil, err
		}
		return &iaSnap{im}, func() {}, nil
	}
	return nil, nil, fmt.Errorf("unknown impl %q", impl)
}

func openTree(impl string, db dbm.DB, o opt) (tree, error) {
	switch impl {
	case "bptree":
		return openBp(db, o)
	case "iavl":
		return openIavl(db, o)
	}
	return nil, fmt.Errorf("unknown impl %q", impl)
}
