// C25, part "tree" of spec/MerkleProof.tla: every case TLC enumerated over key sets of <= 5-6 keys
// (a present / absent probe key, one mutation class of the honest membership / non-membership
// proof, exp = the verdict of the abstract ics23-style verifier) is rebuilt on a real tree holding
// exactly that key set, and the verdict of ics23.VerifyMembership / VerifyNonMembership with the
// tree's ProofSpec is compared with exp.
package main

import (
	"fmt"
	"sort"

	ics23 "github.com/cosmos/ics23/go"

	"github.com/gnolang/gno/tm2/pkg/db/memdb"

	"verifharness/mbt"
)

type builtTree struct {
	t    tree
	snap reader
	root []byte
}

func (e *env) buildSet(present []int) (*builtTree, error) {
	t, err := openTree(e.cfg.Impl, memdb.NewMemDB(), opt{Cache: e.v.Cache, Fast: e.v.Fast})
	if err != nil {
		return nil, err
	}
	for _, k := range present {
		if _, err := t.Set(e.keys[k], e.vals[1]); err != nil {
			return nil, err
		}
	}
	if _, _, err := t.SaveVersion(); err != nil {
		return nil, err
	}
	snap, err := t.Snapshot(1)
	if err != nil {
		return nil, err
	}
	return &builtTree{t, snap, snap.Hash()}, nil
}

func setKey(p []int) string { return fmt.Sprint(p) }

func toggle(p []int, a int) []int {
	var out []int
	found := false
	for _, k := range p {
		if k == a {
			found = true
			continue
		}
		out = append(out, k)
	}
	if !found {
		out = append(out, a)
		sort.Ints(out)
	}
	return out
}

// realStep maps step a (1-based) of the abstract path onto the real path
func realStep(a, n int) int { return (a - 1) % n }

func flipSibling(op *ics23.InnerOp) {
	if len(op.Suffix) > 0 {
		op.Suffix = flip(op.Suffix, len(op.Suffix)*8-1)
	} else {
		op.Prefix = flip(op.Prefix, len(op.Prefix)*8-1)
	}
}

func runTreeCases(f *mbt.Flags, cfg *config, behs [][]mbt.Step) {
	cfg.NoEmpty = true
	reported := map[string]int{}
	var cases, okc, skipped, accepted int
	classes := map[string]bool{}
	for _, v := range cfg.Variants {
		e := newEnv(cfg, v, nil, f.Seed)
		built := map[string]*builtTree{}
		get := func(p []int) *builtTree {
			if b, ok := built[setKey(p)]; ok {
				return b
			}
			b, err := e.buildSet(p)
			if err != nil {
				mbt.Die("building the tree %v: %v", p, err)
			}
			built[setKey(p)] = b
			return b
		}
		for _, beh := range behs {
			for _, c := range beh {
				P := ints(c["P"])
				sort.Ints(P)
				k, a, b := c.Int("k"), c.Int("a"), c.Int("b")
				kind, cls, exp := c.Str("kind"), c.Str("cls"), c.Bool("exp")
				classes[kind+":"+cls] = true
				if exp {
					accepted++
				}
				bt := get(P)
				spec := bt.t.Spec()
				root := bt.root
				if cls == "root" {
					alt := toggle(P, a)
					if len(alt) == 0 {
						skipped++ // the root of the empty tree: implementation specific
						continue
					}
					root = get(alt).root
				}
				key, v1, v2 := e.keys[k], e.vals[1], e.vals[2]
				member := func(x int) *ics23.CommitmentProof {
					p, err := bt.snap.Member(e.keys[x])
					if err != nil {
						mbt.Die("no membership proof for the present key %d of %v: %v", x, P, err)
					}
					return p
				}
				pred, succ := func(x int) int {
					i := sort.SearchInts(P, x)
					if i == 0 {
						return 0
					}
					return P[i-1]
				}, func(x int) int {
					i := sort.SearchInts(P, x+1)
					if i == len(P) {
						return 0
					}
					return P[i]
				}
				existOrNil := func(x int) *ics23.ExistenceProof {
					if x == 0 {
						return nil
					}
					return cloneProof(member(x)).GetExist()
				}
				var got bool
				skip := false
				if kind == "member" {
					q := cloneProof(member(k))
					path := q.GetExist().Path
					switch cls {
					case "none":
						got = verM(spec, root, q, key, v1)
					case "value":
						got = verM(spec, root, q, key, v2)
					case "key":
						got = verM(spec, root, q, e.keys[a], v1)
					case "proofkey":
						q.GetExist().Key = e.keys[a]
						got = verM(spec, root, q, e.keys[a], v1)
					case "root":
						got = verM(spec, root, q, key, v1)
					case "asnonmember":
						got = verN(spec, root, q, key)
					case "stepsib":
						flipSibling(path[realStep(a, len(path))])
						got = verM(spec, root, q, key, v1)
					case "stepside":
						if cfg.Impl != "bptree" {
							skip = true
							break
						}
						op := path[realStep(a, len(path))]
						if len(op.Suffix) > 0 {
							op.Prefix, op.Suffix = append(append([]byte{}, op.Prefix...), op.Suffix...), nil
						} else {
							op.Prefix, op.Suffix = op.Prefix[:1], append([]byte{}, op.Prefix[1:]...)
						}
						got = verM(spec, root, q, key, v1)
					case "stepdrop":
						i := realStep(a, len(path))
						q.GetExist().Path = append(path[:i:i], path[i+1:]...)
						got = verM(spec, root, q, key, v1)
					case "stepdup":
						i := realStep(a, len(path))
						d := append([]*ics23.InnerOp{}, path[:i+1]...)
						q.GetExist().Path = append(d, path[i:]...)
						got = verM(spec, root, q, key, v1)
					default:
						mbt.Die("unknown member class %q", cls)
					}
				} else {
					var q *ics23.CommitmentProof
					if cls == "skip" {
						q = &ics23.CommitmentProof{Proof: &ics23.CommitmentProof_Nonexist{Nonexist: &ics23.NonExistenceProof{
							Key: key, Left: existOrNil(pred(k)), Right: existOrNil(succ(k))}}}
					} else {
						np, err := bt.snap.NonMember(key)
						if err != nil {
							mbt.Die("no non-membership proof for the absent key %d of %v: %v", k, P, err)
						}
						q = cloneProof(np)
					}
					ne := q.GetNonexist()
					switch cls {
					case "none", "skip", "root":
						got = verN(spec, root, q, key)
					case "key":
						got = verN(spec, root, q, e.keys[a])
					case "asmember":
						got = verM(spec, root, q, key, v1)
					case "swap":
						ne.Left, ne.Right = ne.Right, ne.Left
						got = verN(spec, root, q, key)
					case "dropleft":
						ne.Left = nil
						got = verN(spec, root, q, key)
					case "dropright":
						ne.Right = nil
						got = verN(spec, root, q, key)
					case "leftfar":
						ne.Left = existOrNil(pred(pred(k)))
						got = verN(spec, root, q, key)
					case "rightfar":
						r := succ(k)
						if r != 0 {
							r = succ(r)
						}
						ne.Right = existOrNil(r)
						got = verN(spec, root, q, key)
					case "nstepsib":
						ex := ne.Left
						if b == 1 {
							ex = ne.Right
						}
						flipSibling(ex.Path[realStep(a, len(ex.Path))])
						got = verN(spec, root, q, key)
					default:
						mbt.Die("unknown non-member class %q", cls)
					}
				}
				if skip {
					skipped++
					continue
				}
				cases++
				if got == exp {
					okc++
					continue
				}
				word := "rejected-but-the-spec-accepts"
				if got {
					word = "accepted-but-the-spec-rejects"
				}
				rk := fmt.Sprintf("%s:tree:%s:%s:%s:%s", cfg.Prop, cfg.Impl, kind, cls, word)
				reported[rk]++
				if reported[rk] <= 2 {
					c2 := *cfg
					c2.Variants = []variant{v}
					mbt.Mismatch(rk, fmt.Sprintf("[%s cache=%d fast=%v] tree with keys %v, probe key %d (%s), class %s(a=%d, b=%d): real verdict %v, spec %v",
						cfg.Impl, v.Cache, v.Fast, P, k, kind, cls, a, b, got, exp),
						map[string]any{"cfg": c2, "mode": "treecases", "steps": []mbt.Step{c}})
				}
			}
		}
		for _, b := range built {
			b.snap.Close()
			b.t.Close()
		}
	}
	if len(behs) > 0 && len(behs[0]) > 2 {
		mbt.Sample(behs[0][:3])
	}
	mbt.Summary(map[string]any{"cases": cases, "replays": cases, "cases_ok": okc, "skipped": skipped, "spec_accepts": accepted, "classes": len(classes)})
	mbt.Flush()
}
