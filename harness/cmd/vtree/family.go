// C24: families of behaviours that share the hash-relevant script (script mode of
// spec/VersionedTree.tla) and differ in the hash-neutral actions. Every member is replayed on
// a fresh DB (contents and within-behaviour hash identities are checked as usual); then the
// hashes recorded at equal positions (history key of the working tree / version number) are
// compared byte for byte across the members.
package main

import (
	"bytes"
	"fmt"
	"runtime"
	"sort"
	"sync"

	"verifharness/mbt"
)

type member struct {
	beh        []mbt.Step
	v          variant
	trace      []hrec
	fail       *failure
	leftMerges int
}

func famOf(beh []mbt.Step) int {
	if len(beh) == 0 {
		return 0
	}
	return beh[0].Int("fam")
}

func runFamilies(f *mbt.Flags, cfg *config, behs [][]mbt.Step) {
	cfg.Hashes = true
	var ms []*member
	for i, b := range behs {
		v := cfg.Variants[i%len(cfg.Variants)]
		ms = append(ms, &member{beh: b, v: v})
	}
	var wg sync.WaitGroup
	nw := runtime.NumCPU()
	var steps, flaky int64
	var mu sync.Mutex
	for w := 0; w < nw; w++ {
		wg.Add(1)
		go func(w int) {
			defer wg.Done()
			for i := w; i < len(ms); i += nw {
				m := ms[i]
				seed := f.Seed*1000003 + int64(i)
				if cfg.Seed != 0 {
					seed = cfg.Seed
				}
				fl, e := replay(cfg, m.v, m.beh, seed, nil)
				m.v = e.v
				if fl != nil {
					fl2, _ := replay(cfg, m.v, m.beh, seed, nil)
					if fl2 == nil || fl2.key != fl.key {
						mbt.Emit(map[string]any{"kind": "flaky", "variant": m.v, "first": fl.String(), "second": fl2.String()})
						mu.Lock()
						flaky++
						mu.Unlock()
						fl = nil
					}
				}
				m.fail, m.trace, m.leftMerges = fl, e.trace, e.leftMerges
				mu.Lock()
				steps += int64(len(m.beh))
				mu.Unlock()
			}
		}(w)
	}
	wg.Wait()
	reported := map[string]int{}
	okc, leftMerges := 0, 0
	for _, m := range ms {
		leftMerges += m.leftMerges
	}
	for mi, m := range ms {
		if m.fail == nil {
			okc++
			continue
		}
		reported[m.fail.key]++
		if reported[m.fail.key] <= 2 {
			c := *cfg
			c.Variants = []variant{m.v}
			c.Variants[0].Init = false
			c.Seed = f.Seed*1000003 + int64(mi)
			mbt.Mismatch(m.fail.key, fmt.Sprintf("[%s %s cache=%d fast=%v] step %d: %s", cfg.Impl, m.v.DB, m.v.Cache, m.v.Fast, m.fail.step, m.fail.what),
				map[string]any{"cfg": c, "steps": slim(m.beh, m.fail.step)})
		}
	}
	// cross-member comparison
	type ref struct {
		m    *member
		hash []byte
		step int
	}
	fams := map[int][]*member{}
	for _, m := range ms {
		if m.fail == nil {
			fams[famOf(m.beh)] = append(fams[famOf(m.beh)], m)
		}
	}
	var ids []int
	for id := range fams {
		ids = append(ids, id)
	}
	sort.Ints(ids)
	positions, compared, minMembers := 0, 0, 1<<30
	for _, id := range ids {
		seen := map[string]ref{}
		if len(fams[id]) < minMembers {
			minMembers = len(fams[id])
		}
		for _, m := range fams[id] {
			mine := map[string]bool{}
			for _, h := range m.trace {
				r, ok := seen[h.Pos]
				if !ok {
					seen[h.Pos] = ref{m, h.Hash, h.Step}
					positions++
					continue
				}
				if r.m != m && !mine[h.Pos] {
					compared++
					mine[h.Pos] = true
				}
				if bytes.Equal(r.hash, h.Hash) {
					continue
				}
				key := cfg.Prop + ":family:hash-differs-across-configurations"
				reported[key]++
				if reported[key] <= 2 {
					c := *cfg
					c.Variants = []variant{r.m.v, m.v}
					mbt.Mismatch(key, fmt.Sprintf("family %d, position %s: hash %x in the member run with [%s cache=%d fast=%v] (step %d), %x with [%s cache=%d fast=%v] (step %d); same hash-relevant script",
						id, clipS(h.Pos), r.hash, r.m.v.DB, r.m.v.Cache, r.m.v.Fast, r.step, h.Hash, m.v.DB, m.v.Cache, m.v.Fast, h.Step),
						map[string]any{"cfg": c, "family": [][]mbt.Step{slim(r.m.beh, r.step), slim(m.beh, h.Step)}})
				}
				break
			}
		}
	}
	if len(ids) == 0 {
		minMembers = 0
	}
	for i := 0; i < len(behs) && i < 2; i++ {
		mbt.Sample(brief(behs[i]))
	}
	mbt.Summary(map[string]any{"behaviours": len(behs), "replays": len(ms), "replays_ok": okc, "steps": steps, "flaky": flaky,
		"inner_merges_into_untouched_left": leftMerges, "families": len(ids), "positions": positions, "cross_comparisons": compared, "min_members": minMembers})
	mbt.Flush()
}

func clipS(s string) string {
	if len(s) > 160 {
		return s[:160] + "..."
	}
	return s
}
