package main

import "verifharness/mbt"

func runProofs(f *mbt.Flags, cfg *config, behs [][]mbt.Step) {}
