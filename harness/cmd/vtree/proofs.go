// C25 (tree part), also run by C30: ics23 membership / non-membership proofs on the tree states
// the behaviours of spec/VersionedTree.tla produce. The expected verdict of every case class is
// the one spec/MerkleProof.tla states for its abstract trees (TreeSound / TreeComplete):
//
//	honest membership proof of (k, v in the version)        -> accepted for (k, v) only
//	honest non-membership proof of an absent k              -> accepted for k (and keys of the same gap) only
//	every single-field mutation (key, value, a path step, a neighbour, the root) -> rejected
//
// A proof accepted for a claim that is false in the version is a soundness violation, an honest
// proof that is rejected (or cannot be produced) a completeness violation.
package main

import (
	"bytes"
	"fmt"
	"runtime"
	"sync"

	ics23 "github.com/cosmos/ics23/go"

	"verifharness/mbt"
)

type pstats struct {
	states, member, nonmember, mutations, bitflips, skippedEmpty int64
}

func cloneProof(p *ics23.CommitmentProof) *ics23.CommitmentProof {
	bz, err := p.Marshal()
	if err != nil {
		panic(err)
	}
	q := &ics23.CommitmentProof{}
	if err := q.Unmarshal(bz); err != nil {
		panic(err)
	}
	return q
}

func verM(spec *ics23.ProofSpec, root []byte, p *ics23.CommitmentProof, k, v []byte) (ok bool) {
	if pan, _, _ := mbt.Guard(func() { ok = ics23.VerifyMembership(spec, root, p, k, v) }); pan {
		return false // a panic is reported separately by the caller when it matters
	}
	return ok
}

func verN(spec *ics23.ProofSpec, root []byte, p *ics23.CommitmentProof, k []byte) (ok bool) {
	if pan, _, _ := mbt.Guard(func() { ok = ics23.VerifyNonMembership(spec, root, p, k) }); pan {
		return false
	}
	return ok
}

func flip(b []byte, bit int) []byte {
	c := append([]byte(nil), b...)
	c[bit/8] ^= 1 << uint(bit%8)
	return c
}

// probeState: proofs against reader r (a committed version with contents w and root hash root).
func (e *env) probeState(act string, r reader, root []byte, w []int, who string, ps *pstats) *failure {
	spec := e.t.Spec()
	p := present(w)
	ps.states++
	hasEmpty := func(k int) bool { return k > 0 && len(e.vals[w[k-1]]) == 0 }
	otherRoot := flip(root, e.rng.Intn(len(root)*8))
	for n := 0; n < e.cfg.Proofs; n++ {
		// ---------------- membership
		if len(p) > 0 {
			k := p[e.rng.Intn(len(p))]
			if n == 0 {
				k = p[0]
			} else if n == 1 {
				k = p[len(p)-1]
			}
			key, val := e.keys[k], e.vals[w[k-1]]
			proof, err := r.Member(key)
			if err != nil {
				return e.fail(act, "member:complete", fmt.Sprintf("%s: no membership proof for the present key %q: %v", who, key, err))
			}
			if hasEmpty(k) {
				ps.skippedEmpty++ // documented: ics23 cannot verify empty values
			} else {
				ps.member++
				if !verM(spec, root, proof, key, val) {
					return e.fail(act, "member:complete", fmt.Sprintf("%s: the membership proof of (%q, value id %d) does not verify against the version's root %x", who, key, w[k-1], root))
				}
				if !verM(spec, root, cloneProof(proof), key, val) {
					return e.fail(act, "member:complete", fmt.Sprintf("%s: the membership proof of %q does not verify after a marshal / unmarshal round trip", who, key))
				}
				bad := func(class string, ok bool) *failure {
					ps.mutations++
					if ok {
						return e.fail(act, "member:sound:"+class, fmt.Sprintf("%s: membership proof of (%q, value id %d) is accepted with %s", who, key, w[k-1], class))
					}
					return nil
				}
				for vi := 1; vi < len(e.vals); vi++ {
					if vi != w[k-1] {
						if f := bad(fmt.Sprintf("another value (id %d)", vi), verM(spec, root, proof, key, e.vals[vi])); f != nil {
							return f
						}
					}
				}
				if f := bad("the value extended by one byte", verM(spec, root, proof, key, append(append([]byte{}, val...), 0))); f != nil {
					return f
				}
				ok2 := 1 + e.rng.Intn(e.cfg.NK)
				if ok2 != k {
					if f := bad(fmt.Sprintf("another key (%q)", e.keys[ok2]), verM(spec, root, proof, e.keys[ok2], val)); f != nil {
						return f
					}
				}
				if f := bad("another root", verM(spec, otherRoot, proof, key, val)); f != nil {
					return f
				}
				if f := bad("a non-membership check of the same key", verN(spec, root, proof, key)); f != nil {
					return f
				}
				// the claim inside the proof altered
				q := cloneProof(proof)
				q.GetExist().Value = e.vals[w[k-1]%e.cfg.NV+1]
				if !bytes.Equal(q.GetExist().Value, val) {
					if f := bad("the value inside the proof replaced (claim: that value)", verM(spec, root, q, key, q.GetExist().Value)); f != nil {
						return f
					}
				}
				// every path step: one bit of its prefix or suffix
				path := proof.GetExist().Path
				for i := range path {
					q := cloneProof(proof)
					op := q.GetExist().Path[i]
					if len(op.Suffix) > 0 && e.rng.Intn(2) == 0 {
						op.Suffix = flip(op.Suffix, e.rng.Intn(len(op.Suffix)*8))
					} else {
						op.Prefix = flip(op.Prefix, e.rng.Intn(len(op.Prefix)*8))
					}
					if f := bad(fmt.Sprintf("one bit of path step %d flipped", i), verM(spec, root, q, key, val)); f != nil {
						return f
					}
				}
				if len(path) > 0 {
					q := cloneProof(proof)
					i := e.rng.Intn(len(path))
					q.GetExist().Path = append(q.GetExist().Path[:i], q.GetExist().Path[i+1:]...)
					if f := bad(fmt.Sprintf("path step %d dropped", i), verM(spec, root, q, key, val)); f != nil {
						return f
					}
					q = cloneProof(proof)
					q.GetExist().Path = append(q.GetExist().Path, q.GetExist().Path[len(path)-1])
					if f := bad("the last path step repeated", verM(spec, root, q, key, val)); f != nil {
						return f
					}
				}
				q = cloneProof(proof)
				if lp := q.GetExist().Leaf.Prefix; len(lp) > 0 {
					q.GetExist().Leaf.Prefix = flip(lp, 0)
				} else {
					q.GetExist().Leaf.Prefix = []byte{5}
				}
				if f := bad("the leaf prefix altered", verM(spec, root, q, key, val)); f != nil {
					return f
				}
				// single-bit flips of the marshalled proof (thorough)
				if f := e.bitflips(act, who, spec, root, proof, key, val, true, ps); f != nil {
					return f
				}
			}
			// a non-membership proof for a present key must not be produced
			if np, err := r.NonMember(key); err == nil && verN(spec, root, np, key) {
				return e.fail(act, "nonmember:sound:present-key", fmt.Sprintf("%s: a non-membership proof for the present key %q is produced and verifies", who, key))
			}
		}
		// ---------------- non-membership
		var absent []int
		for k := 1; k <= e.cfg.NK; k++ {
			if w[k-1] == 0 {
				absent = append(absent, k)
			}
		}
		if len(absent) == 0 || len(p) == 0 {
			continue
		}
		k := absent[e.rng.Intn(len(absent))]
		switch n {
		case 0:
			k = absent[0] // before the first key, if any
		case 1:
			k = absent[len(absent)-1] // after the last
		}
		key := e.keys[k]
		i := rank(p, k) // p[i-1] < k < p[i]
		left, right := 0, 0
		if i > 0 {
			left = p[i-1]
		}
		if i < len(p) {
			right = p[i]
		}
		proof, err := r.NonMember(key)
		if err != nil {
			return e.fail(act, "nonmember:complete", fmt.Sprintf("%s: no non-membership proof for the absent key %q: %v", who, key, err))
		}
		if mp, err := r.Member(key); err == nil && mp.GetExist() != nil && verM(spec, root, mp, key, mp.GetExist().Value) {
			return e.fail(act, "member:sound:absent-key", fmt.Sprintf("%s: a membership proof for the absent key %q is produced and verifies", who, key))
		}
		if hasEmpty(left) || hasEmpty(right) {
			ps.skippedEmpty++
			continue
		}
		ps.nonmember++
		if !verN(spec, root, proof, key) {
			return e.fail(act, "nonmember:complete", fmt.Sprintf("%s: the non-membership proof of %q (between keys %d and %d of the version; 0 = none) does not verify against the root %x", who, key, left, right, root))
		}
		if !verN(spec, root, cloneProof(proof), key) {
			return e.fail(act, "nonmember:complete", fmt.Sprintf("%s: the non-membership proof of %q does not verify after a marshal / unmarshal round trip", who, key))
		}
		bad := func(class string, ok bool) *failure {
			ps.mutations++
			if ok {
				return e.fail(act, "nonmember:sound:"+class, fmt.Sprintf("%s: non-membership proof of %q (gap between keys %d and %d) is accepted with %s", who, key, left, right, class))
			}
			return nil
		}
		// the proof shows absence for the keys of its gap only
		for _, o := range []int{left, right, left - 1, right + 1, 1 + e.rng.Intn(e.cfg.NK)} {
			if o < 1 || o > e.cfg.NK {
				continue
			}
			inGap := (left == 0 || o > left) && (right == 0 || o < right)
			got := verN(spec, root, proof, e.keys[o])
			if !inGap {
				if f := bad(fmt.Sprintf("key %d (%q), which is outside the gap", o, e.keys[o]), got); f != nil {
					return f
				}
			} else if !got {
				return e.fail(act, "nonmember:complete", fmt.Sprintf("%s: the gap proof between keys %d and %d does not verify for key %d inside the gap", who, left, right, o))
			}
		}
		if f := bad("another root", verN(spec, otherRoot, proof, key)); f != nil {
			return f
		}
		if f := bad("a membership check", verM(spec, root, proof, key, e.vals[e.cfg.NV])); f != nil {
			return f
		}
		ne := proof.GetNonexist()
		// wrong neighbour: the left (right) neighbour replaced by the key before (after) it: the gap would hide a present key
		if i > 1 {
			if lp, err := r.Member(e.keys[p[i-2]]); err == nil && !hasEmpty(p[i-2]) {
				q := cloneProof(proof)
				q.GetNonexist().Left = cloneProof(lp).GetExist()
				if f := bad("the left neighbour replaced by the key before it", verN(spec, root, q, key)); f != nil {
					return f
				}
			}
		}
		if i+1 < len(p) {
			if rp, err := r.Member(e.keys[p[i+1]]); err == nil && !hasEmpty(p[i+1]) {
				q := cloneProof(proof)
				q.GetNonexist().Right = cloneProof(rp).GetExist()
				if f := bad("the right neighbour replaced by the key after it", verN(spec, root, q, key)); f != nil {
					return f
				}
			}
		}
		if ne.Left != nil && ne.Right != nil {
			q := cloneProof(proof)
			q.GetNonexist().Left = nil
			if f := bad("the left neighbour dropped", verN(spec, root, q, key)); f != nil {
				return f
			}
			q = cloneProof(proof)
			q.GetNonexist().Right = nil
			if f := bad("the right neighbour dropped", verN(spec, root, q, key)); f != nil {
				return f
			}
			q = cloneProof(proof)
			q.GetNonexist().Left, q.GetNonexist().Right = q.GetNonexist().Right, q.GetNonexist().Left
			if f := bad("the neighbours swapped", verN(spec, root, q, key)); f != nil {
				return f
			}
		}
		for side, ex := range []*ics23.ExistenceProof{ne.Left, ne.Right} {
			if ex == nil || len(ex.Path) == 0 {
				continue
			}
			q := cloneProof(proof)
			qe := q.GetNonexist().Left
			if side == 1 {
				qe = q.GetNonexist().Right
			}
			j := e.rng.Intn(len(qe.Path))
			op := qe.Path[j]
			if len(op.Suffix) > 0 && e.rng.Intn(2) == 0 {
				op.Suffix = flip(op.Suffix, e.rng.Intn(len(op.Suffix)*8))
			} else {
				op.Prefix = flip(op.Prefix, e.rng.Intn(len(op.Prefix)*8))
			}
			if f := bad(fmt.Sprintf("one bit of path step %d of neighbour %d flipped", j, side), verN(spec, root, q, key)); f != nil {
				return f
			}
			q = cloneProof(proof)
			qe = q.GetNonexist().Left
			if side == 1 {
				qe = q.GetNonexist().Right
			}
			qe.Value = append(append([]byte{}, qe.Value...), 1)
			if f := bad(fmt.Sprintf("the value of neighbour %d altered", side), verN(spec, root, q, key)); f != nil {
				return f
			}
		}
		if f := e.bitflips(act, who, spec, root, proof, key, nil, false, ps); f != nil {
			return f
		}
	}
	return nil
}

// bitflips: single-bit mutations of the marshalled proof. A flipped proof that decodes to the
// same proof (ignoring the NonExistenceProof.Key field, which ics23 does not read) is no
// mutation; every other one must be rejected.
func (e *env) bitflips(act, who string, spec *ics23.ProofSpec, root []byte, proof *ics23.CommitmentProof, key, val []byte, member bool, ps *pstats) *failure {
	if e.cfg.BitFlips == 0 {
		return nil
	}
	bz, err := proof.Marshal()
	if err != nil {
		return nil
	}
	norm := func(p *ics23.CommitmentProof) []byte {
		c := cloneProof(p)
		if ne := c.GetNonexist(); ne != nil {
			ne.Key = nil
		}
		out, _ := c.Marshal()
		return out
	}
	ref := norm(proof)
	for n := 0; n < e.cfg.BitFlips; n++ {
		fb := flip(bz, e.rng.Intn(len(bz)*8))
		q := &ics23.CommitmentProof{}
		var uerr error
		if pan, _, _ := mbt.Guard(func() { uerr = q.Unmarshal(fb) }); pan || uerr != nil {
			continue
		}
		same := false
		mbt.Guard(func() { same = bytes.Equal(norm(q), ref) })
		if same {
			continue
		}
		ps.bitflips++
		var ok bool
		if member {
			ok = verM(spec, root, q, key, val)
		} else {
			ok = verN(spec, root, q, key)
		}
		if ok {
			return e.fail(act, "bitflip", fmt.Sprintf("%s: the proof for %q with one bit of its encoding flipped (%x -> %x) decodes to a different proof that is still accepted", who, key, bz, fb))
		}
	}
	return nil
}

func runProofs(f *mbt.Flags, cfg *config, behs [][]mbt.Step) {
	cfg.NoEmpty = true
	if cfg.Proofs == 0 {
		cfg.Proofs = 3
	}
	var mu sync.Mutex
	reported := map[string]int{}
	var total pstats
	var replays, okc, steps, flaky int64
	var wg sync.WaitGroup
	nw := runtime.NumCPU()
	for w := 0; w < nw; w++ {
		wg.Add(1)
		go func(w int) {
			defer wg.Done()
			for i := w; i < len(behs); i += nw {
				for vi, v := range cfg.Variants {
					seed := f.Seed*1000003 + int64(i)*31 + int64(vi)
					if cfg.Seed != 0 {
						seed = cfg.Seed
					}
					run := func(ps *pstats) (*failure, *env) {
						return replay(cfg, v, behs[i], seed, func(e *env, s mbt.Step) *failure {
							if _, ok := s["sv"].([]any); !ok || len(e.lastSv) == 0 {
								return nil
							}
							st := s["st"].(map[string]any)
							avail := ints(st["avail"])
							if len(avail) == 0 {
								return nil
							}
							// the last committed version through the working tree's own proof API ...
							ver := mbt.Step(st).Int("ver")
							if ver > 0 {
								if fl := e.probeState(s.Act(), e.t, e.t.SavedHash(), e.lastSv[ver-1], fmt.Sprintf("committed version %d (through the tree loaded at it)", ver), ps); fl != nil {
									return fl
								}
							}
							// ... and one retained version through a snapshot
							v := avail[e.rng.Intn(len(avail))]
							snap, err := e.t.Snapshot(int64(v))
							if err != nil {
								return e.fail(s.Act(), "GetImmutable", fmt.Sprintf("GetImmutable(%d) failed: %v", v, err))
							}
							defer snap.Close()
							return e.probeState(s.Act(), snap, snap.Hash(), e.lastSv[v-1], fmt.Sprintf("version %d (snapshot)", v), ps)
						})
					}
					var ps pstats
					fl, e := run(&ps)
					mu.Lock()
					replays++
					steps += int64(len(behs[i]))
					total.states += ps.states
					total.member += ps.member
					total.nonmember += ps.nonmember
					total.mutations += ps.mutations
					total.bitflips += ps.bitflips
					total.skippedEmpty += ps.skippedEmpty
					mu.Unlock()
					if fl == nil {
						mu.Lock()
						okc++
						mu.Unlock()
						continue
					}
					var ps2 pstats
					fl2, _ := run(&ps2)
					if fl2 == nil || fl2.key != fl.key {
						mu.Lock()
						flaky++
						mu.Unlock()
						mbt.Emit(map[string]any{"kind": "flaky", "variant": v, "first": fl.String(), "second": fl2.String()})
						continue
					}
					mu.Lock()
					reported[fl.key]++
					first := reported[fl.key] <= 2
					mu.Unlock()
					if first {
						c := *cfg
						c.Variants = []variant{e.v}
						c.Variants[0].Init = false
						c.Seed = seed
						mbt.Mismatch(fl.key, fmt.Sprintf("[%s %s, initially cache=%d fast=%v] step %d: %s", cfg.Impl, e.v.DB, e.v.Cache, e.v.Fast, fl.step, fl.what),
							map[string]any{"cfg": c, "mode": "proofs", "steps": slim(behs[i], fl.step)})
					}
				}
			}
		}(w)
	}
	wg.Wait()
	for i := 0; i < len(behs) && i < 1; i++ {
		mbt.Sample(brief(behs[i]))
	}
	mbt.Summary(map[string]any{"behaviours": len(behs), "replays": replays, "replays_ok": okc, "steps": steps, "flaky": flaky,
		"tree_states_probed": total.states, "membership_proofs": total.member, "nonmembership_proofs": total.nonmember,
		"mutations_rejected": total.mutations, "bitflips_rejected": total.bitflips, "skipped_empty_value": total.skippedEmpty})
	mbt.Flush()
}
