// Driver for C23 / C24 / C30 (spec/VersionedTree.tla): replays TLC behaviours on the real
// bptree.MutableTree / iavl.MutableTree (adapter.go), compares every reply and, after every
// step, every read API of the working tree (and of every retained version on version steps)
// with the ordered map the spec holds. -mode family: C24 cross-configuration hash equality.
// -mode proofs: C25 ics23 proofs on the tree states of the behaviours (proofs.go).
package main

import (
	"bytes"
	"encoding/hex"
	"encoding/json"
	"errors"
	"fmt"
	"math/rand"
	"os"
	"runtime"
	"sort"
	"strings"
	"sync"

	ics23 "github.com/cosmos/ics23/go"

	bp "github.com/gnolang/gno/tm2/pkg/bptree"
	dbm "github.com/gnolang/gno/tm2/pkg/db"
	"github.com/gnolang/gno/tm2/pkg/db/goleveldb"
	"github.com/gnolang/gno/tm2/pkg/db/memdb"

	"verifharness/mbt"
)

type variant struct {
	DB    string `json:"db"`    // memdb | goleveldb
	Cache int    `json:"cache"` // initial options, unless Init
	Fast  bool   `json:"fast"`
	Init  bool   `json:"init"` // take the initial options from the behaviour's Init record
}

type config struct {
	Prop     string    `json:"prop"`
	Impl     string    `json:"impl"`
	NK       int       `json:"nk"`
	NV       int       `json:"nv"`
	MaxVer   int       `json:"maxver"`
	Variants []variant `json:"variants"`
	Hashes   bool      `json:"hashes"`  // verdict on hash identities (C24 / C30)
	NoEmpty  bool      `json:"noempty"` // value 1 is not the empty value (proof runs)
	// full projection check only on the last CheckLast steps of a behaviour (0 = every step):
	// for edge emission, where every proper prefix of a behaviour is a behaviour of its own
	CheckLast   int   `json:"checklast"`
	Proofs      int   `json:"proofs"` // proofs mode: probes per tree state
	BitFlips    int   `json:"bitflips"`
	ProofCheck  bool  `json:"proofcheck"`  // version steps: ics23 proofs of a dense sample of keys at every retained version (verdict)
	FreshHandle bool  `json:"freshhandle"` // after every SaveVersion: hash and contents of the new version through a brand-new handle
	ShapeStats  bool  `json:"shapestats"`  // bptree: count inner merges into an untouched left sibling (coverage only)
	DenseIdx    bool  `json:"denseidx"`    // GetByIndex / GetWithIndex on the same stride as Get (3..7) instead of 4x that
	NoFast      bool  `json:"nofast"`      // open every handle without the fast index / fast storage (C25: not its subject)
	SvSample    int   `json:"svsample"`    // version steps: contents of this many retained versions are swept (0 = all); hashes always of all
	Seed        int64 `json:"seed"`        // replay of a stored case: the seed of its sampled sweeps
}

// ------------------------------------------------------------------ key / value tables
// byte order of key(i) = order of i. Small universes take keys with prefix relations,
// 0x00 / 0xFF bytes; large ones fixed-width numbers with assorted suffixes.
var smallKeys = [][]byte{{0x00}, []byte("a"), {'a', 0x00}, {'a', 0x00, 0x01}, []byte("ab"), []byte("b"), {'b', 0xff}, {0xff}}

func keyTable(nk int) [][]byte {
	t := make([][]byte, nk+1)
	if nk <= len(smallKeys) {
		for i := 1; i <= nk; i++ {
			t[i] = smallKeys[i-1]
		}
		return t
	}
	long := bytes.Repeat([]byte("x"), 90)
	for i := 1; i <= nk; i++ {
		k := []byte(fmt.Sprintf("k%05d", i))
		switch i % 11 {
		case 3:
			k = append(k, 0x00)
		case 5:
			k = append(k, 0xff, 0xff)
		case 7:
			k = append(k, long...)
		case 9:
			k = append(k, '/', 'y')
		}
		t[i] = k
	}
	return t
}

func valTable(nv int, noEmpty bool) [][]byte {
	t := make([][]byte, nv+1)
	for i := 1; i <= nv; i++ {
		switch {
		case i == 1 && !noEmpty:
			t[i] = []byte{} // empty, non-nil
		case i == 3:
			t[i] = bytes.Repeat([]byte{0xab, 0x00, 0xff}, 70)
		default:
			t[i] = []byte(fmt.Sprintf("v%d", i))
		}
	}
	return t
}

// ------------------------------------------------------------------ environment

type failure struct {
	key, what string
	step      int
}

func (f *failure) String() string {
	if f == nil {
		return "<nil>"
	}
	return f.key + " :: " + f.what
}

type env struct {
	cfg     *config
	v       variant
	keys    [][]byte
	vals    [][]byte
	db      dbm.DB
	dirs    []string
	t       tree
	rd      map[int]reader
	rdv     map[int]int
	lastSv  [][]int
	rng     *rand.Rand
	idx     int
	wkHash  map[string][]byte // history key of the working tree -> WorkingHash
	verHash map[int][]byte    // version -> hash
	byHash  map[string]string // hash -> contents (saved versions)
	trace   []hrec            // family mode: hashes by position
	states  int
	maxH    int  // greatest tree height seen
	light   bool // this step: cheap projection only
	cur     opt  // options of the open handle
	dirty   bool // spec: the session had staged writes before this step
	// iavl with fast storage: LoadVersion was called on a session with unsaved writes, whose
	// unsaved fast-node additions / removals it keeps (finding F-C30-1): reads are classified
	pruned, reopenedAfterPrune bool
	drift                      int    // iavl: prunes refused after a restart (see step "Prune")
	prevWk                     string // history key of the working tree after the previous step
	touch                      []int  // key ids around the span of the last write: index reads are compared on all of them
	// replay bookkeeping (vacuity requirement of C30): a Replay was saved idempotently (adoptVer), the session went
	// on without a reload (replayLive) to a NEW version (replaySaved); proofs of keys the replay wrote (replayKeys,
	// key id -> value id) at later versions are proofs through replayed nodes
	inReplay, replayLive, replaySaved bool
	adoptVer                          int
	replayKeys                        map[int]int
	prevAvail                         []int  // the versions the spec held after the previous step
	savedHash                         []byte // what the last successful SaveVersion returned, and for which version
	savedVer                          int
	// stepwise-prune pattern (vacuity requirement of C30): a saved version holding a single key, then an unchanged
	// version, then a version with more keys, then two consecutive prunes that drop one version each
	patStage, pruneRun, stepwisePatterns int
	patPrev                              []int
	shapePrev                            map[string]innerRec
	shapePrevVer                         int
	leftMerges                           int
	adopted, replayProofs, proofsOK      int

	tainted     bool
	taintOnDisk bool // ... and a SaveVersion wrote the stale fast nodes into the DB
}

type hrec struct {
	Pos  string
	Hash []byte
	Step int
}

func (e *env) newDB() (dbm.DB, error) {
	if e.v.DB == "goleveldb" {
		dir, err := os.MkdirTemp("", "vtree-ldb-")
		if err != nil {
			return nil, err
		}
		e.dirs = append(e.dirs, dir)
		return goleveldb.NewGoLevelDB("t", dir)
	}
	return memdb.NewMemDB(), nil
}

func (e *env) cleanup() {
	for _, r := range e.rd {
		r.Close()
	}
	if e.t != nil {
		mbt.Guard(func() { e.t.Close() })
	}
	if e.db != nil {
		mbt.Guard(func() { e.db.Close() })
	}
	for _, d := range e.dirs {
		os.RemoveAll(d)
	}
}

// taintable: the observables the abandoned-session finding shows in (contents and replies), not proofs or hashes
func taintable(what string) bool {
	for _, p := range []string{"working:", "reply", "saved:", "snapshot:", "GetVersioned", "contents:"} {
		if strings.HasPrefix(what, p) {
			return true
		}
	}
	return false
}

func (e *env) fail(act, what, detail string) *failure {
	if e.tainted && taintable(what) {
		what = "fast-storage:LoadVersion-keeps-abandoned-session"
		act = "iavl"
	}
	detail = fmt.Sprintf("[open with cache=%d fast=%v] %s", e.cur.Cache, e.cur.Fast, detail)
	if len(detail) > 1200 {
		detail = detail[:1200] + "..."
	}
	return &failure{key: fmt.Sprintf("%s:%s:%s", e.cfg.Prop, act, what), what: detail, step: e.idx}
}

func (e *env) key(i int) []byte {
	if i <= 0 || i >= len(e.keys) {
		return nil
	}
	return e.keys[i]
}

func (e *env) keyID(k []byte) int {
	i := sort.Search(len(e.keys)-1, func(i int) bool { return bytes.Compare(e.keys[i+1], k) >= 0 }) + 1
	if i < len(e.keys) && bytes.Equal(e.keys[i], k) {
		return i
	}
	return -1
}

// valID: 0 for nil, the value id, -1 for bytes that are no value of the table
func (e *env) valID(v []byte) int {
	if v == nil {
		return 0
	}
	for i := 1; i < len(e.vals); i++ {
		if bytes.Equal(e.vals[i], v) {
			return i
		}
	}
	return -1
}

func ints(v any) []int { return mbt.Ints(v) }

func optOf(v any) opt {
	m, _ := v.(map[string]any)
	var o opt
	if c, ok := m["cache"].(float64); ok {
		o.Cache = int(c)
	}
	o.Fast, _ = m["fast"].(bool)
	return o
}

// ------------------------------------------------------------------ the ordered-map reads, as defined in the spec
// (Present / Rank / ByIndexR / WithIndexR / RangeR of VersionedTree.tla; the explicit read
// actions of the behaviours compare the spec's own replies, so these helpers are bound too)

func present(w []int) []int {
	var p []int
	for i, v := range w {
		if v != 0 {
			p = append(p, i+1)
		}
	}
	return p
}

func rank(p []int, k int) int { return sort.SearchInts(p, k) }

func rangeOf(p []int, s, en int, asc bool) []int {
	var out []int
	for _, k := range p {
		if (s == 0 || k >= s) && (en == 0 || k < en) {
			out = append(out, k)
		}
	}
	if !asc {
		for i, j := 0, len(out)-1; i < j; i, j = i+1, j-1 {
			out[i], out[j] = out[j], out[i]
		}
	}
	return out
}

// sweep compares every read API of r with the map w (w[i-1] = value id of key i).
func (e *env) sweep(r reader, w []int, who string, full bool) (string, string) {
	p := present(w)
	if int(r.Size()) != len(p) {
		return "Size", fmt.Sprintf("%s: Size() = %d, the map holds %d keys", who, r.Size(), len(p))
	}
	all, err := r.Range(nil, nil, true)
	if err != nil {
		return "Iterator", fmt.Sprintf("%s: full ascending iteration failed: %v", who, err)
	}
	if why := e.cmpRange(all, p, w); why != "" {
		return "Iterator", fmt.Sprintf("%s: Iterator(nil, nil): %s", who, why)
	}
	nk := len(w)
	stride, off := 1, 0
	if nk > 64 && !full {
		stride = 3 + e.rng.Intn(5)
		off = e.rng.Intn(stride)
	}
	for k := 1 + off; k <= nk; k += stride {
		got, err := r.Get(e.keys[k])
		if err != nil {
			return "Get", fmt.Sprintf("%s: Get(%q) failed: %v", who, e.keys[k], err)
		}
		if e.valID(got) != w[k-1] {
			return "Get", fmt.Sprintf("%s: Get(%q) = %q (value id %d), the map holds value id %d", who, e.keys[k], got, e.valID(got), w[k-1])
		}
		has, err := r.Has(e.keys[k])
		if err != nil || has != (w[k-1] != 0) {
			return "Has", fmt.Sprintf("%s: Has(%q) = %v, %v; the map says %v", who, e.keys[k], has, err, w[k-1] != 0)
		}
	}
	istride := stride
	if nk > 64 && !full && !e.cfg.DenseIdx {
		istride = stride * 4
	}
	withIndex := func(k int) (string, string) {
		idx, val, err := r.GetWithIndex(e.keys[k])
		if err != nil {
			return "GetWithIndex", fmt.Sprintf("%s: GetWithIndex(%q) failed: %v", who, e.keys[k], err)
		}
		if int(idx) != rank(p, k) || e.valID(val) != w[k-1] {
			return "GetWithIndex", fmt.Sprintf("%s: GetWithIndex(%q) = (%d, value id %d), the map says (%d, %d)", who, e.keys[k], idx, e.valID(val), rank(p, k), w[k-1])
		}
		return "", ""
	}
	for k := 1 + off; k <= nk; k += istride {
		if a, b := withIndex(k); a != "" {
			return a, b
		}
	}
	// the region around the keys the last write touched: every key, and every index next to them
	near := map[int]bool{}
	for _, k := range e.touch {
		if k >= 1 && k <= nk {
			if a, b := withIndex(k); a != "" {
				return a, b
			}
			near[rank(p, k)] = true
		}
	}
	for i := -1; i <= len(p); i++ {
		if i > 0 && i < len(p)-1 && (i-off)%istride != 0 && !near[i] {
			continue
		}
		k, v, err := r.GetByIndex(int64(i))
		if i < 0 || i >= len(p) {
			if k != nil || v != nil {
				return "GetByIndex", fmt.Sprintf("%s: GetByIndex(%d) outside 0..%d returned (%q, %q)", who, i, len(p)-1, k, v)
			}
			continue
		}
		if err != nil {
			return "GetByIndex", fmt.Sprintf("%s: GetByIndex(%d) failed: %v", who, i, err)
		}
		if e.keyID(k) != p[i] || e.valID(v) != w[p[i]-1] {
			return "GetByIndex", fmt.Sprintf("%s: GetByIndex(%d) = (%q, value id %d), the map says key %d (%q) value id %d", who, i, k, e.valID(v), p[i], e.keys[p[i]], w[p[i]-1])
		}
	}
	// range iteration: every (start, end, direction) on small universes, a sample on large ones
	try := func(s, en int, asc bool) (string, string) {
		got, err := r.Range(e.key(s), e.key(en), asc)
		if err != nil {
			return "Iterator", fmt.Sprintf("%s: range iteration failed: %v", who, err)
		}
		if why := e.cmpRange(got, rangeOf(p, s, en, asc), w); why != "" {
			return "Iterator", fmt.Sprintf("%s: Iterator(start=%q, end=%q, ascending=%v): %s", who, e.key(s), e.key(en), asc, why)
		}
		return "", ""
	}
	if nk <= 8 {
		for s := 0; s <= nk; s++ {
			for en := 0; en <= nk; en++ {
				for _, asc := range []bool{true, false} {
					if a, b := try(s, en, asc); a != "" {
						return a, b
					}
				}
			}
		}
	} else {
		for i := 0; i < 4; i++ {
			s, en := e.rng.Intn(nk+1), e.rng.Intn(nk+1)
			if i%2 == 0 && s > 0 { // short windows around node boundaries
				en = s + e.rng.Intn(40)
				if en > nk {
					en = 0
				}
			}
			if a, b := try(s, en, e.rng.Intn(2) == 0); a != "" {
				return a, b
			}
		}
	}
	return "", ""
}

func (e *env) cmpRange(got []kv, exp []int, w []int) string {
	if len(got) != len(exp) {
		return fmt.Sprintf("%d pairs, the map has %d in range (got keys %s, expected %v)", len(got), len(exp), e.keyIDs(got), clip(exp))
	}
	for i, g := range got {
		if e.keyID(g.k) != exp[i] {
			return fmt.Sprintf("position %d holds key %q, expected key %d (%q)", i, g.k, exp[i], e.keys[exp[i]])
		}
		if e.valID(g.v) != w[exp[i]-1] {
			return fmt.Sprintf("key %q carries %q (value id %d), the map holds value id %d", g.k, g.v, e.valID(g.v), w[exp[i]-1])
		}
	}
	return ""
}

func clip(x []int) []int {
	if len(x) > 24 {
		return x[:24]
	}
	return x
}

func (e *env) keyIDs(got []kv) string {
	var ids []int
	for _, g := range got {
		ids = append(ids, e.keyID(g.k))
	}
	return fmt.Sprint(clip(ids))
}

// ------------------------------------------------------------------ one step

func (e *env) open(o opt) *failure {
	if e.cfg.NoFast {
		o.Fast = false
	}
	t, err := openTree(e.cfg.Impl, e.db, o)
	if err != nil {
		return e.fail("Open", "error", fmt.Sprintf("opening the tree with %+v failed: %v", o, err))
	}
	e.t = t
	e.cur = o
	e.tainted = e.taintOnDisk
	e.reopenedAfterPrune = e.pruned
	return nil
}

func (e *env) closeReaders() {
	for r, x := range e.rd {
		x.Close()
		delete(e.rd, r)
		delete(e.rdv, r)
	}
}

func (e *env) target(t int) (reader, string) {
	if t == 0 {
		return e.t, "working tree"
	}
	return e.rd[t], fmt.Sprintf("snapshot of version %d", e.rdv[t])
}

func (e *env) setRange(from, cnt int, asc bool, f func(k int) error) error {
	to := from + cnt - 1
	if to > e.cfg.NK {
		to = e.cfg.NK
	}
	if asc {
		for k := from; k <= to; k++ {
			if err := f(k); err != nil {
				return err
			}
		}
	} else {
		for k := to; k >= from; k-- {
			if err := f(k); err != nil {
				return err
			}
		}
	}
	return nil
}

// touched: the keys within 40 of both ends of the span a write worked on
func (e *env) touched(from, cnt int) {
	e.touch = e.touch[:0]
	to := from + cnt - 1
	if to > e.cfg.NK {
		to = e.cfg.NK
	}
	seen := map[int]bool{}
	for _, c := range []int{from, to} {
		for k := c - 40; k <= c+40; k++ {
			if k >= 1 && k <= e.cfg.NK && !seen[k] {
				seen[k] = true
				e.touch = append(e.touch, k)
			}
		}
	}
}

func (e *env) known(v int) bool {
	for _, x := range e.prevAvail {
		if x == v {
			return true
		}
	}
	return false
}

// applyOp: one recorded write of the spec's pend list: ["s",k,v] ["r",k] ["f",from,cnt,salt,asc] ["p",off,stride,salt]
// ["x",from,cnt,asc] ["t",from,cnt,period,lo,hi,asc]
func (e *env) applyOp(o []any) error {
	num := func(i int) int { f, _ := o[i].(float64); return int(f) }
	flag := func(i int) bool { b, _ := o[i].(bool); return b }
	tag, _ := o[0].(string)
	switch tag {
	case "s":
		_, err := e.t.Set(e.keys[num(1)], e.vals[num(2)])
		return err
	case "r":
		_, _, err := e.t.Remove(e.keys[num(1)])
		return err
	case "f":
		return e.setRange(num(1), num(2), flag(4), func(k int) error {
			_, err := e.t.Set(e.keys[k], e.valOf(k, num(3)))
			return err
		})
	case "p":
		for k := num(1); k <= e.cfg.NK; k += num(2) {
			if _, err := e.t.Set(e.keys[k], e.valOf(k, num(3))); err != nil {
				return err
			}
		}
		return nil
	case "x":
		return e.setRange(num(1), num(2), flag(3), func(k int) error {
			_, _, err := e.t.Remove(e.keys[k])
			return err
		})
	case "t":
		from, period, lo, hi := num(1), num(3), num(4), num(5)
		return e.setRange(from, num(2), flag(6), func(k int) error {
			if o := (k - from) % period; o < lo || o >= hi {
				return nil
			}
			_, _, err := e.t.Remove(e.keys[k])
			return err
		})
	}
	return fmt.Errorf("unknown recorded write %q", tag)
}

func (e *env) valOf(k, salt int) []byte { return e.vals[(k+salt)%e.cfg.NV+1] }

func (e *env) step(s mbt.Step) *failure {
	act := s.Act()
	exp := s["reply"]
	replayed := e.inReplay
	switch act {
	case "Set", "SetBad", "Remove", "Fill", "Sparse", "RemoveRange", "Thin", "SaveVersion", "Rollback", "LoadVersion", "Reopen", "Migrate":
		e.inReplay = false
	}
	switch act {
	case "LoadVersion", "Reopen", "Migrate":
		e.replayLive = false
	}
	switch act {
	case "Init", "Finish":
	case "Set":
		e.touched(s.Int("k"), 1)
		upd, err := e.t.Set(e.key(s.Int("k")), e.vals[s.Int("v")])
		got := "new"
		switch {
		case err != nil && errors.Is(err, bp.ErrSessionPoisoned):
			got = "poisoned"
		case err != nil:
			got = "error: " + err.Error()
		case upd:
			got = "updated"
		}
		if got != exp {
			return e.fail(act, "reply", fmt.Sprintf("Set(%q) = %s, spec %v", e.key(s.Int("k")), got, exp))
		}
	case "SetBad":
		var err error
		if s.Str("cls") == "emptykey" {
			_, err = e.t.Set([]byte{}, e.vals[e.cfg.NV])
		} else {
			_, err = e.t.Set(e.keys[1], nil)
		}
		got := "accepted"
		if err != nil {
			got = "err"
			if errors.Is(err, bp.ErrSessionPoisoned) {
				got = "poisoned"
			}
		}
		if got != exp {
			return e.fail(act, "reply", fmt.Sprintf("Set with %s: %s (%v), spec %v", s.Str("cls"), got, err, exp))
		}
	case "Remove":
		e.touched(s.Int("k"), 1)
		old, found, err := e.t.Remove(e.key(s.Int("k")))
		got := "absent"
		switch {
		case err != nil && errors.Is(err, bp.ErrSessionPoisoned):
			got = "poisoned"
		case err != nil:
			got = "error: " + err.Error()
		case found:
			got = "removed"
		}
		if got != exp || (found && e.valID(old) != s.Int("old")) {
			return e.fail(act, "reply", fmt.Sprintf("Remove(%q) = %s, old value %q (id %d); spec %v, old value id %d", e.key(s.Int("k")), got, old, e.valID(old), exp, s.Int("old")))
		}
	case "Fill", "Sparse":
		n := 0
		put := func(k int) error {
			upd, err := e.t.Set(e.keys[k], e.valOf(k, s.Int("salt")))
			if upd {
				n++
			}
			return err
		}
		var err error
		if act == "Fill" {
			e.touched(s.Int("from"), s.Int("cnt"))
			err = e.setRange(s.Int("from"), s.Int("cnt"), s.Bool("asc"), put)
		} else {
			for k := s.Int("off"); k <= e.cfg.NK && err == nil; k += s.Int("stride") {
				err = put(k)
			}
		}
		if err != nil || n != s.Int("reply") {
			return e.fail(act, "reply", fmt.Sprintf("%s: %d existing keys updated, error %v; spec %d", mbt.JS(s), n, err, s.Int("reply")))
		}
	case "RemoveRange", "Thin":
		n := 0
		from, period, lo, hi := s.Int("from"), s.Int("period"), s.Int("lo"), s.Int("hi")
		e.touched(from, s.Int("cnt"))
		err := e.setRange(from, s.Int("cnt"), s.Bool("asc"), func(k int) error {
			if o := 0; act == "Thin" {
				if o = (k - from) % period; o < lo || o >= hi {
					return nil
				}
			}
			_, found, err := e.t.Remove(e.keys[k])
			if found {
				n++
			}
			return err
		})
		if err != nil || n != s.Int("reply") {
			return e.fail(act, "reply", fmt.Sprintf("%s: %d keys removed, error %v; spec %d", mbt.JS(map[string]any{"act": act, "from": from, "cnt": s.Int("cnt"), "period": period, "lo": lo, "hi": hi}), n, err, s.Int("reply")))
		}
	case "SaveVersion":
		h, v, err := e.t.SaveVersion()
		got := "ok"
		switch {
		case err != nil && errors.Is(err, bp.ErrSessionPoisoned):
			got = "poisoned"
		case err != nil:
			got = "mismatch"
		}
		if got != exp || (got == "ok" && int(v) != s.Int("v")) {
			return e.fail(act, "reply", fmt.Sprintf("SaveVersion = %s (version %d, error %v), spec %v (version %d)", got, v, err, exp, s.Int("v")))
		}
		if got == "ok" {
			switch {
			case replayed: // the idempotent save of a replay
				e.adopted++
				e.adoptVer, e.replayLive, e.replaySaved = int(v), true, false
			case e.replayLive && int(v) > e.adoptVer && !e.known(int(v)):
				e.replaySaved = true // a new version saved from the session that adopted the replay
			}
			e.taintOnDisk = e.tainted
			e.savedHash, e.savedVer = append([]byte(nil), h...), int(v)
			if f := e.noteVerHash(act, int(v), h, "returned by SaveVersion"); f != nil {
				return f
			}
			// the version is the working tree of the step before: same history, same hash
			if wh, ok := e.wkHash[e.prevWk]; ok && e.cfg.Hashes && !bytes.Equal(wh, h) {
				return e.fail(act, "hash:save", fmt.Sprintf("SaveVersion returns %x for version %d, WorkingHash() just before it was %x (history key %s)", h, v, wh, clipS(e.prevWk)))
			}
		}
	case "Replay":
		// re-apply the recorded writes of the successor version, op by op
		ops, _ := s["ops"].([]any)
		for _, o := range ops {
			if err := e.applyOp(o.([]any)); err != nil {
				return e.fail(act, "error", fmt.Sprintf("replaying %s failed: %v", mbt.JS(o), err))
			}
		}
		e.inReplay = true
		e.replayKeys = map[int]int{}
		if st, ok := s["st"].(map[string]any); ok {
			ver := mbt.Step(st).Int("ver")
			w := ints(st["w"])
			for k := 1; k <= len(w) && ver >= 1 && ver <= len(e.lastSv); k++ {
				if w[k-1] != 0 && w[k-1] != e.lastSv[ver-1][k-1] {
					e.replayKeys[k] = w[k-1]
				}
			}
		}
		return nil
	case "Rollback":
		e.t.Rollback()
		e.tainted = e.taintOnDisk
	case "LoadVersion":
		ret, err := e.t.LoadVersion(int64(s.Int("v")))
		got := "ok"
		if err != nil {
			got = "err"
		}
		if got == "ok" && e.dirty && e.cfg.Impl == "iavl" && e.cur.Fast {
			e.tainted = true
		}
		if got != exp || (got == "ok" && int(ret) != s.Int("ret")) {
			return e.fail(act, "reply", fmt.Sprintf("LoadVersion(%d) = %s (returned %d, error %v), spec %v (returns %d)", s.Int("v"), got, ret, err, exp, s.Int("ret")))
		}
	case "Reopen":
		e.closeReaders()
		e.t.Close()
		if f := e.open(optOf(s["o"])); f != nil {
			return f
		}
	case "Prune":
		err := e.t.Prune(int64(s.Int("to")))
		got := "ok"
		if err != nil {
			got = "err"
		}
		if got == "ok" && exp == "ok" {
			e.pruned = true
		}
		if e.cfg.Impl == "iavl" && e.reopenedAfterPrune && got == "err" && exp == "ok" {
			// iavl after a restart: the first version is rediscovered by probing root keys, a root node
			// that a retained version still shares makes a deleted version "exist" again, and
			// DeleteVersionsTo then fails on the missing successor (observation O-C30-2 of the report).
			// The retained versions are unaffected: counted as drift, not as a violation.
			e.drift++
			return nil
		}
		if got != exp {
			return e.fail(act, "reply", fmt.Sprintf("prune to version %d: %s (%v), spec %v", s.Int("to"), got, err, exp))
		}
	case "GetImmutable":
		r, v := s.Int("r"), s.Int("v")
		snap, err := e.t.Snapshot(int64(v))
		got := "ok"
		if err != nil {
			got = "err"
		}
		if got != exp {
			if snap != nil {
				snap.Close()
			}
			return e.fail(act, "reply", fmt.Sprintf("GetImmutable(%d) = %s (%v), spec %v", v, got, err, exp))
		}
		if err == nil {
			e.rd[r], e.rdv[r] = snap, v
		}
	case "CloseReader":
		r := s.Int("r")
		e.rd[r].Close()
		delete(e.rd, r)
		delete(e.rdv, r)
	case "ExportImport", "Migrate":
		return e.exportImport(s)
	case "Get", "Has", "ByIndex", "WithIndex", "Iter", "Size":
		return e.read(s)
	case "GetVersioned":
		got, err := e.t.GetVersioned(e.key(s.Int("k")), int64(s.Int("v")))
		if err != nil || e.valID(got) != s.Int("reply") {
			return e.fail(act, "reply", fmt.Sprintf("GetVersioned(%q, %d) = %q (value id %d, error %v), spec value id %d", e.key(s.Int("k")), s.Int("v"), got, e.valID(got), err, s.Int("reply")))
		}
	default:
		mbt.Die("unknown act %q", act)
	}
	return nil
}

func (e *env) read(s mbt.Step) *failure {
	act := s.Act()
	r, who := e.target(s.Int("t"))
	if r == nil {
		mbt.Die("read on closed snapshot %d", s.Int("t"))
	}
	switch act {
	case "Get":
		got, err := r.Get(e.key(s.Int("k")))
		if err != nil || e.valID(got) != s.Int("reply") {
			return e.fail(act, "reply", fmt.Sprintf("%s: Get(%q) = %q (value id %d, error %v), spec value id %d", who, e.key(s.Int("k")), got, e.valID(got), err, s.Int("reply")))
		}
	case "Has":
		got, err := r.Has(e.key(s.Int("k")))
		if err != nil || got != s.Bool("reply") {
			return e.fail(act, "reply", fmt.Sprintf("%s: Has(%q) = %v (%v), spec %v", who, e.key(s.Int("k")), got, err, s.Bool("reply")))
		}
	case "Size":
		if int(r.Size()) != s.Int("reply") {
			return e.fail(act, "reply", fmt.Sprintf("%s: Size() = %d, spec %d", who, r.Size(), s.Int("reply")))
		}
	case "ByIndex":
		k, v, err := r.GetByIndex(int64(s.Int("i")))
		rep := mbt.Step(s["reply"].(map[string]any))
		gk := 0
		if k != nil {
			gk = e.keyID(k)
		}
		if gk != rep.Int("k") || e.valID(v) != rep.Int("v") || (rep.Int("k") != 0 && err != nil) {
			return e.fail(act, "reply", fmt.Sprintf("%s: GetByIndex(%d) = (%q, %q, %v): key id %d value id %d; spec key %d value %d", who, s.Int("i"), k, v, err, gk, e.valID(v), rep.Int("k"), rep.Int("v")))
		}
	case "WithIndex":
		idx, v, err := r.GetWithIndex(e.key(s.Int("k")))
		rep := mbt.Step(s["reply"].(map[string]any))
		if err != nil || int(idx) != rep.Int("idx") || e.valID(v) != rep.Int("v") {
			return e.fail(act, "reply", fmt.Sprintf("%s: GetWithIndex(%q) = (%d, %q, %v): value id %d; spec index %d value %d", who, e.key(s.Int("k")), idx, v, err, e.valID(v), rep.Int("idx"), rep.Int("v")))
		}
	case "Iter":
		got, err := r.Range(e.key(s.Int("s")), e.key(s.Int("e")), s.Bool("asc"))
		if err != nil {
			return e.fail(act, "error", fmt.Sprintf("%s: iteration failed: %v", who, err))
		}
		rep, _ := s["reply"].([]any)
		ok := len(rep) == len(got)
		for i := 0; ok && i < len(rep); i++ {
			p := ints(rep[i])
			ok = e.keyID(got[i].k) == p[0] && e.valID(got[i].v) == p[1]
		}
		if !ok {
			return e.fail(act, "reply", fmt.Sprintf("%s: Iterator(start=%q, end=%q, ascending=%v) = keys %s (%d pairs), spec %s", who, e.key(s.Int("s")), e.key(s.Int("e")), s.Bool("asc"), e.keyIDs(got), len(got), clipJS(rep)))
		}
	}
	return nil
}

func clipJS(v any) string {
	s := mbt.JS(v)
	if len(s) > 300 {
		return s[:300] + "..."
	}
	return s
}

// exportImport: export a version, import it into an empty DB; contents and hash are reproduced.
// Migrate goes on with the imported DB.
func (e *env) exportImport(s mbt.Step) *failure {
	act := s.Act()
	v := s.Int("v")
	o := opt{Cache: e.v.Cache, Fast: e.v.Fast}
	if act == "Migrate" {
		v = int(e.t.Version())
		o = optOf(s["o"])
	}
	ndb, err := e.newDB()
	if err != nil {
		mbt.Die("db: %v", err)
	}
	nt, err := e.t.ExportTo(int64(v), ndb, o)
	if s.Str("reply") == "empty" {
		// an empty version has nothing to export (bptree refuses): only "no panic" is required
		if nt != nil {
			nt.Close()
		}
		ndb.Close()
		return nil
	}
	if err != nil {
		ndb.Close()
		return e.fail(act, "error", fmt.Sprintf("export of version %d / import into an empty DB failed: %v", v, err))
	}
	var w []int
	if act == "Migrate" {
		w = ints(s["st"].(map[string]any)["w"])
	} else {
		w = ints(s["m"])
	}
	if int(nt.Version()) != v {
		return e.fail(act, "version", fmt.Sprintf("imported tree is at version %d, exported %d", nt.Version(), v))
	}
	if a, b := e.sweep(nt, w, fmt.Sprintf("tree imported from version %d", v), false); a != "" {
		nt.Close()
		ndb.Close()
		return e.fail(act, "contents:"+a, b)
	}
	if e.cfg.Hashes {
		if h, ok := e.verHash[v]; ok && !bytes.Equal(h, nt.SavedHash()) {
			return e.fail(act, "hash", fmt.Sprintf("version %d has hash %x, the tree imported from its export has %x", v, h, nt.SavedHash()))
		}
	}
	if act == "ExportImport" {
		nt.Close()
		ndb.Close()
		return nil
	}
	e.closeReaders()
	e.t.Close()
	e.db.Close()
	e.t, e.db, e.cur = nt, ndb, o
	e.tainted, e.taintOnDisk = false, false
	e.pruned, e.reopenedAfterPrune = false, false
	return nil
}

func (e *env) noteVerHash(act string, v int, h []byte, how string) *failure {
	if !e.cfg.Hashes {
		return nil
	}
	if old, ok := e.verHash[v]; ok && !bytes.Equal(old, h) {
		return e.fail(act, "hash:version", fmt.Sprintf("version %d: hash %x %s, earlier the same version had %x", v, h, how, old))
	}
	e.verHash[v] = append([]byte(nil), h...)
	e.trace = append(e.trace, hrec{fmt.Sprintf("v:%d", v), e.verHash[v], e.idx})
	return nil
}

// check: the projection after a step.
func (e *env) check(s mbt.Step) *failure {
	act := s.Act()
	st, _ := s["st"].(map[string]any)
	if st == nil {
		return nil
	}
	e.states++
	if h := e.t.Height(); h > e.maxH {
		e.maxH = h
	}
	defer func() { e.dirty, _ = st["dirty"].(bool); e.prevAvail = ints(st["avail"]) }()
	ver := mbt.Step(st).Int("ver")
	if int(e.t.Version()) != ver {
		return e.fail(act, "Version", fmt.Sprintf("Version() = %d, spec %d", e.t.Version(), ver))
	}
	avail := ints(st["avail"])
	got := e.t.AvailableVersions()
	lazy := 0 // iavl: versions below the first retained one are not compared (lazy deletion, see the spec header)
	if e.cfg.Impl == "iavl" && len(avail) > 0 {
		lazy = avail[0]
		for len(got) > 0 && got[0] < lazy {
			got = got[1:]
		}
	}
	if !mbt.Eq(append([]int{}, got...), append([]int{}, avail...)) {
		return e.fail(act, "AvailableVersions", fmt.Sprintf("AvailableVersions() = %v, spec %v", got, avail))
	}
	in := map[int]bool{}
	for _, v := range avail {
		in[v] = true
	}
	for v := 1; v <= e.cfg.MaxVer+1; v++ {
		if v >= lazy && e.t.VersionExists(int64(v)) != in[v] {
			return e.fail(act, "VersionExists", fmt.Sprintf("VersionExists(%d) = %v, spec %v", v, !in[v], in[v]))
		}
	}
	poisoned, _ := st["poisoned"].(bool)
	w := ints(st["w"])
	e.trackPattern(act, s.Str("reply"), w, avail)
	if e.light {
		return nil
	}
	if !poisoned {
		if a, b := e.sweep(e.t, w, "working tree", false); a != "" {
			return e.fail(act, "working:"+a, b)
		}
	}
	e.prevWk = ""
	if e.cfg.Hashes && !poisoned {
		wk := mbt.JS(st["wk"])
		h := e.t.Hash()
		if old, ok := e.wkHash[wk]; ok && !bytes.Equal(old, h) {
			return e.fail(act, "hash:working", fmt.Sprintf("WorkingHash() = %x for history key %s, earlier the same history gave %x", h, wk, old))
		}
		e.wkHash[wk] = append([]byte(nil), h...)
		e.prevWk = wk
		e.trace = append(e.trace, hrec{"w:" + wk, e.wkHash[wk], e.idx})
		if ver > 0 {
			if f := e.noteVerHash(act, ver, e.t.SavedHash(), "from Hash() of the tree loaded at it"); f != nil {
				return f
			}
			if pend, _ := st["wk"].([]any)[1].([]any); len(pend) == 0 && !bytes.Equal(h, e.verHash[ver]) {
				return e.fail(act, "hash:clean", fmt.Sprintf("no write since version %d, yet WorkingHash() = %x and the version's hash is %x", ver, h, e.verHash[ver]))
			}
		}
	}
	if sv, ok := s["sv"].([]any); ok {
		// sv = [[version, contents], ...] of the retained versions
		e.lastSv = make([][]int, e.cfg.MaxVer+1)
		for _, x := range sv {
			if pair, _ := x.([]any); len(pair) == 2 {
				if v, _ := pair[0].(float64); int(v) >= 1 && int(v) <= e.cfg.MaxVer {
					e.lastSv[int(v)-1] = ints(pair[1])
				}
			}
		}
		if f := e.afterSave(act, s, ver); f != nil {
			return f
		}
		for v := 1; v <= e.cfg.MaxVer+1; v++ {
			snap, err := e.t.Snapshot(int64(v))
			if !in[v] {
				if e.cfg.Impl == "iavl" && (len(avail) == 0 || v < avail[len(avail)-1]) {
					if err == nil {
						snap.Close()
					}
					continue // iavl deletes lazily: the root of a deleted version may survive
				}
				if err == nil {
					snap.Close()
					return e.fail(act, "GetImmutable", fmt.Sprintf("GetImmutable(%d) succeeds, the version is not retained (spec versions %v)", v, avail))
				}
				if x, err := e.t.GetVersioned(e.keys[1], int64(v)); x != nil || err != nil {
					return e.fail(act, "GetVersioned", fmt.Sprintf("GetVersioned(%q, %d) = %q, %v for a version that is not retained", e.keys[1], v, x, err))
				}
				continue
			}
			if err != nil {
				return e.fail(act, "GetImmutable", fmt.Sprintf("GetImmutable(%d) failed: %v; spec versions %v", v, err, avail))
			}
			a, b := "", ""
			if e.cfg.SvSample == 0 || e.rng.Intn(len(avail)) < e.cfg.SvSample {
				a, b = e.sweep(snap, e.lastSv[v-1], fmt.Sprintf("version %d", v), false)
			}
			var f *failure
			if a == "" {
				f = e.noteVerHash(act, v, snap.Hash(), "from a snapshot")
				if f == nil && e.cfg.Hashes {
					c := fmt.Sprint(e.lastSv[v-1])
					hx := hex.EncodeToString(snap.Hash())
					if old, ok := e.byHash[hx]; ok && old != c {
						f = e.fail(act, "hash:collision", fmt.Sprintf("version %d has hash %s, which an earlier version with other contents had too", v, hx))
					}
					e.byHash[hx] = c
				}
				if f == nil && e.cfg.ProofCheck {
					f = e.proveVersion(act, snap, v, e.lastSv[v-1])
				}
				// point reads at a version
				k := 1 + e.rng.Intn(e.cfg.NK)
				if x, err := e.t.GetVersioned(e.keys[k], int64(v)); f == nil && (err != nil || e.valID(x) != e.lastSv[v-1][k-1]) {
					f = e.fail(act, "GetVersioned", fmt.Sprintf("GetVersioned(%q, %d) = %q (value id %d, %v), the version holds value id %d", e.keys[k], v, x, e.valID(x), err, e.lastSv[v-1][k-1]))
				}
			}
			snap.Close()
			if a != "" {
				return e.fail(act, "saved:"+a, b)
			}
			if f != nil {
				return f
			}
		}
		// snapshots held open across steps still show their version
		for r, snap := range e.rd {
			if a, b := e.sweep(snap, e.lastSv[e.rdv[r]-1], fmt.Sprintf("open snapshot of version %d", e.rdv[r]), false); a != "" {
				return e.fail(act, "snapshot:"+a, b)
			}
		}
	}
	return nil
}

func (e *env) trackPattern(act, reply string, w, avail []int) {
	switch {
	case act == "SaveVersion" && reply == "ok":
		size := len(present(w))
		same := e.patPrev != nil && fmt.Sprint(e.patPrev) == fmt.Sprint(w)
		switch {
		case e.patStage >= 1 && same && size == 1:
			e.patStage = 2 // an unchanged version after the single-leaf one
		case e.patStage == 2 && size > 1:
			e.patStage = 3 // growth
		case e.patStage < 2 && size == 1:
			e.patStage = 1
		}
		e.patPrev = append([]int(nil), w...)
		e.pruneRun = 0
	case act == "Prune" && reply == "ok" && len(e.prevAvail) == len(avail)+1:
		e.pruneRun++
		if e.pruneRun == 2 && e.patStage == 3 {
			e.stepwisePatterns++
		}
	case act == "Prune" || act == "Finish" || act == "Get" || act == "Has" || act == "Iter" || act == "ByIndex" || act == "WithIndex" || act == "Size" || act == "GetVersioned":
	default:
		e.pruneRun = 0
	}
}

// afterSave: after a successful SaveVersion the new version is read through a brand-new handle on the same DB: it
// must report the hash SaveVersion returned (both are "the hash of version v") and the contents the spec holds.
func (e *env) afterSave(act string, s mbt.Step, ver int) *failure {
	if act != "SaveVersion" || s.Str("reply") != "ok" || e.savedVer != ver || ver < 1 || e.lastSv[ver-1] == nil {
		return nil
	}
	if e.cfg.ShapeStats && e.cfg.Impl == "bptree" {
		cur := innerNodes(e.db, int64(ver))
		if e.shapePrev != nil && e.shapePrevVer == ver-1 {
			e.leftMerges += mergesIntoUntouchedLeft(e.shapePrev, cur, int64(ver))
		}
		e.shapePrev, e.shapePrevVer = cur, ver
	}
	if !e.cfg.FreshHandle {
		return nil
	}
	snap, done, err := freshSnapshot(e.cfg.Impl, e.db, int64(ver))
	if err != nil {
		return e.fail(act, "fresh-handle:GetImmutable", fmt.Sprintf("a new handle on the same DB cannot open version %d just saved: %v", ver, err))
	}
	defer done()
	if h := snap.Hash(); !bytes.Equal(h, e.savedHash) {
		return e.fail(act, "fresh-handle:hash", fmt.Sprintf("SaveVersion returned %x for version %d, a new handle on the same DB reports %x for that version", e.savedHash, ver, h))
	}
	if a, b := e.sweep(snap, e.lastSv[ver-1], fmt.Sprintf("version %d through a new handle on the same DB", ver), false); a != "" {
		return e.fail(act, "fresh-handle:"+a, b)
	}
	return nil
}

// proveVersion: what a proof verifies is what the version holds. For a dense sample of keys (all of them up to 64
// keys, every 3rd..7th and the touched region above) the tree's own proof (GetMembershipProof /
// GetNonMembershipProof of a snapshot, and the GetVersionedProof-style entry point alternately) must verify through
// ics23 against the version's root hash: membership with the value the version holds, non-membership for absent
// keys. Keys with an empty value (and gaps next to one) are skipped: ics23 cannot verify empty values (documented).
func (e *env) proveVersion(act string, snap reader, v int, w []int) *failure {
	spec := e.t.Spec()
	root := snap.Hash()
	p := present(w)
	if len(p) == 0 {
		return nil
	}
	nk := len(w)
	empty := func(k int) bool { return k > 0 && len(e.vals[w[k-1]]) == 0 }
	stride, off := 1, 0
	if nk > 64 {
		stride = 3 + e.rng.Intn(5)
		off = e.rng.Intn(stride)
	}
	pick := map[int]bool{}
	for k := 1 + off; k <= nk; k += stride {
		pick[k] = true
	}
	for _, k := range e.touch {
		if k >= 1 && k <= nk {
			pick[k] = true
		}
	}
	for k := range e.replayKeys {
		pick[k] = true
	}
	for k := 1; k <= nk; k++ {
		if !pick[k] {
			continue
		}
		key := e.keys[k]
		var proof *ics23.CommitmentProof
		var err error
		if k%2 == 0 {
			proof, err = e.t.VersionedProof(key, int64(v))
		} else if w[k-1] != 0 {
			proof, err = snap.Member(key)
		} else {
			proof, err = snap.NonMember(key)
		}
		if w[k-1] != 0 {
			if err != nil || proof.GetExist() == nil {
				return e.fail(act, "proof:member:complete", fmt.Sprintf("version %d: no membership proof for the present key %q: %v", v, key, err))
			}
			if empty(k) {
				continue
			}
			if !verM(spec, root, proof, key, e.vals[w[k-1]]) {
				return e.fail(act, "proof:member:complete", fmt.Sprintf("version %d: the tree's membership proof of (%q, value id %d) does not verify against the version's root hash %x", v, key, w[k-1], root))
			}
			e.proofsOK++
			if rv, ok := e.replayKeys[k]; ok && e.replaySaved && v > e.adoptVer && rv == w[k-1] {
				e.replayProofs++
			}
			continue
		}
		i := rank(p, k)
		left, right := 0, 0
		if i > 0 {
			left = p[i-1]
		}
		if i < len(p) {
			right = p[i]
		}
		if err != nil || proof.GetNonexist() == nil {
			return e.fail(act, "proof:nonmember:complete", fmt.Sprintf("version %d: no non-membership proof for the absent key %q: %v", v, key, err))
		}
		if empty(left) || empty(right) {
			continue
		}
		if !verN(spec, root, proof, key) {
			return e.fail(act, "proof:nonmember:complete", fmt.Sprintf("version %d: the tree's non-membership proof of %q (between keys %d and %d; 0 = none) does not verify against the version's root hash %x", v, key, left, right, root))
		}
		e.proofsOK++
	}
	return nil
}

// ------------------------------------------------------------------ replay

func newEnv(cfg *config, v variant, beh []mbt.Step, seed int64) *env {
	e := &env{cfg: cfg, v: v, keys: keyTable(cfg.NK), vals: valTable(cfg.NV, cfg.NoEmpty),
		rd: map[int]reader{}, rdv: map[int]int{}, rng: rand.New(rand.NewSource(seed)),
		wkHash: map[string][]byte{}, verHash: map[int][]byte{}, byHash: map[string]string{}}
	if v.Init && len(beh) > 0 {
		if st, ok := beh[0]["st"].(map[string]any); ok {
			o := optOf(st["opt"])
			e.v.Cache, e.v.Fast = o.Cache, o.Fast
		}
	}
	return e
}

func replay(cfg *config, v variant, beh []mbt.Step, seed int64, after func(e *env, s mbt.Step) *failure) (*failure, *env) {
	e := newEnv(cfg, v, beh, seed)
	defer e.cleanup()
	var err error
	if e.db, err = e.newDB(); err != nil {
		mbt.Die("db: %v", err)
	}
	if f := e.open(opt{Cache: e.v.Cache, Fast: e.v.Fast}); f != nil {
		return f, e
	}
	for i, s := range beh {
		e.idx = i
		e.light = cfg.CheckLast > 0 && i < len(beh)-cfg.CheckLast
		var f *failure
		if p, val, stk := mbt.Guard(func() {
			if f = e.step(s); f == nil {
				f = e.check(s)
			}
			if f == nil && after != nil {
				f = after(e, s)
			}
		}); p {
			f = e.fail(s.Act(), "panic", fmt.Sprintf("%s panicked: %v at %s", s.Act(), val, mbt.ShortStack(stk)))
		}
		if f != nil {
			return f, e
		}
	}
	return nil, e
}

func slim(beh []mbt.Step, upto int) []mbt.Step {
	if upto+1 < len(beh) {
		beh = beh[:upto+1]
	}
	return beh
}

func main() {
	f := mbt.ParseFlags()
	var cfg config
	if err := json.Unmarshal([]byte(f.Extra), &cfg); err != nil {
		mbt.Die("bad -x: %v", err)
	}
	behs, err := mbt.ReadBehaviours(f.In)
	if err != nil {
		mbt.Die("%v", err)
	}
	switch f.Mode {
	case "family":
		runFamilies(f, &cfg, behs)
		return
	case "proofs":
		runProofs(f, &cfg, behs)
		return
	case "treecases":
		runTreeCases(f, &cfg, behs)
		return
	}
	var mu sync.Mutex
	reported := map[string]int{}
	var replays, okc, steps, flaky, states, drift, adopted, replayProofs, proofsOK, leftMerges, patterns int64
	heights := map[int]int{}
	var wg sync.WaitGroup
	nw := runtime.NumCPU()
	for w := 0; w < nw; w++ {
		wg.Add(1)
		go func(w int) {
			defer wg.Done()
			var lr, lok, lsteps, lflaky, lstates int64
			for i := w; i < len(behs); i += nw {
				for vi, v := range cfg.Variants {
					seed := f.Seed*1000003 + int64(i)*31 + int64(vi)
					if cfg.Seed != 0 {
						seed = cfg.Seed
					}
					lr++
					lsteps += int64(len(behs[i]))
					fl, e := replay(&cfg, v, behs[i], seed, nil)
					lstates += int64(e.states)
					mu.Lock()
					heights[e.maxH]++
					drift += int64(e.drift)
					leftMerges += int64(e.leftMerges)
					patterns += int64(e.stepwisePatterns)
					adopted += int64(e.adopted)
					replayProofs += int64(e.replayProofs)
					proofsOK += int64(e.proofsOK)
					mu.Unlock()
					if fl == nil {
						lok++
						continue
					}
					fl2, _ := replay(&cfg, v, behs[i], seed, nil) // rule 4: once more from fresh objects
					if fl2 == nil || fl2.key != fl.key {
						lflaky++
						mbt.Emit(map[string]any{"kind": "flaky", "variant": v, "first": fl.String(), "second": fl2.String()})
						continue
					}
					mu.Lock()
					reported[fl.key]++
					first := reported[fl.key] <= 2
					mu.Unlock()
					if first {
						c := cfg
						c.Variants = []variant{e.v}
						c.Variants[0].Init = false
						c.Seed = seed
						mbt.Mismatch(fl.key, fmt.Sprintf("[%s %s, initially cache=%d fast=%v] step %d: %s", cfg.Impl, e.v.DB, e.v.Cache, e.v.Fast, fl.step, fl.what),
							map[string]any{"cfg": c, "steps": slim(behs[i], fl.step)})
					}
				}
			}
			mu.Lock()
			replays += lr
			okc += lok
			steps += lsteps
			flaky += lflaky
			states += lstates
			mu.Unlock()
		}(w)
	}
	wg.Wait()
	for i := 0; i < len(behs) && i < 2; i++ {
		mbt.Sample(brief(behs[i]))
	}
	mbt.Summary(map[string]any{"behaviours": len(behs), "replays": replays, "replays_ok": okc, "steps": steps, "flaky": flaky, "states_compared": states, "max_height_histogram": fmt.Sprint(heights), "iavl_prune_refused_after_restart": drift,
		"stepwise_prune_patterns": patterns, "inner_merges_into_untouched_left": leftMerges, "replays_saved_idempotently": adopted, "proofs_through_replayed_nodes": replayProofs, "version_proofs_verified": proofsOK})
	mbt.Flush()
}

// brief: a behaviour without the bulky projections (evidence samples)
func brief(beh []mbt.Step) []map[string]any {
	var out []map[string]any
	for i, s := range beh {
		if i >= 10 {
			break
		}
		m := map[string]any{}
		for k, v := range s {
			if k != "st" && k != "sv" && k != "m" {
				m[k] = v
			}
		}
		out = append(out, m)
	}
	return out
}
