// Driver for C33 (spec/CrashRecovery.tla): a real single-validator node (ConsensusState stepped
// through the verif interface, real BlockExecutor, block store, state store, WAL, file-backed
// PrivValidator, a persistent ABCI app) is killed at EVERY persistent write of a short run
// (before and after the write), rebuilt from its media exactly as node start does (Handshake,
// WAL catch-up) and continued; one NDJSON line per crash point.
package main

import (
	"bufio"
	"crypto/sha256"
	"encoding/hex"
	"encoding/json"
	"fmt"
	"io"
	"log/slog"
	"os"
	"path/filepath"
	"time"

	abci "github.com/gnolang/gno/tm2/pkg/bft/abci/types"
	"github.com/gnolang/gno/tm2/pkg/bft/appconn"
	cns "github.com/gnolang/gno/tm2/pkg/bft/consensus"
	cnscfg "github.com/gnolang/gno/tm2/pkg/bft/consensus/config"
	mempl "github.com/gnolang/gno/tm2/pkg/bft/mempool"
	"github.com/gnolang/gno/tm2/pkg/bft/mempool/mock"
	"github.com/gnolang/gno/tm2/pkg/bft/privval"
	"github.com/gnolang/gno/tm2/pkg/bft/privval/signer/local"
	"github.com/gnolang/gno/tm2/pkg/bft/proxy"
	sm "github.com/gnolang/gno/tm2/pkg/bft/state"
	"github.com/gnolang/gno/tm2/pkg/bft/store"
	"github.com/gnolang/gno/tm2/pkg/bft/types"
	walm "github.com/gnolang/gno/tm2/pkg/bft/wal"
	"github.com/gnolang/gno/tm2/pkg/crypto"
	dbm "github.com/gnolang/gno/tm2/pkg/db"
	"github.com/gnolang/gno/tm2/pkg/db/memdb"
	"github.com/gnolang/gno/tm2/pkg/events"
	"github.com/gnolang/gno/tm2/pkg/log"

	"verifharness/mbt"
)

const chainID = "verif-crash"

type crashNow struct{ at string }

// ---- crash controller: counts persistent writes over all media
type ctl struct {
	n       int
	crashAt int  // 0 = never
	after   bool // crash after performing the write
	labels  []string
	armed   bool
}

func (c *ctl) before(label string) {
	if !c.armed {
		return
	}
	c.n++
	c.labels = append(c.labels, label)
	if c.n == c.crashAt && !c.after {
		panic(crashNow{label})
	}
}

func (c *ctl) afterw(label string) {
	if c.armed && c.n == c.crashAt && c.after {
		panic(crashNow{label})
	}
}

type crashDB struct {
	dbm.DB
	c    *ctl
	name string
}

func (d *crashDB) Set(k, v []byte) error {
	d.c.before(d.name + ".Set")
	err := d.DB.Set(k, v)
	d.c.afterw(d.name + ".Set")
	return err
}
func (d *crashDB) SetSync(k, v []byte) error {
	d.c.before(d.name + ".SetSync")
	err := d.DB.SetSync(k, v)
	d.c.afterw(d.name + ".SetSync")
	return err
}
func (d *crashDB) Delete(k []byte) error {
	d.c.before(d.name + ".Delete")
	err := d.DB.Delete(k)
	d.c.afterw(d.name + ".Delete")
	return err
}
func (d *crashDB) DeleteSync(k []byte) error {
	d.c.before(d.name + ".DeleteSync")
	err := d.DB.DeleteSync(k)
	d.c.afterw(d.name + ".DeleteSync")
	return err
}
func (d *crashDB) NewBatch() dbm.Batch          { return &crashBatch{d.DB.NewBatch(), d} }
func (d *crashDB) NewBatchWithSize(n int) dbm.Batch { return &crashBatch{d.DB.NewBatchWithSize(n), d} }

type crashBatch struct {
	dbm.Batch
	d *crashDB
}

func (b *crashBatch) Write() error {
	b.d.c.before(b.d.name + ".Batch.Write")
	err := b.Batch.Write()
	b.d.c.afterw(b.d.name + ".Batch.Write")
	return err
}
func (b *crashBatch) WriteSync() error {
	b.d.c.before(b.d.name + ".Batch.WriteSync")
	err := b.Batch.WriteSync()
	b.d.c.afterw(b.d.name + ".Batch.WriteSync")
	return err
}

// ---- WAL wrapper: crash points at every write call (unflushed buffered data is lost with the object)
type crashWAL struct {
	walm.WAL
	c *ctl
}

func (w *crashWAL) Write(m walm.WALMessage) error {
	w.c.before("wal.Write")
	err := w.WAL.Write(m)
	w.c.afterw("wal.Write")
	return err
}
func (w *crashWAL) WriteSync(m walm.WALMessage) error {
	w.c.before("wal.WriteSync")
	err := w.WAL.WriteSync(m)
	w.c.afterw("wal.WriteSync")
	return err
}
func (w *crashWAL) WriteMetaSync(m walm.MetaMessage) error {
	w.c.before(fmt.Sprintf("wal.EndHeight(%d)", m.Height))
	err := w.WAL.WriteMetaSync(m)
	w.c.afterw("wal.EndHeight")
	return err
}
func (w *crashWAL) SetLogger(l *slog.Logger)  { w.WAL.SetLogger(l) }

// ---- recording signer: crash points around signing, ledger of everything released
type recSigner struct {
	types.Signer
	c      *ctl
	ledger *[]sigRec
}
type sigRec struct {
	HRS  string
	Body string
}

func (s *recSigner) Sign(msg []byte) ([]byte, error) {
	s.c.before("privval.Sign")
	sig, err := s.Signer.Sign(msg)
	s.c.afterw("privval.Sign")
	return sig, err
}

// ---- persistent ABCI app: one atomic write per Commit
type appState struct {
	Height int64  `json:"height"`
	Hash   []byte `json:"hash"`
	NTx    int64  `json:"ntx"`
}
type app struct {
	abci.BaseApplication
	db      dbm.DB
	st      appState
	pending [][]byte
}

func loadApp(db dbm.DB) *app {
	a := &app{db: db}
	if bz, _ := db.Get([]byte("state")); len(bz) > 0 {
		json.Unmarshal(bz, &a.st)
	}
	return a
}
func (a *app) Info(abci.RequestInfo) abci.ResponseInfo {
	return abci.ResponseInfo{LastBlockHeight: a.st.Height, LastBlockAppHash: a.st.Hash}
}
func (a *app) InitChain(abci.RequestInitChain) abci.ResponseInitChain { return abci.ResponseInitChain{} }
func (a *app) BeginBlock(abci.RequestBeginBlock) abci.ResponseBeginBlock {
	a.pending = nil
	return abci.ResponseBeginBlock{}
}
func (a *app) DeliverTx(r abci.RequestDeliverTx) abci.ResponseDeliverTx {
	a.pending = append(a.pending, append([]byte(nil), r.Tx...))
	return abci.ResponseDeliverTx{}
}
func (a *app) Commit() abci.ResponseCommit {
	h := sha256.New()
	h.Write(a.st.Hash)
	for _, tx := range a.pending {
		h.Write(tx)
	}
	a.st = appState{Height: a.st.Height + 1, Hash: h.Sum(nil), NTx: a.st.NTx + int64(len(a.pending))}
	bz, _ := json.Marshal(a.st)
	a.db.SetSync([]byte("state"), bz) // the application's commit: a single atomic write (C27 covers real apps)
	res := abci.ResponseCommit{}
	res.Data = a.st.Hash
	return res
}

// ---- mempool offering one deterministic tx per height
type hMempool struct {
	mock.Mempool
	last int64
}

func (m *hMempool) ReapMaxBytesMaxGas(_, _ int64) types.Txs {
	return types.Txs{types.Tx(fmt.Sprintf("h%d=v", m.last+1))}
}
func (m *hMempool) Update(h int64, _ types.Txs, _ []abci.ResponseDeliverTx, _ mempl.PreCheckFunc, _ int64) error {
	m.last = h
	return nil
}

// ---- the node
type media struct {
	blockDB, stateDB, appDB *memdb.MemDB
	dir                     string
}

type node struct {
	cs     *cns.ConsensusState
	ticker *cns.VerifTicker
	bs     *store.BlockStore
	stDB   dbm.DB
	app    *app
	pend   *cns.VerifTimeout
	lastTi *cns.VerifTimeout
	wal    walm.WAL
	pv     *privval.PrivValidator
}

func genDoc(pub crypto.PubKey) *types.GenesisDoc {
	return &types.GenesisDoc{GenesisTime: time.Unix(1_700_000_000, 0).UTC(), ChainID: chainID,
		Validators: []types.GenesisValidator{{PubKey: pub, Power: 10, Address: pub.Address(), Name: "v"}}}
}

// boot builds the node from its media exactly as a (re)start does: state from DB or genesis, app Info,
// Handshake (block replay), new ConsensusState, WAL open + catch-up replay.
func boot(m *media, c *ctl) (n *node, err error) {
	defer func() {
		if r := recover(); r != nil {
			if cn, ok := r.(crashNow); ok {
				panic(cn)
			}
			err = fmt.Errorf("panic during boot: %v", r)
		}
	}()
	keyFile, stateFile := filepath.Join(m.dir, "key.json"), filepath.Join(m.dir, "state.json")
	ls, e := local.LoadOrMakeLocalSigner(keyFile)
	if e != nil {
		return nil, e
	}
	pv, e := privval.NewPrivValidator(&recSigner{Signer: ls, c: c}, stateFile)
	if e != nil {
		return nil, fmt.Errorf("privval: %w", e)
	}
	gd := genDoc(ls.PubKey())
	stDB := &crashDB{m.stateDB, c, "statedb"}
	blDB := &crashDB{m.blockDB, c, "blockdb"}
	apDB := &crashDB{m.appDB, c, "appdb"}
	state, e := sm.LoadStateFromDBOrGenesisDoc(stDB, gd)
	if e != nil {
		return nil, e
	}
	a := loadApp(apDB)
	conns := appconn.NewAppConns(proxy.NewLocalClientCreator(a))
	if e := conns.Start(); e != nil {
		return nil, e
	}
	bs := store.NewBlockStore(blDB)
	hs := cns.NewHandshaker(stDB, state, bs, gd)
	if e := hs.Handshake(conns); e != nil {
		return nil, fmt.Errorf("handshake: %w", e)
	}
	state = sm.LoadState(stDB)
	mp := &hMempool{last: state.LastBlockHeight}
	blockExec := sm.NewBlockExecutor(stDB, log.NewNoopLogger(), conns.Consensus(), mp)
	cfg := cnscfg.TestConsensusConfig()
	cfg.SkipTimeoutCommit = true
	cfg.CreateEmptyBlocks = true
	cs := cns.NewConsensusState(cfg, state, blockExec, bs, mp, cns.NoOpEvidencePool{})
	cs.SetLogger(log.NewNoopLogger())
	if os.Getenv("VERIF_DEBUG") == "2" {
		cs.SetLogger(slog.New(slog.NewTextHandler(os.Stderr, &slog.HandlerOptions{Level: slog.LevelInfo})))
	}
	cs.SetPrivValidator(pv)
	evsw := events.NewEventSwitch()
	evsw.Start()
	cs.SetEventSwitch(evsw)
	tk := cns.NewVerifTicker()
	cs.SetTimeoutTicker(tk)
	wal, e := walm.NewWAL(filepath.Join(m.dir, "wal", "wal"), 1<<20)
	if e != nil {
		return nil, e
	}
	wal.SetLogger(log.NewNoopLogger())
	if e := wal.Start(); e != nil {
		return nil, e
	}
	cw := &crashWAL{wal, c}
	cs.VerifSetWAL(cw)
	n = &node{cs: cs, ticker: tk, bs: bs, stDB: stDB, app: a, wal: wal, pv: pv}
	if e := cs.VerifCatchupReplay(); e != nil {
		if walm.IsDataCorruptionError(e) {
			return nil, fmt.Errorf("catchup: corrupt WAL: %w", e)
		}
		// as OnStart: "Error on catchup replay. Proceeding to start ConsensusState anyway"
		if os.Getenv("VERIF_DEBUG") != "" {
			fmt.Fprintf(os.Stderr, "  catchup error (ignored as in OnStart): %v\n", e)
		}
	}
	n.collect()
	cs.VerifScheduleRound0()
	n.collect()
	return n, nil
}

// collect applies the real timeoutTicker's rule: a newly scheduled timeout replaces the current one unless it is for
// an older height/round, or for the same round and a step that is not later than the last accepted one
func (n *node) collect() {
	for _, t := range n.ticker.Take() {
		t := t
		if n.lastTi != nil {
			l := n.lastTi
			if t.Height < l.Height || (t.Height == l.Height && (t.Round < l.Round || (t.Round == l.Round && l.Step > 0 && t.Step <= l.Step))) {
				continue
			}
		}
		n.lastTi = &t
		n.pend = &t
	}
}

// run steps the single validator until the block store reaches target (or the step budget ends)
func (n *node) run(target int64, budget int) bool {
	dbg := os.Getenv("VERIF_DEBUG") != ""
	for i := 0; i < budget && n.bs.Height() < target; i++ {
		if dbg {
			rs := n.cs.GetRoundState()
			fmt.Fprintf(os.Stderr, "  step %d: H/R/S=%d/%d/%v pend=%v prop=%v pb=%v\n", i, rs.Height, rs.Round, rs.Step, n.pend, rs.Proposal != nil, rs.ProposalBlock != nil)
		}
		if _, ok := n.cs.VerifPopInternal(); ok {
			n.collect()
			continue
		}
		if n.pend != nil {
			t := *n.pend
			n.pend = nil
			n.cs.VerifFireTimeout(t)
			n.collect()
			continue
		}
		return false
	}
	return n.bs.Height() >= target
}

type proj struct {
	Store int64  `json:"store"`
	State int64  `json:"state"`
	App   int64  `json:"app"`
	Hash  string `json:"apphash"`
}

func project(m *media) proj {
	c := &ctl{}
	bs := store.NewBlockStore(&crashDB{m.blockDB, c, "b"})
	p := proj{Store: bs.Height()}
	func() {
		defer func() { recover() }()
		st := sm.LoadState(&crashDB{m.stateDB, c, "s"})
		p.State = st.LastBlockHeight
	}()
	a := loadApp(&crashDB{m.appDB, c, "a"})
	p.App = a.st.Height
	p.Hash = hex.EncodeToString(a.st.Hash)
	return p
}

func walEnd(m *media) int64 {
	// highest #ENDHEIGHT marker readable from the WAL files
	wal, err := walm.NewWAL(filepath.Join(m.dir, "wal", "wal"), 1<<20)
	if err != nil {
		return -1
	}
	wal.SetLogger(log.NewNoopLogger())
	end := int64(-1)
	for h := int64(0); h < 64; h++ {
		rd, found, err := wal.SearchForHeight(h, &walm.WALSearchOptions{IgnoreDataCorruptionErrors: true})
		if rd != nil {
			rd.Close()
		}
		if err != nil && err != io.EOF {
			break
		}
		if found {
			end = h
		}
	}
	return end
}

func newMedia() *media {
	dir, err := os.MkdirTemp("", "crashrec")
	if err != nil {
		mbt.Die("%v", err)
	}
	os.MkdirAll(filepath.Join(dir, "wal"), 0o700)
	return &media{blockDB: memdb.NewMemDB(), stateDB: memdb.NewMemDB(), appDB: memdb.NewMemDB(), dir: dir}
}

// one attempt: run to `heights`, crashing at write k (0 = reference run)
func attempt(k int, after bool, heights int64) (map[string]any, []string, proj, int) {
	m := newMedia()
	defer os.RemoveAll(m.dir)
	c := &ctl{crashAt: k, after: after}
	res := map[string]any{"act": "CrashPoint", "k": k, "after": after}
	crashed := false
	label := ""
	var bootErr error
	func() {
		defer func() {
			if r := recover(); r != nil {
				if cn, ok := r.(crashNow); ok {
					crashed, label = true, cn.at
					return
				}
				bootErr = fmt.Errorf("panic before crash point: %v", r)
			}
		}()
		n, err := boot(m, c)
		if err != nil {
			bootErr = err
			return
		}
		c.armed = true
		n.run(heights, 400)
	}()
	c.armed = false
	total := c.n
	if k == 0 {
		return res, c.labels, project(m), total
	}
	if bootErr != nil {
		res["error"] = bootErr.Error()
		return res, c.labels, project(m), total
	}
	if !crashed {
		res["reached"] = false
		return res, c.labels, project(m), total
	}
	res["reached"] = true
	res["label"] = label
	before := project(m)
	res["before"] = before
	res["wal_end"] = walEnd(m)
	// ---- restart from the media
	c2 := &ctl{}
	var n2 *node
	var err error
	func() {
		defer func() {
			if r := recover(); r != nil {
				err = fmt.Errorf("panic during recovery: %v", r)
			}
		}()
		n2, err = boot(m, c2)
	}()
	if err != nil {
		res["recover_error"] = err.Error()
		res["after_recover"] = project(m)
		return res, c.labels, before, total
	}
	res["after_recover"] = project(m)
	goal := before.Store + 2
	if goal < heights {
		goal = heights
	}
	var contErr any
	ok := false
	func() {
		defer func() {
			if r := recover(); r != nil {
				contErr = r
			}
		}()
		ok = n2.run(goal, 600)
	}()
	res["continued"] = ok
	if contErr != nil {
		res["continue_panic"] = fmt.Sprint(contErr)
	}
	res["final"] = project(m)
	res["goal"] = goal
	return res, c.labels, before, total
}

func main() {
	f := mbt.ParseFlags()
	heights := int64(3)
	if f.N > 0 {
		heights = int64(f.N)
	}
	out, err := os.Create(f.Out)
	if err != nil {
		mbt.Die("%v", err)
	}
	w := bufio.NewWriter(out)
	emit := func(x any) {
		bz, _ := json.Marshal(x)
		w.Write(bz)
		w.WriteByte('\n')
	}
	// reference run: per-height app hash (a deterministic function of the height), total number of writes
	ref := map[int64]string{}
	{
		m := newMedia()
		c := &ctl{}
		n, err := boot(m, c)
		if err != nil {
			mbt.Die("reference boot: %v", err)
		}
		c.armed = true
		for h := int64(1); h <= heights+3; h++ {
			if !n.run(h, 400) {
				mbt.Die("reference run stuck at height %d", h)
			}
			ref[h] = project(m).Hash
		}
		os.RemoveAll(m.dir)
	}
	_, labels, _, total := attempt(0, false, heights)
	refs := map[string]string{}
	for h, v := range ref {
		refs[fmt.Sprint(h)] = v
	}
	emit(map[string]any{"act": "Init", "heights": heights, "writes": total, "ref": refs})
	points := 0
	kmin, kmax := 1, total
	if os.Getenv("VERIF_K") != "" {
		fmt.Sscan(os.Getenv("VERIF_K"), &kmin)
		kmax = kmin
	}
	for k := kmin; k <= kmax; k++ {
		for _, after := range []bool{false, true} {
			res, _, _, _ := attempt(k, after, heights)
			if k-1 < len(labels) {
				res["expected_label"] = labels[k-1]
			}
			emit(res)
			points++
		}
	}
	w.Flush()
	out.Close()
	cnt := map[string]int{}
	for _, l := range labels {
		cnt[l]++
	}
	sum := map[string]any{"crash_points": points, "writes_per_run": total, "heights": heights}
	for l, v := range cnt {
		sum["w_"+l] = v
	}
	mbt.Summary(sum)
	mbt.Flush()
}
