// Driver for C51 (spec/GRC20.tla): every TLC behaviour is compiled into a Gno program that
// creates a fresh grc20 token (grc20.NewToken) and performs the calls on the REAL package
// gno.land/p/demo/tokens/grc20 (PrivateLedger methods and the Teller methods reached through
// ImpersonateTeller / RealmTeller / CallerTeller / ReadonlyTeller); after every call it prints
// the error class and every query method (TotalSupply, BalanceOf, Allowance for all accounts
// incl. the invalid address). Programs run as MsgRun transactions of the real gno.land app
// (packages deployed at genesis from $GNOROOT/examples) on the real GnoVM.
//
// Amount embeddings (spec header): "scaled" n -> n << k, "offset" n -> n with a sink account
// holding MaxInt64 - Cap. Every behaviour is replayed under both.
//
// Verdict observables: ok / not-ok of every call; supply, balances, allowances after every
// call (so: a failing call changes nothing, transfers are neutral, allowances are honoured).
// Guidance observable: the error class (which sentinel error) - counted as drift.
package main

import (
	"bufio"
	"encoding/json"
	"fmt"
	"math"
	"math/bits"
	"os"
	"path/filepath"
	"strconv"
	"strings"

	"github.com/gnolang/gno/gno.land/pkg/sdk/vm"
	"github.com/gnolang/gno/gnovm/pkg/gnoenv"
	gno "github.com/gnolang/gno/gnovm/pkg/gnolang"
	"github.com/gnolang/gno/tm2/pkg/crypto"
	"github.com/gnolang/gno/tm2/pkg/std"

	"verifharness/appenv"
	"verifharness/mbt"
)

const maxPerKey = 2 // mismatches reported per failure class and driver process

const maxReported = 4 // mismatches re-run and reported per driver process (the rest is counted)

var genesisPkgs = []string{
	"gno.land/p/nt/avl/v0",
	"gno.land/p/nt/cford32/v0",
	"gno.land/p/nt/seqid/v0",
	"gno.land/p/nt/ufmt/v0",
	"gno.land/p/demo/tokens/grc20",
}

func loadPkg(root, path string) appenv.Pkg {
	dir := filepath.Join(root, "examples", path)
	mp, err := gno.ReadMemPackage(dir, path, gno.MPUserProd)
	if err != nil {
		mbt.Die("read %s: %v", dir, err)
	}
	p := appenv.Pkg{Path: path, Files: map[string]string{}}
	for _, f := range mp.Files {
		if strings.HasSuffix(f.Name, ".gno") {
			p.Files[f.Name] = f.Body
		}
	}
	if len(p.Files) == 0 {
		mbt.Die("no prod files in %s", dir)
	}
	return p
}

const prelude = `package main

import (
	"gno.land/p/demo/tokens/grc20"
)

func ec(err error) string {
	switch err {
	case nil:
		return "ok"
	case grc20.ErrInvalidAddress:
		return "addr"
	case grc20.ErrInvalidAmount:
		return "amount"
	case grc20.ErrInsufficientBalance:
		return "balance"
	case grc20.ErrInsufficientAllowance:
		return "allowance"
	case grc20.ErrCannotTransferToSelf:
		return "self"
	case grc20.ErrMintOverflow:
		return "overflow"
	case grc20.ErrReadonly:
		return "readonly"
	}
	return "?" + err.Error()
}

type L struct {
	tok *grc20.Token
	led *grc20.PrivateLedger
}

func newL(_ int, rlm realm, sinkAmt int64) *L {
	tok, led := grc20.NewToken("Verif Token", "VT", 0, 0, rlm)
	x := &L{tok, led}
	if sinkAmt > 0 {
		if err := led.Mint(sink, sinkAmt); err != nil {
			panic("sink mint: " + err.Error())
		}
	}
	return x
}

func (x *L) teller(_ int, rlm realm, via string, actor int) grc20.Teller {
	switch via {
	case "imp":
		return x.led.ImpersonateTeller(addrs[actor])
	case "realm":
		return x.tok.RealmTeller(0, rlm)
	case "caller":
		return x.tok.CallerTeller()
	case "ro":
		return x.tok.ReadonlyTeller()
	}
	panic("via " + via)
}

// r prints the error class of a call; a panic inside the call is reported as such.
func r(tag string, f func() error) {
	var err error
	p := false
	func() {
		defer func() {
			if rec := recover(); rec != nil {
				p = true
			}
		}()
		err = f()
	}()
	if p {
		println(tag, "PANIC")
	} else {
		println(tag, ec(err))
	}
}

// proj prints every query method: total supply, every balance, every allowance (index 0 is
// the invalid address), read through the Token and cross-checked through a Teller.
func (x *L) proj() {
	s := "P " + i64(x.tok.TotalSupply()) + " |"
	ro := x.tok.ReadonlyTeller()
	for _, a := range addrs {
		s += " " + i64(x.tok.BalanceOf(a))
		if ro.BalanceOf(a) != x.tok.BalanceOf(a) {
			s += "!teller"
		}
	}
	s += " |"
	for _, o := range addrs {
		for _, sp := range addrs {
			s += " " + i64(x.tok.Allowance(o, sp))
			if ro.Allowance(o, sp) != x.tok.Allowance(o, sp) {
				s += "!teller"
			}
		}
	}
	if ro.TotalSupply() != x.tok.TotalSupply() {
		s += " !teller-supply"
	}
	println(s)
}

func i64(n int64) string {
	if n == 0 {
		return "0"
	}
	neg := n < 0
	s := ""
	for n != 0 {
		d := n % 10
		if d < 0 {
			d = -d
		}
		s = string(rune('0'+d)) + s
		n /= 10
	}
	if neg {
		s = "-" + s
	}
	return s
}
`

// ---------------------------------------------------------------- embedding

type emb struct {
	name string
	k    uint  // shift
	sink int64 // pre-minted to the sink account
}

func embeddings(cap_ int) []emb {
	if cap_ <= 0 || (cap_+1)&cap_ != 0 {
		mbt.Die("Cap+1 must be a power of two, got Cap=%d", cap_)
	}
	// Cap << k <= MaxInt64 < (Cap+1) << k
	k := uint(63 - bits.TrailingZeros64(uint64(cap_+1)))
	return []emb{{"scaled", k, 0}, {"offset", 0, math.MaxInt64 - int64(cap_)}}
}

func (e emb) amt(n int) int64 {
	if n < 0 {
		return int64(n)
	}
	return int64(n) << e.k
}

// ---------------------------------------------------------------- programs

type lineRef struct {
	step int
	kind string // "reply" | "proj"
	exp  string
	act  string
}

type group struct {
	id    int
	beh   int
	e     emb
	lines []lineRef
	src   string
}

func stLine(st map[string]any, na int, e emb) string {
	s := mbt.Step(st)
	out := "P " + strconv.FormatInt(e.amt(s.Int("supply"))+e.sink, 10) + " |"
	bal := mbt.Ints(st["bal"])
	out += " 0"
	for a := 1; a <= na; a++ {
		out += " " + strconv.FormatInt(e.amt(bal[a-1]), 10)
	}
	out += " |"
	al, _ := st["allow"].([]any)
	for o := 0; o <= na; o++ {
		for sp := 0; sp <= na; sp++ {
			if o == 0 || sp == 0 {
				out += " 0"
				continue
			}
			out += " " + strconv.FormatInt(e.amt(mbt.Ints(al[o-1])[sp-1]), 10)
		}
	}
	return out
}

func compile(id, bi int, beh []mbt.Step, na int, e emb) *group {
	g := &group{id: id, beh: bi, e: e}
	var sb strings.Builder
	fmt.Fprintf(&sb, "func b%d(_ int, rlm realm) {\n\tprintln(\"#%d\")\n\tx := newL(0, rlm, %d)\n", id, id, e.sink)
	for i, s := range beh {
		n := e.amt(s.Int("n"))
		var call string
		switch s.Act() {
		case "Mint":
			call = fmt.Sprintf("x.led.Mint(addrs[%d], %d)", s.Int("a"), n)
		case "Burn":
			call = fmt.Sprintf("x.led.Burn(addrs[%d], %d)", s.Int("a"), n)
		case "SpendAllowance":
			call = fmt.Sprintf("x.led.SpendAllowance(addrs[%d], addrs[%d], %d)", s.Int("o"), s.Int("sp"), n)
		case "Transfer":
			if s.Str("via") == "ledger" {
				call = fmt.Sprintf("x.led.Transfer(addrs[%d], addrs[%d], %d)", s.Int("from"), s.Int("to"), n)
			} else {
				call = fmt.Sprintf("x.teller(0, rlm, %q, %d).Transfer(0, rlm, addrs[%d], %d)", s.Str("via"), s.Int("from"), s.Int("to"), n)
			}
		case "Approve":
			if s.Str("via") == "ledger" {
				call = fmt.Sprintf("x.led.Approve(addrs[%d], addrs[%d], %d)", s.Int("o"), s.Int("sp"), n)
			} else {
				call = fmt.Sprintf("x.teller(0, rlm, %q, %d).Approve(0, rlm, addrs[%d], %d)", s.Str("via"), s.Int("o"), s.Int("sp"), n)
			}
		case "TransferFrom":
			if s.Str("via") == "ledger" {
				call = fmt.Sprintf("x.led.TransferFrom(addrs[%d], addrs[%d], addrs[%d], %d)", s.Int("o"), s.Int("sp"), s.Int("to"), n)
			} else {
				call = fmt.Sprintf("x.teller(0, rlm, %q, %d).TransferFrom(0, rlm, addrs[%d], addrs[%d], %d)", s.Str("via"), s.Int("sp"), s.Int("o"), s.Int("to"), n)
			}
		default:
			mbt.Die("unknown act %q", s.Act())
		}
		fmt.Fprintf(&sb, "\tr(\"E\", func() error { return %s })\n\tx.proj()\n", call)
		g.lines = append(g.lines, lineRef{step: i, kind: "reply", exp: "E " + s.Str("reply"), act: s.Act()})
		g.lines = append(g.lines, lineRef{step: i, kind: "proj", exp: stLine(s["st"].(map[string]any), na, e), act: s.Act()})
	}
	sb.WriteString("}\n")
	g.src = sb.String()
	return g
}

type runner struct {
	e     *appenv.Env
	acct  *appenv.Account
	num   uint64
	seq   uint64
	addrs []string // index = account id; 0 = invalid
	sink  string
	nruns int
	gas   int64
	intx  int
}

func (r *runner) decls() string {
	var q []string
	for _, a := range r.addrs {
		q = append(q, strconv.Quote(a))
	}
	return "var addrs = []address{" + strings.Join(q, ", ") + "}\n\nvar sink = address(" + strconv.Quote(r.sink) + ")\n\n"
}

func (r *runner) run(gs []*group) (map[int][]string, string) {
	var sb strings.Builder
	sb.WriteString(prelude)
	sb.WriteString(r.decls())
	for _, g := range gs {
		sb.WriteString(g.src)
	}
	sb.WriteString("func main(cur realm) {\n")
	for _, g := range gs {
		fmt.Fprintf(&sb, "\tb%d(0, cur)\n", g.id)
	}
	sb.WriteString("}\n")
	if !r.e.InBlock {
		r.e.BeginBlock()
	}
	msg := vm.NewMsgRun(r.acct.Addr, nil, []*std.MemFile{{Name: "main.gno", Body: sb.String()}})
	nl := 0
	for _, g := range gs {
		nl += len(g.lines)
	}
	// gas budget: ~20x what the unchanged package needs (measured <= 1.5M gas per printed line)
	tx := appenv.SignTx([]std.Msg{msg}, 3_000_000_000+int64(nl)*30_000_000, 1_000_000, appenv.ChainID, r.acct, r.num, r.seq)
	res := r.e.Deliver(tx)
	if res.GasWanted > 0 {
		r.seq++
	}
	r.nruns++
	r.gas += res.GasUsed
	r.intx++
	if r.intx >= 4 {
		r.e.EndBlockCommit()
		r.intx = 0
	}
	if !res.IsOK() {
		if _, oog := res.Error.(std.OutOfGasError); oog {
			return nil, "out of gas"
		}
		return nil, fmt.Sprintf("%v | %s", res.Error, res.Log)
	}
	out := map[int][]string{}
	cur := -1
	for _, l := range strings.Split(string(res.Data), "\n") {
		if strings.HasPrefix(l, "#") {
			cur, _ = strconv.Atoi(l[1:])
			continue
		}
		if l == "" || cur < 0 {
			continue
		}
		out[cur] = append(out[cur], l)
	}
	return out, ""
}

type failure struct{ key, what string }

var (
	drift       int
	driftSample string
)

// compare returns the first verdict failure of a group (nil if none).
func compare(g *group, beh []mbt.Step, got []string) *failure {
	if len(got) != len(g.lines) {
		return &failure{"C51:output", fmt.Sprintf("program printed %d lines, expected %d: %q", len(got), len(g.lines), got)}
	}
	for i, lr := range g.lines {
		l := got[i]
		s := beh[lr.step]
		switch lr.kind {
		case "reply":
			if l == lr.exp {
				continue
			}
			if strings.HasSuffix(l, "PANIC") {
				return &failure{"C51:" + lr.act + ":panic", fmt.Sprintf("[%s] step %d %s panicked (spec reply %q)", g.e.name, lr.step, mbt.JS(s), lr.exp)}
			}
			if (l == "E ok") != (lr.exp == "E ok") {
				return &failure{"C51:" + lr.act + ":verdict", fmt.Sprintf("[%s] step %d %s: real %q, spec %q", g.e.name, lr.step, mbt.JS(s), l, lr.exp)}
			}
			drift++ // both fail, different sentinel error: guidance only
			if driftSample == "" {
				driftSample = fmt.Sprintf("step %s: real %q spec %q", mbt.JS(s), l, lr.exp)
			}
		case "proj":
			if l == lr.exp {
				continue
			}
			key := "C51:" + lr.act + ":state"
			failedCall := got[i-1] != "E ok"
			if failedCall {
				key = "C51:" + lr.act + ":failed-call-changed-state"
				if lr.act == "TransferFrom" && s.Int("o") == s.Int("to") {
					key = "C51:TransferFrom:owner=to:failed-call-spent-allowance"
				}
			}
			return &failure{key, fmt.Sprintf("[%s] after step %d %s (real reply %q): queries print %q, spec %q  (format: supply | balances of accounts 0..n | allowances owner-major)",
				g.e.name, lr.step, mbt.JS(s), got[i-1], l, lr.exp)}
		}
	}
	return nil
}

type bset struct {
	na, cap_ int
	label    string
	behs     [][]mbt.Step
}

func readSets(path string) []*bset {
	fh, err := os.Open(path)
	if err != nil {
		mbt.Die("%v", err)
	}
	defer fh.Close()
	var sets []*bset
	sc := bufio.NewScanner(fh)
	sc.Buffer(make([]byte, 1<<20), 1<<28)
	for sc.Scan() {
		line := strings.TrimSpace(sc.Text())
		if line == "" {
			continue
		}
		if line[0] == '{' {
			var d struct {
				NA    int    `json:"na"`
				Cap   int    `json:"cap"`
				Label string `json:"label"`
			}
			if err := json.Unmarshal([]byte(line), &d); err != nil || d.NA <= 0 || d.Cap <= 0 {
				mbt.Die("bad directive %q", line)
			}
			sets = append(sets, &bset{na: d.NA, cap_: d.Cap, label: d.Label})
			continue
		}
		var steps []mbt.Step
		if err := json.Unmarshal([]byte(line), &steps); err != nil {
			mbt.Die("bad behaviour line: %v", err)
		}
		if len(sets) == 0 {
			mbt.Die("behaviour before the first {na,cap,label} directive")
		}
		cur := sets[len(sets)-1]
		cur.behs = append(cur.behs, steps)
	}
	if err := sc.Err(); err != nil {
		mbt.Die("%v", err)
	}
	return sets
}

func runSet(r *runner, set *bset, accts []*appenv.Account) {
	r.addrs = []string{""}
	for a := 1; a <= set.na; a++ {
		r.addrs = append(r.addrs, accts[a-1].Addr.String())
	}
	embs := embeddings(set.cap_)
	drift, driftSample = 0, ""
	nruns0, gas0 := r.nruns, r.gas
	var groups []*group
	for bi, b := range set.behs {
		for _, e := range embs {
			groups = append(groups, compile(len(groups), bi, b, set.na, e))
		}
	}
	failed := map[string]bool{}
	perKey := map[string]int{}
	unreported, lines, okc := 0, 0, 0
	report := func(g *group, fl *failure) {
		id := fmt.Sprintf("%d/%s", g.beh, g.e.name)
		if failed[id] {
			return
		}
		if len(failed) >= maxReported || perKey[fl.key] >= maxPerKey {
			unreported++
			return
		}
		perKey[fl.key]++
		// re-run alone, fresh token, own transaction
		g1 := compile(0, g.beh, set.behs[g.beh], set.na, g.e)
		out, errs := r.run([]*group{g1})
		repro := errs != ""
		if errs == "" {
			repro = compare(g1, set.behs[g.beh], out[0]) != nil
		}
		if !repro {
			mbt.Die("FLAKY: behaviour %d failed in a batch (%s: %s) but not alone", g.beh, fl.key, fl.what)
		}
		failed[id] = true
		mbt.Mismatch(fl.key, fl.what, map[string]any{"na": set.na, "cap": set.cap_, "embedding": g.e.name, "steps": set.behs[g.beh]})
	}
	const maxStmts = 600
	for i := 0; i < len(groups); {
		j, n := i, 0
		for j < len(groups) && (j == i || n+len(groups[j].lines) <= maxStmts) {
			n += len(groups[j].lines)
			j++
		}
		batch := groups[i:j]
		i = j
		out, errs := r.run(batch)
		if errs != "" {
			for _, g := range batch {
				o1, e1 := r.run([]*group{g})
				if e1 == "out of gas" {
					report(g, &failure{"C51:no-answer", "the calls did not finish within 20x the gas the unchanged package needs"})
					continue
				}
				if e1 != "" {
					mbt.Die("generated program does not run (not a verdict): %s", e1)
				}
				if fl := compare(g, set.behs[g.beh], o1[g.id]); fl != nil {
					report(g, fl)
				} else {
					okc++
				}
			}
			continue
		}
		for _, g := range batch {
			lines += len(g.lines)
			if fl := compare(g, set.behs[g.beh], out[g.id]); fl != nil {
				report(g, fl)
			} else {
				okc++
			}
		}
	}
	if len(set.behs) > 0 {
		mbt.Sample(map[string]any{"na": set.na, "cap": set.cap_, "steps": set.behs[len(set.behs)/2]})
	}
	mbt.Summary(map[string]any{"set": set.label, "behaviours": len(set.behs), "replays": len(groups), "replays_ok": okc,
		"msgruns": r.nruns - nruns0, "lines": lines, "gas": r.gas - gas0, "unreported_failures": unreported,
		"errclass_drift": drift, "drift_sample": driftSample})
}

func main() {
	f := mbt.ParseFlags()
	root := gnoenv.RootDir()
	if _, err := os.Stat(filepath.Join(root, "examples", "gno.land/p/demo/tokens/grc20", "token.gno")); err != nil {
		mbt.Die("gno root %q has no grc20 package: %v", root, err)
	}
	sets := readSets(f.In)
	dep := appenv.NewAccount("deployer")
	// account 1 runs the programs (RealmTeller / CallerTeller resolve to it)
	accts := []*appenv.Account{appenv.NewAccount("a"), appenv.NewAccount("b"), appenv.NewAccount("c"), appenv.NewAccount("d")}
	var pkgs []appenv.Pkg
	for _, p := range genesisPkgs {
		pkgs = append(pkgs, loadPkg(root, p))
	}
	e, err := appenv.New(appenv.Options{
		MaxGas:   1_000_000_000_000,
		Balances: map[crypto.Address]int64{dep.Addr: 1e15, accts[0].Addr: 1e15},
		Deployer: dep,
		Pkgs:     pkgs,
	})
	if err != nil {
		mbt.Die("app: %v", err)
	}
	ai := e.Account(accts[0].Addr)
	r := &runner{e: e, acct: accts[0], num: ai.Num, seq: ai.Seq, sink: appenv.NewAccount("sink").Addr.String()}
	for _, set := range sets {
		if set.na > len(accts) {
			mbt.Die("na too large")
		}
		runSet(r, set, accts)
	}
	if e.InBlock {
		e.EndBlockCommit()
	}
	mbt.Flush()
}
