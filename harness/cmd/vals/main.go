// Driver for C03 (spec/Heap.tla): every TLC-generated call sequence of the universal realm
// gno.land/r/verif/vals is executed TWICE on the real gno.land application:
//
//	(a) one transaction per call (each MsgCall in its own committed block; every message starts
//	    with an empty object cache, so each call works on values re-loaded from their persisted
//	    bytes; optionally the whole application is re-opened between calls);
//	(b) all calls inside ONE transaction of a second instance of the same realm (one MsgCall
//	    interpreting the whole script: no persistence boundary between the calls).
//
// VERDICT: every call's return string (a rendering of the whole realm state, hidden parts of the
// backing arrays included) and the final qeval dump are equal between (a) and (b).
// The prediction of spec/Heap.tla is a guidance observable only (counted as drift).
package main

import (
	"fmt"
	"regexp"
	"sort"
	"strconv"
	"strings"

	"github.com/gnolang/gno/gno.land/pkg/sdk/vm"
	"github.com/gnolang/gno/tm2/pkg/crypto"
	"github.com/gnolang/gno/tm2/pkg/std"

	"verifharness/appenv"
	"verifharness/mbt"
)

const valsSrc = `package PKG

import (
	"strconv"
	"strings"
)

type Box struct {
	N    int
	Ref  *int
	View []int
}

var (
	S    [3][]int
	P    [2]*int
	T    [2]Box
	TP   *Box
	M    map[string][]int
	I    any
	Inc  func() int
	Get  func() int
	Adr  func() *int
	next int
)

func reset() {
	S = [3][]int{}
	P = [2]*int{}
	T = [2]Box{}
	TP = nil
	M = map[string][]int{}
	I = nil
	Inc, Get, Adr = nil, nil, nil
	next = 1
}

func fresh() int {
	v := next
	next++
	return v
}

func atoi(s string) int {
	n, err := strconv.Atoi(s)
	if err != nil {
		panic("bad int " + s)
	}
	return n
}

func rs(s []int) string {
	if s == nil {
		return "nil"
	}
	out := strconv.Itoa(len(s)) + "/" + strconv.Itoa(cap(s)) + ":"
	full := s[:cap(s)]
	for i, v := range full {
		if i == len(s) {
			out += "|"
		} else if i > 0 {
			out += ","
		}
		out += strconv.Itoa(v)
	}
	return out
}

func rp(p *int) string {
	if p == nil {
		return "nil"
	}
	return "*" + strconv.Itoa(*p)
}

func rb(b Box) string { return "{" + strconv.Itoa(b.N) + " " + rp(b.Ref) + " " + rs(b.View) + "}" }

// Dump renders the whole state; it does not change anything.
func Dump() string {
	out := "S=" + rs(S[0]) + ";" + rs(S[1]) + ";" + rs(S[2])
	out += " P=" + rp(P[0]) + ";" + rp(P[1])
	out += " T=" + rb(T[0]) + ";" + rb(T[1])
	if TP == nil {
		out += " TP=nil"
	} else {
		out += " TP=" + strconv.Itoa(TP.N)
	}
	out += " M="
	for _, k := range []string{"x", "y"} {
		if v, ok := M[k]; ok {
			out += k + ":" + rs(v) + ";"
		}
	}
	switch x := I.(type) {
	case nil:
		out += " I=nil"
	case []int:
		out += " I=s" + rs(x)
	case *int:
		out += " I=p" + rp(x)
	case Box:
		out += " I=b" + rb(x)
	}
	if Get == nil {
		out += " C=nil"
	} else {
		out += " C=" + strconv.Itoa(Get())
	}
	return out
}

func do(op string) {
	f := strings.Fields(op)
	if len(f) == 0 {
		return
	}
	a := func(i int) int { return atoi(f[i]) - 1 } // spec indices are 1-based
	switch f[0] {
	case "reset":
		reset()
	case "mk": // mk s n c
		s := make([]int, atoi(f[2]), atoi(f[3]))
		for i := range s {
			s[i] = fresh()
		}
		S[a(1)] = s
	case "rs": // rs d s i j
		S[a(1)] = S[a(2)][atoi(f[3]):atoi(f[4])]
	case "ap":
		S[a(1)] = append(S[a(2)], fresh())
	case "se": // se s i
		S[a(1)][atoi(f[2])] = fresh()
	case "pe": // pe p s i
		P[a(1)] = &S[a(2)][atoi(f[3])]
	case "pw":
		*P[a(1)] = fresh()
	case "ts": // ts t s p
		T[a(1)] = Box{N: fresh(), Ref: P[a(3)], View: S[a(2)]}
	case "tc":
		T[1] = T[0]
	case "tv":
		T[a(1)].View[0] = fresh()
	case "ta":
		T[a(1)].View = append(T[a(1)].View, fresh())
	case "tp":
		TP = &T[a(1)]
	case "tn":
		TP.N = fresh()
	case "ms": // ms k s
		M[f[1]] = S[a(2)]
	case "ma":
		M[f[1]] = append(M[f[1]], fresh())
	case "me":
		M[f[1]][0] = fresh()
	case "md":
		delete(M, f[1])
	case "ib":
		I = S[a(1)]
	case "ip":
		I = P[a(1)]
	case "it":
		I = T[a(1)]
	case "ia":
		I = append(I.([]int), fresh())
	case "iw":
		switch x := I.(type) {
		case *int:
			*x = fresh()
		case []int:
			x[0] = fresh()
		case Box:
			x.View[0] = fresh()
		}
	case "cm":
		c := fresh()
		Inc = func() int { c++; return c }
		Get = func() int { return c }
		Adr = func() *int { return &c }
	case "ci":
		Inc()
	case "cp":
		P[a(1)] = Adr()
	default:
		panic("bad op " + f[0])
	}
}

// Script runs the ops (separated by ';') in ONE realm transaction and returns the dump after each.
func Script(cur realm, ops string) string {
	out := ""
	for _, op := range strings.Split(ops, ";") {
		do(op)
		out += Dump() + "#"
	}
	return out
}
`

func src(path string) string {
	return strings.ReplaceAll(valsSrc, "PKG", path[strings.LastIndex(path, "/")+1:])
}

type world struct {
	e    *appenv.Env
	user *appenv.Account
	txs  int
}

func (w *world) call(path, fn string, args ...string) (bool, string, string) {
	ai := w.e.Account(w.user.Addr)
	tx := appenv.SignTx([]std.Msg{vm.NewMsgCall(w.user.Addr, nil, path, fn, args)}, 400_000_000, 1_000_000, appenv.ChainID, w.user, ai.Num, ai.Seq)
	w.e.BeginBlock()
	r := w.e.Deliver(tx)
	w.e.EndBlockCommit()
	w.txs++
	return r.IsOK(), string(r.Data), r.Log
}

// the MsgCall result of a string-returning function is `("<quoted>" string)`
func unquoteResult(data string) string {
	s := strings.TrimSpace(data)
	i, j := strings.Index(s, "(\""), strings.LastIndex(s, "\" string)")
	if i < 0 || j < 0 {
		return s
	}
	q, err := strconv.Unquote(s[i+1 : j+1])
	if err != nil {
		return s[i+2 : j]
	}
	return q
}

func opString(st mbt.Step) string {
	a, b, c, d := st.Str("a"), st.Str("b"), st.Str("c"), st.Str("d")
	switch st.Act() {
	case "mk":
		return fmt.Sprintf("mk %s %s %s", a, b, c)
	case "rs":
		return fmt.Sprintf("rs %s %s %s %s", a, b, c, d)
	case "ap":
		return fmt.Sprintf("ap %s %s", a, b)
	case "se":
		return fmt.Sprintf("se %s %s", a, b)
	case "pe":
		return fmt.Sprintf("pe %s %s %s", a, b, c)
	case "ts":
		return fmt.Sprintf("ts %s %s %s", a, b, c)
	case "ms":
		return fmt.Sprintf("ms %s %s", a, b)
	case "pw", "tv", "ta", "tp", "ma", "me", "md", "ib", "ip", "it", "cp":
		return st.Act() + " " + a
	default: // tc tn ia iw cm ci
		return st.Act()
	}
}

// ---- rendering of the spec's prediction in the realm's dump format (guidance only)
func num(v any) int {
	f, _ := v.(float64)
	return int(f)
}
func rsSpec(x any) string {
	m, _ := x.(map[string]any)
	if b, _ := m["nil"].(bool); b {
		return "nil"
	}
	l, c := num(m["len"]), num(m["cap"])
	el, _ := m["el"].([]any)
	out := fmt.Sprintf("%d/%d:", l, c)
	for i, v := range el {
		if i == l {
			out += "|"
		} else if i > 0 {
			out += ","
		}
		out += strconv.Itoa(num(v))
	}
	return out
}
func rpSpec(x any) string {
	m, _ := x.(map[string]any)
	if b, _ := m["nil"].(bool); b {
		return "nil"
	}
	return "*" + strconv.Itoa(num(m["v"]))
}
func rbSpec(x any) string {
	m, _ := x.(map[string]any)
	return "{" + strconv.Itoa(num(m["n"])) + " " + rpSpec(m["ref"]) + " " + rsSpec(m["view"]) + "}"
}
func dumpSpec(st any) string {
	m, _ := st.(map[string]any)
	s, _ := m["s"].([]any)
	p, _ := m["p"].([]any)
	t, _ := m["t"].([]any)
	if len(s) != 3 || len(p) != 2 || len(t) != 2 {
		return "?"
	}
	out := "S=" + rsSpec(s[0]) + ";" + rsSpec(s[1]) + ";" + rsSpec(s[2])
	out += " P=" + rpSpec(p[0]) + ";" + rpSpec(p[1])
	out += " T=" + rbSpec(t[0]) + ";" + rbSpec(t[1])
	tp, _ := m["tp"].(map[string]any)
	if b, _ := tp["nil"].(bool); b {
		out += " TP=nil"
	} else {
		out += " TP=" + strconv.Itoa(num(tp["n"]))
	}
	out += " M="
	mm, _ := m["m"].(map[string]any)
	keys := []string{}
	for k := range mm {
		keys = append(keys, k)
	}
	sort.Strings(keys)
	for _, k := range keys {
		e, _ := mm[k].(map[string]any)
		if h, _ := e["has"].(bool); h {
			out += k + ":" + rsSpec(e["view"]) + ";"
		}
	}
	i, _ := m["i"].(map[string]any)
	switch i["k"] {
	case "nil":
		out += " I=nil"
	case "slice":
		out += " I=s" + rsSpec(i["s"])
	case "ptr":
		out += " I=p" + rpSpec(i["p"])
	case "box":
		out += " I=b" + rbSpec(i["b"])
	}
	c, _ := m["c"].(map[string]any)
	if h, _ := c["has"].(bool); h {
		out += " C=" + strconv.Itoa(num(c["get"]))
	} else {
		out += " C=nil"
	}
	return out
}

// first variable group (S, P, T, TP, M, I, C) in which two dumps differ
func diffGroup(x, y string) string {
	fx, fy := strings.Fields(x), strings.Fields(y)
	for i := 0; i < len(fx) && i < len(fy); i++ {
		if fx[i] != fy[i] {
			return strings.SplitN(fx[i], "=", 2)[0]
		}
	}
	return "shape"
}

// atoms of a dump: one per variable (S0, S1, S2, P0, P1, T0, T1, TP, each map key, I, C)
func atoms(d string) []string {
	var out []string
	for _, f := range strings.Fields(d) {
		out = append(out, strings.Split(f, ";")...)
	}
	return out
}

// a call is an aliased write when its effect is visible through at least two variables
func changedAtoms(x, y string) int {
	ax, ay := atoms(x), atoms(y)
	n := 0
	for i := 0; i < len(ax) && i < len(ay); i++ {
		if ax[i] != ay[i] {
			n++
		}
	}
	return n
}

func main() {
	f := mbt.ParseFlags()
	behs, err := mbt.ReadBehaviours(f.In)
	if err != nil {
		mbt.Die("read: %v", err)
	}
	restartEvery := 0 // -x N: re-open the application (fresh app object over the same DB) before every N-th call of mode (a)
	if f.Extra != "" {
		restartEvery, _ = strconv.Atoi(f.Extra)
	}
	u, d := appenv.NewAccount("u"), appenv.NewAccount("deployer")
	e, err := appenv.New(appenv.Options{
		MaxGas:   3_000_000_000,
		Balances: map[crypto.Address]int64{u.Addr: 4_000_000_000_000_000, d.Addr: 1_000_000_000_000},
		Deployer: d,
	})
	if err != nil {
		mbt.Die("app: %v", err)
	}
	w := &world{e: e, user: u}
	ninst := 0
	// a fresh pair of instances of the realm: (a) per-call, (b) single transaction
	deploy := func() (string, string) {
		ninst++
		pa, pb := fmt.Sprintf("gno.land/r/verif/valsa%d", ninst), fmt.Sprintf("gno.land/r/verif/valsb%d", ninst)
		for _, p := range []string{pa, pb} {
			ai := w.e.Account(u.Addr)
			tx := appenv.SignTx([]std.Msg{appenv.AddPkgMsg(u.Addr, appenv.Pkg{Path: p, Files: map[string]string{"vals.gno": src(p)}})},
				600_000_000, 1_000_000, appenv.ChainID, u, ai.Num, ai.Seq)
			w.e.BeginBlock()
			r := w.e.Deliver(tx)
			w.e.EndBlockCommit()
			if !r.IsOK() {
				mbt.Die("deploy %s: %.500s", p, r.Log)
			}
		}
		return pa, pb
	}
	pa, pb := deploy()
	sum := map[string]int{}
	reported := map[string]bool{}
	seenBeh := map[string]bool{}
	ncall := 0
	for bi, beh := range behs {
		ops := make([]string, 0, len(beh))
		for _, st := range beh {
			ops = append(ops, opString(st))
			sum["op_"+st.Act()]++
		}
		sum["replays"]++
		// (b) everything in one transaction
		okB, dataB, logB := w.call(pb, "Script", "reset;"+strings.Join(ops, ";"))
		var dumpsB []string
		if okB {
			dumpsB = strings.Split(strings.TrimSuffix(unquoteResult(dataB), "#"), "#")
			if len(dumpsB) != len(ops)+1 {
				mbt.Die("mode b returned %d dumps for %d ops: %q", len(dumpsB), len(ops), dataB)
			}
			dumpsB = dumpsB[1:]
		}
		// (a) one transaction per call. A VM panic inside a transaction is a RESULT (compared with the
		// other mode), never an infrastructure failure: an instance whose state can no longer even be
		// re-initialised was broken by the per-call execution of an earlier behaviour.
		if ok, _, log := w.call(pa, "Script", "reset"); !ok {
			key := "C03:persistence-changes-result:panic-only-with-boundaries"
			if !reported[key+":reset"] {
				reported[key+":reset"] = true
				prev := map[string]any{"beh": bi - 1}
				if bi > 0 {
					prev["steps"] = behs[bi-1]
				}
				mbt.Mismatch(key, fmt.Sprintf("after the per-call execution of behaviour %d the realm instance cannot be re-initialised (%s); the single-transaction instance can", bi-1, trim(firstErr(log), 200)), prev)
			}
			sum["mismatches"]++
			sum["instances_replaced"]++
			pa, pb = deploy()
			if ok, _, log := w.call(pa, "Script", "reset"); !ok {
				mbt.Die("reset of a fresh instance failed: %.300s", log)
			}
			okB, dataB, logB = w.call(pb, "Script", "reset;"+strings.Join(ops, ";"))
			dumpsB = nil
			if okB {
				dumpsB = strings.Split(strings.TrimSuffix(unquoteResult(dataB), "#"), "#")[1:]
			}
		}
		failedAt := -1
		logA := ""
		good := true
		aliased := 0
		prevDump := ""
		for i, op := range ops {
			ncall++
			if restartEvery > 0 && ncall%restartEvery == 0 {
				if err := w.e.Reopen(); err != nil {
					mbt.Die("reopen: %v", err)
				}
				sum["restarts"]++
			}
			okA, dataA, lA := w.call(pa, "Script", op)
			sum["steps"]++
			if !okA {
				failedAt = i
				logA = lA
				break
			}
			dA := strings.TrimSuffix(unquoteResult(dataA), "#")
			if prevDump != "" && changedAtoms(prevDump, dA) >= 2 {
				aliased++
			}
			prevDump = dA
			if want := dumpSpec(beh[i]["st"]); want != dA {
				sum["drift_model"]++ // the model is wrong about Gno here: guidance only
				if sum["drift_model"] <= 2 {
					mbt.Sample(map[string]any{"drift": "model", "op": op, "real": dA, "model": want})
				}
			}
			if okB && dA != dumpsB[i] {
				key := "C03:persistence-changes-result:" + diffGroup(dA, dumpsB[i])
				if !reported[key] {
					reported[key] = true
					mbt.Mismatch(key, fmt.Sprintf("after call %d (%q): one transaction per call returns %q, a single transaction returns %q", i+1, op, dA, dumpsB[i]),
						map[string]any{"steps": beh[:i+1], "beh": bi})
				}
				sum["mismatches"]++
				good = false
				break
			}
		}
		switch {
		case !okB && failedAt < 0:
			// the whole script fails in one transaction but every call succeeds on its own
			key := "C03:persistence-changes-result:panic-only-without-boundaries"
			if !reported[key] {
				reported[key] = true
				mbt.Mismatch(key, fmt.Sprintf("the single-transaction execution fails (%s) while every call succeeds in its own transaction", trim(firstErr(logB), 200)), map[string]any{"steps": beh, "beh": bi})
			}
			good = false
		case okB && failedAt >= 0:
			key := "C03:persistence-changes-result:panic-only-with-boundaries"
			if !reported[key] {
				reported[key] = true
				mbt.Mismatch(key, fmt.Sprintf("call %d (%q) fails in its own transaction while the single-transaction execution succeeds", failedAt+1, ops[failedAt]), map[string]any{"steps": beh[:failedAt+1], "beh": bi})
			}
			good = false
		case !okB && failedAt >= 0:
			// both abort: the model generated an illegal call (guidance) - unless they abort differently
			if ea, eb := normErr(firstErr(logA)), normErr(firstErr(logB)); ea != eb {
				key := "C03:persistence-changes-result:different-panic"
				if !reported[key] {
					reported[key] = true
					mbt.Mismatch(key, fmt.Sprintf("call %d (%q): per-call execution aborts with %q, the single transaction with %q", failedAt+1, ops[failedAt], trim(ea, 160), trim(eb, 160)), map[string]any{"steps": beh[:failedAt+1], "beh": bi})
				}
				sum["mismatches"]++
			} else {
				sum["both_failed"]++
			}
			good = false
		}
		if good {
			// the realm state observed afterwards, through a query
			qa, ea := w.e.QEval(pa, "Dump()")
			qb, eb := w.e.QEval(pb, "Dump()")
			if (ea != nil) != (eb != nil) {
				key := "C03:persistence-changes-state:query-fails-only-" + map[bool]string{true: "with", false: "without"}[ea != nil] + "-boundaries"
				if !reported[key] {
					reported[key] = true
					mbt.Mismatch(key, fmt.Sprintf("final vm/qeval Dump(): per-call instance %v, single-transaction instance %v", ea, eb), map[string]any{"steps": beh, "beh": bi})
				}
				sum["mismatches"]++
			} else if ea != nil {
				sum["both_failed"]++
			} else if qa != qb {
				key := "C03:persistence-changes-state:" + diffGroup(unquoteResult(qa), unquoteResult(qb))
				if !reported[key] {
					reported[key] = true
					mbt.Mismatch(key, fmt.Sprintf("final state differs: per-call %q, single transaction %q", qa, qb), map[string]any{"steps": beh, "beh": bi})
				}
				sum["mismatches"]++
			} else {
				sum["replays_ok"]++
				key := strings.Join(ops, ";")
				if aliased > 0 && !seenBeh[key] {
					seenBeh[key] = true
					sum["distinct_nontrivial"]++
				}
				sum["aliased_writes"] += aliased
			}
		}
		if bi < 2 {
			mbt.Sample(map[string]any{"ops": ops, "dumps": dumpsB})
		}
	}
	out := map[string]any{"txs": w.txs}
	for k, v := range sum {
		out[k] = v
	}
	mbt.Summary(out)
	mbt.Flush()
}

var reDigits = regexp.MustCompile(`[0-9a-f]{8,}|[0-9]+`)

// error text with object ids / numbers masked
func normErr(s string) string { return reDigits.ReplaceAllString(s, "#") }

func firstErr(log string) string {
	for _, l := range strings.Split(log, "\n") {
		if strings.Contains(l, "panic") || strings.Contains(l, "Data:") {
			return strings.TrimSpace(l)
		}
	}
	return ""
}

func trim(s string, n int) string {
	if len(s) > n {
		return s[:n]
	}
	return s
}
