// Driver for C38 (spec/WAL.tla): replays TLC behaviours on the real consensus WAL (wal.NewWAL over
// an autofile.Group in a temp dir), reads the log back through a GroupReader + WALReader and through
// SearchForHeight after every step, and enumerates byte-level faults (every truncation byte, every
// byte position x replacement value of every message line) on the final log of each behaviour.
package main

import (
	"bytes"
	"encoding/base64"
	"errors"
	"fmt"
	"io"
	"os"
	"path/filepath"
	"runtime"
	"sort"
	"strings"
	"sync"
	"sync/atomic"
	"time"

	"github.com/gnolang/gno/tm2/pkg/amino"
	auto "github.com/gnolang/gno/tm2/pkg/autofile"
	walm "github.com/gnolang/gno/tm2/pkg/bft/wal"

	"verifharness/mbt"
)

// VMsg is the payload of a log line: a real WALMessage, amino-registered like the consensus ones.
type VMsg struct {
	ID  int64
	Pad []byte
}

func (VMsg) AssertWALMessage() {}

var _ = amino.RegisterPackage(amino.NewPackage("main", "vwal", amino.GetCallersDirname()).WithTypes(VMsg{}))

const maxSize = 1 << 20

var b64 = base64.StdEncoding.WithPadding(base64.NoPadding)

func pad(id int) []byte { // distinguishable, different lengths => all three base64 tail lengths occur
	return bytes.Repeat([]byte{byte(0x41 + id)}, 5+id%7)
}

// ---------------------------------------------------------------- reading back

// item: n>0 message id, -(h+1) marker, 0 = DataCorruptionError, 99999 = other error class
const otherErr = 99999

const keyMeta = "C38:ReadMessage:damaged-hash-line-not-DataCorruptionError"

type readRes struct {
	items []int
	errs  []string // texts of non-DataCorruption errors (guidance for the report)
}

func decodeAll(dec *walm.WALReader) (r readRes) {
	for n := 0; n < 100000; n++ {
		msg, meta, err := dec.ReadMessage()
		switch {
		case errors.Is(err, io.EOF):
			return
		case err != nil && walm.IsDataCorruptionError(err):
			r.items = append(r.items, 0)
		case err != nil:
			r.items = append(r.items, otherErr)
			r.errs = append(r.errs, err.Error())
		case meta != nil:
			r.items = append(r.items, -int(meta.Height)-1)
		case msg != nil:
			if vm, ok := msg.Msg.(VMsg); ok && bytes.Equal(vm.Pad, pad(int(vm.ID))) {
				r.items = append(r.items, int(vm.ID))
			} else {
				r.items = append(r.items, 77777) // an altered / foreign message
			}
		}
	}
	return
}

type machine struct {
	dir string
	w   interface {
		walm.WAL
		Group() *auto.Group
		SetFlushInterval(time.Duration)
	}
}

func openWAL(dir string, start bool) (*machine, error) {
	w, err := walm.NewWAL(filepath.Join(dir, "wal"), maxSize, auto.GroupHeadSizeLimit(0), auto.GroupTotalSizeLimit(0))
	if err != nil {
		return nil, err
	}
	w.SetFlushInterval(24 * time.Hour) // the periodic flush must not race with the model's buffer
	m := &machine{dir: dir, w: w}
	if start {
		if err := w.Start(); err != nil {
			return nil, err
		}
	}
	return m, nil
}

func (m *machine) close(started bool) {
	if started {
		m.w.Stop()
		m.w.Wait()
	} else {
		m.w.Group().Close()
	}
}

func (m *machine) readAll() readRes {
	g := m.w.Group()
	gr, err := g.NewReader(g.MinIndex(), 0)
	if err != nil {
		return readRes{items: []int{otherErr}, errs: []string{err.Error()}}
	}
	defer gr.Close()
	return decodeAll(walm.NewWALReader(gr, maxSize))
}

// search returns found and what the returned reader yields (read the way catchupReplay does).
func (m *machine) search(h int, mode walm.WALSearchMode) (found bool, rest readRes, serr string) {
	var rd io.ReadCloser
	var err error
	if p, val, _ := mbt.Guard(func() {
		rd, found, err = m.w.SearchForHeight(int64(h), &walm.WALSearchOptions{Mode: mode, IgnoreDataCorruptionErrors: true})
	}); p {
		return false, rest, fmt.Sprintf("panic: %v", val)
	}
	if err != nil {
		return false, rest, "error: " + err.Error()
	}
	if rd != nil {
		if found {
			rest = decodeAll(walm.NewWALReader(rd, maxSize))
			for i, x := range rest.items {
				if x == otherErr {
					rest.items[i] = 0 // class reported by the caller from the full read
				}
			}
		}
		rd.Close()
	}
	return found, rest, ""
}

func (m *machine) filePath(index int) string {
	g := m.w.Group()
	if index == g.MaxIndex() {
		return filepath.Join(m.dir, "wal")
	}
	return filepath.Join(m.dir, fmt.Sprintf("wal.%03d", index))
}

// on-disk bytes of every kept file, oldest first
func (m *machine) diskFiles() [][]byte {
	g := m.w.Group()
	var out [][]byte
	for i := g.MinIndex(); i <= g.MaxIndex(); i++ {
		bz, _ := os.ReadFile(m.filePath(i))
		out = append(out, bz)
	}
	return out
}

func copyDir(src string) (string, error) {
	dst, err := os.MkdirTemp("", "walimg")
	if err != nil {
		return "", err
	}
	es, err := os.ReadDir(src)
	if err != nil {
		return "", err
	}
	for _, e := range es {
		bz, err := os.ReadFile(filepath.Join(src, e.Name()))
		if err != nil {
			return "", err
		}
		if err := os.WriteFile(filepath.Join(dst, e.Name()), bz, 0o600); err != nil {
			return "", err
		}
	}
	return dst, nil
}

// line start offsets of complete lines in bz
func lineStarts(bz []byte) (starts []int, ends []int) {
	s := 0
	for i, c := range bz {
		if c == '\n' {
			starts = append(starts, s)
			ends = append(ends, i+1)
			s = i + 1
		}
	}
	return
}

// ---------------------------------------------------------------- replay

type stats struct {
	steps, okc, searches, truncProbes, corruptProbes, groupProbes, layouts int64
}

var (
	st          stats
	seenLayouts sync.Map
	keysSeen    sync.Map
)

func report(key, what string, c any) {
	// one mismatch line per key and behaviour class is enough; keep the first few of each key
	n, _ := keysSeen.LoadOrStore(key, new(int64))
	if atomic.AddInt64(n.(*int64), 1) <= 1 {
		mbt.Mismatch(key, what, c)
	}
}

func eqInts(a, b []int) bool {
	if len(a) != len(b) {
		return false
	}
	for i := range a {
		if a[i] != b[i] {
			return false
		}
	}
	return true
}

func replay(beh []mbt.Step, bi int, seed int64, allValues bool, lastOnly bool) (ok bool) {
	dir, err := os.MkdirTemp("", "wal")
	if err != nil {
		mbt.Die("%v", err)
	}
	m, err := openWAL(dir, true)
	if err != nil {
		mbt.Die("open: %v", err)
	}
	defer func() { m.close(true); os.RemoveAll(m.dir) }()
	ok = true
	var lastRead []int
	for k, s := range beh {
		atomic.AddInt64(&st.steps, 1)
		cs := map[string]any{"steps": beh[:k+1]}
		g := m.w.Group()
		var opErr error
		switch s.Act() {
		case "Write":
			opErr = m.w.Write(VMsg{ID: int64(s.Int("id")), Pad: pad(s.Int("id"))})
		case "WriteSync":
			opErr = m.w.WriteSync(VMsg{ID: int64(s.Int("id")), Pad: pad(s.Int("id"))})
		case "WriteEnd":
			opErr = m.w.WriteMetaSync(walm.MetaMessage{Height: int64(s.Int("h"))})
		case "Rotate":
			np := s.Int("np")
			if np > 0 {
				// make ensureTotalSizeLimit remove exactly the np oldest files
				total := g.TotalSize()
				var sum int64
				for i := 0; i < np; i++ {
					idx := g.MinIndex() + i
					if idx == g.MaxIndex() {
						sum += g.HeadSize()
					} else if fi, err := os.Stat(m.filePath(idx)); err == nil {
						sum += fi.Size()
					}
				}
				auto.GroupTotalSizeLimit(total - sum + 1)(g)
			}
			g.RotateFile()
			auto.GroupTotalSizeLimit(0)(g)
		case "Crash":
			// the process dies: what is on disk stays, the buffer is lost; then the head is cut
			img, err := copyDir(m.dir)
			if err != nil {
				mbt.Die("copy: %v", err)
			}
			old := m
			headPath := filepath.Join(img, "wal")
			bz, _ := os.ReadFile(headPath)
			starts, ends := lineStarts(bz)
			kk := s.Int("k")
			if kk < len(starts) {
				cut := 0
				if kk > 0 {
					cut = ends[kk-1]
				}
				if s.Bool("torn") {
					ln := ends[kk] - starts[kk] // incl. newline; keep 1..ln-1 bytes of a message line
					if bz[starts[kk]] == '#' {
						ln-- // marker: keep 1..ln-2 bytes (see "named deviations" in spec/WAL.tla)
					}
					cut = starts[kk] + 1 + int((seed*7+int64(bi)*13+int64(k)*5)%int64(ln-1))
				}
				if err := os.Truncate(headPath, int64(cut)); err != nil {
					mbt.Die("truncate: %v", err)
				}
			} else if kk > len(starts) {
				if lastOnly {
					return false // an earlier step already deviates; its own (shorter) behaviour reports it
				}
				mbt.Die("Crash k=%d but head has %d lines on disk", kk, len(starts))
			}
			old.close(true)
			os.RemoveAll(old.dir)
			m, err = openWAL(img, true)
			if err != nil {
				report("C38:Reopen:failed", fmt.Sprintf("step %d: reopening the WAL after a crash failed: %v", k, err), cs)
				return false
			}
		case "Corrupt":
			idx := g.MinIndex() + s.Int("f") - 1
			p := m.filePath(idx)
			bz, _ := os.ReadFile(p)
			starts, ends := lineStarts(bz)
			i := s.Int("i") - 1
			if i >= len(starts) {
				if lastOnly {
					return false
				}
				mbt.Die("Corrupt line %d of %d", i, len(starts))
			}
			ln := ends[i] - starts[i] - 1
			pos := starts[i] + int((seed*11+int64(bi)*3+int64(k))%int64(ln-1)) // never the last char
			nv := byte('A')
			if bz[pos] == 'A' {
				nv = 'B'
			}
			bz[pos] = nv
			if err := os.WriteFile(p, bz, 0o600); err != nil {
				mbt.Die("%v", err)
			}
		default:
			mbt.Die("unknown act %q", s.Act())
		}
		if opErr != nil {
			report("C38:"+s.Act()+":error", fmt.Sprintf("step %d %s: %v", k, mbt.JS(s), opErr), cs)
			return false
		}
		// ---- projection: read everything, search every height in both modes (edge mode: every
		// edge is the last step of exactly one behaviour, so comparing there covers each once)
		exp := s["st"].(map[string]any)
		expRead := mbt.Ints(exp["read"])
		if lastOnly && k < len(beh)-1 {
			lastRead = expRead
			continue
		}
		got := m.readAll()
		g = m.w.Group()
		hadOther := false
		for i, x := range got.items {
			if x == otherErr { // an error that is not a DataCorruptionError: a damaged line all the same
				got.items[i] = 0
				hadOther = true
			}
		}
		if hadOther {
			ok = false
			report(keyMeta, fmt.Sprintf("step %d %s: reading log %v: a damaged line starting with '#' is reported as %q, not as DataCorruptionError", k, mbt.JS(s), expRead, got.errs), cs)
		}
		if !eqInts(got.items, expRead) {
			key := "C38:Read:" + s.Act()
			for _, x := range got.items {
				if x == 77777 {
					key = "C38:Read:altered-message"
				}
			}
			report(key, fmt.Sprintf("step %d %s: read %v files %d..%d (spec %v files %d..%d) %v", k, mbt.JS(s), got.items, g.MinIndex(), g.MaxIndex(),
				expRead, mbt.Step(exp).Int("min"), mbt.Step(exp).Int("max"), got.errs), cs)
			return false
		}
		lastRead = expRead
		// per-file line counts, to name the file-boundary class of a short search result
		var fileEnd []int // fileEnd[j] = number of lines in files 0..j
		tot := 0
		for _, bz := range m.diskFiles() {
			s1, _ := lineStarts(bz)
			tot += len(s1)
			fileEnd = append(fileEnd, tot)
		}
		poss := mbt.Ints(exp["search"])
		for hi, pos := range poss {
			for _, mode := range []walm.WALSearchMode{walm.WALSearchModeBackwards, walm.WALSearchModeBinary} {
				atomic.AddInt64(&st.searches, 1)
				found, rest, serr := m.search(hi, mode)
				var want []int
				if pos > 0 {
					want = expRead[pos:]
				}
				if serr == "" && found == (pos > 0) && eqInts(rest.items, want) {
					continue
				}
				ok = false
				key := fmt.Sprintf("C38:SearchForHeight:%s", map[bool]string{true: "found-mismatch", false: "rest-mismatch"}[found != (pos > 0)])
				if serr != "" && hadOther && strings.HasPrefix(serr, "error") {
					key = keyMeta // the search aborts on the same non-corruption error
				} else if serr != "" {
					key = "C38:SearchForHeight:" + strings.SplitN(serr, ":", 2)[0]
				} else if found && pos > 0 && len(rest.items) < len(want) && eqInts(rest.items, want[:len(rest.items)]) {
					for _, fe := range fileEnd {
						if pos+len(rest.items) == fe {
							key = "C38:SearchForHeight:reader-stops-at-end-of-file"
						}
					}
				}
				report(key, fmt.Sprintf("step %d %s: SearchForHeight(%d, mode %d): found=%v rest=%v %s (spec: found=%v rest=%v; log %v, lines per file cumulative %v)",
					k, mbt.JS(s), hi, mode, found, rest.items, serr, pos > 0, want, expRead, fileEnd), cs)
			}
		}
	}
	// ---- byte-level fault enumeration on the final log (once per distinct abstract layout)
	files := m.diskFiles()
	var counts []string
	for _, bz := range files {
		s1, _ := lineStarts(bz)
		counts = append(counts, fmt.Sprint(len(s1)))
	}
	layoutKey := fmt.Sprint(lastRead) + "|" + strings.Join(counts, ",")
	if _, dup := seenLayouts.LoadOrStore(layoutKey, true); !dup {
		atomic.AddInt64(&st.layouts, 1)
		cs := map[string]any{"steps": beh}
		if !truncProbes(files, lastRead, cs) {
			ok = false
		}
		if !corruptProbes(files, lastRead, cs, allValues && atomic.LoadInt64(&st.layouts) <= 300) {
			ok = false
		}
		if !groupTruncProbes(m, files, lastRead, cs) {
			ok = false
		}
	}
	return ok
}

func concat(files [][]byte) []byte {
	var out []byte
	for _, f := range files {
		out = append(out, f...)
	}
	return out
}

// every truncation byte of the concatenated log, decoded by the real WALReader
func truncProbes(files [][]byte, read []int, cs any) bool {
	stream := concat(files)
	_, ends := lineStarts(stream)
	for b := 0; b <= len(stream); b++ {
		atomic.AddInt64(&st.truncProbes, 1)
		k := sort.SearchInts(ends, b+1) // number of complete lines within stream[:b]
		got := decodeAll(walm.NewWALReader(bytes.NewReader(stream[:b]), maxSize))
		for i, x := range got.items {
			if x == otherErr {
				got.items[i] = 0 // error class of already damaged lines is reported by the full read
			}
		}
		if k > len(read) {
			k = len(read)
		}
		if !eqInts(got.items, read[:k]) {
			report("C38:Truncate:not-a-prefix", fmt.Sprintf("log %v truncated at byte %d of %d: read %v, want the first %d lines then EOF %v", read, b, len(stream), got.items, k, got.errs), cs)
			return false
		}
	}
	return true
}

// truncation realised on real group files: cut file j at a line boundary / inside a line, remove later files
func groupTruncProbes(m *machine, files [][]byte, read []int, cs any) bool {
	g := m.w.Group()
	min, max := g.MinIndex(), g.MaxIndex()
	for j := range files {
		starts, ends := lineStarts(files[j])
		for li := 0; li <= len(starts); li++ {
			for _, mid := range []bool{false, true} {
				cut := 0
				if li > 0 {
					cut = ends[li-1]
				}
				if mid {
					if li == len(starts) {
						continue
					}
					cut = starts[li] + (ends[li]-starts[li])/2
				}
				atomic.AddInt64(&st.groupProbes, 1)
				img, err := os.MkdirTemp("", "walcut")
				if err != nil {
					mbt.Die("%v", err)
				}
				for x := 0; x <= j; x++ {
					name := fmt.Sprintf("wal.%03d", min+x)
					if min+x == max {
						name = "wal"
					}
					bz := files[x]
					if x == j {
						bz = bz[:cut]
					}
					os.WriteFile(filepath.Join(img, name), bz, 0o600)
				}
				pm, err := openWAL(img, false)
				if err != nil {
					report("C38:Reopen:failed", fmt.Sprintf("reopen of truncated group failed: %v", err), cs)
					os.RemoveAll(img)
					return false
				}
				got := pm.readAll()
				for i, x := range got.items {
					if x == otherErr {
						got.items[i] = 0
					}
				}
				pm.close(false)
				os.RemoveAll(img)
				k := 0
				for x := 0; x < j; x++ {
					s1, _ := lineStarts(files[x])
					k += len(s1)
				}
				k += li
				if !eqInts(got.items, read[:k]) {
					report("C38:Truncate:not-a-prefix", fmt.Sprintf("group %v cut in file %d at byte %d: read %v, want first %d lines %v", read, min+j, cut, got.items, k, got.errs), cs)
					return false
				}
			}
		}
	}
	return true
}

var quickValues = []int{'\n', '#', '\r', '=', 0x00, 0xff, ' ', '-'}

// every byte of every message line (incl. its newline) replaced by other values
func corruptProbes(files [][]byte, read []int, cs any, allValues bool) bool {
	stream := concat(files)
	starts, ends := lineStarts(stream)
	if len(starts) != len(read) {
		return true // a torn tail: lines and items are still aligned for complete lines
	}
	good := true
	for j := range starts {
		if read[j] <= 0 || read[j] >= 70000 {
			continue // markers (no CRC: named deviation) and already damaged lines
		}
		orig := stream[starts[j] : ends[j]-1]
		origDec, _ := b64.DecodeString(string(orig))
		lo := j - 1
		if lo < 0 {
			lo = 0
		}
		hi := j + 3
		if hi > len(starts) {
			hi = len(starts)
		}
		win := stream[starts[lo]:ends[hi-1]]
		for p := starts[j]; p < ends[j]; p++ {
			var vals []int
			if allValues {
				for v := 0; v < 256; v++ {
					vals = append(vals, v)
				}
			} else {
				o := int(stream[p])
				vals = append(append([]int{}, quickValues...), o^1, o^0x20, 'A', 'B', 'z', '/')
			}
			for _, v := range vals {
				if byte(v) == stream[p] {
					continue
				}
				atomic.AddInt64(&st.corruptProbes, 1)
				w := append([]byte(nil), win...)
				w[p-starts[lo]] = byte(v)
				got := decodeAll(walm.NewWALReader(bytes.NewReader(w), maxSize))
				// benign: the damaged line still decodes to the same bytes (unused base64 bits, '\r')
				benign := false
				if p < ends[j]-1 {
					nl := append([]byte(nil), orig...)
					nl[p-starts[j]] = byte(v)
					if d, err := b64.DecodeString(string(nl)); err == nil && bytes.Equal(d, origDec) && v != '\n' {
						benign = true
					}
				}
				affected := map[int]bool{j: true}
				if p == ends[j]-1 {
					affected[j+1] = true // the newline: this line and the next are glued
				}
				// verdict: every untouched line of the window is read back intact and in order; the
				// affected line(s) are either read back identical or missing; nothing else is returned;
				// every error is a DataCorruptionError; a non-benign change yields at least one error
				var succ []int
				nerr, other := 0, ""
				for _, it := range got.items {
					switch it {
					case 0:
						nerr++
					case otherErr:
						nerr++
						other = "x"
					default:
						succ = append(succ, it)
					}
				}
				wi, altered := 0, false
				for x := lo; x < hi; x++ {
					if read[x] == 0 || read[x] >= 70000 {
						if !affected[x] {
							nerr-- // a line that was already damaged reports its own error
						}
						continue
					}
					if wi < len(succ) && succ[wi] == read[x] {
						wi++
						continue
					}
					if !affected[x] {
						altered = true // an untouched line is missing or out of order
					}
				}
				if wi != len(succ) {
					altered = true // something was returned that is not a line of the log
				}
				what := fmt.Sprintf("log %v, message line %d (id %d) byte %d of %d: %q -> %q: window lines %d..%d read back as %v %v",
					read, j, read[j], p-starts[j], ends[j]-starts[j], stream[p], byte(v), lo, hi-1, got.items, got.errs)
				switch {
				case altered:
					report("C38:Corrupt:altered-or-lost-line", what, cs)
					good = false
				case nerr == 0 && !benign && !(p == ends[j]-1 && j == len(starts)-1): // (last newline gone = torn tail)
					report("C38:Corrupt:not-reported", what, cs)
					good = false
				case other != "":
					report(keyMeta, what, cs)
					good = false
				}
			}
		}
	}
	return good
}

func main() {
	f := mbt.ParseFlags()
	behs, err := mbt.ReadBehaviours(f.In)
	if err != nil {
		mbt.Die("%v", err)
	}
	allValues := f.Extra == "allvalues"
	var wg sync.WaitGroup
	nw := runtime.NumCPU()
	for w := 0; w < nw; w++ {
		wg.Add(1)
		go func(w int) {
			defer wg.Done()
			for i := w; i < len(behs); i += nw {
				if replay(behs[i], i, f.Seed, allValues, f.Mode == "last") {
					atomic.AddInt64(&st.okc, 1)
				}
			}
		}(w)
	}
	wg.Wait()
	for i := 0; i < len(behs) && i < 2; i++ {
		mbt.Sample(behs[len(behs)-1-i])
	}
	mbt.Summary(map[string]any{"behaviours": len(behs), "replays": len(behs), "replays_ok": st.okc, "steps": st.steps,
		"searches": st.searches, "distinct_final_layouts": st.layouts, "truncation_probes": st.truncProbes,
		"group_truncation_probes": st.groupProbes, "corruption_probes": st.corruptProbes})
	mbt.Flush()
}
