// Driver for C39 (spec/PartSet.tla): replays TLC behaviours on real types.PartSet objects — a sender's
// set from NewPartSetFromData and a receiver's set from NewPartSetFromHeader filled through AddPart.
package main

import (
	"bytes"
	"crypto/sha256"
	"encoding/json"
	"fmt"
	"io"
	"os"
	"runtime"
	"sort"
	"sync"
	"sync/atomic"

	"github.com/gnolang/gno/tm2/pkg/bft/types"

	"verifharness/mbt"
)

// realisation of the abstract block: part size, size of the last part, content family
type real struct {
	PartSize int    `json:"part_size"`
	Tail     int    `json:"tail"`    // bytes in the last part (1..PartSize)
	Content  string `json:"content"` // "distinct" | "uniform"
}

func (r real) String() string { return fmt.Sprintf("%d/%d/%s", r.PartSize, r.Tail, r.Content) }

func blockBytes(total int, r real) []byte {
	n := (total-1)*r.PartSize + r.Tail
	data := make([]byte, n)
	if r.Content == "uniform" {
		return data // all zero: every full part has the same bytes
	}
	var ctr [8]byte
	for off := 0; off < n; off += 32 {
		ctr[0], ctr[1], ctr[2], ctr[3] = byte(off), byte(off>>8), byte(off>>16), byte(off>>24)
		h := sha256.Sum256(ctr[:])
		copy(data[off:], h[:])
	}
	return data
}

func clonePart(p *types.Part) *types.Part {
	c := &types.Part{Index: p.Index, Bytes: append([]byte(nil), p.Bytes...)}
	c.Proof = p.Proof
	c.Proof.LeafHash = append([]byte(nil), p.Proof.LeafHash...)
	c.Proof.Aunts = make([][]byte, len(p.Proof.Aunts))
	for i, a := range p.Proof.Aunts {
		c.Proof.Aunts[i] = append([]byte(nil), a...)
	}
	return c
}

// mkPart realises (idx, cls) from the sender's set.
func mkPart(src *types.PartSet, total, idx int, cls string) *types.Part {
	base := idx % total // out-of-range indices carry the content of a real part
	other := (base + 1) % total
	p := clonePart(src.GetPart(base))
	p.Index = idx
	if idx >= total {
		p.Proof.Index = idx
	}
	switch cls {
	case "good":
	case "corrupt":
		p.Bytes[len(p.Bytes)/2] ^= 0x10
	case "badleaf":
		p.Proof.LeafHash[3] ^= 0x01
	case "badaunt":
		if len(p.Proof.Aunts) > 0 {
			p.Proof.Aunts[len(p.Proof.Aunts)/2][5] ^= 0x80
		} else {
			p.Proof.LeafHash[7] ^= 0x80 // single-part block: no aunts
		}
	case "extraaunt":
		p.Proof.Aunts = append(p.Proof.Aunts, bytes.Repeat([]byte{0xab}, 32))
	case "wrongtotal":
		p.Proof.Total = total + 1
	case "otherproof":
		p.Proof = clonePart(src.GetPart(other)).Proof
	case "swapped":
		o := clonePart(src.GetPart(other))
		p.Bytes, p.Proof = o.Bytes, o.Proof
	case "forgedindex":
		o := clonePart(src.GetPart(other))
		p.Bytes, p.Proof = o.Bytes, o.Proof
		p.Proof.Index = idx
	default:
		mbt.Die("unknown class %q", cls)
	}
	return p
}

type cand struct {
	what string
	c    any
	rank [2]int
}

var (
	repMu sync.Mutex
	hits  = map[string]int{}
	best  = map[string]cand{}
)

func report(key, what string, r real, beh []mbt.Step, upto, bi int) {
	rk := [2]int{upto + 1, bi}
	repMu.Lock()
	hits[key]++
	if b, ok := best[key]; !ok || rk[0] < b.rank[0] || (rk[0] == b.rank[0] && rk[1] < b.rank[1]) {
		best[key] = cand{what, map[string]any{"real": r, "steps": beh[:upto+1]}, rk}
	}
	repMu.Unlock()
}

var steps, replays, completes int64

func classify(added bool, err error) string {
	switch {
	case err == nil && added:
		return "added"
	case err == nil:
		return "dup"
	case added:
		return "added_with_error"
	case err == types.ErrPartSetUnexpectedIndex:
		return "index"
	case err == types.ErrPartSetInvalidProof:
		return "proof"
	}
	return "err:" + err.Error()
}

func replay(beh []mbt.Step, r real, bi int) {
	atomic.AddInt64(&replays, 1)
	total := beh[0].Int("idx")
	data := blockBytes(total, r)
	var src *types.PartSet
	if p, val, st := mbt.Guard(func() { src = types.NewPartSetFromData(data, r.PartSize) }); p {
		report("C39:NewPartSetFromData:panic", fmt.Sprintf("panicked on %d bytes: %v at %s", len(data), val, mbt.ShortStack(st)), r, beh, 0, bi)
		return
	}
	// the sender's set: complete, right number of parts, reads back the block
	if src.Total() != total || !src.IsComplete() || src.Count() != total {
		report("C39:NewPartSetFromData:shape", fmt.Sprintf("%d bytes in parts of %d: Total=%d Count=%d complete=%v, want %d parts", len(data), r.PartSize, src.Total(), src.Count(), src.IsComplete(), total), r, beh, 0, bi)
		return
	}
	if got, err := io.ReadAll(src.GetReader()); err != nil || !bytes.Equal(got, data) {
		report("C39:NewPartSetFromData:reader", fmt.Sprintf("sender's set does not read back the block (err %v, %d of %d bytes)", err, len(got), len(data)), r, beh, 0, bi)
		return
	}
	header := src.Header()
	ps := types.NewPartSetFromHeader(header)
	for idx, s := range beh {
		atomic.AddInt64(&steps, 1)
		rep := func(key, what string) { report(key, fmt.Sprintf("step %d %s [%s]: %s", idx, mbt.JS(map[string]any{"idx": s.Int("idx"), "cls": s.Str("cls")}), r, what), r, beh, idx, bi) }
		reply := ""
		if s.Act() == "AddPart" {
			part := mkPart(src, total, s.Int("idx"), s.Str("cls"))
			var added bool
			var err error
			if p, val, st := mbt.Guard(func() { added, err = ps.AddPart(part) }); p {
				rep("C39:AddPart:panic:"+s.Str("reply"), fmt.Sprintf("AddPart panicked: %v at %s", val, mbt.ShortStack(st)))
				return
			}
			reply = classify(added, err)
			if reply != s.Str("reply") {
				rep("C39:AddPart:"+s.Str("cls")+":"+s.Str("reply")+"->"+reply, fmt.Sprintf("AddPart replied %q, spec %q", reply, s.Str("reply")))
				return
			}
		}
		st := s["st"].(map[string]any)
		have := mbt.Ints(st["have"])
		sort.Ints(have)
		inHave := map[int]bool{}
		for _, i := range have {
			inHave[i] = true
		}
		// projection through the public methods
		obsHave := []int{}
		ba := ps.BitArray()
		for i := 0; i < total; i++ {
			if ba.GetIndex(i) {
				obsHave = append(obsHave, i)
			}
		}
		if ps.Count() != int(st["count"].(float64)) || ps.IsComplete() != st["complete"].(bool) || !mbt.Eq(obsHave, have) ||
			ps.Total() != total || ba.Size() != total || !ps.HasHeader(header) {
			rep("C39:"+s.Act()+":state", fmt.Sprintf("Count=%d IsComplete=%v BitArray=%v Total=%d; spec count=%v complete=%v have=%v",
				ps.Count(), ps.IsComplete(), obsHave, ps.Total(), st["count"], st["complete"], have))
			return
		}
		// what is stored is the sender's bytes, each at its own index
		for i := 0; i < total; i++ {
			p := ps.GetPart(i)
			if (p != nil) != inHave[i] {
				rep("C39:"+s.Act()+":stored", fmt.Sprintf("GetPart(%d) present=%v, spec %v", i, p != nil, inHave[i]))
				return
			}
			if p != nil && (!bytes.Equal(p.Bytes, src.GetPart(i).Bytes) || p.Index != i) {
				rep("C39:"+s.Act()+":stored-content", fmt.Sprintf("GetPart(%d) does not hold the sender's part %d", i, i))
				return
			}
		}
		if st["complete"].(bool) {
			atomic.AddInt64(&completes, 1)
			var got []byte
			var err error
			if p, val, _ := mbt.Guard(func() { got, err = io.ReadAll(ps.GetReader()) }); p || err != nil {
				rep("C39:GetReader:failed", fmt.Sprintf("reading the complete set failed: %v %v", val, err))
				return
			}
			if !bytes.Equal(got, data) {
				rep("C39:GetReader:bytes", fmt.Sprintf("reassembled %d bytes differ from the %d-byte block", len(got), len(data)))
				return
			}
			// same bytes, same hash: re-splitting what was read gives the proposed header
			if again := types.NewPartSetFromData(got, r.PartSize); !again.HasHeader(header) {
				rep("C39:GetReader:hash", "re-splitting the reassembled bytes gives a different part-set header")
				return
			}
		}
	}
}

func realisations(total int, tier string, usesOther bool) []real {
	rs := []real{{4, 1, "distinct"}, {4, 3, "distinct"}, {4, 4, "distinct"}, {33, 33, "distinct"}, {33, 1, "distinct"}}
	if !usesOther {
		rs = append(rs, real{4, 4, "uniform"}, real{4, 2, "uniform"})
	}
	if total <= 3 || tier == "thorough" && total <= 9 {
		ps := types.BlockPartSizeBytes
		rs = append(rs, real{ps, ps, "distinct"}, real{ps, 1, "distinct"}, real{ps, ps - 1, "distinct"})
	}
	return rs
}

func readLines(path string) [][]byte {
	bz, err := os.ReadFile(path)
	if err != nil {
		mbt.Die("%v", err)
	}
	var out [][]byte
	for _, l := range bytes.Split(bz, []byte{'\n'}) {
		if len(l) > 0 {
			out = append(out, l)
		}
	}
	return out
}

func decodeBeh(line []byte) []mbt.Step {
	var steps []mbt.Step
	if err := json.Unmarshal(line, &steps); err != nil {
		mbt.Die("bad behaviour line: %v", err)
	}
	return steps
}

func main() {
	f := mbt.ParseFlags()
	lines := readLines(f.In) // decoded per worker
	var only *real
	if f.Extra != "" {
		var r real
		if _, err := fmt.Sscanf(f.Extra, "%d/%d/%s", &r.PartSize, &r.Tail, &r.Content); err != nil {
			mbt.Die("bad -x %q: %v", f.Extra, err)
		}
		only = &r
	}
	var wg sync.WaitGroup
	nw := runtime.NumCPU()
	for w := 0; w < nw; w++ {
		wg.Add(1)
		go func(w int) {
			defer wg.Done()
			for i := w; i < len(lines); i += nw {
				beh := decodeBeh(lines[i])
				if len(beh) == 0 || beh[0].Act() != "Init" {
					mbt.Die("behaviour must start with Init")
				}
				usesOther := false
				for _, s := range beh {
					switch s.Str("cls") {
					case "otherproof", "swapped", "forgedindex":
						usesOther = true
					}
				}
				if only != nil {
					replay(beh, *only, i)
					continue
				}
				rs := realisations(beh[0].Int("idx"), f.Tier, usesOther)
				// two realisations per behaviour in the quick tier (rotating), all in the thorough tier
				if f.Tier != "thorough" {
					a := (i + int(f.Seed)) % len(rs)
					b := (a + 1 + (i/len(rs))%(len(rs)-1)) % len(rs)
					rs = []real{rs[a], rs[b]}
				}
				for _, r := range rs {
					replay(beh, r, i)
				}
			}
		}(w)
	}
	wg.Wait()
	keys := make([]string, 0, len(best))
	for k := range best {
		keys = append(keys, k)
	}
	sort.Strings(keys)
	for _, k := range keys {
		mbt.Mismatch(k, best[k].what, best[k].c)
	}
	for i := 0; i < len(lines) && i < 2; i++ {
		mbt.Sample(json.RawMessage(lines[len(lines)-1-i]))
	}
	sm := map[string]any{"behaviours": len(lines), "replays": replays, "steps": steps, "complete_sets_read_back": completes}
	for k, v := range hits {
		sm["hits "+k] = v
	}
	mbt.Summary(sm)
	mbt.Flush()
}
