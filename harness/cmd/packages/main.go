// Driver for C12 (spec/Packages.tla): replays TLC behaviours on the REAL gno.land application
// (in-process, real VM keeper, real ante handler): every AddPkg step is a signed MsgAddPackage
// transaction, every Call step a signed MsgCall; after every step the block is committed and
// the deployed code is read back through the public ABCI queries vm/qfile (file list and every
// file body of every valid path) and vm/qeval (package state), and compared with the spec.
//
// One application instance serves all behaviours: behaviour i uses its own fresh path strings
// (suffix x<i>), so behaviours do not interfere. Behaviours advance in lockstep (step j of
// every behaviour of a batch in block j).
//
// Verdict observables: accept/reject of every transaction; vm/qfile output for every valid path
// after every step (file names, bodies, gnomod.toml module/private/creator); nothing is
// served under a rejected path; /p/ package state and the realm's own counter (vm/qeval).
// Guidance observable: the class of the error (counted as drift).
package main

import (
	"bufio"
	"encoding/json"
	"fmt"
	"os"
	"sort"
	"strings"
	"time"

	"github.com/gnolang/gno/gno.land/pkg/sdk/vm"
	gno "github.com/gnolang/gno/gnovm/pkg/gnolang"
	"github.com/gnolang/gno/gnovm/pkg/gnomod"
	abci "github.com/gnolang/gno/tm2/pkg/bft/abci/types"
	"github.com/gnolang/gno/tm2/pkg/crypto"
	"github.com/gnolang/gno/tm2/pkg/std"

	"verifharness/appenv"
	"verifharness/mbt"
)

const maxPerKey = 2 // mismatches reported per failure class and driver process

const maxReported = 4 // mismatches re-run and reported per driver process (the rest is counted)

var validPaths = []string{"p1", "r1", "r1v", "r2", "ra"}

type world struct {
	e     *appenv.Env
	accts map[string]*appenv.Account // "A", "B"
	seq   map[string]uint64
	num   map[string]uint64

	stdlibList, stdlibBody string
	tTx, tCommit, tQuery   time.Duration
}

const namesSrc = `package names

var owners = map[string]string{"alice": "%s", "bob": "%s"}

// IsAuthorizedAddressForNamespace is what the VM keeper calls before accepting a deployment.
func IsAuthorizedAddressForNamespace(addr address, ns string) bool {
	if string(addr) == ns {
		return true
	}
	return owners[ns] == string(addr)
}
`

// ---------------------------------------------------------------- paths

// pathOf returns the concrete path string and package name of a path id / class for behaviour u.
func (w *world) pathOf(id string, u string) (path, name string) {
	f := "f" + u
	base := "gno.land/r/alice/" + f
	switch id {
	case "r1":
		return base, f
	case "r1v":
		return base + "/v2", f
	case "p1":
		return "gno.land/p/alice/l" + u, "l" + u
	case "r2":
		return "gno.land/r/bob/g" + u, "g" + u
	case "ra":
		return "gno.land/r/" + w.accts["B"].Addr.String() + "/h" + u, "h" + u
	// classes that must always be rejected
	case "upper":
		return "gno.land/r/alice/F" + u, f
	case "slash":
		return base + "/", f
	case "dotdot":
		return "gno.land/r/alice/../alice/" + f, f
	case "otherdom":
		return "example.com/r/alice/" + f, f
	case "nodom":
		return "alice/" + f, f
	case "long":
		return base + strings.Repeat("a", 260), f + strings.Repeat("a", 260)
	case "test":
		return base + "_test", f + "_test"
	case "filetest":
		return base + "_filetest", f + "_filetest"
	case "run":
		return "gno.land/e/" + w.accts["A"].Addr.String() + "/run", "run"
	case "letterx":
		return "gno.land/x/alice/" + f, f
	case "hash":
		return base + "#x", f
	case "vv":
		return base + "/v2/v3", f
	case "dblslash":
		return "gno.land/r/alice//" + f, f
	case "hyphen":
		return base + "-", f
	case "underscore2":
		return "gno.land/r/alice/f__" + u, "f__" + u
	case "digitstart":
		return "gno.land/r/alice/1" + f, f
	case "empty":
		return "", f
	case "stdlib":
		return "strings", "strings"
	case "space":
		return "gno.land/r/alice/f " + u, f
	case "dot":
		return "gno.land/r/alice/f." + u, f
	}
	mbt.Die("unknown path id %q", id)
	return "", ""
}

// ---------------------------------------------------------------- file sets

func gnomodToml(path string, priv bool, extra string) string {
	s := gno.GenGnoModLatest(path)
	if !strings.HasSuffix(s, "\n") {
		s += "\n"
	}
	if priv {
		s += "private = true\n"
	}
	return s + extra
}

const libSrc = `package %s

// gen %d variant FL
type Counter struct{ n int }

func (c *Counter) Inc()   { c.n++ }
func (c *Counter) N() int { return c.n }

var (
	n int
	C = &Counter{}
	S []int
	M = map[string]int{}
)

func init() {
	n = 1
	C.n = 1
	S = append(S, 1)
	M["a"] = 1
}

func SetN(v int)            { n = v }
func Append(v int)          { S = append(S, v) }
func Put(k string, v int)   { M[k] = v }
func Ptr() *int             { return &n }
func Setter() func(int)     { return func(v int) { n = v } }
func State() string {
	return itoa(n) + "," + itoa(C.n) + "," + itoa(len(S)) + "," + itoa(len(M))
}

func itoa(v int) string {
	if v == 0 {
		return "0"
	}
	s := ""
	for v > 0 {
		s = string(rune('0'+v%%10)) + s
		v /= 10
	}
	return s
}
`

const userSrc = `package %s

// gen %d variant FU
import lib "%s"

var own int

func Poke(cur realm, kind string) {
	switch kind {
	case "own":
		own++
	case "assign":
		lib.SetN(7)
	case "method":
		lib.C.Inc()
	case "slice":
		lib.Append(2)
	case "map":
		lib.Put("b", 2)
	case "ptr":
		*lib.Ptr() = 9
	case "closure":
		lib.Setter()(8)
	default:
		panic("unknown kind")
	}
}

func Peek() string {
	s := "0"
	if own > 0 {
		s = ""
		for v := own; v > 0; v /= 10 {
			s = string(rune('0'+v%%10)) + s
		}
	}
	return lib.State() + ";" + s
}
`

// files returns the files of variant fs (gnomod.toml included), keyed by name.
func files(fs, path, name string, priv bool, gen int, libPath string) map[string]string {
	plain := func(tag string) string {
		return fmt.Sprintf("package %s\n\n// gen %d variant %s\nvar V = \"%s-%d\"\n\nfunc Hello() string { return V }\n", name, gen, tag, tag, gen)
	}
	test := fmt.Sprintf("package %s\n\nimport \"testing\"\n\n// gen %d\nfunc TestHello(t *testing.T) {\n\tif Hello() == \"\" {\n\t\tt.Fail()\n\t}\n}\n", name, gen)
	m := map[string]string{"gnomod.toml": gnomodToml(path, priv, "")}
	switch fs {
	case "F1":
		m["a.gno"] = plain("F1")
	case "F2":
		m["a.gno"] = plain("F2")
		m["a_test.gno"] = test
	case "F5":
		m["a.gno"] = plain("F5")
		m["z_filetest.gno"] = fmt.Sprintf("package main\n\n// gen %d\nfunc main() {\n\tprintln(\"hi\")\n}\n\n// Output:\n// hi\n", gen)
		m["README.md"] = fmt.Sprintf("# %s gen %d\n", name, gen)
	case "FL":
		m["a.gno"] = fmt.Sprintf(libSrc, name, gen)
	case "FU":
		m["a.gno"] = fmt.Sprintf(userSrc, name, gen, libPath)
	case "FT":
		m["a_test.gno"] = strings.Replace(test, "Hello() == \"\"", "false", 1)
	case "FN":
		m["a.gno"] = strings.Replace(plain("FN"), "package "+name, "package other", 1)
	case "FC":
		m["a.gno"] = plain("FC") + "\nvar bad int = \"not an int\"\n"
	case "FR":
		m["a.gno"] = plain("FR")
		m["gnomod.toml"] = gnomodToml(path, priv, "\n[[replace]]\nold = \"gno.land/p/nt/avl/v0\"\nnew = \"../avl\"\n")
	case "FD":
		m["a.gno"] = plain("FD")
		m["gnomod.toml"] = gnomodToml(path, priv, "draft = true\n")
	case "FM":
		m["a.gno"] = plain("FM")
		m["gno.mod"] = "module " + path + "\n"
	case "FI":
		m["a.gno"] = plain("FI") + "\nfunc init() { panic(\"boom\") }\n"
	default:
		mbt.Die("unknown file set %q", fs)
	}
	return m
}

func memPackage(path, name string, fm map[string]string) *std.MemPackage {
	var names []string
	for n := range fm {
		names = append(names, n)
	}
	sort.Strings(names)
	mp := &std.MemPackage{Name: name, Path: path}
	for _, n := range names {
		mp.Files = append(mp.Files, &std.MemFile{Name: n, Body: fm[n]})
	}
	return mp
}

// ---------------------------------------------------------------- transactions and queries

func (w *world) deliver(who string, msg std.Msg) abci.ResponseDeliverTx {
	a := w.accts[who]
	tx := appenv.SignTx([]std.Msg{msg}, 300_000_000, 1_000_000, appenv.ChainID, a, w.num[who], w.seq[who])
	t0 := time.Now()
	r := w.e.Deliver(tx)
	w.tTx += time.Since(t0)
	if r.GasWanted > 0 {
		w.seq[who]++
	}
	return r
}

func (w *world) qfile(p string) (string, bool) {
	t0 := time.Now()
	defer func() { w.tQuery += time.Since(t0) }()
	res := w.e.App.Query(abci.RequestQuery{Path: "vm/qfile", Data: []byte(p)})
	if !res.IsOK() {
		return "", false
	}
	return string(res.Data), true
}

func errClass(err abci.Error) string {
	if err == nil {
		return ""
	}
	t := fmt.Sprintf("%T", err)
	return t[strings.LastIndex(t, ".")+1:]
}

// classes of keeper errors each spec reason may surface as (guidance only)
var whyClasses = map[string][]string{
	"path":         {"InvalidPkgPathError", "InvalidAddressError", "InvalidPackageError", "TypeCheckError"},
	"name":         {"InvalidPkgPathError"},
	"noprod":       {"InvalidPackageError", "InvalidPkgPathError"},
	"exists":       {"PkgExistError"},
	"typecheck":    {"TypeCheckError"},
	"replace":      {"InvalidPackageError"},
	"priv2pub":     {"InvalidPackageError"},
	"privnonrealm": {"InvalidPackageError"},
	"draft":        {"InvalidPackageError"},
	"gnomod":       {"InvalidPackageError"},
	"unauthorized": {"UnauthorizedUserError"},
	"init":         {"VMPanicError", "InternalError", "abciError"},
}

// ---------------------------------------------------------------- one behaviour

type run struct {
	idx    int
	u      string
	steps  []mbt.Step
	gen    map[string]int    // deployments accepted per valid path (as the spec counts them)
	tried  map[string]string // bad path strings attempted so far -> class id
	failed bool
}

type failure struct{ key, what string }

var (
	drift       int
	driftSample string
	txs         int
	queries     int
)

// submit executes step k of r (one transaction) and returns the accept/reject verdict.
func (w *world) submit(r *run, k int) (ok bool, class string) {
	s := r.steps[k]
	switch s.Act() {
	case "AddPkg":
		id := s.Str("p")
		path, name := w.pathOf(id, r.u)
		libPath, _ := w.pathOf("p1", r.u)
		g := 1
		if st, isValid := r.gen[id]; isValid {
			g = st + 1
		}
		fm := files(s.Str("f"), path, name, s.Bool("priv"), g, libPath)
		if _, isValid := r.gen[id]; !isValid {
			r.tried[path] = id
		}
		msg := vm.MsgAddPackage{Creator: w.accts[s.Str("c")].Addr, Package: memPackage(path, name, fm)}
		res := w.deliver(s.Str("c"), msg)
		txs++
		if os.Getenv("PKG_DEBUG") != "" && !res.IsOK() {
			l := res.Log
			if i := strings.Index(l, "Data:"); i >= 0 {
				l = l[i:]
			}
			if len(l) > 260 {
				l = l[:260]
			}
			fmt.Fprintf(os.Stderr, "ADDPKG %s why=%s -> %s\n", brief(s), s.Str("why"), strings.ReplaceAll(l, "\n", " "))
		}
		return res.IsOK(), errClass(res.Error)
	case "Call":
		path, _ := w.pathOf("r1", r.u)
		res := w.deliver("A", vm.NewMsgCall(w.accts["A"].Addr, nil, path, "Poke", []string{s.Str("kind")}))
		txs++
		if os.Getenv("PKG_DEBUG") != "" {
			l := res.Log
			if i := strings.Index(l, "Data:"); i >= 0 {
				l = l[i:]
			}
			if len(l) > 300 {
				l = l[:300]
			}
			fmt.Fprintf(os.Stderr, "CALL %s -> ok=%v %s\n", s.Str("kind"), res.IsOK(), strings.ReplaceAll(l, "\n", " "))
		}
		return res.IsOK(), errClass(res.Error)
	}
	mbt.Die("unknown act %q", s.Act())
	return false, ""
}

// project compares the committed state with the spec's st after step k.
func (w *world) project(r *run, k int, ok bool, class string) *failure {
	s := r.steps[k]
	act := s.Act()
	wantOK := s.Str("reply") == "ok"
	if ok != wantOK {
		verdict := map[bool]string{true: "accepted", false: "rejected"}
		return &failure{fmt.Sprintf("C12:%s:%s-but-spec-%s", act, verdict[ok], s.Str("reply")),
			fmt.Sprintf("step %d %s: transaction %s (error class %q), spec says %s (%s)", k, brief(s), verdict[ok], class, s.Str("reply"), s.Str("why"))}
	}
	if !ok {
		if cl, has := whyClasses[s.Str("why")]; has && !contains(cl, class) {
			drift++
			if driftSample == "" {
				driftSample = fmt.Sprintf("%s: error class %s, spec reason %s", brief(s), class, s.Str("why"))
			}
		}
	}
	st := s["st"].(map[string]any)
	pk := st["pkgs"].(map[string]any)
	libPath, _ := w.pathOf("p1", r.u)
	for _, id := range validPaths {
		rec := pk[id].(map[string]any)
		path, name := w.pathOf(id, r.u)
		list, found := w.qfile(path)
		queries++
		if rec["fs"] == "none" {
			if found {
				return &failure{"C12:qfile:serves-undeployed-path", fmt.Sprintf("after step %d %s: vm/qfile %s returns %q, spec: nothing deployed there", k, brief(s), path, list)}
			}
			continue
		}
		gen := mbt.Step(rec).Int("gen")
		r.gen[id] = gen
		priv, _ := rec["priv"].(bool)
		want := files(rec["fs"].(string), path, name, priv, gen, libPath)
		var names []string
		for n := range want {
			names = append(names, n)
		}
		sort.Strings(names)
		if !found {
			return &failure{"C12:qfile:deployed-package-missing", fmt.Sprintf("after step %d %s: vm/qfile %s fails, spec: deployed (%v)", k, brief(s), path, rec)}
		}
		if list != strings.Join(names, "\n") {
			return &failure{"C12:qfile:file-list", fmt.Sprintf("after step %d %s: vm/qfile %s lists %q, deployed (gen %d, %s) %q", k, brief(s), path, list, gen, rec["fs"], strings.Join(names, "\n"))}
		}
		for _, n := range names {
			body, okq := w.qfile(path + "/" + n)
			queries++
			if !okq {
				return &failure{"C12:qfile:file-missing", fmt.Sprintf("after step %d %s: vm/qfile %s/%s fails", k, brief(s), path, n)}
			}
			if n == "gnomod.toml" {
				gm, err := gnomod.ParseBytes("gnomod.toml", []byte(body))
				if err != nil {
					return &failure{"C12:qfile:gnomod", fmt.Sprintf("after step %d: stored gnomod.toml of %s does not parse: %v", k, path, err)}
				}
				creator := w.accts[rec["creator"].(string)].Addr.String()
				if gm.Module != path || gm.Private != priv || gm.AddPkg.Creator != creator || gm.Draft || len(gm.Replace) != 0 {
					return &failure{"C12:qfile:gnomod", fmt.Sprintf("after step %d %s: gnomod.toml of %s is %q, deployed module=%s private=%v creator=%s", k, brief(s), path, body, path, priv, creator)}
				}
				continue
			}
			if body != want[n] {
				return &failure{"C12:qfile:body", fmt.Sprintf("after step %d %s: vm/qfile %s/%s returns %q, deployed (gen %d, %s) %q", k, brief(s), path, n, body, gen, rec["fs"], want[n])}
			}
		}
	}
	// nothing is ever served under a rejected path string
	for p, id := range r.tried {
		if p == "" || id == "slash" { // vm/qfile itself strips trailing slashes (std.SplitFilepath)
			continue
		}
		if id == "stdlib" { // a standard library lives there: it must be untouched
			if out, _ := w.qfile(p); out != w.stdlibList {
				return &failure{"C12:qfile:stdlib-changed", fmt.Sprintf("after step %d %s: vm/qfile %q now returns %q, before %q", k, brief(s), p, out, w.stdlibList)}
			}
			if out, _ := w.qfile(p + "/strings.gno"); out != w.stdlibBody {
				return &failure{"C12:qfile:stdlib-changed", fmt.Sprintf("after step %d %s: vm/qfile %s/strings.gno changed", k, brief(s), p)}
			}
			continue
		}
		if out, found := w.qfile(p); found {
			return &failure{"C12:qfile:serves-invalid-path", fmt.Sprintf("after step %d %s: vm/qfile %q (class %s) returns %q", k, brief(s), p, id, out)}
		}
		queries++
	}
	// package state
	r1 := pk["r1"].(map[string]any)
	if r1["fs"] == "FU" {
		path, _ := w.pathOf("r1", r.u)
		got, err := w.e.QEval(path, "Peek()")
		queries++
		want := fmt.Sprintf("(\"%s;%d\" string)", map[int]string{4: "1,1,1,1"}[mbt.Step(st).Int("lib")], mbt.Step(st).Int("own"))
		if err != nil || got != want {
			key := "C12:state"
			if act == "Call" && s.Str("kind") != "own" {
				key = "C12:p-state-mutated:" + s.Str("kind")
			}
			return &failure{key, fmt.Sprintf("after step %d %s: Peek() = %q (err %v), spec %q  (library cells n,C.n,len(S),len(M);realm counter)", k, brief(s), got, err, want)}
		}
	}
	return nil
}

func contains(a []string, s string) bool {
	for _, x := range a {
		if x == s {
			return true
		}
	}
	return false
}

func brief(s mbt.Step) string {
	if s.Act() == "Call" {
		return "Call(" + s.Str("kind") + ")"
	}
	return fmt.Sprintf("AddPkg(%s,%s,%s,priv=%v)", s.Str("c"), s.Str("p"), s.Str("f"), s.Bool("priv"))
}

// ---------------------------------------------------------------- main loop

func readBehaviours(path string) (label string, behs [][]mbt.Step) {
	fh, err := os.Open(path)
	if err != nil {
		mbt.Die("%v", err)
	}
	defer fh.Close()
	sc := bufio.NewScanner(fh)
	sc.Buffer(make([]byte, 1<<20), 1<<28)
	for sc.Scan() {
		line := strings.TrimSpace(sc.Text())
		if line == "" {
			continue
		}
		if line[0] == '{' {
			continue // directive lines are informational for this driver
		}
		var steps []mbt.Step
		if err := json.Unmarshal([]byte(line), &steps); err != nil {
			mbt.Die("bad behaviour line: %v", err)
		}
		behs = append(behs, steps)
	}
	return "all", behs
}

func newWorld() *world {
	w := &world{accts: map[string]*appenv.Account{"A": appenv.NewAccount("alice"), "B": appenv.NewAccount("bob")},
		seq: map[string]uint64{}, num: map[string]uint64{}}
	dep := appenv.NewAccount("deployer")
	e, err := appenv.New(appenv.Options{
		MaxGas:   1_000_000_000_000,
		Balances: map[crypto.Address]int64{dep.Addr: 1e15, w.accts["A"].Addr: 1e15, w.accts["B"].Addr: 1e15},
		Deployer: dep,
		Pkgs: []appenv.Pkg{{Path: "gno.land/r/sys/names", Files: map[string]string{
			"names.gno": fmt.Sprintf(namesSrc, w.accts["A"].Addr.String(), w.accts["B"].Addr.String())}}},
	})
	if err != nil {
		mbt.Die("app: %v", err)
	}
	w.e = e
	w.stdlibList, _ = w.qfile("strings")
	w.stdlibBody, _ = w.qfile("strings/strings.gno")
	if w.stdlibList == "" || w.stdlibBody == "" {
		mbt.Die("cannot read the strings stdlib through vm/qfile")
	}
	for n, a := range w.accts {
		ai := e.Account(a.Addr)
		w.num[n], w.seq[n] = ai.Num, ai.Seq
	}
	return w
}

func (w *world) syncSeq() {
	for n, a := range w.accts {
		ai := w.e.Account(a.Addr)
		if ai.Seq != w.seq[n] {
			mbt.Die("sequence of %s out of step: local %d committed %d", n, w.seq[n], ai.Seq)
		}
	}
}

// runBatch advances the runs in lockstep: block j holds step j of every run.
func (w *world) runBatch(runs []*run, report func(r *run, k int, fl *failure)) {
	maxLen := 0
	for _, r := range runs {
		maxLen = max(maxLen, len(r.steps))
	}
	type res struct {
		ok    bool
		class string
	}
	for k := 0; k < maxLen; k++ {
		w.e.BeginBlock()
		out := map[*run]res{}
		for _, r := range runs {
			if k < len(r.steps) && !r.failed {
				ok, class := w.submit(r, k)
				out[r] = res{ok, class}
			}
		}
		t0 := time.Now()
		w.e.EndBlockCommit()
		w.tCommit += time.Since(t0)
		w.syncSeq()
		for _, r := range runs {
			if o, has := out[r]; has {
				if fl := w.project(r, k, o.ok, o.class); fl != nil {
					r.failed = true
					report(r, k, fl)
				}
			}
		}
	}
}

var uniq int

func newRun(idx int, steps []mbt.Step) *run {
	uniq++
	r := &run{idx: idx, u: fmt.Sprintf("x%d", uniq), steps: steps, gen: map[string]int{}, tried: map[string]string{}}
	for _, id := range validPaths {
		r.gen[id] = 0
	}
	return r
}

func main() {
	f := mbt.ParseFlags()
	_, behs := readBehaviours(f.In)
	w := newWorld()
	failed := map[int]bool{}
	perKey := map[string]int{}
	unreported := 0
	steps := 0
	var report func(r *run, k int, fl *failure)
	report = func(r *run, k int, fl *failure) {
		if failed[r.idx] {
			return
		}
		if len(failed) >= maxReported || perKey[fl.key] >= maxPerKey {
			unreported++
			failed[r.idx] = true
			return
		}
		perKey[fl.key]++
		// re-run alone on fresh paths
		repro := false
		r2 := newRun(r.idx, r.steps)
		w.runBatch([]*run{r2}, func(_ *run, _ int, fl2 *failure) { repro = true })
		if !repro {
			mbt.Die("FLAKY: behaviour %d failed in a batch (%s: %s) but not alone", r.idx, fl.key, fl.what)
		}
		failed[r.idx] = true
		mbt.Mismatch(fl.key, fl.what, map[string]any{"steps": r.steps[:k+1]})
	}
	const batch = 40
	for i := 0; i < len(behs); i += batch {
		var runs []*run
		for j := i; j < len(behs) && j < i+batch; j++ {
			runs = append(runs, newRun(j, behs[j]))
			steps += len(behs[j])
		}
		w.runBatch(runs, report)
	}
	if len(behs) > 0 {
		mbt.Sample(behs[len(behs)/2])
	}
	mbt.Summary(map[string]any{"behaviours": len(behs), "replays": len(behs), "replays_ok": len(behs) - len(failed), "steps": steps,
		"txs": txs, "queries": queries, "unreported_failures": unreported, "errclass_drift": drift, "drift_sample": driftSample})
	if os.Getenv("PKG_TIMING") != "" {
		fmt.Fprintln(os.Stderr, "tx", w.tTx, "commit", w.tCommit, "query", w.tQuery)
	}
	mbt.Flush()
}
