// Driver for C06 (spec/Realm.tla): replays TLC-generated transaction scripts into the REAL
// gno.land application (universal realms gno.land/r/verif/heapN + heapxN over the /p/ type
// node.Node; one MsgCall per spec transaction, each in its own committed block) and after
// every committed transaction reads the RAW committed base store (`oid:` entries,
// 20-byte hash || amino, decoded with amino.UnmarshalAny; references collected by a generic
// walk of the amino-JSON) WITHOUT going through the VM's load path.
//
//   - user-level nodes (label V, fields A, B, W, RefCount, IsEscaped, OwnerID) are compared with
//     the spec's predicted persisted graph (verdict observables);
//   - the WHOLE persisted graph of the realm packages is written as one NDJSON line per
//     committed transaction (-out) for spec/RealmDump.tla, where TLC evaluates the
//     statement's invariants (spec/RealmInv.tla) on every dumped state.
package main

import (
	"bytes"
	"encoding/base64"
	"encoding/binary"
	"encoding/json"
	"fmt"
	"os"
	"sort"
	"strings"

	"github.com/gnolang/gno/gno.land/pkg/sdk/vm"
	gno "github.com/gnolang/gno/gnovm/pkg/gnolang"
	"github.com/gnolang/gno/tm2/pkg/amino"
	"github.com/gnolang/gno/tm2/pkg/crypto"
	dbm "github.com/gnolang/gno/tm2/pkg/db"
	"github.com/gnolang/gno/tm2/pkg/std"

	"verifharness/appenv"
	"verifharness/mbt"
)

const nodePath = "gno.land/p/verif/node"

const nodeSrc = `package node

type Node struct {
	A, B *Node
	V    int
	W    int
}
`

// The same interpreter text is instantiated in both realms (package-level variables can only
// be assigned by code of their own package). Registers: regs[i] holds the node whose label V
// has V%16 == i; at the start of a transaction they are filled with everything reachable from
// the roots of both realms, i.e. the program may hold a pointer to any reachable node.
const interpSrc = `package PKG

import (
	"strconv"
	"strings"

	"gno.land/p/verif/node"
IMPORTS
)

var (
	Root  *node.Node
	Slots [2]*node.Node
)

func setRoot(k int, n *node.Node) {
	if k == 0 {
		Root = n
	} else {
		Slots[k-1] = n
	}
}

// Roots is a plain (non-crossing) reader.
func Roots() []*node.Node { return []*node.Node{Root, Slots[0], Slots[1]} }

func fill(regs []*node.Node, n *node.Node) {
	if n == nil {
		return
	}
	i := n.V % 16
	if regs[i] == n {
		return
	}
	regs[i] = n
	fill(regs, n.A)
	fill(regs, n.B)
}

func atoi(s string) int {
	n, err := strconv.Atoi(s)
	if err != nil {
		panic("bad int " + s)
	}
	return n
}

func interp(cur realm, script string, regs []*node.Node) []*node.Node {
	for _, op := range strings.Split(script, ";") {
		f := strings.Fields(op)
		if len(f) == 0 {
			continue
		}
		switch f[0] {
		case "n": // n i label : regs[i] = new node
			regs[atoi(f[1])] = &node.Node{V: atoi(f[2])}
		case "r": // r k i : root k = regs[i] (regs[0] is always nil)
			setRoot(atoi(f[1]), regs[atoi(f[2])])
		case "a":
			regs[atoi(f[1])].A = regs[atoi(f[2])]
		case "b":
			regs[atoi(f[1])].B = regs[atoi(f[2])]
		case "t": // t i w : regs[i].W = w
			regs[atoi(f[1])].W = atoi(f[2])
		case "x": // x <ops separated by ','> : run in the other realm's frame
			regs = other(cur, strings.ReplaceAll(strings.Join(f[1:], " "), ",", ";"), regs)
		default:
			panic("bad op " + f[0])
		}
	}
	return regs
}

OTHER

func Apply(cur realm, script string) string {
	regs := make([]*node.Node, 16)
	for _, n := range Roots() {
		fill(regs, n)
	}
	FILL2
	interp(cur, script, regs)
	return "ok"
}

// Reset drops every root without loading anything else.
func Reset(cur realm) {
	Root = nil
	Slots[0] = nil
	Slots[1] = nil
	RESET2
}
`

func lastElem(path string) string { return path[strings.LastIndex(path, "/")+1:] }

func heapSrc(heapPath, heap2Path string) string {
	s := strings.ReplaceAll(interpSrc, "PKG", lastElem(heapPath))
	s = strings.ReplaceAll(s, "IMPORTS", "\theap2 \""+heap2Path+"\"")
	s = strings.ReplaceAll(s, "RESET2", "heap2.Reset(cross(cur))")
	s = strings.ReplaceAll(s, "OTHER", `func other(cur realm, script string, regs []*node.Node) []*node.Node {
	out := heap2.Exec(cross(cur), script, regs)
	mine := make([]*node.Node, 16)
	copy(mine, out)
	return mine
}`)
	s = strings.ReplaceAll(s, "FILL2", `for _, n := range heap2.Roots() {
		fill(regs, n)
	}`)
	return s
}

func heap2Src(heap2Path string) string {
	s := strings.ReplaceAll(interpSrc, "PKG", lastElem(heap2Path))
	s = strings.ReplaceAll(s, "IMPORTS", "")
	s = strings.ReplaceAll(s, "RESET2", "")
	s = strings.ReplaceAll(s, "OTHER", `func other(cur realm, script string, regs []*node.Node) []*node.Node {
	panic("no nested frame")
}

func Exec(cur realm, script string, in []*node.Node) []*node.Node {
	regs := make([]*node.Node, 16)
	copy(regs, in)
	return interp(cur, script, regs)
}`)
	s = strings.ReplaceAll(s, "FILL2", "")
	return s
}

// ---------------------------------------------------------------- raw store scanner

type PObj struct {
	ID     string   `json:"id"`
	Kind   string   `json:"kind"`
	IsPkg  bool     `json:"ispkg"`
	RC     int      `json:"rc"`
	Owner  string   `json:"owner"` // "" = none
	Esc    bool     `json:"esc"`
	HashOK bool     `json:"hashok"` // stored hash == hash of stored bytes, and key == oid:<ObjectInfo.ID>
	Refs   []string `json:"refs"`   // ObjectID of every RefValue outside ObjectInfo (with multiplicity)
	NT     int      `json:"nt"`     // NewTime of the object id
	size   int
	raw    map[string]any
	hashes map[string]string // target id -> hash embedded in the RefValue (non-escaped children)
	stored string            // hex of the stored hash
}

// gnoland mounts both sub-stores with an explicit DB handle: rootmulti then uses the key prefix
// "s/_/" for both (the base store's keys start with oid: / pkg: / tid: / node: ...).
const basePrefix = "s/_/"

func collectRefs(g any, refs *[]string, hashes map[string]string) {
	switch x := g.(type) {
	case map[string]any:
		if t, _ := x["@type"].(string); t == "/gno.RefValue" {
			if id, _ := x["ObjectID"].(string); id != "" && !strings.HasSuffix(id, ":0") {
				*refs = append(*refs, id)
				if h, _ := x["Hash"].(string); h != "" {
					hashes[id] = h
				}
			}
			return
		}
		keys := make([]string, 0, len(x))
		for k := range x {
			keys = append(keys, k)
		}
		sort.Strings(keys)
		for _, k := range keys {
			if k == "ObjectInfo" {
				continue
			}
			collectRefs(x[k], refs, hashes)
		}
	case []any:
		for _, y := range x {
			collectRefs(y, refs, hashes)
		}
	}
}

// scan reads every committed `oid:` entry whose key starts with oid:<prefix>.
func scan(db dbm.DB, oidPrefix string) ([]*PObj, error) {
	start := []byte(basePrefix + "oid:" + oidPrefix)
	end := append([]byte{}, start...)
	end[len(end)-1]++
	it, err := db.Iterator(start, end)
	if err != nil {
		return nil, err
	}
	defer it.Close()
	var out []*PObj
	for ; it.Valid(); it.Next() {
		k := string(it.Key())[len(basePrefix):]
		if strings.HasSuffix(k, "#realm") {
			continue // per-realm counters, not objects
		}
		v := it.Value()
		if len(v) < gno.HashSize {
			return nil, fmt.Errorf("short value at %s", k)
		}
		hash, bz := v[:gno.HashSize], v[gno.HashSize:]
		h := gno.HashBytes(bz)
		var obj gno.Object
		if err := amino.UnmarshalAny(bz, &obj); err != nil {
			return nil, fmt.Errorf("decode %s: %v", k, err)
		}
		oi := obj.GetObjectInfo()
		js, err := amino.MarshalJSONAny(obj)
		if err != nil {
			return nil, err
		}
		var g map[string]any
		if err := json.Unmarshal(js, &g); err != nil {
			return nil, err
		}
		p := &PObj{ID: oi.ID.String(), NT: int(oi.ID.NewTime), RC: oi.RefCount, Esc: oi.IsEscaped,
			HashOK: bytes.Equal(h.Bytes(), hash) && k == "oid:"+oi.ID.String(), size: len(v), raw: g,
			hashes: map[string]string{}, stored: fmt.Sprintf("%x", hash)}
		if !oi.OwnerID.IsZero() {
			p.Owner = oi.OwnerID.String()
		}
		p.Kind, _ = g["@type"].(string)
		p.IsPkg = p.Kind == "/gno.PackageValue"
		p.Refs = []string{}
		collectRefs(g, &p.Refs, p.hashes)
		out = append(out, p)
	}
	return out, nil
}

func has(db dbm.DB, oid string) bool {
	v, err := db.Get([]byte(basePrefix + "oid:" + oid))
	return err == nil && v != nil
}

// realmTime decodes Realm.Time (the object-id counter) from the raw oid:<pkgid>:1#realm record.
func realmTime(db dbm.DB, hexid string) int {
	v, err := db.Get([]byte(basePrefix + "oid:" + hexid + ":1#realm"))
	if err != nil || v == nil {
		return -1
	}
	var rlm *gno.Realm
	if err := amino.Unmarshal(v, &rlm); err != nil {
		mbt.Die("realm record %s: %v", hexid, err)
	}
	return int(rlm.Time)
}

func pkgHex(path string) string {
	id := gno.PkgIDFromPkgPath(path)
	return fmt.Sprintf("%x", id.Bytes())
}

// ---------------------------------------------------------------- app + realm instances

type world struct {
	e     *appenv.Env
	user  *appenv.Account
	seq   uint64
	num   uint64
	ninst int
	txs   int
}

func newWorld() *world {
	u, d := appenv.NewAccount("u"), appenv.NewAccount("deployer")
	e, err := appenv.New(appenv.Options{
		MaxGas:   3_000_000_000,
		Balances: map[crypto.Address]int64{u.Addr: 4_000_000_000_000_000, d.Addr: 1_000_000_000_000},
		Deployer: d,
		Pkgs:     []appenv.Pkg{{Path: nodePath, Files: map[string]string{"node.gno": nodeSrc}}},
	})
	if err != nil {
		mbt.Die("app: %v", err)
	}
	w := &world{e: e, user: u}
	ai := e.Account(u.Addr)
	w.seq, w.num = ai.Seq, ai.Num
	return w
}

func (w *world) deliver(msg std.Msg, gas int64) (bool, string) {
	tx := appenv.SignTx([]std.Msg{msg}, gas, 1_000_000, appenv.ChainID, w.user, w.num, w.seq)
	w.e.BeginBlock()
	r := w.e.Deliver(tx)
	w.e.EndBlockCommit()
	w.txs++
	if r.GasWanted > 0 {
		w.seq++
	}
	return r.IsOK(), r.Log
}

func (w *world) call(path, fn string, args ...string) (bool, string) {
	return w.deliver(vm.NewMsgCall(w.user.Addr, nil, path, fn, args), 300_000_000)
}

type instance struct {
	heap, heap2 string
	hx, h2x     string
	holder      map[int]string // 101 Root holder of heap, 102 Slots array of heap, 201 / 202 same for heap2
	holderOf    map[string]int
	kindOf      map[string]string
	dumped      int
}

func (w *world) newInstance() *instance {
	w.ninst++
	in := &instance{heap: fmt.Sprintf("gno.land/r/verif/heap%d", w.ninst), heap2: fmt.Sprintf("gno.land/r/verif/heapx%d", w.ninst),
		holder: map[int]string{}, holderOf: map[string]int{}, kindOf: map[string]string{}}
	in.hx, in.h2x = pkgHex(in.heap), pkgHex(in.heap2)
	for _, p := range []appenv.Pkg{
		{Path: in.heap2, Files: map[string]string{"heap2.gno": heap2Src(in.heap2)}},
		{Path: in.heap, Files: map[string]string{"heap.gno": heapSrc(in.heap, in.heap2)}},
	} {
		ok, log := w.deliver(appenv.AddPkgMsg(w.user.Addr, p), 500_000_000)
		if !ok {
			mbt.Die("deploy %s: %.800s", p.Path, log)
		}
	}
	// locate the holders of the package variables: package block -> HeapItemValue children;
	// the one wrapping an ArrayValue is `Slots`, the other one is `Root`.
	for base, px := range map[int]string{100: in.hx, 200: in.h2x} {
		objs, err := scan(w.e.DB, px)
		if err != nil {
			mbt.Die("scan: %v", err)
		}
		by := map[string]*PObj{}
		for _, o := range objs {
			by[o.ID] = o
		}
		blk := by[px+":2"]
		if blk == nil || blk.Kind != "/gno.Block" {
			mbt.Die("no package block for %s", px)
		}
		for _, r := range blk.Refs {
			c := by[r]
			if c == nil || c.Kind != "/gno.HeapItemValue" {
				continue
			}
			if len(c.Refs) == 1 && by[c.Refs[0]] != nil && by[c.Refs[0]].Kind == "/gno.ArrayValue" {
				in.holder[base+2] = c.Refs[0]
			} else if len(c.Refs) == 0 {
				in.holder[base+1] = c.ID
			}
		}
		if in.holder[base+1] == "" || in.holder[base+2] == "" {
			mbt.Die("cannot locate the root holders of %s", px)
		}
	}
	for k, v := range in.holder {
		in.holderOf[v] = k
	}
	return in
}

// ---------------------------------------------------------------- projection of the user-level graph

type unode struct {
	ID   int
	A, B int
	Val  int
	RC   int
	Own  int // node id, holder id (101..), 0 none, -1 something else
	Esc  bool
	Pkg  int
	hiv  string // object id of the HeapItemValue
	sv   string
	// fact about the real graph used to name a mismatch class
	ownerHolds bool
}

func fieldInt(f any) int {
	m, _ := f.(map[string]any)
	s, _ := m["N"].(string)
	if s == "" {
		return 0
	}
	bz, err := base64.StdEncoding.DecodeString(s)
	if err != nil || len(bz) != 8 {
		return -1
	}
	return int(int64(binary.LittleEndian.Uint64(bz)))
}

// pointer target (HeapItemValue id) of a TypedValue {T: *Node, V: PointerValue{Base: RefValue}}
func ptrTarget(f any) string {
	m, _ := f.(map[string]any)
	v, _ := m["V"].(map[string]any)
	if v == nil {
		return ""
	}
	b, _ := v["Base"].(map[string]any)
	if b == nil {
		return ""
	}
	id, _ := b["ObjectID"].(string)
	return id
}

type graph struct {
	objs []*PObj
	by   map[string]*PObj
}

func (w *world) scanInstance(in *instance) *graph {
	g := &graph{by: map[string]*PObj{}}
	for _, px := range []string{in.hx, in.h2x} {
		objs, err := scan(w.e.DB, px)
		if err != nil {
			mbt.Die("scan: %v", err)
		}
		g.objs = append(g.objs, objs...)
	}
	for _, o := range g.objs {
		g.by[o.ID] = o
	}
	return g
}

// project returns the user-level nodes whose label belongs to the behaviour `base` (label/16 == base).
func project(g *graph, in *instance, base int) (map[int]*unode, map[int][2]int, []string) {
	var notes []string
	nodes := map[int]*unode{}
	byHIV := map[string]int{}
	svOf := map[string]int{}
	for _, o := range g.objs {
		if o.Kind != "/gno.HeapItemValue" {
			continue
		}
		val, _ := o.raw["Value"].(map[string]any)
		t, _ := val["T"].(map[string]any)
		if t == nil || t["@type"] != "/gno.RefType" || t["ID"] != nodePath+".Node" {
			continue
		}
		v, _ := val["V"].(map[string]any)
		svid, _ := v["ObjectID"].(string)
		sv := g.by[svid]
		if sv == nil || sv.Kind != "/gno.StructValue" {
			notes = append(notes, "holder-without-struct "+o.ID)
			continue
		}
		fs, _ := sv.raw["Fields"].([]any)
		if len(fs) != 4 {
			continue
		}
		label := fieldInt(fs[2])
		if label/16 != base {
			continue
		}
		id := label % 16
		if nodes[id] != nil {
			notes = append(notes, fmt.Sprintf("duplicate-label %d", label))
			continue
		}
		n := &unode{ID: id, Val: fieldInt(fs[3]), RC: o.RC, Esc: o.Esc, hiv: o.ID, sv: svid}
		if strings.HasPrefix(o.ID, in.hx) {
			n.Pkg = 1
		} else {
			n.Pkg = 2
		}
		nodes[id] = n
		byHIV[o.ID] = id
		svOf[svid] = id
	}
	tgt := func(id string) int {
		if id == "" {
			return 0
		}
		if n, ok := byHIV[id]; ok {
			return n
		}
		return -1
	}
	for _, n := range nodes {
		fs, _ := g.by[n.sv].raw["Fields"].([]any)
		n.A, n.B = tgt(ptrTarget(fs[0])), tgt(ptrTarget(fs[1]))
		o := g.by[n.hiv]
		switch {
		case o.Owner == "":
			n.Own = 0
		case svOf[o.Owner] != 0:
			n.Own = svOf[o.Owner]
		case in.holderOf[o.Owner] != 0:
			n.Own = in.holderOf[o.Owner]
		default:
			n.Own = -1
		}
		if ow := g.by[o.Owner]; ow != nil {
			for _, r := range ow.Refs {
				if r == n.hiv {
					n.ownerHolds = true
				}
			}
		}
	}
	roots := map[int][2]int{}
	for _, base := range []int{100, 200} {
		if h := g.by[in.holder[base+1]]; h != nil {
			val, _ := h.raw["Value"].(map[string]any)
			roots[base+1] = [2]int{tgt(ptrTarget(val)), 0}
		}
		if a := g.by[in.holder[base+2]]; a != nil {
			l, _ := a.raw["List"].([]any)
			if len(l) == 2 {
				roots[base+2] = [2]int{tgt(ptrTarget(l[0])), tgt(ptrTarget(l[1]))}
			}
		}
	}
	return nodes, roots, notes
}

// ---------------------------------------------------------------- replay

func script(ops []any, base int) string {
	var top []string
	var inner []string
	in := false
	emit := func(s string) {
		if in {
			inner = append(inner, s)
		} else {
			top = append(top, s)
		}
	}
	for _, x := range ops {
		o := mbt.Step(x.(map[string]any))
		p, k, c := o.Int("p"), o.Int("k"), o.Int("c")
		switch o.Str("op") {
		case "new":
			emit(fmt.Sprintf("n %d %d", p, base*16+p))
		case "set":
			switch {
			case p == 101 || p == 201:
				emit(fmt.Sprintf("r 0 %d", c))
			case p == 102 || p == 202:
				emit(fmt.Sprintf("r %d %d", k, c))
			case k == 1:
				emit(fmt.Sprintf("a %d %d", p, c))
			default:
				emit(fmt.Sprintf("b %d %d", p, c))
			}
		case "touch":
			emit(fmt.Sprintf("t %d %d", p, c))
		case "enter":
			in = true
			inner = nil
		case "leave":
			in = false
			top = append(top, "x "+strings.Join(inner, ","))
		}
	}
	return strings.Join(top, ";")
}

type reporter struct {
	seen   map[string]int
	counts map[string]int
}

func (r *reporter) mismatch(key, what string, c any) {
	r.counts["mm:"+key]++
	if r.seen[key] == 0 {
		mbt.Mismatch(key, what, c)
	}
	r.seen[key]++
}

func main() {
	f := mbt.ParseFlags()
	if f.Mode == "probe" {
		probe()
		mbt.Flush()
		return
	}
	behs, err := mbt.ReadBehaviours(f.In)
	if err != nil {
		mbt.Die("read: %v", err)
	}
	dumpDir := f.Out // directory: one file realm_dump_<l>.json per committed transaction (spec/RealmDump.tla)
	w := newWorld()
	in := w.newInstance()
	rep := &reporter{seen: map[string]int{}, counts: map[string]int{}}
	sum := map[string]int{}
	line := 0
	samples := 0
	for bi, beh := range behs {
		base := bi + 1
		caseOf := func(k int) map[string]any {
			return map[string]any{"steps": beh, "failed_at": k + 1, "beh": bi}
		}
		// fresh user-level state: drop every root; a realm pair that cannot be reset any more
		// (left inconsistent by an earlier behaviour) is replaced by a fresh pair
		// ... and so is a pair that has served 60 behaviours: unreachable cycles stay in the store for
		// ever, and every dumped graph contains all of them
		if ok, _ := w.call(in.heap, "Reset"); !ok || (bi > 0 && bi%60 == 0) {
			in = w.newInstance()
			sum["instances"]++
		}
		sum["replays"]++
		good := true
		var prevG *graph
		handSeen := false
		for si, st := range beh {
			ops, _ := st["ops"].([]any)
			if st.Bool("loop") && f.Mode != "crash" {
				// the transcribed save recursion meets an object that is already being saved: realm.go as
				// pinned recurses until the Go stack is exhausted (fatal error, kills the process). Such a
				// transaction is executed only in a dedicated process (mode crash).
				mbt.Emit(map[string]any{"kind": "crashcase", "case": caseOf(si)})
				sum["crashcases"]++
				good = false
				break
			}
			sc := script(ops, base)
			ok, log := w.call(in.heap, "Apply", sc)
			sum["steps"]++
			wantAbort := st.Bool("abort")
			g := w.scanInstance(in)
			line++
			// an object id never names two different kinds of object
			for _, o := range g.objs {
				if k, ok := in.kindOf[o.ID]; ok && k != o.Kind {
					rep.mismatch("C06:IdCounterBehind:oid-reused", fmt.Sprintf("object id %s was a %s and now is a %s [script %q]", o.ID, k, o.Kind, sc), caseOf(si))
				}
				in.kindOf[o.ID] = o.Kind
			}
			// measured: a finalisation of the second realm minted ids from the first realm's counter while the
			// first realm's bytes did not change (hand-over + equal-sized replacement)
			if prevG != nil {
				newIDs, bytes0, bytes1 := 0, 0, 0
				for _, o := range g.objs {
					if strings.HasPrefix(o.ID, in.hx) {
						bytes1 += o.size
						if prevG.by[o.ID] == nil {
							newIDs++
						}
					}
				}
				for _, o := range prevG.objs {
					if strings.HasPrefix(o.ID, in.hx) {
						bytes0 += o.size
					}
				}
				if st.Bool("hand") && newIDs > 0 && bytes0 == bytes1 {
					sum["handover_equal_size_measured"]++
					handSeen = true
				} else if handSeen && newIDs > 0 {
					sum["alloc_after_handover"]++
					handSeen = false
				}
			}
			prevG = g
			if dumpDir != "" {
				writeDump(dumpDir, w, in, g, line, bi, si)
			}
			if ok == wantAbort {
				// ok/abort is not the property's observable (the property is about what is persisted): the
				// model and the code disagree on whether this transaction panics; the persisted graph is
				// still judged by the invariants on the dump, the prediction is not compared any further.
				sum["drift_outcome"]++
				if samples < 3 {
					samples++
					mbt.Sample(map[string]any{"drift": "outcome", "script": sc, "ok": ok, "log": trim(log, 300)})
				}
				good = false
				break
			}
			if !ok {
				sum["aborted"]++
			}
			nodes, roots, notes := project(g, in, base)
			for _, n := range notes {
				rep.mismatch("C06:projection:"+strings.SplitN(n, " ", 2)[0], n, caseOf(si))
			}
			exp, _ := st["st"].([]any)
			stop := false
			for _, x := range exp {
				e := mbt.Step(x.(map[string]any))
				id := e.Int("id")
				if id >= 100 {
					r, okr := roots[id]
					if !okr || r[0] != e.Int("a") || r[1] != e.Int("b") {
						rep.mismatch("C06:content:root", fmt.Sprintf("root holder %d persisted as %v, the program left (%d,%d) [script %q]", id, r, e.Int("a"), e.Int("b"), sc), caseOf(si))
						stop = true
					}
					continue
				}
				n := nodes[id]
				switch {
				case e.Bool("here") && n == nil:
					rep.mismatch("C06:kept:missing", fmt.Sprintf("node %d is referenced by a persisted object but is not in the store [script %q]", id, sc), caseOf(si))
					stop = true
				case !e.Bool("here") && n != nil:
					rep.mismatch("C06:kept:unreferenced-object-persisted", fmt.Sprintf("node %d persisted (rc=%d) although reference counting frees it [script %q]", id, n.RC, sc), caseOf(si))
					stop = true
				case n == nil:
				default:
					sum["nodes_compared"]++
					if n.A != e.Int("a") || n.B != e.Int("b") || n.Val != e.Int("val") {
						rep.mismatch("C06:content:node", fmt.Sprintf("node %d persisted as A=%d B=%d W=%d, current value A=%d B=%d W=%d [script %q]", id, n.A, n.B, n.Val, e.Int("a"), e.Int("b"), e.Int("val"), sc), caseOf(si))
						stop = true
					}
					if n.RC != e.Int("rc") {
						rep.mismatch("C06:RefCountExact", fmt.Sprintf("node %d: RefCount %d, persisted referrers %d [script %q]", id, n.RC, e.Int("rc"), sc), caseOf(si))
						stop = true
					}
					if n.Esc != e.Bool("esc") {
						rep.mismatch("C06:escaped", fmt.Sprintf("node %d: IsEscaped=%v, expected %v (rc=%d) [script %q]", id, n.Esc, e.Bool("esc"), n.RC, sc), caseOf(si))
					}
					if n.Pkg != e.Int("pkg") {
						rep.mismatch("C06:pkgid", fmt.Sprintf("node %d stored under realm %d, allocated in realm %d [script %q]", id, n.Pkg, e.Int("pkg"), sc), caseOf(si))
					}
					if n.Own != e.Int("own") {
						key := "C06:owner:other"
						switch {
						case n.Own != 0 && (n.Esc || n.RC != 1):
							key = "C06:OwnerIffSingle:recorded"
						case n.Own == 0 && !n.Esc && n.RC == 1:
							key = "C06:OwnerIffSingle:recorded"
						case n.Own != 0 && !n.ownerHolds:
							key = "C06:OwnerIffSingle:owner-not-the-referrer"
						}
						rep.mismatch(key, fmt.Sprintf("node %d: OwnerID -> %d, rc=%d escaped=%v, the single referrer is %d [script %q]", id, n.Own, n.RC, n.Esc, e.Int("own"), sc), caseOf(si))
					}
					if n.Esc {
						sum["seen_escaped"]++
					}
					if n.RC >= 2 {
						sum["seen_shared"]++
					}
				}
			}
			// guidance only: hash of a non-escaped child embedded in its parent vs the child's stored hash
			for _, o := range g.objs {
				for t, h := range o.hashes {
					if c := g.by[t]; c != nil && c.stored != h {
						sum["stale_child_hash"]++
					}
				}
			}
			if st.Bool("xr") {
				sum["cross_realm_txs"]++
			}
			if stop {
				good = false
				break
			}
		}
		if good {
			sum["replays_ok"]++
		}
		if bi < 2 {
			mbt.Sample(map[string]any{"behaviour": beh})
		}
	}
	if dumpDir != "" {
		os.WriteFile(fmt.Sprintf("%s/realm_dump_n.json", dumpDir), []byte(fmt.Sprintf("{\"n\":%d}\n", line)), 0o644)
	}
	out := map[string]any{"txs": w.txs, "dump_lines": line}
	for k, v := range sum {
		out[k] = v
	}
	for k, v := range rep.counts {
		out[k] = v
	}
	mbt.Summary(out)
	mbt.Flush()
}

// writeDump writes the whole persisted graph of the instance's realm packages for TLC. Object ids
// are shortened (h<n>:<t> / g<n>:<t> for the two realm packages of instance n).
func writeDump(dir string, w *world, in *instance, g *graph, line, bi, si int) {
	short := func(id string) string {
		if strings.HasPrefix(id, in.hx) {
			return fmt.Sprintf("h%d%s", w.ninst, id[len(in.hx):])
		}
		if strings.HasPrefix(id, in.h2x) {
			return fmt.Sprintf("g%d%s", w.ninst, id[len(in.h2x):])
		}
		return id
	}
	// full graph on every 10th line and right after a new realm pair was deployed; otherwise every data
	// object (counted) + the code objects that own / are referred to by a data object (uncounted anchors)
	full := line%10 == 1 || in.dumped == 0
	in.dumped++
	static := func(o *PObj) bool {
		return o.Kind == "/gno.PackageValue" || o.Kind == "/gno.Block" || o.Kind == "/gno.FuncValue"
	}
	include := map[string]bool{}
	for _, o := range g.objs {
		if full || !static(o) {
			include[o.ID] = true
		}
	}
	if !full {
		for _, o := range g.objs {
			if static(o) {
				continue
			}
			for _, r := range append(append([]string{}, o.Refs...), o.Owner) {
				if c := g.by[r]; c != nil && static(c) {
					include[r] = true
				}
			}
		}
	}
	ext := []string{}
	seen := map[string]bool{}
	objs := map[string]any{}
	for _, o := range g.objs {
		if !include[o.ID] {
			continue
		}
		refs := make([]string, 0, len(o.Refs))
		for _, r := range o.Refs {
			refs = append(refs, short(r))
		}
		for _, r := range append(append([]string{}, o.Refs...), o.Owner) {
			if r != "" && !include[r] && !seen[r] {
				seen[r] = true
				if g.by[r] != nil || has(w.e.DB, r) {
					ext = append(ext, short(r))
				}
			}
		}
		rt := "h"
		if strings.HasPrefix(o.ID, in.h2x) {
			rt = "g"
		}
		objs[short(o.ID)] = map[string]any{"ispkg": o.IsPkg, "counted": full || !static(o), "rc": o.RC, "owner": short(o.Owner), "esc": o.Esc, "hashok": o.HashOK, "refs": refs,
			"nt": o.NT, "rt": rt}
	}
	// the persisted object-id counters of the two realms (every persisted id must be <= its realm's counter)
	times := map[string]int{"h": realmTime(w.e.DB, in.hx), "g": realmTime(w.e.DB, in.h2x)}
	bz, _ := json.Marshal(map[string]any{"l": line, "beh": bi, "step": si, "objs": objs, "ext": ext, "times": times})
	if err := os.WriteFile(fmt.Sprintf("%s/realm_dump_%d.json", dir, line), append(bz, '\n'), 0o644); err != nil {
		mbt.Die("dump: %v", err)
	}
}

func trim(s string, n int) string {
	if len(s) > n {
		return s[:n]
	}
	return s
}

// ---------------------------------------------------------------- exploratory mode (development aid)

func probe() {
	w := newWorld()
	in := w.newInstance()
	short := func(s string) string {
		s = strings.ReplaceAll(s, in.hx, "H")
		return strings.ReplaceAll(s, in.h2x, "G")
	}
	for _, sc := range strings.Split(os.Getenv("SCRIPTS"), "|") {
		if sc == "" {
			continue
		}
		ok, log := w.call(in.heap, "Apply", sc)
		fmt.Fprintf(os.Stderr, "---- %q ok=%v\n", sc, ok)
		if !ok {
			fmt.Fprintf(os.Stderr, "LOG %.600s\n", log)
		}
		g := w.scanInstance(in)
		for _, o := range g.objs {
			if o.Kind == "/gno.FuncValue" || o.Kind == "/gno.Block" || o.Kind == "/gno.PackageValue" {
				continue
			}
			rs := []string{}
			for _, r := range o.Refs {
				rs = append(rs, short(r))
			}
			fmt.Fprintf(os.Stderr, "%-8s %-22s rc=%d esc=%v own=%-6s hash=%v refs=%v\n", short(o.ID), o.Kind, o.RC, o.Esc, short(o.Owner), o.HashOK, rs)
		}
	}
}
