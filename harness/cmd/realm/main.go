// Driver for C06 (spec/Realm.tla): replays TLC-generated transaction scripts into the REAL
// gno.land application (universal realms gno.land/r/verif/heap and heap2 over the /p/ type
// node.Node), and after every committed transaction reads the RAW committed base store
// (`s/k:base/oid:` entries, 20-byte hash || amino) without going through the VM's load path.
package main

import (
	"bytes"
	"encoding/json"
	"fmt"
	"os"
	"sort"
	"strings"

	"github.com/gnolang/gno/gno.land/pkg/sdk/vm"
	gno "github.com/gnolang/gno/gnovm/pkg/gnolang"
	"github.com/gnolang/gno/tm2/pkg/amino"
	"github.com/gnolang/gno/tm2/pkg/crypto"
	dbm "github.com/gnolang/gno/tm2/pkg/db"
	"github.com/gnolang/gno/tm2/pkg/std"

	"verifharness/appenv"
	"verifharness/mbt"
)

const (
	nodePath  = "gno.land/p/verif/node"
	heapPath  = "gno.land/r/verif/heap"
	heap2Path = "gno.land/r/verif/heap2"
)

const nodeSrc = `package node

type Node struct {
	A, B *Node
	V    int
	W    int
}
`

// The same interpreter text is instantiated in both realms (package-level variables can only
// be assigned by code of their own package).
const interpSrc = `package PKG

import (
	"strconv"
	"strings"

	"gno.land/p/verif/node"
IMPORTS
)

var (
	Root  *node.Node
	Slots [2]*node.Node
)

func getRoot(k int) *node.Node {
	if k == 0 {
		return Root
	}
	return Slots[k-1]
}

func setRoot(k int, n *node.Node) {
	if k == 0 {
		Root = n
	} else {
		Slots[k-1] = n
	}
}

// Roots is a plain (non-crossing) reader.
func Roots() []*node.Node { return []*node.Node{Root, Slots[0], Slots[1]} }

func fill(regs []*node.Node, n *node.Node) {
	if n == nil {
		return
	}
	i := n.V % 16
	if regs[i] == n {
		return
	}
	regs[i] = n
	fill(regs, n.A)
	fill(regs, n.B)
}

func atoi(s string) int {
	n, err := strconv.Atoi(s)
	if err != nil {
		panic("bad int " + s)
	}
	return n
}

func interp(cur realm, script string, regs []*node.Node) []*node.Node {
	for _, op := range strings.Split(script, ";") {
		f := strings.Fields(op)
		if len(f) == 0 {
			continue
		}
		switch f[0] {
		case "n": // n i label : regs[i] = new node
			regs[atoi(f[1])] = &node.Node{V: atoi(f[2])}
		case "r": // r k i : root k = regs[i] (0 = nil)
			setRoot(atoi(f[1]), regs[atoi(f[2])])
		case "a":
			regs[atoi(f[1])].A = regs[atoi(f[2])]
		case "b":
			regs[atoi(f[1])].B = regs[atoi(f[2])]
		case "t": // t i w : regs[i].W = w
			regs[atoi(f[1])].W = atoi(f[2])
		case "z":
			Root = nil
			Slots[0] = nil
			Slots[1] = nil
			RESET2
		case "x": // x <ops separated by ','> : run in the other realm's frame
			regs = other(cur, strings.ReplaceAll(strings.Join(f[1:], " "), ",", ";"), regs)
		default:
			panic("bad op " + f[0])
		}
	}
	return regs
}

OTHER

func Apply(cur realm, script string) string {
	regs := make([]*node.Node, 16)
	for _, n := range Roots() {
		fill(regs, n)
	}
	FILL2
	interp(cur, script, regs)
	return "ok"
}
`

func heapSrc() string {
	s := strings.ReplaceAll(interpSrc, "PKG", "heap")
	s = strings.ReplaceAll(s, "IMPORTS", "\t\"gno.land/r/verif/heap2\"")
	s = strings.ReplaceAll(s, "RESET2", "heap2.Exec(cross(cur), \"z\", nil)")
	s = strings.ReplaceAll(s, "OTHER", `func other(cur realm, script string, regs []*node.Node) []*node.Node {
	out := heap2.Exec(cross(cur), script, regs)
	mine := make([]*node.Node, 16)
	copy(mine, out)
	return mine
}`)
	s = strings.ReplaceAll(s, "FILL2", `for _, n := range heap2.Roots() {
		fill(regs, n)
	}`)
	return s
}

func heap2Src() string {
	s := strings.ReplaceAll(interpSrc, "PKG", "heap2")
	s = strings.ReplaceAll(s, "IMPORTS", "")
	s = strings.ReplaceAll(s, "RESET2", "")
	s = strings.ReplaceAll(s, "OTHER", `func other(cur realm, script string, regs []*node.Node) []*node.Node {
	panic("no nested frame")
}

func Exec(cur realm, script string, in []*node.Node) []*node.Node {
	regs := make([]*node.Node, 16)
	copy(regs, in)
	return interp(cur, script, regs)
}`)
	s = strings.ReplaceAll(s, "FILL2", "")
	return s
}

// ---------------------------------------------------------------- raw store scanner

type PObj struct {
	ID     string   `json:"id"`
	Pkg    string   `json:"pkg"`   // hex pkgid
	Kind   string   `json:"kind"`  // amino type name
	RC     int      `json:"rc"`
	Owner  string   `json:"owner"` // "" = none
	Esc    bool     `json:"esc"`
	HashOK bool     `json:"hashok"`
	KeyOK  bool     `json:"keyok"` // key == "oid:" + ObjectInfo.ID
	Size   int      `json:"size"`
	Refs   []string `json:"refs"`    // ObjectIDs of every RefValue outside ObjectInfo
	PkgRef []string `json:"pkgrefs"` // RefValue{PkgPath}
	raw    any
}

const basePrefix = "s/_/" // gnoland mounts both stores with an explicit DB: rootmulti prefix "s/_/"

func collectRefs(g any, refs, pkgrefs *[]string) {
	switch x := g.(type) {
	case map[string]any:
		if t, _ := x["@type"].(string); t == "/gno.RefValue" {
			if id, _ := x["ObjectID"].(string); id != "" && !strings.HasSuffix(id, ":0") {
				*refs = append(*refs, id)
			} else if p, _ := x["PkgPath"].(string); p != "" {
				*pkgrefs = append(*pkgrefs, p)
			}
			return
		}
		keys := make([]string, 0, len(x))
		for k := range x {
			keys = append(keys, k)
		}
		sort.Strings(keys)
		for _, k := range keys {
			if k == "ObjectInfo" {
				continue
			}
			collectRefs(x[k], refs, pkgrefs)
		}
	case []any:
		for _, y := range x {
			collectRefs(y, refs, pkgrefs)
		}
	}
}

// scan reads every committed `oid:` entry whose key starts with oid:<prefix>.
func scan(db dbm.DB, oidPrefix string) ([]*PObj, error) {
	start := []byte(basePrefix + "oid:" + oidPrefix)
	end := append([]byte{}, start...)
	end[len(end)-1]++
	it, err := db.Iterator(start, end)
	if err != nil {
		return nil, err
	}
	defer it.Close()
	var out []*PObj
	for ; it.Valid(); it.Next() {
		k := string(it.Key())[len(basePrefix):]
		if strings.HasSuffix(k, "#realm") {
			continue
		}
		v := it.Value()
		if len(v) < gno.HashSize {
			return nil, fmt.Errorf("short value at %s", k)
		}
		hash, bz := v[:gno.HashSize], v[gno.HashSize:]
		h := gno.HashBytes(bz)
		var obj gno.Object
		if err := amino.UnmarshalAny(bz, &obj); err != nil {
			return nil, fmt.Errorf("decode %s: %v", k, err)
		}
		oi := obj.GetObjectInfo()
		var g any
		js, err := amino.MarshalJSONAny(obj)
		if err != nil {
			return nil, err
		}
		if err := json.Unmarshal(js, &g); err != nil {
			return nil, err
		}
		p := &PObj{ID: oi.ID.String(), Pkg: k[4 : 4+40], RC: oi.RefCount, Esc: oi.IsEscaped, HashOK: bytes.Equal(h.Bytes(), hash),
			KeyOK: k == "oid:"+oi.ID.String(), Size: len(v), raw: g}
		if !oi.OwnerID.IsZero() {
			p.Owner = oi.OwnerID.String()
		}
		if m, ok := g.(map[string]any); ok {
			p.Kind, _ = m["@type"].(string)
			if vv, ok := m["value"]; ok { // registered-any wrapper
				g = vv
			}
		}
		p.Refs = []string{}
		p.PkgRef = []string{}
		collectRefs(g, &p.Refs, &p.PkgRef)
		out = append(out, p)
	}
	return out, nil
}

func has(db dbm.DB, oid string) bool {
	v, err := db.Get([]byte(basePrefix + "oid:" + oid))
	return err == nil && v != nil
}

// ---------------------------------------------------------------- app

type world struct {
	e    *appenv.Env
	user *appenv.Account
	seq  uint64
	num  uint64
}

func newWorld() *world {
	u, d := appenv.NewAccount("u"), appenv.NewAccount("deployer")
	e, err := appenv.New(appenv.Options{
		MaxGas:   3_000_000_000,
		Balances: map[crypto.Address]int64{u.Addr: 1_000_000_000_000, d.Addr: 1_000_000_000_000},
		Deployer: d,
		Pkgs: []appenv.Pkg{
			{Path: nodePath, Files: map[string]string{"node.gno": nodeSrc}},
			{Path: heap2Path, Files: map[string]string{"heap2.gno": heap2Src()}},
			{Path: heapPath, Files: map[string]string{"heap.gno": heapSrc()}},
		},
	})
	if err != nil {
		mbt.Die("app: %v", err)
	}
	w := &world{e: e, user: u}
	ai := e.Account(u.Addr)
	w.seq, w.num = ai.Seq, ai.Num
	return w
}

// call runs one MsgCall in its own block and commits. Returns ok and the log.
func (w *world) call(path, fn string, args ...string) (bool, string) {
	msg := vm.NewMsgCall(w.user.Addr, nil, path, fn, args)
	tx := appenv.SignTx([]std.Msg{msg}, 200_000_000, 1_000_000, appenv.ChainID, w.user, w.num, w.seq)
	w.e.BeginBlock()
	r := w.e.Deliver(tx)
	w.e.EndBlockCommit()
	if r.GasWanted > 0 {
		w.seq++
	}
	return r.IsOK(), r.Log
}

func probe() {
	w := newWorld()
	all, err := scan(w.e.DB, "")
	if err != nil {
		mbt.Die("scan: %v", err)
	}
	if os.Getenv("KEYS") != "" {
		it, _ := w.e.DB.Iterator(nil, nil)
		seen := map[string]int{}
		for ; it.Valid(); it.Next() {
			k := string(it.Key())
			if len(k) > 14 {
				k = k[:14]
			}
			seen[k]++
		}
		it.Close()
		fmt.Fprintf(os.Stderr, "keys: %v\n", seen)
	}
	byPkg := map[string]int{}
	for _, o := range all {
		byPkg[o.Pkg]++
	}
	fmt.Fprintf(os.Stderr, "genesis: %d objects in %d packages\n", len(all), len(byPkg))
	hid := gno.PkgIDFromPkgPath(heapPath)
	h2id := gno.PkgIDFromPkgPath(heap2Path)
	hx, h2x := fmt.Sprintf("%x", hid.Bytes()), fmt.Sprintf("%x", h2id.Bytes())
	dump := func(label string) {
		fmt.Fprintf(os.Stderr, "---- %s\n", label)
		for _, px := range []string{hx, h2x} {
			objs, err := scan(w.e.DB, px)
			if err != nil {
				mbt.Die("scan: %v", err)
			}
			for _, o := range objs {
				short := func(s string) string {
					s = strings.ReplaceAll(s, hx, "H")
					return strings.ReplaceAll(s, h2x, "G")
				}
				rs := []string{}
				for _, r := range o.Refs {
					rs = append(rs, short(r))
				}
				fmt.Fprintf(os.Stderr, "%-8s %-22s rc=%d esc=%v own=%-6s hash=%v refs=%v pk=%v\n", short(o.ID), o.Kind, o.RC, o.Esc, short(o.Owner), o.HashOK, rs, o.PkgRef)
			}
		}
	}
	dump("after genesis")
	if os.Getenv("RAW") != "" {
		objs, _ := scan(w.e.DB, hx)
		for _, o := range objs {
			bz, _ := json.Marshal(o.raw)
			fmt.Fprintf(os.Stderr, "%s %s\n", o.ID, bz)
		}
	}
	for _, sc := range strings.Split(os.Getenv("SCRIPTS"), "|") {
		if sc == "" {
			continue
		}
		ok, log := w.call(heapPath, "Apply", sc)
		dump(fmt.Sprintf("%q ok=%v", sc, ok))
		if !ok {
			fmt.Fprintf(os.Stderr, "LOG %.600s\n", log)
		}
	}
}

func main() {
	f := mbt.ParseFlags()
	switch f.Mode {
	case "probe":
		probe()
	}
	mbt.Flush()
}
