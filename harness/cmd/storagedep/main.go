// Driver for C09 (spec/StorageDeposit.tla, spec/StorageDepositTrace.tla): runs seeded histories
// of deployments / grow / shrink / cross-realm writes / foreign-owned objects / chain-params
// writes / storage-price changes / restricted-denom toggles on the REAL gno.land application
// and records one NDJSON line per committed transaction:
//
//	the per-realm byte deltas RE-DERIVED FROM THE RAW COMMITTED STORE (sum of the stored sizes of
//	all `oid:<pkgid>:*` entries + the realm's `/pv/vm:<path>:*` parameter bytes, before/after),
//	Realm.Storage / Realm.Deposit decoded from the raw `oid:<pkgid>:1#realm` record, the balances
//	of callers / storage-deposit addresses / fee collector, the storage price, the limit.
//
// A transaction that FAILS leaves no byte delta to measure; the same message is then delivered
// again by a well-funded caller with the default limit and the deltas measured on that twin are
// logged for the failed line (same realm state, deterministic VM), so that the spec can decide
// whether the failure was due.
package main

import (
	"bufio"
	"encoding/json"
	"fmt"
	"math/rand"
	"os"
	"strconv"
	"strings"

	"github.com/gnolang/gno/gno.land/pkg/gnoland"
	"github.com/gnolang/gno/gno.land/pkg/sdk/vm"
	gno "github.com/gnolang/gno/gnovm/pkg/gnolang"
	"github.com/gnolang/gno/tm2/pkg/amino"
	"github.com/gnolang/gno/tm2/pkg/crypto"
	dbm "github.com/gnolang/gno/tm2/pkg/db"
	"github.com/gnolang/gno/tm2/pkg/std"

	"verifharness/appenv"
	"verifharness/mbt"
)

const (
	blobPath = "gno.land/p/verif/blob"
	sysPath  = "gno.land/r/sys/params"
	fee      = 100_000
)

var realmPath = map[string]string{
	"p": sysPath,
	"a": "gno.land/r/verif/sda",
	"b": "gno.land/r/verif/sdb",
	"c": "gno.land/r/verif/sdc",
}
var realmNames = []string{"p", "a", "b", "c"} // sorted by path

const blobSrc = `package blob

type Blob struct {
	Data string
}
`

func sdSrc(name string, other string) string {
	imp, fwd := "", ""
	if other != "" {
		imp = "\tother \"" + other + "\"\n"
		fwd = `
// GrowOther grows the other realm's state from this realm's transaction.
func GrowOther(cur realm, n, size int) { other.Grow(cross(cur), n, size) }

// GrowBoth grows both realms in one message.
func GrowBoth(cur realm, n, size, n2, size2 int) {
	Grow(cur, n, size)
	other.Grow(cross(cur), n2, size2)
}

// ShrinkGrow releases here and grows there in one message.
func ShrinkGrow(cur realm, n, n2, size2 int) {
	Shrink(cur, n)
	other.Grow(cross(cur), n2, size2)
}

// BothParams: both realms change objects and their own params in one message.
func BothParams(cur realm, n, size int, key, val string, n2 int, key2, val2 string) {
	GrowParam(cur, n, size, key, val)
	other.ShrinkParam(cross(cur), n2, key2, val2)
}

func BothParams2(cur realm, n int, key, val string, n2, size2 int, key2, val2 string) {
	ShrinkParam(cur, n, key, val)
	other.GrowParam(cross(cur), n2, size2, key2, val2)
}

// Lend allocates an object HERE and has the other realm keep it: stored under this realm's id,
// referenced from the other realm's state.
func Lend(cur realm, k, size int) { other.Keep(cross(cur), k, &blob.Blob{Data: pad(size)}) }
`
	}
	return `package ` + name + `

import (
	"chain/params"

	"gno.land/p/verif/blob"
` + imp + `)

var (
	slots [24]*blob.Blob
	kept  [4]*blob.Blob
)

func pad(n int) string {
	s := ""
	for len(s) < n {
		s += "0123456789abcdef"
	}
	return s[:n]
}

func Grow(cur realm, n, size int) {
	for i := 0; i < len(slots) && n > 0; i++ {
		if slots[i] == nil {
			slots[i] = &blob.Blob{Data: pad(size)}
			n--
		}
	}
}

func Shrink(cur realm, n int) {
	for i := len(slots) - 1; i >= 0 && n > 0; i-- {
		if slots[i] != nil {
			slots[i] = nil
			n--
		}
	}
}

// Rewrite changes the size of existing objects (update path of SetObject).
func Rewrite(cur realm, n, size int) {
	for i := 0; i < len(slots) && n > 0; i++ {
		if slots[i] != nil {
			slots[i].Data = pad(size)
			n--
		}
	}
}

func Keep(cur realm, k int, b *blob.Blob) { kept[k%len(kept)] = b }
func Drop(cur realm, k int)               { kept[k%len(kept)] = nil }

func SetParam(cur realm, key, val string) { params.SetString(key, val) }
func DelParam(cur realm, key string)      { params.SetBytes(key, nil) }

// Objects AND the realm's own chain/params entries change in ONE call (one message): the keeper
// must charge / refund the SUM of the two byte deltas.
func GrowParam(cur realm, n, size int, key, val string) {
	Grow(cur, n, size)
	params.SetString(key, val)
}

func ShrinkParam(cur realm, n int, key, val string) {
	Shrink(cur, n)
	params.SetString(key, val)
}

func GrowDelParam(cur realm, n, size int, key string) {
	Grow(cur, n, size)
	params.SetBytes(key, nil)
}

func ShrinkDelParam(cur realm, n int, key string) {
	Shrink(cur, n)
	params.SetBytes(key, nil)
}
` + fwd
}

const sysSrc = `package params

import (
	sp "sys/params"

	"gno.land/p/verif/blob"
)

var slots [8]*blob.Blob

func pad(n int) string {
	s := ""
	for len(s) < n {
		s += "0123456789abcdef"
	}
	return s[:n]
}

func SetPrice(cur realm, v string) { sp.SetSysParamString("vm", "p", "storage_price", v) }

// SetPriceAndGrow writes the new price FIRST and then uses new storage in the same message.
func SetPriceAndGrow(cur realm, v string, n, size int) {
	sp.SetSysParamString("vm", "p", "storage_price", v)
	for i := 0; i < len(slots) && n > 0; i++ {
		if slots[i] == nil {
			slots[i] = &blob.Blob{Data: pad(size)}
			n--
		}
	}
}

func Shrink(cur realm, n int) {
	for i := len(slots) - 1; i >= 0 && n > 0; i-- {
		if slots[i] != nil {
			slots[i] = nil
			n--
		}
	}
}

func SetRestricted(cur realm, on bool) {
	if on {
		sp.SetSysParamStrings("bank", "p", "restricted_denoms", []string{"ugnot"})
	} else {
		sp.SetSysParamStrings("bank", "p", "restricted_denoms", []string{})
	}
}
`

const basePrefix = "s/_/" // both sub-stores are mounted with an explicit DB: rootmulti prefix "s/_/"

func pkgHex(path string) string {
	id := gno.PkgIDFromPkgPath(path)
	return fmt.Sprintf("%x", id.Bytes())
}

func iterate(db dbm.DB, prefix string, fn func(k string, v []byte)) {
	start := []byte(prefix)
	end := append([]byte{}, start...)
	end[len(end)-1]++
	it, err := db.Iterator(start, end)
	if err != nil {
		mbt.Die("iterator: %v", err)
	}
	defer it.Close()
	for ; it.Valid(); it.Next() {
		fn(string(it.Key()), it.Value())
	}
}

// objectBytes = sum of the stored sizes (20-byte hash + amino bytes) of every object whose id
// carries the realm's PkgID.
func objectBytes(db dbm.DB, path string) (int64, int) {
	var n int64
	cnt := 0
	iterate(db, basePrefix+"oid:"+pkgHex(path)+":", func(k string, v []byte) {
		if strings.HasSuffix(k, "#realm") {
			return
		}
		n += int64(len(v))
		cnt++
	})
	return n, cnt
}

// paramBytes = sum over the realm's chain/params entries of len("vm:<path>:<key>") + len(value),
// read from the main store's flat index ('F' || key -> version(8) || value || crc32c(4)).
func paramBytes(db dbm.DB, path string) int64 {
	var n int64
	pfx := basePrefix + "F/pv/"
	iterate(db, pfx+"vm:"+path+":", func(k string, v []byte) {
		if len(v) < 12 {
			mbt.Die("short flat-index record at %s", k)
		}
		n += int64(len(k)-len(pfx)) + int64(len(v)-12)
	})
	return n
}

func rawParam(db dbm.DB, key string) []byte {
	v, err := db.Get([]byte(basePrefix + "F/pv/" + key))
	if err != nil || len(v) < 12 {
		return nil
	}
	return v[8 : len(v)-4]
}

func realmRecord(db dbm.DB, path string) (storage, deposit int64, ok bool) {
	v, err := db.Get([]byte(basePrefix + "oid:" + pkgHex(path) + ":1#realm"))
	if err != nil || v == nil {
		return 0, 0, false
	}
	var rlm *gno.Realm
	if err := amino.Unmarshal(v, &rlm); err != nil {
		mbt.Die("realm record of %s: %v", path, err)
	}
	return int64(rlm.Storage), int64(rlm.Deposit), true
}

type snapshot struct {
	Storage    map[string]int64 `json:"storage"`
	Deposit    map[string]int64 `json:"deposit"`
	Disk       map[string]int64 `json:"disk"`  // odisk + pdisk
	ODisk      map[string]int64 `json:"odisk"` // bytes of the objects stored under the realm's id
	PDisk      map[string]int64 `json:"pdisk"` // bytes of the realm's chain/params entries (key + value, as the keeper counts)
	DBal       map[string]int64 `json:"dbal"`
	Bal        map[string]int64 `json:"bal"`
	Price      int64            `json:"price"`
	Restricted bool             `json:"restricted"`
}

type world struct {
	e     *appenv.Env
	accts map[string]*appenv.Account
	coll  crypto.Address
}

func (w *world) snap() snapshot {
	s := snapshot{Storage: map[string]int64{}, Deposit: map[string]int64{}, Disk: map[string]int64{}, ODisk: map[string]int64{}, PDisk: map[string]int64{}, DBal: map[string]int64{}, Bal: map[string]int64{}}
	db := w.e.DB
	for _, r := range realmNames {
		p := realmPath[r]
		st, dp, _ := realmRecord(db, p)
		ob, _ := objectBytes(db, p)
		s.Storage[r], s.Deposit[r] = st, dp
		s.ODisk[r], s.PDisk[r] = ob, paramBytes(db, p)
		s.Disk[r] = s.ODisk[r] + s.PDisk[r]
		s.DBal[r] = w.e.Balance(appenv.DepositAddr(p))
	}
	for n, a := range w.accts {
		s.Bal[n] = w.e.Balance(a.Addr)
	}
	s.Bal["coll"] = w.e.Balance(w.coll)
	var ps string
	if bz := rawParam(db, "vm:p:storage_price"); bz != nil {
		json.Unmarshal(bz, &ps)
	}
	c, err := std.ParseCoin(ps)
	if err != nil {
		mbt.Die("storage price %q: %v", ps, err)
	}
	s.Price = c.Amount
	var rd []string
	if bz := rawParam(db, "bank:p:restricted_denoms"); bz != nil {
		json.Unmarshal(bz, &rd)
	}
	for _, d := range rd {
		if d == "ugnot" {
			s.Restricted = true
		}
	}
	return s
}

type msgSpec struct {
	kind   string // call | deploy
	realm  string // name of the called realm
	fn     string
	args   []string
	price  int64  // storage price the message writes (0 = none)
	restr  string // "on" / "off" / ""
	caller string
	limit  int64 // MaxDeposit (0 = default)
}

func (w *world) msg(m msgSpec, caller string) std.Msg {
	a := w.accts[caller]
	var dep std.Coins
	if m.limit > 0 {
		dep = std.Coins{{Denom: "ugnot", Amount: m.limit}}
	}
	if m.kind == "deploy" {
		mm := appenv.AddPkgMsg(a.Addr, appenv.Pkg{Path: realmPath["c"], Files: map[string]string{"sdc.gno": sdSrc("sdc", "")}})
		mm.MaxDeposit = dep
		return mm
	}
	mm := vm.NewMsgCall(a.Addr, nil, realmPath[m.realm], m.fn, m.args)
	mm.MaxDeposit = dep
	return mm
}

func (w *world) deliver(msgs []std.Msg, caller string) (bool, string) {
	a := w.accts[caller]
	ai := w.e.Account(a.Addr)
	tx := appenv.SignTx(msgs, 200_000_000, fee, appenv.ChainID, a, ai.Num, ai.Seq)
	w.e.BeginBlock()
	r := w.e.Deliver(tx)
	w.e.EndBlockCommit()
	if r.GasWanted == 0 {
		mbt.Die("ante failure for %s: %.400s", caller, r.Log)
	}
	return r.IsOK(), r.Log
}

func diffOf(a, b snapshot) map[string]int64 {
	d := map[string]int64{}
	for _, r := range realmNames {
		d[r] = b.Disk[r] - a.Disk[r]
	}
	return d
}

// setDiffs logs the measured deltas: objects, chain/params entries, and their sum.
func setDiffs(line map[string]any, a, b snapshot) map[string]int64 {
	od, pd := map[string]int64{}, map[string]int64{}
	for _, r := range realmNames {
		od[r] = b.ODisk[r] - a.ODisk[r]
		pd[r] = b.PDisk[r] - a.PDisk[r]
	}
	d := diffOf(a, b)
	line["diffs"], line["odiffs"], line["pdiffs"] = d, od, pd
	return d
}

// length of the realm's chain/params string entry (-1: absent); the value is stored as amino JSON
func (w *world) paramLen(realm, key string) int {
	bz := rawParam(w.e.DB, "vm:"+realmPath[realm]+":"+key)
	if bz == nil {
		return -1
	}
	var v string
	if json.Unmarshal(bz, &v) != nil {
		return -1
	}
	return len(v)
}

// a value for the entry: new key / longer / shorter / same length (other content) / any
func (w *world) paramVal(rng *rand.Rand, realm, key string, mode, salt int) string {
	cur := w.paramLen(realm, key)
	n := rng.Intn(40)
	switch mode {
	case 1:
		n = cur + 1 + rng.Intn(20)
	case 2:
		if cur > 0 {
			n = rng.Intn(cur)
		}
	case 3:
		if cur >= 0 {
			n = cur
		}
	}
	if n < 0 {
		n = 0
	}
	return strings.Repeat(string(rune('a'+salt%26)), n)
}

func itoa(n int) string { return strconv.Itoa(n) }

func main() {
	f := mbt.ParseFlags()
	rng := rand.New(rand.NewSource(f.Seed))
	out, err := os.Create(f.Out)
	if err != nil {
		mbt.Die("%v", err)
	}
	wr := bufio.NewWriter(out)
	emit := func(x any) {
		bz, _ := json.Marshal(x)
		wr.Write(bz)
		wr.WriteByte('\n')
	}
	nhist, ntx := 1, f.N
	if ntx <= 0 {
		ntx = 60
	}
	if f.Extra != "" {
		nhist, _ = strconv.Atoi(f.Extra)
	}
	sum := map[string]int{}
	for h := 0; h < nhist; h++ {
		w := &world{accts: map[string]*appenv.Account{}}
		for _, n := range []string{"u", "v", "poor", "deployer"} {
			w.accts[n] = appenv.NewAccount("sd-" + n)
		}
		w.coll = vm.DefaultParams().StorageFeeCollector
		poorBal := int64(fee*3 + 300 + rng.Intn(4000))
		e, err := appenv.New(appenv.Options{
			MaxGas: 3_000_000_000,
			Balances: map[crypto.Address]int64{w.accts["u"].Addr: 1_200_000_000, w.accts["v"].Addr: 1_200_000_000,
				w.accts["poor"].Addr: poorBal, w.accts["deployer"].Addr: 1_200_000_000},
			Deployer: w.accts["deployer"],
			Pkgs: []appenv.Pkg{
				{Path: blobPath, Files: map[string]string{"blob.gno": blobSrc}},
				{Path: sysPath, Files: map[string]string{"params.gno": sysSrc}},
				{Path: realmPath["b"], Files: map[string]string{"sdb.gno": sdSrc("sdb", "")}},
				{Path: realmPath["a"], Files: map[string]string{"sda.gno": sdSrc("sda", realmPath["b"])}},
			},
			Mutate: func(gs *gnoland.GnoGenesisState) {
				gs.VM.Params.StoragePrice = fmt.Sprintf("%dugnot", 1+rng.Intn(3)) // small numbers: TLC integers are 32-bit
			},
		})
		if err != nil {
			mbt.Die("app: %v", err)
		}
		w.e = e
		cur := w.snap()
		emit(map[string]any{"act": "Init", "st": cur})
		deployed := false
		keys := []string{"k1", "k2", "k3"}
		// every history starts with the directed combinations (objects and params of one realm in one
		// message: ++ new key, grow, ++ longer, +- shorter, -+ longer, -- shorter, +0 same length, + delete,
		// grow, - delete, two realms in one message; a price change in between, a two-realm growth at the end)
		// 130-132: a two-realm growth measured with the default limit, the same growth with an explicit
		// max-deposit that covers EACH realm's requirement but not their sum (must fail: the limit is per
		// message and shrinks), and the control with a max-deposit that covers the sum (must pass)
		var bothArgs []string
		var bothA, bothB int64
		prologue := []int{130, 131, 132, 100, 10, 100, 105, 111, 88, 115, 109, 118, 10, 120, 122, 124, 55}
		for t := 0; t < ntx; t++ {
			var m msgSpec
			m.kind, m.caller = "call", []string{"u", "u", "v", "poor"}[rng.Intn(4)]
			n, size := 1+rng.Intn(4), 8+rng.Intn(200)
			ab := []string{"a", "b"}[rng.Intn(2)]
			key := keys[rng.Intn(3)]
			k := rng.Intn(128)
			if t < len(prologue) {
				k = prologue[t]
				m.caller = "u"
			}
			if k >= 125 && t >= len(prologue) { // random part: the limit triple again, step by step
				k = 130 + (t % 3)
				if bothArgs == nil {
					k = 130
				}
				m.caller = "u"
			}
			forcedLimit := int64(0)
			switch {
			case k == 130:
				bothArgs = []string{itoa(1 + rng.Intn(2)), itoa(60 + rng.Intn(140)), itoa(1 + rng.Intn(2)), itoa(60 + rng.Intn(140))}
				m.realm, m.fn, m.args = "a", "GrowBoth", bothArgs
			case k == 131 || k == 132:
				m.realm, m.fn, m.args = "a", "GrowBoth", bothArgs
				lo, hi := bothA, bothB
				if lo > hi {
					lo, hi = hi, lo
				}
				if k == 131 {
					forcedLimit = cur.Price * (hi + lo/2) // each realm fits, the sum does not
				} else {
					forcedLimit = cur.Price * (hi + lo + 400) // the sum fits
				}
				if lo <= 0 {
					forcedLimit = 0
				}
			// ---- one realm changes its objects AND its own chain/params entry in one message
			case k >= 100 && k < 105: // + objects, new key or longer value
				mode := 1
				if w.paramLen(ab, key) < 0 {
					mode = 0
				}
				m.realm, m.fn, m.args = ab, "GrowParam", []string{itoa(n), itoa(size), key, w.paramVal(rng, ab, key, mode, t)}
			case k >= 105 && k < 109: // + objects, shorter value
				m.realm, m.fn, m.args = ab, "GrowParam", []string{itoa(n), itoa(size), key, w.paramVal(rng, ab, key, 2, t)}
			case k >= 109 && k < 111: // + objects, same length
				m.realm, m.fn, m.args = ab, "GrowParam", []string{itoa(n), itoa(size), key, w.paramVal(rng, ab, key, 3, t)}
			case k >= 111 && k < 115: // - objects, longer value
				m.realm, m.fn, m.args = ab, "ShrinkParam", []string{itoa(n), key, w.paramVal(rng, ab, key, 1, t)}
			case k >= 115 && k < 118: // - objects, shorter value
				m.realm, m.fn, m.args = ab, "ShrinkParam", []string{itoa(n), key, w.paramVal(rng, ab, key, 2, t)}
			case k >= 118 && k < 120: // + objects, entry deleted
				m.realm, m.fn, m.args = ab, "GrowDelParam", []string{itoa(n), itoa(size), key}
			case k >= 120 && k < 122: // - objects, entry deleted
				m.realm, m.fn, m.args = ab, "ShrinkDelParam", []string{itoa(n), key}
			case k >= 122 && k < 124: // two realms, each with both deltas, in one message
				key2 := keys[rng.Intn(3)]
				m.realm, m.fn = "a", "BothParams"
				m.args = []string{itoa(n), itoa(size), key, w.paramVal(rng, "a", key, rng.Intn(4), t), itoa(1 + rng.Intn(3)), key2, w.paramVal(rng, "b", key2, rng.Intn(4), t+1)}
			case k >= 124:
				key2 := keys[rng.Intn(3)]
				m.realm, m.fn = "a", "BothParams2"
				m.args = []string{itoa(n), key, w.paramVal(rng, "a", key, rng.Intn(4), t), itoa(1 + rng.Intn(3)), itoa(8 + rng.Intn(200)), key2, w.paramVal(rng, "b", key2, rng.Intn(4), t+1)}
			case k < 22:
				m.realm, m.fn, m.args = []string{"a", "b"}[rng.Intn(2)], "Grow", []string{itoa(n), itoa(size)}
			case k < 38:
				m.realm, m.fn, m.args = []string{"a", "b"}[rng.Intn(2)], "Shrink", []string{itoa(n + rng.Intn(4))}
			case k < 46:
				m.realm, m.fn, m.args = []string{"a", "b"}[rng.Intn(2)], "Rewrite", []string{itoa(n), itoa(size)}
			case k < 52:
				m.realm, m.fn, m.args = "a", "GrowOther", []string{itoa(n), itoa(size)}
			case k < 60:
				m.realm, m.fn, m.args = "a", "GrowBoth", []string{itoa(n), itoa(size), itoa(1 + rng.Intn(3)), itoa(8 + rng.Intn(200))}
			case k < 66:
				m.realm, m.fn, m.args = "a", "ShrinkGrow", []string{itoa(n), itoa(1 + rng.Intn(3)), itoa(8 + rng.Intn(200))}
			case k < 72:
				m.realm, m.fn, m.args = "a", "Lend", []string{itoa(rng.Intn(4)), itoa(size)}
			case k < 76:
				m.realm, m.fn, m.args = "b", "Drop", []string{itoa(rng.Intn(4))}
			case k < 83:
				m.realm, m.fn, m.args = []string{"a", "b"}[rng.Intn(2)], "SetParam", []string{keys[rng.Intn(3)], strings.Repeat("v", rng.Intn(40))}
			case k < 87:
				m.realm, m.fn, m.args = []string{"a", "b"}[rng.Intn(2)], "DelParam", []string{keys[rng.Intn(3)]}
			case k < 92:
				m.price = int64(1 + rng.Intn(5))
				if m.price == cur.Price {
					m.price = cur.Price%5 + 1 // a real change
				}
				m.realm, m.fn, m.args, m.caller = "p", "SetPrice", []string{fmt.Sprintf("%dugnot", m.price)}, "u"
			case k < 95:
				m.price = int64(1 + rng.Intn(5))
				if m.price == cur.Price {
					m.price = cur.Price%5 + 1 // a real change
				}
				m.realm, m.fn, m.args, m.caller = "p", "SetPriceAndGrow", []string{fmt.Sprintf("%dugnot", m.price), itoa(n), itoa(size)}, "u"
			case k < 96:
				m.realm, m.fn, m.args, m.caller = "p", "Shrink", []string{itoa(n)}, "u"
			case k < 98:
				on := !cur.Restricted
				m.restr = map[bool]string{true: "on", false: "off"}[on]
				m.realm, m.fn, m.args, m.caller = "p", "SetRestricted", []string{strconv.FormatBool(on)}, "u"
			default:
				if deployed {
					m.realm, m.fn, m.args = "c", "Grow", []string{itoa(n), itoa(size)}
				} else {
					m.kind, m.caller = "deploy", []string{"u", "v"}[rng.Intn(2)]
				}
			}
			if m.realm == "c" && !deployed {
				m.realm = "a"
			}
			if rng.Intn(4) == 0 && m.caller != "poor" && t >= len(prologue) {
				m.limit = []int64{1, 40, 300, 2000, 20000}[rng.Intn(5)]
			}
			if forcedLimit > 0 {
				m.limit = forcedLimit
			}
			if m.caller == "poor" && cur.Bal["poor"] < fee {
				m.caller = "u"
			}
			before := cur
			ok, log := w.deliver([]std.Msg{w.msg(m, m.caller)}, m.caller)
			after := w.snap()
			line := map[string]any{"act": "Msg", "caller": m.caller, "limit": m.limit, "fee": fee, "ok": ok,
				"setprice": m.price, "setrestr": m.restr, "what": m.kind + ":" + m.realm + "." + m.fn, "st": after}
			if ok {
				d := setDiffs(line, before, after)
				if m.fn == "GrowBoth" && m.limit == 0 {
					bothA, bothB = d["a"], d["b"]
				}
				sum["ok"]++
				if m.kind == "deploy" {
					deployed = true
				}
				emit(line)
				cur = after
				continue
			}
			sum["failed"]++
			if d := diffOf(before, after); !allZero(d) {
				mbt.Mismatch("C09:failed-message-left-bytes", fmt.Sprintf("a failed message changed the bytes on disk: %v (%s)", d, line["what"]), map[string]any{"seed": f.Seed, "hist": h, "tx": t})
			}
			// twin: the same message on the same realm state, by a well-funded caller with the default
			// limit; its measured byte deltas are what the failed message would have used
			tw := m
			tw.limit = 0
			twc := "v"
			okT, logT := w.deliver([]std.Msg{w.msg(tw, twc)}, twc)
			afterT := w.snap()
			if !okT {
				// not a deposit failure (e.g. the realm function itself panicked): no byte deltas exist;
				// both lines are logged as failures with zero deltas, which the spec accepts only as such
				sum["failed_twice"]++
				setDiffs(line, before, after)
				line["nodiffs"] = true
				emit(line)
				tl := map[string]any{"act": "Msg", "caller": twc, "limit": 0, "fee": fee, "ok": false, "setprice": tw.price, "setrestr": tw.restr,
					"what": "twin:" + m.realm + "." + m.fn, "nodiffs": true, "st": afterT, "log": trim(logT, 200)}
				setDiffs(tl, after, afterT)
				emit(tl)
				cur = afterT
				continue
			}
			sum["twins"]++
			setDiffs(line, after, afterT)
			line["log"] = trim(firstLine(log), 200)
			emit(line)
			tl := map[string]any{"act": "Msg", "caller": twc, "limit": 0, "fee": fee, "ok": true, "setprice": tw.price, "setrestr": tw.restr,
				"what": "twin:" + m.realm + "." + m.fn, "st": afterT}
			setDiffs(tl, after, afterT)
			emit(tl)
			if m.kind == "deploy" {
				deployed = true
			}
			cur = afterT
		}
		if h+1 < nhist {
			emit(map[string]any{"act": "Reset"})
		}
		sum["histories"]++
	}
	wr.Flush()
	out.Close()
	o := map[string]any{}
	for k, v := range sum {
		o[k] = v
	}
	mbt.Summary(o)
	mbt.Flush()
}

func allZero(d map[string]int64) bool {
	for _, v := range d {
		if v != 0 {
			return false
		}
	}
	return true
}

func firstLine(s string) string {
	for _, l := range strings.Split(s, "\n") {
		if strings.Contains(l, "deposit") || strings.Contains(l, "insufficient") || strings.Contains(l, "panic") {
			return strings.TrimSpace(l)
		}
	}
	return ""
}

func trim(s string, n int) string {
	if len(s) > n {
		return s[:n]
	}
	return s
}
