// Driver for C22 (spec/KVOverlay.tla): replays TLC behaviours on real stacks of
// cache.cacheStore (CacheWrap / cachemulti.Store) and prefix.Store over dbadapter stores.
//
// Verdict observables: the reply of every Get / Has / Iterator / ReverseIterator at every
// level, after every step the raw content of the base DBs (what Write / WriteCheckpoint
// persisted, what a dropped layer did not) and HasCheckpoint of every layer, and at the end of
// every behaviour a full scan (both iterator directions, Get and Has of every addressable key)
// of every level against the spec's views. Gas is not compared.
package main

import (
	"bytes"
	"encoding/hex"
	"encoding/json"
	"fmt"
	"math/rand"
	"runtime"
	"sort"
	"sync"

	dbm "github.com/gnolang/gno/tm2/pkg/db"
	"github.com/gnolang/gno/tm2/pkg/db/memdb"
	"github.com/gnolang/gno/tm2/pkg/store/cachemulti"
	"github.com/gnolang/gno/tm2/pkg/store/dbadapter"
	"github.com/gnolang/gno/tm2/pkg/store/prefix"
	"github.com/gnolang/gno/tm2/pkg/store/types"

	"verifharness/mbt"
)

type variant struct {
	Mode string `json:"mode"` // plain: Store.CacheWrap per store | multi: cachemulti.Store
	Base string `json:"base"` // memdb | collecting (CollectingDB over memdb, drained after every step)
	Gas  bool   `json:"gas"`  // pass a GasContext with an infinite meter (exercises gasIterator)
}

func (v variant) String() string {
	g := "nogas"
	if v.Gas {
		g = "gas"
	}
	return v.Mode + "/" + v.Base + "/" + g
}

type config struct {
	Variants []variant `json:"variants"`
	Keys     [][]int   `json:"keys"`   // absolute key universe (byte tuples)
	Stores   []string  `json:"stores"` // store names
	Prefix   int       `json:"prefix_replays"`
}

type level struct {
	kind   string
	pfx    []byte
	stores map[string]types.Store
	ms     types.MultiStore // multi mode: the cachemulti.Store of a cache level
}

type env struct {
	v      variant
	names  []string
	mem    map[string]*memdb.MemDB
	coll   map[string]*dbm.BatchCollector
	skeys  map[string]types.StoreKey
	levels []level
	gctx   *types.GasContext
}

func newEnv(v variant, names []string) *env {
	e := &env{v: v, names: names, mem: map[string]*memdb.MemDB{}, coll: map[string]*dbm.BatchCollector{}, skeys: map[string]types.StoreKey{}}
	base := level{kind: "base", stores: map[string]types.Store{}}
	for _, s := range names {
		e.mem[s] = memdb.NewMemDB()
		e.skeys[s] = types.NewStoreKey(s)
		var db dbm.DB = e.mem[s]
		if v.Base == "collecting" {
			e.coll[s] = dbm.NewBatchCollector()
			db = dbm.NewCollectingDB(e.mem[s], e.coll[s])
		}
		base.stores[s] = dbadapter.Store{DB: db}
	}
	e.levels = []level{base}
	if v.Gas {
		e.gctx = &types.GasContext{Meter: types.NewInfiniteGasMeter(), Config: types.DefaultGasConfig()}
	}
	return e
}

func (e *env) top() *level { return &e.levels[len(e.levels)-1] }

// drain: what rootmulti does at commit with the collector of a CollectingDB
func (e *env) drain() error {
	for _, s := range e.names {
		c := e.coll[s]
		if c == nil || c.Len() == 0 {
			continue
		}
		b := e.mem[s].NewBatch()
		if err := c.Drain(b); err != nil {
			return err
		}
		if err := b.WriteSync(); err != nil {
			return err
		}
		b.Close()
	}
	return nil
}

func (e *env) pushCache() {
	below := e.top()
	l := level{kind: "cache", stores: map[string]types.Store{}}
	if e.v.Mode == "multi" {
		if below.ms != nil {
			l.ms = below.ms.MultiCacheWrap()
		} else {
			m := map[types.StoreKey]types.Store{}
			byName := map[string]types.StoreKey{}
			for _, s := range e.names {
				m[e.skeys[s]] = below.stores[s]
				byName[s] = e.skeys[s]
			}
			l.ms = cachemulti.New(m, byName)
		}
		for _, s := range e.names {
			l.stores[s] = l.ms.GetStore(e.skeys[s])
		}
	} else {
		for _, s := range e.names {
			l.stores[s] = below.stores[s].CacheWrap()
		}
	}
	e.levels = append(e.levels, l)
}

func (e *env) pushPrefix(p []byte) {
	below := e.top()
	l := level{kind: "prefix", pfx: p, stores: map[string]types.Store{}}
	for _, s := range e.names {
		l.stores[s] = prefix.New(below.stores[s], append([]byte{}, p...))
	}
	e.levels = append(e.levels, l)
}

func (e *env) write() {
	t := e.top()
	if t.ms != nil {
		t.ms.MultiWrite()
		return
	}
	for _, s := range e.names {
		t.stores[s].Write()
	}
}

func (e *env) checkpointables() []types.Checkpointable {
	t := e.top()
	if t.ms != nil {
		return []types.Checkpointable{t.ms.(types.Checkpointable)}
	}
	var out []types.Checkpointable
	for _, s := range e.names {
		out = append(out, t.stores[s].(types.Checkpointable))
	}
	return out
}

// hasCP: HasCheckpoint of level i (false for prefix layers), "?" when the stores of a level disagree
func (e *env) hasCP(i int) any {
	l := &e.levels[i]
	if l.kind != "cache" {
		return false
	}
	if l.ms != nil {
		return l.ms.(types.Checkpointable).HasCheckpoint()
	}
	var first bool
	for j, s := range e.names {
		h := l.stores[s].(types.Checkpointable).HasCheckpoint()
		if j == 0 {
			first = h
		} else if h != first {
			return "stores-disagree"
		}
	}
	return first
}

// ---------------------------------------------------------------------------- decoding

type kv struct {
	K string // hex of the key
	V string
}

func keyOf(v any) []byte { // JSON array of numbers -> bytes (empty array -> empty, non nil)
	a, _ := v.([]any)
	out := make([]byte, 0, len(a))
	for _, x := range a {
		out = append(out, byte(int(x.(float64))))
	}
	return out
}
func boundOf(v any) []byte { // [] -> nil, [[...]] -> key
	a, _ := v.([]any)
	if len(a) == 0 {
		return nil
	}
	return keyOf(a[0])
}
func pairs(v any) []kv {
	a, _ := v.([]any)
	out := make([]kv, 0, len(a))
	for _, x := range a {
		p := x.([]any)
		out = append(out, kv{hex.EncodeToString(keyOf(p[0])), p[1].(string)})
	}
	return out
}
func valOf(s string) []byte {
	b := make([]byte, len(s))
	copy(b, s)
	return b
}
func outVal(v []byte) string {
	if v == nil {
		return "NIL"
	}
	return string(v)
}
func eqKV(a, b []kv) bool {
	if len(a) != len(b) {
		return false
	}
	for i := range a {
		if a[i] != b[i] {
			return false
		}
	}
	return true
}

func (e *env) iterate(st types.Store, start, end []byte, asc bool) []kv {
	var it types.Iterator
	if asc {
		it = st.Iterator(e.gctx, start, end)
	} else {
		it = st.ReverseIterator(e.gctx, start, end)
	}
	defer it.Close()
	out := []kv{}
	for ; it.Valid(); it.Next() {
		out = append(out, kv{hex.EncodeToString(it.Key()), string(it.Value())})
		if len(out) > 4096 {
			panic("iterator does not terminate")
		}
	}
	return out
}

// ---------------------------------------------------------------------------- replay

type failure struct {
	key, what string
	step      int
}

type runner struct {
	e    *env
	keys [][]byte // absolute key universe
	idx  int
}

func (r *runner) fail(act, class, what string) *failure {
	return &failure{key: "C22:" + act + ":" + class, what: "[" + r.e.v.String() + "] " + what, step: r.idx}
}

func (r *runner) absPrefix(l int) []byte {
	var ap []byte
	for i := 1; i <= l; i++ {
		ap = append(ap, r.e.levels[i].pfx...)
	}
	return ap
}

// baseScan: raw content of the base DBs (below every store layer)
func (r *runner) baseScan(s string) []kv {
	it, err := r.e.mem[s].Iterator(nil, nil)
	if err != nil {
		panic(err)
	}
	defer it.Close()
	out := []kv{}
	for ; it.Valid(); it.Next() {
		out = append(out, kv{hex.EncodeToString(it.Key()), string(it.Value())})
	}
	return out
}

func (r *runner) project(act string, st map[string]any) *failure {
	if err := r.e.drain(); err != nil {
		return r.fail(act, "drain-error", err.Error())
	}
	bases := st["base"].(map[string]any)
	for _, s := range r.e.names {
		got, exp := r.baseScan(s), pairs(bases[s])
		if !eqKV(got, exp) {
			return r.fail(act, "base-state", fmt.Sprintf("after %s the base DB of %s holds %s, spec %s", act, s, mbt.JS(got), mbt.JS(exp)))
		}
	}
	hc, _ := st["hascp"].([]any)
	if len(hc) != len(r.e.levels)-1 {
		mbt.Die("driver out of step: %d layers, spec %d", len(r.e.levels)-1, len(hc))
	}
	for i, x := range hc {
		if got := r.e.hasCP(i + 1); got != x {
			return r.fail(act, "has-checkpoint", fmt.Sprintf("after %s HasCheckpoint of layer %d = %v, spec %v", act, i+1, got, x))
		}
	}
	return nil
}

// fullScan: every level, top first: both iterator directions over the whole domain, Get and Has
// of every key the level can address
func (r *runner) fullScan(views []any) *failure {
	if len(views) != len(r.e.levels) {
		mbt.Die("driver out of step: %d levels, spec views %d", len(r.e.levels), len(views))
	}
	for l := len(r.e.levels) - 1; l >= 0; l-- {
		ap := r.absPrefix(l)
		vm := views[l].(map[string]any)
		for _, s := range r.e.names {
			st := r.e.levels[l].stores[s]
			exp := pairs(vm[s])
			if got := r.e.iterate(st, nil, nil, true); !eqKV(got, exp) {
				return r.fail("final", "view-scan", fmt.Sprintf("level %d store %s Iterator(nil,nil) = %s, spec %s", l, s, mbt.JS(got), mbt.JS(exp)))
			}
			rev := make([]kv, len(exp))
			for i := range exp {
				rev[len(exp)-1-i] = exp[i]
			}
			if got := r.e.iterate(st, nil, nil, false); !eqKV(got, rev) {
				return r.fail("final", "view-scan", fmt.Sprintf("level %d store %s ReverseIterator(nil,nil) = %s, spec %s", l, s, mbt.JS(got), mbt.JS(rev)))
			}
			want := map[string]string{}
			for _, p := range exp {
				want[p.K] = p.V
			}
			for _, k := range r.keys {
				if !bytes.HasPrefix(k, ap) {
					continue
				}
				rel := append([]byte{}, k[len(ap):]...)
				w, ok := want[hex.EncodeToString(rel)]
				if !ok {
					w = "NIL"
				}
				if got := outVal(st.Get(r.e.gctx, rel)); got != w {
					return r.fail("final", "view-get", fmt.Sprintf("level %d store %s Get(%x) = %q, spec %q", l, s, rel, got, w))
				}
				if got := st.Has(r.e.gctx, append([]byte{}, rel...)); got != ok {
					return r.fail("final", "view-has", fmt.Sprintf("level %d store %s Has(%x) = %v, spec %v", l, s, rel, got, ok))
				}
			}
		}
	}
	return nil
}

func (r *runner) step(s mbt.Step) *failure {
	e := r.e
	act := s.Act()
	var reply any = "ok"
	switch act {
	case "Init":
		st := s["st"].(map[string]any)
		for name, lst := range st["base"].(map[string]any) {
			for _, p := range pairs(lst) {
				k, _ := hex.DecodeString(p.K)
				if err := e.mem[name].Set(append([]byte{}, k...), valOf(p.V)); err != nil {
					panic(err)
				}
			}
		}
	case "PushCache":
		e.pushCache()
	case "PushPrefix":
		e.pushPrefix(keyOf(s["p"]))
	case "Pop":
		e.levels = e.levels[:len(e.levels)-1]
	case "Set":
		e.top().stores[s.Str("s")].Set(e.gctx, keyOf(s["k"]), valOf(s.Str("v")))
	case "Delete":
		e.top().stores[s.Str("s")].Delete(e.gctx, keyOf(s["k"]))
	case "Get":
		reply = outVal(e.levels[s.Int("l")].stores[s.Str("s")].Get(e.gctx, keyOf(s["k"])))
	case "Has":
		reply = e.levels[s.Int("l")].stores[s.Str("s")].Has(e.gctx, keyOf(s["k"]))
	case "Iter":
		got := e.iterate(e.levels[s.Int("l")].stores[s.Str("s")], boundOf(s["start"]), boundOf(s["end"]), s.Bool("asc"))
		exp := pairs(s["reply"])
		if !eqKV(got, exp) {
			dir := "Iterator"
			if !s.Bool("asc") {
				dir = "ReverseIterator"
			}
			return r.fail(act, "reply", fmt.Sprintf("level %d store %s %s(%x, %x) over prefix %x = %s, spec %s",
				s.Int("l"), s.Str("s"), dir, boundOf(s["start"]), boundOf(s["end"]), r.absPrefix(s.Int("l")), mbt.JS(got), mbt.JS(exp)))
		}
		return nil
	case "Write":
		e.write()
	case "Checkpoint":
		for _, c := range e.checkpointables() {
			c.Checkpoint()
		}
	case "WriteCheckpoint":
		for _, c := range e.checkpointables() {
			c.WriteCheckpoint()
		}
	default:
		mbt.Die("unknown act %q", act)
	}
	if exp, has := s["reply"]; has && reply != exp {
		return r.fail(act, "reply", fmt.Sprintf("level %d store %s %s(%x) = %v, spec %v", s.Int("l"), s.Str("s"), act, keyOf(s["k"]), reply, exp))
	}
	if st, ok := s["st"].(map[string]any); ok {
		return r.project(act, st)
	}
	return nil
}

// replay: steps, then a full scan against views (the spec's views after the last step)
func replay(v variant, cfgKeys [][]byte, names []string, beh []mbt.Step, views []any) *failure {
	r := &runner{e: newEnv(v, names), keys: cfgKeys}
	for i, s := range beh {
		r.idx = i
		var f *failure
		if p, val, stk := mbt.Guard(func() { f = r.step(s) }); p {
			f = r.fail(s.Act(), "panic", fmt.Sprintf("%s panicked: %v at %s", s.Act(), val, mbt.ShortStack(stk)))
		}
		if f != nil {
			return f
		}
	}
	if views == nil {
		return nil
	}
	r.idx = len(beh)
	var f *failure
	if p, val, stk := mbt.Guard(func() { f = r.fullScan(views) }); p {
		f = r.fail("final", "panic", fmt.Sprintf("full scan panicked: %v at %s", val, mbt.ShortStack(stk)))
	}
	return f
}

// viewsAt: the views the spec logged at or before step i (LogViews), nil if none
func viewsAt(beh []mbt.Step, i int) []any {
	for ; i >= 0; i-- {
		if st, ok := beh[i]["st"].(map[string]any); ok {
			if v, ok := st["views"].([]any); ok {
				return v
			}
			return nil
		}
	}
	return nil
}

func main() {
	f := mbt.ParseFlags()
	var cfg config
	if err := json.Unmarshal([]byte(f.Extra), &cfg); err != nil {
		mbt.Die("bad -x: %v", err)
	}
	var keys [][]byte
	for _, k := range cfg.Keys {
		b := make([]byte, 0, len(k))
		for _, x := range k {
			b = append(b, byte(x))
		}
		keys = append(keys, b)
	}
	sort.Slice(keys, func(i, j int) bool { return bytes.Compare(keys[i], keys[j]) < 0 })
	behs, err := mbt.ReadBehaviours(f.In)
	if err != nil {
		mbt.Die("%v", err)
	}
	type job struct {
		beh   []mbt.Step
		views []any
	}
	// the last record of every behaviour carries "final" = the views after the last step
	var jobs []job
	rng := rand.New(rand.NewSource(f.Seed))
	for _, b := range behs {
		last := b[len(b)-1]
		fin, _ := last["final"].([]any) // absent only when a stored failing case is replayed (--replay)
		jobs = append(jobs, job{b, fin})
		// simulated behaviours log the views at every step: also stop at random earlier points
		for k := 0; k < cfg.Prefix && len(b) > 2; k++ {
			cut := 1 + rng.Intn(len(b)-1)
			if v := viewsAt(b, cut-1); v != nil {
				jobs = append(jobs, job{b[:cut], v})
			}
		}
	}
	var mu sync.Mutex
	reported := map[string]int{}
	var replays, ok, steps, flaky int64
	var wg sync.WaitGroup
	nw := runtime.NumCPU()
	for w := 0; w < nw; w++ {
		wg.Add(1)
		go func(w int) {
			defer wg.Done()
			var lr, lok, lsteps, lflaky int64
			for i := w; i < len(jobs); i += nw {
				j := jobs[i]
				for _, v := range cfg.Variants {
					lr++
					lsteps += int64(len(j.beh))
					fl := replay(v, keys, cfg.Stores, j.beh, j.views)
					if fl == nil {
						lok++
						continue
					}
					fl2 := replay(v, keys, cfg.Stores, j.beh, j.views) // rule 4: once more from fresh objects
					if fl2 == nil || fl2.key != fl.key {
						lflaky++
						mbt.Emit(map[string]any{"kind": "flaky", "variant": v.String(), "first": fl.key + " :: " + fl.what, "second": fmt.Sprint(fl2)})
						continue
					}
					mu.Lock()
					reported[fl.key]++
					first := reported[fl.key] <= 2
					mu.Unlock()
					if first {
						steps := j.beh
						if fl.step+1 < len(steps) {
							steps = steps[:fl.step+1]
						}
						mbt.Mismatch(fl.key, fmt.Sprintf("step %d: %s", fl.step, fl.what),
							map[string]any{"variant": v, "keys": cfg.Keys, "stores": cfg.Stores, "steps": steps, "views": j.views, "scan": fl.step >= len(j.beh)})
					}
				}
			}
			mu.Lock()
			replays += lr
			ok += lok
			steps += lsteps
			flaky += lflaky
			mu.Unlock()
		}(w)
	}
	wg.Wait()
	for i := 0; i < len(behs) && i < 2; i++ {
		b := behs[i]
		if len(b) > 8 {
			b = b[:8]
		}
		mbt.Sample(b)
	}
	mbt.Summary(map[string]any{"behaviours": len(behs), "scan_points": len(jobs), "replays": replays, "replays_ok": ok, "steps": steps, "flaky": flaky})
	mbt.Flush()
}
