// Driver for C16 (spec/Session.tla): replays TLC behaviours on the REAL gno.land application.
//
// Every behaviour has its own master account, its own session keys (s1, s2), its own sink and
// its own storage box in the test realm r/verif/sess. Spec time is block time: the blocks of a
// batch are scheduled by (tick, position within the tick), every behaviour delivering its step
// of that slot, so one in-process application serves a whole batch in lock-step.
// Verdict observables: the outcome class of every transaction (ok / fail after the ante handler
// / rejected by the ante handler) and, after every block, the MASTER'S BALANCE (the ghost
// variable of the spec is accumulated from exactly these balances) together with the session
// records (used, period start, sequence, existence) read back through ABCI Query.
package main

import (
	"bufio"
	"encoding/json"
	"fmt"
	"os"
	"sort"
	"strings"
	"time"

	"github.com/gnolang/gno/gno.land/pkg/sdk/vm"
	abci "github.com/gnolang/gno/tm2/pkg/bft/abci/types"
	"github.com/gnolang/gno/tm2/pkg/crypto"
	"github.com/gnolang/gno/tm2/pkg/crypto/secp256k1"
	"github.com/gnolang/gno/tm2/pkg/db/goleveldb"
	"github.com/gnolang/gno/tm2/pkg/sdk/auth"
	"github.com/gnolang/gno/tm2/pkg/sdk/bank"
	"github.com/gnolang/gno/tm2/pkg/std"

	"verifharness/appenv"
	"verifharness/mbt"
)

const (
	unit      = int64(10_000) // ugnot per spec unit = 100 bytes of storage at the default price (100 ugnot / byte)
	bytesUnit = 100
	mstart    = int64(40)
	ostart    = int64(20)
	tickSec   = int64(10)
	gasWant   = int64(60_000_000)
	boxBase   = 300 // bytes in a fresh box: all length prefixes stay two bytes wide between 128 and 16383
	sessPath  = "gno.land/r/verif/sess"
	otherPath = "gno.land/r/verif/sessx" // shares the prefix of sessPath without being a sub-path: AllowPaths must not match it
)

const sessSrc = `package sess

import (
	"chain"
	"chain/banker"
	"strings"
)

type Box struct{ s string }

var shards [64]map[string]*Box

func shard(key string) int {
	h := 0
	for i := 0; i < len(key); i++ {
		h = (h*31 + int(key[i])) % 64
	}
	return h
}

func Pay(cur realm) {}

func PayPanic(cur realm) { panic("refused") }

func Give(cur realm, to address, n int64) {
	banker.NewBanker(banker.BankerTypeRealmSend, cur).SendCoins(cur.Address(), to, chain.Coins{chain.Coin{"ugnot", n}})
}

func NewBox(cur realm, key string, n int) {
	i := shard(key)
	if shards[i] == nil {
		shards[i] = map[string]*Box{}
	}
	shards[i][key] = &Box{s: strings.Repeat("x", n)}
}

func Resize(cur realm, key string, n int) {
	shards[shard(key)][key].s = strings.Repeat("x", n)
}
`

const otherSrc = `package sessx

func Pay(cur realm) {}
`

type key struct {
	priv secp256k1.PrivKeySecp256k1
	pub  crypto.PubKey
	addr crypto.Address
}

func newKey(seed string) *key {
	p := secp256k1.GenPrivKeySecp256k1([]byte(seed))
	return &key{priv: p, pub: p.PubKey(), addr: p.PubKey().Address()}
}

type run struct {
	idx    int
	tag    string
	beh    []mbt.Step
	m      *key
	o      *key // the session holder's own ordinary account
	onum   uint64
	oseq   uint64
	s      map[string]*key
	z      crypto.Address
	mnum   uint64
	mseq   uint64
	snum   map[string]uint64
	sseq   map[string]uint64 // next sequence of the session key (the chain's own count, tracked from results)
	size   int
	slot   []int // block slot of every step (-1: no transaction)
	failed bool
}

type world struct {
	e      *appenv.Env
	faucet *appenv.Account
	fnum   uint64
	fseq   uint64
	tag    string
	base   time.Time // time of tick 0 of the current batch
}

func jsonFind(v any, field string) (any, bool) {
	switch m := v.(type) {
	case map[string]any:
		if x, ok := m[field]; ok {
			return x, true
		}
		for _, x := range m {
			if r, ok := jsonFind(x, field); ok {
				return r, true
			}
		}
	case []any:
		for _, x := range m {
			if r, ok := jsonFind(x, field); ok {
				return r, true
			}
		}
	}
	return nil, false
}

func (w *world) queryJSON(path string) (any, bool) {
	res := w.e.App.Query(abci.RequestQuery{Path: path})
	if !res.IsOK() || len(res.Data) == 0 || string(res.Data) == "null" {
		return nil, false
	}
	var v any
	if err := json.Unmarshal(res.Data, &v); err != nil {
		return nil, false
	}
	return v, true
}

func u64(v any, f string) uint64 {
	x, ok := jsonFind(v, f)
	if !ok {
		return 0
	}
	var n uint64
	fmt.Sscan(fmt.Sprint(x), &n)
	return n
}

func i64(v any, f string) int64 {
	x, ok := jsonFind(v, f)
	if !ok || x == nil {
		return 0
	}
	var n int64
	fmt.Sscan(fmt.Sprint(x), &n)
	return n
}

func ugnotOf(v any, f string) (int64, bool) {
	x, ok := jsonFind(v, f)
	if !ok || x == nil {
		return 0, true
	}
	s := strings.TrimSpace(fmt.Sprint(x))
	if s == "" {
		return 0, true
	}
	coins, err := std.ParseCoins(s)
	if err != nil {
		return 0, false
	}
	for _, c := range coins {
		if c.Denom != "ugnot" {
			return 0, false
		}
	}
	return coins.AmountOf("ugnot"), true
}

func send(from, to crypto.Address, amt int64) std.Msg {
	return bank.MsgSend{FromAddress: from, ToAddress: to, Amount: std.Coins{{Denom: "ugnot", Amount: amt}}}
}

func ug(n int64) std.Coins {
	if n == 0 {
		return nil
	}
	return std.Coins{{Denom: "ugnot", Amount: n}}
}

func signWith(k *key, msgs []std.Msg, fee int64, num, seq uint64, sessAddr crypto.Address) std.Tx {
	tx := std.Tx{Msgs: msgs, Fee: std.Fee{GasWanted: gasWant, GasFee: std.Coin{Denom: "ugnot", Amount: fee}}}
	sb, err := tx.GetSignBytes(appenv.ChainID, num, seq)
	if err != nil {
		panic(err)
	}
	sig, err := k.priv.Sign(sb)
	if err != nil {
		panic(err)
	}
	tx.Signatures = []std.Signature{{PubKey: k.pub, Signature: sig, SessionAddr: sessAddr}}
	return tx
}

func (w *world) tickTime(t int) time.Time { return w.base.Add(time.Duration(int64(t)*tickSec) * time.Second) }

// beginAt opens a block whose header time is exactly t (appenv.BeginBlock adds 5 s to Env.Time)
func (w *world) beginAt(t time.Time) {
	w.e.Time = t.Add(-5 * time.Second)
	w.e.BeginBlock()
}

func (w *world) deliverOK(tx std.Tx, what string) abci.ResponseDeliverTx {
	res := w.e.Deliver(tx)
	if !res.IsOK() {
		mbt.Die("%s failed: %s", what, res.Log)
	}
	return res
}

func (r *run) boxKey() string { return fmt.Sprintf("%s-%d", r.tag, r.idx) }

func (w *world) masterTx(r *run, msgs []std.Msg, fee int64) std.Tx {
	tx := signWith(r.m, msgs, fee, r.mnum, r.mseq, crypto.Address{})
	return tx
}

func allowPaths(a string) []string {
	switch a {
	case "*":
		return []string{"*"}
	case "send":
		return []string{"bank/send"}
	case "exec":
		return []string{"vm/exec:" + sessPath}
	case "execother":
		return []string{"vm/exec:" + otherPath}
	}
	mbt.Die("allow class %q", a)
	return nil
}

func (w *world) createMsg(r *run, s string, c mbt.Step, now int) std.Msg {
	msg := auth.MsgCreateSession{Creator: r.m.addr, SessionKey: r.s[s].pub, AllowPaths: allowPaths(c.Str("allow")),
		SpendPeriod: int64(c.Int("period")) * tickSec}
	if l := int64(c.Int("limit")); l > 0 {
		msg.SpendLimit = ug(l * unit)
	}
	if e := c.Int("expin"); e > 0 {
		msg.ExpiresAt = w.tickTime(now + e).Unix()
	}
	return msg
}

// ---------------------------------------------------------------- realising one step

func (w *world) buildStep(r *run, s mbt.Step) (std.Tx, func(ok, ante bool)) {
	now := s.Int("now")
	msgsOf := func() ([]std.Msg, int) {
		var out []std.Msg
		size := r.size
		for _, x := range s["msgs"].([]any) {
			m := mbt.Step(x.(map[string]any))
			amt := int64(m.Int("x")) * unit
			switch m.Str("k") {
			case "osend":
				out = append(out, send(r.o.addr, r.z, amt))
			case "send":
				out = append(out, send(r.m.addr, r.z, amt))
			case "pay":
				out = append(out, vm.NewMsgCall(r.m.addr, ug(amt), sessPath, "Pay", nil))
			case "paypanic":
				out = append(out, vm.NewMsgCall(r.m.addr, ug(amt), sessPath, "PayPanic", nil))
			case "other":
				out = append(out, vm.NewMsgCall(r.m.addr, ug(amt), otherPath, "Pay", nil))
			case "grow":
				size += m.Int("x") * bytesUnit
				c := vm.NewMsgCall(r.m.addr, nil, sessPath, "Resize", []string{r.boxKey(), fmt.Sprint(size)})
				c.MaxDeposit = ug(1_000_000_000)
				out = append(out, c)
			case "shrink":
				size -= m.Int("x") * bytesUnit
				out = append(out, vm.NewMsgCall(r.m.addr, nil, sessPath, "Resize", []string{r.boxKey(), fmt.Sprint(size)}))
			case "give":
				out = append(out, vm.NewMsgCall(r.m.addr, nil, sessPath, "Give", []string{r.m.addr.String(), fmt.Sprint(amt)}))
			case "revoke":
				out = append(out, auth.MsgRevokeSession{Creator: r.m.addr, SessionKey: r.s[fmt.Sprintf("s%d", m.Int("x"))].pub})
			default:
				mbt.Die("message kind %q", m.Str("k"))
			}
		}
		return out, size
	}
	switch s.Act() {
	case "SessionTx":
		sn := s.Str("s")
		msgs, size := msgsOf()
		tx := signWith(r.s[sn], msgs, int64(s.Int("fee"))*unit, r.snum[sn], r.sseq[sn], r.s[sn].addr)
		return tx, func(ok, ante bool) {
			if ante {
				r.sseq[sn]++
			}
			if ok {
				r.size = size
			}
		}
	case "MixedTx":
		// two signers in order of first appearance: the ordinary account (own key) and the master (session key)
		sn := s.Str("s")
		msgs, size := msgsOf()
		tx := std.Tx{Msgs: msgs, Fee: std.Fee{GasWanted: gasWant, GasFee: std.Coin{Denom: "ugnot", Amount: int64(s.Int("fee")) * unit}}}
		oSigned := false
		for _, a := range tx.GetSigners() {
			var k *key
			var num, seq uint64
			var sa crypto.Address
			if a == r.o.addr {
				k, num, seq, oSigned = r.o, r.onum, r.oseq, true
			} else {
				k, num, seq, sa = r.s[sn], r.snum[sn], r.sseq[sn], r.s[sn].addr
			}
			sb, err := tx.GetSignBytes(appenv.ChainID, num, seq)
			if err != nil {
				panic(err)
			}
			sig, err := k.priv.Sign(sb)
			if err != nil {
				panic(err)
			}
			tx.Signatures = append(tx.Signatures, std.Signature{PubKey: k.pub, Signature: sig, SessionAddr: sa})
		}
		return tx, func(ok, ante bool) {
			if ante {
				r.sseq[sn]++
				if oSigned {
					r.oseq++
				}
			}
			if ok {
				r.size = size
			}
		}
	case "MasterTx":
		msgs, size := msgsOf()
		return w.masterTx(r, msgs, unit), func(ok, ante bool) {
			if ante {
				r.mseq++
			}
			if ok {
				r.size = size
			}
		}
	case "CreateSession":
		sn := s.Str("s")
		msg := w.createMsg(r, sn, mbt.Step(s["c"].(map[string]any)), now)
		return w.masterTx(r, []std.Msg{msg}, unit), func(ok, ante bool) {
			if ante {
				r.mseq++
			}
			if ok {
				r.sseq[sn] = 0
				r.snum[sn] = ^uint64(0) // looked up after the block
			}
		}
	case "Revoke":
		msg := auth.MsgRevokeSession{Creator: r.m.addr, SessionKey: r.s[s.Str("s")].pub}
		return w.masterTx(r, []std.Msg{msg}, unit), func(ok, ante bool) {
			if ante {
				r.mseq++
			}
		}
	case "RevokeAll":
		return w.masterTx(r, []std.Msg{auth.MsgRevokeAllSessions{Creator: r.m.addr}}, unit), func(ok, ante bool) {
			if ante {
				r.mseq++
			}
		}
	}
	mbt.Die("unknown act %q", s.Act())
	return std.Tx{}, nil
}

// ---------------------------------------------------------------- projection

func (w *world) project(r *run) map[string]any {
	var mb any
	if b := w.e.Balance(r.m.addr); b%unit == 0 {
		mb = b / unit
	} else {
		mb = fmt.Sprintf("%d ugnot (not a whole number of units)", b)
	}
	ss := map[string]any{}
	for _, sn := range []string{"s1", "s2"} {
		v, ok := w.queryJSON("auth/accounts/" + r.m.addr.String() + "/session/" + r.s[sn].addr.String())
		if !ok {
			ss[sn] = map[string]any{"exists": false, "used": 0, "reset": 0, "seq": 0, "limit": 0, "period": 0, "expires": 0}
			continue
		}
		used, ok1 := ugnotOf(v, "spend_used")
		limit, ok2 := ugnotOf(v, "spend_limit")
		var usedV, limitV any = used / unit, limit / unit
		if !ok1 || used%unit != 0 {
			usedV = fmt.Sprintf("unexpected spend_used %v", used)
		}
		if !ok2 || limit%unit != 0 {
			limitV = fmt.Sprintf("unexpected spend_limit %v", limit)
		}
		exp := i64(v, "expires_at")
		if exp != 0 {
			exp = (exp - w.base.Unix()) / tickSec
		}
		ss[sn] = map[string]any{"exists": true, "used": usedV, "reset": (i64(v, "spend_reset") - w.base.Unix()) / tickSec,
			"seq": u64(v, "sequence"), "limit": limitV, "period": i64(v, "spend_period") / tickSec, "expires": exp}
		if r.snum[sn] == ^uint64(0) {
			r.snum[sn] = u64(v, "account_number")
		}
	}
	var ob any
	if b := w.e.Balance(r.o.addr); b%unit == 0 {
		ob = b / unit
	} else {
		ob = fmt.Sprintf("%d ugnot (not a whole number of units)", b)
	}
	return map[string]any{"mbal": mb, "obal": ob, "sess": ss}
}

// ---------------------------------------------------------------- batch

type mism struct {
	key, what string
	cs        any
}

func (w *world) newRun(idx int, beh []mbt.Step) *run {
	p := fmt.Sprintf("c16-%s-%d-", w.tag, idx)
	return &run{idx: idx, tag: w.tag, beh: beh, m: newKey(p + "m"), o: newKey(p + "o"), s: map[string]*key{"s1": newKey(p + "s1"), "s2": newKey(p + "s2")},
		z: crypto.AddressFromPreimage([]byte(p + "z")), snum: map[string]uint64{}, sseq: map[string]uint64{}, size: boxBase + 1}
}

func (w *world) setup(runs []*run) {
	t0 := w.tickTime(0)
	// funding
	w.beginAt(t0)
	for _, r := range runs {
		tx := appenv.SignTx([]std.Msg{send(w.faucet.Addr, r.m.addr, (mstart+30)*unit), send(w.faucet.Addr, r.o.addr, ostart*unit)}, gasWant, 1, appenv.ChainID, w.faucet, w.fnum, w.fseq)
		w.fseq++
		w.deliverOK(tx, "funding")
	}
	w.e.EndBlockCommit()
	for _, r := range runs {
		if v, ok := w.queryJSON("auth/accounts/" + r.o.addr.String()); ok {
			r.onum, r.oseq = u64(v, "account_number"), u64(v, "sequence")
		}
	}
	// the master creates its storage box and the sessions of the behaviour's Setup record (time = tick 0)
	w.beginAt(t0)
	for _, r := range runs {
		v, ok := w.queryJSON("auth/accounts/" + r.m.addr.String())
		if !ok {
			mbt.Die("master %d has no account", r.idx)
		}
		r.mnum, r.mseq = u64(v, "account_number"), u64(v, "sequence")
		c := vm.NewMsgCall(r.m.addr, nil, sessPath, "NewBox", []string{r.boxKey(), fmt.Sprint(boxBase)})
		c.MaxDeposit = ug(1_000_000_000)
		c2 := vm.NewMsgCall(r.m.addr, nil, sessPath, "Resize", []string{r.boxKey(), fmt.Sprint(boxBase + 1)}) // first re-save: modification stamp
		c2.MaxDeposit = ug(1_000_000_000)
		msgs := []std.Msg{c, c2}
		pre, _ := r.beh[0]["pre"].(map[string]any)
		for _, sn := range []string{"s1", "s2"} {
			c := mbt.Step(pre[sn].(map[string]any))
			if c.Int("limit") < 0 {
				continue
			}
			msgs = append(msgs, w.createMsg(r, sn, c, 0))
			r.snum[sn] = ^uint64(0)
		}
		w.deliverOK(w.masterTx(r, msgs, unit), "box and session creation")
		r.mseq++
	}
	w.e.EndBlockCommit()
	// level the master's balance to exactly mstart units (the box deposit is not a whole number of units)
	w.beginAt(t0)
	for _, r := range runs {
		b := w.e.Balance(r.m.addr)
		back := b - mstart*unit - unit
		if back <= 0 {
			mbt.Die("setup of behaviour %d cost more than its allowance (balance %d)", r.idx, b)
		}
		w.deliverOK(w.masterTx(r, []std.Msg{send(r.m.addr, w.faucet.Addr, back)}, unit), "levelling")
		r.mseq++
	}
	w.e.EndBlockCommit()
}

// calibrate checks, once per application, that 100 bytes of growth lock exactly one unit and that
// shrinking refunds exactly one unit (otherwise amounts of the spec would not be whole units).
func (w *world) calibrate() {
	r := w.newRun(-1, nil)
	w.beginAt(w.tickTime(0))
	tx := appenv.SignTx([]std.Msg{send(w.faucet.Addr, r.m.addr, 100_000*unit)}, gasWant, 1, appenv.ChainID, w.faucet, w.fnum, w.fseq)
	w.fseq++
	w.deliverOK(tx, "calibration funding")
	w.e.EndBlockCommit()
	v, _ := w.queryJSON("auth/accounts/" + r.m.addr.String())
	r.mnum, r.mseq = u64(v, "account_number"), u64(v, "sequence")
	step := func(fn string, n int) int64 {
		before := w.e.Balance(r.m.addr)
		w.beginAt(w.tickTime(0))
		c := vm.NewMsgCall(r.m.addr, nil, sessPath, fn, []string{r.boxKey(), fmt.Sprint(n)})
		c.MaxDeposit = ug(1_000_000_000)
		w.deliverOK(w.masterTx(r, []std.Msg{c}, unit), "calibration "+fn)
		r.mseq++
		w.e.EndBlockCommit()
		return before - w.e.Balance(r.m.addr) - unit
	}
	// realm time (the ModTime stamped on re-saved objects is a varint of it) must stay between 128 and
	// 16383 while amounts are measured: push it over 128 here, cap the behaviours per application below
	w.beginAt(w.tickTime(0))
	for i := 0; i < 12; i++ {
		var msgs []std.Msg
		for j := 0; j < 5; j++ {
			c := vm.NewMsgCall(r.m.addr, nil, sessPath, "NewBox", []string{fmt.Sprintf("warm-%s-%d-%d", w.tag, i, j), "8"})
			c.MaxDeposit = ug(1_000_000_000)
			msgs = append(msgs, c)
		}
		w.deliverOK(w.masterTx(r, msgs, unit), "warm-up")
		r.mseq++
	}
	w.e.EndBlockCommit()
	step("NewBox", boxBase)
	step("Resize", boxBase+1) // first re-save of an object adds its modification stamp
	if d := step("Resize", boxBase+1+3*bytesUnit); d != 3*unit {
		mbt.Die("calibration: growing a box by %d bytes locked %d ugnot, expected %d", 3*bytesUnit, d, 3*unit)
	}
	if d := step("Resize", boxBase+1+bytesUnit); d != -2*unit {
		mbt.Die("calibration: shrinking a box by %d bytes refunded %d ugnot, expected %d", 2*bytesUnit, -d, 2*unit)
	}
}

func (w *world) batch(behs [][]mbt.Step, base int) (out []*mism, steps int) {
	// a new batch starts well after everything that happened before (sessions of earlier batches are irrelevant)
	w.base = w.e.Time.Add(1000 * time.Second).Truncate(time.Second)
	var runs []*run
	type slotKey struct{ tick, pos int }
	slots := map[slotKey][]int{}
	for i, b := range behs {
		r := w.newRun(base+i, b)
		runs = append(runs, r)
		if len(b) == 0 || b[0].Act() != "Setup" {
			mbt.Die("behaviour does not start with Setup")
		}
		pos := map[int]int{}
		for k, s := range b {
			if k == 0 || s.Act() == "AdvanceTime" {
				r.slot = append(r.slot, -1)
				continue
			}
			t := s.Int("now")
			r.slot = append(r.slot, pos[t])
			slots[slotKey{t, pos[t]}] = append(slots[slotKey{t, pos[t]}], i)
			pos[t]++
		}
	}
	w.setup(runs)
	// first comparison: the state after setup
	for _, r := range runs {
		obs, exp := w.project(r), r.beh[0]["st"]
		if !mbt.Eq(obs, exp) {
			mbt.Die("setup of behaviour %d did not reach the spec's initial state: %s vs %s", r.idx, mbt.JS(obs), mbt.JS(exp))
		}
	}
	var order []slotKey
	for k := range slots {
		order = append(order, k)
	}
	sort.Slice(order, func(i, j int) bool {
		if order[i].tick != order[j].tick {
			return order[i].tick < order[j].tick
		}
		return order[i].pos < order[j].pos
	})
	for _, sk := range order {
		w.beginAt(w.tickTime(sk.tick))
		touched := map[*run]int{}
		for _, i := range slots[sk] {
			r := runs[i]
			if r.failed {
				continue
			}
			// the step of this behaviour that sits in this slot
			k := -1
			for j, s := range r.beh {
				if j > 0 && s.Act() != "AdvanceTime" && s.Int("now") == sk.tick && r.slot[j] == sk.pos {
					k = j
					break
				}
			}
			s := r.beh[k]
			tx, after := w.buildStep(r, s)
			var res abci.ResponseDeliverTx
			if p, val, st := mbt.Guard(func() { res = w.e.Deliver(tx) }); p {
				out = append(out, &mism{"C16:panic:" + s.Act(), fmt.Sprintf("DeliverTx panicked: %v at %s", val, mbt.ShortStack(st)), map[string]any{"steps": r.beh[:k+1]}})
				r.failed = true
				continue
			}
			steps++
			reply := "reject"
			switch {
			case res.IsOK():
				reply = "ok"
			case res.GasWanted > 0:
				reply = "fail"
			}
			after(res.IsOK(), res.GasWanted > 0)
			if reply != s.Str("reply") {
				out = append(out, &mism{fmt.Sprintf("C16:%s:%s->%s", classOf(s), s.Str("reply"), reply),
					fmt.Sprintf("step %d %s: the chain answered %q, the spec %q (%s)", k, mbt.JS(dropSt(s)), reply, s.Str("reply"), firstLine(res.Log)),
					map[string]any{"steps": r.beh[:k+1]}})
				r.failed = true
				continue
			}
			touched[r] = k
		}
		w.e.EndBlockCommit()
		for _, i := range slots[sk] {
			r := runs[i]
			k, ok := touched[r]
			if !ok || r.failed {
				continue
			}
			obs, exp := w.project(r), r.beh[k]["st"]
			if !mbt.Eq(obs, exp) {
				s := r.beh[k]
				what := "session record"
				if !mbt.Eq(obs["mbal"], exp.(map[string]any)["mbal"]) {
					what = "master balance"
				}
				out = append(out, &mism{fmt.Sprintf("C16:state:%s:%s:%s", what, classOf(s), s.Str("reply")),
					fmt.Sprintf("after step %d %s: %s differs: chain %s, spec %s", k, mbt.JS(dropSt(s)), what, mbt.JS(obs), mbt.JS(exp)),
					map[string]any{"steps": r.beh[:k+1]}})
				r.failed = true
			}
		}
	}
	return out, steps
}

func firstLine(s string) string {
	s = strings.ReplaceAll(s, "\n", " | ")
	if len(s) > 400 {
		s = s[:400]
	}
	return s
}

// classOf names the class of a step: the action and the kinds of its messages
func classOf(s mbt.Step) string {
	var ks []string
	if ms, ok := s["msgs"].([]any); ok {
		for _, x := range ms {
			ks = append(ks, mbt.Step(x.(map[string]any)).Str("k"))
		}
	}
	return s.Act() + ":" + strings.Join(ks, "+")
}

func dropSt(s mbt.Step) map[string]any {
	o := map[string]any{}
	for k, v := range s {
		if k != "st" {
			o[k] = v
		}
	}
	return o
}

func newWorld(tag string) *world {
	f := appenv.NewAccount("c16-faucet")
	d := appenv.NewAccount("c16-deployer")
	dir, err := os.MkdirTemp("", "c16db")
	if err != nil {
		mbt.Die("tmp: %v", err)
	}
	db, err := goleveldb.NewGoLevelDB("app", dir)
	if err != nil {
		mbt.Die("db: %v", err)
	}
	e, err := appenv.New(appenv.Options{DB: db, MaxGas: 1_000_000_000_000,
		Balances: map[crypto.Address]int64{f.Addr: 4_000_000_000_000_000, d.Addr: 1_000_000_000, appenv.PkgAddr(sessPath): 1_000_000_000_000},
		Deployer: d,
		Pkgs: []appenv.Pkg{{Path: sessPath, Files: map[string]string{"sess.gno": sessSrc}},
			{Path: otherPath, Files: map[string]string{"other.gno": otherSrc}}}})
	if err != nil {
		mbt.Die("new app: %v", err)
	}
	w := &world{e: e, faucet: f, tag: tag}
	v, _ := w.queryJSON("auth/accounts/" + f.Addr.String())
	w.fnum, w.fseq = u64(v, "account_number"), u64(v, "sequence")
	w.base = e.Time.Add(1000 * time.Second).Truncate(time.Second)
	w.calibrate()
	return w
}

func main() {
	f := mbt.ParseFlags()
	fh, err := os.Open(f.In)
	if err != nil {
		mbt.Die("%v", err)
	}
	var behs [][]mbt.Step
	sc := bufio.NewScanner(fh)
	sc.Buffer(make([]byte, 1<<20), 1<<28)
	for sc.Scan() {
		if len(sc.Bytes()) == 0 {
			continue
		}
		var beh []mbt.Step
		if err := json.Unmarshal(sc.Bytes(), &beh); err != nil {
			mbt.Die("bad behaviour line: %v", err)
		}
		if len(beh) > 1 {
			behs = append(behs, beh)
		}
	}
	fh.Close()
	size := f.N
	if size <= 0 {
		size = 1000
	}
	w := newWorld("r0")
	served := 0
	var okc, steps, flaky int
	seen := map[string]bool{}
	for base := 0; base < len(behs); base += size {
		end := base + size
		if end > len(behs) {
			end = len(behs)
		}
		if served+(end-base) > 2500 {
			w, served = newWorld(fmt.Sprintf("r%d", base)), 0 // keeps the realm's object counter below 16384 (see calibrate)
		}
		served += end - base
		mis, n := w.batch(behs[base:end], base)
		steps += n
		okc += end - base - len(mis)
		if len(mis) == 0 {
			continue
		}
		// soundness rule 4: re-run failing behaviours once on a fresh application
		sort.Slice(mis, func(i, j int) bool { return mis[i].key < mis[j].key })
		var again [][]mbt.Step
		for _, m := range mis {
			if !seen[m.key] && len(again) < 12 {
				seen[m.key] = true
				again = append(again, m.cs.(map[string]any)["steps"].([]mbt.Step))
			}
		}
		if len(again) > 0 {
			w2 := newWorld("f")
			mis2, _ := w2.batch(again, 0)
			for _, m := range mis2 {
				mbt.Mismatch(m.key, m.what, m.cs)
			}
			flaky += len(again) - len(mis2)
		}
	}
	for i := 0; i < len(behs) && i < 2; i++ {
		mbt.Sample(behs[i])
	}
	mbt.Summary(map[string]any{"behaviours": len(behs), "replays": len(behs), "replays_ok": okc, "steps": steps, "flaky": flaky})
	mbt.Flush()
}
