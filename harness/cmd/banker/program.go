package main

import (
	"fmt"
	"math/rand"
)

// program returns one round of transactions: benign traffic that exercises every legitimate way a
// balance may decrease, the attack programs, and the negative controls (documented delegation).
// Amounts and the order of the attack block depend on the seed.
func program(rng *rand.Rand, round int) []txSpec {
	amt := func(lo, hi int64) int64 { return lo + rng.Int63n(hi-lo+1) }
	s := func(n int64) string { return fmt.Sprint(n) }
	fee := func() int64 { return amt(1_000, 90_000) }
	one := func(label, cls, signer string, m ...msgSpec) txSpec {
		return txSpec{Label: label, Cls: cls, Signer: signer, Fee: fee(), Msgs: m}
	}
	var pre, atk, post []txSpec

	// ---- benign prefix: fund the vault, mint vcoin, create storage
	pre = append(pre,
		one("u1-deposit", "benign", "u1", call(vaultPath, "Deposit", amt(1_000, 50_000), stdDep)),
		one("u1-mint-u2", "benign", "u1", call(vaultPath, "MintTo", 0, stdDep, "U2", s(amt(500, 900)))),
		one("u1-mint-u1", "benign", "u1", call(vaultPath, "MintTo", 0, stdDep, "U1", s(amt(500, 900)))),
		one("u1-grow", "benign", "u1", call(vaultPath, "Grow", 0, stdDep, s(amt(20, 60)))),
		one("u1-grow2", "benign", "u1", call(vaultPath, "Grow", 0, stdDep, s(amt(5, 15)))),
		one("att-keep", "benign", "att", call(malPath, "Keep", 0, stdDep)),
		one("u1-innocent", "benign", "u1", call(malPath, "Innocent", amt(10, 500), stdDep)),
	)

	// ---- attacks
	for _, from := range []string{"u1", "u2", "vault", "vdep", "caller"} {
		for _, kind := range []string{"realm", "origin", "issue"} {
			send := int64(0)
			if kind == "origin" {
				send = amt(50, 500)
			}
			atk = append(atk, one("send-from-"+from+"-"+kind, "attack", "att", call(malPath, "SendFrom", send, stdDep, kind, from, s(amt(100, 90_000)))))
		}
		atk = append(atk, one("kept-from-"+from, "attack", "att", call(malPath, "UseKept", 0, stdDep, from, s(amt(100, 90_000)))))
	}
	// the honest user calls into the attacker realm, which tries to drain its caller
	atk = append(atk,
		one("prev-banker-realm", "attack", "u1", call(malPath, "PrevBanker", amt(10, 400), stdDep, "realm", s(amt(10_000, 900_000)))),
		one("prev-banker-origin", "attack", "u1", call(malPath, "PrevBanker", amt(10, 400), stdDep, "origin", s(amt(10_000, 900_000)))),
		one("u1-sendfrom-caller", "attack", "u1", call(malPath, "SendFrom", amt(10, 400), stdDep, "realm", "caller", s(amt(10_000, 900_000)))),
		one("u1-sendfrom-caller-origin", "attack", "u1", call(malPath, "SendFrom", amt(10, 400), stdDep, "origin", "caller", s(amt(10_000, 900_000)))),
		one("u1-bloat-over-limit", "attack", "u1", call(malPath, "Bloat", 0, amt(1_000, 9_000), s(amt(40, 80)))),
		one("u1-relay-withdraw", "attack", "u1", call(malPath, "RelayWithdraw", 0, stdDep, s(amt(1_000, 9_000)))),
		one("u1-relay-mint", "attack", "u1", call(malPath, "RelayMint", 0, stdDep, s(amt(1_000, 9_000)))),
	)
	// the attacker against the vault
	atk = append(atk,
		one("via-notify-hook", "attack", "att", call(malPath, "ViaNotify", 0, stdDep)),
		one("fake-banker-to-vault", "attack", "att", call(malPath, "FakeToVault", 0, stdDep, s(amt(100, 9_000)))),
		one("att-withdraw", "attack", "att", call(vaultPath, "Withdraw", 0, stdDep, s(amt(100, 9_000)))),
		one("att-mint", "attack", "att", call(vaultPath, "MintTo", 0, stdDep, "ATTADDR", s(amt(100, 9_000)))),
		one("att-burn-u2", "attack", "att", call(vaultPath, "BurnFrom", 0, stdDep, "U2", "100")),
		one("origin-twice", "attack", "att", call(vaultPath, "ForwardTimes", amt(1_000, 9_000), stdDep, "ATTADDR", "2")),
		one("origin-thrice", "attack", "att", call(vaultPath, "ForwardTimes", amt(1_000, 9_000), stdDep, "ATTADDR", "3")),
		one("origin-exceed", "attack", "att", call(vaultPath, "ForwardAmount", 100, stdDep, "ATTADDR", s(amt(101, 90_000)))),
		one("origin-nosend", "attack", "att", call(vaultPath, "ForwardAmount", 0, stdDep, "ATTADDR", s(amt(1, 90_000)))),
		one("origin-two-msgs", "attack", "att", call(vaultPath, "Forward", 70, stdDep, "ATTADDR"), call(vaultPath, "ForwardAmount", 30, stdDep, "ATTADDR", "100")),
		one("issue-vault-denom", "attack", "att", call(malPath, "Issue", 0, stdDep, vDenom, "att", s(amt(1_000, 9_000)))),
		one("issue-ugnot", "attack", "att", call(malPath, "Issue", 0, stdDep, "ugnot", "att", s(amt(1_000, 9_000)))),
		one("burn-vault-denom-u2", "attack", "att", call(malPath, "Burn", 0, stdDep, vDenom, "u2", "50")),
		one("burn-ugnot-u2", "attack", "att", call(malPath, "Burn", 0, stdDep, "ugnot", "u2", "50")),
	)
	// ---- origin-send INSTALMENTS: several sends through one origin-send banker whose running total exceeds what
	// came with the call although every two consecutive sends fit (a budget that forgets earlier sends lets them pass)
	join := func(p ...int64) string {
		out := ""
		for i, x := range p {
			if i > 0 {
				out += ","
			}
			out += s(x)
		}
		return out
	}
	type inst struct {
		name  string
		x     int64
		parts string
	}
	mk := func() []inst {
		x := 2 * amt(500, 900_000) // even, so that x/2 + x/2 = x exactly
		h, t := x/2, x/3+1
		a := x*3/5 - amt(0, x/10)
		b := x - a // a + b = x: every adjacent pair of a,b,a,b fits exactly
		q := x / 4
		return []inst{
			{"3x-half", x, join(h, h, h)}, {"4x-half", x, join(h, h, h, h)},
			{"3x-third1", x, join(t, t, t)}, {"4x-third1", x, join(t, t, t, t)},
			{"mixed-aba", x, join(a, b, a)}, {"mixed-abab", x, join(a, b, a, b)},
			{"mixed-half-quarter", x, join(h, q, h, q, h)},
		}
	}
	for _, in := range mk() {
		atk = append(atk, one("inst-"+in.name, "attack", "att", call(vaultPath, "ForwardParts", in.x, stdDep, "ATTADDR", in.parts)))
	}
	for _, in := range mk()[:3] {
		atk = append(atk, one("u1-inst-"+in.name, "attack", "u1", call(vaultPath, "ForwardParts", in.x, stdDep, "ATTADDR", in.parts)))
	}
	for _, in := range mk()[:4] {
		m := runScript("run-forward-parts", in.x)
		m.Parts = in.parts
		atk = append(atk, one("run-forward-"+in.name, "attack", "att", m))
	}
	{
		in := mk()[0]
		m := runScript("run-inst-own", in.x)
		m.Parts = in.parts
		atk = append(atk, one("run-inst-own-3x-half", "attack", "att", m))
		m2 := runScript("run-payout-via", in.x)
		m2.Parts = in.parts
		atk = append(atk, one("run-payout-via-3x-half", "attack", "att", m2))
	}
	for _, sc := range []string{"leak-stale", "leakprev-stale", "callback-own-cur", "run-forward", "run-from-u2", "run-prev", "forge-literal", "native-direct", "convert-readonly"} {
		send := int64(0)
		if sc == "run-forward" {
			send = amt(100, 900)
		}
		atk = append(atk, one("run-"+sc, "attack", "att", runScript(sc, send)))
	}
	rng.Shuffle(len(atk), func(i, j int) { atk[i], atk[j] = atk[j], atk[i] })

	// ---- benign suffix and negative controls: every legitimate decrease must be observable
	post = append(post,
		one("u1-withdraw", "benign", "u1", call(vaultPath, "Withdraw", 0, stdDep, s(amt(1_000, 90_000)))),
		one("u1-forward-u2", "benign", "u1", call(vaultPath, "Forward", amt(100, 9_000), stdDep, "U2")),
		one("att-forward", "benign", "att", call(vaultPath, "Forward", amt(100, 9_000), stdDep, "ATTADDR")),
		one("att-shrink-refund", "benign", "att", call(vaultPath, "Shrink", 0, stdDep)),
		one("u1-burn-u2", "benign", "u1", call(vaultPath, "BurnFrom", 0, stdDep, "U2", "7")),
		one("u1-send-vcoin", "benign", "u1", msgSpec{Kind: "send", To: "att", Send: 5, Denom: "v"}),
		one("u1-send", "benign", "u1", msgSpec{Kind: "send", To: "u2", Send: amt(1, 5_000)}),
		one("att-own", "benign", "att", call(malPath, "Own", 0, stdDep, s(amt(1, 1_000)))),
		one("att-kept-own", "benign", "att", call(malPath, "UseKeptOwn", 0, stdDep, s(amt(1, 1_000)))),
		one("u1-bloat-within-limit", "benign", "u1", call(malPath, "Bloat", 0, stdDep, s(amt(3, 9)))),
	)
	// instalments through the third-party router that only receives the vault's origin-send banker. A SUCCESSFUL
	// hand-over is a grant for every later transaction (the struct persists), which would blunt the statement for the
	// attacks after it: so the attacks (which a healthy chain rolls back, counter included) come first, in seeded
	// order, and the within-envelope hand-over last.
	{
		var ratk []txSpec
		for _, in := range mk() {
			ratk = append(ratk, one("router-"+in.name, "attack", "att", call(vaultPath, "PayoutVia", in.x, stdDep, "ATTADDR", in.parts)))
		}
		rng.Shuffle(len(ratk), func(i, j int) { ratk[i], ratk[j] = ratk[j], ratk[i] })
		post = append(post, ratk...)
		x := 2 * amt(500, 900_000)
		post = append(post,
			one("inst-2x-half-exact", "benign", "att", call(vaultPath, "ForwardParts", x, stdDep, "ATTADDR", join(x/2, x/2))),
			one("router-2x-half-exact", "benign", "u1", call(vaultPath, "PayoutVia", x, stdDep, "U2", join(x/2, x/2))))
	}
	post = append(post,
		one("ctl-delegate", "control", "att", runScript("delegate", 0)),
		one("ctl-delegate-keep", "control", "att", runScript("delegate-keep", 0)),
		one("att-after-delegation", "attack", "att", call(malPath, "SendFrom", 0, stdDep, "realm", "vault", "1234")),
		// the router keeps the origin-send banker it was handed and uses it in a later transaction (documented:
		// a banker handed out is an irrevocable grant - recorded, not judged)
		one("router-keep", "benign", "att", call(vaultPath, "PayoutVia", 1000, stdDep, "ATTADDR", "keep,400")),
		one("router-replay-kept", "benign", "att", call(routerPath, "Replay", 700, stdDep, "ATTADDR", "700")),
	)
	out := append(pre, atk...)
	return append(out, post...)
}
