package main

// Gno sources of the fixed universe of C08.
//
//   gno.land/r/verif/vault  - the HONEST realm: holds ugnot, issues the denom
//       /gno.land/r/verif/vault:vcoin, and counts in its own persisted state every exercise of
//       its own authority (Spends: RealmSend banker minted by vault code; OriginUses: OriginSend
//       banker; Issues: RealmIssue banker; Delegations: the vault handed its LIVE cur to
//       caller-supplied code).  These counters are the ground truth for "a banker minted by R was
//       used": the driver reads them before/after every transaction.
//   gno.land/r/verif/router - a third-party "payment router" the vault calls with an OriginSend banker of
//       its own (written by the attacker: it pays out in instalments, and can keep the banker).
//   gno.land/r/verif/mal    - the ATTACKER realm: one exported crossing function per attack.
//   MsgRun scripts          - attacks that need a script (stale cur, callbacks, forged values).

const vaultPath = "gno.land/r/verif/vault"
const malPath = "gno.land/r/verif/mal"
const routerPath = "gno.land/r/verif/router"
const vDenom = "/gno.land/r/verif/vault:vcoin"

// ADMIN is replaced by the bech32 address of the honest user u1.
const vaultSrc = `package vault

import (
	"chain"
	"chain/banker"
	"chain/runtime/unsafe"
	"strconv"
	"strings"

	"gno.land/r/verif/router"
)

const admin = address("ADMIN")
const Denom = "/gno.land/r/verif/vault:vcoin"

var (
	Spends      int
	OriginUses  int
	Issues      int
	Delegations int
	OriginGrants int
	blob        []string
)

func itoa(n int) string {
	if n == 0 {
		return "0"
	}
	s := ""
	for n > 0 {
		s = string(rune('0'+n%10)) + s
		n /= 10
	}
	return s
}

func Counters() string {
	return itoa(Spends) + "," + itoa(OriginUses) + "," + itoa(Issues) + "," + itoa(Delegations) + "," + itoa(len(blob)) + "," + itoa(OriginGrants)
}

func mustAdmin(cur realm) address {
	if !cur.IsCurrent() {
		panic("stale realm value")
	}
	caller := cur.Previous().Address()
	if caller != admin {
		panic("not admin")
	}
	return caller
}

// Deposit keeps the coins sent with the call.
func Deposit(cur realm) {}

// Withdraw pays amt ugnot from the vault to the admin (RealmSend authority of the vault).
func Withdraw(cur realm, amt int64) {
	caller := mustAdmin(cur)
	Spends++
	b := banker.NewBanker(banker.BankerTypeRealmSend, cur)
	b.SendCoins(cur.Address(), caller, chain.Coins{{"ugnot", amt}})
}

// Forward passes the coins sent with the call on to 'to' (origin-send authority only).
func Forward(cur realm, to address) {
	OriginUses++
	b := banker.NewBanker(banker.BankerTypeOriginSend, cur)
	b.SendCoins(cur.Address(), to, unsafe.OriginSend())
}

// ForwardTimes tries to pass the coins sent with the call on n times: every send after the
// first must be refused by the origin-send limit.
func ForwardTimes(cur realm, to address, n int) {
	OriginUses++
	b := banker.NewBanker(banker.BankerTypeOriginSend, cur)
	for i := 0; i < n; i++ {
		b.SendCoins(cur.Address(), to, unsafe.OriginSend())
	}
}

// ForwardAmount sends amt through the origin-send banker (must not exceed what came with the call).
func ForwardAmount(cur realm, to address, amt int64) {
	OriginUses++
	b := banker.NewBanker(banker.BankerTypeOriginSend, cur)
	b.SendCoins(cur.Address(), to, chain.Coins{{"ugnot", amt}})
}

// ForwardParts pays the coins sent with the call on in instalments ("a,b,c" ugnot) through ONE
// origin-send banker: their running total must stay within what came with the call.
func ForwardParts(cur realm, to address, parts string) {
	OriginUses++
	b := banker.NewBanker(banker.BankerTypeOriginSend, cur)
	for _, p := range strings.Split(parts, ",") {
		n, err := strconv.Atoi(p)
		if err != nil {
			panic("bad part " + p)
		}
		b.SendCoins(cur.Address(), to, chain.Coins{{"ugnot", int64(n)}})
	}
}

// PayoutVia hands an origin-send banker over the vault's own address to the third-party router,
// which is meant to forward - at most - the coins the caller sent along.
func PayoutVia(cur realm, to address, parts string) {
	OriginGrants++
	b := banker.NewBanker(banker.BankerTypeOriginSend, cur)
	router.Route(b, cur.Address(), to, parts)
}

// MintTo / BurnFrom: the vault's own denomination, admin only.
func MintTo(cur realm, to address, amt int64) {
	mustAdmin(cur)
	Issues++
	b := banker.NewBanker(banker.BankerTypeRealmIssue, cur)
	b.IssueCoin(to, Denom, amt)
}

func BurnFrom(cur realm, from address, amt int64) {
	mustAdmin(cur)
	Issues++
	b := banker.NewBanker(banker.BankerTypeRealmIssue, cur)
	b.RemoveCoin(from, Denom, amt)
}

// ---- entry points that run caller-supplied code WITHOUT handing over authority
func Visit(cur realm, cb func())            { cb() }
func Notify(cur realm, hook func(realm))    { hook(cross(cur)) }
func Leak(cur realm) realm                  { return cur }
func LeakPrev(cur realm) realm              { return cur.Previous() }
func Pay(cur realm, b banker.Banker, to address, amt int64) {
	// uses a caller-supplied Banker value: whatever it is, it cannot carry the vault's authority
	b.SendCoins(cur.Address(), to, chain.Coins{{"ugnot", amt}})
}

// ---- the documented way to give authority away (negative control): the vault passes its LIVE cur
func Delegate(cur realm, cb func(int, realm)) {
	Delegations++
	cb(0, cur)
}

// ---- storage traffic (storage deposits are paid by / refunded to the caller)
func Grow(cur realm, n int) {
	s := ""
	for i := 0; i < n; i++ {
		s += "xxxxxxxxxxxxxxxx"
	}
	blob = append(blob, s)
}

func Shrink(cur realm) {
	if n := len(blob); n > 0 {
		blob[n-1] = ""
		blob = blob[:n-1]
	}
}
`

const routerSrc = `package router

import (
	"chain"
	"chain/banker"
	"strconv"
	"strings"
)

var (
	kept     banker.Banker
	keptFrom address
)

// Route pays "a,b,c" ugnot from 'from' to 'to' through the banker it was given; the part "keep"
// stores the banker for later transactions.
func Route(b banker.Banker, from, to address, parts string) {
	for _, p := range strings.Split(parts, ",") {
		if p == "keep" {
			kept, keptFrom = b, from
			continue
		}
		n, err := strconv.Atoi(p)
		if err != nil {
			panic("bad part " + p)
		}
		b.SendCoins(from, to, chain.Coins{{"ugnot", int64(n)}})
	}
}

// Replay uses a banker kept in an earlier transaction.
func Replay(cur realm, to address, amt int64) {
	kept.SendCoins(keptFrom, to, chain.Coins{{"ugnot", amt}})
}
`

// ATT = attacker EOA (receives the loot), U1/U2 = honest users, VAULT/VDEP = vault address / its
// storage-deposit address.
const malSrc = `package mal

import (
	"chain"
	"chain/banker"

	"gno.land/r/verif/vault"
)

const (
	att   = address("ATT")
	u1    = address("U1")
	u2    = address("U2")
	vlt   = address("VAULT")
	vdep  = address("VDEP")
)

var kept banker.Banker
var junk []string

func ug(n int64) chain.Coins { return chain.Coins{{"ugnot", n}} }

func who(name string) address {
	switch name {
	case "u1":
		return u1
	case "u2":
		return u2
	case "vault":
		return vlt
	case "vdep":
		return vdep
	case "caller":
		return ""
	}
	return att
}

// SendFrom: a banker of the attacker realm, asked to send from somebody else's address.
func SendFrom(cur realm, kind string, from string, amt int64) {
	bt := banker.BankerTypeRealmSend
	if kind == "origin" {
		bt = banker.BankerTypeOriginSend
	} else if kind == "issue" {
		bt = banker.BankerTypeRealmIssue
	}
	b := banker.NewBanker(bt, cur)
	f := who(from)
	if from == "caller" {
		f = cur.Previous().Address()
	}
	b.SendCoins(f, att, ug(amt))
}

// PrevBanker: mint a banker over the CALLER's realm value (cur.Previous()) and drain the caller.
func PrevBanker(cur realm, kind string, amt int64) {
	bt := banker.BankerTypeRealmSend
	if kind == "origin" {
		bt = banker.BankerTypeOriginSend
	}
	p := cur.Previous()
	b := banker.NewBanker(bt, p)
	b.SendCoins(p.Address(), att, ug(amt))
}

// Keep / UseKept: a persisted banker of the attacker realm, later used with a foreign 'from'.
func Keep(cur realm) { kept = banker.NewBanker(banker.BankerTypeRealmSend, cur) }
func UseKept(cur realm, from string, amt int64) { kept.SendCoins(who(from), att, ug(amt)) }
func UseKeptOwn(cur realm, amt int64)           { kept.SendCoins(cur.Address(), att, ug(amt)) }

// Hook: called BY the vault (vault.Notify cross-calls it): cur.Previous() is the vault's realm value.
func Hook(cur realm) {
	p := cur.Previous()
	b := banker.NewBanker(banker.BankerTypeRealmSend, p)
	b.SendCoins(p.Address(), att, ug(777))
}
func ViaNotify(cur realm) { vault.Notify(cross(cur), Hook) }

// Issue / Burn with the attacker realm's RealmIssue banker on foreign denominations.
func Issue(cur realm, denom string, to string, amt int64) {
	b := banker.NewBanker(banker.BankerTypeRealmIssue, cur)
	b.IssueCoin(who(to), denom, amt)
}
func Burn(cur realm, denom string, from string, amt int64) {
	b := banker.NewBanker(banker.BankerTypeRealmIssue, cur)
	b.RemoveCoin(who(from), denom, amt)
}

// fake: an attacker-declared Banker implementation handed to the vault.
type fake struct{ inner banker.Banker }

func (f fake) GetCoins(a address) chain.Coins                     { return nil }
func (f fake) GetCoin(a address, d string) int64                  { return 0 }
func (f fake) SendCoins(from, to address, amt chain.Coins)         { f.inner.SendCoins(from, att, amt) }
func (f fake) TotalCoin(d string) int64                            { return 0 }
func (f fake) IssueCoin(a address, d string, n int64)              {}
func (f fake) RemoveCoin(a address, d string, n int64)             {}
func FakeToVault(cur realm, amt int64) {
	mine := banker.NewBanker(banker.BankerTypeRealmSend, cur)
	vault.Pay(cross(cur), fake{mine}, att, amt)
}

// Relay: attacker realm in the middle of an honest user's call to an admin-only vault function.
func RelayWithdraw(cur realm, amt int64) { vault.Withdraw(cross(cur), amt) }
func RelayMint(cur realm, amt int64)     { vault.MintTo(cross(cur), att, amt) }

// Bloat: grow the attacker realm's storage so that the CALLER pays the storage deposit.
func Bloat(cur realm, n int) {
	s := ""
	for i := 0; i < n; i++ {
		s += "yyyyyyyyyyyyyyyy"
	}
	junk = append(junk, s)
}

// Innocent: keeps what was sent (benign use of the attacker realm by an honest user).
func Innocent(cur realm) {}

// Own: the attacker realm spends its own coins (benign).
func Own(cur realm, amt int64) {
	b := banker.NewBanker(banker.BankerTypeRealmSend, cur)
	b.SendCoins(cur.Address(), att, ug(amt))
}
`

// MsgRun scripts of the attacker (ATT/U2/VAULT substituted).
var scripts = map[string]string{
	// a stale realm value of the vault (returned after its frame is gone) used to mint a banker
	"leak-stale": `package main

import (
	"chain"
	"chain/banker"

	"gno.land/r/verif/vault"
)

func main(cur realm) {
	r := vault.Leak(cross(cur))
	b := banker.NewBanker(banker.BankerTypeRealmSend, r)
	b.SendCoins(r.Address(), address("ATT"), chain.Coins{{"ugnot", 555}})
}
`,
	// code run by the vault as a callback has no realm value of the vault: it tries the script's own cur
	"callback-own-cur": `package main

import (
	"chain"
	"chain/banker"

	"gno.land/r/verif/vault"
)

func main(cur realm) {
	vault.Visit(cross(cur), func() {
		b := banker.NewBanker(banker.BankerTypeRealmSend, cur)
		b.SendCoins(address("VAULT"), address("ATT"), chain.Coins{{"ugnot", 444}})
	})
}
`,
	// the documented delegation (negative control): the vault hands its live cur to the callback
	"delegate": `package main

import (
	"chain"
	"chain/banker"

	"gno.land/r/verif/vault"
)

func main(cur realm) {
	vault.Delegate(cross(cur), func(_ int, r realm) {
		b := banker.NewBanker(banker.BankerTypeRealmSend, r)
		b.SendCoins(r.Address(), address("ATT"), chain.Coins{{"ugnot", 333}})
	})
}
`,
	// a banker minted from a delegated cur, kept by the script and used after the vault returned (control)
	"delegate-keep": `package main

import (
	"chain"
	"chain/banker"

	"gno.land/r/verif/vault"
)

func main(cur realm) {
	var b banker.Banker
	vault.Delegate(cross(cur), func(_ int, r realm) {
		b = banker.NewBanker(banker.BankerTypeRealmSend, r)
	})
	b.SendCoins(address("VAULT"), address("ATT"), chain.Coins{{"ugnot", 222}})
}
`,
	// origin-send rules through MsgRun: the vault is not called by a user call
	"run-forward": `package main

import "gno.land/r/verif/vault"

func main(cur realm) {
	vault.Forward(cross(cur), address("ATT"))
}
`,
	// the script's own realm value: spend from somebody else's address
	"run-from-u2": `package main

import (
	"chain"
	"chain/banker"
)

func main(cur realm) {
	b := banker.NewBanker(banker.BankerTypeRealmSend, cur)
	b.SendCoins(address("U2"), address("ATT"), chain.Coins{{"ugnot", 111}})
}
`,
	"run-prev": `package main

import (
	"chain"
	"chain/banker"
)

func main(cur realm) {
	p := cur.Previous()
	b := banker.NewBanker(banker.BankerTypeRealmSend, p)
	b.SendCoins(address("VAULT"), address("ATT"), chain.Coins{{"ugnot", 111}})
}
`,
	"leakprev-stale": `package main

import (
	"chain"
	"chain/banker"

	"gno.land/r/verif/vault"
)

func main(cur realm) {
	r := vault.LeakPrev(cross(cur))
	b := banker.NewBanker(banker.BankerTypeRealmSend, r)
	b.SendCoins(address("VAULT"), address("ATT"), chain.Coins{{"ugnot", 99}})
}
`,
	// instalments through the script's own origin-send banker (its own coins) and through the vault
	"run-inst-own": `package main

import (
	"chain"
	"chain/banker"
)

func main(cur realm) {
	b := banker.NewBanker(banker.BankerTypeOriginSend, cur)
	for i := 0; i < 3; i++ {
		b.SendCoins(cur.Address(), address("U2"), chain.Coins{{"ugnot", PARTA}})
	}
}
`,
	"run-forward-parts": `package main

import "gno.land/r/verif/vault"

func main(cur realm) {
	vault.ForwardParts(cross(cur), address("ATT"), "PARTS")
}
`,
	"run-payout-via": `package main

import "gno.land/r/verif/vault"

func main(cur realm) {
	vault.PayoutVia(cross(cur), address("ATT"), "PARTS")
}
`,
	// forged values: must not even type-check
	"forge-literal": `package main

import (
	"chain"
	"chain/banker"
)

func main(cur realm) {
	b := banker.banker{bt: banker.BankerTypeRealmSend, pkgAddr: address("VAULT")}
	b.SendCoins(address("VAULT"), address("ATT"), chain.Coins{{"ugnot", 88}})
}
`,
	"native-direct": `package main

import "chain/banker"

func main(cur realm) {
	banker.bankerSendCoins(2, "VAULT", "ATT", []string{"ugnot"}, []int64{77})
}
`,
	"convert-readonly": `package main

import (
	"chain"
	"chain/banker"
)

type twin struct {
	bt      banker.BankerType
	pkgAddr address
	pkgPath string
}

func main(cur realm) {
	ro := banker.NewReadonlyBanker()
	var x any = ro
	t := x.(twin)
	t.bt = banker.BankerTypeRealmSend
	_ = t
	ro.SendCoins(address("VAULT"), address("ATT"), chain.Coins{{"ugnot", 66}})
}
`,
}
