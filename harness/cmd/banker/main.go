// Driver for C08 (spec/Banker.tla, spec/BankerTrace.tla): runs attack programs and benign traffic
// on the REAL gno.land application and records, per transaction, the balances of every tracked
// address before/after, the signer, what the signer authorised (fee, coins sent along, deposit
// limit), and the honest realm's own authority counters; the NDJSON trace is validated by TLC.
package main

import (
	"bufio"
	"encoding/json"
	"fmt"
	"math/rand"
	"os"
	"strings"

	"github.com/gnolang/gno/gno.land/pkg/sdk/vm"
	abci "github.com/gnolang/gno/tm2/pkg/bft/abci/types"
	"github.com/gnolang/gno/tm2/pkg/crypto"
	"github.com/gnolang/gno/tm2/pkg/sdk/bank"
	"github.com/gnolang/gno/tm2/pkg/std"

	"verifharness/appenv"
	"verifharness/mbt"
)

var tracked = []string{"u1", "u2", "att", "vault", "vdep", "mal", "mdep", "rtr", "rdep", "coll"}

type world struct {
	e     *appenv.Env
	accts map[string]*appenv.Account
	addr  map[string]crypto.Address
	seq   map[string]uint64
	num   map[string]uint64
}

func sub(src string, w *world) string {
	r := strings.NewReplacer("ADMIN", w.addr["u1"].String(), "ATT", w.addr["att"].String(), "U1", w.addr["u1"].String(),
		"U2", w.addr["u2"].String(), "VAULT", w.addr["vault"].String(), "VDEP", w.addr["vdep"].String())
	return r.Replace(src)
}

func newWorld() *world {
	w := &world{accts: map[string]*appenv.Account{}, addr: map[string]crypto.Address{}, seq: map[string]uint64{}, num: map[string]uint64{}}
	for _, n := range []string{"u1", "u2", "att", "deployer"} {
		w.accts[n] = appenv.NewAccount("c08-" + n)
		w.addr[n] = w.accts[n].Addr
	}
	w.addr["vault"] = appenv.PkgAddr(vaultPath)
	w.addr["vdep"] = appenv.DepositAddr(vaultPath)
	w.addr["mal"] = appenv.PkgAddr(malPath)
	w.addr["mdep"] = appenv.DepositAddr(malPath)
	w.addr["rtr"] = appenv.PkgAddr(routerPath)
	w.addr["rdep"] = appenv.DepositAddr(routerPath)
	w.addr["coll"] = crypto.AddressFromPreimage([]byte("fee_collector"))
	e, err := appenv.New(appenv.Options{
		MaxGas: 3_000_000_000,
		Balances: map[crypto.Address]int64{w.addr["u1"]: 1_000_000_000, w.addr["u2"]: 500_000_000, w.addr["att"]: 1_000_000_000,
			w.addr["deployer"]: 1_500_000_000, w.addr["vault"]: 300_000_000, w.addr["mal"]: 5_000_000},
		Deployer: w.accts["deployer"],
		Pkgs: []appenv.Pkg{
			{Path: routerPath, Files: map[string]string{"router.gno": routerSrc}},
			{Path: vaultPath, Files: map[string]string{"vault.gno": sub(vaultSrc, w)}},
			{Path: malPath, Files: map[string]string{"mal.gno": sub(malSrc, w)}},
		},
	})
	if err != nil {
		mbt.Die("app: %v", err)
	}
	w.e = e
	for _, n := range []string{"u1", "u2", "att"} {
		ai := e.Account(w.addr[n])
		w.seq[n], w.num[n] = ai.Seq, ai.Num
	}
	return w
}

// ---- observation through ABCI queries (committed state)

func (w *world) coins(addr crypto.Address) std.Coins {
	res := w.e.App.Query(abci.RequestQuery{Path: "bank/balances/" + addr.String()})
	if !res.IsOK() {
		mbt.Die("bank/balances: %v", res.Error)
	}
	s := strings.Trim(string(res.Data), "\"\n ")
	if s == "" {
		return nil
	}
	c, err := std.ParseCoins(s)
	if err != nil {
		mbt.Die("parse coins %q: %v", s, err)
	}
	return c
}

type obs struct {
	U map[string]int64 // ugnot per tracked address
	V map[string]int64 // vcoin per tracked address
	C [6]int64         // vault counters: spends, origin uses, issues, delegations, len(blob), origin-banker hand-overs
	StorV, StorM, StorR int64 // storage bytes of vault / mal / router (vm/qstorage)
}

func (w *world) storage(path string) int64 {
	res := w.e.App.Query(abci.RequestQuery{Path: "vm/qstorage", Data: []byte(path)})
	if !res.IsOK() {
		mbt.Die("qstorage: %v", res.Error)
	}
	var s, d int64
	fmt.Sscanf(string(res.Data), "storage: %d, deposit: %d", &s, &d)
	return s
}

func (w *world) observe() obs {
	o := obs{U: map[string]int64{}, V: map[string]int64{}}
	for _, n := range tracked {
		c := w.coins(w.addr[n])
		o.U[n] = c.AmountOf("ugnot")
		o.V[n] = c.AmountOf(vDenom)
	}
	s, err := w.e.QEval(vaultPath, "Counters()")
	if err != nil {
		mbt.Die("qeval: %v", err)
	}
	s = strings.TrimSuffix(strings.TrimPrefix(strings.TrimSpace(s), `("`), `" string)`)
	fmt.Sscanf(s, "%d,%d,%d,%d,%d,%d", &o.C[0], &o.C[1], &o.C[2], &o.C[3], &o.C[4], &o.C[5])
	o.StorV, o.StorM, o.StorR = w.storage(vaultPath), w.storage(malPath), w.storage(routerPath)
	return o
}

// ---- transactions

type msgSpec struct {
	Kind   string   `json:"kind"` // call | run | send
	Path   string   `json:"path,omitempty"`
	Fn     string   `json:"fn,omitempty"`
	Args   []string `json:"args,omitempty"`
	Send   int64    `json:"send,omitempty"`   // ugnot sent along (call/run) or transferred (send)
	MaxDep int64    `json:"maxdep,omitempty"` // storage deposit limit
	Script string   `json:"script,omitempty"`
	Parts  string   `json:"parts,omitempty"` // run: instalment list substituted for PARTS (first part for PARTA)
	To     string   `json:"to,omitempty"`
	Denom  string   `json:"denom,omitempty"` // send: "" = ugnot, "v" = vcoin
}

type txSpec struct {
	Label  string    `json:"label"`
	Cls    string    `json:"cls"` // attack | control | benign
	Signer string    `json:"signer"`
	Fee    int64     `json:"fee"`
	Msgs   []msgSpec `json:"msgs"`
}

const defaultDeposit = 600_000_000 // vm params: limit used when a message sets no MaxDeposit

func (w *world) build(t txSpec) std.Tx {
	s := w.accts[t.Signer]
	var msgs []std.Msg
	for _, m := range t.Msgs {
		var send, dep std.Coins
		if m.Send > 0 {
			send = std.Coins{{Denom: "ugnot", Amount: m.Send}}
		}
		if m.MaxDep > 0 {
			dep = std.Coins{{Denom: "ugnot", Amount: m.MaxDep}}
		}
		switch m.Kind {
		case "call":
			args := make([]string, len(m.Args))
			for i, a := range m.Args {
				switch a {
				case "U1":
					a = w.addr["u1"].String()
				case "U2":
					a = w.addr["u2"].String()
				case "ATTADDR":
					a = w.addr["att"].String()
				case "VAULT":
					a = w.addr["vault"].String()
				}
				args[i] = a
			}
			mc := vm.NewMsgCall(s.Addr, send, m.Path, m.Fn, args)
			mc.MaxDeposit = dep
			msgs = append(msgs, mc)
		case "run":
			body := sub(scripts[m.Script], w)
			if m.Parts != "" {
				body = strings.ReplaceAll(body, "PARTS", m.Parts)
				body = strings.ReplaceAll(body, "PARTA", strings.Split(m.Parts, ",")[0])
			}
			mr := vm.NewMsgRun(s.Addr, send, []*std.MemFile{{Name: "main.gno", Body: body}})
			mr.MaxDeposit = dep
			msgs = append(msgs, mr)
		case "send":
			d := "ugnot"
			if m.Denom == "v" {
				d = vDenom
			}
			msgs = append(msgs, bank.MsgSend{FromAddress: s.Addr, ToAddress: w.addr[m.To], Amount: std.Coins{{Denom: d, Amount: m.Send}}})
		default:
			mbt.Die("msg kind %q", m.Kind)
		}
	}
	return appenv.SignTx(msgs, 200_000_000, t.Fee, appenv.ChainID, s, w.num[t.Signer], w.seq[t.Signer])
}

type line map[string]any

// exec delivers one tx in its own block and returns the trace line.
func (w *world) exec(t txSpec, pre obs) (line, obs, string) {
	tx := w.build(t)
	w.e.BeginBlock()
	r := w.e.Deliver(tx)
	w.e.EndBlockCommit()
	if r.GasWanted > 0 {
		w.seq[t.Signer]++
	}
	post := w.observe()
	var sends, sendsV, maxdep int64
	run := false
	for _, m := range t.Msgs {
		if m.Kind == "send" && m.Denom == "v" {
			sendsV += m.Send
		} else {
			sends += m.Send
		}
		if m.Kind != "send" {
			if m.MaxDep > 0 {
				maxdep += m.MaxDep
			} else {
				maxdep += defaultDeposit
			}
		}
		if m.Kind == "run" {
			run = true
		}
	}
	log := r.Log
	if r.Error != nil {
		log = fmt.Sprint(r.Error) + " | " + log
	}
	kind := "ok"
	if !r.IsOK() {
		switch {
		case strings.Contains(log, "type check") || strings.Contains(log, "TypeCheckError"):
			kind = "typecheck"
		case strings.Contains(log, "VM panic") || strings.Contains(log, "panic"):
			kind = "vmpanic"
		default:
			kind = appenv.ErrClass(r.Error)
		}
	}
	l := line{"act": "Tx", "label": t.Label, "cls": t.Cls, "signer": t.Signer, "fee": t.Fee, "sends": sends, "sendsV": sendsV, "maxdep": maxdep,
		"run": run, "ok": r.IsOK(), "kind": kind, "pre": pre.U, "post": post.U, "preV": pre.V, "postV": post.V,
		"spends": post.C[0] - pre.C[0], "origin": post.C[1] - pre.C[1], "issues": post.C[2] - pre.C[2], "deleg": post.C[3] - pre.C[3],
		"ogrant": post.C[5] - pre.C[5], "storV": post.StorV - pre.StorV, "storM": post.StorM - pre.StorM, "storR": post.StorR - pre.StorR}
	return l, post, log
}

func call(path, fn string, send, maxdep int64, args ...string) msgSpec {
	return msgSpec{Kind: "call", Path: path, Fn: fn, Args: args, Send: send, MaxDep: maxdep}
}
func runScript(name string, send int64) msgSpec { return msgSpec{Kind: "run", Script: name, Send: send, MaxDep: 2_000_000} }

const stdDep = 2_000_000

// ---------------------------------------------------------------- probe (hand validation)

func probe() {
	w := newWorld()
	pre := w.observe()
	fmt.Fprintf(os.Stderr, "initial: %+v\n", pre)
	show := func(t txSpec) {
		l, post, log := w.exec(t, pre)
		var d []string
		for _, n := range tracked {
			if post.U[n] != pre.U[n] {
				d = append(d, fmt.Sprintf("%s%+d", n, post.U[n]-pre.U[n]))
			}
			if post.V[n] != pre.V[n] {
				d = append(d, fmt.Sprintf("%s:v%+d", n, post.V[n]-pre.V[n]))
			}
		}
		fmt.Fprintf(os.Stderr, "== %-22s %-8s signer=%s kind=%-9s %v ctr[sp=%v or=%v is=%v de=%v] stor[V%+d M%+d]\n", t.Label, t.Cls, t.Signer, l["kind"], d, l["spends"], l["origin"], l["issues"], l["deleg"], l["storV"], l["storM"])
		if l["kind"] != "ok" {
			fmt.Fprintf(os.Stderr, "     %.260s\n", strings.ReplaceAll(log, "\n", " / "))
		}
		pre = post
	}
	for _, t := range program(rand.New(rand.NewSource(1)), 1) {
		show(t)
	}
}

func main() {
	f := mbt.ParseFlags()
	switch f.Mode {
	case "probe":
		probe()
	case "record":
		record(f)
	default:
		mbt.Die("unknown mode %q", f.Mode)
	}
	mbt.Flush()
}

func record(f *mbt.Flags) {
	out, err := os.Create(f.Out)
	if err != nil {
		mbt.Die("%v", err)
	}
	bw := bufio.NewWriterSize(out, 1<<16)
	emit := func(v any) {
		bz, _ := json.Marshal(v)
		bw.Write(bz)
		bw.WriteByte('\n')
	}
	rng := f.Rand()
	rounds := f.N
	if rounds <= 0 {
		rounds = 1
	}
	cnt := map[string]int{}
	for r := 0; r < rounds; r++ {
		// every round runs on a fresh application: the delegation controls at the end of a round hand the
		// vault's authority away for good, which would blunt the statement for everything after them
		w := newWorld()
		pre := w.observe()
		emit(line{"act": "Init", "bal": pre.U, "balV": pre.V})
		for _, t := range program(rng, r) {
			l, post, log := w.exec(t, pre)
			l["log"] = shorten(log)
			emit(l)
			cnt["txs"]++
			cnt["tx_"+t.Cls]++
			cnt["kind_"+fmt.Sprint(l["kind"])]++
			if l["kind"] == "typecheck" {
				cnt["rejected_at_typecheck"]++
			}
			if t.Cls == "control" && l["ok"] == true {
				cnt["controls_ok"]++
			}
			pre = post
		}
	}
	bw.Flush()
	out.Close()
	sum := map[string]any{}
	for k, v := range cnt {
		sum[k] = v
	}
	mbt.Summary(sum)
}

func shorten(l string) string {
	l = strings.ReplaceAll(l, "\n", " / ")
	if i := strings.Index(l, " | "); i > 0 {
		l = l[:i]
	}
	if len(l) > 200 {
		l = l[:200]
	}
	return l
}
