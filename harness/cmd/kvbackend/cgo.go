//go:build cgo

package main

import (
	"github.com/bmatsuo/lmdb-go/lmdb"
	"github.com/erigontech/mdbx-go/mdbx"

	dbm "github.com/gnolang/gno/tm2/pkg/db"
	"github.com/gnolang/gno/tm2/pkg/db/lmdbdb"
	"github.com/gnolang/gno/tm2/pkg/db/mdbxdb"
)

// cgo back ends (tm2/pkg/db/_all/all_cgo.go): replayed when the build has cgo.
func init() {
	openers["lmdbdb"] = func(dir string) (dbm.DB, error) {
		return lmdbdb.NewLMDBWithOptions("t", dir, 1<<28, lmdb.NoSync)
	}
	openers["mdbxdb"] = func(dir string) (dbm.DB, error) {
		return mdbxdb.NewMDBXWithOptions("t", dir, 1<<28, mdbx.UtterlyNoSync)
	}
}
