// Driver for C29 (spec/KVBackend.tla): replays TLC behaviours on every tm2/pkg/db back end
// and wrapper. Abstract keys 1..N are mapped to byte strings by an order preserving table.
//
// Verdict observables: replies of Get/Has/Iterator/ReverseIterator (DB, ImmutableDB view,
// Snapshot, SnapshotDB view), the full scan + Get of every key after every modifying call,
// decoy keys outside a PrefixDB's prefix, stability of every returned slice, and the effect
// of writing into slices returned by iterators ("should be a copy and thus safe for
// modification"). Writing into Get results is measured only (Get's value is documented
// read-only for the caller).
package main

import (
	"bytes"
	"encoding/hex"
	"encoding/json"
	"fmt"
	"os"
	"runtime"
	"runtime/pprof"
	"sort"
	"strings"
	"sync"
	"sync/atomic"

	dbm "github.com/gnolang/gno/tm2/pkg/db"
	"github.com/gnolang/gno/tm2/pkg/db/boltdb"
	"github.com/gnolang/gno/tm2/pkg/db/goleveldb"
	"github.com/gnolang/gno/tm2/pkg/db/memdb"
	"github.com/gnolang/gno/tm2/pkg/db/pebbledb"
	"go.etcd.io/bbolt"

	"verifharness/mbt"
)

// ---------------------------------------------------------------------------- back ends

// openers: base name -> constructor on a directory. cgo back ends register in cgo.go.
var openers = map[string]func(dir string) (dbm.DB, error){
	"memdb":     func(string) (dbm.DB, error) { return memdb.NewMemDB(), nil },
	"goleveldb": func(dir string) (dbm.DB, error) { return goleveldb.NewGoLevelDB("t", dir) },
	"pebbledb":  func(dir string) (dbm.DB, error) { return pebbledb.NewPebbleDB("t", dir) },
	"boltdb": func(dir string) (dbm.DB, error) {
		o := *bbolt.DefaultOptions
		o.NoSync = true // documented option of BoltDB ("One can globally turn it off by using NoSync")
		return boltdb.NewWithOptions("t", dir, &o)
	},
}

// Documented per back end constants (doc comments of each package), not discovered at run time.
var emptyKeyOK = map[string]bool{"memdb": true, "goleveldb": true, "pebbledb": true,
									"boltdb": false, "lmdbdb": false, "mdbxdb": false} // nonEmptyKey sentinels
var snapshotOK = map[string]bool{"memdb": true, "pebbledb": true} // others: "snapshots not supported"

type variant struct {
	name   string // memdb | prefix:goleveldb:70ff | collecting:memdb
	base   string
	wrap   string // "" | prefix | collecting
	prefix []byte
}

func parseVariant(s string) *variant {
	p := strings.Split(s, ":")
	v := &variant{name: s}
	switch {
	case len(p) == 1:
		v.base = p[0]
	case p[0] == "prefix" && len(p) == 3:
		v.wrap, v.base = "prefix", p[1]
		bz, err := hex.DecodeString(p[2])
		if err != nil || len(bz) == 0 {
			mbt.Die("bad prefix in variant %q", s)
		}
		v.prefix = bz
	case p[0] == "collecting" && len(p) == 2:
		v.wrap, v.base = "collecting", p[1]
	default:
		mbt.Die("bad variant %q", s)
	}
	if openers[v.base] == nil {
		mbt.Die("back end %q not available in this build", v.base)
	}
	return v
}

// class: stable part of the name used in violation keys
func (v *variant) class() string {
	switch v.wrap {
	case "prefix":
		return "PrefixDB(" + v.base + ")"
	case "collecting":
		return "CollectingDB(" + v.base + ")"
	}
	return v.base
}
func (v *variant) emptyKey() bool  { return v.wrap == "prefix" || emptyKeyOK[v.base] }
func (v *variant) snapshots() bool { return v.wrap != "prefix" && snapshotOK[v.base] }

// decoys: keys of the underlying DB outside the prefix that must never be seen or touched
func (v *variant) decoys() [][]byte {
	if v.wrap != "prefix" {
		return nil
	}
	p := v.prefix
	var out [][]byte
	// just below the prefix range
	if lo := decr(p); lo != nil {
		out = append(out, lo, append(append([]byte{}, lo...), 0xff))
	}
	// every strict prefix of the prefix (shorter keys sort before the range)
	for i := 1; i < len(p); i++ {
		out = append(out, append([]byte{}, p[:i]...))
	}
	// just above the range: the successor of the prefix with trailing 0xFF trimmed, and extensions
	if hi := succ(p); hi != nil {
		out = append(out, hi, append(append([]byte{}, hi...), 0x00))
	}
	return out
}

func decr(p []byte) []byte {
	r := append([]byte{}, p...)
	for i := len(r) - 1; i >= 0; i-- {
		if r[i] > 0 {
			r[i]--
			return r
		}
		r = r[:i]
	}
	return nil
}

// succ: smallest byte string greater than every string with prefix p (nil if none)
func succ(p []byte) []byte {
	r := append([]byte{}, p...)
	for len(r) > 0 {
		if r[len(r)-1] != 0xff {
			r[len(r)-1]++
			return r
		}
		r = r[:len(r)-1]
	}
	return nil
}

// ---------------------------------------------------------------------------- instance

type inst struct {
	v     *variant
	dir   string
	under dbm.DB
	top   dbm.DB
	coll  *dbm.BatchCollector
}

func newInst(v *variant) (*inst, error) {
	dir, err := os.MkdirTemp("", "kvb-"+v.base+"-")
	if err != nil {
		return nil, err
	}
	in := &inst{v: v, dir: dir}
	if err := in.open(); err != nil {
		os.RemoveAll(dir)
		return nil, err
	}
	return in, nil
}

func (in *inst) open() error {
	u, err := openers[in.v.base](in.dir)
	if err != nil {
		return err
	}
	in.under = u
	switch in.v.wrap {
	case "prefix":
		// the prefix slice has spare capacity, as a prefix built with append or converted from a string usually has:
		// a PrefixDB (or its batch) that appended keys onto the caller's slice in place would make staged keys share memory
		pfx := append(make([]byte, 0, len(in.v.prefix)+24), in.v.prefix...)
		in.top = dbm.NewPrefixDB(u, pfx)
	case "collecting":
		in.coll = dbm.NewBatchCollector()
		in.top = dbm.NewCollectingDB(u, in.coll)
	default:
		in.top = u
	}
	return nil
}

func (in *inst) reopen() error {
	if err := in.top.Close(); err != nil { // PrefixDB.Close closes the underlying DB
		return fmt.Errorf("Close: %w", err)
	}
	if in.v.base == "memdb" {
		return nil // MemDB.Close is documented as a no-op that keeps the data
	}
	return in.open()
}

func (in *inst) destroy() {
	mbt.Guard(func() { in.under.Close() })
	os.RemoveAll(in.dir)
}

// wipe removes every key of the underlying DB (between behaviours).
func (in *inst) wipe() error {
	if in.coll != nil {
		in.coll.Reset()
	}
	it, err := in.under.Iterator(nil, nil)
	if err != nil {
		return err
	}
	var keys [][]byte
	for ; it.Valid(); it.Next() {
		keys = append(keys, append([]byte{}, it.Key()...))
	}
	it.Close()
	for _, k := range keys {
		if err := in.under.Delete(k); err != nil {
			return err
		}
	}
	it, err = in.under.Iterator(nil, nil)
	if err != nil {
		return err
	}
	left := it.Valid()
	it.Close()
	if left {
		return fmt.Errorf("wipe left keys behind")
	}
	return nil
}

// ---------------------------------------------------------------------------- replay

type failure struct {
	key, what string
	step      int
}

type held struct {
	op   string
	buf  []byte
	want []byte
}

type kv struct {
	K int    // abstract key (-1 unknown)
	V string // value
	X string // hex of an unknown key
}

type runner struct {
	in      *inst
	tab     [][]byte // abstract key i -> tab[i-1]
	n       int
	batches map[string]dbm.Batch
	snaps   map[string]dbm.Snapshot
	snapDBs map[string]*dbm.SnapshotDB
	skipped map[string]bool
	held    []held
	lastSt  map[string]any
	soft    []*failure // findings that do not desynchronise the replay (aliasing probes)
	stats   *stats
	idx     int // current step
}

type stats struct {
	steps, replays, replaysOK, snapSkipped, iterItems, iterProbes, getProbes, getAliased, heldChecked, flaky, iterNilEmpty int64
	_                                                                                                                      [64]byte // one cache line per worker
}

func fresh(b []byte) []byte { // never hand our own table slices to the DB
	if b == nil {
		return nil
	}
	out := make([]byte, len(b))
	copy(out, b)
	return out
}

func (r *runner) key(k int) []byte {
	b := fresh(r.tab[k-1])
	if len(b) == 0 && r.idx%2 == 1 {
		return nil // "A nil key is interpreted as an empty byteslice"
	}
	return b
}
func (r *runner) bound(k int) []byte {
	if k == 0 {
		return nil
	}
	return fresh(r.tab[k-1])
}
func mkval(v string) []byte {
	b := make([]byte, len(v))
	copy(b, v)
	return b
}
func (r *runner) abs(key []byte) (int, string) {
	for i, t := range r.tab {
		if bytes.Equal(t, key) {
			return i + 1, ""
		}
	}
	return -1, hex.EncodeToString(key)
}
func outVal(v []byte) string {
	if v == nil {
		return "NIL"
	}
	return string(v)
}

func (r *runner) fail(class, act, what string) *failure {
	if strings.HasPrefix(class, "ReverseIterator-") {
		return &failure{key: "C29:PrefixDB:" + class, what: what, step: r.idx}
	}
	return &failure{key: fmt.Sprintf("C29:%s:%s:%s", r.in.v.class(), act, class), what: what, step: r.idx}
}

func (r *runner) hold(op string, b []byte) {
	if len(b) > 0 {
		r.held = append(r.held, held{op, b, append([]byte{}, b...)})
	}
}

// every slice a call returned must keep its content whatever happened to the DB since
func (r *runner) checkHeld() *failure {
	for _, h := range r.held {
		r.stats.heldChecked++
		if !bytes.Equal(h.buf, h.want) {
			return &failure{key: fmt.Sprintf("C29:%s:%s:returned-slice-changed", r.in.v.base, h.op),
				what: fmt.Sprintf("slice returned by %s held %x, now holds %x (aliased to an internal buffer)", h.op, h.want, h.buf), step: r.idx}
		}
	}
	return nil
}

// get: Get + Has on a reader, with consistency, plus the (non verdict) write probe.
func (r *runner) get(rd dbm.Snapshot, what string, k int) (string, *failure) {
	v, err := rd.Get(r.key(k))
	if err != nil {
		return "", r.fail("error", what, "Get: "+err.Error())
	}
	h, err := rd.Has(r.key(k))
	if err != nil {
		return "", r.fail("error", what, "Has: "+err.Error())
	}
	if h != (v != nil) {
		if r.in.v.wrap == "collecting" && v == nil && h && r.expectEff(k) == "" {
			// fails on the unchanged tree (BatchCollector.set copies with append([]byte(nil), value...),
			// which turns a pending empty value into nil): reported under its own key, then the replay
			// goes on with what Has says
			r.addSoft(&failure{key: "C29:CollectingDB:Get:nil-for-pending-empty-value", step: r.idx,
				what: fmt.Sprintf("%s: key %x was Set to an empty value (still in the collector): Has says true but Get returns nil (\"Get returns nil iff key doesn't exist\")", what, r.tab[k-1])})
			v = []byte{}
		} else {
			return "", r.fail("get-has-disagree", what, fmt.Sprintf("key %d: Get returned %q but Has says %v", k, outVal(v), h))
		}
	}
	out := outVal(v)
	r.hold(what, v)
	if len(v) > 0 { // measured only: Get's value is documented read-only for the caller
		r.stats.getProbes++
		v[0] ^= 0x5a
		v2, err := rd.Get(r.key(k))
		seen := outVal(v2) // before the byte is put back: v2 may be the very same buffer
		v[0] ^= 0x5a
		if err == nil && seen != out {
			r.stats.getAliased++
		}
	}
	return out, nil
}

// scan: drain an iterator, holding the raw slices; then check stability and write into them.
func (r *runner) scan(rd dbm.Snapshot, what string, s, e int, asc bool) ([]kv, *failure) {
	return r.scanV(rd, rd, what, s, e, asc)
}

// scanV: verify is where the iterator's data physically lives (CollectingDB iterators read the
// underlying DB only, while its Get reads the collector first)
func (r *runner) scanV(rd, verify dbm.Snapshot, what string, s, e int, asc bool) ([]kv, *failure) {
	var it dbm.Iterator
	var err error
	if asc {
		it, err = rd.Iterator(r.bound(s), r.bound(e))
	} else {
		it, err = rd.ReverseIterator(r.bound(s), r.bound(e))
	}
	if err != nil {
		return nil, r.fail("error", what, "iterator: "+err.Error())
	}
	type raw struct{ k, v, kc, vc []byte }
	var raws []raw
	for ; it.Valid(); it.Next() {
		k, v := it.Key(), it.Value()
		raws = append(raws, raw{k, v, append([]byte{}, k...), append([]byte{}, v...)})
		if v == nil { // an empty value may come back as nil from an iterator (no doc comment forbids it): counted only
			r.stats.iterNilEmpty++
		}
		if len(raws) > 4*r.n+16 {
			it.Close()
			return nil, r.fail("unbounded", what, "iterator does not terminate")
		}
	}
	if it.Valid() {
		it.Close()
		return nil, r.fail("valid-after-invalid", what, "iterator valid again after being invalid")
	}
	if err := it.Error(); err != nil {
		it.Close()
		return nil, r.fail("error", what, "iterator error: "+err.Error())
	}
	it.Close()
	out := make([]kv, 0, len(raws))
	for _, x := range raws {
		r.stats.iterItems++
		// (a) what Key()/Value() returned survives Next() and Close()
		if !bytes.Equal(x.k, x.kc) || !bytes.Equal(x.v, x.vc) {
			return nil, &failure{key: fmt.Sprintf("C29:%s:Iterator:returned-slice-changed", r.in.v.base),
				what: fmt.Sprintf("%s: key/value returned by the iterator changed after Next/Close: had %x=%x now %x=%x", what, x.kc, x.vc, x.k, x.v), step: r.idx}
		}
		a, hx := r.abs(x.kc)
		out = append(out, kv{K: a, V: string(x.vc), X: hx})
	}
	// (b) "the key/value returned should be a copy and thus safe for modification": write into
	// them (and put the bytes back afterwards, so that a finding does not disturb the rest)
	for _, x := range raws {
		for _, part := range []string{"Value", "Key"} {
			buf := x.v
			if part == "Key" {
				buf = x.k
			}
			if len(buf) == 0 {
				continue
			}
			r.stats.iterProbes++
			buf[0] ^= 0x5a
			v2, err := verify.Get(fresh(x.kc))
			if v2 != nil {
				v2 = append([]byte{}, v2...) // before the byte is put back: v2 may be the very same buffer
			}
			buf[0] ^= 0x5a
			if err != nil {
				return nil, r.fail("error", what, "Get after iteration: "+err.Error())
			}
			if v2 == nil || !bytes.Equal(v2, x.vc) {
				r.addSoft(&failure{key: fmt.Sprintf("C29:%s:Iterator.%s:aliases-internal-buffer", r.in.v.base, part),
					what: fmt.Sprintf("%s: writing into the slice returned by the iterator's %s() at key %x changed the stored data: Get then returned %q, stored value is %q",
						what, part, x.kc, outVal(v2), string(x.vc)), step: r.idx})
			}
		}
	}
	for _, x := range raws {
		r.hold(what+".Key", x.k)
		r.hold(what+".Value", x.v)
	}
	return out, nil
}

func eqKV(a, b []kv) bool {
	if len(a) != len(b) {
		return false
	}
	for i := range a {
		if a[i] != b[i] {
			return false
		}
	}
	return true
}

// eqReply: observed reply (string | bool | []kv) against the decoded expectation
func eqReply(got, exp any) bool {
	switch g := got.(type) {
	case string:
		e, ok := exp.(string)
		return ok && e == g
	case bool:
		e, ok := exp.(bool)
		return ok && e == g
	case []kv:
		e, ok := exp.([]kv)
		return ok && eqKV(g, e)
	}
	return mbt.Eq(got, exp)
}

func (r *runner) phys() dbm.Snapshot {
	if r.in.v.wrap == "collecting" {
		return r.in.under
	}
	return r.in.top
}

func expList(v any) []kv {
	a, _ := v.([]any)
	out := make([]kv, 0, len(a))
	for _, x := range a {
		p := x.([]any)
		out = append(out, kv{K: int(p[0].(float64)), V: p[1].(string)})
	}
	return out
}

// project: full scan + Get of every key, against the spec's st
func (r *runner) project(act string, st map[string]any) *failure {
	got, f := r.scanV(r.in.top, r.phys(), act+"/scan", 0, 0, true)
	if f != nil {
		return f
	}
	exp := expList(st["db"])
	if !eqKV(got, exp) {
		return r.fail("state", act, fmt.Sprintf("after %s the DB holds %s, spec %s", act, mbt.JS(got), mbt.JS(exp)))
	}
	eff := mbt.Strs(st["eff"])
	for k := 1; k <= r.n; k++ {
		v, f := r.get(r.in.top, act+"/get", k)
		if f != nil {
			return f
		}
		if v != eff[k-1] {
			return r.fail("state", act, fmt.Sprintf("after %s Get(key %d = %x) = %q, spec %q", act, k, r.tab[k-1], v, eff[k-1]))
		}
	}
	for _, d := range r.in.v.decoys() {
		v, err := r.in.under.Get(d)
		if err != nil || string(v) != "decoy" {
			return r.fail("decoy", act, fmt.Sprintf("key %x outside the prefix %x was touched: now %q (%v)", d, r.in.v.prefix, outVal(v), err))
		}
	}
	return r.checkHeld()
}

func (r *runner) closeAll() {
	for _, b := range r.batches {
		bb := b
		mbt.Guard(func() { bb.Close() })
	}
	for _, s := range r.snaps {
		ss := s
		mbt.Guard(func() { ss.Close() })
	}
}

func mustPanic(fn func()) (panicked bool) { // (mbt.Guard records a stack trace: too slow for the expected panics)
	defer func() {
		if recover() != nil {
			panicked = true
		}
	}()
	fn()
	return false
}

// readOnlyViews: ImmutableDB / SnapshotDB refuse writes (documented: they panic)
func (r *runner) readOnlyRefuses(d dbm.DB, what string) *failure {
	k, v := []byte("zz-verif"), []byte("w")
	if !mustPanic(func() { d.Set(k, v) }) || !mustPanic(func() { d.SetSync(k, v) }) ||
		!mustPanic(func() { d.Delete(k) }) || !mustPanic(func() { d.DeleteSync(k) }) {
		return r.fail("readonly-accepts-write", what, what+" accepted a write")
	}
	b := d.NewBatch()
	if b == nil {
		return r.fail("readonly-nil-batch", what, what+".NewBatch returned nil")
	}
	b.Set(k, v)
	if !mustPanic(func() { b.Write() }) || !mustPanic(func() { b.WriteSync() }) {
		return r.fail("readonly-accepts-write", what, what+" batch accepted Write")
	}
	b.Close()
	return nil
}

func (r *runner) step(s mbt.Step) *failure {
	act := s.Act()
	top := r.in.top
	var reply any = "ok"
	switch act {
	case "Init":
		if err := r.in.wipe(); err != nil {
			mbt.Die("wipe %s: %v", r.in.v.name, err)
		}
		st := s["st"].(map[string]any)
		for _, e := range expList(st["db"]) {
			var err error
			if r.in.v.wrap == "collecting" {
				err = r.in.under.Set(r.key(e.K), mkval(e.V))
			} else {
				err = top.Set(r.key(e.K), mkval(e.V))
			}
			if err != nil {
				return r.fail("error", act, err.Error())
			}
		}
		for _, d := range r.in.v.decoys() {
			if err := r.in.under.Set(fresh(d), []byte("decoy")); err != nil {
				return r.fail("error", act, err.Error())
			}
		}
		if f := r.readOnlyRefuses(dbm.NewImmutableDB(top), "ImmutableDB"); f != nil {
			return f
		}
	case "Set":
		var err error
		if s.Bool("sync") {
			err = top.SetSync(r.key(s.Int("k")), mkval(s.Str("v")))
		} else {
			err = top.Set(r.key(s.Int("k")), mkval(s.Str("v")))
		}
		if err != nil {
			return r.fail("error", act, err.Error())
		}
	case "Delete":
		var err error
		if s.Bool("sync") {
			err = top.DeleteSync(r.key(s.Int("k")))
		} else {
			err = top.Delete(r.key(s.Int("k")))
		}
		if err != nil {
			return r.fail("error", act, err.Error())
		}
	case "Get", "Has":
		v, f := r.get(top, act, s.Int("k"))
		if f != nil {
			return f
		}
		vi, f := r.get(dbm.NewImmutableDB(top), "ImmutableDB."+act, s.Int("k"))
		if f != nil {
			return f
		}
		if vi != v {
			return r.fail("immutable-differs", act, fmt.Sprintf("ImmutableDB view returned %q, DB %q", vi, v))
		}
		if act == "Get" {
			reply = v
		} else {
			reply = v != "NIL"
		}
	case "Iter":
		got, f := r.scanV(top, r.phys(), "Iter", s.Int("s"), s.Int("e"), s.Bool("asc"))
		if f != nil {
			return f
		}
		gi, f := r.scanV(dbm.NewImmutableDB(top), r.phys(), "ImmutableDB.Iter", s.Int("s"), s.Int("e"), s.Bool("asc"))
		if f != nil {
			return f
		}
		if !eqKV(gi, got) {
			return r.fail("immutable-differs", act, fmt.Sprintf("ImmutableDB view iterated %s, DB %s", mbt.JS(gi), mbt.JS(got)))
		}
		reply = got
	case "NewBatch":
		if r.idx%2 == 0 {
			r.batches[s.Str("b")] = top.NewBatch()
		} else {
			r.batches[s.Str("b")] = top.NewBatchWithSize(64)
		}
		if r.batches[s.Str("b")] == nil {
			return r.fail("nil-batch", act, "NewBatch returned nil")
		}
	case "BatchSet":
		if err := r.batches[s.Str("b")].Set(r.key(s.Int("k")), mkval(s.Str("v"))); err != nil {
			return r.fail("error", act, err.Error())
		}
	case "BatchDelete":
		if err := r.batches[s.Str("b")].Delete(r.key(s.Int("k"))); err != nil {
			return r.fail("error", act, err.Error())
		}
	case "BatchWrite":
		var err error
		if s.Bool("sync") {
			err = r.batches[s.Str("b")].WriteSync()
		} else {
			err = r.batches[s.Str("b")].Write()
		}
		if err != nil {
			return r.fail("error", act, err.Error())
		}
	case "BatchClose":
		if err := r.batches[s.Str("b")].Close(); err != nil {
			return r.fail("error", act, err.Error())
		}
		delete(r.batches, s.Str("b"))
	case "NewSnapshot":
		sn, err := top.NewSnapshot()
		id := s.Str("i")
		if err != nil || sn == nil {
			if r.in.v.snapshots() {
				return r.fail("error", act, fmt.Sprintf("NewSnapshot failed on a back end documented to support it: %v", err))
			}
			r.skipped[id] = true // documented: "snapshots not supported"
			r.stats.snapSkipped++
			break
		}
		r.snaps[id] = sn
		r.snapDBs[id] = dbm.NewSnapshotDB(sn)
		if f := r.readOnlyRefuses(r.snapDBs[id], "SnapshotDB"); f != nil {
			return f
		}
		r.snapDBs[id].Close() // documented no-op: the snapshot stays usable
	case "SnapGet", "SnapHas", "SnapIter", "SnapClose":
		id := s.Str("i")
		if r.skipped[id] {
			if act == "SnapClose" {
				delete(r.skipped, id)
			}
			return r.checkHeld()
		}
		sn, sdb := r.snaps[id], r.snapDBs[id]
		switch act {
		case "SnapGet", "SnapHas":
			v, f := r.get(sn, act, s.Int("k"))
			if f != nil {
				return f
			}
			v2, f := r.get(sdb, "SnapshotDB."+act, s.Int("k"))
			if f != nil {
				return f
			}
			if v2 != v {
				return r.fail("snapshotdb-differs", act, fmt.Sprintf("SnapshotDB returned %q, Snapshot %q", v2, v))
			}
			if act == "SnapGet" {
				reply = v
			} else {
				reply = v != "NIL"
			}
		case "SnapIter":
			got, f := r.scan(sn, act, s.Int("s"), s.Int("e"), s.Bool("asc"))
			if f != nil {
				return f
			}
			g2, f := r.scan(sdb, "SnapshotDB."+act, s.Int("s"), s.Int("e"), s.Bool("asc"))
			if f != nil {
				return f
			}
			if !eqKV(g2, got) {
				return r.fail("snapshotdb-differs", act, fmt.Sprintf("SnapshotDB iterated %s, Snapshot %s", mbt.JS(g2), mbt.JS(got)))
			}
			reply = got
		case "SnapClose":
			if err := sn.Close(); err != nil {
				return r.fail("error", act, err.Error())
			}
			delete(r.snaps, id)
			delete(r.snapDBs, id)
		}
	case "Reopen":
		if err := r.in.reopen(); err != nil {
			return r.fail("error", act, err.Error())
		}
	case "Drain":
		b := r.in.under.NewBatch()
		if err := r.in.coll.Drain(b); err != nil {
			return r.fail("error", act, err.Error())
		}
		if err := b.WriteSync(); err != nil {
			return r.fail("error", act, err.Error())
		}
		b.Close()
	default:
		mbt.Die("unknown act %q", act)
	}
	exp := s["reply"]
	if _, isList := exp.([]any); isList {
		exp = expList(exp)
	}
	if !eqReply(reply, exp) {
		f := r.fail(r.replyClass(s, reply, exp), act, fmt.Sprintf("%s replied %s, spec %s", mbt.JS(stepArgs(s)), mbt.JS(reply), mbt.JS(exp)))
		if _, modifies := s["st"]; modifies {
			return f
		}
		r.addSoft(f) // a wrong answer of a read does not desynchronise the replay: report and go on
	}
	if st, ok := s["st"].(map[string]any); ok {
		r.lastSt = st
		return r.project(act, st)
	}
	return r.checkHeld()
}

// expectEff: what the spec says Get(k) returns now ("?" when unknown)
func (r *runner) expectEff(k int) string {
	if r.lastSt == nil {
		return "?"
	}
	eff := mbt.Strs(r.lastSt["eff"])
	if k-1 < len(eff) {
		return eff[k-1]
	}
	return "?"
}

func (r *runner) addSoft(f *failure) {
	for _, x := range r.soft {
		if x.key == f.key {
			return
		}
	}
	r.soft = append(r.soft, f)
}

// replyClass names the failing class of a wrong reply. One input class is singled out because
// it fails on the unchanged tree (DESIGN section 8): a reverse iteration with a nil end over a
// PrefixDB whose prefix ends in 0xFF while the underlying DB holds the successor key of the
// prefix (db.cpIncr("70ff") = "7100" admits the foreign key "71", which invalidates the
// prefix iterator at its first position).
func (r *runner) replyClass(s mbt.Step, got, exp any) string {
	v := r.in.v
	if v.wrap == "prefix" && v.prefix[len(v.prefix)-1] == 0xff && succ(v.prefix) != nil &&
		s.Act() == "Iter" && !s.Bool("asc") && s.Int("e") == 0 {
		if g, ok := got.([]kv); ok && len(g) == 0 {
			return "ReverseIterator-nil-end-0xFF-prefix-stops-at-successor-key"
		}
	}
	return "reply"
}

func stepArgs(s mbt.Step) map[string]any {
	out := map[string]any{}
	for k, v := range s {
		if k != "st" && k != "reply" {
			out[k] = v
		}
	}
	return out
}

// replay one behaviour on an instance; the instance is reusable iff nil is returned
func replay(in *inst, tab [][]byte, beh []mbt.Step, st *stats) (f *failure, soft []*failure) {
	r := &runner{in: in, tab: tab, n: len(tab), batches: map[string]dbm.Batch{}, snaps: map[string]dbm.Snapshot{},
		snapDBs: map[string]*dbm.SnapshotDB{}, skipped: map[string]bool{}, stats: st}
	defer r.closeAll()
	defer func() { soft = r.soft }()
	for i, s := range beh {
		r.idx = i
		var sf *failure
		if p, v, stk := mbt.Guard(func() { sf = r.step(s) }); p {
			sf = r.fail("panic", s.Act(), fmt.Sprintf("%s panicked: %v at %s", mbt.JS(stepArgs(s)), v, mbt.ShortStack(stk)))
		}
		st.steps++
		if sf != nil {
			sf.step = i
			return sf, nil
		}
	}
	// final: a last full projection against the last known state (reads must not disturb anything)
	if r.lastSt != nil {
		r.idx = len(beh)
		var sf *failure
		if p, v, _ := mbt.Guard(func() { sf = r.project("final", r.lastSt) }); p {
			sf = r.fail("panic", "final", fmt.Sprint(v))
		}
		return sf, nil
	}
	return nil, nil
}

type config struct {
	Variants []string `json:"variants"`
	Table    []string `json:"table"`    // hex, index = abstract key - 1, with the empty key
	TableNE  []string `json:"table_ne"` // same without the empty key (boltdb, lmdbdb, mdbxdb)
	Workers  int      `json:"workers"`
}

func decodeTable(t []string) [][]byte {
	out := make([][]byte, len(t))
	for i, h := range t {
		b, err := hex.DecodeString(h)
		if err != nil {
			mbt.Die("bad table entry %q", h)
		}
		out[i] = append(make([]byte, 0), b...)
		if i > 0 && bytes.Compare(out[i-1], out[i]) >= 0 {
			mbt.Die("key table not strictly increasing at %d", i)
		}
	}
	return out
}

func main() {
	f := mbt.ParseFlags()
	if pf := os.Getenv("VERIF_PPROF"); pf != "" {
		fh, _ := os.Create(pf)
		pprof.StartCPUProfile(fh)
		defer pprof.StopCPUProfile()
	}
	if f.Mode == "list" { // which back ends does this build contain?
		var names []string
		for n := range openers {
			names = append(names, n)
		}
		sort.Strings(names)
		mbt.Emit(map[string]any{"kind": "backends", "names": names})
		mbt.Flush()
		return
	}
	var cfg config
	if err := json.Unmarshal([]byte(f.Extra), &cfg); err != nil {
		mbt.Die("bad -x: %v", err)
	}
	tabE, tabNE := decodeTable(cfg.Table), decodeTable(cfg.TableNE)
	behs, err := mbt.ReadBehaviours(f.In)
	if err != nil {
		mbt.Die("%v", err)
	}
	var variants []*variant
	for _, s := range cfg.Variants {
		variants = append(variants, parseVariant(s))
	}
	nw := cfg.Workers
	if nw <= 0 {
		nw = runtime.NumCPU()
	}
	sts := make([]stats, nw)
	perVariant := map[string]*int64{}
	for _, v := range variants {
		perVariant[v.name] = new(int64)
	}
	var reported sync.Map
	var wg sync.WaitGroup
	for w := 0; w < nw; w++ {
		wg.Add(1)
		go func(w int) {
			defer wg.Done()
			runtime.LockOSThread() // lmdb/mdbx read transactions are bound to OS threads
			st := &sts[w]
			insts := map[string]*inst{}
			defer func() {
				for _, in := range insts {
					in.destroy()
				}
			}()
			for i := w; i < len(behs); i += nw {
				for _, v := range variants {
					tab := tabNE
					if v.emptyKey() {
						tab = tabE
					}
					in := insts[v.name]
					if in == nil {
						var err error
						if in, err = newInst(v); err != nil {
							mbt.Die("open %s: %v", v.name, err)
						}
						insts[v.name] = in
					}
					st.replays++
					atomic.AddInt64(perVariant[v.name], 1)
					fl, soft := replay(in, tab, behs[i], st)
					if fl == nil && len(soft) == 0 {
						st.replaysOK++
						continue
					}
					if fl == nil {
						known := true
						for _, sf := range soft {
							if _, ok := reported.Load(sf.key); !ok {
								known = false
							}
						}
						if known {
							continue // class already confirmed and reported in this run
						}
					} else {
						in.destroy()
						delete(insts, v.name)
					}
					// rule 4: re-run once from a fresh object
					in2, err := newInst(v)
					if err != nil {
						mbt.Die("open %s: %v", v.name, err)
					}
					fl2, soft2 := replay(in2, tab, behs[i], st)
					in2.destroy()
					confirmed := []*failure{}
					if fl != nil {
						if fl2 == nil || fl2.key != fl.key {
							st.flaky++
							mbt.Emit(map[string]any{"kind": "flaky", "variant": v.name, "first": fl.key + " :: " + fl.what, "second": fmt.Sprint(fl2)})
						} else {
							confirmed = append(confirmed, fl)
						}
					}
					for _, sf := range soft {
						ok := false
						for _, s2 := range soft2 {
							ok = ok || s2.key == sf.key
						}
						if !ok && fl2 == nil {
							st.flaky++
							mbt.Emit(map[string]any{"kind": "flaky", "variant": v.name, "first": sf.key + " :: " + sf.what, "second": "not reproduced"})
						} else if ok {
							confirmed = append(confirmed, sf)
						}
					}
					tabHex := make([]string, len(tab))
					for j, t := range tab {
						tabHex[j] = hex.EncodeToString(t)
					}
					for _, c := range confirmed {
						n, _ := reported.LoadOrStore(c.key, new(int64))
						if atomic.AddInt64(n.(*int64), 1) > 1 {
							continue // one report per failing class and run
						}
						mbt.Mismatch(c.key, fmt.Sprintf("[%s] step %d: %s", v.name, c.step, c.what),
							map[string]any{"variant": v.name, "table": tabHex, "steps": behs[i][:min(c.step+1, len(behs[i]))]})
					}
				}
			}
		}(w)
	}
	wg.Wait()
	for i := 0; i < len(behs) && i < 2; i++ {
		b := behs[i]
		if len(b) > 8 {
			b = b[:8]
		}
		mbt.Sample(b)
	}
	var st stats
	for i := range sts {
		a := &sts[i]
		st.steps += a.steps
		st.replays += a.replays
		st.replaysOK += a.replaysOK
		st.snapSkipped += a.snapSkipped
		st.iterItems += a.iterItems
		st.iterProbes += a.iterProbes
		st.getProbes += a.getProbes
		st.getAliased += a.getAliased
		st.heldChecked += a.heldChecked
		st.flaky += a.flaky
		st.iterNilEmpty += a.iterNilEmpty
	}
	sum := map[string]any{"behaviours": len(behs), "replays": st.replays, "replays_ok": st.replaysOK, "steps": st.steps,
		"snapshot_steps_skipped": st.snapSkipped, "iter_items": st.iterItems, "iter_write_probes": st.iterProbes,
		"get_write_probes": st.getProbes, "get_aliased_in_contract": st.getAliased, "held_slices_checked": st.heldChecked, "flaky": st.flaky, "iter_nil_for_empty_value": st.iterNilEmpty}
	for n, c := range perVariant {
		sum["replays."+n] = *c
	}
	mbt.Summary(sum)
	mbt.Flush()
}
