// Driver for C48 (spec/BitArray.tla): replays TLC behaviours on the real bitarray.BitArray and
// multisig/bitarray.CompactBitArray, comparing every read of the destination register, the contents of
// all other registers (no aliasing) and the encode/decode round trips after each step.
// Binary operations whose receiver is also the argument run under a watchdog.
package main

import (
	"bytes"
	"encoding/json"
	"fmt"
	"os"
	"runtime"
	"sort"
	"strings"
	"sync"
	"sync/atomic"
	"time"

	"github.com/gnolang/gno/tm2/pkg/amino"
	"github.com/gnolang/gno/tm2/pkg/bitarray"
	cba "github.com/gnolang/gno/tm2/pkg/crypto/multisig/bitarray"

	"verifharness/mbt"
)

// ---------------------------------------------------------------- input: typed decoding (one behaviour per line)

type projT struct {
	Nil   bool   `json:"nil"`
	Size  int    `json:"size"`
	Bits  string `json:"bits"`
	Empty bool   `json:"empty"`
	Full  bool   `json:"full"`
	Tidx  []int  `json:"tidx"`
	Bytes []int  `json:"bytes"`
	Ntb   []int  `json:"ntb"`
}

type stepT struct {
	Act   string `json:"act"`
	D     string `json:"d"`
	A     string `json:"a"`
	B     string `json:"b"`
	Sz    int    `json:"sz"`
	I     int    `json:"i"`
	V     bool   `json:"v"`
	Reply bool   `json:"reply"`
	St    projT  `json:"st"`
}

type behT struct {
	steps []stepT
	raw   []json.RawMessage
}

func decodeBeh(line []byte) behT {
	var b behT
	if err := json.Unmarshal(line, &b.raw); err != nil {
		mbt.Die("bad behaviour line: %v", err)
	}
	b.steps = make([]stepT, len(b.raw))
	for i, r := range b.raw {
		if err := json.Unmarshal(r, &b.steps[i]); err != nil {
			mbt.Die("bad step: %v", err)
		}
	}
	return b
}

func readLines(path string) [][]byte {
	bz, err := os.ReadFile(path)
	if err != nil {
		mbt.Die("%v", err)
	}
	var out [][]byte
	for _, l := range bytes.Split(bz, []byte{'\n'}) {
		if len(l) > 0 {
			out = append(out, l)
		}
	}
	return out
}

// ---------------------------------------------------------------- reporting: smallest case per failing class

type cand struct {
	what string
	c    any
	rank [2]int
}

var (
	repMu sync.Mutex
	hits  = map[string]int{}
	best  = map[string]cand{}
)

func report(key, what string, beh behT, upto, bi int) {
	r := [2]int{upto + 1, bi}
	repMu.Lock()
	hits[key]++
	if b, ok := best[key]; !ok || r[0] < b.rank[0] || (r[0] == b.rank[0] && r[1] < b.rank[1]) {
		best[key] = cand{what, map[string]any{"steps": beh.raw[:upto+1]}, r}
	}
	repMu.Unlock()
}

// ---------------------------------------------------------------- helpers on real arrays

func build(bits string, isNil bool) *bitarray.BitArray {
	if isNil {
		return nil
	}
	if len(bits) == 0 {
		b := new(bitarray.BitArray)
		if err := json.Unmarshal([]byte(`""`), b); err != nil {
			mbt.Die("cannot build an empty array: %v", err)
		}
		return b
	}
	b := bitarray.NewBitArray(len(bits))
	for i := range bits {
		if bits[i] == 'x' && !b.SetIndex(i, true) {
			mbt.Die("SetIndex(%d) refused while building %q", i, bits)
		}
	}
	return b
}

// dirty: bits set in the last word beyond Bits (state outside the vector).
func dirty(b *bitarray.BitArray) bool {
	if b == nil || b.Bits%64 == 0 || len(b.Elems) != (b.Bits+63)/64 || len(b.Elems) == 0 {
		return false
	}
	return b.Elems[len(b.Elems)-1]>>uint(b.Bits%64) != 0
}

func sanitise(b *bitarray.BitArray) {
	if dirty(b) {
		b.Elems[len(b.Elems)-1] &= (uint64(1) << uint(b.Bits%64)) - 1
	}
}

func bitsOf(b *bitarray.BitArray) string {
	var sb strings.Builder
	for i := 0; i < b.Size(); i++ {
		if b.GetIndex(i) {
			sb.WriteByte('x')
		} else {
			sb.WriteByte('_')
		}
	}
	return sb.String()
}

type exp struct {
	isNil       bool
	size        int
	bits        string
	empty, full bool
	tidx        []int
	bytes       []int
	ntb         []int
}

func parseExp(st projT) exp {
	return exp{isNil: st.Nil, size: st.Size, bits: st.Bits, empty: st.Empty, full: st.Full, tidx: st.Tidx, bytes: st.Bytes, ntb: st.Ntb}
}

type tierCfg struct{ fullPick bool }

var tcfg tierCfg

// compareBA returns the list of reads of b that differ from e ("" = agrees).
func compareBA(b *bitarray.BitArray, e exp, deep bool, skipNilBytes ...bool) (field, detail string) {
	if (b == nil) != e.isNil {
		return "nil", fmt.Sprintf("nil = %v, want %v", b == nil, e.isNil)
	}
	if b.Size() != e.size {
		return "size", fmt.Sprintf("Size() = %d, want %d", b.Size(), e.size)
	}
	if got := bitsOf(b); got != e.bits {
		return "bits", fmt.Sprintf("bits (GetIndex) = %s, want %s", got, e.bits)
	}
	if !deep {
		return "", ""
	}
	if b.GetIndex(e.size) || b.GetIndex(e.size+1) || b.GetIndex(e.size+64) {
		return "getindex-out-of-range", "GetIndex beyond the size returned true"
	}
	if got := b.IsEmpty(); got != e.empty {
		return "isEmpty", fmt.Sprintf("IsEmpty() = %v on %s", got, show(e))
	}
	if got := b.IsFull(); got != e.full {
		return "isFull", fmt.Sprintf("IsFull() = %v on %s", got, show(e))
	}
	// Bytes
	if !(b == nil && len(skipNilBytes) > 0 && skipNilBytes[0]) {
		var bz []byte
		p, val, _ := mbt.Guard(func() { bz = b.Bytes() })
		if p {
			if b == nil {
				return "bytes-panic-nil", fmt.Sprintf("Bytes() on the nil array panicked: %v", val)
			}
			return "bytes-panic", fmt.Sprintf("Bytes() panicked: %v", val)
		}
		got := make([]int, len(bz))
		for i := range bz {
			got[i] = int(bz[i])
		}
		if !mbt.Eq(got, e.bytes) {
			return "bytes", fmt.Sprintf("Bytes() = %v, want %v on %s", got, e.bytes, show(e))
		}
	}
	// JSON encoding and round trip
	{
		var js []byte
		var err error
		if p, val, _ := mbt.Guard(func() { js, err = json.Marshal(b) }); p || err != nil {
			return "json-marshal", fmt.Sprintf("MarshalJSON failed: %v %v", val, err)
		}
		want := `"` + e.bits + `"`
		if e.isNil {
			want = "null"
		}
		if string(js) != want {
			return "json", fmt.Sprintf("MarshalJSON = %s, want %s", js, want)
		}
		back := bitarray.NewBitArray(7) // decoding into a used array must replace it
		back.SetIndex(3, true)
		if p, val, _ := mbt.Guard(func() { err = json.Unmarshal(js, back) }); p || err != nil {
			return "json-unmarshal", fmt.Sprintf("UnmarshalJSON(%s) failed: %v %v", js, val, err)
		}
		if back.Size() != e.size || bitsOf(back) != e.bits {
			return "json-roundtrip", fmt.Sprintf("decode(encode(x)) = %s (size %d), x = %s", bitsOf(back), back.Size(), show(e))
		}
	}
	// binary (amino) round trip
	if b != nil {
		var bz []byte
		var err error
		if p, val, _ := mbt.Guard(func() { bz, err = amino.Marshal(b) }); p || err != nil {
			return "amino-marshal", fmt.Sprintf("amino.Marshal failed: %v %v", val, err)
		}
		var back bitarray.BitArray
		if p, val, _ := mbt.Guard(func() { err = amino.Unmarshal(bz, &back) }); p || err != nil {
			return "amino-unmarshal", fmt.Sprintf("amino.Unmarshal failed: %v %v", val, err)
		}
		if back.Size() != e.size || bitsOf(&back) != e.bits {
			return "amino-roundtrip", fmt.Sprintf("decode(encode(x)) = %s, x = %s", bitsOf(&back), show(e))
		}
	}
	// true-index enumeration (public face: PickRandom)
	{
		set := map[int]bool{}
		for _, i := range e.tidx {
			set[i] = true
		}
		draws := 12
		cover := len(e.tidx) <= 16 || tcfg.fullPick
		if cover {
			draws = 40*len(e.tidx) + 8
		}
		seen := map[int]bool{}
		for d := 0; d < draws; d++ {
			i, ok := b.PickRandom()
			if ok != (len(e.tidx) > 0) {
				return "pickrandom-ok", fmt.Sprintf("PickRandom ok = %v on %s", ok, show(e))
			}
			if !ok {
				if i != 0 {
					return "pickrandom-ok", "PickRandom returned a non-zero index with ok = false"
				}
				break
			}
			if !set[i] {
				return "pickrandom-index", fmt.Sprintf("PickRandom returned %d, which is not a true index of %s", i, show(e))
			}
			seen[i] = true
			if cover && len(seen) == len(set) {
				break
			}
		}
		if cover && len(seen) != len(set) {
			return "pickrandom-missing", fmt.Sprintf("PickRandom never returned some true index of %s in %d draws (saw %d of %d)", show(e), draws, len(seen), len(set))
		}
	}
	return "", ""
}

func show(e exp) string {
	if e.isNil {
		return "nil"
	}
	if len(e.bits) > 70 {
		return fmt.Sprintf("%d bits %s…%s", e.size, e.bits[:32], e.bits[len(e.bits)-32:])
	}
	return fmt.Sprintf("%d bits %q", e.size, e.bits)
}

// ---------------------------------------------------------------- watchdog for receiver == argument

var selfDead sync.Map // op name -> true once a self-argument deadlock was observed

// callWatched runs fn in a goroutine. If it does not return and the goroutine is parked in
// sync.Mutex.Lock inside the named BitArray method, the call can never complete (nobody else holds a
// reference to the array): reported as deadlock. Anything else that does not finish is infrastructure.
func callWatched(method string, fn func()) (dead, panicked bool, val any) {
	done := make(chan struct{})
	go func() {
		defer close(done)
		panicked, val, _ = mbt.Guard(fn)
	}()
	deadline := time.Now().Add(20 * time.Second)
	wait := 5 * time.Millisecond
	for {
		select {
		case <-done:
			return false, panicked, val
		case <-time.After(wait):
		}
		if wait < 200*time.Millisecond {
			wait *= 2
		}
		buf := make([]byte, 1<<20)
		buf = buf[:runtime.Stack(buf, true)]
		for _, g := range strings.Split(string(buf), "\n\n") {
			head, _, _ := strings.Cut(g, "\n")
			if strings.Contains(head, "sync.Mutex.Lock") && strings.Contains(g, "bitarray.(*BitArray)."+method+"(") {
				select {
				case <-done: // finished meanwhile
					return false, panicked, val
				default:
				}
				return true, false, nil
			}
		}
		if time.Now().After(deadline) {
			mbt.Die("%s did not return within 20 s and is not parked on its own mutex", method)
		}
	}
}

// ---------------------------------------------------------------- replay

type env struct {
	regs   map[string]*bitarray.BitArray
	want   map[string]exp
	origin map[string]string // register -> action that first put bits beyond Bits into its array
	cregs  map[string]*cba.CompactBitArray
	cwant  map[string]exp
}

var counters struct{ steps, reads, selfCalls, selfSkipped, nontrivial int64 }
var distinct sync.Map

func binop(name string, x, y *bitarray.BitArray) *bitarray.BitArray {
	switch name {
	case "Or":
		return x.Or(y)
	case "And":
		return x.And(y)
	case "Sub":
		return x.Sub(y)
	}
	mbt.Die("binop %q", name)
	return nil
}

func shapeTag(x, y *bitarray.BitArray) string {
	wx, wy := 0, 0
	if x != nil {
		wx = len(x.Elems)
	}
	if y != nil {
		wy = len(y.Elems)
	}
	switch {
	case x == nil || y == nil:
		return "nil-operand"
	case wx < wy:
		return "recv-words<arg-words"
	case wx > wy:
		return "recv-words>arg-words"
	case x.Bits != y.Bits:
		return "same-words-different-bits"
	}
	return "same-size"
}

func replay(beh behT, bi int) {
	e := &env{regs: map[string]*bitarray.BitArray{}, want: map[string]exp{}, origin: map[string]string{},
		cregs: map[string]*cba.CompactBitArray{}, cwant: map[string]exp{}}
	nilExp := exp{isNil: true, empty: true, full: true}
	for idx, s := range beh.steps {
		atomic.AddInt64(&counters.steps, 1)
		act, d, xa, ya := s.Act, s.D, s.A, s.B
		ex := parseExp(s.St)
		rep := func(key, what string) { report(key, fmt.Sprintf("step %d %s(d=%s a=%s b=%s i=%d): %s", idx, act, d, xa, ya, s.I, what), beh, idx, bi) }
		if strings.HasPrefix(act, "C") && act != "Copy" {
			e.compactStep(s, ex, rep)
			continue
		}
		for _, r := range []string{d, xa, ya} {
			if r != "" {
				if _, ok := e.want[r]; !ok {
					e.want[r] = nilExp
				}
			}
		}
		x, y := e.regs[xa], e.regs[ya]
		prevDirty, prevOrigin := dirty(e.regs[d]), e.origin[d]
		xDirtyBefore, yDirtyBefore, xOrigin, yOrigin := dirty(x), dirty(y), e.origin[xa], e.origin[ya]
		var res *bitarray.BitArray
		var do func() *bitarray.BitArray
		self := false
		switch act {
		case "New":
			do = func() *bitarray.BitArray {
				b := bitarray.NewBitArray(s.Sz)
				for i := range ex.bits {
					if ex.bits[i] == 'x' && !b.SetIndex(i, true) {
						rep("C48:SetIndex:refused", fmt.Sprintf("SetIndex(%d, true) returned false on a fresh %d-bit array", i, s.Sz))
					}
				}
				return b
			}
		case "Empty":
			do = func() *bitarray.BitArray { return build("", false) }
		case "Set":
			do = func() *bitarray.BitArray {
				b := e.regs[d]
				if got := b.SetIndex(s.I, s.V); got != s.Reply {
					rep("C48:SetIndex:reply", fmt.Sprintf("SetIndex(%d) returned %v, want %v on %s", s.I, got, s.Reply, show(e.want[d])))
				}
				return b
			}
		case "Copy":
			do = func() *bitarray.BitArray { return x.Copy() }
		case "Not":
			do = func() *bitarray.BitArray { return x.Not() }
		case "Or", "And", "Sub":
			self = xa == ya && x != nil
			do = func() *bitarray.BitArray { return binop(act, x, y) }
		case "Update":
			self = xa == ya && x != nil
			do = func() *bitarray.BitArray { x.Update(y); return x }
		default:
			mbt.Die("unknown act %q", act)
		}
		key := fmt.Sprintf("%s|%s|%s|%d|%v", act, show(e.want[xa]), show(e.want[ya]), s.I, s.V)
		if act == "New" || act == "Empty" {
			key = act + "|" + show(ex)
		}
		if _, dup := distinct.LoadOrStore(key, true); !dup && !(e.want[xa].isNil && e.want[ya].isNil && act != "New" && act != "Empty") {
			atomic.AddInt64(&counters.nontrivial, 1)
		}
		if self {
			// receiver is its own argument: watchdog. After one observed deadlock of this method the
			// remaining self-calls use a copy as argument so that the behaviour can continue.
			if _, known := selfDead.Load(act); known {
				atomic.AddInt64(&counters.selfSkipped, 1)
				y = x.Copy()
				res = do()
			} else {
				atomic.AddInt64(&counters.selfCalls, 1)
				dead, p, val := callWatched(act, func() { res = do() })
				switch {
				case dead:
					// confirm once from a fresh object (rule 4), then remember
					fresh := build(e.want[xa].bits, false)
					dead2, _, _ := callWatched(act, func() {
						if act == "Update" {
							fresh.Update(fresh)
						} else {
							binop(act, fresh, fresh)
						}
					})
					if !dead2 {
						mbt.Die("FLAKY: self-argument deadlock of %s did not reproduce", act)
					}
					selfDead.Store(act, true)
					rep("C48:"+act+":self-argument-deadlock", fmt.Sprintf("x.%s(x) never returns on %s: the method locks the receiver's and the argument's mutex, which are the same", act, show(e.want[xa])))
					// the array's mutex stays locked for ever: continue on a fresh equal array
					x = build(e.want[xa].bits, false)
					e.regs[xa] = x
					y = x.Copy()
					res = do()
				case p:
					rep("C48:"+act+":panic", fmt.Sprintf("x.%s(x) panicked: %v", act, val))
					res = build(ex.bits, ex.isNil)
				}
			}
		} else {
			if p, val, st := mbt.Guard(func() { res = do() }); p {
				rep("C48:"+act+":panic", fmt.Sprintf("panicked: %v at %s", val, mbt.ShortStack(st)))
				res = build(ex.bits, ex.isNil)
			}
		}
		atomic.AddInt64(&counters.reads, 1)
		skipNilBytes := false
		cmp := func(b *bitarray.BitArray) (string, string) { return compareBA(b, ex, true, skipNilBytes) }
		field, detail := cmp(res)
		if field == "bytes-panic-nil" {
			rep("C48:Bytes:panic:nil-receiver", detail)
			skipNilBytes = true
			field, detail = cmp(res) // the remaining reads of the nil array
		}
		if field != "" {
			cause := ""
			// (1) an operand carried bits beyond its size: clear them and redo the operation
			if act != "Set" && act != "New" && act != "Empty" && (dirty(x) || dirty(y)) {
				org := e.origin[xa]
				if !dirty(x) {
					org = e.origin[ya]
				}
				sanitise(x)
				sanitise(y)
				if act == "Update" {
					x = build(e.want[xa].bits, e.want[xa].isNil)
					e.regs[xa] = x
				}
				res = do()
				if f2, d2 := cmp(res); f2 == "" {
					cause = org
				} else {
					field, detail = f2, d2
				}
			}
			// (2) the operation itself wrote bits beyond the size of its result
			if cause == "" && dirty(res) {
				sanitise(res)
				if f3, d3 := cmp(res); f3 == "" {
					cause = act
				} else {
					field, detail = f3, d3
				}
			}
			if cause != "" {
				rep("C48:"+cause+":writes-padding-bits", fmt.Sprintf("%s (bits beyond the array's size were written by %s and are read by other operations)", detail, cause))
			} else {
				k := "C48:" + act + ":" + field
				if act == "Or" || act == "And" || act == "Sub" {
					k += ":" + shapeTag(x, y)
				}
				rep(k, detail)
				res = build(ex.bits, ex.isNil) // resynchronise
			}
		}
		// provenance of bits beyond the size (guidance only): which action first wrote them
		if dirty(res) {
			switch {
			case act == "Set" && prevDirty: // in place on an array that already carried them
				e.origin[d] = prevOrigin
			case act == "Update" && yDirtyBefore:
				e.origin[d] = e.origin[ya]
			case act == "Update" && prevDirty:
				e.origin[d] = prevOrigin
			case act != "New" && act != "Empty" && act != "Set" && act != "Update" && xDirtyBefore:
				e.origin[d] = xOrigin
			case act != "New" && act != "Empty" && act != "Set" && act != "Update" && yDirtyBefore:
				e.origin[d] = yOrigin
			default:
				e.origin[d] = act
			}
		} else {
			delete(e.origin, d)
		}
		e.regs[d] = res
		e.want[d] = ex
		// every other register still holds what it held (no aliasing with operands or results)
		for r, w := range e.want {
			if r == d {
				continue
			}
			if f, det := compareBA(e.regs[r], w, false); f != "" {
				rep("C48:"+act+":aliasing", fmt.Sprintf("register %s changed although only %s was written: %s", r, d, det))
				e.regs[r] = build(w.bits, w.isNil)
			}
		}
	}
}

// ---------------------------------------------------------------- CompactBitArray

func cbits(b *cba.CompactBitArray) string {
	var sb strings.Builder
	for i := 0; i < b.Size(); i++ {
		if b.GetIndex(i) {
			sb.WriteByte('x')
		} else {
			sb.WriteByte('_')
		}
	}
	return sb.String()
}

func compareC(b *cba.CompactBitArray, e exp, deep bool, skipEmptyJSONDecode ...bool) (string, string) {
	if (b == nil) != e.isNil {
		return "nil", fmt.Sprintf("nil = %v, want %v", b == nil, e.isNil)
	}
	if b.Size() != e.size {
		return "size", fmt.Sprintf("Size() = %d, want %d", b.Size(), e.size)
	}
	if got := cbits(b); got != e.bits {
		return "bits", fmt.Sprintf("bits (GetIndex) = %s, want %s", got, e.bits)
	}
	if !deep {
		return "", ""
	}
	if b.GetIndex(e.size) || b.GetIndex(e.size+1) || b.GetIndex(e.size+8) {
		return "getindex-out-of-range", "GetIndex beyond the size returned true"
	}
	for j, want := range e.ntb {
		if got := b.NumTrueBitsBefore(j); got != want {
			return "numtruebitsbefore", fmt.Sprintf("NumTrueBitsBefore(%d) = %d, want %d on %s", j, got, want, show(e))
		}
	}
	var js []byte
	var err error
	if p, val, _ := mbt.Guard(func() { js, err = json.Marshal(b) }); p || err != nil {
		return "json-marshal", fmt.Sprintf("MarshalJSON failed: %v %v", val, err)
	}
	want := `"` + e.bits + `"`
	if e.isNil {
		want = "null"
	}
	if string(js) != want {
		return "json", fmt.Sprintf("MarshalJSON = %s, want %s", js, want)
	}
	if !(e.size == 0 && !e.isNil && len(skipEmptyJSONDecode) > 0 && skipEmptyJSONDecode[0]) {
		back := cba.NewCompactBitArray(11)
		back.SetIndex(3, true)
		if p, val, _ := mbt.Guard(func() { err = json.Unmarshal(js, back) }); p {
			if e.size == 0 && !e.isNil {
				return "json-unmarshal-panic-empty", fmt.Sprintf("UnmarshalJSON(%s) — the encoding of an empty array — panicked: %v", js, val)
			}
			return "json-unmarshal-panic", fmt.Sprintf("UnmarshalJSON(%s) panicked: %v", js, val)
		} else if err != nil {
			return "json-unmarshal", fmt.Sprintf("UnmarshalJSON(%s): %v", js, err)
		}
		if back.Size() != e.size || cbits(back) != e.bits {
			return "json-roundtrip", fmt.Sprintf("decode(encode(x)) = %s, x = %s", cbits(back), show(e))
		}
	}
	// compact binary encoding
	var bz []byte
	if p, val, _ := mbt.Guard(func() { bz = b.CompactMarshal() }); p {
		return "compact-marshal", fmt.Sprintf("CompactMarshal panicked: %v", val)
	}
	var cb *cba.CompactBitArray
	if p, val, _ := mbt.Guard(func() { cb, err = cba.CompactUnmarshal(bz) }); p || err != nil {
		return "compact-unmarshal", fmt.Sprintf("CompactUnmarshal(%x) failed: %v %v", bz, val, err)
	}
	if cb.Size() != e.size || cbits(cb) != e.bits {
		return "compact-roundtrip", fmt.Sprintf("decode(encode(x)) = %s, x = %s", cbits(cb), show(e))
	}
	// amino (the encoding used inside a Multisignature)
	if b != nil {
		type holder struct{ B *cba.CompactBitArray }
		var h2 holder
		if p, val, _ := mbt.Guard(func() { bz, err = amino.Marshal(holder{b}); _ = err }); p || err != nil {
			return "amino-marshal", fmt.Sprintf("amino.Marshal failed: %v %v", val, err)
		}
		if p, val, _ := mbt.Guard(func() { err = amino.Unmarshal(bz, &h2) }); p || err != nil {
			return "amino-unmarshal", fmt.Sprintf("amino.Unmarshal failed: %v %v", val, err)
		}
		if h2.B.Size() != e.size || cbits(h2.B) != e.bits {
			return "amino-roundtrip", fmt.Sprintf("decode(encode(x)) = %s, x = %s", cbits(h2.B), show(e))
		}
	}
	return "", ""
}

func buildC(bits string, isNil bool) *cba.CompactBitArray {
	if isNil {
		return nil
	}
	if len(bits) == 0 {
		b := new(cba.CompactBitArray)
		if err := json.Unmarshal([]byte(`null`), b); err != nil {
			mbt.Die("cannot build an empty compact array: %v", err)
		}
		return b
	}
	b := cba.NewCompactBitArray(len(bits))
	for i := range bits {
		if bits[i] == 'x' {
			b.SetIndex(i, true)
		}
	}
	return b
}

func (e *env) compactStep(s stepT, ex exp, rep func(key, what string)) {
	act, d, xa := s.Act, s.D, s.A
	nilExp := exp{isNil: true}
	for _, r := range []string{d, xa} {
		if r != "" {
			if _, ok := e.cwant[r]; !ok {
				e.cwant[r] = nilExp
			}
		}
	}
	var res *cba.CompactBitArray
	do := func() {
		switch act {
		case "CNew":
			res = cba.NewCompactBitArray(s.Sz)
			for i := range ex.bits {
				if ex.bits[i] == 'x' && !res.SetIndex(i, true) {
					rep("C48:Compact.SetIndex:refused", fmt.Sprintf("SetIndex(%d, true) returned false on a fresh array", i))
				}
			}
		case "CEmpty":
			res = buildC("", false)
		case "CSet":
			res = e.cregs[d]
			if got := res.SetIndex(s.I, s.V); got != s.Reply {
				rep("C48:Compact.SetIndex:reply", fmt.Sprintf("SetIndex(%d) returned %v, want %v on %s", s.I, got, s.Reply, show(e.cwant[d])))
			}
		case "CCopy":
			res = e.cregs[xa].Copy()
		default:
			mbt.Die("unknown act %q", act)
		}
	}
	if p, val, st := mbt.Guard(do); p {
		rep("C48:Compact."+act[1:]+":panic", fmt.Sprintf("panicked: %v at %s", val, mbt.ShortStack(st)))
		res = buildC(ex.bits, ex.isNil)
	}
	key := fmt.Sprintf("%s|%s|%s|%d|%v", act, show(ex), show(e.cwant[xa]), s.I, s.V)
	if _, dup := distinct.LoadOrStore(key, true); !dup && !ex.isNil {
		atomic.AddInt64(&counters.nontrivial, 1)
	}
	atomic.AddInt64(&counters.reads, 1)
	if f, det := compareC(res, ex, true); f != "" {
		switch f {
		case "json-unmarshal-panic-empty":
			rep("C48:Compact.UnmarshalJSON:panic:empty", det)
			if f2, d2 := compareC(res, ex, true, true); f2 != "" { // the remaining reads
				rep("C48:Compact."+act[1:]+":"+f2, d2)
				res = buildC(ex.bits, ex.isNil)
			}
		default:
			rep("C48:Compact."+act[1:]+":"+f, det)
			res = buildC(ex.bits, ex.isNil)
		}
	}
	e.cregs[d] = res
	e.cwant[d] = ex
	for r, w := range e.cwant {
		if r == d {
			continue
		}
		if f, det := compareC(e.cregs[r], w, false); f != "" {
			rep("C48:Compact."+act[1:]+":aliasing", fmt.Sprintf("register %s changed although only %s was written: %s", r, d, det))
			e.cregs[r] = buildC(w.bits, w.isNil)
		}
	}
}

func main() {
	f := mbt.ParseFlags()
	tcfg.fullPick = f.Tier == "thorough"
	lines := readLines(f.In)
	var wg sync.WaitGroup
	nw := runtime.NumCPU()
	for w := 0; w < nw; w++ {
		wg.Add(1)
		go func(w int) {
			defer wg.Done()
			for i := w; i < len(lines); i += nw {
				replay(decodeBeh(lines[i]), i)
			}
		}(w)
	}
	wg.Wait()
	keys := make([]string, 0, len(best))
	for k := range best {
		keys = append(keys, k)
	}
	sort.Strings(keys)
	for _, k := range keys {
		mbt.Mismatch(k, best[k].what, best[k].c)
	}
	for i := 0; i < len(lines) && i < 2; i++ {
		mbt.Sample(json.RawMessage(lines[len(lines)-1-i]))
	}
	sm := map[string]any{"behaviours": len(lines), "replays": len(lines), "steps": counters.steps, "reads": counters.reads,
		"self_calls": counters.selfCalls, "self_calls_with_copy_after_deadlock": counters.selfSkipped,
		"distinct_nontrivial": counters.nontrivial}
	for k, v := range hits {
		sm["hits "+k] = v
	}
	mbt.Summary(sm)
	mbt.Flush()
}
