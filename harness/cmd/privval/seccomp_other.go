//go:build !(linux && amd64)

package main

import "errors"

func killOn(class string) error { return errors.New("seccomp kill points need linux/amd64") }
