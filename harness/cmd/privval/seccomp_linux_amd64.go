//go:build linux && amd64

package main

import (
	"fmt"
	"syscall"
	"unsafe"
)

// killOn installs a seccomp-bpf filter (all threads) that kills the whole process with SIGSYS
// on entry to any of the named syscall classes. This realises "the process dies exactly at
// this system call" without touching gno: "open" = before the temp file of WriteFileAtomic
// exists, "write" = temp file created but empty, "rename" = temp file complete, state file
// still old, "unlink" = rename done (deferred os.Remove of the temp name), call not returned.
func killOn(class string) error {
	var nrs []uint32
	switch class {
	case "open":
		nrs = []uint32{2, 257, 437} // open, openat, openat2
	case "write":
		nrs = []uint32{1, 18, 20} // write, pwrite64, writev
	case "rename":
		nrs = []uint32{82, 264, 316} // rename, renameat, renameat2
	case "unlink":
		nrs = []uint32{87, 263} // unlink, unlinkat
	default:
		return fmt.Errorf("unknown kill class %q", class)
	}
	type sockFilter struct {
		code uint16
		jt   uint8
		jf   uint8
		k    uint32
	}
	type sockFprog struct {
		n      uint16
		_      [6]byte
		filter *sockFilter
	}
	prog := []sockFilter{{0x20, 0, 0, 0}} // ld [0]  (seccomp_data.nr)
	for i, nr := range nrs {
		// jeq nr -> kill (which sits after the remaining jeqs and the allow)
		prog = append(prog, sockFilter{0x15, uint8(len(nrs) - i), 0, nr})
	}
	prog = append(prog, sockFilter{0x06, 0, 0, 0x7fff0000}) // ret ALLOW
	prog = append(prog, sockFilter{0x06, 0, 0, 0x80000000}) // ret KILL_PROCESS
	fp := sockFprog{n: uint16(len(prog)), filter: &prog[0]}
	if _, _, e := syscall.RawSyscall6(syscall.SYS_PRCTL, 38 /*PR_SET_NO_NEW_PRIVS*/, 1, 0, 0, 0, 0); e != 0 {
		return fmt.Errorf("prctl(NO_NEW_PRIVS): %v", e)
	}
	if _, _, e := syscall.RawSyscall(317 /*SYS_SECCOMP*/, 1 /*SET_MODE_FILTER*/, 1 /*FLAG_TSYNC*/, uintptr(unsafe.Pointer(&fp))); e != 0 {
		return fmt.Errorf("seccomp: %v", e)
	}
	return nil
}
