// Driver for C34 (spec/PrivVal.tla): replays TLC behaviours on the real privval.PrivValidator
// with its FileState in a temp dir. Crash points of the spec are realised on the real code:
//
//	checked      signer panics on entry of Sign (nothing signed, nothing written)
//	signed       signer signs, then panics (or: child process killed by seccomp at open/write)
//	tempwritten  child process killed by seccomp at rename(2) inside WriteFileAtomic, or the
//	             on-disk state such a kill leaves is constructed: old state file + stray temp file
//	renamed      child killed at the deferred unlink after the rename, or the call completes and
//	             its reply is discarded
//
// After every crash the PrivValidator object is dropped and re-created from the state file.
package main

import (
	"bytes"
	"encoding/json"
	"fmt"
	"os"
	"os/exec"
	"path/filepath"
	"runtime"
	"strings"
	"sync"
	"sync/atomic"
	"syscall"
	"time"

	"github.com/gnolang/gno/tm2/pkg/bft/privval"
	fstate "github.com/gnolang/gno/tm2/pkg/bft/privval/state"
	"github.com/gnolang/gno/tm2/pkg/bft/types"
	"github.com/gnolang/gno/tm2/pkg/crypto"
	"github.com/gnolang/gno/tm2/pkg/crypto/ed25519"

	"verifharness/mbt"
)

const chainID = "verif-chain"

var (
	privKey  = ed25519.GenPrivKeyFromSecret([]byte("verif-privval"))
	dataVals = []string{"A", "B", "C"}
	tsVals   = []int{1, 2}
)

type req struct {
	H, R, S int
	D       string
	TS      int
}

func tsTime(ts int) time.Time { return time.Unix(1700000000+int64(ts)*7, 0).UTC() }

func blockID(name string) types.BlockID {
	if name == "nil" {
		return types.BlockID{}
	}
	h := make([]byte, 32)
	copy(h, []byte("block-"+name))
	ph := make([]byte, 32)
	copy(ph, []byte("parts-"+name))
	return types.BlockID{Hash: h, PartsHeader: types.PartSetHeader{Total: 1, Hash: ph}}
}

// mkMsg builds the vote (s=2,3) or proposal (s=1) a record stands for.
// votes:     A -> block A, B -> block B, C -> nil block
// proposals: A -> (block A, POL -1), B -> (block B, POL -1), C -> (block A, POL 0)
func mkMsg(q req) (*types.Vote, *types.Proposal) {
	if q.S == 1 {
		b, pol := q.D, -1
		if q.D == "C" {
			b, pol = "A", 0
		}
		return nil, &types.Proposal{Type: types.ProposalType, Height: int64(q.H), Round: q.R, POLRound: pol,
			BlockID: blockID(b), Timestamp: tsTime(q.TS)}
	}
	t := types.PrevoteType
	if q.S == 3 {
		t = types.PrecommitType
	}
	b := q.D
	if q.D == "C" {
		b = "nil"
	}
	return &types.Vote{Type: t, Height: int64(q.H), Round: q.R, BlockID: blockID(b), Timestamp: tsTime(q.TS),
		ValidatorAddress: privKey.PubKey().Address(), ValidatorIndex: 0}, nil
}

func signBytesOf(q req) []byte {
	v, p := mkMsg(q)
	if v != nil {
		return v.SignBytes(chainID)
	}
	return p.SignBytes(chainID)
}

// ---------------------------------------------------------------- signer with crash points

type crashSigner struct {
	key  ed25519.PrivKeyEd25519
	mode string // "", "before", "after"
}

type crashPanic struct{ at string }

func (s *crashSigner) PubKey() crypto.PubKey { return s.key.PubKey() }
func (s *crashSigner) Close() error          { return nil }
func (s *crashSigner) Sign(bz []byte) ([]byte, error) {
	if s.mode == "before" {
		panic(crashPanic{"before-sign"})
	}
	sig, err := s.key.Sign(bz)
	if s.mode == "after" {
		panic(crashPanic{"after-sign"})
	}
	return sig, err
}

// ---------------------------------------------------------------- one validator "machine"

type machine struct {
	dir, path string
	signer    *crashSigner
	pv        *privval.PrivValidator
	released  map[[3]int][]byte // HRS -> sign bytes of the released signature
	maxRel    [3]int
}

func newMachine() (*machine, error) {
	dir, err := os.MkdirTemp("", "pv")
	if err != nil {
		return nil, err
	}
	m := &machine{dir: dir, path: filepath.Join(dir, "priv_validator_state.json"),
		signer: &crashSigner{key: privKey}, released: map[[3]int][]byte{}}
	return m, m.restart()
}

func (m *machine) restart() error {
	m.pv = nil
	m.signer.mode = ""
	pv, err := privval.NewPrivValidator(m.signer, m.path)
	if err != nil {
		return err
	}
	m.pv = pv
	return nil
}

// call runs SignVote/SignProposal on the real object. Returns (reply class, returned ts index,
// sign bytes of the returned message, signature, why-bad).
func doSign(pv *privval.PrivValidator, q req) (reply string, rts int, sb, sig []byte) {
	v, p := mkMsg(q)
	var err error
	var t time.Time
	if v != nil {
		err = pv.SignVote(chainID, v)
		sb, sig, t = v.SignBytes(chainID), v.Signature, v.Timestamp
	} else {
		err = pv.SignProposal(chainID, p)
		sb, sig, t = p.SignBytes(chainID), p.Signature, p.Timestamp
	}
	if err != nil {
		return "refused", 0, nil, nil
	}
	rts = -1
	for _, x := range tsVals {
		if tsTime(x).Equal(t) {
			rts = x
		}
	}
	return "ok", rts, sb, sig
}

// project reads the persisted sign state from the file, as a restart would.
func (m *machine) project() map[string]any {
	fs, err := fstate.LoadFileState(m.path)
	if err != nil {
		return map[string]any{"error": err.Error()}
	}
	out := map[string]any{"h": int(fs.Height), "r": fs.Round, "s": int(fs.Step), "d": "none", "ts": 0}
	if fs.SignBytes != nil {
		out["d"] = "?"
		for _, d := range dataVals {
			for _, ts := range tsVals {
				if bytes.Equal(fs.SignBytes, signBytesOf(req{int(fs.Height), fs.Round, int(fs.Step), d, ts})) {
					out["d"], out["ts"] = d, ts
				}
			}
		}
		if !privKey.PubKey().VerifyBytes(fs.SignBytes, fs.Signature) {
			out["d"] = "badsig"
		}
	}
	return out
}

func strayTemps(dir string) (names []string) {
	es, _ := os.ReadDir(dir)
	for _, e := range es {
		if strings.HasPrefix(e.Name(), "write-file-atomic-") {
			names = append(names, e.Name())
		}
	}
	return
}

// realKill runs the sign call in a child process that is killed by the kernel at the given
// syscall class. Returns (killed, supported).
func (m *machine) realKill(q req, class string) (killed bool, supported bool, note string) {
	exe, err := os.Executable()
	if err != nil {
		return false, false, err.Error()
	}
	arg, _ := json.Marshal(map[string]any{"path": m.path, "req": q, "kill": class})
	cmd := exec.Command(exe, "-mode", "child", "-x", string(arg))
	var out bytes.Buffer
	cmd.Stdout = &out
	cmd.Stderr = &out
	err = cmd.Run()
	if ee, ok := err.(*exec.ExitError); ok {
		if ws, ok := ee.Sys().(syscall.WaitStatus); ok && ws.Signaled() && ws.Signal() == syscall.SIGSYS {
			return true, true, ""
		}
		return false, false, "child: " + err.Error() + " " + out.String()
	}
	if err != nil {
		return false, false, err.Error()
	}
	if strings.Contains(out.String(), "UNSUPPORTED") {
		return false, false, out.String()
	}
	return false, true, out.String() // survived: the kill point was never reached
}

func childMain(x string) {
	var a struct {
		Path string
		Req  req
		Kill string
	}
	if err := json.Unmarshal([]byte(x), &a); err != nil {
		fmt.Println("UNSUPPORTED bad args", err)
		return
	}
	pv, err := privval.NewPrivValidator(&crashSigner{key: privKey}, a.Path)
	if err != nil {
		fmt.Println("UNSUPPORTED restart failed in child:", err)
		return
	}
	runtime.LockOSThread()
	if err := killOn(a.Kill); err != nil {
		fmt.Println("UNSUPPORTED", err)
		return
	}
	reply, _, _, _ := doSign(pv, a.Req)
	// only reached when the kill point was not hit; no write(2) may be used for "write" class,
	// so report through the exit code
	if reply == "ok" {
		syscall.Exit(0)
	}
	syscall.Exit(0)
}

type stats struct {
	steps, okc, crashes, realKills, constructed, killUnsupported, shapeOK int64
}

var st stats
var killNote atomic.Value

var curKillMod, biOffset int

func caseOf(beh []mbt.Step, k int) map[string]any {
	return map[string]any{"steps": beh[:k+1], "killmod": curKillMod}
}

// replay one behaviour. killMod: use a real kill for crash steps when (bi+k)%killMod==0 (0 = never).
func replay(beh []mbt.Step, bi int, killMod int) bool {
	m, err := newMachine()
	if err != nil {
		mbt.Die("machine: %v", err)
	}
	defer os.RemoveAll(m.dir)
	for k, s := range beh {
		atomic.AddInt64(&st.steps, 1)
		q := req{s.Int("h"), s.Int("r"), s.Int("s"), s.Str("d"), s.Int("ts")}
		expReply := map[string]string{"signed": "ok", "same": "ok", "ts": "ok", "regress": "refused",
			"conflict": "refused", "crashed": "crashed", "ok": "restarted"}[s.Str("reply")]
		crash := s.Str("crash")
		useKill := killMod > 0 && (bi+k)%killMod == 0
		obsReply := ""
		switch {
		case s.Act() == "Restart":
			obsReply = "restarted"
			if err := m.restart(); err != nil {
				mbt.Mismatch("C34:Restart:failed", fmt.Sprintf("step %d: restart from the state file failed: %v", k, err), caseOf(beh, k))
				return false
			}
		case crash == "none":
			var rts int
			var sb, sig []byte
			if p, val, stk := mbt.Guard(func() { obsReply, rts, sb, sig = doSign(m.pv, q) }); p {
				mbt.Mismatch("C34:Sign:panic", fmt.Sprintf("step %d %s: panic %v at %s", k, mbt.JS(s), val, mbt.ShortStack(stk)), caseOf(beh, k))
				return false
			}
			if obsReply == "ok" {
				// the released signature: must verify over the returned message, and never conflict
				// with an earlier released signature of the same HRS, nor regress
				hrs := [3]int{q.H, q.R, q.S}
				if !privKey.PubKey().VerifyBytes(sb, sig) {
					mbt.Mismatch("C34:Sign:bad-signature", fmt.Sprintf("step %d %s: returned signature does not verify over the returned message", k, mbt.JS(s)), caseOf(beh, k))
					return false
				}
				if old, ok := m.released[hrs]; ok && !bytes.Equal(old, sb) {
					mbt.Mismatch("C34:DoubleSign", fmt.Sprintf("step %d %s: two signatures released for HRS %v over different bytes", k, mbt.JS(s), hrs), caseOf(beh, k))
					return false
				}
				if less(hrs, m.maxRel) {
					mbt.Mismatch("C34:Regression", fmt.Sprintf("step %d %s: signature released for HRS %v below already signed %v", k, mbt.JS(s), hrs, m.maxRel), caseOf(beh, k))
					return false
				}
				m.released[hrs], m.maxRel = sb, hrs
				if expReply == "ok" {
					want := req{q.H, q.R, q.S, q.D, s.Int("rts")}
					if rts != s.Int("rts") || !bytes.Equal(sb, signBytesOf(want)) {
						mbt.Mismatch("C34:Sign:"+s.Str("reply")+":wrong-message", fmt.Sprintf("step %d %s: returned message has timestamp #%d (spec #%d) or altered fields", k, mbt.JS(s), rts, s.Int("rts")), caseOf(beh, k))
						return false
					}
				}
			}
		default: // a crash inside the call, then restart
			obsReply = "crashed"
			atomic.AddInt64(&st.crashes, 1)
			old, _ := os.ReadFile(m.path)
			done := false
			if useKill {
				class := map[string]string{"checked": "", "signed": "write", "tempwritten": "rename", "renamed": "unlink"}[crash]
				if crash == "signed" && (bi+k)%2 == 1 {
					class = "open"
				}
				if class != "" {
					killed, supported, note := m.realKill(q, class)
					switch {
					case killed:
						done = true
						atomic.AddInt64(&st.realKills, 1)
						// shape of what a real kill leaves (cross-checks the constructed states below)
						now, _ := os.ReadFile(m.path)
						stray := strayTemps(m.dir)
						if class != "unlink" && !bytes.Equal(now, old) {
							mbt.Mismatch("C34:Crash:"+class+":state-file-touched-before-rename",
								fmt.Sprintf("step %d %s: process killed at %s(2) but the state file already differs from the old one (%d -> %d bytes)", k, mbt.JS(s), class, len(old), len(now)), caseOf(beh, k))
							return false
						}
						shapeOK := map[string]bool{"open": len(stray) == 0, "write": len(stray) >= 1, "rename": len(stray) >= 1, "unlink": true}[class]
						if class == "rename" && len(stray) >= 1 {
							tb, _ := os.ReadFile(filepath.Join(m.dir, stray[len(stray)-1]))
							shapeOK = len(tb) > 0
						}
						if shapeOK {
							atomic.AddInt64(&st.shapeOK, 1)
						}
						for _, n := range stray { // keep at most the newest stray file around
							if class == "open" {
								os.Remove(filepath.Join(m.dir, n))
							}
						}
					case !supported:
						atomic.AddInt64(&st.killUnsupported, 1)
						killNote.Store(note)
					default:
						// the call completed in the child without reaching the kill point: for "rename"
						// that means the state was not persisted through temp file + rename
						if class == "rename" || class == "write" || class == "open" {
							mbt.Mismatch("C34:Crash:"+class+":kill-point-not-reached",
								fmt.Sprintf("step %d %s: sign call for a new HRS completed without %s(2): state not persisted via temp file + rename", k, mbt.JS(s), class), caseOf(beh, k))
							return false
						}
						done = true // unlink not reached: the call completed, reply discarded
					}
				}
			}
			if !done {
				atomic.AddInt64(&st.constructed, 1)
				switch crash {
				case "checked", "signed":
					m.signer.mode = map[string]string{"checked": "before", "signed": "after"}[crash]
					p, val, _ := mbt.Guard(func() { doSign(m.pv, q) })
					if _, isCrash := val.(crashPanic); !p || !isCrash {
						mbt.Mismatch("C34:Crash:signer-not-called", fmt.Sprintf("step %d %s: spec expects the signer to be called (new HRS); panicked=%v val=%v", k, mbt.JS(s), p, val), caseOf(beh, k))
						return false
					}
				case "tempwritten":
					// complete the call, then put back what a kill before rename(2) leaves:
					// the old state file and a stray temp file holding (a prefix of) the new content
					mbt.Guard(func() { doSign(m.pv, q) })
					now, _ := os.ReadFile(m.path)
					if err := os.WriteFile(m.path, old, 0o600); err != nil {
						mbt.Die("restore: %v", err)
					}
					cut := len(now)
					if (bi+k)%3 == 0 && len(now) > 0 {
						cut = (bi*31 + k*7) % len(now)
					}
					os.WriteFile(filepath.Join(m.dir, fmt.Sprintf("write-file-atomic-%d%d", bi, k)), now[:cut], 0o600)
				case "renamed":
					mbt.Guard(func() { doSign(m.pv, q) }) // completes; the reply dies with the process
				}
			}
			if err := m.restart(); err != nil {
				mbt.Mismatch("C34:Restart:failed", fmt.Sprintf("step %d %s: restart after crash at %q failed: %v", k, mbt.JS(s), crash, err), caseOf(beh, k))
				return false
			}
		}
		obs := m.project()
		if obsReply != expReply || !mbt.Eq(obs, s["st"]) {
			mbt.Mismatch(fmt.Sprintf("C34:%s:%s", s.Act(), s.Str("reply")),
				fmt.Sprintf("step %d %s: reply %q (spec %q -> %q); state file %s (spec %s)", k, mbt.JS(s), obsReply, s.Str("reply"), expReply, mbt.JS(obs), mbt.JS(s["st"])),
				caseOf(beh, k))
			return false
		}
	}
	return true
}

func less(a, b [3]int) bool {
	for i := 0; i < 3; i++ {
		if a[i] != b[i] {
			return a[i] < b[i]
		}
	}
	return false
}

func main() {
	f := mbt.ParseFlags()
	if f.Mode == "child" {
		childMain(f.Extra)
		return
	}
	killMod := f.N // -n K: every K-th crash step is a real kill (0 = none)
	curKillMod = killMod
	behs, err := mbt.ReadBehaviours(f.In)
	if err != nil {
		mbt.Die("%v", err)
	}
	var wg sync.WaitGroup
	nw := runtime.NumCPU()
	for w := 0; w < nw; w++ {
		wg.Add(1)
		go func(w int) {
			defer wg.Done()
			for i := w; i < len(behs); i += nw {
				if replay(behs[i], i, killMod) {
					atomic.AddInt64(&st.okc, 1)
				}
			}
		}(w)
	}
	wg.Wait()
	for i := 0; i < len(behs) && i < 2; i++ {
		mbt.Sample(behs[len(behs)-1-i])
	}
	sum := map[string]any{"behaviours": len(behs), "replays": len(behs), "replays_ok": st.okc, "steps": st.steps,
		"crash_steps": st.crashes, "real_kills": st.realKills, "constructed_crashes": st.constructed,
		"kill_unsupported": st.killUnsupported, "real_kill_disk_shape_as_modelled": st.shapeOK}
	if n, ok := killNote.Load().(string); ok {
		sum["kill_note"] = n
	}
	mbt.Summary(sum)
	mbt.Flush()
}
