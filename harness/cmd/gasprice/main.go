// Driver for C17 (spec/GasPrice.tla, GasPriceFn.tla, GasPriceApa.tla): replays behaviours on the real
// auth.GasPriceKeeper through auth.EndBlocker -> UpdateGasPrice, in an EndBlocker-shaped context:
// auth params in the context value (as gnoland's EndBlocker installs them), Block.MaxGas in the
// consensus params, a block gas meter charged with `used` exactly as BaseApp.BeginBlock builds it
// (limited meter when MaxGas > 0, infinite otherwise), the price persisted in a real iavl store
// (committed after every block).
//
// Behaviour = [ {act:"Init", price, maxGas, ratio, comp, init}, {act:"EndBlock", used, cls, lo, hi, tz, sat, st}
//               | {act:"SetParams", maxGas, ratio, comp, init} ... ]; numbers may be JSON numbers (TLC) or
// decimal strings (Apalache models, beyond 2^53).
//
// Verdict observables: a panic of EndBlocker (key C17:NoPanic:<class>), the stored price
// (GasPriceKeeper.LastGasPrice) against the clause interval lo..hi the spec derives from the statement
// (key C17:<clause>). Guidance observable: equality with the design value st (counted as drift; the
// rest of the behaviour is then skipped because the spec's later inputs assume st). Where the spec flags
// `big` (the rule's intermediate product exceeds int64) a different value is reported under
// C17:NoOverflow:intermediate; checks/c17.py turns it into a verdict only when there is no drift elsewhere.
// The parameters of every step are checked with the repository's own validators first
// (auth.Params.Validate, bft ValidateConsensusParams): a behaviour with invalid parameters is an
// infrastructure error, not a finding.
package main

import (
	"fmt"
	"sort"
	"strconv"
	"strings"
	"sync"

	abci "github.com/gnolang/gno/tm2/pkg/bft/abci/types"
	bft "github.com/gnolang/gno/tm2/pkg/bft/types"
	"github.com/gnolang/gno/tm2/pkg/db/memdb"
	"github.com/gnolang/gno/tm2/pkg/log"
	"github.com/gnolang/gno/tm2/pkg/sdk"
	"github.com/gnolang/gno/tm2/pkg/sdk/auth"
	"github.com/gnolang/gno/tm2/pkg/std"
	"github.com/gnolang/gno/tm2/pkg/store"
	"github.com/gnolang/gno/tm2/pkg/store/iavl"

	"verifharness/mbt"
)

const denom = "ugnot"
const gasUnit = 1000

type prm struct{ maxGas, ratio, comp, init int64 }

type env struct {
	ms     store.CommitMultiStore
	gk     auth.GasPriceKeeper
	height int64
	p      prm
}

func num(s mbt.Step, k string) int64 {
	switch x := s[k].(type) {
	case float64:
		return int64(x)
	case string:
		n, err := strconv.ParseInt(x, 10, 64)
		if err != nil {
			mbt.Die("field %s=%q: %v", k, x, err)
		}
		return n
	}
	mbt.Die("field %s missing in %s", k, mbt.JS(s))
	return 0
}

func params(s mbt.Step) prm {
	return prm{num(s, "maxGas"), num(s, "ratio"), num(s, "comp"), num(s, "init")}
}

func gp(amount int64) std.GasPrice {
	return std.GasPrice{Gas: gasUnit, Price: std.Coin{Denom: denom, Amount: amount}}
}

func (p prm) auth() auth.Params {
	ap := auth.DefaultParams()
	ap.TargetGasRatio = p.ratio
	ap.GasPricesChangeCompressor = p.comp
	ap.InitialGasPrice = gp(p.init)
	return ap
}

func (p prm) cons() *abci.ConsensusParams {
	cp := bft.DefaultConsensusParams()
	cp.Block.MaxGas = p.maxGas
	return &cp
}

// validate: the parameters must be ones the chain accepts.
func (p prm) validate() {
	if err := p.auth().Validate(); err != nil {
		mbt.Die("generated auth params do not validate: %v", err)
	}
	if err := bft.ValidateConsensusParams(*p.cons()); err != nil {
		mbt.Die("generated consensus params do not validate: %v", err)
	}
}

func newEnv() *env {
	db := memdb.NewMemDB()
	key := store.NewStoreKey("verif-gasprice")
	ms := store.NewCommitMultiStore(db)
	ms.MountStoreWithDB(key, iavl.StoreConstructor, db)
	if err := ms.LoadLatestVersion(); err != nil {
		mbt.Die("LoadLatestVersion: %v", err)
	}
	return &env{ms: ms, gk: auth.NewGasPriceKeeper(key), height: 1}
}

func (e *env) ctx() sdk.Context {
	return sdk.NewContext(sdk.RunTxModeDeliver, e.ms, &bft.Header{Height: e.height, ChainID: "verif-chain"}, log.NewNoopLogger())
}

// genesis: InitChainer stores the initial price.
func (e *env) genesis(price int64, p prm) {
	e.p = p
	auth.InitChainer(e.ctx(), e.gk, gp(price))
	e.ms.Commit()
	e.height++
}

func (e *env) stored() int64 { return e.gk.LastGasPrice(e.ctx()).Price.Amount }

// endBlock runs the real auth.EndBlocker for a block that consumed `used` gas.
func (e *env) endBlock(used int64) (panicked bool, val any, stack string) {
	var meter store.GasMeter
	if e.p.maxGas > 0 { // BaseApp.BeginBlock
		meter = store.NewGasMeter(e.p.maxGas)
	} else {
		meter = store.NewInfiniteGasMeter()
	}
	// the meter records consumption even when it trips its limit (runTx recovers that panic)
	mbt.Guard(func() { meter.ConsumeGas(used, "verif block") })
	if meter.GasConsumed() != used {
		mbt.Die("block gas meter reports %d after consuming %d", meter.GasConsumed(), used)
	}
	ctx := e.ctx().WithBlockGasMeter(meter).WithConsensusParams(e.p.cons()).
		WithValue(auth.AuthParamsContextKey{}, e.p.auth())
	panicked, val, stack = mbt.Guard(func() { auth.EndBlocker(ctx, e.gk) })
	if !panicked {
		e.ms.Commit()
		e.height++
	}
	return
}

// where: the source positions (file:line) of the innermost gno frames of a panic stack.
func where(stack string) string {
	var keep []string
	for _, l := range strings.Split(stack, "\n") {
		l = strings.TrimSpace(l)
		if !strings.Contains(l, ".go:") || !strings.Contains(l, "/tm2/") {
			continue
		}
		if i := strings.Index(l, " +0x"); i > 0 {
			l = l[:i]
		}
		if i := strings.Index(l, "/tm2/"); i > 0 {
			l = l[i+1:]
		}
		keep = append(keep, l)
		if len(keep) == 3 {
			break
		}
	}
	return strings.Join(keep, " <- ")
}

type mis struct {
	idx  int
	what string
	c    any
}

var (
	mu       sync.Mutex
	reported = map[string][]mis{} // per key: the two mismatches with the smallest behaviour index (deterministic)
	stats    = map[string]int64{}
)

func count(k string, n int64) { mu.Lock(); stats[k] += n; mu.Unlock() }

func report(idx int, key, what string, c any) {
	mu.Lock()
	defer mu.Unlock()
	stats["mismatches"]++
	stats["mismatch:"+key]++
	l := append(reported[key], mis{idx, what, c})
	sort.Slice(l, func(i, j int) bool { return l[i].idx < l[j].idx })
	if len(l) > 2 {
		l = l[:2]
	}
	reported[key] = l
}

func replay(idx int, beh []mbt.Step) {
	if len(beh) == 0 || beh[0].Act() != "Init" {
		mbt.Die("behaviour does not start with Init: %s", mbt.JS(beh))
	}
	e := newEnv()
	p0 := params(beh[0])
	p0.validate()
	e.genesis(num(beh[0], "price"), p0)
	if e.stored() != num(beh[0], "price") {
		mbt.Die("genesis price not stored")
	}
	count("replays", 1)
	for k := 1; k < len(beh); k++ {
		s := beh[k]
		count("steps", 1)
		switch s.Act() {
		case "SetParams":
			e.p = params(s)
			e.p.validate()
			if got := e.stored(); got != num(s, "st") {
				mbt.Die("stored price changed by a parameter change in the driver?")
			}
		case "EndBlock":
			cls := s.Str("cls")
			count("cls:"+cls, 1)
			used, lo, hi, exp := num(s, "used"), num(s, "lo"), num(s, "hi"), num(s, "st")
			last := e.stored()
			if last != num(s, "last") {
				mbt.Die("driver out of step: stored %d, spec last %d", last, num(s, "last"))
			}
			panicked, val, st := e.endBlock(used)
			c := map[string]any{"steps": beh[:k+1]}
			if panicked {
				class := "other"
				switch {
				case s.Bool("tz"):
					class = "target-zero"
				case s.Bool("sat"):
					class = "price-overflow"
				}
				report(idx, "C17:NoPanic:"+class,
					fmt.Sprintf("EndBlocker panicked (%v) for valid parameters: last=%d used=%d MaxGas=%d TargetGasRatio=%d Compressor=%d InitialGasPrice=%d [%s]",
						val, last, used, e.p.maxGas, e.p.ratio, e.p.comp, e.p.init, where(st)), c)
				return
			}
			out := e.stored()
			if out < lo || out > hi {
				report(idx, "C17:"+cls,
					fmt.Sprintf("clause %s: new price %d outside %d..%d (last=%d used=%d MaxGas=%d ratio=%d comp=%d init=%d; rule value %d)",
						cls, out, lo, hi, last, used, e.p.maxGas, e.p.ratio, e.p.comp, e.p.init, exp), c)
				return
			}
			if out != exp {
				if s.Bool("big") {
					// candidate silent overflow; checks/c17.py keeps it only if the code agrees with the rule elsewhere
					count("drift_big", 1)
					report(idx, "C17:NoOverflow:intermediate",
						fmt.Sprintf("new price %d, the rule over unbounded integers gives %d; the intermediate product |used-target|*last exceeds int64 (last=%d used=%d MaxGas=%d ratio=%d comp=%d init=%d)",
							out, exp, last, used, e.p.maxGas, e.p.ratio, e.p.comp, e.p.init), c)
					return
				}
				count("drift", 1)
				return
			}
			count("steps_ok", 1)
		default:
			mbt.Die("unknown act %q", s.Act())
		}
	}
	count("replays_ok", 1)
}

func main() {
	f := mbt.ParseFlags()
	behs, err := mbt.ReadBehaviours(f.In)
	if err != nil {
		mbt.Die("%v", err)
	}
	var wg sync.WaitGroup
	nw := 8
	for w := 0; w < nw; w++ {
		wg.Add(1)
		go func(w int) {
			defer wg.Done()
			for i := w; i < len(behs); i += nw {
				replay(i, behs[i])
			}
		}(w)
	}
	wg.Wait()
	keys := make([]string, 0, len(reported))
	for k := range reported {
		keys = append(keys, k)
	}
	sort.Strings(keys)
	for _, k := range keys {
		for _, m := range reported[k] {
			mbt.Mismatch(k, m.what, m.c)
		}
	}
	for i := 0; i < len(behs) && i < 2; i++ {
		mbt.Sample(behs[len(behs)*i/2])
	}
	sum := map[string]any{"behaviours": len(behs)}
	for k, v := range stats {
		sum[k] = v
	}
	mbt.Summary(sum)
	mbt.Flush()
}
