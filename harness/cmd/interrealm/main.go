// Driver for C07 (spec/Interrealm.tla): instantiates TLC-enumerated attack shapes from Gno
// templates against the fixed victim realm gno.land/r/verif/victim and runs them on the REAL
// gno.land application (MsgAddPackage for attacker packages, MsgRun for the attack), comparing
// the victim's persisted state before/after (Dump() through vm/qeval and the raw committed
// `oid:` entries of the victim's package id).
package main

import (
	"crypto/sha256"
	"encoding/hex"
	"encoding/json"
	"fmt"
	"os"
	"sort"
	"strings"
	"time"

	"github.com/gnolang/gno/gno.land/pkg/sdk/vm"
	gno "github.com/gnolang/gno/gnovm/pkg/gnolang"
	"github.com/gnolang/gno/tm2/pkg/crypto"
	"github.com/gnolang/gno/tm2/pkg/std"

	"verifharness/appenv"
	"verifharness/mbt"
)

const basePrefix = "s/_/" // gnoland mounts its stores with an explicit DB: rootmulti prefix "s/_/"

type world struct {
	e        *appenv.Env
	user     *appenv.Account
	num, seq uint64
	vicOID   string // "oid:<pkgid hex>:" prefix of the victim's objects
	blocks   int
}

func oidPrefix(path string) string {
	id := gno.ObjectID{PkgID: gno.PkgIDFromPkgPath(path), NewTime: 1}.String()
	return "oid:" + strings.TrimSuffix(id, "1")
}

func newWorld() *world {
	u, d := appenv.NewAccount("attacker"), appenv.NewAccount("deployer")
	e, err := appenv.New(appenv.Options{
		MaxGas:   3_000_000_000,
		Balances: map[crypto.Address]int64{u.Addr: 1_000_000_000_000_000, d.Addr: 1_000_000_000_000},
		Deployer: d,
		Pkgs: []appenv.Pkg{
			{Path: libPath, Files: map[string]string{"lib.gno": libSrc}},
			{Path: victimPath, Files: map[string]string{"victim.gno": victimSrc}},
		},
	})
	if err != nil {
		mbt.Die("app: %v", err)
	}
	w := &world{e: e, user: u, vicOID: oidPrefix(victimPath)}
	ai := e.Account(u.Addr)
	w.seq, w.num = ai.Seq, ai.Num
	return w
}

type txRes struct {
	OK   bool
	Log  string
	Kind string // ok | typecheck | vmpanic | other
}

func classify(ok bool, log string) string {
	switch {
	case ok:
		return "ok"
	case strings.Contains(log, "type check") || strings.Contains(log, "TypeCheckError") || strings.Contains(log, "typecheck"):
		return "typecheck"
	case strings.Contains(log, "VM panic") || strings.Contains(log, "panic"):
		return "vmpanic"
	}
	return "other"
}

// deliver runs the msgs as one signed tx in its own block and commits.
func (w *world) deliver(msgs ...std.Msg) txRes {
	tx := appenv.SignTx(msgs, 300_000_000, 1_000_000, appenv.ChainID, w.user, w.num, w.seq)
	w.e.BeginBlock()
	r := w.e.Deliver(tx)
	w.e.EndBlockCommit()
	w.blocks++
	if r.GasWanted > 0 {
		w.seq++
	}
	log := r.Log
	if r.Error != nil {
		log = fmt.Sprint(r.Error) + " | " + log
	}
	return txRes{OK: r.IsOK(), Log: log, Kind: classify(r.IsOK(), log)}
}

func (w *world) addPkg(p appenv.Pkg) txRes {
	return w.deliver(appenv.AddPkgMsg(w.user.Addr, p))
}

func (w *world) run(script string) txRes {
	return w.deliver(vm.NewMsgRun(w.user.Addr, nil, []*std.MemFile{{Name: "main.gno", Body: script}}))
}

func (w *world) call(path, fn string, args ...string) txRes {
	return w.deliver(vm.NewMsgCall(w.user.Addr, nil, path, fn, args))
}

func (w *world) dump() string {
	s, err := w.e.QEval(victimPath, "Dump()")
	if err != nil {
		mbt.Die("qeval Dump: %v", err)
	}
	return s
}

// rawVictim returns key -> sha256(value) of every committed object entry of the victim's package id
// (the `#realm` bookkeeping entry, which holds storage counters, is reported separately).
func (w *world) rawVictim() (objs map[string]string, meta string) {
	start := []byte(basePrefix + w.vicOID)
	end := append([]byte{}, start...)
	end[len(end)-1]++
	it, err := w.e.DB.Iterator(start, end)
	if err != nil {
		mbt.Die("iterator: %v", err)
	}
	defer it.Close()
	objs = map[string]string{}
	for ; it.Valid(); it.Next() {
		k := string(it.Key())[len(basePrefix):]
		h := sha256.Sum256(it.Value())
		if strings.HasSuffix(k, "#realm") {
			meta = hex.EncodeToString(h[:8])
			continue
		}
		objs[k] = hex.EncodeToString(h[:8])
	}
	return
}

func diffRaw(a, b map[string]string) []string {
	var out []string
	for k, v := range a {
		if w, ok := b[k]; !ok {
			out = append(out, "-"+k)
		} else if w != v {
			out = append(out, "~"+k)
		}
	}
	for k := range b {
		if _, ok := a[k]; !ok {
			out = append(out, "+"+k)
		}
	}
	sort.Strings(out)
	return out
}

// ---------------------------------------------------------------- probe mode (hand validation of templates)

type probeCase struct {
	Name   string       `json:"name"`
	Pkgs   []appenv.Pkg `json:"pkgs"`
	Script string       `json:"script"`
}

func probe(f *mbt.Flags) {
	bz, err := os.ReadFile(f.Extra)
	if err != nil {
		mbt.Die("%v", err)
	}
	var cases []probeCase
	if err := json.Unmarshal(bz, &cases); err != nil {
		mbt.Die("%v", err)
	}
	w := newWorld()
	d0 := w.dump()
	r0, _ := w.rawVictim()
	fmt.Fprintf(os.Stderr, "victim objects: %d\n%s\n", len(r0), d0)
	for _, c := range cases {
		t0 := time.Now()
		before := w.dump()
		rb, mb := w.rawVictim()
		t1 := time.Now()
		var res txRes
		for _, p := range c.Pkgs {
			res = w.addPkg(p)
			if !res.OK {
				break
			}
		}
		if len(c.Pkgs) == 0 || res.OK {
			res = w.run(c.Script)
		}
		t2 := time.Now()
		after := w.dump()
		ra, ma := w.rawVictim()
		rd := diffRaw(rb, ra)
		if len(rd) > 6 {
			rd = append(rd[:6], fmt.Sprintf("...(%d)", len(rd)))
		}
		fmt.Fprintf(os.Stderr, "== %-28s %-9s dumpChanged=%v rawDiff=%v metaChanged=%v [obs %v tx %v]\n", c.Name, res.Kind, before != after, rd, mb != ma, t1.Sub(t0), t2.Sub(t1))
		if !res.OK {
			fmt.Fprintf(os.Stderr, "     log: %.400s\n", strings.ReplaceAll(res.Log, "\n", " / "))
		}
		if before != after {
			bl, al := strings.Split(before, "\\n"), strings.Split(after, "\\n")
			for i := range bl {
				if i < len(al) && bl[i] != al[i] {
					fmt.Fprintf(os.Stderr, "     - %s\n     + %s\n", bl[i], al[i])
				}
			}
		}
	}
}

// ---------------------------------------------------------------- shapes mode

type outcome struct {
	Kind        string // ok | typecheck | vmpanic | other   (of the attack tx, or of the failing deployment)
	Stage       string // deploy | run
	DumpChanged bool
	RawDiff     []string
	Log         string
}

func shortLog(l string) string {
	l = strings.ReplaceAll(l, "\n", " / ")
	if i := strings.Index(l, " | "); i > 0 {
		l = l[:i]
	}
	if len(l) > 300 {
		l = l[:300]
	}
	return l
}

type runner struct {
	w      *world
	k      int // unique number for the next shape (package names, written values)
	dump   string
	raw    map[string]string
	fresh  bool // dump/raw are current
	resets int
}

func (r *runner) observe() {
	if !r.fresh {
		r.dump = r.w.dump()
		r.raw, _ = r.w.rawVictim()
		r.fresh = true
	}
}

// exec runs one instantiated shape: deployments, then the MsgRun; observes the victim before/after.
func (r *runner) exec(p prog) outcome {
	r.observe()
	before, rawBefore := r.dump, r.raw
	var res txRes
	o := outcome{Stage: "run"}
	deployed := true
	for _, pk := range p.Pkgs {
		res = r.w.addPkg(pk)
		if !res.OK {
			o.Stage = "deploy"
			deployed = false
			break
		}
	}
	if deployed {
		res = r.w.run(p.Script)
	}
	r.fresh = false
	r.observe()
	o.Kind, o.Log = res.Kind, shortLog(res.Log)
	o.DumpChanged = before != r.dump
	o.RawDiff = diffRaw(rawBefore, r.raw)
	return o
}

func (r *runner) reset() {
	res := r.w.call(victimPath, "Reset")
	if !res.OK {
		mbt.Die("victim.Reset failed: %s", res.Log)
	}
	r.fresh = false
	r.resets++
}

func trim(d []string) []string {
	if len(d) > 8 {
		return append(append([]string{}, d[:8]...), fmt.Sprintf("...(%d entries)", len(d)))
	}
	return d
}

func runShapes(f *mbt.Flags) {
	behs, err := mbt.ReadBehaviours(f.In)
	if err != nil {
		mbt.Die("read: %v", err)
	}
	r := &runner{w: newWorld()}
	cnt := map[string]int{}
	perCtx := map[string]int{}
	seen := map[string]bool{}
	samples := 0
	for _, b := range behs {
		if len(b) != 1 {
			mbt.Die("a shape behaviour has exactly one step, got %d", len(b))
		}
		var s shape
		bz, _ := json.Marshal(b[0])
		if err := json.Unmarshal(bz, &s); err != nil {
			mbt.Die("shape: %v", err)
		}
		r.k++
		p, err := gen(s, r.k)
		if err != nil {
			mbt.Die("gen %s: %v", s.id(), err)
		}
		o := r.exec(p)
		cnt["shapes"]++
		changed := o.DumpChanged || len(o.RawDiff) > 0
		if strings.HasSuffix(s.Ctx, "_flush") && o.Kind == "ok" {
			// the victim's own content-preserving rewrite touches the raw entries (mod times): Dump() decides
			changed = o.DumpChanged
		}
		executed := o.Stage == "run" && o.Kind != "typecheck"
		switch {
		case o.Kind == "typecheck":
			cnt["rejected_at_typecheck"]++
			mbt.Emit(map[string]any{"kind": "rejected", "shape": s.id(), "stage": o.Stage, "log": o.Log})
		case o.Stage == "deploy":
			cnt["rejected_at_deploy"]++
			mbt.Emit(map[string]any{"kind": "rejected", "shape": s.id(), "stage": o.Stage, "log": o.Log})
		case o.Kind == "ok":
			cnt["tx_ok"]++
		default:
			cnt["tx_failed"]++
		}
		if executed && s.Conv != "" && s.Conv != "none" {
			cnt["conv_executed"]++
			if s.Conv == "T" || s.Conv == "L" {
				cnt["conv_library_executed"]++ // re-typed as a library type with mutating methods
				if pathTyp[s.Path] == "sliceByte" && s.Conv == "L" {
					cnt["conv_p_method_on_victim_bytes_executed"]++
				}
				if pathTyp[s.Path] == "sliceInt" || pathTyp[s.Path] == "sliceStr" || pathTyp[s.Path] == "sliceFl" || pathTyp[s.Path] == "namedInts" {
					cnt["conv_library_slice_executed"]++
				}
			}
		}
		if executed {
			cnt["executed"]++
			cnt["executed_"+s.Cls]++
			perCtx[s.Ctx]++
			if !seen[s.id()] {
				seen[s.id()] = true
				cnt["distinct_executed"]++
			}
		}
		caseObj := map[string]any{"shape": s, "program": p, "outcome": map[string]any{"tx": o.Kind, "stage": o.Stage, "dump_changed": o.DumpChanged, "raw_diff": trim(o.RawDiff), "log": o.Log}}
		switch s.Cls {
		case "forbid":
			// constructing a victim-declared value / persisting a realm value in attacker code: the tx must fail
			if o.Kind == "ok" && executed {
				key := "C07:forbidden-operation-succeeded:" + s.Ctx + ":" + s.Wk
				what := fmt.Sprintf("shape %s: the transaction succeeded although attacker-declared code (%s) %s", s.id(), s.Wcode,
					map[bool]string{true: "persisted a realm value", false: "constructed a value of a victim-declared type"}[s.Path == "pcur"])
				if s.MutEph && !s.MutDoc {
					key = "C07:foreign-write:ephemeral-package-funcdecl-runs-with-callers-realm"
					what = "a top-level function declared in the MsgRun (/e/) package, invoked by victim-authorised code as a callback, ran with the victim's storage context (borrow rule #1 is not applied to ephemeral realms); " + what
				}
				mbt.Mismatch(key, what, caseObj)
				cnt["violations"]++
			} else if executed {
				cnt["forbid_refused"]++
			}
			if changed && o.Kind != "ok" {
				mbt.Mismatch("C07:failed-tx-left-victim-changes:"+s.Ctx+":"+s.Wk, "a failed transaction changed the victim's state: "+s.id(), caseObj)
				cnt["violations"]++
			}
		case "verdict":
			if changed {
				// reproduce once on fresh victim objects (soundness rule 4)
				r.reset()
				r.k++
				p2, _ := gen(s, r.k)
				o2 := r.exec(p2)
				again := o2.DumpChanged || len(o2.RawDiff) > 0
				if strings.HasSuffix(s.Ctx, "_flush") && o2.Kind == "ok" {
					again = o2.DumpChanged
				}
				if !again {
					cnt["flaky"]++
					mbt.Emit(map[string]any{"kind": "flaky", "shape": s.id()})
				} else {
					key := "C07:foreign-write:" + s.Ctx + ":" + s.Wk
					what := fmt.Sprintf("shape %s: every write statement is in attacker-declared code (%s), yet the victim realm's persisted state changed (tx %s, Dump() changed=%v, %d raw oid entries changed)", s.id(), s.Wcode, o.Kind, o.DumpChanged, len(o.RawDiff))
					if s.Conv != "" && s.Conv != "none" {
						what = fmt.Sprintf("shape %s: attacker-declared code re-typed a victim-owned value (conversion target %q) and wrote through the converted value (last frame: code %s); the victim realm's persisted state changed (tx %s, Dump() changed=%v, %d raw oid entries changed)", s.id(), s.Conv, s.Wcode, o.Kind, o.DumpChanged, len(o.RawDiff))
					}
					if s.MutEph && !s.MutDoc && o.Kind == "ok" {
						key = "C07:foreign-write:ephemeral-package-funcdecl-runs-with-callers-realm"
						what = "a top-level function declared in the MsgRun (/e/) package, invoked by victim-authorised code as a callback, ran with the victim's storage context and wrote the victim's persisted objects (borrow rule #1 is not applied to ephemeral realms); " + what
					} else if !o.DumpChanged {
						key = "C07:foreign-write-raw-only:" + s.Ctx + ":" + s.Wk
					}
					if o.Kind != "ok" {
						key = "C07:failed-tx-left-victim-changes:" + s.Ctx + ":" + s.Wk
					}
					mbt.Mismatch(key, what, caseObj)
					cnt["violations"]++
				}
			} else if o.Kind == "ok" && executed {
				cnt["verdict_ok_unchanged"]++
				if s.Wk == "byString" || s.Wk == "ruString" {
					cnt["legal_string_conversion_ok"]++
				}
				mbt.Emit(map[string]any{"kind": "benign", "shape": s.id()})
			} else if executed {
				cnt["verdict_blocked"]++
			}
		default: // control | open: must mutate
			if o.Kind == "ok" && o.DumpChanged {
				cnt[s.Cls+"_mutated"]++
				if s.Path == "swapown" {
					cnt["ctl_swapown_mutated"]++ // the victim itself writes through a converted slice via a library method
				}
			} else if executed {
				cnt[s.Cls+"_inert"]++
				mbt.Emit(map[string]any{"kind": "inert", "shape": s.id(), "tx": o.Kind, "log": o.Log})
			}
		}
		if samples < 3 && executed && (s.Cls != "verdict" || samples < 2) {
			samples++
			mbt.Sample(caseObj)
		}
		if changed {
			r.reset()
		}
	}
	sum := map[string]any{"contexts_executed": len(perCtx), "blocks": r.w.blocks, "resets": r.resets}
	for k, v := range cnt {
		sum[k] = v
	}
	mbt.Summary(sum)
}

// gen mode: print the program of one shape ("ctx,path,wk,inline|alias"), for hand validation
func genMode(f *mbt.Flags) {
	p := strings.Split(f.Extra, ",")
	if len(p) < 3 {
		mbt.Die("-x ctx,path,wk[,inline]")
	}
	s := shape{Ctx: p[0], Path: p[1], Wk: p[2], Inl: len(p) > 3 && p[3] == "inline"}
	pr, err := gen(s, 1)
	if err != nil {
		mbt.Die("%v", err)
	}
	for _, pk := range pr.Pkgs {
		for n, b := range pk.Files {
			fmt.Printf("// ---- %s/%s\n%s\n", pk.Path, n, b)
		}
	}
	fmt.Printf("// ---- MsgRun main.gno\n%s\n", pr.Script)
}

func main() {
	f := mbt.ParseFlags()
	switch f.Mode {
	case "probe":
		probe(f)
	case "shapes", "replay":
		runShapes(f)
	case "gen":
		genMode(f)
	default:
		mbt.Die("unknown mode %q", f.Mode)
	}
	mbt.Flush()
}
