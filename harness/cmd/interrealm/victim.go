package main

// Gno sources of the fixed universe of C07: the /p/ library L (gno.land/p/verif/lib) and the
// victim realm R (gno.land/r/verif/victim). The victim's exported code performs NO write on the
// attack paths; the few writers it has (Bump, GetSetter, GetBumper, Zero, Reset) are used by
// negative controls only.

const libPath = "gno.land/p/verif/lib"
const victimPath = "gno.land/r/verif/victim"

const libSrc = `package lib

type Box struct {
	V    int
	Tags []string
	Kids map[string]int
}

func NewBox(v int) *Box {
	return &Box{V: v, Tags: []string{"t0", "t1"}, Kids: map[string]int{"k": 1}}
}

func (b *Box) Set(v int)           { b.V = v }
func (b *Box) Inc()                { b.V++ }
func (b *Box) Tag(i int, s string) { b.Tags[i] = s }
func (b *Box) Put(k string, v int) { b.Kids[k] = v }
func (b *Box) Get() int            { return b.V }
func (b *Box) Apply(fn func(*Box)) { fn(b) }

func Each(cb func()) { cb() }

// named types with mutating methods that the victim never applies to its own data: targets of
// the "convert, then mutate through the converted value" attacks
type Ints []int

func (s Ints) Set(i, v int)  { s[i] = v }
func (s Ints) Swap(i, j int) { s[i], s[j] = s[j], s[i] }

type IntMap map[string]int

func (m IntMap) Put(k string, v int) { m[k] = v }
func (m IntMap) Del(k string)        { delete(m, k) }

type Arr3 [3]int

func (a *Arr3) Set(i, v int) { a[i] = v }

type Bytes []byte

func (b Bytes) Set(i int, v byte) { b[i] = v }
func (b Bytes) Swap(i, j int)     { b[i], b[j] = b[j], b[i] }
func (b *Bytes) SetP(i int, v byte) { (*b)[i] = v }

type Runes []rune

func (r Runes) Set(i int, v rune) { r[i] = v }
func (r Runes) Swap(i, j int)     { r[i], r[j] = r[j], r[i] }
func (r *Runes) SetP(i int, v rune) { (*r)[i] = v }

type Twin struct {
	V    int
	Tags []string
	Kids map[string]int
}

func (t *Twin) SetV(v int)          { t.V = v }
func (t Twin) Tag(i int, s string)  { t.Tags[i] = s }

func Itoa(n int) string {
	if n == 0 {
		return "0"
	}
	neg := n < 0
	if neg {
		n = -n
	}
	s := ""
	for n > 0 {
		s = string(rune('0'+n%10)) + s
		n /= 10
	}
	if neg {
		s = "-" + s
	}
	return s
}

func (b *Box) String() string {
	if b == nil {
		return "box(nil)"
	}
	s := "box(" + Itoa(b.V) + ";"
	for _, t := range b.Tags {
		s += t + ","
	}
	s += ";"
	for k, v := range b.Kids {
		s += k + "=" + Itoa(v) + ","
	}
	return s + ")"
}
`

const victimSrc = `package victim

import (
	"sort"

	"gno.land/p/verif/lib"
)

type Inner struct {
	N    int
	Tags []string
}

type T struct {
	N   int
	S   string
	In  Inner
	P   *Inner
	Arr [3]int
	Sl  []int
	M   map[string]int
	B   *lib.Box
	Any any
}

type Doer interface{ Do() }

type Scores []int

var (
	G    T
	GP   *T
	GI   int
	GS   []int
	GM   map[string]int
	GArr [3]int
	GB   *lib.Box
	GAny any
	GStr    []string
	GFl     []float64
	GScores Scores
	GBytes  []byte
	GRunes  []rune
	priv *T
	ptrs []*T
	resets int
)

func mk(seed int) *T {
	back := []int{seed + 3, seed + 1, seed + 2, seed + 4}
	return &T{
		N:   seed,
		S:   "s" + lib.Itoa(seed),
		In:  Inner{N: seed + 10, Tags: []string{"a", "b"}},
		P:   &Inner{N: seed + 20, Tags: []string{"c", "d"}},
		Arr: [3]int{seed, seed, seed},
		Sl:  back[:3],
		M:   map[string]int{"a": seed, "b": seed + 1},
		B:   lib.NewBox(seed + 30),
		Any: &Inner{N: seed + 40, Tags: []string{"e"}},
	}
}

func reset() {
	G = *mk(100)
	GP = mk(200)
	GI = 7
	gs := []int{3, 1, 2, 4}
	GS = gs[:3]
	GM = map[string]int{"a": 1, "b": 2}
	GArr = [3]int{4, 5, 6}
	GB = lib.NewBox(8)
	GAny = mk(300)
	GStr = []string{"c", "a", "b"}
	GFl = []float64{3.5, 1.5, 2.5}
	GScores = Scores{30, 10, 20}
	GBytes = []byte("hello")
	GRunes = []rune("world")
	priv = mk(400)
	ptrs = []*T{mk(500), mk(600)}
}

func init() { reset() }

// ---- read-only accessors (the attack surface)
func GetT() *T                 { return priv }
func GetVal() T                { return *priv }
func GetInner() *Inner         { return priv.P }
func GetSlice() []int          { return priv.Sl }
func GetMap() map[string]int   { return priv.M }
func GetArrPtr() *[3]int       { return &priv.Arr }
func GetElemPtr() *int         { return &priv.Sl[1] }
func GetFieldPtr() *int        { return &priv.N }
func GetIface() any            { return priv }
func GetIfaceSlice() any       { return priv.Sl }
func GetIfaceMap() any         { return priv.M }
func GetBox() *lib.Box         { return priv.B }
func GetPtrs() []*T            { return ptrs }
func GetStrs() []string        { return GStr }
func GetFloats() []float64     { return GFl }
func GetScores() Scores        { return GScores }
func GetBytes() []byte         { return GBytes }
func GetRunes() []rune         { return GRunes }
func (t *T) Peek() int         { return t.N }
func (t *T) Self() *T          { return t }
func (t *T) Slice() []int      { return t.Sl }

// ---- call-backs into caller supplied code (no write by the victim itself)
func Visit(cur realm, cb func())                { cb() }
func VisitNC(cb func())                         { cb() }
func VisitT(cur realm, cb func(*T))             { cb(priv) }
func VisitSlice(cur realm, cb func([]int))      { cb(priv.Sl) }
func VisitBox(cur realm, cb func(*lib.Box))     { cb(priv.B) }
func VisitDoer(cur realm, d Doer)               { d.Do() }

// ---- the victim's own writers: used by negative controls only
func (t *T) Bump()           { t.N++ }
func GetSetter() func(int)   { return func(v int) { priv.N = v } }
func GetBumper() func()      { return priv.Bump }
func SwapOwn()               { sort.IntSlice(priv.Sl).Swap(0, 1) }
func Zero(cur realm, s []int) {
	for i := range s {
		s[i] = 0
	}
}
func Reset(cur realm) { reset(); resets++ }

// TouchNC rewrites every field of every object with its OWN current value: a content-preserving
// write by the victim itself. The "_flush" contexts call it after the attack, so that an in-memory
// change made by attacker code (which a healthy VM never lets happen) would be saved with the object.
func touchBox(b *lib.Box) {
	b.V = b.V
	for i := range b.Tags {
		b.Tags[i] = b.Tags[i]
	}
	for k, x := range b.Kids {
		b.Kids[k] = x
	}
}

func touchInner(i *Inner) {
	i.N = i.N
	for k := range i.Tags {
		i.Tags[k] = i.Tags[k]
	}
}

func touchT(t *T) {
	t.N = t.N
	t.S = t.S
	touchInner(&t.In)
	if t.P != nil {
		touchInner(t.P)
	}
	for i := range t.Arr {
		t.Arr[i] = t.Arr[i]
	}
	full := t.Sl[:cap(t.Sl)]
	for i := range full {
		full[i] = full[i]
	}
	for k, x := range t.M {
		t.M[k] = x
	}
	touchBox(t.B)
	if in, ok := t.Any.(*Inner); ok {
		touchInner(in)
	}
}

func TouchNC() {
	touchT(&G)
	touchT(GP)
	GI = GI
	full := GS[:cap(GS)]
	for i := range full {
		full[i] = full[i]
	}
	for k, x := range GM {
		GM[k] = x
	}
	for i := range GArr {
		GArr[i] = GArr[i]
	}
	touchBox(GB)
	for i := range GStr {
		GStr[i] = GStr[i]
	}
	for i := range GFl {
		GFl[i] = GFl[i]
	}
	for i := range GScores {
		GScores[i] = GScores[i]
	}
	for i := range GBytes {
		GBytes[i] = GBytes[i]
	}
	for i := range GRunes {
		GRunes[i] = GRunes[i]
	}
	if t, ok := GAny.(*T); ok {
		touchT(t)
	}
	touchT(priv)
	for _, p := range ptrs {
		touchT(p)
	}
}

// ---- full dump of the persisted state (every field on every path)
func dumpInts(s []int) string {
	r := "["
	for _, v := range s {
		r += lib.Itoa(v) + ","
	}
	return r + "]"
}

func dumpStrs(s []string) string {
	r := "["
	for _, v := range s {
		r += v + ","
	}
	return r + "]"
}

func dumpMap(m map[string]int) string {
	r := "{"
	for k, v := range m {
		r += k + "=" + lib.Itoa(v) + ","
	}
	return r + "}"
}

func dumpInner(i *Inner) string {
	if i == nil {
		return "inner(nil)"
	}
	return "inner(" + lib.Itoa(i.N) + dumpStrs(i.Tags) + ")"
}

func dumpT(t *T) string {
	if t == nil {
		return "T(nil)"
	}
	s := "T(" + lib.Itoa(t.N) + "," + t.S + "," + dumpInner(&t.In) + "," + dumpInner(t.P) + ","
	s += dumpInts(t.Arr[:]) + "," + dumpInts(t.Sl) + "+" + dumpInts(t.Sl[:cap(t.Sl)]) + "," + dumpMap(t.M) + "," + t.B.String() + ","
	if in, ok := t.Any.(*Inner); ok {
		s += dumpInner(in)
	} else {
		s += "?"
	}
	return s + ")"
}

func Dump() string {
	s := "G=" + dumpT(&G) + "\nGP=" + dumpT(GP) + "\nGI=" + lib.Itoa(GI)
	s += "\nGS=" + dumpInts(GS) + "+" + dumpInts(GS[:cap(GS)]) + "\nGM=" + dumpMap(GM) + "\nGArr=" + dumpInts(GArr[:]) + "\nGB=" + GB.String()
	if t, ok := GAny.(*T); ok {
		s += "\nGAny=" + dumpT(t)
	} else {
		s += "\nGAny=?"
	}
	s += "\nGStr=" + dumpStrs(GStr) + "\nGFl=["
	for _, f := range GFl {
		s += lib.Itoa(int(f*10)) + ","
	}
	s += "]\nGScores=" + dumpInts([]int(GScores)) + "\nGBytes=" + string(GBytes) + "\nGRunes=" + string(GRunes)
	s += "\npriv=" + dumpT(priv)
	for i, p := range ptrs {
		s += "\nptrs" + lib.Itoa(i) + "=" + dumpT(p)
	}
	return s + "\nresets=" + lib.Itoa(resets)
}

func Render(path string) string { return Dump() }
`
