package main

// Gno templates for the shapes enumerated by spec/MCInterrealm.tla: context x access path x write
// kind (x inline/alias).  Every name here is a name of the MC module's tables.

import (
	"fmt"
	"regexp"
	"sort"
	"strings"

	"verifharness/appenv"
)

type shape struct {
	Ctx    string `json:"ctx"`
	Path   string `json:"path"`
	Wk     string `json:"wk"`
	Inl    bool   `json:"inl"`
	Cls    string `json:"cls"`
	MutDoc bool   `json:"mutDoc"`
	MutEph bool   `json:"mutEph"`
	Wcode  string `json:"wcode"`
	Wst    string `json:"wst"`
	Conv   string `json:"conv"`   // "none" | target of the conversion the write kind performs first
	MutConv bool  `json:"mutConv"` // the model's outcome if the conversion guard were missing
}

func (s shape) id() string {
	m := "alias"
	if s.Inl {
		m = "inline"
	}
	return s.Ctx + "/" + s.Path + "/" + s.Wk + "/" + m
}

type prog struct {
	Pkgs   []appenv.Pkg `json:"pkgs"`
	Script string       `json:"script"`
}

var pathExpr = map[string]string{
	"getT": "victim.GetT()", "gp": "victim.GP", "addrG": "&victim.G", "ifaceT": "victim.GetIface().(*victim.T)",
	"ganyT": "victim.GAny.(*victim.T)", "ptrs0": "victim.GetPtrs()[0]", "selfT": "victim.GetT().Self()",
	"valT": "victim.GetVal()", "gval": "victim.G",
	"getSlice": "victim.GetSlice()", "gs": "victim.GS", "fieldSl": "victim.GetT().Sl", "methSl": "victim.GetT().Slice()",
	"ifaceSl": "victim.GetIfaceSlice().([]int)", "valSl": "victim.GetVal().Sl", "arrSl": "victim.GetArrPtr()[:]",
	"getMap": "victim.GetMap()", "gm": "victim.GM", "fieldM": "victim.GetT().M", "ifaceM": "victim.GetIfaceMap().(map[string]int)", "valM": "victim.GetVal().M",
	"fieldPtr": "victim.GetFieldPtr()", "elemPtr": "victim.GetElemPtr()", "addrField": "&victim.GetT().N", "addrElem": "&victim.GetSlice()[1]",
	"addrGI": "&victim.GI", "addrArrEl": "&victim.GetT().Arr[1]",
	"arrPtr": "victim.GetArrPtr()", "addrGArr": "&victim.GArr",
	"getBox": "victim.GetBox()", "gb": "victim.GB", "fieldB": "victim.GetT().B",
	"gi": "victim.GI",
	"getStrs": "victim.GetStrs()", "gstr": "victim.GStr", "getFloats": "victim.GetFloats()", "gfl": "victim.GFl",
	"getScores": "victim.GetScores()", "gscores": "victim.GScores",
	"getBytes": "victim.GetBytes()", "gbytes": "victim.GBytes", "getRunes": "victim.GetRunes()", "grunes": "victim.GRunes",
}

var pathTyp = map[string]string{}

func init() {
	set := func(t string, names ...string) {
		for _, n := range names {
			pathTyp[n] = t
		}
	}
	set("ptrT", "getT", "gp", "addrG", "ifaceT", "ganyT", "ptrs0", "selfT", "rangeT", "cbT")
	set("valT", "valT", "gval")
	set("sliceInt", "getSlice", "gs", "fieldSl", "methSl", "ifaceSl", "valSl", "arrSl", "cbSlice")
	set("mapSI", "getMap", "gm", "fieldM", "ifaceM", "valM")
	set("ptrInt", "fieldPtr", "elemPtr", "addrField", "addrElem", "addrGI", "addrArrEl")
	set("ptrArr", "arrPtr", "addrGArr")
	set("ptrBox", "getBox", "gb", "fieldB", "cbBox")
	set("intv", "gi")
	set("ctl", "setter", "bumper", "bump", "zero", "swapown")
	set("sliceStr", "getStrs", "gstr")
	set("sliceFl", "getFloats", "gfl")
	set("namedInts", "getScores", "gscores")
	set("sliceByte", "getBytes", "gbytes")
	set("sliceRune", "getRunes", "grunes")
	set("ctor", "ctor")
	set("pcur", "pcur")
}

var typeName = map[string]string{
	"ptrT": "*victim.T", "valT": "victim.T", "sliceInt": "[]int", "mapSI": "map[string]int", "ptrInt": "*int", "ptrArr": "*[3]int", "ptrBox": "*lib.Box", "intv": "int", "sliceStr": "[]string", "sliceFl": "[]float64", "namedInts": "victim.Scores", "sliceByte": "[]byte", "sliceRune": "[]rune",
}

// write statement(s) on handle expression h with the fresh value v
func writeStmt(wk, h string, v int) (string, error) {
	V := fmt.Sprint(v)
	S := `"x` + V + `"`
	t := map[string]string{
		"fN": "@H.N = @V", "fS": "@H.S = @S", "fInN": "@H.In.N = @V", "fPN": "@H.P.N = @V", "fArr": "@H.Arr[0] = @V", "fSl": "@H.Sl[0] = @V",
		"fMins": "@H.M[`z`] = @V", "fMdel": "delete(@H.M, `a`)", "fInc": "@H.N++", "fOp": "@H.N += @V", "fWhole": "*@H = *victim.GetPtrs()[1]",
		"fAny": "@H.Any = nil", "fP": "@H.P = nil", "fSwap": "@H.N, @H.In.N = @H.In.N, @H.N+@V", "fApp": "@H.Sl = append(@H.Sl, @V)",
		"fBoxV": "@H.B.V = @V", "fTags": "@H.In.Tags[0] = @S", "tBoxSet": "@H.B.Set(@V)",
		"vN": "@H.N = @V", "vSl": "@H.Sl[0] = @V", "vM": "@H.M[`z`] = @V", "vPN": "@H.P.N = @V", "vBoxV": "@H.B.V = @V", "vArr": "@H.Arr[0] = @V",
		"sIdx": "@H[0] = @V", "sInc": "@H[1]++", "sAppAlias": "_ = append(@H[:1], @V)", "sAppSpare": "_ = append(@H, @V)", "sCopy": "copy(@H, []int{@V, @V})",
		"sRange": "for i := range @H {\n\t@H[i] = @V\n}", "sReslice": "@H[1:][0] = @V", "sElemPtr": "p := &@H[0]\n*p = @V", "sSwap": "@H[0], @H[1] = @H[1], @H[0]+@V",
		"mIns": "@H[`z`] = @V", "mUpd": "@H[`a`] = @V", "mDel": "delete(@H, `a`)", "mInc": "@H[`a`]++", "mOp": "@H[`b`] += @V",
		"pStar": "*@H = @V", "pInc": "*@H++", "pOp": "*@H += @V",
		"aIdx": "@H[0] = @V", "aStar": "(*@H)[1] = @V", "aWhole": "*@H = [3]int{@V, @V, @V}", "aSlice": "@H[:][2] = @V", "aRange": "for i := range @H {\n\t@H[i] = @V\n}",
		"bV": "@H.V = @V", "bTags": "@H.Tags[0] = @S", "bKids": "@H.Kids[`z`] = @V", "bDel": "delete(@H.Kids, `k`)", "bWhole": "*@H = lib.Box{V: @V}", "bInc": "@H.V++",
		"boxSet": "@H.Set(@V)", "boxTag": "@H.Tag(0, @S)", "boxPut": "@H.Put(`z`, @V)", "boxMV": "f := @H.Set\nf(@V)", "boxDeferSet": "defer @H.Set(@V)",
		"iSet": "@H = @V", "iInc": "@H++", "iOp": "@H += @V",
		"ssIdx": "@H[0] = @S", "flIdx": "@H[0] = 0.25", "nsIdx": "@H[0] = @V",
		// convert the victim-owned handle to another type, then write through the converted value
		"cvSortSwap": "sort.IntSlice(@H).Swap(0, 1)", "cvSortRev": "sort.Sort(sort.Reverse(sort.IntSlice(@H)))", "cvSortInts": "sort.Ints(@H)",
		"cvLibSet": "lib.Ints(@H).Set(0, @V)", "cvLibSwap": "lib.Ints(@H).Swap(0, 1)", "cvLibIdx": "lib.Ints(@H)[0] = @V",
		"cvLibMapPut": "lib.IntMap(@H).Put(`z`, @V)", "cvLibMapDel": "lib.IntMap(@H).Del(`a`)",
		"cvLibArrSet": "(*lib.Arr3)(@H).Set(0, @V)", "cvLibArrIdx": "(*lib.Arr3)(@H)[0] = @V",
		"cvLibTwinSet": "(*lib.Twin)(@H).SetV(@V)", "cvLibTwinField": "(*lib.Twin)(@H).V = @V", "cvLibTwinVal": "lib.Twin(*@H).Tag(0, @S)",
		"cvStrSwap": "sort.StringSlice(@H).Swap(0, 1)", "cvStrSort": "sort.Strings(@H)",
		"cvFlSwap": "sort.Float64Slice(@H).Swap(0, 1)", "cvFlSort": "sort.Float64s(@H)",
		"cvNamedSortSwap": "sort.IntSlice(@H).Swap(0, 1)",
		"cvOwnSet": "myInts(@H).Set(0, @V)", "cvOwnSetP": "x := myInts(@H)\nx.SetP(0, @V)", "cvOwnIdx": "myInts(@H)[0] = @V", "cvOwnSort": "sort.Sort(myInts(@H))",
		"cvOwnMapPut": "myMap(@H).Put(`z`, @V)", "cvOwnMapIdx": "myMap(@H)[`z`] = @V",
		"cvOwnArrSet": "(*myArr)(@H).Set(0, @V)", "cvOwnTwinSet": "(*myTwin)(@H).SetV(@V)",
		"byIdx": "@H[0] = 'X'", "byString": "_ = string(@H)", "ruIdx": "@H[0] = 'X'", "ruString": "_ = string(@H)",
		"cvLibBytesSet": "lib.Bytes(@H).Set(0, 'X')", "cvLibBytesSwap": "lib.Bytes(@H).Swap(0, 1)", "cvLibBytesSetP": "x := lib.Bytes(@H)\nx.SetP(0, 'X')",
		"cvOwnBytesSet": "myBytes(@H).Set(0, 'X')",
		"cvLibRunesSet": "lib.Runes(@H).Set(0, 'X')", "cvLibRunesSwap": "lib.Runes(@H).Swap(0, 1)", "cvLibRunesSetP": "x := lib.Runes(@H)\nx.SetP(0, 'X')",
		"cvOwnRunesSet": "myRunes(@H).Set(0, 'X')",
		"cvUnnamedIdx": "[]int(@H)[0] = @V", "cvUnnamedSort": "sort.Ints([]int(@H))",
		// construction of victim-declared types in attacker code (must fail)
		"cLit": "x := victim.T{N: @V}\n_ = x", "cPtr": "x := &victim.T{N: @V}\n_ = x", "cNew": "x := new(victim.T)\n_ = x",
		"cInner": "x := victim.Inner{N: @V}\n_ = x", "cConv": "x := victim.Inner(struct {\n\tN    int\n\tTags []string\n}{N: @V})\n_ = x",
		// persisting a realm value in the attacker realm's own state (must fail)
		"rVar": "saved = cur", "rPrev": "saved = cur.Previous()", "rField": "sbox.r = cur", "rSlice": "slist = append(slist, cur)",
		"rMap": "smap[`a`] = cur", "rClosure": "sfn = func() string { return cur.PkgPath() }", "rAny": "sany = cur",
	}
	s, ok := t[wk]
	if !ok {
		return "", fmt.Errorf("unknown write kind %q", wk)
	}
	s = strings.ReplaceAll(s, "`", `"`)
	s = strings.ReplaceAll(s, "@H", h)
	s = strings.ReplaceAll(s, "@S", S)
	s = strings.ReplaceAll(s, "@V", V)
	return s, nil
}

func ctlStmt(path string, v int) string {
	switch path {
	case "setter":
		return fmt.Sprintf("victim.GetSetter()(%d)", v)
	case "bumper":
		return "victim.GetBumper()()"
	case "bump":
		return "victim.GetT().Bump()"
	case "zero":
		return "victim.Zero(cross(cur), victim.GetSlice())"
	case "swapown":
		return "victim.SwapOwn()"
	}
	return ""
}

func indent(s string, n int) string {
	if s == "" {
		return ""
	}
	pre := strings.Repeat("\t", n)
	ls := strings.Split(s, "\n")
	for i := range ls {
		if ls[i] != "" {
			ls[i] = pre + ls[i]
		}
	}
	return strings.Join(ls, "\n") + "\n"
}

// types the attacker declares next to its code: same underlying types as the victim's data, mutating methods
const ownDecls = `type myInts []int

func (m myInts) Len() int           { return len(m) }
func (m myInts) Less(i, j int) bool { return m[i] > m[j] }
func (m myInts) Swap(i, j int)      { m[i], m[j] = m[j], m[i] }
func (m myInts) Set(i, v int)       { m[i] = v }
func (m *myInts) SetP(i, v int)     { (*m)[i] = v }

type myMap map[string]int

func (m myMap) Put(k string, v int) { m[k] = v }

type myArr [3]int

func (a *myArr) Set(i, v int) { a[i] = v }

type myTwin struct {
	V    int
	Tags []string
	Kids map[string]int
}

func (t *myTwin) SetV(v int) { t.V = v }

type myBytes []byte

func (b myBytes) Set(i int, v byte) { b[i] = v }

type myRunes []rune

func (r myRunes) Set(i int, v rune) { r[i] = v }

`

var reOwn = regexp.MustCompile(`(^|[^A-Za-z0-9_])my(Ints|Map|Arr|Twin|Bytes|Runes)\b`)
var reSort = regexp.MustCompile(`(^|[^A-Za-z0-9_.])sort\.`)

// file assembles a Gno file: package clause, the imports the body actually mentions, body.
func file(pkgName, body string, extra map[string]string) string {
	if reOwn.MatchString(body) {
		body = ownDecls + body
	}
	var imps []string
	if reSort.MatchString(body) {
		imps = append(imps, "sort")
	}
	if strings.Contains(body, "lib.") {
		imps = append(imps, libPath)
	}
	if strings.Contains(body, "victim.") {
		imps = append(imps, victimPath)
	}
	for name, path := range extra {
		if regexp.MustCompile(`(^|[^A-Za-z0-9_])` + name + `\.`).MatchString(body) {
			imps = append(imps, path)
		}
	}
	sort.Strings(imps)
	s := "package " + pkgName + "\n\n"
	if len(imps) > 0 {
		s += "import (\n"
		for _, i := range imps {
			s += "\t\"" + i + "\"\n"
		}
		s += ")\n\n"
	}
	return s + body
}

func visitFn(path string) string {
	switch path {
	case "cbT":
		return "VisitT"
	case "cbSlice":
		return "VisitSlice"
	case "cbBox":
		return "VisitBox"
	}
	return ""
}

// gen instantiates shape s with the unique number k (package names, written value).
func gen(s shape, k int) (prog, error) {
	v := 1000 + k
	typ := pathTyp[s.Path]
	if typ == "" {
		return prog{}, fmt.Errorf("unknown path %q", s.Path)
	}
	aName, qName := fmt.Sprintf("atk%d", k), fmt.Sprintf("qatk%d", k)
	aPath, qPath := "gno.land/r/verif/"+aName, "gno.land/p/verif/"+qName
	extra := map[string]string{aName: aPath, qName: qPath}

	// handle acquisition and write statement
	var acq, h, w string
	cb := strings.HasPrefix(s.Path, "cb")
	switch {
	case typ == "ctl":
		w = ctlStmt(s.Path, v)
	case typ == "ctor" || typ == "pcur":
		// no handle: the statement itself is the forbidden operation
	case cb:
		h = "h"
	case s.Path == "rangeT":
		acq = "var h *victim.T\nfor _, p := range victim.GetPtrs() {\n\th = p\n}\n_ = h"
		h = "h"
	case s.Inl:
		h = pathExpr[s.Path]
	default:
		acq = "h := " + pathExpr[s.Path] + "\n_ = h"
		h = "h"
	}
	if typ != "ctl" {
		hw := h
		if strings.HasPrefix(s.Ctx, "l_apply") {
			hw = "b"
		}
		var err error
		if w, err = writeStmt(s.Wk, hw, v); err != nil {
			return prog{}, err
		}
	}
	tn := typeName[typ]
	body := func(stmts ...string) string { // function body from statement blocks
		out := ""
		for _, st := range stmts {
			out += indent(st, 1)
		}
		return out
	}
	fn := func(sig string, stmts ...string) string { return "func " + sig + " {\n" + body(stmts...) + "}\n\n" }
	clo := func(params string, inner string) string { return "func(" + params + ") {\n" + indent(inner, 1) + "}" }

	var script, a, q string
	usesA, usesQ := false, false
	flush := ""
	ctxName := s.Ctx
	if strings.HasSuffix(ctxName, "_flush") {
		ctxName = strings.TrimSuffix(ctxName, "_flush")
		flush = "victim.TouchNC()"
	}
	switch ctxName {
	case "s_main":
		script = fn("main(cur realm)", acq, w, flush)
	case "s_fn":
		script = fn("attack()", acq, w) + fn("main(cur realm)", "attack()")
	case "s_defer":
		script = fn("main(cur realm)", acq, "defer "+clo("", w)+"()")
	case "s_clo_Rx":
		script = fn("main(cur realm)", acq, "victim.Visit(cross(cur), "+clo("", w)+")", flush)
	case "s_clo_Rnc":
		script = fn("main(cur realm)", acq, "victim.VisitNC("+clo("", w)+")")
	case "s_fn_Rx":
		script = fn("evil()", acq, w) + fn("main(cur realm)", "victim.Visit(cross(cur), evil)")
	case "s_fn_Rnc":
		script = fn("evil()", acq, w) + fn("main(cur realm)", "victim.VisitNC(evil)")
	case "s_clo_L":
		script = fn("main(cur realm)", acq, "lib.Each("+clo("", w)+")")
	case "a_cross":
		usesA = true
		a = fn("Attack(cur realm)", acq, w)
		if typ == "pcur" {
			a = "type rbox struct{ r realm }\n\nvar (\n\tsaved realm\n\tsbox  rbox\n\tslist []realm\n\tsmap  = map[string]realm{}\n\tsfn   func() string\n\tsany  any\n)\n\n" + a
		}
		script = fn("main(cur realm)", aName+".Attack(cross(cur))", flush)
	case "a_nc":
		usesA = true
		a = fn("AttackNC()", acq, w)
		script = fn("main(cur realm)", aName+".AttackNC()")
	case "a_clo_Rx":
		usesA = true
		a = fn("Attack(cur realm)", acq, "victim.Visit(cross(cur), "+clo("", w)+")")
		script = fn("main(cur realm)", aName+".Attack(cross(cur))")
	case "a_fn_Rx":
		usesA = true
		a = fn("evil()", acq, w) + fn("Attack(cur realm)", "victim.Visit(cross(cur), evil)")
		script = fn("main(cur realm)", aName+".Attack(cross(cur))")
	case "a_defer":
		usesA = true
		a = fn("Attack(cur realm)", acq, "defer "+clo("", w)+"()")
		script = fn("main(cur realm)", aName+".Attack(cross(cur))")
	case "a_method_Rx":
		usesA = true
		a = "type D struct{}\n\n" + fn("(D) Do()", acq, w) + fn("Attack(cur realm)", "victim.VisitDoer(cross(cur), D{})")
		script = fn("main(cur realm)", aName+".Attack(cross(cur))")
	case "q_fn_s":
		usesQ = true
		q = fn("Attack(h "+tn+")", w)
		script = fn("main(cur realm)", acq, qName+".Attack(h)", flush)
	case "q_fn_a":
		usesA, usesQ = true, true
		q = fn("Attack(h "+tn+")", w)
		a = fn("Attack(cur realm)", acq, qName+".Attack(h)")
		script = fn("main(cur realm)", aName+".Attack(cross(cur))")
	case "q_clo_Rx":
		usesQ = true
		q = fn("Make(h "+tn+") func()", "return "+clo("", w))
		script = fn("main(cur realm)", acq, "f := "+qName+".Make(h)", "victim.Visit(cross(cur), f)")
	case "q_method_Rx":
		usesQ = true
		q = "type D struct{ H " + tn + " }\n\n" + fn("(d D) Do()", "h := d.H\n_ = h", w)
		script = fn("main(cur realm)", acq, "victim.VisitDoer(cross(cur), "+qName+".D{H: h})")
	case "q_pmethod_Rx":
		usesQ = true
		q = "type D struct{ H " + tn + " }\n\n" + fn("(d *D) Do()", "h := d.H\n_ = h", w)
		script = fn("main(cur realm)", acq, "victim.VisitDoer(cross(cur), &"+qName+".D{H: h})")
	case "s_method_Rx":
		script = "type D struct{}\n\n" + fn("(D) Do()", acq, w) + fn("main(cur realm)", "victim.VisitDoer(cross(cur), D{})")
	case "s_pmethod_Rx":
		script = "type D struct{ n int }\n\n" + fn("(d *D) Do()", acq, w) + fn("main(cur realm)", "victim.VisitDoer(cross(cur), &D{})")
	case "q_fn_Rcb":
		usesQ = true
		q = fn("Attack(h "+tn+")", w)
		script = fn("main(cur realm)", "victim."+visitFn(s.Path)+"(cross(cur), "+qName+".Attack)")
	case "s_cbparam":
		script = fn("main(cur realm)", "victim."+visitFn(s.Path)+"(cross(cur), "+clo("h "+tn, w)+")")
	case "s_fn_cbparam":
		script = fn("evil(h "+tn+")", w) + fn("main(cur realm)", "victim."+visitFn(s.Path)+"(cross(cur), evil)")
	case "a_cbparam":
		usesA = true
		a = fn("Attack(cur realm)", "victim."+visitFn(s.Path)+"(cross(cur), "+clo("h "+tn, w)+")")
		script = fn("main(cur realm)", aName+".Attack(cross(cur))")
	case "a_fn_cbparam":
		usesA = true
		a = fn("evil(h "+tn+")", w) + fn("Attack(cur realm)", "victim."+visitFn(s.Path)+"(cross(cur), evil)")
		script = fn("main(cur realm)", aName+".Attack(cross(cur))")
	case "l_apply_clo":
		script = fn("main(cur realm)", acq, "h.Apply("+clo("b *lib.Box", w)+")")
	case "l_apply_sfn":
		script = fn("evil(b *lib.Box)", w) + fn("main(cur realm)", acq, "h.Apply(evil)")
	case "l_apply_afn":
		usesA = true
		a = fn("evil(b *lib.Box)", w) + fn("Attack(cur realm)", acq, "h.Apply(evil)")
		script = fn("main(cur realm)", aName+".Attack(cross(cur))")
	case "l_apply_qfn":
		usesQ = true
		q = fn("Attack(b *lib.Box)", w)
		script = fn("main(cur realm)", acq, "h.Apply("+qName+".Attack)")
	default:
		return prog{}, fmt.Errorf("unknown context %q", s.Ctx)
	}
	p := prog{Script: file("main", script, extra)}
	if usesQ {
		p.Pkgs = append(p.Pkgs, appenv.Pkg{Path: qPath, Files: map[string]string{"q.gno": file(qName, q, nil)}})
	}
	if usesA {
		p.Pkgs = append(p.Pkgs, appenv.Pkg{Path: aPath, Files: map[string]string{"a.gno": file(aName, a, extra)}})
	}
	return p, nil
}
