// Driver for C42 (spec/SecretConn.tla): replays TLC behaviours on two real
// conn.MakeSecretConnection endpoints joined by an in-memory duplex whose middle is this driver.
// The driver is the spec's adversary: it cuts what each endpoint writes into the ephemeral-key
// message and sealed frames and delivers / drops / duplicates / swaps / modifies / truncates them,
// substitutes ephemeral keys and, on a leg whose DH secret it shares, seals auth messages itself.
//
// Synchronisation: the handshake runs in goroutines (MakeSecretConnection reads and writes in
// tandem); the driver waits on the events themselves (bytes written, reader parked on an empty
// inbox, handshake returned) under one mutex/condition variable with a watchdog (=> exit 3,
// inconclusive).  After the handshake everything is single-threaded: a Read on an empty inbox
// returns errWouldBlock at once, which is the deterministic form of "this Read would block".
package main

import (
	"bytes"
	"crypto/sha256"
	"encoding/binary"
	"encoding/json"
	"errors"
	"fmt"
	"io"
	"math/rand"
	"runtime"
	"sync"
	"sync/atomic"
	"time"

	"golang.org/x/crypto/chacha20poly1305"
	"golang.org/x/crypto/curve25519"
	"golang.org/x/crypto/hkdf"

	"github.com/gnolang/gno/tm2/pkg/crypto/ed25519"
	"github.com/gnolang/gno/tm2/pkg/p2p/conn"

	"verifharness/mbt"
)

var errWouldBlock = errors.New("verif: read would block (nothing in flight)")

const watchdog = 60 * time.Second

type world struct {
	mu       sync.Mutex
	cond     *sync.Cond
	timedOut bool
	ends     map[string]*end
}

// end is the transport of one endpoint: what it wrote (outb) and what is delivered to it (in).
type end struct {
	w        *world
	name     string
	in       []byte
	inEOF    bool
	closed   bool
	nonblock bool
	waiting  bool // a reader is parked on an empty inbox
	outb     []byte
	cutPos   int

	priv   ed25519.PrivKeyEd25519
	hsDone bool
	sc     *conn.SecretConnection
	hsErr  error

	ephMsg    []byte   // the endpoint's ephemeral-key message as written
	authFrame []byte   // its first sealed frame
	held      [][]byte // frames written, held by the adversary
	stream    []byte   // application bytes this endpoint writes (position-dependent content)
	leg       *leg     // adversary's share of this endpoint's session (after EphSubst adv)
}

func (e *end) Read(p []byte) (int, error) {
	w := e.w
	w.mu.Lock()
	defer w.mu.Unlock()
	parked := false
	defer func() {
		if parked {
			e.waiting = false
		}
	}()
	for {
		if len(e.in) > 0 {
			n := copy(p, e.in)
			e.in = e.in[n:]
			return n, nil
		}
		if e.inEOF {
			return 0, io.EOF
		}
		if e.closed {
			return 0, io.ErrClosedPipe
		}
		if e.nonblock {
			return 0, errWouldBlock
		}
		if w.timedOut {
			return 0, errors.New("verif: watchdog")
		}
		if !parked { // announce once: a reader re-announcing on every wake-up would spin with the other reader
			parked = true
			e.waiting = true
			w.cond.Broadcast()
		}
		w.cond.Wait()
	}
}

func (e *end) Write(p []byte) (int, error) {
	w := e.w
	w.mu.Lock()
	defer w.mu.Unlock()
	if e.closed {
		return 0, io.ErrClosedPipe
	}
	e.outb = append(e.outb, p...)
	w.cond.Broadcast()
	return len(p), nil
}

func (e *end) Close() error {
	w := e.w
	w.mu.Lock()
	defer w.mu.Unlock()
	e.closed = true
	w.cond.Broadcast()
	return nil
}

// wait blocks (mutex held) until pred holds; a watchdog turns a hang into an infrastructure failure.
func (w *world) wait(pred func() bool, what string) {
	for !pred() {
		if w.timedOut {
			mbt.Die("watchdog: %s did not happen within %v", what, watchdog)
		}
		w.cond.Wait()
	}
}

// ---------------------------------------------------------------- adversary cryptography

// leg: the adversary's ephemeral key pair presented to one victim and the session secrets it
// shares with that victim (same derivation as the protocol: HKDF-SHA256 over X25519).
type leg struct {
	priv, pub  [32]byte
	victimSend [32]byte // the victim seals with this key
	victimRecv [32]byte // the victim opens with this key
	chal       [32]byte
}

func newLeg(rng *rand.Rand, victimPub []byte) *leg {
	l := &leg{}
	rng.Read(l.priv[:])
	pub, err := curve25519.X25519(l.priv[:], curve25519.Basepoint)
	if err != nil {
		mbt.Die("x25519: %v", err)
	}
	copy(l.pub[:], pub)
	dh, err := curve25519.X25519(l.priv[:], victimPub)
	if err != nil {
		mbt.Die("x25519: %v", err)
	}
	r := hkdf.New(sha256.New, dh, nil, []byte("TENDERMINT_SECRET_CONNECTION_KEY_AND_CHALLENGE_GEN"))
	var res [96]byte
	if _, err := io.ReadFull(r, res[:]); err != nil {
		mbt.Die("hkdf: %v", err)
	}
	copy(l.chal[:], res[64:96])
	victimIsLeast := bytes.Compare(victimPub, l.pub[:]) <= 0
	if victimIsLeast {
		copy(l.victimRecv[:], res[0:32])
		copy(l.victimSend[:], res[32:64])
	} else {
		copy(l.victimSend[:], res[0:32])
		copy(l.victimRecv[:], res[32:64])
	}
	return l
}

func nonce(n uint64) []byte {
	b := make([]byte, 12)
	binary.LittleEndian.PutUint64(b[4:], n)
	return b
}

// openLeg opens a frame the victim sealed; the adversary holds both HKDF halves and tries the
// protocol's one first.
func (l *leg) openLeg(n uint64, sealed []byte) ([]byte, error) {
	if p, err := open(l.victimSend, n, sealed); err == nil {
		return p, nil
	}
	return open(l.victimRecv, n, sealed)
}

func open(key [32]byte, n uint64, sealed []byte) ([]byte, error) {
	a, err := chacha20poly1305.New(key[:])
	if err != nil {
		return nil, err
	}
	return a.Open(nil, nonce(n), sealed, nil)
}

func seal(key [32]byte, n uint64, plain []byte) []byte {
	a, err := chacha20poly1305.New(key[:])
	if err != nil {
		mbt.Die("aead: %v", err)
	}
	return a.Seal(nil, nonce(n), plain, nil)
}

var lowOrder = [][32]byte{
	{},
	{1},
	{0xe0, 0xeb, 0x7a, 0x7c, 0x3b, 0x41, 0xb8, 0xae, 0x16, 0x56, 0xe3, 0xfa, 0xf1, 0x9f, 0xc4, 0x6a, 0xda, 0x09, 0x8d, 0xeb, 0x9c, 0x32, 0xb1, 0xfd, 0x86, 0x62, 0x05, 0x16, 0x5f, 0x49, 0xb8, 0x00},
	{0x5f, 0x9c, 0x95, 0xbc, 0xa3, 0x50, 0x8c, 0x24, 0xb1, 0xd0, 0xb1, 0x55, 0x9c, 0x83, 0xef, 0x5b, 0x04, 0x44, 0x5c, 0xc4, 0x58, 0x1c, 0x8e, 0x86, 0xd8, 0x22, 0x4e, 0xdd, 0xd0, 0x9f, 0x11, 0x57},
	{0xec, 0xff, 0xff, 0xff, 0xff, 0xff, 0xff, 0xff, 0xff, 0xff, 0xff, 0xff, 0xff, 0xff, 0xff, 0xff, 0xff, 0xff, 0xff, 0xff, 0xff, 0xff, 0xff, 0xff, 0xff, 0xff, 0xff, 0xff, 0xff, 0xff, 0xff, 0x7f},
	{0xed, 0xff, 0xff, 0xff, 0xff, 0xff, 0xff, 0xff, 0xff, 0xff, 0xff, 0xff, 0xff, 0xff, 0xff, 0xff, 0xff, 0xff, 0xff, 0xff, 0xff, 0xff, 0xff, 0xff, 0xff, 0xff, 0xff, 0xff, 0xff, 0xff, 0xff, 0x7f},
	{0xee, 0xff, 0xff, 0xff, 0xff, 0xff, 0xff, 0xff, 0xff, 0xff, 0xff, 0xff, 0xff, 0xff, 0xff, 0xff, 0xff, 0xff, 0xff, 0xff, 0xff, 0xff, 0xff, 0xff, 0xff, 0xff, 0xff, 0xff, 0xff, 0xff, 0xff, 0x7f},
}

// ---------------------------------------------------------------- one replay

var (
	privA = ed25519.GenPrivKeyFromSecret([]byte("verif-c42-A"))
	privB = ed25519.GenPrivKeyFromSecret([]byte("verif-c42-B"))
	privM = ed25519.GenPrivKeyFromSecret([]byte("verif-c42-M"))
)

func pubName(pk ed25519.PubKeyEd25519) string {
	switch {
	case pk.Equals(privA.PubKey()):
		return "A"
	case pk.Equals(privB.PubKey()):
		return "B"
	case pk.Equals(privM.PubKey()):
		return "M"
	}
	return "?"
}

type run struct {
	w         *world
	a, b      *end
	rng       *rand.Rand
	frameSize int
	modPos    int // byte position for Modify (-1: from rng)
	drift     string
	wd        *time.Timer
}

func (r *run) end(n string) *end {
	if n == "a" {
		return r.a
	}
	return r.b
}

func (r *run) peer(e *end) *end {
	if e == r.a {
		return r.b
	}
	return r.a
}

func newRun(seed int64, modPos int) *run {
	w := &world{}
	w.cond = sync.NewCond(&w.mu)
	r := &run{w: w, rng: rand.New(rand.NewSource(seed)), modPos: modPos}
	r.a = &end{w: w, name: "a", priv: privA}
	r.b = &end{w: w, name: "b", priv: privB}
	for i, e := range []*end{r.a, r.b} {
		e.stream = make([]byte, 1<<14)
		rand.New(rand.NewSource(seed*2 + int64(i) + 1000003)).Read(e.stream)
	}
	r.wd = time.AfterFunc(watchdog, func() {
		w.mu.Lock()
		w.timedOut = true
		w.cond.Broadcast()
		w.mu.Unlock()
	})
	for _, e := range []*end{r.a, r.b} {
		e := e
		go func() {
			var sc *conn.SecretConnection
			var err error
			if p, val, _ := mbt.Guard(func() { sc, err = conn.MakeSecretConnection(e, e.priv) }); p {
				err = fmt.Errorf("PANIC: %v", val)
			}
			w.mu.Lock()
			e.hsDone, e.sc, e.hsErr = true, sc, err
			if err == nil {
				e.nonblock = true
			}
			w.cond.Broadcast()
			w.mu.Unlock()
		}()
	}
	// Init of the spec: both endpoints have written their ephemeral-key message
	w.mu.Lock()
	w.wait(func() bool { return (r.a.waiting || r.a.hsDone) && (r.b.waiting || r.b.hsDone) && len(r.a.outb) > 0 && len(r.b.outb) > 0 },
		"both endpoints write their ephemeral key")
	for _, e := range []*end{r.a, r.b} {
		l, n := binary.Uvarint(e.outb)
		if n <= 0 || int(l)+n != len(e.outb) || l < 32 {
			mbt.Die("ephemeral-key message of %s is not one length-prefixed message with a 32-byte key (%d bytes)", e.name, len(e.outb))
		}
		e.ephMsg = append([]byte(nil), e.outb...)
		e.cutPos = len(e.outb)
	}
	w.mu.Unlock()
	return r
}

// finish releases everything: closes both transports and waits for the handshake goroutines.
func (r *run) finish() {
	w := r.w
	w.mu.Lock()
	r.a.closed, r.b.closed = true, true
	w.cond.Broadcast()
	w.wait(func() bool { return r.a.hsDone && r.b.hsDone }, "handshake goroutines return after close")
	w.mu.Unlock()
	r.wd.Stop()
}

func ephKeyOf(msg []byte) []byte { return msg[len(msg)-32:] }

// cut splits what the endpoints wrote since the last step into sealed frames (mutex held).
func (r *run) cut() {
	for _, e := range []*end{r.a, r.b} {
		n := len(e.outb) - e.cutPos
		if n == 0 {
			continue
		}
		if r.frameSize == 0 {
			r.frameSize = n // the first thing after the ephemeral key is exactly one sealed frame (the auth message)
		}
		if n%r.frameSize != 0 {
			mbt.Die("endpoint %s wrote %d bytes, not a multiple of the sealed frame size %d: framing differs from the model", e.name, n, r.frameSize)
		}
		for ; e.cutPos < len(e.outb); e.cutPos += r.frameSize {
			f := append([]byte(nil), e.outb[e.cutPos:e.cutPos+r.frameSize]...)
			if e.authFrame == nil {
				e.authFrame = f
			}
			e.held = append(e.held, f)
		}
	}
}

func (r *run) project() map[string]any {
	ph, rpk, nout := map[string]string{}, map[string]string{}, map[string]int{}
	for _, e := range []*end{r.a, r.b} {
		switch {
		case e.hsDone && e.hsErr == nil:
			ph[e.name] = "open"
			rpk[e.name] = pubName(e.sc.RemotePubKey())
		case e.hsDone:
			ph[e.name] = "failed"
			rpk[e.name] = "none"
		case e.authFrame != nil:
			ph[e.name] = "auth"
			rpk[e.name] = "none"
		default:
			ph[e.name] = "eph"
			rpk[e.name] = "none"
		}
		nout[e.name] = len(e.held)
	}
	return map[string]any{"ph": ph, "rpk": rpk, "nout": nout}
}

// ephArrive feeds an ephemeral-key message to e and waits until e has reacted: the handshake
// returned, or e wrote its auth frame and its reader is parked again.
func (r *run) ephArrive(e *end, msg []byte) {
	w := r.w
	base := len(e.outb)
	e.in = append(e.in, msg...)
	w.cond.Broadcast()
	w.wait(func() bool { return e.hsDone || (e.waiting && len(e.in) == 0 && len(e.outb) > base) },
		"endpoint "+e.name+" reacts to the ephemeral key")
}

// arrive feeds a sealed frame to dst; a handshaking endpoint consumes it at once.
func (r *run) arrive(dst *end, frame []byte) {
	w := r.w
	hs := !dst.hsDone
	dst.in = append(dst.in, frame...)
	w.cond.Broadcast()
	if hs {
		// either MakeSecretConnection returns, or it consumed the frame and its reader is parked on an
		// empty inbox again: then it is definitely still handshaking (the projection will say so)
		w.wait(func() bool { return dst.hsDone || (dst.waiting && len(dst.in) == 0) },
			"endpoint "+dst.name+" reacts to the frame that arrived during its handshake")
	}
}

func (r *run) modified(f []byte) []byte {
	g := append([]byte(nil), f...)
	pos := r.modPos
	if pos < 0 || pos >= len(g) {
		pos = r.rng.Intn(len(g))
	}
	g[pos] ^= byte(1 << uint(r.rng.Intn(8)))
	return g
}

// advAuth builds the adversary's auth frame for dst (the adversary shares dst's session keys).
// An error means the driver's adversary could not do what the model's adversary can (the tree's
// key schedule / message layout is not the one the driver re-implements): inconclusive, never a verdict.
func (r *run) advAuth(dst *end, m string) ([]byte, error) {
	p := r.peer(dst)
	if dst.leg == nil {
		return nil, fmt.Errorf("AdvAuth towards %s without a shared leg", dst.name)
	}
	tmpl, err := dst.leg.openLeg(0, dst.authFrame)
	if err != nil {
		return nil, fmt.Errorf("adversary cannot open the auth frame of %s on its own leg: key derivation differs from the driver's (%v)", dst.name, err)
	}
	dpub := dst.priv.PubKey().(ed25519.PubKeyEd25519)
	ko := bytes.Index(tmpl, dpub[:])
	if ko < 0 || len(tmpl) < ko+34+64 || tmpl[ko+32] != 0x12 || tmpl[ko+33] != 64 {
		return nil, fmt.Errorf("auth message layout differs from the driver's expectation")
	}
	so := ko + 34
	var plain []byte
	switch m {
	case "own":
		plain = append([]byte(nil), tmpl...)
		mpub := privM.PubKey().(ed25519.PubKeyEd25519)
		copy(plain[ko:], mpub[:])
		sig, _ := privM.Sign(dst.leg.chal[:])
		copy(plain[so:], sig)
	case "mix":
		plain = append([]byte(nil), tmpl...)
		ppub := p.priv.PubKey().(ed25519.PubKeyEd25519)
		copy(plain[ko:], ppub[:])
		sig, _ := privM.Sign(dst.leg.chal[:])
		copy(plain[so:], sig)
	case "fwd":
		if p.leg == nil || p.authFrame == nil {
			return nil, fmt.Errorf("AdvAuth fwd without the peer's leg")
		}
		plain, err = p.leg.openLeg(0, p.authFrame)
		if err != nil {
			return nil, fmt.Errorf("adversary cannot open the auth frame of %s on its own leg (%v)", p.name, err)
		}
	default:
		mbt.Die("AdvAuth mode %q", m)
	}
	return seal(dst.leg.victimRecv, 0, plain), nil
}

func classify(err error) string {
	switch {
	case err == nil:
		return "ok"
	case errors.Is(err, errWouldBlock):
		return "blocked"
	case errors.Is(err, io.EOF), errors.Is(err, io.ErrUnexpectedEOF):
		return "eof"
	}
	return "err"
}

type opts struct {
	ModAll bool `json:"modall"` // replay every behaviour containing Modify once per byte position
}

var nReads, nBytes, nMod int64

// replay steps two fresh endpoints through one behaviour; returns false after reporting a mismatch.
func replay(beh []mbt.Step, seed int64, modPos int) (ok bool, frameSize int) {
	r := newRun(seed, modPos)
	defer r.finish()
	w := r.w
	kase := func(k int) map[string]any {
		return map[string]any{"steps": beh[:k+1], "seed": seed, "modpos": modPos}
	}
	for k, s := range beh {
		w.mu.Lock()
		switch s.Act() {
		case "EphDeliver":
			e := r.end(s.Str("e"))
			r.ephArrive(e, r.peer(e).ephMsg)
		case "EphSubst":
			e := r.end(s.Str("e"))
			pm := r.peer(e).ephMsg
			msg := append([]byte(nil), pm...)
			switch s.Str("c") {
			case "adv":
				e.leg = newLeg(r.rng, ephKeyOf(e.ephMsg))
				copy(ephKeyOf(msg), e.leg.pub[:])
			case "reflect":
				msg = append([]byte(nil), e.ephMsg...)
			case "unknown":
				ephKeyOf(msg)[0] ^= 1
			case "low":
				lo := lowOrder[r.rng.Intn(len(lowOrder))]
				copy(ephKeyOf(msg), lo[:])
			default:
				mbt.Die("EphSubst choice %q", s.Str("c"))
			}
			r.ephArrive(e, msg)
		case "Deliver", "Dup", "Modify", "Drop", "Swap":
			src := r.end(s.Str("src"))
			dst := r.peer(src)
			if len(src.held) == 0 || (s.Act() == "Swap" && len(src.held) < 2) {
				w.mu.Unlock()
				mbt.Mismatch("C42:Write:frames-missing", fmt.Sprintf("step %d %s: the model holds a frame written by %s, the real endpoint wrote none", k, mbt.JS(s), src.name), kase(k))
				return false, r.frameSize
			}
			switch s.Act() {
			case "Deliver":
				f := src.held[0]
				src.held = src.held[1:]
				r.arrive(dst, f)
			case "Dup":
				r.arrive(dst, src.held[0])
			case "Modify":
				f := r.modified(src.held[0])
				src.held = src.held[1:]
				atomic.AddInt64(&nMod, 1)
				r.arrive(dst, f)
			case "Drop":
				src.held = src.held[1:]
			case "Swap":
				src.held[0], src.held[1] = src.held[1], src.held[0]
			}
		case "Reflect":
			e := r.end(s.Str("e"))
			if len(e.held) == 0 {
				w.mu.Unlock()
				mbt.Mismatch("C42:Write:frames-missing", fmt.Sprintf("step %d %s: the model holds a frame written by %s, the real endpoint wrote none", k, mbt.JS(s), e.name), kase(k))
				return false, r.frameSize
			}
			r.arrive(e, e.held[0])
		case "Trunc":
			dst := r.end(s.Str("dst"))
			src := r.peer(dst)
			if s.Bool("mid") {
				var part []byte
				if !dst.hsDone && len(dst.outb) == len(dst.ephMsg) { // still waiting for the ephemeral key
					part = src.ephMsg[:1+r.rng.Intn(len(src.ephMsg)-1)]
				} else if len(src.held) > 0 {
					part = src.held[0][:1+r.rng.Intn(len(src.held[0])-1)]
				} else {
					n := 1
					if r.frameSize > 1 {
						n = 1 + r.rng.Intn(r.frameSize-1)
					}
					part = make([]byte, n)
					r.rng.Read(part)
				}
				dst.in = append(dst.in, part...)
			}
			dst.inEOF = true
			src.held = nil
			hs := !dst.hsDone
			w.cond.Broadcast()
			if hs {
				w.wait(func() bool { return dst.hsDone }, "endpoint "+dst.name+" fails the handshake on a closed stream")
			}
		case "AdvAuth":
			dst := r.end(s.Str("dst"))
			fr, aerr := r.advAuth(dst, s.Str("m"))
			if aerr != nil {
				w.mu.Unlock()
				mbt.Emit(map[string]any{"kind": "advfail", "what": fmt.Sprintf("step %d %s: %v", k, mbt.JS(s), aerr)})
				return true, r.frameSize
			}
			r.arrive(dst, fr)
		case "Write":
			e := r.end(s.Str("e"))
			if !e.hsDone || e.sc == nil {
				w.mu.Unlock()
				mbt.Mismatch("C42:handshake:not-open", fmt.Sprintf("step %d %s: endpoint not open (%v)", k, mbt.JS(s), e.hsErr), kase(k))
				return false, r.frameSize
			}
			off, n := s.Int("off"), s.Int("n")
			w.mu.Unlock()
			var wn int
			var werr error
			p, val, _ := mbt.Guard(func() { wn, werr = e.sc.Write(e.stream[off : off+n]) })
			w.mu.Lock()
			if p || werr != nil || wn != n {
				w.mu.Unlock()
				mbt.Mismatch("C42:Write:result", fmt.Sprintf("step %d Write(%d) on an open connection returned (%d, %v) panic=%v %v", k, n, wn, werr, p, val), kase(k))
				return false, r.frameSize
			}
		case "Read":
			e := r.end(s.Str("e"))
			if !e.hsDone || e.sc == nil {
				w.mu.Unlock()
				mbt.Mismatch("C42:handshake:not-open", fmt.Sprintf("step %d %s: endpoint not open (%v)", k, mbt.JS(s), e.hsErr), kase(k))
				return false, r.frameSize
			}
			want, bs, off := s.Int("k"), s.Int("bs"), s.Int("off")
			w.mu.Unlock()
			buf := make([]byte, want)
			got, res, zero := 0, "ok", 0
			p, val, _ := mbt.Guard(func() {
				for got < want {
					m := want - got
					if bs < m {
						m = bs
					}
					n, err := e.sc.Read(buf[got : got+m])
					got += n
					if err != nil {
						res = classify(err)
						return
					}
					if n == 0 {
						if zero++; zero > 3 {
							res = "zero-reads"
							return
						}
					}
				}
			})
			w.mu.Lock()
			atomic.AddInt64(&nReads, 1)
			atomic.AddInt64(&nBytes, int64(got))
			src := r.peer(e)
			intact := off+got <= len(src.stream) && bytes.Equal(buf[:got], src.stream[off:off+got])
			switch {
			case p:
				w.mu.Unlock()
				mbt.Mismatch("C42:Read:panic", fmt.Sprintf("step %d %s: Read panicked: %v", k, mbt.JS(s), val), kase(k))
				return false, r.frameSize
			case !intact:
				w.mu.Unlock()
				mbt.Mismatch("C42:Read:altered-data", fmt.Sprintf("step %d %s: the %d bytes read are not bytes [%d,%d) of what the peer wrote", k, mbt.JS(s), got, off, off+got), kase(k))
				return false, r.frameSize
			case got != s.Int("got") || res != s.Str("res"):
				key := "C42:Read:" + s.Str("res") + "->" + res
				if res == s.Str("res") {
					key = "C42:Read:count"
				}
				w.mu.Unlock()
				mbt.Mismatch(key, fmt.Sprintf("step %d %s: read %d bytes ending %q, spec %d bytes ending %q", k, mbt.JS(s), got, res, s.Int("got"), s.Str("res")), kase(k))
				return false, r.frameSize
			}
		default:
			mbt.Die("unknown act %q", s.Act())
		}
		r.cut()
		obsSt := r.project()
		w.mu.Unlock()
		exp := s["st"].(map[string]any)
		if !mbt.Eq(obsSt["ph"], exp["ph"]) || !mbt.Eq(obsSt["rpk"], exp["rpk"]) {
			key := "C42:handshake:" + s.Act()
			if s.Has("m") {
				key += ":" + s.Str("m")
			}
			if s.Has("c") {
				key += ":" + s.Str("c")
			}
			errs := fmt.Sprintf("a=%v b=%v", r.a.hsErr, r.b.hsErr)
			if s.Act() == "AdvAuth" {
				d := s.Str("dst")
				eph, _ := exp["ph"].(map[string]any)
				oph, _ := obsSt["ph"].(map[string]string)
				if eph[d] == "open" && oph[d] == "failed" {
					// the model's adversary authenticates with its own key, the driver's could not: the real
					// endpoint was stricter than the model, which is no violation of the property
					mbt.Emit(map[string]any{"kind": "advfail", "what": fmt.Sprintf("step %d %s: the driver's adversary was rejected (%s)", k, mbt.JS(s), errs)})
					return true, r.frameSize
				}
			}
			mbt.Mismatch(key, fmt.Sprintf("step %d %s: handshake state %s, spec %s (%s)", k, mbt.JS(s), mbt.JS(obsSt), mbt.JS(exp), errs), kase(k))
			return false, r.frameSize
		}
		if !mbt.Eq(obsSt["nout"], exp["nout"]) {
			// number of sealed frames on the wire: not an observable of the property, but the adversary
			// steps of the behaviour no longer line up => report only if nothing else is found
			r.drift = fmt.Sprintf("step %d %s: frames held %s, spec %s", k, mbt.JS(s), mbt.JS(obsSt["nout"]), mbt.JS(exp["nout"]))
			mbt.Emit(map[string]any{"kind": "drift", "what": r.drift})
			return true, r.frameSize
		}
	}
	return true, r.frameSize
}

func hasModify(beh []mbt.Step) bool {
	for _, s := range beh {
		if s.Act() == "Modify" {
			return true
		}
	}
	return false
}

func main() {
	f := mbt.ParseFlags()
	var o opts
	if f.Extra != "" {
		if err := json.Unmarshal([]byte(f.Extra), &o); err != nil {
			mbt.Die("bad -x: %v", err)
		}
	}
	behs, err := mbt.ReadBehaviours(f.In)
	if err != nil {
		mbt.Die("%v", err)
	}
	// a replay case carries its own seed / byte position: {"steps":…,"seed":…,"modpos":…} via -mode case
	type job struct {
		beh    []mbt.Step
		seed   int64
		modPos int
	}
	var jobs []job
	if f.Mode == "case" {
		var c struct {
			Seed   int64 `json:"seed"`
			ModPos int   `json:"modpos"`
		}
		if err := json.Unmarshal([]byte(f.Extra), &c); err != nil {
			mbt.Die("bad case: %v", err)
		}
		for _, b := range behs {
			jobs = append(jobs, job{b, c.Seed, c.ModPos})
		}
	} else {
		for i, b := range behs {
			seed := f.Seed*1000003 + int64(i)
			if o.ModAll && hasModify(b) {
				// frame size is learnt from the first replay
				jobs = append(jobs, job{b, seed, 0})
			} else {
				jobs = append(jobs, job{b, seed, -1})
			}
		}
	}
	var steps, okc, replays, positions int64
	var wg sync.WaitGroup
	var next int64 = -1
	nw := runtime.NumCPU()
	for w := 0; w < nw; w++ {
		wg.Add(1)
		go func() {
			defer wg.Done()
			for {
				i := int(atomic.AddInt64(&next, 1))
				if i >= len(jobs) {
					return
				}
				j := jobs[i]
				ok, fs := replay(j.beh, j.seed, j.modPos)
				atomic.AddInt64(&replays, 1)
				atomic.AddInt64(&steps, int64(len(j.beh)))
				if ok && f.Mode != "case" && o.ModAll && hasModify(j.beh) {
					for pos := 1; pos < fs && ok; pos++ {
						ok, _ = replay(j.beh, j.seed+int64(pos)*7919, pos)
						atomic.AddInt64(&replays, 1)
						atomic.AddInt64(&positions, 1)
						atomic.AddInt64(&steps, int64(len(j.beh)))
					}
				}
				if ok {
					atomic.AddInt64(&okc, 1)
				}
			}
		}()
	}
	wg.Wait()
	for i := 0; i < len(behs) && i < 2; i++ {
		mbt.Sample(behs[i])
	}
	mbt.Summary(map[string]any{"behaviours": len(behs), "replays": replays, "behaviours_ok": okc, "steps": steps,
		"reads": nReads, "bytes_read": nBytes, "modified_frames": nMod, "modify_positions": positions})
	mbt.Flush()
}
