// Driver for C40 (spec/Mempool.tla): replays TLC behaviours on the real CListMempool wired to
// a scripted ABCI application through the (synchronous) local client, comparing the reply of
// every call and the projected pool / cache / limits after every step.
//
//	-mode replay  (default)  behaviours from -in
//	-mode conc               concurrent callers, records call/return events to -out (NDJSON)
//
// -x is a JSON object with the constants of the TLC configuration:
// {"sizes":{"a":2,"b":1},"gas":{"a":1,"b":2},"cfgSize":2,"cfgMaxBytes":3,"cacheSize":1,"recheck":true,"initMaxTx":2}
package main

import (
	"container/list"
	"crypto/sha256"
	"encoding/json"
	"errors"
	"fmt"
	"reflect"
	"runtime"
	"sort"
	"strings"
	"sync"
	"sync/atomic"
	"unsafe"

	abcicli "github.com/gnolang/gno/tm2/pkg/bft/abci/client"
	abci "github.com/gnolang/gno/tm2/pkg/bft/abci/types"
	"github.com/gnolang/gno/tm2/pkg/bft/mempool"
	mcfg "github.com/gnolang/gno/tm2/pkg/bft/mempool/config"
	"github.com/gnolang/gno/tm2/pkg/bft/types"

	"verifharness/mbt"
)

type consts struct {
	Sizes       map[string]int `json:"sizes"`
	Gas         map[string]int `json:"gas"`
	CfgSize     int            `json:"cfgSize"`
	CfgMaxBytes int            `json:"cfgMaxBytes"`
	CacheSize   int            `json:"cacheSize"`
	Recheck     bool           `json:"recheck"`
	InitMaxTx   int            `json:"initMaxTx"`
}

// ---------------------------------------------------------------- scripted application

type scriptedApp struct {
	abci.BaseApplication
	mtx        sync.Mutex
	c          *consts
	nextOK     map[string]bool // verdict for the next first-time CheckTx of a tx id
	recheckBad map[string]bool // txs rejected on recheck
	newCalls   int64
	reCalls    int64
}

func (a *scriptedApp) CheckTx(req abci.RequestCheckTx) abci.ResponseCheckTx {
	id := txID(req.Tx)
	a.mtx.Lock()
	defer a.mtx.Unlock()
	res := abci.ResponseCheckTx{GasWanted: int64(a.c.Gas[id])}
	if req.Type == abci.CheckTxTypeRecheck {
		a.reCalls++
		if a.recheckBad[id] {
			res.Error = abci.StringError("scripted: invalid on recheck")
		}
		return res
	}
	a.newCalls++
	if ok, set := a.nextOK[id]; set && !ok {
		res.Error = abci.StringError("scripted: invalid")
	}
	return res
}

func mkTx(c *consts, id string) types.Tx {
	n := c.Sizes[id]
	if n < 1 {
		mbt.Die("tx %q has no size", id)
	}
	return types.Tx(id + strings.Repeat(".", n-1))
}

func txID(tx []byte) string {
	if len(tx) == 0 {
		return "?"
	}
	return string(tx[:1])
}

var errBanned = errors.New("scripted preCheck: banned")

func banFunc(ban map[string]bool) mempool.PreCheckFunc {
	return func(tx types.Tx) error {
		if ban[txID(tx)] {
			return errBanned
		}
		return nil
	}
}

// ---------------------------------------------------------------- environment

type env struct {
	c   *consts
	app *scriptedApp
	mem *mempool.CListMempool
	h   int64
	// read-only views of unexported state (projection only)
	cacheList  *list.List
	rechecking *int32
	hashID     map[[sha256.Size]byte]string
}

func newEnv(c *consts) *env {
	e := &env{c: c, hashID: map[[sha256.Size]byte]string{}}
	e.app = &scriptedApp{c: c, nextOK: map[string]bool{}, recheckBad: map[string]bool{}}
	cli := abcicli.NewLocalClient(nil, e.app)
	if err := cli.Start(); err != nil {
		mbt.Die("local client start: %v", err)
	}
	cfg := mcfg.TestMempoolConfig()
	cfg.Size = c.CfgSize
	cfg.MaxPendingTxsBytes = int64(c.CfgMaxBytes)
	cfg.CacheSize = c.CacheSize
	cfg.Recheck = c.Recheck
	cfg.Broadcast = false
	e.mem = mempool.NewCListMempool(cfg, cli, 0, int64(c.InitMaxTx))
	for id := range c.Sizes {
		e.hashID[sha256.Sum256(mkTx(c, id))] = id
	}
	e.bindPrivate()
	return e
}

// bindPrivate obtains read-only pointers to mem.cache's LRU list and mem.rechecking.
func (e *env) bindPrivate() {
	p, _, _ := mbt.Guard(func() {
		v := reflect.ValueOf(e.mem).Elem()
		rf := v.FieldByName("rechecking")
		e.rechecking = (*int32)(unsafe.Pointer(rf.UnsafeAddr()))
		cf := v.FieldByName("cache")
		cf = reflect.NewAt(cf.Type(), unsafe.Pointer(cf.UnsafeAddr())).Elem()
		impl := cf.Elem() // *mapTxCache
		lf := impl.Elem().FieldByName("list")
		lf = reflect.NewAt(lf.Type(), unsafe.Pointer(lf.UnsafeAddr())).Elem()
		e.cacheList = lf.Interface().(*list.List)
	})
	if p || e.rechecking == nil || e.cacheList == nil {
		mbt.Die("HOOK-STALE verif_: CListMempool.cache / rechecking layout changed; projection impossible")
	}
}

type proj struct {
	Pool  []string `json:"pool"`
	Cache []string `json:"cache"`
	MaxTx int      `json:"maxtx"`
	Bytes int      `json:"bytes"`
}

func (e *env) project() (proj, string) {
	p := proj{Pool: []string{}, Cache: []string{}}
	n := 0
	for el := e.mem.TxsFront(); el != nil; el = el.Next() {
		p.Pool = append(p.Pool, txID(reflect.ValueOf(el.Value).Elem().FieldByName("tx").Bytes()))
		if n++; n > 1000 {
			return p, "pool list does not terminate"
		}
	}
	for el := e.cacheList.Front(); el != nil; el = el.Next() {
		h, _ := el.Value.([sha256.Size]byte)
		id, ok := e.hashID[h]
		if !ok {
			id = "?"
		}
		p.Cache = append(p.Cache, id)
	}
	p.MaxTx = int(e.mem.MaxTxBytes())
	p.Bytes = int(e.mem.TxsBytes())
	if e.mem.Size() != len(p.Pool) {
		return p, fmt.Sprintf("Size()=%d but the list holds %d txs", e.mem.Size(), len(p.Pool))
	}
	return p, ""
}

func ids(txs types.Txs) []string {
	out := make([]string, 0, len(txs))
	for _, t := range txs {
		out = append(out, txID(t))
	}
	return out
}

func hasDup(s []string) bool {
	seen := map[string]bool{}
	for _, x := range s {
		if seen[x] {
			return true
		}
		seen[x] = true
	}
	return false
}

// ---------------------------------------------------------------- one step

type outcome struct {
	key   string // "" = agrees
	what  string
	fatal bool // real object unusable / state diverged: stop this behaviour
}

func (e *env) checkTx(id string, ok bool) (reply string, panicked bool, pval any, stack string) {
	e.app.mtx.Lock()
	e.app.nextOK[id] = ok
	e.app.mtx.Unlock()
	var cbRes abci.Response
	var err error
	panicked, pval, stack = mbt.Guard(func() {
		err = e.mem.CheckTx(mkTx(e.c, id), func(r abci.Response) { cbRes = r })
	})
	if panicked {
		return
	}
	reply = classifyCheckTx(err, cbRes)
	return
}

func classifyCheckTx(err error, cbRes abci.Response) (reply string) {
	switch {
	case err == nil:
		r, isC := cbRes.(abci.ResponseCheckTx)
		switch {
		case !isC:
			reply = "nocallback"
		case r.Error == nil:
			reply = "ok"
		default:
			reply = "rejected"
		}
	case errors.Is(err, mempool.ErrTxInCache) || err == mempool.ErrTxInCache:
		reply = "incache"
	case err == errBanned:
		reply = "precheck"
	default:
		switch err.(type) {
		case mempool.MempoolIsFullError:
			reply = "full"
		case mempool.TxTooLargeError:
			reply = "toolarge"
		default:
			reply = "err:" + err.Error()
		}
	}
	return
}

func (e *env) step(s mbt.Step) outcome {
	exp := s["st"].(map[string]any)
	switch s.Act() {
	case "CheckTx":
		reply, p, val, st := e.checkTx(s.Str("tx"), s.Bool("ok"))
		if p {
			return outcome{"C40:CheckTx:panic", fmt.Sprintf("CheckTx panicked: %v at %s", val, mbt.ShortStack(st)), true}
		}
		want := s.Str("reply")
		if want == "pooled" {
			// tx still pooled but forgotten by the LRU cache: the property only demands that no second
			// copy is pooled; what the caller is told is not specified
			if reply != "ok" && reply != "incache" {
				return outcome{"C40:CheckTx:reply", fmt.Sprintf("reply %q for a pooled tx the cache forgot", reply), true}
			}
		} else if reply != want {
			return outcome{"C40:CheckTx:reply", fmt.Sprintf("reply %q, spec %q", reply, want), true}
		}
	case "Update":
		e.h++
		var txs types.Txs
		var res []abci.ResponseDeliverTx
		for _, c := range s["committed"].([]any) {
			m := c.(map[string]any)
			txs = append(txs, mkTx(e.c, m["tx"].(string)))
			r := abci.ResponseDeliverTx{}
			if okv, _ := m["ok"].(bool); !okv {
				r.Error = abci.StringError("scripted: failed in block")
			}
			res = append(res, r)
		}
		var pre mempool.PreCheckFunc
		nb := mbt.Strs(s["newban"])
		if !(len(nb) == 1 && nb[0] == "_keep") {
			ban := map[string]bool{}
			for _, x := range nb {
				ban[x] = true
			}
			pre = banFunc(ban)
		}
		bad := map[string]bool{}
		for _, x := range mbt.Strs(s["inv"]) {
			bad[x] = true
		}
		e.app.mtx.Lock()
		e.app.recheckBad = bad
		e.app.mtx.Unlock()
		var err error
		p, val, st := mbt.Guard(func() {
			// as BlockExecutor.Commit does
			e.mem.Lock()
			defer e.mem.Unlock()
			_ = e.mem.FlushAppConn()
			err = e.mem.Update(e.h, txs, res, pre, int64(s.Int("newmax")))
		})
		ev := s.Str("evicts")
		if p {
			key := "C40:Update:panic"
			switch ev {
			case "front":
				key = "C40:Update:recheck-panic-front-evicted"
			case "other":
				key = "C40:Update:recheck-panic-evicted"
			}
			return outcome{key, fmt.Sprintf("Update panicked (filter evicts: %s): %.200v at %s", ev, val, mbt.ShortStack(st)), true}
		}
		if err != nil {
			return outcome{"C40:Update:error", "Update returned " + err.Error(), true}
		}
		if atomic.LoadInt32(e.rechecking) != 0 {
			key := "C40:Update:recheck-stuck"
			if ev != "none" {
				key = "C40:Update:recheck-stuck-evicted"
			}
			return outcome{key, fmt.Sprintf("Update returned but the mempool stays in `rechecking` (filter evicts: %s): every later Reap spins, the next CheckTx panics", ev), true}
		}
	case "ReapMaxBytesMaxGas", "ReapMaxTxs":
		var got types.Txs
		p, val, st := mbt.Guard(func() {
			if s.Act() == "ReapMaxTxs" {
				got = e.mem.ReapMaxTxs(s.Int("n"))
			} else {
				got = e.mem.ReapMaxBytesMaxGas(int64(s.Int("b")), int64(s.Int("g")))
			}
		})
		if p {
			return outcome{"C40:" + s.Act() + ":panic", fmt.Sprintf("%v at %s", val, mbt.ShortStack(st)), true}
		}
		g, want := ids(got), mbt.Strs(s["reply"])
		if !mbt.Eq(g, want) {
			pool := mbt.Strs(exp["pool"])
			isPrefix := len(g) <= len(pool)
			for i := 0; isPrefix && i < len(g); i++ {
				isPrefix = g[i] == pool[i]
			}
			key := "C40:" + s.Act() + ":reply"
			switch {
			case !isPrefix:
				key = "C40:" + s.Act() + ":not-a-prefix"
			case s.Act() == "ReapMaxTxs" && s.Int("n") >= 0 && len(g) > s.Int("n"):
				key = "C40:ReapMaxTxs:returns>max"
			case s.Act() == "ReapMaxBytesMaxGas" && len(g) > len(want):
				key = "C40:ReapMaxBytesMaxGas:over-limit"
			}
			// a reap does not change the pool: report and keep going
			return outcome{key, fmt.Sprintf("%s returned %v, spec %v (pool %v)", mbt.JS(map[string]any{"act": s.Act(), "n": s["n"], "b": s["b"], "g": s["g"]}), g, want, pool), false}
		}
	case "Flush":
		if p, val, st := mbt.Guard(func() { e.mem.Flush() }); p {
			return outcome{"C40:Flush:panic", fmt.Sprintf("%v at %s", val, mbt.ShortStack(st)), true}
		}
	default:
		mbt.Die("unknown act %q", s.Act())
	}
	return outcome{}
}

func (e *env) compareState(s mbt.Step) outcome {
	exp := s["st"].(map[string]any)
	obs, bad := e.project()
	if bad != "" {
		return outcome{"C40:" + s.Act() + ":state", bad, true}
	}
	wantPool, wantCache := mbt.Strs(exp["pool"]), mbt.Strs(exp["cache"])
	poolOK := mbt.Eq(obs.Pool, wantPool) && obs.Bytes == mbt.Step(exp).Int("bytes")
	if !poolOK {
		key := "C40:" + s.Act() + ":pool"
		if hasDup(obs.Pool) {
			key = "C40:" + s.Act() + ":duplicate-in-pool"
			if s.Str("reply") == "pooled" {
				key = "C40:CheckTx:duplicate-after-cache-eviction"
			}
		}
		return outcome{key, fmt.Sprintf("pool %v (%d bytes), spec %v (%d bytes)", obs.Pool, obs.Bytes, wantPool, mbt.Step(exp).Int("bytes")), true}
	}
	if obs.MaxTx != mbt.Step(exp).Int("maxtx") {
		return outcome{"C40:" + s.Act() + ":maxtx", fmt.Sprintf("MaxTxBytes()=%d, spec %d", obs.MaxTx, mbt.Step(exp).Int("maxtx")), true}
	}
	if !mbt.Eq(obs.Cache, wantCache) {
		return outcome{"C40:" + s.Act() + ":cache", fmt.Sprintf("cache (LRU order) %v, spec %v", obs.Cache, wantCache), true}
	}
	return outcome{}
}

// replay steps a fresh mempool through beh; returns the outcomes that disagree (with the step index).
type finding struct {
	outcome
	at int
}

func replay(c *consts, beh []mbt.Step) (fs []finding, steps int) {
	e := newEnv(c)
	for k, s := range beh {
		steps++
		o := e.step(s)
		if o.key != "" {
			fs = append(fs, finding{o, k})
			if o.fatal {
				return
			}
		}
		if o2 := e.compareState(s); o2.key != "" {
			fs = append(fs, finding{o2, k})
			return
		}
	}
	return
}

var (
	repMu    sync.Mutex
	reported = map[string]int{}
)

func main() {
	f := mbt.ParseFlags()
	var c consts
	if err := json.Unmarshal([]byte(f.Extra), &c); err != nil {
		mbt.Die("bad -x: %v", err)
	}
	if f.Mode == "conc" {
		concurrent(f, &c)
		return
	}
	behs, err := mbt.ReadBehaviours(f.In)
	if err != nil {
		mbt.Die("%v", err)
	}
	var steps, okc, flaky int64
	var wg sync.WaitGroup
	nw := runtime.NumCPU()
	if nw > 8 {
		nw = 8
	}
	for w := 0; w < nw; w++ {
		wg.Add(1)
		go func(w int) {
			defer wg.Done()
			for i := w; i < len(behs); i += nw {
				fs, n := replay(&c, behs[i])
				atomic.AddInt64(&steps, int64(n))
				if len(fs) == 0 {
					atomic.AddInt64(&okc, 1)
					continue
				}
				// soundness rule 4: a failing behaviour is re-run once from a fresh object
				fs2, _ := replay(&c, behs[i])
				for _, x := range fs {
					again := false
					for _, y := range fs2 {
						again = again || (y.key == x.key && y.at == x.at)
					}
					if !again {
						atomic.AddInt64(&flaky, 1)
						continue
					}
					repMu.Lock()
					reported[x.key]++
					n := reported[x.key]
					repMu.Unlock()
					if n <= 2 {
						mbt.Mismatch(x.key, fmt.Sprintf("step %d %s: %s", x.at, mbt.JS(behs[i][x.at]), x.what),
							map[string]any{"consts": c, "steps": behs[i][:x.at+1]})
					}
				}
			}
		}(w)
	}
	wg.Wait()
	for i := 0; i < len(behs) && i < 2; i++ {
		mbt.Sample(behs[len(behs)-1-i])
	}
	sum := map[string]any{"behaviours": len(behs), "replays": len(behs), "replays_ok": okc, "steps": steps, "flaky": flaky}
	keys := make([]string, 0, len(reported))
	for k := range reported {
		keys = append(keys, k)
	}
	sort.Strings(keys)
	for _, k := range keys {
		sum["n:"+k] = reported[k]
	}
	mbt.Summary(sum)
	mbt.Flush()
	if flaky > 0 {
		mbt.Die("FLAKY: %d disagreement(s) did not reproduce on a fresh object", flaky)
	}
}
