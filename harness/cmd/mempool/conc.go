package main

// (V) for C40: concurrent callers of the real CListMempool; call/return events are written as NDJSON
// for spec/MempoolTrace.tla. The scripted application rejects the txs in `bad`; the committer changes
// `bad` while it holds the mempool lock (as an application's state only changes at Commit).
// The callers stay inside the part of the contract that the unchanged tree honours (see the header
// of Mempool.tla): limits are not changed by Update, the cache holds every tx id, ReapMaxTxs(-1).

import (
	"bufio"
	"encoding/json"
	"fmt"
	"math/rand"
	"os"
	"runtime"
	"sort"
	"sync"
	"sync/atomic"
	"time"

	abci "github.com/gnolang/gno/tm2/pkg/bft/abci/types"
	"github.com/gnolang/gno/tm2/pkg/bft/types"

	"verifharness/mbt"
)

type cev struct {
	Seq       int64             `json:"-"`
	Act       string            `json:"act"`
	Run       int               `json:"run,omitempty"`
	ID        int               `json:"id,omitempty"`
	Op        string            `json:"op,omitempty"`
	Tx        string            `json:"tx,omitempty"`
	Committed *[]map[string]any `json:"committed,omitempty"`
	Bad       *[]string         `json:"bad,omitempty"`
	B         int               `json:"b"`
	G         int               `json:"g"`
	N         int               `json:"n"`
	R         string            `json:"r"`
	Txs       []string          `json:"txs"`
	Bytes     int               `json:"bytes"`
	Gor       int               `json:"gor,omitempty"`
}

type crun struct {
	e     *env
	seq   int64
	opid  int64
	bufs  [][]cev
	fmu   sync.Mutex
	fail  string
	failK string
}

func (r *crun) failed() bool { r.fmu.Lock(); defer r.fmu.Unlock(); return r.fail != "" }

func (r *crun) call(g int, c cev, fn func() (string, []string)) bool {
	if r.failed() {
		return false
	}
	c.Act, c.ID, c.Gor = "Call", int(atomic.AddInt64(&r.opid, 1)), g
	c.Seq = atomic.AddInt64(&r.seq, 1)
	if c.Txs == nil {
		c.Txs = []string{}
	}
	r.bufs[g] = append(r.bufs[g], c)
	ci := len(r.bufs[g]) - 1
	var reply string
	var txs []string
	p, pv, st := mbt.Guard(func() { reply, txs = fn() })
	if p {
		r.fmu.Lock()
		if r.fail == "" {
			r.fail = fmt.Sprintf("%s panicked: %.300v at %s", c.Op, pv, mbt.ShortStack(st))
			r.failK = "C40:conc:" + c.Op + ":panic"
		}
		r.fmu.Unlock()
		return false
	}
	if txs == nil {
		txs = []string{}
	}
	// the Call line also carries the eventual reply: a pruning hint for the linearisation search
	// (a linearisation point whose reply differs can never be matched by the Ret line)
	r.bufs[g][ci].R, r.bufs[g][ci].Txs = reply, txs
	r.bufs[g] = append(r.bufs[g], cev{Seq: atomic.AddInt64(&r.seq, 1), Act: "Ret", ID: c.ID, R: reply, Txs: txs, Gor: g})
	return true
}

func (r *crun) events() []cev {
	var all []cev
	for _, b := range r.bufs {
		all = append(all, b...)
	}
	sort.Slice(all, func(i, j int) bool { return all[i].Seq < all[j].Seq })
	return all
}

func concRun(c *consts, rng *rand.Rand) (*crun, bool) {
	const nCheck = 3
	ng := nCheck + 2
	r := &crun{e: newEnv(c), bufs: make([][]cev, ng)}
	idsAll := make([]string, 0, len(c.Sizes))
	for id := range c.Sizes {
		idsAll = append(idsAll, id)
	}
	sort.Strings(idsAll)
	// scripted app: verdict = id not in bad (both for first checks and rechecks)
	setBad := func(bad map[string]bool) {
		r.e.app.mtx.Lock()
		r.e.app.recheckBad = bad
		r.e.app.nextOK = map[string]bool{}
		for id := range bad {
			r.e.app.nextOK[id] = false
		}
		r.e.app.mtx.Unlock()
	}
	setBad(map[string]bool{})
	seeds := make([]int64, ng)
	for i := range seeds {
		seeds[i] = rng.Int63()
	}
	start := make(chan struct{})
	var wg sync.WaitGroup
	for g := 0; g < nCheck; g++ {
		wg.Add(1)
		go func(g int) {
			defer wg.Done()
			lr := rand.New(rand.NewSource(seeds[g]))
			<-start
			for i := 0; i < 6; i++ {
				id := idsAll[lr.Intn(len(idsAll))]
				if !r.call(g, cev{Op: "CheckTx", Tx: id}, func() (string, []string) {
					reply, p, pv, _ := checkTxConc(r.e, id)
					if p {
						panic(pv)
					}
					return reply, nil
				}) {
					return
				}
				if lr.Intn(2) == 0 {
					runtime.Gosched()
				}
			}
		}(g)
	}
	wg.Add(1)
	go func(g int) { // committer, as BlockExecutor.Commit: Lock; FlushAppConn; (app commits); Update; Unlock
		defer wg.Done()
		lr := rand.New(rand.NewSource(seeds[g]))
		<-start
		for h := int64(1); h <= 3; h++ {
			for k := 0; k < 1+lr.Intn(3); k++ {
				runtime.Gosched()
			}
			perm := lr.Perm(len(idsAll))
			var committed []map[string]any
			var txs types.Txs
			var res []abci.ResponseDeliverTx
			for _, j := range perm[:lr.Intn(3)] {
				ok := lr.Intn(4) != 0
				committed = append(committed, map[string]any{"tx": idsAll[j], "ok": ok})
				txs = append(txs, mkTx(c, idsAll[j]))
				rr := abci.ResponseDeliverTx{}
				if !ok {
					rr.Error = abci.StringError("scripted: failed in block")
				}
				res = append(res, rr)
			}
			bad := map[string]bool{}
			var badL []string
			for _, id := range idsAll {
				if lr.Intn(4) == 0 {
					bad[id] = true
					badL = append(badL, id)
				}
			}
			if committed == nil {
				committed = []map[string]any{}
			}
			if badL == nil {
				badL = []string{}
			}
			if !r.call(g, cev{Op: "Update", Committed: &committed, Bad: &badL}, func() (string, []string) {
				r.e.mem.Lock()
				defer r.e.mem.Unlock()
				_ = r.e.mem.FlushAppConn()
				setBad(bad) // the application's state changes at Commit, under the mempool lock
				if err := r.e.mem.Update(h, txs, res, nil, 0); err != nil {
					return "err:" + err.Error(), nil
				}
				return "ok", nil
			}) {
				return
			}
		}
	}(nCheck)
	wg.Add(1)
	go func(g int) { // reaper
		defer wg.Done()
		lr := rand.New(rand.NewSource(seeds[g]))
		<-start
		bs, gs := []int{-1, 1, 3, 5}, []int{-1, 0, 2, 4}
		for i := 0; i < 6; i++ {
			if lr.Intn(3) == 0 {
				if !r.call(g, cev{Op: "ReapMaxTxs", N: -1}, func() (string, []string) { return "", ids(r.e.mem.ReapMaxTxs(-1)) }) {
					return
				}
			} else {
				b, gg := bs[lr.Intn(4)], gs[lr.Intn(4)]
				if !r.call(g, cev{Op: "ReapMaxBytesMaxGas", B: b, G: gg}, func() (string, []string) {
					return "", ids(r.e.mem.ReapMaxBytesMaxGas(int64(b), int64(gg)))
				}) {
					return
				}
			}
			runtime.Gosched()
		}
	}(nCheck + 1)
	close(start)
	done := make(chan struct{})
	go func() { wg.Wait(); close(done) }()
	select {
	case <-done:
		return r, true
	case <-time.After(30 * time.Second):
		return r, false
	}
}

// checkTxConc: like env.checkTx, but the verdict is the application's own (bad set)
func checkTxConc(e *env, id string) (reply string, panicked bool, pval any, stack string) {
	var cbRes abci.Response
	var err error
	panicked, pval, stack = mbt.Guard(func() {
		err = e.mem.CheckTx(mkTx(e.c, id), func(r abci.Response) { cbRes = r })
	})
	if panicked {
		return
	}
	reply = classifyCheckTx(err, cbRes)
	return
}

func concurrent(f *mbt.Flags, c *consts) {
	if f.Out == "" {
		mbt.Die("-out required")
	}
	n := f.N
	if n == 0 {
		n = 50
	}
	out, err := os.Create(f.Out)
	if err != nil {
		mbt.Die("%v", err)
	}
	w := bufio.NewWriterSize(out, 1<<20)
	enc := json.NewEncoder(w)
	rng := rand.New(rand.NewSource(f.Seed*104729 + 5))
	runs, events, ops, hung := 0, 0, 0, 0
	for i := 0; i < n; i++ {
		r, ok := concRun(c, rng)
		if r.failed() {
			mbt.Mismatch(r.failK, r.fail, map[string]any{"consts": c, "mode": "conc", "seed": f.Seed, "events": r.events()})
			break
		}
		if !ok {
			// callers of a mempool never block for ever; reported as a suspect, decided by the check
			mbt.Emit(map[string]any{"kind": "suspect", "run": i + 1, "events": r.events()})
			hung++
			break
		}
		runs++
		enc.Encode(cev{Act: "Reset", Run: runs, Txs: []string{}})
		evs := r.events()
		for _, e := range evs {
			enc.Encode(e)
			if e.Act == "Call" {
				ops++
			}
		}
		p, bad := r.e.project()
		if bad != "" {
			mbt.Mismatch("C40:conc:state", bad, map[string]any{"consts": c, "mode": "conc", "seed": f.Seed, "events": evs})
			break
		}
		enc.Encode(cev{Act: "Final", Txs: p.Pool, Bytes: p.Bytes})
		events += len(evs) + 2
	}
	w.Flush()
	out.Close()
	mbt.Summary(map[string]any{"runs": runs, "events": events, "ops": ops, "suspects": hung})
	mbt.Flush()
}
