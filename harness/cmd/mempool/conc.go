package main

import "verifharness/mbt"

func concurrent(f *mbt.Flags, c *consts) { mbt.Die("conc mode not built yet") }
