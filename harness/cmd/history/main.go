// Driver for C01 (chain replay determinism): runs ONE seeded history of blocks on the real
// gno.land application under a given variant (db back end, restart pattern; GOMAXPROCS is
// set by the caller through the environment, every variant is a fresh process so Go map
// seeds differ) and writes per-block app hashes and per-tx deterministic results as NDJSON.
package main

import (
	"bufio"
	"encoding/hex"
	"encoding/json"
	"fmt"
	"math/rand"
	"os"
	"strconv"
	"strings"
	"time"

	"github.com/gnolang/gno/gno.land/pkg/sdk/vm"
	bft "github.com/gnolang/gno/tm2/pkg/bft/types"
	"github.com/gnolang/gno/tm2/pkg/crypto"
	dbm "github.com/gnolang/gno/tm2/pkg/db"
	_ "github.com/gnolang/gno/tm2/pkg/db/boltdb"
	_ "github.com/gnolang/gno/tm2/pkg/db/goleveldb"
	_ "github.com/gnolang/gno/tm2/pkg/db/memdb"
	_ "github.com/gnolang/gno/tm2/pkg/db/pebbledb"
	"github.com/gnolang/gno/tm2/pkg/sdk/bank"
	"github.com/gnolang/gno/tm2/pkg/std"

	"verifharness/appenv"
	"verifharness/mbt"
)

const listSrc = `package list

import "chain"

type Item struct {
	Name string
	N    int
	Next *Item
}

var (
	items []*Item
	byKey = map[string]*Item{}
	head  *Item
	total int
)

func Add(cur realm, name string, n int) int {
	it := &Item{Name: name, N: n, Next: head}
	head = it
	items = append(items, it)
	byKey[name] = it
	total += n
	chain.Emit("added", "name", name)
	return len(items)
}

func Drop(cur realm, name string) {
	it := byKey[name]
	if it == nil {
		panic("no such item: " + name)
	}
	delete(byKey, name)
	total -= it.N
	it.N = 0
}

func Snapshot() string {
	s := ""
	for k, v := range byKey {
		s += k + "=" + itoa(v.N) + ";"
	}
	n := 0
	for it := head; it != nil; it = it.Next {
		n++
	}
	return s + "#" + itoa(total) + "/" + itoa(n)
}

func itoa(n int) string {
	if n == 0 {
		return "0"
	}
	neg := n < 0
	if neg {
		n = -n
	}
	s := ""
	for n > 0 {
		s = string(rune('0'+n%10)) + s
		n /= 10
	}
	if neg {
		s = "-" + s
	}
	return s
}
`

const utilSrc = `package util

func Twice(n int) int { return 2 * n }

func Keys(m map[string]int) string {
	s := ""
	for k := range m {
		s += k + ","
	}
	return s
}
`

const callerSrc = `package caller

import (
	"chain"

	"gno.land/p/verif/util"
	"gno.land/r/verif/list"
)

var calls int

func Relay(cur realm, name string, n int) string {
	calls++
	k := list.Add(cross(cur), name, util.Twice(n))
	chain.Emit("relayed", "name", name, "k", name)
	_ = k
	return list.Snapshot()
}
`

const hooksSrc = `package hooks

var hook func() string
var fired int

func Register(cur realm, f func() string) { hook = f }

func Fire(cur realm) string {
	fired++
	if hook == nil {
		return "none"
	}
	return hook()
}
`

// a MsgRun package that ships its own gnomod.toml (what "gnokey maketx run <dir>" sends) and tries to leave one of its
// closures behind in a realm
func hookScript(k int) []*std.MemFile {
	body := fmt.Sprintf(`package main

import "gno.land/r/verif/hooks"

func main(cur realm) {
	hooks.Register(cross(cur), func() string { return "from-script-%d" })
}
`, k)
	return []*std.MemFile{
		{Name: "gnomod.toml", Body: "module = \"gno.land/r/verif/scratch\"\ngno = \"0.9\"\n"},
		{Name: "main.gno", Body: body},
	}
}

const onlyTestSrc = `package onlytest

import "testing"

func TestX(t *testing.T) {}
`

func runScript(k int) string {
	return fmt.Sprintf(`package main

import (
	"chain"

	"gno.land/r/verif/list"
)

func main(cur realm) {
	m := map[string]int{"q%d": %d, "b": 2, "zz": 3, "a%d": 4}
	acc := ""
	for k, v := range m {
		acc += k
		list.Add(cross(cur), k, v)
	}
	chain.Emit("script", "acc", acc)
	println(list.Snapshot())
}
`, k, k, k)
}

type variant struct {
	db      string
	restart uint64 // bit i set => restart (new app object, cold caches; persistent back ends: DB reopened) before block i
	dir     string // persistent DB directory kept between processes (process-split runs)
	from    int    // first block executed by this process (earlier blocks were executed by a previous process on the same DB)
	to      int    // one past the last block executed by this process (0 = all)
}

func parseVariant(x string) variant {
	v := variant{db: "memdb"}
	for _, kv := range strings.Split(x, ";") {
		p := strings.SplitN(kv, "=", 2)
		if len(p) != 2 {
			continue
		}
		switch p[0] {
		case "db":
			v.db = p[1]
		case "restart":
			v.restart, _ = strconv.ParseUint(p[1], 10, 64)
		case "dir":
			v.dir = p[1]
		case "from":
			v.from, _ = strconv.Atoi(p[1])
		case "to":
			v.to, _ = strconv.Atoi(p[1])
		}
	}
	return v
}

func main() {
	f := mbt.ParseFlags()
	v := parseVariant(f.Extra)
	rng := rand.New(rand.NewSource(f.Seed)) // the HISTORY depends on the seed only, never on the variant
	dir := v.dir
	if dir == "" {
		var err error
		dir, err = os.MkdirTemp("", "hist-db")
		if err != nil {
			mbt.Die("%v", err)
		}
		defer os.RemoveAll(dir)
	}
	openDB := func() dbm.DB {
		db, err := dbm.NewDB("gnolang", dbm.BackendType(v.db), dir)
		if err != nil {
			mbt.Die("db %s: %v", v.db, err)
		}
		return db
	}
	db := openDB()
	accts := map[string]*appenv.Account{}
	for _, n := range []string{"a", "b", "c", "deployer"} {
		accts[n] = appenv.NewAccount(n)
	}
	var e *appenv.Env
	var err error
	if v.from > 0 {
		// a later process of a process-split run: the chain already exists on disk; a true restart (every
		// process-global cache cold)
		e = &appenv.Env{DB: db, Time: time.Unix(1_700_000_000, 0).UTC().Add(time.Duration(5*v.from) * time.Second)}
		if err := e.Reopen(); err != nil {
			mbt.Die("reopen: %v", err)
		}
	} else {
		e, err = appenv.New(appenv.Options{
			DB: db, MaxGas: 400_000_000,
			Balances: map[crypto.Address]int64{accts["a"].Addr: 900_000_000, accts["b"].Addr: 900_000_000, accts["c"].Addr: 900_000_000, accts["deployer"].Addr: 900_000_000},
			Deployer: accts["deployer"],
		})
		if err != nil {
			mbt.Die("new: %v", err)
		}
	}
	out, err := os.Create(f.Out)
	if err != nil {
		mbt.Die("%v", err)
	}
	w := bufio.NewWriter(out)
	emit := func(x any) {
		bz, _ := json.Marshal(x)
		w.Write(bz)
		w.WriteByte('\n')
	}
	pkgs := []appenv.Pkg{
		{Path: "gno.land/r/verif/list", Files: map[string]string{"list.gno": listSrc}},
		{Path: "gno.land/p/verif/util", Files: map[string]string{"util.gno": utilSrc}},
		{Path: "gno.land/r/verif/hooks", Files: map[string]string{"hooks.gno": hooksSrc}},
		{Path: "gno.land/r/verif/caller", Files: map[string]string{"caller.gno": callerSrc}},
		{Path: "gno.land/r/verif/onlytest", Files: map[string]string{"x_test.gno": onlyTestSrc}},
	}
	names := []string{"a", "b", "c"}
	seqs := map[string]uint64{}
	nblocks := f.N
	if nblocks <= 0 {
		nblocks = 6
	}
	deployStep := 0
	counter := 0
	okc, failc := 0, 0
	last := nblocks
	if v.to > 0 && v.to < nblocks {
		last = v.to
	}
	for b := 0; b < last; b++ {
		dry := b < v.from // executed by an earlier process: only consume the generator's randomness
		if !dry && v.restart&(1<<uint(b)) != 0 {
			if v.db != "memdb" {
				e.DB.Close()
				e.DB = openDB()
			}
			if err := e.Reopen(); err != nil {
				mbt.Die("reopen: %v", err)
			}
		}
		if !dry {
			for _, n := range names {
				seqs[n] = e.Account(accts[n].Addr).Seq
			}
			e.BeginBlock()
		}
		ntx := 1 + rng.Intn(4)
		var txs []map[string]any
		for t := 0; t < ntx; t++ {
			s := names[rng.Intn(3)]
			signer := accts[s]
			var msgs []std.Msg
			gw := int64(60_000_000)
			kind := rng.Intn(100)
			counter++
			switch {
			case t == 0 && b == nblocks-3 && deployStep >= 3: // a script tries to leave a closure behind in a realm ...
				msgs = append(msgs, vm.NewMsgRun(signer.Addr, nil, hookScript(counter%3)))
			case t == 0 && b >= nblocks-2 && deployStep >= 3: // ... and later blocks make the realm call whatever it holds
				msgs = append(msgs, vm.NewMsgCall(signer.Addr, nil, "gno.land/r/verif/hooks", "Fire", nil))
			case b < 5 && t == 0 && deployStep < len(pkgs): // deployments early, in order (caller needs list and util)
				msgs = append(msgs, appenv.AddPkgMsg(signer.Addr, pkgs[deployStep]))
				deployStep++
				gw = 150_000_000
			case kind < 15:
				msgs = append(msgs, bank.MsgSend{FromAddress: signer.Addr, ToAddress: accts[names[rng.Intn(3)]].Addr, Amount: std.Coins{{Denom: "ugnot", Amount: int64(1 + rng.Intn(1000))}}})
			case kind < 40:
				msgs = append(msgs, vm.NewMsgCall(signer.Addr, nil, "gno.land/r/verif/list", "Add", []string{fmt.Sprintf("k%d", rng.Intn(6)), fmt.Sprint(rng.Intn(100))}))
			case kind < 50:
				msgs = append(msgs, vm.NewMsgCall(signer.Addr, nil, "gno.land/r/verif/list", "Drop", []string{fmt.Sprintf("k%d", rng.Intn(6))}))
			case kind < 70:
				msgs = append(msgs, vm.NewMsgCall(signer.Addr, nil, "gno.land/r/verif/caller", "Relay", []string{fmt.Sprintf("r%d", rng.Intn(4)), fmt.Sprint(rng.Intn(50))}))
			case kind < 78:
				msgs = append(msgs, vm.NewMsgRun(signer.Addr, nil, []*std.MemFile{{Name: "main.gno", Body: runScript(counter % 3)}}))
			case kind < 82:
				msgs = append(msgs, vm.NewMsgRun(signer.Addr, nil, hookScript(counter%3)))
			case kind < 85:
				msgs = append(msgs, vm.NewMsgCall(signer.Addr, nil, "gno.land/r/verif/hooks", "Fire", nil))
			case kind < 92: // redeploy an existing path (must fail the same way everywhere)
				msgs = append(msgs, appenv.AddPkgMsg(signer.Addr, pkgs[rng.Intn(2)]))
				gw = 150_000_000
			default: // two messages, second fails: atomic rollback is part of the replayed result
				msgs = append(msgs,
					vm.NewMsgCall(signer.Addr, nil, "gno.land/r/verif/list", "Add", []string{"tmp", "1"}),
					vm.NewMsgCall(signer.Addr, nil, "gno.land/r/verif/list", "Drop", []string{"never-there"}))
			}
			if dry {
				continue
			}
			ai := e.Account(signer.Addr)
			tx := appenv.SignTx(msgs, gw, 100_000, appenv.ChainID, signer, ai.Num, seqs[s])
			r := e.Deliver(tx)
			if r.GasWanted > 0 {
				seqs[s]++
			}
			if r.IsOK() {
				okc++
			} else {
				failc++
			}
			txs = append(txs, map[string]any{
				"ok": r.IsOK(), "cls": appenv.ErrClass(r.Error),
				"result": hex.EncodeToString(bft.NewResultFromResponse(r).Bytes()), // Error + Data + Events: what the results hash covers
				"used":   r.GasUsed, "wanted": r.GasWanted,
			})
		}
		if dry {
			continue
		}
		_, c := e.EndBlockCommit()
		snap, _ := e.QEval("gno.land/r/verif/list", "Snapshot()")
		emit(map[string]any{"h": e.Height, "apphash": hex.EncodeToString(c.Data), "txs": txs, "snap": snap})
	}
	w.Flush()
	out.Close()
	e.DB.Close()
	mbt.Summary(map[string]any{"blocks": nblocks, "tx_ok": okc, "tx_fail": failc})
	mbt.Flush()
}
