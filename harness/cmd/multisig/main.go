// Driver for C44 (spec/Multisig.tla): replays TLC behaviours on the real multisig.Multisignature /
// PubKeyMultisigThreshold.VerifyBytes with real ed25519 / secp256k1 member keys, and through
// auth.DefaultSigVerificationGasConsumer (the ante handler walks the same bit array first).
package main

import (
	"bytes"
	"encoding/json"
	"fmt"
	"os"
	"runtime"
	"sort"
	"strings"
	"sync"
	"sync/atomic"

	"github.com/gnolang/gno/tm2/pkg/amino"
	"github.com/gnolang/gno/tm2/pkg/crypto"
	"github.com/gnolang/gno/tm2/pkg/crypto/ed25519"
	"github.com/gnolang/gno/tm2/pkg/crypto/multisig"
	"github.com/gnolang/gno/tm2/pkg/crypto/multisig/bitarray"
	"github.com/gnolang/gno/tm2/pkg/crypto/secp256k1"
	"github.com/gnolang/gno/tm2/pkg/sdk/auth"
	"github.com/gnolang/gno/tm2/pkg/store"

	"verifharness/mbt"
)

const maxKeys = 24

var (
	msg      = []byte("verif C44 sign bytes: chain-id/account/sequence/fee/msgs")
	otherMsg = []byte("verif C44 another message")
	keyTypes = []string{"ed", "secp", "mixed"}
	flavours = []string{"flip", "empty", "trunc", "long", "wrongmsg"}
)

type member struct {
	priv     crypto.PrivKey
	pub      crypto.PubKey
	sig      []byte // valid signature over msg
	sigOther []byte // valid signature over otherMsg
}

// keyring[keyType][j] — deterministic keys, signatures computed once.
var keyring = map[string][]member{}

func mkMember(kind string, j int) member {
	var priv crypto.PrivKey
	secret := []byte(fmt.Sprintf("verif-c44-%s-%d", kind, j))
	if kind == "ed" {
		priv = ed25519.GenPrivKeyFromSecret(secret)
	} else {
		priv = secp256k1.GenPrivKeySecp256k1(secret)
	}
	s1, err := priv.Sign(msg)
	if err != nil {
		mbt.Die("sign: %v", err)
	}
	s2, err := priv.Sign(otherMsg)
	if err != nil {
		mbt.Die("sign: %v", err)
	}
	return member{priv: priv, pub: priv.PubKey(), sig: s1, sigOther: s2}
}

func initKeys() {
	for _, kt := range keyTypes {
		ms := make([]member, maxKeys)
		for j := 0; j < maxKeys; j++ {
			kind := kt
			if kt == "mixed" {
				kind = []string{"ed", "secp"}[j%2]
			}
			ms[j] = mkMember(kind, j)
		}
		keyring[kt] = ms
	}
}

type env struct {
	n, k   int
	kt     string
	bad    string
	mem    []member
	pk     multisig.PubKeyMultisigThreshold
	ms     *multisig.Multisignature
	sigIDs map[string]int // real signature bytes -> spec value (0 = valid for no key)
}

func newEnv(n, k int, kt, bad string) *env {
	e := &env{n: n, k: k, kt: kt, bad: bad, mem: keyring[kt][:n], sigIDs: map[string]int{}}
	pubs := make([]crypto.PubKey, n)
	for j := range pubs {
		pubs[j] = e.mem[j].pub
		e.sigIDs[string(e.mem[j].sig)] = j + 1
	}
	e.pk = multisig.NewPubKeyMultisigThreshold(k, pubs).(multisig.PubKeyMultisigThreshold)
	e.ms = multisig.NewMultisig(n)
	return e
}

// badSig realises spec value 0 near position pos with the given flavour.
func (e *env) badSig(pos int, flavour string) []byte {
	if pos < 0 || pos >= e.n {
		pos = 0
	}
	v := e.mem[pos].sig
	var out []byte
	switch flavour {
	case "flip":
		out = append([]byte(nil), v...)
		out[(7*pos+5)%len(out)] ^= 1 << uint(pos%8)
	case "empty":
		out = []byte{}
	case "trunc":
		out = append([]byte(nil), v[:len(v)-1]...)
	case "long":
		out = append(append([]byte(nil), v...), 0x01)
	case "wrongmsg":
		out = append([]byte(nil), e.mem[pos].sigOther...)
	default:
		mbt.Die("unknown flavour %q", flavour)
	}
	return out
}

func (e *env) realise(s, pos int) []byte {
	if s >= 1 && s <= e.n {
		return append([]byte(nil), e.mem[s-1].sig...)
	}
	b := e.badSig(pos, e.bad)
	e.sigIDs[string(b)] = 0
	return b
}

// classify mirrors Shape of the spec, computed from the REAL (decoded) object.
func classify(n int, m *multisig.Multisignature) string {
	ba := m.BitArray
	if ba == nil {
		return "nil"
	}
	size := ba.Size()
	if size > 8*len(ba.Elems) {
		return "malformed-bitarray"
	}
	marked, beyond := 0, false
	for i := 0; i < size; i++ {
		if ba.Elems[i>>3]&(1<<uint(7-i%8)) != 0 {
			marked++
			if i >= n {
				beyond = true
			}
		}
	}
	switch {
	case marked > len(m.Sigs):
		return "marked>sigs"
	case beyond || size > n:
		return "bits>keys"
	}
	return "ok"
}

func (e *env) project() map[string]any {
	st := map[string]any{"nil": e.ms.BitArray == nil, "size": e.ms.BitArray.Size()}
	marks := []int{}
	if ba := e.ms.BitArray; ba != nil {
		st["extra"] = int(ba.ExtraBitsStored)
		st["nel"] = len(ba.Elems)
		for i := 0; i < 8*len(ba.Elems); i++ {
			if ba.Elems[i>>3]&(1<<uint(7-i%8)) != 0 {
				marks = append(marks, i)
			}
		}
	} else {
		st["extra"], st["nel"] = 0, 0
	}
	st["marks"] = marks
	sigs := []int{}
	for _, s := range e.ms.Sigs {
		id, ok := e.sigIDs[string(s)]
		if !ok {
			id = -1
		}
		sigs = append(sigs, id)
	}
	st["sigs"] = sigs
	return st
}

func normExp(st map[string]any) map[string]any {
	marks := mbt.Ints(st["marks"])
	sort.Ints(marks)
	return map[string]any{"nil": st["nil"], "size": st["size"], "extra": st["extra"], "nel": st["nel"],
		"marks": marks, "sigs": mbt.Ints(st["sigs"])}
}

// ---------------------------------------------------------------- reporting (one report per failing class)

type cand struct {
	key, what string
	c         any
	rank      [3]int // probe?, number of steps, behaviour index: the smallest is reported
}

var (
	seenMu sync.Mutex
	seen   = map[string]int{}
	best   = map[string]cand{}
)

// report records a violation of class key; per class the smallest case is emitted at exit
// (deterministic whatever the goroutine schedule).
func report(key, what string, c any) {
	m, _ := c.(map[string]any)
	r := [3]int{0, 0, 0}
	if m != nil {
		if _, isProbe := m["probe"]; isProbe {
			r[0] = 1
		}
		if st, ok := m["steps"].([]mbt.Step); ok {
			r[1] = len(st)
		}
		if bi, ok := m["beh"].(int); ok {
			r[2] = bi
		}
	}
	seenMu.Lock()
	seen[key]++
	if b, ok := best[key]; !ok || less(r, b.rank) {
		best[key] = cand{key, what, c, r}
	}
	seenMu.Unlock()
}

func less(a, b [3]int) bool {
	for i := range a {
		if a[i] != b[i] {
			return a[i] < b[i]
		}
	}
	return false
}

func flushReports() {
	keys := make([]string, 0, len(best))
	for k := range best {
		keys = append(keys, k)
	}
	sort.Strings(keys)
	for _, k := range keys {
		mbt.Mismatch(k, best[k].what, best[k].c)
	}
}

var gasParams = auth.DefaultParams()

type counters struct{ verify, gas, bytesProbes, member int64 }

var cnt counters

// verifyBoth calls the real VerifyBytes and the real gas consumer on marshalled bytes bz.
// expected < 0: reply unconstrained (only "no panic" is required).
func (e *env) verifyBoth(bz []byte, expected int, class func() string, caseOf func() any, where string) {
	var got bool
	run := func() (bool, any, string) { return mbt.Guard(func() { got = e.pk.VerifyBytes(msg, bz) }) }
	p, val, st := run()
	atomic.AddInt64(&cnt.verify, 1)
	if p {
		if p2, _, _ := run(); !p2 {
			mbt.Die("FLAKY: VerifyBytes panic did not reproduce")
		}
		report("C44:VerifyBytes:panic:"+class(), fmt.Sprintf("%s: VerifyBytes panicked (%v) at %s; %d-of-%d key, multisignature %s",
			where, val, mbt.ShortStack(st), e.k, e.n, e.describe(bz)), caseOf())
	} else if expected >= 0 && got != (expected == 1) {
		g1 := got
		run()
		if got != g1 {
			mbt.Die("FLAKY: VerifyBytes reply did not reproduce")
		}
		kind := "false-accept"
		if !got {
			kind = "false-reject"
		}
		report("C44:VerifyBytes:"+kind+":"+class(), fmt.Sprintf("%s: VerifyBytes = %v, property says %v; %d-of-%d key, multisignature %s",
			where, got, expected == 1, e.k, e.n, e.describe(bz)), caseOf())
	}
	gp, gval, gst := mbt.Guard(func() {
		auth.DefaultSigVerificationGasConsumer(store.NewInfiniteGasMeter(), bz, e.pk, gasParams)
	})
	atomic.AddInt64(&cnt.gas, 1)
	if gp {
		report("C44:SigGasConsumer:panic:"+class(), fmt.Sprintf("%s: DefaultSigVerificationGasConsumer panicked (%v) at %s; %d-of-%d key, multisignature %s",
			where, gval, mbt.ShortStack(gst), e.k, e.n, e.describe(bz)), caseOf())
	}
}

func (e *env) describe(bz []byte) string {
	var m multisig.Multisignature
	if err := amino.Unmarshal(bz, &m); err != nil {
		return fmt.Sprintf("undecodable (%d bytes)", len(bz))
	}
	if m.BitArray == nil {
		return fmt.Sprintf("{BitArray:nil Sigs:%d}", len(m.Sigs))
	}
	return fmt.Sprintf("{ExtraBitsStored:%d Elems:%x Size():%d Sigs:%d}", m.BitArray.ExtraBitsStored, m.BitArray.Elems, m.BitArray.Size(), len(m.Sigs))
}

func replay(beh []mbt.Step, kt, bad string, probeBytes bool, bi int) bool {
	if len(beh) == 0 || beh[0].Act() != "New" {
		mbt.Die("behaviour must start with New")
	}
	n, k := beh[0].Int("i"), beh[0].Int("s")
	if n > maxKeys {
		mbt.Die("n too large")
	}
	e := newEnv(n, k, kt, bad)
	ok := true
	for idx, s := range beh {
		caseOf := func() any {
			return map[string]any{"keytype": kt, "bad": bad, "steps": beh[:idx+1], "beh": bi}
		}
		i, sv := s.Int("i"), s.Int("s")
		switch s.Act() {
		case "New":
		case "AddSignature":
			sig := e.realise(sv, i)
			if p, val, st := mbt.Guard(func() { e.ms.AddSignature(sig, i) }); p {
				report("C44:AddSignature:panic", fmt.Sprintf("AddSignature(%d) panicked: %v at %s", i, val, mbt.ShortStack(st)), caseOf())
				return false
			}
		case "DropSig":
			ns := make([][]byte, 0, len(e.ms.Sigs))
			ns = append(ns, e.ms.Sigs[:i-1]...)
			ns = append(ns, e.ms.Sigs[i:]...)
			e.ms.Sigs = ns
		case "AppendSig":
			e.ms.Sigs = append(e.ms.Sigs[:len(e.ms.Sigs):len(e.ms.Sigs)], e.realise(sv, len(e.ms.Sigs)))
		case "FlipBit":
			e.ms.BitArray.Elems[i>>3] ^= 1 << uint(7-i%8)
		case "SetExtra":
			e.ms.BitArray.ExtraBitsStored = byte(i)
		case "SetNel":
			ne := make([]byte, i)
			copy(ne, e.ms.BitArray.Elems)
			e.ms.BitArray.Elems = ne
		case "NilBits":
			e.ms.BitArray = nil
		case "VerifyMember":
			e.verifyMember(i, sv, s.Bool("acc"), caseOf)
			continue
		default:
			mbt.Die("unknown act %q", s.Act())
		}
		exp := normExp(s["st"].(map[string]any))
		obs := e.project()
		if !mbt.Eq(obs, exp) {
			report("C44:"+s.Act()+":state", fmt.Sprintf("step %d %s: multisignature is %s, spec %s", idx, mbt.JS(s), mbt.JS(obs), mbt.JS(exp)), caseOf())
			return false
		}
		var bz []byte
		if p, val, _ := mbt.Guard(func() { bz = amino.MustMarshal(e.ms) }); p {
			mbt.Die("amino.MustMarshal(multisignature) panicked: %v", val)
		}
		expected := 0
		if s.Bool("acc") {
			expected = 1
		}
		cur := e.ms
		e.verifyBoth(bz, expected, func() string { return classify(n, cur) }, caseOf, fmt.Sprintf("step %d (%s)", idx, s.Act()))
		if probeBytes && idx == len(beh)-1 {
			e.probeBytes(bz, caseOf)
		}
	}
	return ok
}

// probeBytes: "verification of arbitrary signature bytes returns false instead of panicking" on
// byte-level neighbours of a structured multisignature: every truncation, every single-byte change of the
// structural prefix. Only absence of panics is required (the reply is not constrained here; undecodable
// bytes must be rejected).
func (e *env) probeBytes(bz []byte, caseOf func() any) {
	probe := func(b []byte, where string) {
		atomic.AddInt64(&cnt.bytesProbes, 1)
		class := func() string {
			var m multisig.Multisignature
			if err := amino.Unmarshal(b, &m); err != nil {
				return "undecodable"
			}
			return classify(e.n, &m)
		}
		co := func() any {
			c := caseOf().(map[string]any)
			c["bytes_hex"] = fmt.Sprintf("%x", b)
			c["probe"] = where
			return c
		}
		var m multisig.Multisignature
		if amino.Unmarshal(b, &m) != nil {
			// the gas consumer uses MustUnmarshal by design; undecodable bytes only go to VerifyBytes
			var got bool
			if p, val, st := mbt.Guard(func() { got = e.pk.VerifyBytes(msg, b) }); p {
				report("C44:VerifyBytes:panic:undecodable", fmt.Sprintf("%s: VerifyBytes panicked (%v) at %s", where, val, mbt.ShortStack(st)), co())
			} else if got {
				report("C44:VerifyBytes:false-accept:undecodable", where+": undecodable bytes accepted", co())
			}
			return
		}
		e.verifyBoth(b, -1, class, co, where)
	}
	for l := 0; l < len(bz); l++ {
		probe(append([]byte(nil), bz[:l]...), fmt.Sprintf("truncated to %d of %d bytes", l, len(bz)))
	}
	lim := len(bz)
	if lim > 12 {
		lim = 12
	}
	for p := 0; p < lim; p++ {
		for _, d := range []byte{0x01, 0x08, 0x80, 0xff} {
			b := append([]byte(nil), bz...)
			b[p] ^= d
			probe(b, fmt.Sprintf("byte %d xor %#x", p, d))
		}
	}
}

// verifyMember: single-key clause for member i with signature value s.
func (e *env) verifyMember(i, s int, acc bool, caseOf func() any) {
	pub := e.mem[i].pub
	kind := "ed25519"
	if _, isSecp := pub.(secp256k1.PubKeySecp256k1); isSecp {
		kind = "secp256k1"
	}
	check := func(m, sig []byte, want bool, what string) {
		atomic.AddInt64(&cnt.member, 1)
		var got bool
		if p, val, st := mbt.Guard(func() { got = pub.VerifyBytes(m, sig) }); p {
			report("C44:VerifyMember:"+kind+":panic", fmt.Sprintf("%s: %s VerifyBytes panicked: %v at %s", what, kind, val, mbt.ShortStack(st)), caseOf())
		} else if got != want {
			report(fmt.Sprintf("C44:VerifyMember:%s:got-%v", kind, got), fmt.Sprintf("%s: %s VerifyBytes = %v, want %v (sig %x)", what, kind, got, want, sig), caseOf())
		}
	}
	if s >= 1 {
		check(msg, e.mem[s-1].sig, acc, fmt.Sprintf("signature by key %d checked against key %d", s, i+1))
		// exactly the signed message: the same signature does not verify another message
		check(otherMsg, e.mem[s-1].sig, false, "valid signature, other message")
		check(append(append([]byte(nil), msg...), 0), e.mem[s-1].sig, false, "valid signature, message extended by one byte")
		check(msg[:len(msg)-1], e.mem[s-1].sig, false, "valid signature, message shortened by one byte")
		return
	}
	for _, fl := range flavours {
		check(msg, e.badSig(i, fl), false, "invalid signature ("+fl+")")
	}
	v := e.mem[i].sig
	for bit := 0; bit < 8*len(v); bit++ { // every single-bit change of a valid signature
		b := append([]byte(nil), v...)
		b[bit/8] ^= 1 << uint(bit%8)
		check(msg, b, false, fmt.Sprintf("valid signature with bit %d flipped", bit))
	}
	for l := 0; l <= 70; l++ { // every length, zero bytes and a repeated pattern
		check(msg, make([]byte, l), false, fmt.Sprintf("%d zero bytes", l))
		check(msg, []byte(strings.Repeat("\xff", l)), false, fmt.Sprintf("%d 0xff bytes", l))
	}
}

func readLines(path string) [][]byte {
	bz, err := os.ReadFile(path)
	if err != nil {
		mbt.Die("%v", err)
	}
	var out [][]byte
	for _, l := range bytes.Split(bz, []byte{'\n'}) {
		if len(l) > 0 {
			out = append(out, l)
		}
	}
	return out
}

func decodeBeh(line []byte) []mbt.Step {
	var steps []mbt.Step
	if err := json.Unmarshal(line, &steps); err != nil {
		mbt.Die("bad behaviour line: %v", err)
	}
	return steps
}

func main() {
	f := mbt.ParseFlags()
	initKeys()
	lines := readLines(f.In) // decoded per worker: a large thorough-tier input never sits in memory as maps
	// -x "kt|bad" restricts the realisation (replay of a recorded case); default: all key types, flavour rotates
	var onlyKT, onlyBad string
	if f.Extra != "" {
		p := strings.Split(f.Extra, "|")
		onlyKT = p[0]
		if len(p) > 1 {
			onlyBad = p[1]
		}
	}
	probeEvery := 8
	if f.Tier == "thorough" {
		probeEvery = 16
	}
	var replays, okc, steps int64
	var wg sync.WaitGroup
	nw := runtime.NumCPU()
	for w := 0; w < nw; w++ {
		wg.Add(1)
		go func(w int) {
			defer wg.Done()
			for i := w; i < len(lines); i += nw {
				beh := decodeBeh(lines[i])
				for t, kt := range keyTypes {
					if onlyKT != "" && kt != onlyKT {
						continue
					}
					bad := flavours[(i+int(f.Seed)+t)%len(flavours)]
					if onlyBad != "" {
						bad = onlyBad
					}
					if replay(beh, kt, bad, (i+t)%probeEvery == 0 || onlyKT != "", i*4+t) {
						atomic.AddInt64(&okc, 1)
					}
					atomic.AddInt64(&replays, 1)
					atomic.AddInt64(&steps, int64(len(beh)))
				}
			}
		}(w)
	}
	wg.Wait()
	for i := 0; i < len(lines) && i < 2; i++ {
		mbt.Sample(json.RawMessage(lines[len(lines)-1-i]))
	}
	sm := map[string]any{"behaviours": len(lines), "replays": replays, "replays_ok": okc, "steps": steps,
		"verify_calls": cnt.verify, "gas_consumer_calls": cnt.gas, "byte_probes": cnt.bytesProbes, "member_checks": cnt.member}
	flushReports()
	seenMu.Lock()
	for k, v := range seen {
		sm["hits "+k] = v
	}
	seenMu.Unlock()
	mbt.Summary(sm)
	mbt.Flush()
	_ = bitarray.CompactBitArray{}
}
