// Driver for C36 (spec/CommitVerify.tla): builds every commit shape TLC enumerated with real
// ed25519 signatures and compares accept/reject of ValidatorSet.VerifyCommit /
// VerifyFutureCommit with the spec's reply.
package main

import (
	"fmt"
	"runtime"
	"sort"
	"strings"
	"sync"
	"sync/atomic"
	"time"

	"github.com/gnolang/gno/tm2/pkg/amino"
	"github.com/gnolang/gno/tm2/pkg/bft/types"
	"github.com/gnolang/gno/tm2/pkg/crypto/ed25519"

	"verifharness/mbt"
)

const (
	chainID = "verif-chain"
	poolP   = 4 // pool size of the spec (keys 1..P); pool[P] = spare signer, pool[P+1] = unknown address
	nomH    = 3 // H of the cfg
	nomR    = 1 // R of the cfg
)

var pool []ed25519.PrivKeyEd25519

func init() {
	for i := 0; i < poolP+2; i++ {
		pool = append(pool, ed25519.GenPrivKeyFromSecret([]byte(fmt.Sprintf("verif-val-%d", i))))
	}
	sort.Slice(pool, func(i, j int) bool {
		return pool[i].PubKey().Address().Compare(pool[j].PubKey().Address()) < 0
	})
}

func blockID(name string) types.BlockID {
	if name == "nil" {
		return types.BlockID{}
	}
	h := make([]byte, 32)
	copy(h, []byte("block-"+name))
	ph := make([]byte, 32)
	copy(ph, []byte("parts-"+name))
	return types.BlockID{Hash: h, PartsHeader: types.PartSetHeader{Total: 1, Hash: ph}}
}

// class table: must agree with E(c) of the spec.
type eclass struct {
	blk      string
	hd, rd   int
	prevote  bool
	corrupt  bool
	sgn      int    // 0 = validator at this index signs, 1 = the next pool key signs
	addr     string // own | next | unknown
	idxOff   int    // added to ValidatorIndex (unsigned field)
	negParts bool   // block id with PartSetHeader.Total = -1 (cannot be signed)
}

var classes = map[string]eclass{
	"okA":   {blk: "A", addr: "own"},
	"okB":   {blk: "B", addr: "own"},
	"okNil": {blk: "nil", addr: "own"},
	"badA":  {blk: "A", addr: "own", corrupt: true},
	"badB":  {blk: "B", addr: "own", corrupt: true},
	"wsA":   {blk: "A", addr: "own", sgn: 1},
	"h1A":   {blk: "A", addr: "own", hd: 1},
	"r1A":   {blk: "A", addr: "own", rd: 1},
	"pvA":   {blk: "A", addr: "own", prevote: true},
	"adA":   {blk: "A", addr: "next"},
	"auA":   {blk: "A", addr: "unknown"},
	"ixA":   {blk: "A", addr: "own", idxOff: 7},
	"npB":   {blk: "B", addr: "own", corrupt: true, negParts: true},
}

func nextKey(k int) int { return (k+1)%poolP + 0 } // 0-based version of (k % P) + 1

type sigKey struct {
	pos int
	cls string
}

var (
	sigCache   = map[sigKey]*types.CommitSig{}
	sigCacheMu sync.Mutex
)

// entry returns the CommitSig of class cls for the validator pool[pos] placed at commit index idx.
func entry(pos int, cls string, idx int) *types.CommitSig {
	if cls == "nil" {
		return nil
	}
	k := sigKey{pos, cls}
	sigCacheMu.Lock()
	c := sigCache[k]
	sigCacheMu.Unlock()
	if c == nil {
		c = mkEntry(pos, cls)
		sigCacheMu.Lock()
		sigCache[k] = c
		sigCacheMu.Unlock()
	}
	cp := *c
	cp.ValidatorIndex = idx + classes[cls].idxOff
	return &cp
}

func mkEntry(pos int, cls string) *types.CommitSig {
	ec, ok := classes[cls]
	if !ok {
		mbt.Die("unknown entry class %q", cls)
	}
	v := &types.Vote{
		Type: types.PrecommitType, Height: int64(nomH + ec.hd), Round: nomR + ec.rd, BlockID: blockID(ec.blk),
		Timestamp: time.Unix(1700000000+int64(pos), 0).UTC(),
	}
	if ec.prevote {
		v.Type = types.PrevoteType
	}
	switch ec.addr {
	case "own":
		v.ValidatorAddress = pool[pos].PubKey().Address()
	case "next":
		v.ValidatorAddress = pool[nextKey(pos)].PubKey().Address()
	default:
		v.ValidatorAddress = pool[poolP+1].PubKey().Address()
	}
	signer := pool[pos]
	if ec.sgn == 1 {
		signer = pool[nextKey(pos)]
	}
	sig, err := signer.Sign(v.SignBytes(chainID))
	if err != nil {
		panic(err)
	}
	if ec.corrupt {
		sig[9] ^= 0x10
	}
	if ec.negParts {
		v.BlockID.PartsHeader.Total = -1
	}
	v.Signature = sig
	return v.CommitSig()
}

type setPair struct{ newSet, oldSet *types.ValidatorSet; keys []int }

func mkSet(pw []int) (*types.ValidatorSet, []int) {
	var vals []*types.Validator
	var keys []int
	for k, p := range pw {
		if p > 0 {
			vals = append(vals, types.NewValidator(pool[k].PubKey(), int64(p)))
			keys = append(keys, k)
		}
	}
	vs := types.NewValidatorSet(vals)
	for i, k := range keys { // index order of the real set == pool order
		addr, v := vs.GetByIndex(i)
		if addr != pool[k].PubKey().Address() || v.VotingPower != int64(pw[k]) {
			mbt.Die("validator order assumption broken")
		}
	}
	return vs, keys
}

func panicKey(val any) string {
	s := fmt.Sprint(val)
	switch {
	case strings.Contains(s, "out of canonical uint32 range"):
		return "panic:PartSetHeader.Total-out-of-range-in-sign-bytes"
	case strings.Contains(s, "nil pointer"):
		return "panic:nil-pointer"
	case strings.Contains(s, "index out of range"):
		return "panic:index-out-of-range"
	}
	return "panic:other"
}

var (
	reported   = map[string]int{}
	reportedMu sync.Mutex
)

func report(key, what string, c any) {
	reportedMu.Lock()
	reported[key]++
	n := reported[key]
	reportedMu.Unlock()
	if n <= 6 { // the same class is not written out thousands of times
		mbt.Mismatch(key, what, c)
	}
}

type counters struct{ calls, accepts, vfcAccepts, decodable, ok int64 }

func replay(beh []mbt.Step, cnt *counters) bool {
	b0 := beh[0]
	if b0.Act() != "Build" {
		mbt.Die("behaviour does not start with Build")
	}
	newSet, keys := mkSet(mbt.Ints(b0["new"]))
	oldSet, _ := mkSet(mbt.Ints(b0["old"]))
	ents := mbt.Strs(b0["ents"])
	pcs := make([]*types.CommitSig, len(ents))
	for i, c := range ents {
		pos := poolP // spare signer for entries beyond the set
		if i < len(keys) {
			pos = keys[i]
		}
		pcs[i] = entry(pos, c, i)
	}
	commit := types.NewCommit(blockID(b0.Str("cbid")), pcs)
	// the commit is a decodable one: round trip through amino, verify the decoded object
	if bz, err := amino.Marshal(commit); err == nil {
		var c2 types.Commit
		if err := amino.Unmarshal(bz, &c2); err == nil {
			if len(c2.Precommits) == len(pcs) {
				commit = &c2
				atomic.AddInt64(&cnt.decodable, 1)
			}
		}
	}
	good := true
	for k := 1; k < len(beh); k++ {
		s := beh[k]
		bid, h := blockID(s.Str("b")), int64(s.Int("h"))
		var err error
		p, val, st := mbt.Guard(func() {
			if s.Act() == "VC" {
				err = newSet.VerifyCommit(chainID, bid, h, commit)
			} else {
				err = oldSet.VerifyFutureCommit(newSet, chainID, bid, h, commit)
			}
		})
		atomic.AddInt64(&cnt.calls, 1)
		cs := map[string]any{"steps": []mbt.Step{b0, s}}
		if p {
			report("C36:"+panicKey(val),
				fmt.Sprintf("%s panicked (spec: %s/%s) on %s: %v at %s", s.Act(), s.Str("reply"), s.Str("why"), mbt.JS(b0), val, mbt.ShortStack(st)), cs)
			good = false
			continue
		}
		reply := "accept"
		if err != nil {
			reply = "reject"
		} else {
			atomic.AddInt64(&cnt.accepts, 1)
			if s.Act() == "VFC" {
				atomic.AddInt64(&cnt.vfcAccepts, 1)
			}
		}
		if reply != s.Str("reply") {
			key := fmt.Sprintf("C36:%s:code-%ss-spec-%ss", s.Act(), reply, s.Str("reply"))
			if reply == "accept" {
				key += ":" + s.Str("why")
			}
			report(key, fmt.Sprintf("%s(h=%d, block %s) on %s: code %s (err=%v), spec %s (%s)", s.Act(), h, s.Str("b"), mbt.JS(b0), reply, err, s.Str("reply"), s.Str("why")), cs)
			good = false
		}
	}
	if good {
		atomic.AddInt64(&cnt.ok, 1)
	}
	return good
}

func main() {
	f := mbt.ParseFlags()
	behs, err := mbt.ReadBehaviours(f.In)
	if err != nil {
		mbt.Die("%v", err)
	}
	var cnt counters
	var wg sync.WaitGroup
	nw := runtime.NumCPU()
	for w := 0; w < nw; w++ {
		wg.Add(1)
		go func(w int) {
			defer wg.Done()
			for i := w; i < len(behs); i += nw {
				replay(behs[i], &cnt)
			}
		}(w)
	}
	wg.Wait()
	ns := 0
	for i := 0; i < len(behs) && ns < 3; i++ { // samples: prefer behaviours with an accept
		for _, s := range behs[i][1:] {
			if s.Str("reply") == "accept" {
				mbt.Sample(behs[i])
				ns++
				break
			}
		}
	}
	if ns == 0 && len(behs) > 0 {
		mbt.Sample(behs[0])
	}
	mbt.Summary(map[string]any{"behaviours": len(behs), "replays": len(behs), "replays_ok": cnt.ok, "calls": cnt.calls,
		"accepts": cnt.accepts, "vfc_accepts": cnt.vfcAccepts, "decodable": cnt.decodable})
	mbt.Flush()
}
