// Driver for C14 (spec/Bank.tla, spec/BankTrace.tla).
//
//	-mode replay : replays TLC behaviours on the REAL bank keeper in a keeper-test-environment
//	               shaped setup (memdb multistore, bptree main store, params + auth keepers) and
//	               compares, after every step, the reply class, a RAW dump of both balance tiers,
//	               the supply counters and the account objects, and the verdict of the
//	               repository's own bank.AllInvariants / auth.AllInvariants.
//	-mode record : runs seeded histories on the REAL gno.land application and records, per
//	               committed block, the same raw dump read through an independent multistore
//	               opened on a copy of the application's database (see record.go).
package main

import (
	"bufio"
	"encoding/binary"
	"encoding/json"
	"fmt"
	"os"
	"runtime"
	"sort"
	"strings"
	"sync"
	"sync/atomic"
	"time"

	"github.com/gnolang/gno/gno.land/pkg/gnoland"
	"github.com/gnolang/gno/tm2/pkg/amino"
	abcit "github.com/gnolang/gno/tm2/pkg/bft/abci/types"
	bft "github.com/gnolang/gno/tm2/pkg/bft/types"
	"github.com/gnolang/gno/tm2/pkg/crypto"
	"github.com/gnolang/gno/tm2/pkg/crypto/secp256k1"
	"github.com/gnolang/gno/tm2/pkg/db/memdb"
	tmerrors "github.com/gnolang/gno/tm2/pkg/errors"
	"github.com/gnolang/gno/tm2/pkg/log"
	"github.com/gnolang/gno/tm2/pkg/sdk"
	"github.com/gnolang/gno/tm2/pkg/sdk/auth"
	"github.com/gnolang/gno/tm2/pkg/sdk/bank"
	"github.com/gnolang/gno/tm2/pkg/sdk/params"
	"github.com/gnolang/gno/tm2/pkg/std"
	"github.com/gnolang/gno/tm2/pkg/store"
	storebptree "github.com/gnolang/gno/tm2/pkg/store/bptree"
	"github.com/gnolang/gno/tm2/pkg/store/dbadapter"

	"verifharness/mbt"
)

const (
	denomU = "ugnot"                      // account tier
	denomT = "/gno.land/r/verif/bank:tok" // split tier (realm-issued shape)
	t0     = int64(1_000_000)             // unix time of tick 0
)

var denomName = map[string]string{"u": denomU, "t": denomT}
var denomKey = map[string]string{denomU: "u", denomT: "t"}

// ---------------------------------------------------------------- keeper environment

type kenv struct {
	ms    store.CommitMultiStore
	key   store.StoreKey
	acck  auth.AccountKeeper
	bankk bank.BankKeeper
	prmk  params.ParamsKeeper
	base  sdk.Context
	outer store.MultiStore // the behaviour's state: a cache layer over the committed (params only) store
	now   int64            // tick
	scale int64
	names map[crypto.Address]string
	addrs map[string]crypto.Address
	coll  crypto.Address
	keys  map[string]secp256k1.PrivKeySecp256k1 // every address of a behaviour is a keyed account, the fee collector included
	ante  sdk.AnteHandler
	handler interface {
		Process(ctx sdk.Context, msg std.Msg) sdk.Result
	}
	genKey string           // JSON of the genesis step the layer below was built from
	gen    store.MultiStore // state after genesis (verified once), shared by the behaviours of one run
}

func newKenv(scale int64) *kenv {
	db := memdb.NewMemDB()
	baseKey := store.NewStoreKey("base")
	mainKey := store.NewStoreKey("main")
	ms := store.NewCommitMultiStore(db)
	ms.MountStoreWithDB(baseKey, dbadapter.StoreConstructor, db)
	ms.MountStoreWithDB(mainKey, storebptree.FastStoreConstructor, db)
	if err := ms.LoadLatestVersion(); err != nil {
		mbt.Die("load: %v", err)
	}
	ctx := sdk.NewContext(sdk.RunTxModeDeliver, ms, &bft.Header{ChainID: "verif-chain", Height: 1, Time: time.Unix(t0, 0).UTC()}, log.NewNoopLogger())
	prmk := params.NewParamsKeeper(mainKey)
	acck := auth.NewAccountKeeper(mainKey, prmk.ForModule(auth.ModuleName), gnoland.ProtoGnoAccount, gnoland.ProtoGnoSessionAccount)
	bankk := bank.NewBankKeeper(acck, prmk.ForModule(bank.ModuleName), mainKey, []string{denomU})
	prmk.Register(auth.ModuleName, acck)
	prmk.Register(bank.ModuleName, bankk)
	// the fee collector is a governance-settable address: here a keyed account that can sign transactions
	ap := auth.DefaultParams()
	ap.FeeCollector = keyOf("coll").PubKey().Address()
	if err := acck.SetParams(ctx, ap); err != nil {
		mbt.Die("auth params: %v", err)
	}
	ms.Commit()
	e := &kenv{ms: ms, key: mainKey, acck: acck, bankk: bankk, prmk: prmk, base: ctx, scale: scale}
	e.coll = acck.FeeCollectorAddress(ctx)
	e.handler = bank.NewHandler(bankk)
	e.ante = auth.NewAnteHandler(acck, bankk, auth.DefaultSigVerificationGasConsumer, auth.AnteOptions{VerifyGenesisSignatures: true})
	return e
}

func (e *kenv) reset(addrNames []string, from store.MultiStore) {
	e.outer = from.MultiCacheWrap()
	e.now = 0
	e.names = map[crypto.Address]string{}
	e.addrs = map[string]crypto.Address{}
	e.keys = map[string]secp256k1.PrivKeySecp256k1{}
	for _, n := range addrNames {
		e.keys[n] = keyOf(n)
		a := e.keys[n].PubKey().Address()
		if n == "coll" && a != e.coll {
			mbt.Die("fee collector address is not the collector key's")
		}
		e.names[a] = n
		e.addrs[n] = a
	}
}

func keyOf(name string) secp256k1.PrivKeySecp256k1 {
	return secp256k1.GenPrivKeySecp256k1([]byte("verif-bank-" + name))
}

// anteTx builds a transaction signed by the given accounts (each with its current account number and
// sequence) and runs the REAL auth ante handler on it. An abort discards the layer, as runTx does.
func (e *kenv) anteTx(ctx sdk.Context, signers []string, fee int64) error {
	var msgs []std.Msg
	for _, n := range signers {
		msgs = append(msgs, bank.MsgSend{FromAddress: e.addrs[n], ToAddress: e.addrs[n], Amount: std.Coins{{Denom: denomU, Amount: 1}}})
	}
	tx := std.Tx{Msgs: msgs, Fee: std.Fee{GasWanted: 50_000_000, GasFee: std.Coin{Denom: denomU, Amount: fee * e.scale}}}
	for _, n := range signers {
		acc := e.acck.GetAccount(ctx, e.addrs[n])
		if acc == nil {
			mbt.Die("signer %s has no account", n)
		}
		sb, err := tx.GetSignBytes(ctx.ChainID(), acc.GetAccountNumber(), acc.GetSequence())
		if err != nil {
			return err
		}
		sig, err := e.keys[n].Sign(sb)
		if err != nil {
			return err
		}
		tx.Signatures = append(tx.Signatures, std.Signature{PubKey: e.keys[n].PubKey(), Signature: sig})
	}
	actx := ctx.WithConsensusParams(&abcit.ConsensusParams{Block: &abcit.BlockParams{MaxTxBytes: 1_000_000, MaxDataBytes: 2_000_000, MaxGas: 1_000_000_000, TimeIotaMS: 100}}).
		WithValue(auth.AuthParamsContextKey{}, e.acck.GetParams(ctx))
	_, res, abort := e.ante(actx, tx, false)
	if abort {
		return res.Error
	}
	return nil
}

func (e *kenv) ctxOn(ms store.MultiStore) sdk.Context {
	return e.base.WithMultiStore(ms).WithBlockHeader(&bft.Header{ChainID: "verif-chain", Height: 1, Time: time.Unix(t0+e.now, 0).UTC()})
}


// run executes one keeper call on its own cache layer. A panic discards the layer (transaction
// abort); an error return keeps whatever the call wrote (the keeper's own error atomicity is what
// is being checked) unless msgLevel is set (calls that are atomic only behind the handler).
func (e *kenv) run(msgLevel bool, fn func(ctx sdk.Context) error) string {
	layer := e.outer.MultiCacheWrap()
	ctx := e.ctxOn(layer)
	var err error
	if p, val, _ := mbt.Guard(func() { err = fn(ctx) }); p {
		_ = val
		return "panic"
	}
	if err != nil && msgLevel {
		return classify(err)
	}
	layer.MultiWrite()
	return classify(err)
}

func classify(err error) string {
	if err == nil {
		return "ok"
	}
	switch tmerrors.Cause(err).(type) {
	case std.InsufficientCoinsError:
		return "insufficient"
	case std.InsufficientFundsError:
		return "funds"
	case std.VestingLockedCoinsError:
		return "vesting"
	case std.RestrictedTransferError:
		return "restricted"
	case std.InvalidCoinsError:
		return "invalid"
	case bank.InputOutputMismatchError:
		return "mismatch"
	}
	if strings.Contains(err.Error(), "out of range") {
		return "range" // nextSupply: plain error by design (supply.go)
	}
	return "err:" + fmt.Sprintf("%T", tmerrors.Cause(err))
}

func (e *kenv) coins(v any) std.Coins {
	m, _ := v.(map[string]any)
	var out std.Coins
	for _, k := range []string{"t", "u"} { // ascending denom order: "/gno..." < "ugnot"
		n := int64(mbt.Step(m).Int(k))
		if n != 0 {
			out = append(out, std.Coin{Denom: denomName[k], Amount: n * e.scale})
		}
	}
	return out
}

// genesis applies one balance entry exactly like gnoland.InitChainerConfig.applyBalance.
func (e *kenv) genesis(ctx sdk.Context, g map[string]any) {
	gs := mbt.Step(g)
	addr := e.addrs[gs.Str("a")]
	amt := e.coins(g["amt"])
	if gs.Str("kind") == "vest" {
		vs := mbt.Step(g["vs"].(map[string]any))
		sched := std.VestingSchedule{OriginalVesting: e.coins(vs["ov"]), EndTime: t0 + int64(vs.Int("end"))}
		baseAcc := std.BaseAccount{Address: addr, Coins: amt, AccountNumber: e.acck.GetNextAccountNumber(ctx)}
		var acc std.Account
		var err error
		if vs.Str("type") == "delayed" {
			sched.Type = std.VestingDelayed
			acc, err = std.NewDelayedVestingAccount(&baseAcc, sched)
		} else {
			sched.StartTime = t0 + int64(vs.Int("start"))
			acc, err = std.NewContinuousVestingAccount(&baseAcc, sched)
		}
		if err != nil {
			mbt.Die("genesis vesting account: %v", err)
		}
		e.acck.SetAccount(ctx, acc)
	} else {
		acc := e.acck.NewAccountWithAddress(ctx, addr)
		e.acck.SetAccount(ctx, acc)
	}
	if err := e.bankk.SetCoins(ctx, addr, amt); err != nil {
		mbt.Die("genesis SetCoins: %v", err)
	}
	if gs.Bool("wl") {
		acc := e.acck.GetAccount(ctx, addr)
		acc.(*gnoland.GnoAccount).SetTokenLockWhitelisted(true)
		e.acck.SetAccount(ctx, acc)
	}
}

// ---------------------------------------------------------------- raw dump

type dump struct {
	Acct    map[string]map[string]int64 `json:"acct"`
	Split   map[string]map[string]int64 `json:"split"`
	Supply  map[string]int64            `json:"supply"`
	Accs    map[string]map[string]any   `json:"accs"`
	NextNum int64                       `json:"nextnum"`
	BankInv bool                        `json:"bankinv"`
	Vs      map[string]any              `json:"-"`
	bad     []string                    // raw well-formedness findings (own checks, independent of the repository's invariants)
	authMsg string
	bankMsg string
}

func kindOf(acc std.Account) string {
	switch acc.(type) {
	case *gnoland.GnoAccount:
		return "gno"
	case *std.ContinuousVestingAccount, *std.DelayedVestingAccount:
		return "vest"
	case *std.BaseAccount:
		return "base"
	}
	return fmt.Sprintf("%T", acc)
}

// rawDump reads the three keyspaces by prefix iteration, decoding every key and value itself.
func rawDump(ctx sdk.Context, key store.StoreKey, names map[crypto.Address]string, nameList []string, scale int64) *dump {
	d := &dump{Acct: map[string]map[string]int64{}, Split: map[string]map[string]int64{}, Supply: map[string]int64{"u": 0, "t": 0}, Accs: map[string]map[string]any{}}
	for _, n := range nameList {
		d.Acct[n] = map[string]int64{"u": 0, "t": 0}
		d.Split[n] = map[string]int64{"u": 0, "t": 0}
		d.Accs[n] = map[string]any{"kind": "none", "num": int64(-1)}
	}
	unit := func(what string, v int64) int64 {
		if v%scale != 0 {
			d.bad = append(d.bad, fmt.Sprintf("%s: %d is not a multiple of the embedding unit", what, v))
		}
		return v / scale
	}
	st := ctx.Store(key)
	// split tier: /b/ || addr || denom -> 8-byte big-endian positive amount
	it := store.PrefixIterator(nil, st, []byte(bank.BalancePrefix))
	for ; it.Valid(); it.Next() {
		k, v := it.Key(), it.Value()
		pl := len(bank.BalancePrefix) + crypto.AddressSize
		if len(k) <= pl {
			d.bad = append(d.bad, fmt.Sprintf("malformed balance key %X", k))
			continue
		}
		var a crypto.Address
		copy(a[:], k[len(bank.BalancePrefix):pl])
		dn := string(k[pl:])
		if len(v) != 8 {
			d.bad = append(d.bad, fmt.Sprintf("balance value of %s/%s has %d bytes", a, dn, len(v)))
			continue
		}
		u := binary.BigEndian.Uint64(v)
		if u == 0 || u > 1<<63-1 {
			d.bad = append(d.bad, fmt.Sprintf("balance of %s/%s is not positive: %d", a, dn, u))
			continue
		}
		n, ok := names[a]
		dk, okd := denomKey[dn]
		if !ok || !okd {
			d.bad = append(d.bad, fmt.Sprintf("unexpected split-tier balance %s %s = %d", a, dn, u))
			continue
		}
		d.Split[n][dk] += unit("split balance", int64(u))
	}
	it.Close()
	// account objects: /a/ || addr
	it = store.PrefixIterator(nil, st, []byte(auth.AddressStoreKeyPrefix))
	for ; it.Valid(); it.Next() {
		k := it.Key()
		if len(k) != auth.AccountStoreKeyLen {
			continue // session sub-keys (not used by the keeper-level replay)
		}
		var a crypto.Address
		copy(a[:], k[len(auth.AddressStoreKeyPrefix):])
		var acc std.Account
		if err := amino.Unmarshal(it.Value(), &acc); err != nil || acc == nil {
			d.bad = append(d.bad, fmt.Sprintf("account %s does not decode: %v", a, err))
			continue
		}
		if acc.GetAddress() != a {
			d.bad = append(d.bad, fmt.Sprintf("account stored under %s carries address %s", a, acc.GetAddress()))
		}
		n, ok := names[a]
		if !ok {
			d.bad = append(d.bad, fmt.Sprintf("unexpected account %s", a))
			continue
		}
		d.Accs[n] = map[string]any{"kind": kindOf(acc), "num": int64(acc.GetAccountNumber())}
		for _, c := range acc.GetCoins() {
			dk, okd := denomKey[c.Denom]
			if !okd || c.Amount <= 0 {
				d.bad = append(d.bad, fmt.Sprintf("account %s holds %d%s", a, c.Amount, c.Denom))
				continue
			}
			d.Acct[n][dk] += unit("account balance", c.Amount)
		}
	}
	it.Close()
	it = store.PrefixIterator(nil, st, []byte(bank.SupplyPrefix))
	for ; it.Valid(); it.Next() {
		dn := string(it.Key()[len(bank.SupplyPrefix):])
		v := it.Value()
		dk, okd := denomKey[dn]
		if !okd || len(v) != 8 {
			d.bad = append(d.bad, fmt.Sprintf("unexpected supply record %q (%d bytes)", dn, len(v)))
			continue
		}
		u := binary.BigEndian.Uint64(v)
		if u == 0 || u > 1<<63-1 {
			d.bad = append(d.bad, fmt.Sprintf("supply of %s is not positive: %d", dn, u))
			continue
		}
		d.Supply[dk] = unit("supply", int64(u))
	}
	it.Close()
	if bz := st.Get(nil, []byte(auth.GlobalAccountNumberKey)); bz != nil {
		var n uint64
		if err := amino.Unmarshal(bz, &n); err != nil {
			d.bad = append(d.bad, "global account number does not decode")
		}
		d.NextNum = int64(n)
	}
	return d
}

func (e *kenv) project(nameList []string) *dump {
	ctx := e.ctxOn(e.outer.MultiCacheWrap())
	d := rawDump(ctx, e.key, e.names, nameList, e.scale)
	msg, broken := bank.AllInvariants(e.bankk.ViewKeeper)(ctx)
	d.BankInv, d.bankMsg = !broken, msg
	if msg, broken := auth.AllInvariants(e.acck)(ctx); broken {
		d.authMsg = msg
	}
	return d
}

// ---------------------------------------------------------------- replay

func inouts(e *kenv, v any) (ins []bank.Input, outs []bank.Output) {
	for _, x := range v.([]any) {
		m := mbt.Step(x.(map[string]any))
		ins = append(ins, bank.NewInput(e.addrs[m.Str("a")], e.coins(m["amt"])))
		outs = append(outs, bank.NewOutput(e.addrs[m.Str("a")], e.coins(m["amt"])))
	}
	return
}

func (e *kenv) step(s mbt.Step) string {
	A := func(k string) crypto.Address { return e.addrs[s.Str(k)] }
	switch s.Act() {
	case "SendCoins":
		return e.run(false, func(ctx sdk.Context) error { return e.bankk.SendCoins(ctx, A("from"), A("to"), e.coins(s["amt"])) })
	case "SendCoinsUnrestricted":
		return e.run(false, func(ctx sdk.Context) error {
			return e.bankk.SendCoinsUnrestricted(ctx, A("from"), A("to"), e.coins(s["amt"]))
		})
	case "DeductFee":
		return e.run(false, func(ctx sdk.Context) error {
			acc := e.acck.GetAccount(ctx, A("from"))
			res := auth.DeductFees(e.bankk, ctx, acc, e.coll, std.Coins{{Denom: denomU, Amount: int64(s.Int("fee")) * e.scale}})
			if res.IsOK() {
				return nil
			}
			return res.Error
		})
	case "AnteTx":
		return e.run(true, func(ctx sdk.Context) error { return e.anteTx(ctx, mbt.Strs(s["signers"]), int64(s.Int("fee"))) })
	case "InputOutputCoins":
		// the path of a MsgMultiSend: msg.ValidateBasic() (runTx), then the bank handler's Process
		ins, _ := inouts(e, s["ins"])
		_, outs := inouts(e, s["outs"])
		msg := bank.MsgMultiSend{Inputs: ins, Outputs: outs}
		var verr error
		if p, _, _ := mbt.Guard(func() { verr = msg.ValidateBasic() }); p {
			return "mismatch" // rejected before the keeper (today a panic when both totals have as many, but different, denominations)
		}
		if verr != nil {
			return classify(verr)
		}
		return e.run(true, func(ctx sdk.Context) error {
			if res := e.handler.Process(ctx, msg); !res.IsOK() {
				return res.Error
			}
			return nil
		})
	case "MintCoins":
		return e.run(false, func(ctx sdk.Context) error { return e.bankk.MintCoins(ctx, A("to"), e.coins(s["amt"])) })
	case "BurnCoins":
		return e.run(false, func(ctx sdk.Context) error { return e.bankk.BurnCoins(ctx, A("from"), e.coins(s["amt"])) })
	case "AddCoins":
		return e.run(false, func(ctx sdk.Context) error { return e.bankk.AddCoins(ctx, A("to"), e.coins(s["amt"])) })
	case "SubtractCoins":
		return e.run(false, func(ctx sdk.Context) error { return e.bankk.SubtractCoins(ctx, A("from"), e.coins(s["amt"])) })
	case "SetCoins":
		return e.run(false, func(ctx sdk.Context) error { return e.bankk.SetCoins(ctx, A("to"), e.coins(s["amt"])) })
	case "RecomputeSupply":
		return e.run(false, func(ctx sdk.Context) error { e.bankk.RecomputeSupply(ctx); return nil })
	case "Time":
		e.now = int64(s.Int("t"))
		return "ok"
	case "SetRestricted":
		return e.run(false, func(ctx sdk.Context) error {
			if s.Bool("on") {
				e.bankk.SetRestrictedDenoms(ctx, []string{denomU})
			} else {
				e.bankk.SetRestrictedDenoms(ctx, []string{})
			}
			return nil
		})
	}
	mbt.Die("unknown act %q", s.Act())
	return ""
}

func normExp(st map[string]any) map[string]any {
	return map[string]any{"acct": st["acct"], "split": st["split"], "supply": st["supply"], "accs": st["accs"],
		"nextnum": st["nextnum"], "bankinv": st["bankinv"]}
}

type mism struct {
	key, what string
	cs        any
}

func replayOne(e *kenv, beh []mbt.Step) (mis *mism, steps int) {
	if len(beh) == 0 || beh[0].Act() != "Genesis" {
		mbt.Die("behaviour does not start with Genesis")
	}
	nameList := mbt.Strs(beh[0]["addrs"])
	sort.Strings(nameList)
	gk := mbt.JS(beh[0])
	fresh := e.gen == nil || e.genKey != gk
	if fresh {
		e.reset(nameList, e.ms)
	} else {
		e.reset(nameList, e.gen)
	}
	cs := map[string]any{"scale": e.scale}
	for k, s := range beh {
		var reply string
		if k == 0 {
			if !fresh {
				steps++
				continue // this genesis was applied and compared before; start from its layer
			}
			gctx := e.ctxOn(e.outer)
			for _, g := range s["gen"].([]any) {
				e.genesis(gctx, g.(map[string]any))
			}
			e.bankk.RecomputeSupply(gctx) // seedSupply
			reply = "ok"
		} else {
			reply = e.step(s)
		}
		steps++
		cs["steps"] = beh[:k+1]
		obs := e.project(nameList)
		if len(obs.bad) > 0 {
			return &mism{"C14:raw-store:" + s.Act(), fmt.Sprintf("step %d %s: raw store is not well-formed: %s", k, s.Act(), strings.Join(obs.bad, "; ")), cs}, steps
		}
		if obs.authMsg != "" {
			return &mism{"C14:auth-invariant:" + s.Act(), fmt.Sprintf("step %d %s: auth.AllInvariants broken: %s", k, s.Act(), obs.authMsg), cs}, steps
		}
		exp := normExp(s["st"].(map[string]any))
		if reply != s.Str("reply") || !obs.equals(exp, nameList) {
			key := fmt.Sprintf("C14:%s:%s", s.Act(), s.Str("reply"))
			if sg := mbt.Strs(s["signers"]); s.Act() == "AnteTx" && len(sg) > 1 && reply == "ok" {
				for i, n := range sg {
					if i >= 1 && n == "coll" && obs.Acct["coll"]["u"] < num(exp["acct"].(map[string]any)["coll"].(map[string]any)["u"]) {
						// the collector co-signed at a position >= 1: its stale account copy was written back over the fee
						key = "C14:ante:collector-cosigner:fee-destroyed"
					}
				}
			}
			return &mism{key, fmt.Sprintf("step %d %s: reply %q (spec %q); state %s (spec %s) bank-invariants: %q", k, mbt.JS(dropSt(s)), reply, s.Str("reply"), mbt.JS(obs), mbt.JS(exp), obs.bankMsg), cs}, steps
		}
		if k == 0 {
			// genesis verified: keep it as the base layer of the following behaviours
			e.gen, e.genKey = e.outer, gk
			e.outer = e.gen.MultiCacheWrap()
		}
	}
	return nil, steps
}

func num(v any) int64 {
	f, _ := v.(float64)
	return int64(f)
}

// equals compares the raw dump with the projected state of the spec, field by field.
func (d *dump) equals(exp map[string]any, names []string) bool {
	acct, _ := exp["acct"].(map[string]any)
	split, _ := exp["split"].(map[string]any)
	accs, _ := exp["accs"].(map[string]any)
	sup, _ := exp["supply"].(map[string]any)
	if len(acct) != len(names) || len(split) != len(names) || len(accs) != len(names) {
		return false
	}
	for _, n := range names {
		ea, _ := acct[n].(map[string]any)
		es, _ := split[n].(map[string]any)
		ec, _ := accs[n].(map[string]any)
		for _, dk := range []string{"u", "t"} {
			if num(ea[dk]) != d.Acct[n][dk] || num(es[dk]) != d.Split[n][dk] {
				return false
			}
		}
		if ec["kind"] != d.Accs[n]["kind"] || num(ec["num"]) != d.Accs[n]["num"].(int64) {
			return false
		}
	}
	for _, dk := range []string{"u", "t"} {
		if num(sup[dk]) != d.Supply[dk] {
			return false
		}
	}
	b, _ := exp["bankinv"].(bool)
	return num(exp["nextnum"]) == d.NextNum && b == d.BankInv
}

func dropSt(s mbt.Step) map[string]any {
	o := map[string]any{}
	for k, v := range s {
		if k != "st" {
			o[k] = v
		}
	}
	return o
}

func replay(f *mbt.Flags) {
	scale := int64(1)
	if strings.Contains(f.Extra, "scale=60") {
		scale = 1 << 60
	}
	fh, err := os.Open(f.In)
	if err != nil {
		mbt.Die("%v", err)
	}
	defer fh.Close()
	nw := runtime.NumCPU()
	if nw > 8 {
		nw = 8
	}
	var okc, steps, flaky, total int64
	ch := make(chan []mbt.Step, 256)
	var wg sync.WaitGroup
	for w := 0; w < nw; w++ {
		wg.Add(1)
		go func() {
			defer wg.Done()
			e := newKenv(scale)
			for beh := range ch {
				mis, n := replayOne(e, beh)
				atomic.AddInt64(&steps, int64(n))
				if mis == nil {
					atomic.AddInt64(&okc, 1)
					continue
				}
				// soundness rule 4: a failing case is re-run once from a fresh object
				if mis2, _ := replayOne(newKenv(scale), beh); mis2 != nil {
					mbt.Mismatch(mis2.key, mis2.what, mis2.cs)
				} else {
					atomic.AddInt64(&flaky, 1)
				}
			}
		}()
	}
	sc := bufio.NewScanner(fh)
	sc.Buffer(make([]byte, 1<<20), 1<<28)
	for sc.Scan() {
		if len(sc.Bytes()) == 0 {
			continue
		}
		var beh []mbt.Step
		if err := json.Unmarshal(sc.Bytes(), &beh); err != nil {
			mbt.Die("bad behaviour line: %v", err)
		}
		if total < 2 {
			mbt.Sample(beh)
		}
		total++
		ch <- beh
	}
	close(ch)
	wg.Wait()
	mbt.Summary(map[string]any{"behaviours": total, "replays": total, "replays_ok": okc, "steps": steps, "flaky": flaky})
}

func main() {
	f := mbt.ParseFlags()
	switch f.Mode {
	case "replay":
		replay(f)
	case "record":
		record(f)
	default:
		mbt.Die("unknown mode %q", f.Mode)
	}
	mbt.Flush()
}
