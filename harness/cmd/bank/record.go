package main

// (V) side of C14: seeded histories on the REAL gno.land application (verifharness/appenv),
// one NDJSON line per transaction / commit. After every Commit the application's database is
// copied and opened with an INDEPENDENT multistore + keepers; the raw dump of both balance
// tiers, the supply counters and the account objects is taken from there, and the repository's
// own bank.AllInvariants / auth.AllInvariants are evaluated on that committed state.

import (
	"bufio"
	"encoding/json"
	"fmt"
	"math/rand"
	"os"
	"time"

	"github.com/gnolang/gno/gno.land/pkg/gnoland"
	"github.com/gnolang/gno/gno.land/pkg/sdk/vm"
	abci "github.com/gnolang/gno/tm2/pkg/bft/abci/types"
	bft "github.com/gnolang/gno/tm2/pkg/bft/types"
	"github.com/gnolang/gno/tm2/pkg/crypto"
	dbm "github.com/gnolang/gno/tm2/pkg/db"
	"github.com/gnolang/gno/tm2/pkg/log"
	"github.com/gnolang/gno/tm2/pkg/sdk"
	"github.com/gnolang/gno/tm2/pkg/sdk/auth"
	"github.com/gnolang/gno/tm2/pkg/sdk/bank"
	"github.com/gnolang/gno/tm2/pkg/sdk/params"
	"github.com/gnolang/gno/tm2/pkg/std"
	"github.com/gnolang/gno/tm2/pkg/store"
	storebptree "github.com/gnolang/gno/tm2/pkg/store/bptree"
	"github.com/gnolang/gno/tm2/pkg/store/dbadapter"

	"verifharness/appenv"
	"verifharness/mbt"
)

const bankPath = "gno.land/r/verif/bank"

const bankSrc = `package bank

import (
	"chain"
	"chain/banker"
	"strings"
)

const denom = "/gno.land/r/verif/bank:tok"

var blob string = "seed"

func Mint(cur realm, to address, n int64) {
	banker.NewBanker(banker.BankerTypeRealmIssue, cur).IssueCoin(to, denom, n)
}

func Burn(cur realm, from address, n int64) {
	banker.NewBanker(banker.BankerTypeRealmIssue, cur).RemoveCoin(from, denom, n)
}

func MintPanic(cur realm, to address, n int64) {
	banker.NewBanker(banker.BankerTypeRealmIssue, cur).IssueCoin(to, denom, n)
	panic("after mint")
}

// Pay accepts whatever was attached to the call.
func Pay(cur realm) {}

// Give sends coins the realm holds (ugnot it was paid, or its own token).
func Give(cur realm, to address, d string, n int64) {
	banker.NewBanker(banker.BankerTypeRealmSend, cur).SendCoins(cur.Address(), to, chain.Coins{chain.Coin{d, n}})
}

// Grow changes the realm's storage size: a storage deposit is locked or refunded.
func Grow(cur realm, n int) {
	blob = strings.Repeat("x", n)
}
`

var vNames = []string{"a", "b", "c", "v", "w", "x", "y", "realm", "dep", "coll", "dpl"}

type vworld struct {
	e      *appenv.Env
	accts  map[string]*appenv.Account
	addrs  map[string]crypto.Address
	names  map[crypto.Address]string
	rng    *rand.Rand
	out    *bufio.Writer
	lines  int
	gen    time.Time
	counts map[string]int
	broken bool
}

func (w *vworld) emit(v any) {
	bz, err := json.Marshal(v)
	if err != nil {
		panic(err)
	}
	w.out.Write(bz)
	w.out.WriteByte('\n')
	w.lines++
}

// committedDump copies the application's database and reads the committed state through an
// independent multistore and independent keepers.
func (w *vworld) committedDump() *dump {
	ro := &roDB{DB: w.e.DB}
	d := dumpDB(ro, w.names, w.gen)
	if ro.wrote {
		mbt.Die("the independent reader attempted to write to the application's database")
	}
	return d
}

// roDB lets a second multistore read the application's database; writes are swallowed and flagged
// (opening the committed state must never modify it).
type roDB struct {
	dbm.DB
	wrote bool
}

func (r *roDB) Set(k, v []byte) error     { r.wrote = true; return nil }
func (r *roDB) SetSync(k, v []byte) error { r.wrote = true; return nil }
func (r *roDB) Delete(k []byte) error     { r.wrote = true; return nil }
func (r *roDB) DeleteSync(k []byte) error { r.wrote = true; return nil }
func (r *roDB) NewBatch() dbm.Batch       { return &roBatch{r: r} }
func (r *roDB) NewBatchWithSize(int) dbm.Batch {
	return &roBatch{r: r}
}
func (r *roDB) Close() error { return nil }

type roBatch struct {
	r *roDB
	n int
}

func (b *roBatch) Set(k, v []byte) error { b.n++; return nil }
func (b *roBatch) Delete(k []byte) error { b.n++; return nil }
func (b *roBatch) Write() error {
	if b.n > 0 {
		b.r.wrote = true
	}
	return nil
}
func (b *roBatch) WriteSync() error          { return b.Write() }
func (b *roBatch) Close() error              { return nil }
func (b *roBatch) GetByteSize() (int, error) { return 0, nil }

func dumpDB(db dbm.DB, names map[crypto.Address]string, gen time.Time) *dump {
	baseKey := store.NewStoreKey("base")
	mainKey := store.NewStoreKey("main")
	ms := store.NewCommitMultiStore(db)
	ms.MountStoreWithDB(mainKey, storebptree.FastStoreConstructor, db)
	ms.MountStoreWithDB(baseKey, dbadapter.StoreConstructor, db)
	if err := ms.LoadLatestVersion(); err != nil {
		mbt.Die("load copy: %v", err)
	}
	prmk := params.NewParamsKeeper(mainKey)
	acck := auth.NewAccountKeeper(mainKey, prmk.ForModule(auth.ModuleName), gnoland.ProtoGnoAccount, gnoland.ProtoGnoSessionAccount)
	view := bank.NewViewKeeper(acck, mainKey, []string{denomU})
	ctx := sdk.NewContext(sdk.RunTxModeDeliver, ms.MultiCacheWrap(), &bft.Header{ChainID: appenv.ChainID, Height: 1, Time: gen}, log.NewNoopLogger())
	d := rawDump(ctx, mainKey, names, vNames, 1)
	msg, broken := bank.AllInvariants(view)(ctx)
	d.BankInv, d.bankMsg = !broken, msg
	if msg, broken := auth.AllInvariants(acck)(ctx); broken {
		d.authMsg = msg
	}
	// vesting schedules (needed by the spec to predict which debits are refused)
	d.Vs = map[string]any{}
	for _, n := range vNames {
		d.Vs[n] = map[string]any{"type": "none", "ov": map[string]int64{"u": 0, "t": 0}, "start": 0, "end": 0}
	}
	acck.IterateAccounts(ctx, func(acc std.Account) bool {
		n, ok := names[acc.GetAddress()]
		if !ok {
			return false
		}
		var vs std.VestingSchedule
		typ := ""
		switch a := acc.(type) {
		case *std.ContinuousVestingAccount:
			vs, typ = a.VestingSchedule, "cont"
		case *std.DelayedVestingAccount:
			vs, typ = a.VestingSchedule, "delayed"
		default:
			return false
		}
		start := vs.StartTime - gen.Unix()
		if typ == "delayed" {
			start = 0
		}
		d.Vs[n] = map[string]any{"type": typ, "ov": map[string]int64{"u": vs.OriginalVesting.AmountOf(denomU), "t": vs.OriginalVesting.AmountOf(denomT)},
			"start": start, "end": vs.EndTime - gen.Unix()}
		return false
	})
	return d
}

func (d *dump) stJSON(withVs bool) map[string]any {
	m := map[string]any{"acct": d.Acct, "split": d.Split, "supply": d.Supply, "accs": d.Accs, "nextnum": d.NextNum, "bankinv": d.BankInv}
	if withVs {
		m["vs"] = d.Vs
	}
	return m
}

type vmsg struct {
	Kind string           `json:"kind"` // send | multisend | call
	From string           `json:"from"`
	To   string           `json:"to"`
	Amt  map[string]int64 `json:"amt"`
	Send map[string]int64 `json:"send"`
	Fn   string           `json:"fn"`
	Dep  int64            `json:"dep"`
	Ins  []vio            `json:"ins"`
	Outs []vio            `json:"outs"`
	grow int
}

type vio struct {
	A   string           `json:"a"`
	Amt map[string]int64 `json:"amt"`
}

type vtx struct {
	Signer string `json:"signer"` // first signer: pays the fee
	Fee    int64  `json:"fee"`
	Msgs   []vmsg `json:"msgs"`
	cosign string // second signer (its message is part of Msgs), "" for none
	badSig bool
	gw     int64
}

func (t *vtx) signers() []string {
	if t.cosign != "" {
		return []string{t.Signer, t.cosign}
	}
	return []string{t.Signer}
}

func zc() map[string]int64 { return map[string]int64{"u": 0, "t": 0} }
func cz(u, t int64) map[string]int64 {
	return map[string]int64{"u": u, "t": t}
}

func coinsOf(m map[string]int64) std.Coins {
	var out std.Coins
	if m["t"] != 0 {
		out = append(out, std.Coin{Denom: denomT, Amount: m["t"]})
	}
	if m["u"] != 0 {
		out = append(out, std.Coin{Denom: denomU, Amount: m["u"]})
	}
	return out
}

func (w *vworld) build(t *vtx, bump map[string]uint64) std.Tx {
	var msgs []std.Msg
	signer := w.accts[t.Signer]
	for _, m := range t.Msgs {
		switch m.Kind {
		case "send":
			msgs = append(msgs, bank.MsgSend{FromAddress: w.addrs[m.From], ToAddress: w.addrs[m.To], Amount: coinsOf(m.Amt)})
		case "multisend":
			var ins []bank.Input
			var outs []bank.Output
			for _, i := range m.Ins {
				ins = append(ins, bank.NewInput(w.addrs[i.A], coinsOf(i.Amt)))
			}
			for _, o := range m.Outs {
				outs = append(outs, bank.NewOutput(w.addrs[o.A], coinsOf(o.Amt)))
			}
			msgs = append(msgs, bank.MsgMultiSend{Inputs: ins, Outputs: outs})
		case "call":
			var args []string
			switch m.Fn {
			case "Mint", "Burn", "MintPanic":
				args = []string{w.addrs[m.To].String(), fmt.Sprint(m.Amt["t"])}
			case "Give":
				d, n := denomU, m.Amt["u"]
				if m.Amt["t"] != 0 {
					d, n = denomT, m.Amt["t"]
				}
				args = []string{w.addrs[m.To].String(), d, fmt.Sprint(n)}
			case "Grow":
				args = []string{fmt.Sprint(m.grow)}
			}
			msgs = append(msgs, vm.NewMsgCall(w.addrs[m.From], coinsOf(m.Send), bankPath, m.Fn, args))
		}
	}
	_ = signer
	tx := std.Tx{Msgs: msgs, Fee: std.Fee{GasWanted: t.gw, GasFee: std.Coin{Denom: denomU, Amount: t.Fee}}}
	for _, n := range t.signers() {
		k := w.accts[n]
		num, seq := accNumSeq(w.e, k.Addr)
		sb, err := tx.GetSignBytes(appenv.ChainID, num, seq+bump[n])
		if err != nil {
			panic(err)
		}
		sig, err := k.Priv.Sign(sb)
		if err != nil {
			panic(err)
		}
		tx.Signatures = append(tx.Signatures, std.Signature{PubKey: k.Priv.PubKey(), Signature: sig})
	}
	if t.badSig {
		tx.Signatures[0].Signature[5] ^= 0x04
	}
	return tx
}

// accNumSeq reads account number and sequence of any account type (appenv.Account only
// understands the JSON shape of plain accounts) through the auth/accounts query.
func accNumSeq(e *appenv.Env, addr crypto.Address) (uint64, uint64) {
	res := e.App.Query(abci.RequestQuery{Path: "auth/accounts/" + addr.String()})
	if !res.IsOK() || len(res.Data) == 0 || string(res.Data) == "null" {
		return 0, 0
	}
	var v any
	if err := json.Unmarshal(res.Data, &v); err != nil {
		return 0, 0
	}
	ba := findBaseAccount(v)
	if ba == nil {
		return 0, 0
	}
	var num, seq uint64
	fmt.Sscan(fmt.Sprint(ba["account_number"]), &num)
	fmt.Sscan(fmt.Sprint(ba["sequence"]), &seq)
	return num, seq
}

// findBaseAccount finds the (possibly nested: vesting accounts embed twice) BaseAccount object.
func findBaseAccount(v any) map[string]any {
	m, ok := v.(map[string]any)
	if !ok {
		return nil
	}
	if _, ok := m["account_number"]; ok {
		return m
	}
	for _, x := range m {
		if r := findBaseAccount(x); r != nil {
			return r
		}
	}
	return nil
}

func (w *vworld) pick(xs ...string) string { return xs[w.rng.Intn(len(xs))] }

func (w *vworld) randMsg(signer string) vmsg {
	m := vmsg{From: signer, To: "a", Amt: zc(), Send: zc(), Ins: []vio{}, Outs: []vio{}}
	any := func() string { return w.pick("a", "b", "c", "v", "x", "y", "realm") }
	small := func() int64 { return int64(1 + w.rng.Intn(400_000)) }
	switch p := w.rng.Intn(100); {
	case p < 32: // (bank.MsgMultiSend is not registered with amino: it cannot travel in a transaction)
		m.Kind, m.To = "send", any()
		m.Amt = cz(small(), 0)
		if w.rng.Intn(3) == 0 {
			m.Amt["t"] = int64(1 + w.rng.Intn(40))
		}
		if w.rng.Intn(4) == 0 {
			m.Amt["u"] = 0
			m.Amt["t"] = int64(1 + w.rng.Intn(40))
		}
		if w.rng.Intn(9) == 0 {
			m.Amt["u"] = 1_900_000_000 // overdraft
		}
		if signer == "v" && w.rng.Intn(2) == 0 {
			m.Amt["u"] = int64(500_000 + w.rng.Intn(2_500_000)) // around the vesting account's spendable part
		}
	case p < 50:
		m.Kind, m.Fn, m.To = "call", "Mint", any()
		m.Amt = cz(0, int64(1+w.rng.Intn(60)))
	case p < 62:
		m.Kind, m.Fn, m.To = "call", "Burn", w.pick("a", "b", "c", "v", "x", "realm")
		m.Amt = cz(0, int64(1+w.rng.Intn(25)))
	case p < 67:
		m.Kind, m.Fn, m.To = "call", "MintPanic", any()
		m.Amt = cz(0, int64(1+w.rng.Intn(60)))
	case p < 78:
		m.Kind, m.Fn = "call", "Pay"
		m.Send = cz(small(), 0)
		if w.rng.Intn(5) == 0 {
			m.Send["t"] = int64(1 + w.rng.Intn(20))
		}
	case p < 90:
		m.Kind, m.Fn, m.To = "call", "Give", any()
		if w.rng.Intn(2) == 0 {
			m.Amt = cz(int64(1+w.rng.Intn(50_000)), 0)
		} else {
			m.Amt = cz(0, int64(1+w.rng.Intn(10)))
		}
	default:
		m.Kind, m.Fn = "call", "Grow"
		m.grow = 200 + w.rng.Intn(3000)
	}
	return m
}

func hasGrow(t *vtx) bool {
	for _, m := range t.Msgs {
		if m.Fn == "Grow" {
			return true
		}
	}
	return false
}

func (w *vworld) randTx(allowGrow bool) *vtx {
	t := &vtx{Signer: w.pick("a", "b", "c", "a", "c", "v", "v", "x"), Fee: int64(50_000 + w.rng.Intn(200_000)), gw: 30_000_000}
	n := 1 + w.rng.Intn(3)
	for k := 0; k < n; k++ {
		m := w.randMsg(t.Signer)
		if m.Fn == "Grow" && (!allowGrow || hasGrow(t) || (t.Signer != "a" && t.Signer != "c")) {
			m = vmsg{Kind: "call", Fn: "Pay", From: t.Signer, To: "a", Amt: zc(), Send: cz(int64(1+w.rng.Intn(1000)), 0), Ins: []vio{}, Outs: []vio{}}
		}
		t.Msgs = append(t.Msgs, m)
	}
	switch p := w.rng.Intn(100); {
	case p < 6:
		t.badSig = true
	case p < 9:
		t.Fee = 2_000_000_000 // above any balance
	case p < 11:
		t.Signer = "w" // no account
		for i := range t.Msgs {
			t.Msgs[i].From = "w"
			if len(t.Msgs[i].Ins) > 0 {
				t.Msgs[i].Ins[0].A = "w"
			}
		}
	}
	return t
}

func (w *vworld) block(dt int, txs []*vtx) {
	w.e.Time = w.e.Time.Add(time.Duration(dt)*time.Second - 5*time.Second) // appenv.BeginBlock adds 5 s
	depBefore := w.e.Balance(w.addrs["dep"])
	w.e.BeginBlock()
	rel := w.e.Time.Unix() - w.gen.Unix()
	type done struct {
		t    *vtx
		ok   bool
		ante bool
		cls  string
	}
	var ds []done
	grown := -1
	bump := map[string]uint64{}
	for i, t := range txs {
		var r = w.e.Deliver(w.build(t, bump))
		d := done{t: t, ok: r.IsOK(), ante: r.GasWanted > 0, cls: appenv.ErrClass(r.Error)}
		if d.ante {
			for _, n := range t.signers() {
				bump[n]++ // the sequence moved in the block's working state
			}
		}
		ds = append(ds, d)
		w.counts["tx"]++
		if d.ok {
			w.counts["ok"]++
			if hasGrow(t) {
				grown = i
			}
		} else if !d.ante {
			w.counts["ante-reject:"+d.cls]++
		} else {
			w.counts["fail:"+d.cls]++
		}
	}
	w.e.EndBlockCommit()
	st := w.committedDump()
	if grown >= 0 {
		// the storage deposit locked (+) or refunded (-) by the single successful Grow of this block:
		// an input observed at the deposit address, independent of the caller's balance
		dep := st.Acct["dep"]["u"] - depBefore
		for k := range ds[grown].t.Msgs {
			if ds[grown].t.Msgs[k].Fn == "Grow" {
				ds[grown].t.Msgs[k].Dep = dep
				if dep > 0 {
					w.counts["deposit-lock"]++
				} else if dep < 0 {
					w.counts["deposit-refund"]++
				}
			}
		}
	}
	for _, d := range ds {
		w.emit(map[string]any{"act": "Tx", "t": rel, "signer": d.t.Signer, "signers": d.t.signers(), "fee": d.t.Fee, "ante": d.ante, "ok": d.ok, "msgs": d.t.Msgs})
	}
	w.emit(map[string]any{"act": "Commit", "t": rel, "st": st.stJSON(false)})
	cos := false
	for _, d := range ds {
		if d.ante && d.t.cosign == "coll" {
			cos = true // an accepted transaction co-signed by the fee collector at position >= 1
		}
	}
	w.flag(st, cos)
}

// flag reports raw well-formedness findings and broken repository invariants on the committed
// state directly (they are also part of the trace: bankinv must be TRUE in every recorded state).
func (w *vworld) flag(st *dump, collectorCosigned bool) {
	if w.broken {
		return // reported once: a broken supply record stays broken in every later block
	}
	if !st.BankInv && collectorCosigned {
		w.broken = true
		mbt.Mismatch("C14:ante:collector-cosigner:fee-destroyed", "after a transaction co-signed by the fee collector (second signer) bank.AllInvariants is broken on the committed state: "+st.bankMsg,
			map[string]any{"seed": os.Getenv("VERIF_SEED"), "line": w.lines})
		return
	}
	if len(st.bad) > 0 {
		mbt.Mismatch("C14:app:raw-store", fmt.Sprintf("committed state of the application is not well-formed: %v", st.bad), map[string]any{"seed": os.Getenv("VERIF_SEED"), "line": w.lines})
	}
	if st.authMsg != "" {
		mbt.Mismatch("C14:app:auth-invariant", "auth.AllInvariants broken on committed state: "+st.authMsg, map[string]any{"seed": os.Getenv("VERIF_SEED"), "line": w.lines})
	}
	if !st.BankInv {
		w.broken = true
		mbt.Mismatch("C14:app:bank-invariant", "bank.AllInvariants broken on committed state: "+st.bankMsg, map[string]any{"seed": os.Getenv("VERIF_SEED"), "line": w.lines})
	}
}

func record(f *mbt.Flags) {
	rng := f.Rand()
	outf, err := os.Create(f.Out)
	if err != nil {
		mbt.Die("%v", err)
	}
	w := &vworld{rng: rng, out: bufio.NewWriterSize(outf, 1<<16), accts: map[string]*appenv.Account{}, addrs: map[string]crypto.Address{},
		names: map[crypto.Address]string{}, counts: map[string]int{}}
	for _, n := range []string{"a", "b", "c", "v", "w", "x", "y", "dpl", "coll"} { // the fee collector is a keyed account here (it is a governance-settable address)
		w.accts[n] = appenv.NewAccount("bank-" + n)
		w.addrs[n] = w.accts[n].Addr
	}
	w.addrs["realm"] = appenv.PkgAddr(bankPath)
	w.addrs["dep"] = appenv.DepositAddr(bankPath)
	for n, a := range w.addrs {
		w.names[a] = n
	}
	w.gen = time.Unix(1_700_000_000, 0).UTC()
	// the vesting account's schedule outlasts a quick run and ends inside a thorough one; 1e6 * 2000 stays below 2^31 (TLC integers)
	vEnd := int64(1500 + rng.Intn(500))
	e, err := appenv.New(appenv.Options{
		Time:     w.gen,
		Balances: map[crypto.Address]int64{w.addrs["a"]: 300_000_000, w.addrs["b"]: 200_000_000, w.addrs["c"]: 250_000_000, w.addrs["dpl"]: 100_000_000, w.addrs["coll"]: 20_000_000},
		Deployer: w.accts["dpl"],
		Pkgs:     []appenv.Pkg{{Path: bankPath, Files: map[string]string{"bank.gno": bankSrc}}},
		Mutate: func(gs *gnoland.GnoGenesisState) {
			gs.Auth.Params.FeeCollector = w.addrs["coll"]
			gs.Balances = append(gs.Balances, gnoland.Balance{Address: w.addrs["v"], Amount: std.Coins{{Denom: denomU, Amount: 3_000_000}},
				Vesting: &std.VestingSchedule{OriginalVesting: std.Coins{{Denom: denomU, Amount: 1_000_000}}, StartTime: w.gen.Unix() + 10, EndTime: w.gen.Unix() + vEnd}})
		},
	})
	if err != nil {
		mbt.Die("new: %v", err)
	}
	w.e = e
	st0 := w.committedDump()

	w.flag(st0, false)
	w.emit(map[string]any{"act": "Init", "t": 0, "st": st0.stJSON(true)})
	n := f.N
	if n <= 0 {
		n = 40
	}
	for b := 0; b < n; b++ {
		var txs []*vtx
		k := 1
		if rng.Intn(3) == 0 {
			k = 2 + rng.Intn(3)
		}
		grow := true
		if b%5 == 2 {
			// a storage deposit is locked (growth) or refunded (shrink) in every run
			sz := 200 + rng.Intn(800)
			if (b/5)%2 == 0 {
				sz = 2500 + rng.Intn(2500)
			}
			txs = append(txs, &vtx{Signer: w.pick("a", "c"), Fee: int64(50_000 + rng.Intn(100_000)), gw: 30_000_000,
				Msgs: []vmsg{{Kind: "call", Fn: "Grow", Amt: zc(), Send: zc(), Ins: []vio{}, Outs: []vio{}, grow: sz}}})
			txs[0].Msgs[0].From = txs[0].Signer
			txs[0].Msgs[0].To = "a"
			grow = false
		}
		for i := 0; i < k; i++ {
			t := w.randTx(grow)
			if hasGrow(t) {
				grow = false
			}
			txs = append(txs, t)
		}
		w.block(1+rng.Intn(9), txs)
	}
	// the fee collector signs: alone, as first signer (pays itself) with a co-signer, and as SECOND signer of a
	// transaction whose fee it receives. The ante handler's effect on balances must be the fee transfer in all three.
	mk := func(from, to string) vmsg {
		return vmsg{Kind: "send", From: from, To: to, Amt: cz(int64(1000+rng.Intn(5000)), 0), Send: zc(), Ins: []vio{}, Outs: []vio{}}
	}
	w.block(2, []*vtx{{Signer: "coll", Fee: 120_000, gw: 30_000_000, Msgs: []vmsg{mk("coll", "a")}}})
	w.block(2, []*vtx{{Signer: "coll", cosign: "a", Fee: 130_000, gw: 30_000_000, Msgs: []vmsg{mk("coll", "x"), mk("a", "y")}}})
	w.counts["collector-first-signer"]++
	w.block(2, []*vtx{{Signer: "a", cosign: "coll", Fee: 150_000, gw: 30_000_000, Msgs: []vmsg{mk("a", "x"), mk("coll", "y")}}})
	w.counts["collector-cosigner"]++
	w.out.Flush()
	outf.Close()
	sum := map[string]any{"lines": w.lines, "blocks": n + 3}
	for k, v := range w.counts {
		sum["n_"+k] = v
	}
	mbt.Summary(sum)
}
