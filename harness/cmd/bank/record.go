package main

import "verifharness/mbt"

func record(f *mbt.Flags) { mbt.Die("record: not built yet") }
