// Driver for C37 (spec/ValidatorSet.tla): replays TLC behaviours (New / Incr / Update) on the
// real types.ValidatorSet and compares reply, membership, powers, the full priority vector and the
// proposer after every step; evaluates the property's state invariants on the real object as well.
package main

import (
	"fmt"
	"math/big"
	"runtime"
	"sort"
	"strings"
	"sync"
	"sync/atomic"

	"github.com/gnolang/gno/tm2/pkg/bft/types"
	"github.com/gnolang/gno/tm2/pkg/crypto"
	"github.com/gnolang/gno/tm2/pkg/crypto/ed25519"

	"verifharness/mbt"
)

const poolP = 4

var (
	pool     []ed25519.PrivKeyEd25519
	maxTotal = 1000 // MaxTotal of the cfg (-x maxtotal=N)
)

func init() {
	for i := 0; i < poolP; i++ {
		pool = append(pool, ed25519.GenPrivKeyFromSecret([]byte(fmt.Sprintf("verif-val-%d", i))))
	}
	sort.Slice(pool, func(i, j int) bool {
		return pool[i].PubKey().Address().Compare(pool[j].PubKey().Address()) < 0
	})
}

// model power -> real power: powers near the model's MaxTotal sit at the same distance from
// MaxTotalVotingPower (preserves every comparison of a total against the bound).
func realPow(p int) int64 {
	if p > maxTotal/2 {
		return types.MaxTotalVotingPower - int64(maxTotal-p)
	}
	return int64(p)
}

func modelPow(p int64) int64 {
	if p > types.MaxTotalVotingPower/2 {
		return int64(maxTotal) - (types.MaxTotalVotingPower - p)
	}
	return p
}

func keyOf(a crypto.Address) int {
	for i := range pool {
		if pool[i].PubKey().Address() == a {
			return i + 1
		}
	}
	return -1
}

type vrec struct {
	K    int   `json:"k"`
	Pow  int64 `json:"pow"`
	Prio int64 `json:"prio"`
}

type proj struct {
	vals []vrec
	prop int
}

func project(vs *types.ValidatorSet) proj {
	var p proj
	for _, v := range vs.Validators {
		p.vals = append(p.vals, vrec{keyOf(v.Address), modelPow(v.VotingPower), v.ProposerPriority})
	}
	if vs.Proposer != nil {
		p.prop = keyOf(vs.Proposer.Address)
	}
	return p
}

func expected(st map[string]any) proj {
	var p proj
	for _, x := range st["vals"].([]any) {
		m := mbt.Step(x.(map[string]any))
		p.vals = append(p.vals, vrec{m.Int("k"), int64(m.Int("pow")), int64(m.Int("prio"))})
	}
	p.prop = mbt.Step(st).Int("prop")
	return p
}

// diff returns the first aspect in which observed and expected differ ("" = equal).
func diff(o, e proj, exact bool) string {
	if len(o.vals) != len(e.vals) {
		return "members"
	}
	for i := range o.vals {
		if o.vals[i].K != e.vals[i].K {
			return "members"
		}
	}
	for i := range o.vals {
		if o.vals[i].Pow != e.vals[i].Pow {
			return "powers"
		}
	}
	if !exact {
		return ""
	}
	for i := range o.vals {
		if o.vals[i].Prio != e.vals[i].Prio {
			return "priorities"
		}
	}
	if o.prop != e.prop {
		return "proposer"
	}
	return ""
}

// invariants of the property evaluated directly on the real object.
func invariants(vs *types.ValidatorSet) (string, string) {
	if len(vs.Validators) == 0 {
		return "", ""
	}
	sum := big.NewInt(0)
	var mx, mn *big.Int
	for i, v := range vs.Validators {
		if i > 0 && vs.Validators[i-1].Address.Compare(v.Address) >= 0 {
			return "SortedUnique", fmt.Sprintf("validators %d and %d out of order or duplicate", i-1, i)
		}
		if v.VotingPower <= 0 {
			return "PowersPositive", fmt.Sprintf("validator %d has power %d", i, v.VotingPower)
		}
		sum.Add(sum, big.NewInt(v.VotingPower))
		p := big.NewInt(v.ProposerPriority)
		if mx == nil || p.Cmp(mx) > 0 {
			mx = p
		}
		if mn == nil || p.Cmp(mn) < 0 {
			mn = p
		}
	}
	if sum.Cmp(big.NewInt(types.MaxTotalVotingPower)) > 0 {
		return "TotalBounded", fmt.Sprintf("total %v above MaxTotalVotingPower", sum)
	}
	var tot int64
	if p, val, _ := mbt.Guard(func() { tot = vs.TotalVotingPower() }); p {
		return "TotalBounded", fmt.Sprintf("TotalVotingPower panicked: %v", val)
	}
	if big.NewInt(tot).Cmp(sum) != 0 {
		return "TotalCached", fmt.Sprintf("TotalVotingPower() = %d, sum of powers = %v", tot, sum)
	}
	w := new(big.Int).Sub(mx, mn)
	if w.Cmp(new(big.Int).Mul(sum, big.NewInt(3))) > 0 {
		return "PriorityWindow", fmt.Sprintf("max-min priority %v > 3*total %v", w, sum)
	}
	return "", ""
}

func mkChange(c mbt.Step) *types.Validator {
	k := c.Int("k") - 1
	pub := pool[k].PubKey()
	v := types.NewValidator(pub, realPow(c.Int("pow")))
	switch c.Str("cls") {
	case "nopub":
		v.PubKey = nil
	case "badaddr":
		v.Address = pool[(k+1)%poolP].PubKey().Address()
	case "zeroaddr":
		v.Address = crypto.Address{}
	}
	return v
}

func snapshot(vs *types.ValidatorSet) string {
	var sb strings.Builder
	for _, v := range vs.Validators {
		fmt.Fprintf(&sb, "%s/%d/%d;", v.Address, v.VotingPower, v.ProposerPriority)
	}
	return sb.String()
}

var (
	reported   = map[string]int{}
	reportedMu sync.Mutex
)

func report(key, what string, c any) {
	reportedMu.Lock()
	reported[key]++
	n := reported[key]
	reportedMu.Unlock()
	if n <= 6 {
		mbt.Mismatch(key, what, c)
	}
}

type counters struct{ steps, ok, updOk, updErr, incr, inexact int64 }

func replay(beh []mbt.Step, cnt *counters) bool {
	var vs *types.ValidatorSet
	for i, s := range beh {
		cs := map[string]any{"maxtotal": maxTotal, "steps": beh[:i+1]}
		exact := s.Bool("exact")
		if !exact {
			atomic.AddInt64(&cnt.inexact, 1)
		}
		reply := "ok"
		var before string
		switch s.Act() {
		case "New":
			pw := mbt.Ints(s["pw"])
			var valz []*types.Validator
			for k := len(pw) - 1; k >= 0; k-- { // handed over in descending address order
				if pw[k] > 0 {
					valz = append(valz, types.NewValidator(pool[k].PubKey(), realPow(pw[k])))
				}
			}
			if p, val, st := mbt.Guard(func() { vs = types.NewValidatorSet(valz) }); p {
				report("C37:New:panic", fmt.Sprintf("NewValidatorSet(%v) panicked: %v at %s", pw, val, mbt.ShortStack(st)), cs)
				return false
			}
		case "Incr":
			atomic.AddInt64(&cnt.incr, 1)
			t := s.Int("t")
			if p, val, st := mbt.Guard(func() { vs.IncrementProposerPriority(t) }); p {
				reply = "panic"
				if s.Str("reply") != "panic" {
					report("C37:Incr:panic", fmt.Sprintf("IncrementProposerPriority(%d) panicked: %v at %s", t, val, mbt.ShortStack(st)), cs)
					return false
				}
			}
		case "Update":
			var changes []*types.Validator
			for _, c := range s["ch"].([]any) {
				changes = append(changes, mkChange(mbt.Step(c.(map[string]any))))
			}
			before = snapshot(vs)
			var err error
			if p, val, st := mbt.Guard(func() { err = vs.UpdateWithChangeSet(changes) }); p {
				report("C37:Update:panic", fmt.Sprintf("UpdateWithChangeSet(%s) panicked: %v at %s", mbt.JS(s["ch"]), val, mbt.ShortStack(st)), cs)
				return false
			}
			if err != nil {
				reply = "err"
				atomic.AddInt64(&cnt.updErr, 1)
				if snapshot(vs) != before {
					report("C37:Update:rejected-but-changed", fmt.Sprintf("UpdateWithChangeSet(%s) returned %v but the set changed: %s -> %s", mbt.JS(s["ch"]), err, before, snapshot(vs)), cs)
					return false
				}
			} else {
				atomic.AddInt64(&cnt.updOk, 1)
			}
		default:
			mbt.Die("unknown act %q", s.Act())
		}
		atomic.AddInt64(&cnt.steps, 1)
		if reply != s.Str("reply") {
			report(fmt.Sprintf("C37:%s:reply-%s-spec-%s", s.Act(), reply, s.Str("reply")),
				fmt.Sprintf("step %d %s: reply %s, spec %s (%s)", i, mbt.JS(s), reply, s.Str("reply"), s.Str("why")), cs)
			return false
		}
		obs, exp := project(vs), expected(s["st"].(map[string]any))
		if d := diff(obs, exp, exact); d != "" {
			report(fmt.Sprintf("C37:%s:%s", s.Act(), d),
				fmt.Sprintf("step %d %s %s: %s differ: code %+v, spec %+v", i, s.Act(), mbt.JS(s["ch"]), d, obs, exp), cs)
			return false
		}
		if name, why := invariants(vs); name != "" {
			report("C37:invariant:"+name, fmt.Sprintf("step %d %s: %s", i, s.Act(), why), cs)
			return false
		}
		if vs.Proposer != nil {
			if gp := vs.GetProposer(); gp == nil || gp.Address != vs.Proposer.Address {
				report("C37:GetProposer", fmt.Sprintf("step %d: GetProposer() differs from the Proposer field", i), cs)
				return false
			}
		}
	}
	atomic.AddInt64(&cnt.ok, 1)
	return true
}

func main() {
	f := mbt.ParseFlags()
	for _, kv := range strings.Split(f.Extra, ",") {
		if strings.HasPrefix(kv, "maxtotal=") {
			fmt.Sscan(strings.TrimPrefix(kv, "maxtotal="), &maxTotal)
		}
	}
	behs, err := mbt.ReadBehaviours(f.In)
	if err != nil {
		mbt.Die("%v", err)
	}
	var cnt counters
	var wg sync.WaitGroup
	nw := runtime.NumCPU()
	for w := 0; w < nw; w++ {
		wg.Add(1)
		go func(w int) {
			defer wg.Done()
			for i := w; i < len(behs); i += nw {
				replay(behs[i], &cnt)
			}
		}(w)
	}
	wg.Wait()
	for i := 0; i < len(behs) && i < 2; i++ {
		j := i * (len(behs) / 2)
		b := behs[j]
		if len(b) > 8 {
			b = b[:8]
		}
		mbt.Sample(b)
	}
	mbt.Summary(map[string]any{"behaviours": len(behs), "replays": len(behs), "replays_ok": cnt.ok, "steps": cnt.steps,
		"updates_accepted": cnt.updOk, "updates_rejected": cnt.updErr, "increments": cnt.incr, "inexact_steps": cnt.inexact})
	mbt.Flush()
}
