// Driver for C50 (spec/OrderedMap.tla): every TLC behaviour is compiled into a Gno program that
// performs the calls on the REAL package gno.land/p/nt/avl/v0 (sources read from
// $GNOROOT/examples, deployed at genesis of the real gno.land application) and prints every
// reply; after each mutation the program walks the real node structure (exported Node API,
// pre-order, inner nodes included). Programs run as MsgRun transactions on the real GnoVM;
// the output is compared line by line with what the spec predicts.
//
// Verdict observables: every reply of Set/Remove/Get/Has/Size/GetByIndex/Iterate/
// ReverseIterate/(Reverse)IterateByOffset; the leaf sequence of the real tree (= ordered map
// contents); height balance computed from the real shape; size fields; no panic in a call
// the spec answers; reads leave the tree unchanged.
// Guidance observable: the exact shape / separator keys vs the spec's AVL model (drift).
package main

import (
	"bufio"
	"encoding/json"
	"fmt"
	"os"
	"path/filepath"
	"sort"
	"strconv"
	"strings"
	"time"

	"github.com/gnolang/gno/gno.land/pkg/sdk/vm"
	"github.com/gnolang/gno/gnovm/pkg/gnoenv"
	gno "github.com/gnolang/gno/gnovm/pkg/gnolang"
	"github.com/gnolang/gno/tm2/pkg/crypto"
	"github.com/gnolang/gno/tm2/pkg/std"

	"verifharness/appenv"
	"verifharness/mbt"
)

const avlPath = "gno.land/p/nt/avl/v0"

const maxPerKey = 2 // mismatches reported per failure class and driver process

const maxReported = 4 // mismatches re-run and reported per driver process (the rest is counted)

func loadPkg(root, path string) appenv.Pkg {
	dir := filepath.Join(root, "examples", path)
	mp, err := gno.ReadMemPackage(dir, path, gno.MPUserProd)
	if err != nil {
		mbt.Die("read %s: %v", dir, err)
	}
	p := appenv.Pkg{Path: path, Files: map[string]string{}}
	for _, f := range mp.Files {
		if strings.HasSuffix(f.Name, ".gno") {
			p.Files[f.Name] = f.Body
		}
	}
	if len(p.Files) == 0 {
		mbt.Die("no prod files in %s", dir)
	}
	return p
}

// keyTable returns a strictly increasing list of nk strings; entry 0 is the empty string.
func keyTable(nk int) []string {
	small := []string{"", "a", "a\x00", "aa", "ab", "b", "b\x00", "ba", "bb", "c"}
	if nk <= len(small) {
		return small[:nk]
	}
	alpha := []string{"\x00", "a", "b"}
	all := []string{""}
	level := []string{""}
	for l := 0; l < 4; l++ {
		var next []string
		for _, p := range level {
			for _, c := range alpha {
				next = append(next, p+c)
			}
		}
		all = append(all, next...)
		level = next
	}
	sort.Strings(all) // 121 strings
	if nk > len(all) {
		mbt.Die("nk too large")
	}
	// take an evenly spread sub-list (keeps "", keeps many adjacent pairs when nk is large)
	out := make([]string, 0, nk)
	for i := 0; i < nk; i++ {
		out = append(out, all[i*(len(all)-1)/(nk-1)])
	}
	for i := 1; i < len(out); i++ {
		if !(out[i-1] < out[i]) {
			mbt.Die("key table not increasing")
		}
	}
	return out
}

const prelude = `package main

import (
	"strconv"

	"gno.land/p/nt/avl/v0"
)

var kidx = map[string]string{}

func init() {
	for i, x := range keys {
		kidx[x] = strconv.Itoa(i + 1)
	}
}

func ki(k string) string {
	if s, ok := kidx[k]; ok {
		return s
	}
	return "?" + strconv.Quote(k)
}

func vs(v any) string {
	if v == nil {
		return "nil"
	}
	if i, ok := v.(int); ok {
		return strconv.Itoa(i)
	}
	return "?"
}

func try(f func()) (ok bool) {
	defer func() {
		if r := recover(); r != nil {
			ok = false
		}
	}()
	f()
	return true
}

type T struct {
	t    *avl.Tree
	root *avl.Node
}

func newT() *T { return &T{t: avl.NewTree()} }

func (x *T) walk() {
	s := "W"
	ok := try(func() {
		x.root.TraverseInRange("", "", true, false, func(n *avl.Node) bool {
			s += " " + ki(n.Key()) + ":" + strconv.Itoa(n.Size())
			if n.IsLeaf() {
				s += "=" + vs(n.Value())
			}
			return false
		})
	})
	if !ok {
		s += " PANIC"
	}
	println(s)
}

// proj reads the abstract state back through the public Tree methods: size, full ascending and
// descending iteration, every index, and Has/Get for the keys in the window lo..hi.
func (x *T) proj(lo, hi int) {
	s := "P"
	if !try(func() {
		n := x.t.Size()
		s += " z=" + strconv.Itoa(n) + " it="
		x.t.Iterate("", "", func(k string, v any) bool { s += ki(k) + "=" + vs(v) + ","; return false })
		s += " rit="
		x.t.ReverseIterate("", "", func(k string, v any) bool { s += ki(k) + "=" + vs(v) + ","; return false })
		s += " idx="
		for i := 0; i < n; i++ {
			k, v := x.t.GetByIndex(i)
			s += ki(k) + "=" + vs(v) + ","
		}
		s += " hg="
		for k := lo; k <= hi; k++ {
			s += strconv.Itoa(k) + ":" + strconv.FormatBool(x.t.Has(keys[k-1])) + ":" + vs(x.t.Get(keys[k-1])) + ","
		}
	}) {
		s += " PANIC"
	}
	println(s)
}

func (x *T) set(k, v int) {
	if !try(func() { println("S", x.t.Set(keys[k-1], v)) }) {
		println("S PANIC")
	}
	try(func() { x.root, _ = x.root.Set(keys[k-1], v) })
	x.walk()
	x.proj(win(k))
}

func win(k int) (int, int) {
	if len(keys) <= 8 {
		return 1, len(keys)
	}
	lo, hi := k-2, k+2
	if lo < 1 {
		lo = 1
	}
	if hi > len(keys) {
		hi = len(keys)
	}
	return lo, hi
}

func (x *T) remove(k int) {
	if !try(func() {
		v, ok := x.t.Remove(keys[k-1])
		println("R", vs(v), ok)
	}) {
		println("R PANIC")
	}
	try(func() { x.root, _, _, _ = x.root.Remove(keys[k-1]) })
	x.walk()
	x.proj(win(k))
}

func (x *T) get(k int) {
	if !try(func() { println("G", vs(x.t.Get(keys[k-1]))) }) {
		println("G PANIC")
	}
}

func (x *T) has(k int) {
	if !try(func() { println("H", x.t.Has(keys[k-1])) }) {
		println("H PANIC")
	}
}

func (x *T) size() {
	if !try(func() { println("Z", x.t.Size()) }) {
		println("Z PANIC")
	}
}

func (x *T) byidx(i int) {
	if !try(func() {
		k, v := x.t.GetByIndex(i)
		println("X", ki(k)+"="+vs(v))
	}) {
		println("X panic")
	}
}

func (x *T) iter(rev bool, s, e, lim int) {
	out := ""
	n := 0
	cb := func(k string, v any) bool {
		out += " " + ki(k) + "=" + vs(v)
		n++
		return lim > 0 && n >= lim
	}
	if !try(func() {
		var r bool
		if rev {
			r = x.t.ReverseIterate(keys[s-1], keys[e-1], cb)
		} else {
			r = x.t.Iterate(keys[s-1], keys[e-1], cb)
		}
		out += " | " + strconv.FormatBool(r)
	}) {
		out += " PANIC"
	}
	println("I" + out)
}

func (x *T) off(rev bool, off, cnt, lim int) {
	out := ""
	n := 0
	cb := func(k string, v any) bool {
		out += " " + ki(k) + "=" + vs(v)
		n++
		return lim > 0 && n >= lim
	}
	if !try(func() {
		if rev {
			x.t.ReverseIterateByOffset(off, cnt, cb)
		} else {
			x.t.IterateByOffset(off, cnt, cb)
		}
	}) {
		out += " PANIC"
	}
	println("O" + out)
}
`

// ---------------------------------------------------------------- expected lines from the spec

type item struct{ k, v int }

func pairs(v any) []item {
	a, _ := v.([]any)
	out := make([]item, 0, len(a))
	for _, x := range a {
		p := mbt.Ints(x)
		if len(p) == 2 {
			out = append(out, item{p[0], p[1]})
		}
	}
	return out
}

func seqStr(its []item) string {
	s := ""
	for _, it := range its {
		s += fmt.Sprintf(" %d=%d", it.k, it.v)
	}
	return s
}

// walkLine renders the spec's tree (pre-order <<key,size>> + items for leaf values).
func walkLine(st map[string]any) string {
	items := pairs(st["items"])
	pre := pairs(st["pre"])
	s := "W"
	li := 0
	for _, n := range pre {
		s += fmt.Sprintf(" %d:%d", n.k, n.v)
		if n.v == 1 {
			if li < len(items) {
				s += fmt.Sprintf("=%d", items[li].v)
			}
			li++
		}
	}
	return s
}

// projLine is what proj() must print for the spec's abstract state (items) and touched key k.
func projLine(st map[string]any, k, nk int) string {
	items := pairs(st["items"])
	val := map[int]int{}
	it, rit := "", ""
	for _, x := range items {
		val[x.k] = x.v
		it += fmt.Sprintf("%d=%d,", x.k, x.v)
		rit = fmt.Sprintf("%d=%d,", x.k, x.v) + rit
	}
	lo, hi := 1, nk
	if nk > 8 {
		lo, hi = max(k-2, 1), min(k+2, nk)
	}
	hg := ""
	for q := lo; q <= hi; q++ {
		if v, ok := val[q]; ok {
			hg += fmt.Sprintf("%d:true:%d,", q, v)
		} else {
			hg += fmt.Sprintf("%d:false:nil,", q)
		}
	}
	return fmt.Sprintf("P z=%d it=%s rit=%s idx=%s hg=%s", len(items), it, rit, it, hg)
}

func isMut(s mbt.Step) bool { return s.Act() == "Set" || s.Act() == "Remove" }

// call renders the Gno statement of a step and the expected reply line.
func call(s mbt.Step) (stmt string, exp string) {
	switch s.Act() {
	case "Set":
		return fmt.Sprintf("x.set(%d, %d)", s.Int("k"), s.Int("v")), "S " + strconv.FormatBool(s.Bool("reply"))
	case "Remove":
		r := s["reply"].(map[string]any)
		v := "nil"
		if n := mbt.Step(r).Int("v"); n != 0 {
			v = strconv.Itoa(n)
		}
		return fmt.Sprintf("x.remove(%d)", s.Int("k")), "R " + v + " " + strconv.FormatBool(mbt.Step(r).Bool("removed"))
	case "Get":
		v := "nil"
		if n := s.Int("reply"); n != 0 {
			v = strconv.Itoa(n)
		}
		return fmt.Sprintf("x.get(%d)", s.Int("k")), "G " + v
	case "Has":
		return fmt.Sprintf("x.has(%d)", s.Int("k")), "H " + strconv.FormatBool(s.Bool("reply"))
	case "Size":
		return "x.size()", "Z " + strconv.Itoa(s.Int("reply"))
	case "GetByIndex":
		r := mbt.Step(s["reply"].(map[string]any))
		if r.Bool("panic") {
			return fmt.Sprintf("x.byidx(%d)", s.Int("i")), "X panic"
		}
		return fmt.Sprintf("x.byidx(%d)", s.Int("i")), fmt.Sprintf("X %d=%d", r.Int("k"), r.Int("v"))
	case "Iterate", "ReverseIterate":
		r := s["reply"].(map[string]any)
		return fmt.Sprintf("x.iter(%v, %d, %d, %d)", s.Act() == "ReverseIterate", s.Int("s"), s.Int("e"), s.Int("lim")),
			"I" + seqStr(pairs(r["seq"])) + " | " + strconv.FormatBool(mbt.Step(r).Bool("stopped"))
	case "IterateByOffset", "ReverseIterateByOffset":
		r := s["reply"].(map[string]any)
		return fmt.Sprintf("x.off(%v, %d, %d, %d)", s.Act() == "ReverseIterateByOffset", s.Int("off"), s.Int("cnt"), s.Int("lim")),
			"O" + seqStr(pairs(r["seq"]))
	}
	mbt.Die("unknown act %q", s.Act())
	return "", ""
}

// ---------------------------------------------------------------- real-tree checks on a W line

type node struct {
	k, size int
	leaf    bool
	v       string
	l, r    *node
	h, n    int // real height, real number of leaves
}

func parseWalk(line string) ([]*node, error) {
	f := strings.Fields(line)
	if len(f) == 0 || f[0] != "W" {
		return nil, fmt.Errorf("not a walk line: %q", line)
	}
	var out []*node
	for _, tok := range f[1:] {
		if tok == "PANIC" {
			return nil, fmt.Errorf("walk panicked")
		}
		n := &node{}
		kv := strings.SplitN(tok, ":", 2)
		if len(kv) != 2 {
			return nil, fmt.Errorf("bad token %q", tok)
		}
		k, err := strconv.Atoi(kv[0])
		if err != nil {
			return nil, fmt.Errorf("unknown key in walk: %q", tok)
		}
		n.k = k
		sv := strings.SplitN(kv[1], "=", 2)
		n.size, _ = strconv.Atoi(sv[0])
		if len(sv) == 2 {
			n.leaf = true
			n.v = sv[1]
		}
		out = append(out, n)
	}
	return out, nil
}

func build(ns []*node, pos *int) (*node, error) {
	if *pos >= len(ns) {
		return nil, fmt.Errorf("walk ends inside an inner node")
	}
	n := ns[*pos]
	*pos++
	if n.leaf {
		n.h, n.n = 0, 1
		return n, nil
	}
	var err error
	if n.l, err = build(ns, pos); err != nil {
		return nil, err
	}
	if n.r, err = build(ns, pos); err != nil {
		return nil, err
	}
	n.h = max(n.l.h, n.r.h) + 1
	n.n = n.l.n + n.r.n
	return n, nil
}

// checkTree returns (key, what) of the first verdict failure of the real tree, or "".
func checkTree(line string, items []item) (string, string) {
	ns, err := parseWalk(line)
	if err != nil {
		return "C50:walk", err.Error()
	}
	var leaves []string
	for _, n := range ns {
		if n.leaf {
			leaves = append(leaves, fmt.Sprintf("%d=%s", n.k, n.v))
		}
	}
	var want []string
	for _, it := range items {
		want = append(want, fmt.Sprintf("%d=%d", it.k, it.v))
	}
	if strings.Join(leaves, " ") != strings.Join(want, " ") {
		return "C50:contents", fmt.Sprintf("leaves of the real tree [%s] differ from the ordered map [%s]", strings.Join(leaves, " "), strings.Join(want, " "))
	}
	if len(ns) == 0 {
		return "", ""
	}
	pos := 0
	root, err := build(ns, &pos)
	if err != nil || pos != len(ns) {
		return "C50:walk", fmt.Sprintf("pre-order walk does not form a tree: %v (consumed %d of %d)", err, pos, len(ns))
	}
	var bad, badSize string
	var rec func(n *node)
	rec = func(n *node) {
		if n.leaf {
			if n.size != 1 && badSize == "" {
				badSize = fmt.Sprintf("leaf %d has size %d", n.k, n.size)
			}
			return
		}
		if d := n.l.h - n.r.h; (d > 1 || d < -1) && bad == "" {
			bad = fmt.Sprintf("node with key %d: left height %d, right height %d", n.k, n.l.h, n.r.h)
		}
		if n.size != n.n && badSize == "" {
			badSize = fmt.Sprintf("inner node with key %d reports size %d but has %d leaves", n.k, n.size, n.n)
		}
		rec(n.l)
		rec(n.r)
	}
	rec(root)
	if bad != "" {
		return "C50:balance", "real tree is not height-balanced: " + bad
	}
	if badSize != "" {
		return "C50:size-field", badSize
	}
	return "", ""
}

// ---------------------------------------------------------------- grouping and programs

type lineRef struct {
	beh  int    // behaviour index the line belongs to (the first one for shared base lines)
	step int    // step index inside that behaviour
	exp  string // expected line
	kind string // "reply" | "walk" | "final"
	st   map[string]any
	act  string
}

type group struct {
	id    int
	base  []mbt.Step
	behs  []int // behaviours covered (indices)
	extra []struct {
		beh  int
		step mbt.Step
	}
	lines []lineRef
	src   string
}

func mkGroups(behs [][]mbt.Step) []*group {
	byBase := map[string]*group{}
	var out []*group
	for bi, b := range behs {
		base := b
		var last *mbt.Step
		if len(b) > 0 && !isMut(b[len(b)-1]) {
			base = b[:len(b)-1]
			last = &b[len(b)-1]
		}
		key := mbt.JS(base)
		g := byBase[key]
		if g == nil {
			g = &group{id: len(out), base: base}
			byBase[key] = g
			out = append(out, g)
		}
		g.behs = append(g.behs, bi)
		if last != nil {
			g.extra = append(g.extra, struct {
				beh  int
				step mbt.Step
			}{bi, *last})
		}
	}
	return out
}

func (g *group) compile() {
	var sb strings.Builder
	fmt.Fprintf(&sb, "func b%d() {\n\tprintln(\"#%d\")\n\tx := newT()\n", g.id, g.id)
	emptySt := map[string]any{"items": []any{}, "pre": []any{}}
	lastSt := emptySt
	first := g.behs[0]
	for i, s := range g.base {
		stmt, exp := call(s)
		sb.WriteString("\t" + stmt + "\n")
		g.lines = append(g.lines, lineRef{beh: first, step: i, exp: exp, kind: "reply", act: s.Act()})
		if isMut(s) {
			lastSt = s["st"].(map[string]any)
			g.lines = append(g.lines, lineRef{beh: first, step: i, exp: walkLine(lastSt), kind: "walk", st: lastSt, act: s.Act()})
			g.lines = append(g.lines, lineRef{beh: first, step: i, exp: projLine(lastSt, s.Int("k"), nkeys), kind: "proj", act: s.Act()})
		}
	}
	for _, e := range g.extra {
		stmt, exp := call(e.step)
		sb.WriteString("\t" + stmt + "\n")
		g.lines = append(g.lines, lineRef{beh: e.beh, step: len(g.base), exp: exp, kind: "reply", act: e.step.Act()})
	}
	sb.WriteString("\tx.walk()\n}\n")
	g.lines = append(g.lines, lineRef{beh: first, step: len(g.base) - 1, exp: walkLine(lastSt), kind: "final", st: lastSt, act: "reads"})
	g.src = sb.String()
}

type runner struct {
	e     *appenv.Env
	acct  *appenv.Account
	num   uint64
	seq   uint64
	keys  []string
	nruns int
	gas   int64
	intx  int
}

func (r *runner) keysDecl() string {
	var q []string
	for _, k := range r.keys {
		q = append(q, strconv.Quote(k))
	}
	return "var keys = []string{" + strings.Join(q, ", ") + "}\n\n"
}

// run executes the groups in one MsgRun and returns the output split per group id.
func (r *runner) run(gs []*group) (map[int][]string, string) {
	var sb strings.Builder
	sb.WriteString(prelude)
	sb.WriteString(r.keysDecl())
	for _, g := range gs {
		sb.WriteString(g.src)
	}
	sb.WriteString("func main() {\n")
	for _, g := range gs {
		fmt.Fprintf(&sb, "\tb%d()\n", g.id)
	}
	sb.WriteString("}\n")
	if !r.e.InBlock {
		r.e.BeginBlock()
	}
	msg := vm.NewMsgRun(r.acct.Addr, nil, []*std.MemFile{{Name: "main.gno", Body: sb.String()}})
	nl := 0
	for _, g := range gs {
		nl += len(g.lines)
	}
	// gas budget: ~20x what the unchanged package needs (measured <= 2M gas per printed line)
	tx := appenv.SignTx([]std.Msg{msg}, 3_000_000_000+int64(nl)*40_000_000, 1_000_000, appenv.ChainID, r.acct, r.num, r.seq)
	t0 := time.Now()
	res := r.e.Deliver(tx)
	if os.Getenv("AVL_TIMING") != "" {
		fmt.Fprintln(os.Stderr, "msgrun", len(gs), "groups", len(sb.String()), "bytes", time.Since(t0), "gas", res.GasUsed)
	}
	if res.GasWanted > 0 {
		r.seq++
	}
	r.nruns++
	r.gas += res.GasUsed
	r.intx++
	if r.intx >= 4 {
		r.e.EndBlockCommit()
		r.intx = 0
	}
	if !res.IsOK() {
		if _, oog := res.Error.(std.OutOfGasError); oog {
			return nil, "out of gas"
		}
		return nil, fmt.Sprintf("%v | %s", res.Error, res.Log)
	}
	out := map[int][]string{}
	cur := -1
	for _, l := range strings.Split(string(res.Data), "\n") {
		if strings.HasPrefix(l, "#") {
			cur, _ = strconv.Atoi(l[1:])
			continue
		}
		if l == "" || cur < 0 {
			continue
		}
		out[cur] = append(out[cur], l)
	}
	return out, ""
}

type failure struct {
	key, what string
	beh       int
}

// compare checks the output of one group; returns failures (at most one per behaviour).
func compare(g *group, got []string) []failure {
	var fs []failure
	seen := map[int]bool{}
	add := func(beh int, key, what string) {
		if !seen[beh] {
			seen[beh] = true
			fs = append(fs, failure{key, what, beh})
		}
	}
	if len(got) != len(g.lines) {
		add(g.lines[0].beh, "C50:output", fmt.Sprintf("program printed %d lines, expected %d: %q", len(got), len(g.lines), got))
		return fs
	}
	lastWalk := "W"
	for i, lr := range g.lines {
		l := got[i]
		switch lr.kind {
		case "proj":
			if l != lr.exp {
				add(lr.beh, "C50:"+lr.act+":state", fmt.Sprintf("after step %d %s the tree read back through Size/Iterate/ReverseIterate/GetByIndex/Has/Get is %q, spec %q", lr.step, lr.act, l, lr.exp))
			}
		case "reply":
			if l != lr.exp {
				key := "C50:" + lr.act + ":reply"
				if strings.Contains(l, "PANIC") {
					key = "C50:" + lr.act + ":panic"
				}
				add(lr.beh, key, fmt.Sprintf("step %d %s: real %q, spec %q", lr.step, lr.act, l, lr.exp))
			}
		case "walk", "final":
			if lr.kind == "final" {
				// reads must leave the tree as the last mutation left it
				if l != lastWalk {
					for _, e := range g.extra {
						add(e.beh, "C50:read-mutates", fmt.Sprintf("the walk after the reads %q differs from the walk before them %q", l, lastWalk))
					}
					if len(g.extra) == 0 {
						add(lr.beh, "C50:read-mutates", fmt.Sprintf("the walk after the reads %q differs from the walk before them %q", l, lastWalk))
					}
				}
				continue
			}
			lastWalk = l
			if key, what := checkTree(l, pairs(lr.st["items"])); key != "" {
				add(lr.beh, key, fmt.Sprintf("after step %d %s: %s (walk %q)", lr.step, lr.act, what, l))
			} else if l != lr.exp {
				drift++
				if driftSample == "" {
					driftSample = fmt.Sprintf("real %q spec %q", l, lr.exp)
				}
			}
		}
	}
	return fs
}

var (
	nkeys       int
	drift       int
	driftSample string
)

// readSets reads the -in file: a line holding a JSON object {"nk":N,"label":"..."} starts a new
// set (key table of N keys); every other line is one behaviour (JSON array of steps) of the
// current set. Without a directive all behaviours form one set with the nk of -x.
type bset struct {
	nk    int
	label string
	behs  [][]mbt.Step
}

func readSets(path string, nk int) []*bset {
	fh, err := os.Open(path)
	if err != nil {
		mbt.Die("%v", err)
	}
	defer fh.Close()
	var sets []*bset
	sc := bufio.NewScanner(fh)
	sc.Buffer(make([]byte, 1<<20), 1<<28)
	for sc.Scan() {
		line := strings.TrimSpace(sc.Text())
		if line == "" {
			continue
		}
		if line[0] == '{' {
			var d struct {
				NK    int    `json:"nk"`
				Label string `json:"label"`
			}
			if err := json.Unmarshal([]byte(line), &d); err != nil || d.NK <= 0 {
				mbt.Die("bad directive %q", line)
			}
			sets = append(sets, &bset{nk: d.NK, label: d.Label})
			continue
		}
		var steps []mbt.Step
		if err := json.Unmarshal([]byte(line), &steps); err != nil {
			mbt.Die("bad behaviour line: %v", err)
		}
		if len(sets) == 0 {
			sets = append(sets, &bset{nk: nk, label: "default"})
		}
		cur := sets[len(sets)-1]
		cur.behs = append(cur.behs, steps)
	}
	if err := sc.Err(); err != nil {
		mbt.Die("%v", err)
	}
	return sets
}

func runSet(r *runner, set *bset) {
	nk, behs := set.nk, set.behs
	nkeys = nk
	r.keys = keyTable(nk)
	drift, driftSample = 0, ""
	nruns0, gas0 := r.nruns, r.gas
	groups := mkGroups(behs)
	for _, g := range groups {
		g.compile()
	}
	caseOf := func(bi int) map[string]any {
		return map[string]any{"nk": nk, "keys": r.keys, "steps": behs[bi]}
	}
	failed := map[int]bool{}
	perKey := map[string]int{}
	steps := 0
	unreported := 0
	report := func(fl failure) {
		if failed[fl.beh] {
			return
		}
		if len(failed) >= maxReported || perKey[fl.key] >= maxPerKey {
			unreported++
			return
		}
		perKey[fl.key]++
		// re-run the single behaviour from a fresh tree in its own transaction
		sg := mkGroups([][]mbt.Step{behs[fl.beh]})
		for _, g := range sg {
			g.compile()
		}
		out, errs := r.run(sg)
		repro := errs != ""
		if errs == "" {
			repro = len(compare(sg[0], out[0])) > 0
		}
		if !repro {
			mbt.Die("FLAKY: behaviour %d failed in a batch (%s: %s) but not alone", fl.beh, fl.key, fl.what)
		}
		failed[fl.beh] = true
		mbt.Mismatch(fl.key, fl.what, caseOf(fl.beh))
	}
	// batches of groups, bounded by source size
	const maxStmts = 700
	for i := 0; i < len(groups); {
		j, n := i, 0
		for j < len(groups) && (j == i || n+len(groups[j].lines) <= maxStmts) {
			n += len(groups[j].lines)
			j++
		}
		batch := groups[i:j]
		i = j
		out, errs := r.run(batch)
		if errs != "" {
			// the whole program aborted (a panic outside try, gas, type error): localise per group
			for _, g := range batch {
				o1, e1 := r.run([]*group{g})
				if e1 == "out of gas" {
					report(failure{"C50:no-answer", "the calls did not finish within 20x the gas the unchanged package needs", g.behs[0]})
					continue
				}
				if e1 != "" {
					mbt.Die("generated program does not run (not a verdict): %s", e1)
				}
				for _, fl := range compare(g, o1[g.id]) {
					report(fl)
				}
			}
			continue
		}
		for _, g := range batch {
			steps += len(g.lines)
			for _, fl := range compare(g, out[g.id]) {
				report(fl)
			}
		}
	}
	if len(behs) > 0 {
		mbt.Sample(map[string]any{"nk": nk, "steps": behs[len(behs)/2]})
	}
	mbt.Summary(map[string]any{"set": set.label, "behaviours": len(behs), "replays": len(behs), "replays_ok": len(behs) - len(failed) - unreported,
		"groups": len(groups), "msgruns": r.nruns - nruns0, "lines": steps, "gas": r.gas - gas0, "unreported_failures": unreported,
		"shape_drift": drift, "drift_sample": driftSample})
}

func main() {
	f := mbt.ParseFlags()
	nk := 6
	for _, kv := range strings.Split(f.Extra, ";") {
		p := strings.SplitN(kv, "=", 2)
		if len(p) == 2 && p[0] == "nk" {
			nk, _ = strconv.Atoi(p[1])
		}
	}
	root := gnoenv.RootDir()
	if _, err := os.Stat(filepath.Join(root, "examples", avlPath, "node.gno")); err != nil {
		mbt.Die("gno root %q has no avl package: %v", root, err)
	}
	sets := readSets(f.In, nk)
	dep := appenv.NewAccount("deployer")
	acct := appenv.NewAccount("a")
	e, err := appenv.New(appenv.Options{
		MaxGas:   1_000_000_000_000,
		Balances: map[crypto.Address]int64{dep.Addr: 1e15, acct.Addr: 1e15},
		Deployer: dep,
		Pkgs:     []appenv.Pkg{loadPkg(root, avlPath)},
	})
	if err != nil {
		mbt.Die("app: %v", err)
	}
	ai := e.Account(acct.Addr)
	r := &runner{e: e, acct: acct, num: ai.Num, seq: ai.Seq}
	for _, set := range sets {
		runSet(r, set)
	}
	if e.InBlock {
		e.EndBlockCommit()
	}
	mbt.Flush()
}
