// Driver for C31 (spec/Consensus.tla, spec/ConsensusTrace.tla): real ConsensusState objects
// stepped deterministically through the verif stepping interface by a seeded adversarial
// scheduler (delay, reorder, duplicate, drop; a Byzantine validator played by two "twin"
// instances with the same key plus crafted votes). Every driver call is one trace line.
// -mode sched (sched.go): the same real nodes driven by the behaviours of spec/ConsensusSched.tla instead.
// -x nodirected / -x directedonly: diagnostics (chaos without the directed schedule / the directed schedule alone).
package main

import (
	"bufio"
	"encoding/hex"
	"encoding/json"
	"fmt"
	"math/rand"
	"os"
	"sort"
	"sync"
	"time"

	abcicli "github.com/gnolang/gno/tm2/pkg/bft/abci/client"
	"github.com/gnolang/gno/tm2/pkg/bft/abci/example/kvstore"
	cns "github.com/gnolang/gno/tm2/pkg/bft/consensus"
	cnscfg "github.com/gnolang/gno/tm2/pkg/bft/consensus/config"
	cstypes "github.com/gnolang/gno/tm2/pkg/bft/consensus/types"
	"github.com/gnolang/gno/tm2/pkg/bft/mempool/mock"
	sm "github.com/gnolang/gno/tm2/pkg/bft/state"
	"github.com/gnolang/gno/tm2/pkg/bft/store"
	"github.com/gnolang/gno/tm2/pkg/bft/types"
	"github.com/gnolang/gno/tm2/pkg/crypto/ed25519"
	"github.com/gnolang/gno/tm2/pkg/db/memdb"
	"github.com/gnolang/gno/tm2/pkg/events"
	"github.com/gnolang/gno/tm2/pkg/log"
	p2pTypes "github.com/gnolang/gno/tm2/pkg/p2p/types"

	"verifharness/mbt"
)

const chainID = "verif-consensus"

// mempool that always offers one tx tagged with the instance, so twins propose different blocks
type taggedMempool struct {
	mock.Mempool
	tag string
	n   int
}

func (m *taggedMempool) ReapMaxBytesMaxGas(_, _ int64) types.Txs {
	m.n++
	return types.Txs{types.Tx(fmt.Sprintf("%s%d=v", m.tag, m.n))}
}

// recPV records every vote / proposal the instance signs, at signing time
type recPV struct {
	types.PrivValidator
	signed []map[string]any
}

func (p *recPV) SignVote(chainID string, vote *types.Vote) error {
	err := p.PrivValidator.SignVote(chainID, vote)
	if err == nil {
		k := "prevote"
		if vote.Type == types.PrecommitType {
			k = "precommit"
		}
		p.signed = append(p.signed, map[string]any{"kind": k, "h": vote.Height, "r": vote.Round, "v": short(vote.BlockID.Hash)})
	}
	return err
}

func (p *recPV) SignProposal(chainID string, pr *types.Proposal) error {
	err := p.PrivValidator.SignProposal(chainID, pr)
	if err == nil {
		p.signed = append(p.signed, map[string]any{"kind": "proposal", "h": pr.Height, "r": pr.Round, "v": short(pr.BlockID.Hash)})
	}
	return err
}

type netMsg struct {
	From   string // validator name of the signer ("h1".."h3","b1")
	Kind   string // proposal | part | prevote | precommit
	H      int64
	R      int
	Value  string // short block id or "nil"
	Pol    int
	Msg    cns.ConsensusMessage
	origin int // instance index that produced it (-1 crafted)
}

type inst struct {
	name    string // validator name; twins share it
	tag     string // instance tag (h1,h2,h3,b1a,b1b)
	honest  bool
	cs      *cns.ConsensusState
	ticker  *cns.VerifTicker
	bs      *store.BlockStore
	pending *cns.VerifTimeout
	lastTi  *cns.VerifTimeout
	pv      *recPV
	dead    bool
	inbox   []int // indices into net not yet delivered
	seenIdx map[int]bool
}

type world struct {
	rng    *rand.Rand
	insts  []*inst
	net    []netMsg
	privs  map[string]ed25519.PrivKeyEd25519
	valIdx map[string]int
	valset *types.ValidatorSet
	out    *bufio.Writer
	lines  int
	known  map[string]types.BlockID // short id -> block id (values seen in proposals)
	steps  int
}

func short(h []byte) string {
	if len(h) == 0 {
		return "nil"
	}
	return hex.EncodeToString(h)[:10]
}

func (w *world) emit(x any) {
	bz, err := json.Marshal(x)
	if err != nil {
		panic(err)
	}
	w.out.Write(bz)
	w.out.WriteByte('\n')
	w.lines++
}

func newInst(name, tag string, honest bool, genDoc *types.GenesisDoc, priv ed25519.PrivKeyEd25519) *inst {
	stateDB := memdb.NewMemDB()
	state, err := sm.LoadStateFromDBOrGenesisDoc(stateDB, genDoc)
	if err != nil {
		mbt.Die("state: %v", err)
	}
	app := kvstore.NewKVStoreApplication()
	mtx := new(sync.Mutex)
	conCon := abcicli.NewLocalClient(mtx, app)
	mp := &taggedMempool{tag: tag}
	sm.SaveState(stateDB, state)
	blockExec := sm.NewBlockExecutor(stateDB, log.NewNoopLogger(), conCon, mp)
	bs := store.NewBlockStore(memdb.NewMemDB())
	cfg := cnscfg.TestConsensusConfig()
	cfg.SkipTimeoutCommit = false
	cfg.CreateEmptyBlocks = true
	cs := cns.NewConsensusState(cfg, state, blockExec, bs, mp, cns.NoOpEvidencePool{})
	cs.SetLogger(log.NewNoopLogger())
	pv := &recPV{PrivValidator: types.NewMockPVWithPrivKey(priv)}
	cs.SetPrivValidator(pv)
	evsw := events.NewEventSwitch()
	evsw.Start()
	cs.SetEventSwitch(evsw)
	tk := cns.NewVerifTicker()
	cs.SetTimeoutTicker(tk)
	return &inst{name: name, tag: tag, honest: honest, cs: cs, ticker: tk, bs: bs, seenIdx: map[int]bool{}, pv: pv}
}

func hrsLess(a, b cns.VerifTimeout) bool {
	if a.Height != b.Height {
		return a.Height < b.Height
	}
	if a.Round != b.Round {
		return a.Round < b.Round
	}
	return a.Step < b.Step
}

// collectTimeouts applies the real timeoutTicker's rule: a newly scheduled timeout replaces the current one unless it
// is for an older height/round, or for the same round and a step not later than the last accepted one
func (w *world) collectTimeouts(in *inst) {
	for _, t := range in.ticker.Take() {
		t := t
		if in.lastTi != nil {
			l := in.lastTi
			if t.Height < l.Height || (t.Height == l.Height && (t.Round < l.Round || (t.Round == l.Round && l.Step > 0 && t.Step <= l.Step))) {
				continue
			}
		}
		in.lastTi = &t
		in.pending = &t
	}
}

func (w *world) describe(msg cns.ConsensusMessage, from string, origin int) netMsg {
	switch m := msg.(type) {
	case *cns.ProposalMessage:
		id := short(m.Proposal.BlockID.Hash)
		w.known[id] = m.Proposal.BlockID
		return netMsg{From: from, Kind: "proposal", H: m.Proposal.Height, R: m.Proposal.Round, Value: id, Pol: m.Proposal.POLRound, Msg: msg, origin: origin}
	case *cns.BlockPartMessage:
		return netMsg{From: from, Kind: "part", H: m.Height, R: m.Round, Value: fmt.Sprint(m.Part.Index), Msg: msg, origin: origin}
	case *cns.VoteMessage:
		k := "prevote"
		if m.Vote.Type == types.PrecommitType {
			k = "precommit"
		}
		return netMsg{From: from, Kind: k, H: m.Vote.Height, R: m.Vote.Round, Value: short(m.Vote.BlockID.Hash), Msg: msg, origin: origin}
	}
	return netMsg{From: from, Kind: "other", Msg: msg, origin: origin}
}

func (w *world) broadcast(nm netMsg) {
	idx := len(w.net)
	w.net = append(w.net, nm)
	for i, in := range w.insts {
		if i == nm.origin {
			continue
		}
		in.inbox = append(in.inbox, idx)
	}
}

// projection of an instance through GetRoundState and its block store
func (w *world) project(in *inst) map[string]any {
	rs := in.cs.GetRoundState()
	st := map[string]any{
		"h": rs.Height, "r": rs.Round, "s": int(rs.Step),
		"lr": rs.LockedRound, "lv": "nil", "vr": rs.ValidRound, "vv": "nil", "pb": "nil",
	}
	if rs.LockedBlock != nil {
		st["lv"] = short(rs.LockedBlock.Hash())
	}
	if rs.ValidBlock != nil {
		st["vv"] = short(rs.ValidBlock.Hash())
	}
	if rs.ProposalBlock != nil {
		st["pb"] = short(rs.ProposalBlock.Hash())
	}
	dec := map[string]string{}
	for h := max(int64(1), in.bs.Height()-2); h <= in.bs.Height(); h++ {
		if meta := in.bs.LoadBlockMeta(h); meta != nil {
			dec[fmt.Sprint(h)] = short(meta.BlockID.Hash)
		}
	}
	st["dec"] = dec
	return st
}

func (w *world) logStep(in *inst, kind string, nm *netMsg, before map[string]any) {
	signed := in.pv.signed
	in.pv.signed = nil
	if signed == nil {
		signed = []map[string]any{}
	}
	if in.honest {
		rs := in.cs.GetRoundState()
		if rs.LockedBlock != nil && rs.LockedRound < rs.Round {
			key := fmt.Sprintf("%s/%d/%d", in.tag, rs.Height, rs.LockedRound)
			if !carried[key] {
				carried[key] = true
			}
		}
	}
	ev := map[string]any{"act": "Step", "node": in.name, "inst": in.tag, "honest": in.honest, "kind": kind, "st": w.project(in), "signed": signed}
	if nm != nil {
		ev["msg"] = map[string]any{"kind": nm.Kind, "src": nm.From, "h": nm.H, "r": nm.R, "v": nm.Value, "pol": nm.Pol}
	} else {
		ev["msg"] = map[string]any{"kind": "none", "src": "none", "h": 0, "r": 0, "v": "nil", "pol": -1}
	}
	w.emit(ev)
	w.steps++
}

// a panic inside a consensus step halts that node (receiveRoutine recovers and stops): recorded, node no longer stepped
func (w *world) nodePanic(in *inst, val any, stack string) {
	in.dead = true
	panics++
	w.emit(map[string]any{"act": "Panic", "node": in.name, "inst": in.tag, "honest": in.honest, "what": fmt.Sprint(val), "where": mbt.ShortStack(stack)})
}

func (w *world) popInternal(i int) bool {
	in := w.insts[i]
	if in.dead {
		return false
	}
	var msg cns.ConsensusMessage
	var ok bool
	if p, val, st := mbt.Guard(func() { msg, ok = in.cs.VerifPopInternal() }); p {
		w.nodePanic(in, val, st)
		return false
	}
	if !ok {
		return false
	}
	nm := w.describe(msg, in.name, i)
	w.collectTimeouts(in)
	w.logStep(in, "internal", &nm, nil)
	w.broadcast(nm)
	return true
}

func (w *world) deliver(i int, idx int) {
	in := w.insts[i]
	nm := w.net[idx]
	if in.dead {
		return
	}
	if p, val, st := mbt.Guard(func() { in.cs.VerifDeliverPeer(nm.Msg, "peer-"+nm.From+fmt.Sprint(nm.origin)) }); p {
		w.nodePanic(in, val, st)
		return
	}
	w.collectTimeouts(in)
	w.logStep(in, "deliver", &nm, nil)
}

func (w *world) fire(i int) bool {
	in := w.insts[i]
	if in.pending == nil {
		return false
	}
	if in.dead {
		return false
	}
	t := *in.pending
	in.pending = nil
	if p, val, st := mbt.Guard(func() { in.cs.VerifFireTimeout(t) }); p {
		w.nodePanic(in, val, st)
		return false
	}
	w.collectTimeouts(in)
	nm := netMsg{Kind: "timeout", From: "none", H: t.Height, R: t.Round, Value: fmt.Sprint(int(t.Step)), Pol: -1}
	w.logStep(in, "timeout", &nm, nil)
	return true
}

// craft a vote signed with the Byzantine key for any known value in any nearby round
func (w *world) craftByzVote(maxH int64) {
	vals := []string{"nil"}
	for k := range w.known {
		vals = append(vals, k)
	}
	sort.Strings(vals)
	v := vals[w.rng.Intn(len(vals))]
	bid := types.BlockID{}
	if v != "nil" {
		bid = w.known[v]
	}
	typ := types.PrevoteType
	if w.rng.Intn(2) == 0 {
		typ = types.PrecommitType
	}
	h := maxH
	if h > 1 && w.rng.Intn(4) == 0 {
		h--
	}
	vote := &types.Vote{Type: typ, Height: h, Round: w.rng.Intn(3), BlockID: bid, Timestamp: time.Now().UTC(),
		ValidatorAddress: w.privs["b1"].PubKey().Address(), ValidatorIndex: w.valIdx["b1"]}
	sig, _ := w.privs["b1"].Sign(vote.SignBytes(chainID))
	vote.Signature = sig
	nm := w.describe(&cns.VoteMessage{Vote: vote}, "b1", -1)
	w.broadcast(nm)
}

func (w *world) minHonestHeight() int64 {
	m := int64(1 << 60)
	for _, in := range w.insts {
		if in.honest {
			if h := in.bs.Height(); h < m {
				m = h
			}
		}
	}
	return m
}

func (w *world) maxHeight() int64 {
	m := int64(1)
	for _, in := range w.insts {
		if h := in.cs.GetRoundState().Height; h > m {
			m = h
		}
	}
	return m
}


// directedLockSplit steers height 1 into the situation the locking rules exist for: exactly one honest node (the
// victim) sees a polka for the round-0 proposal and locks on it, the other honest nodes see +2/3 prevotes without a
// polka (the Byzantine validator equivocates: its informed twin prevotes the block towards the victim, its starved
// twin prevotes nil towards the others), everybody moves to round 1, where an unlocked proposer proposes a different
// block that is delivered to the still locked victim. The random scheduler takes over from there.
func (w *world) directedLockSplit() {
	tagIdx := map[string]int{}
	for i, in := range w.insts {
		tagIdx[in.tag] = i
	}
	drain := func(i int) {
		for w.popInternal(i) {
		}
	}
	deliverWhere := func(i int, keep func(nm netMsg) bool) {
		in := w.insts[i]
		var rest []int
		for _, idx := range in.inbox {
			if keep(w.net[idx]) {
				w.deliver(i, idx)
				drain(i)
			} else {
				rest = append(rest, idx)
			}
		}
		in.inbox = rest
	}
	fromTag := func(nm netMsg) string {
		if nm.origin < 0 {
			return "crafted"
		}
		return w.insts[nm.origin].tag
	}
	honest := []int{tagIdx["h1"], tagIdx["h2"], tagIdx["h3"]}
	a, b := tagIdx["b1a"], tagIdx["b1b"]
	// round 0 starts everywhere; proposer(s) propose
	for i := range w.insts {
		w.fire(i) // NewHeight timeout -> enterNewRound -> enterPropose
		drain(i)
	}
	// proposal and block reach the honest nodes and the informed twin; the starved twin hears nothing
	for _, i := range append(append([]int{}, honest...), a) {
		deliverWhere(i, func(nm netMsg) bool { return (nm.Kind == "proposal" || nm.Kind == "part") && fromTag(nm) != "b1b" })
	}
	w.fire(b) // propose timeout: the starved twin prevotes nil
	drain(b)
	// prefer a victim that is not the proposer of round 1 (a locked proposer re-proposes its own block)
	rs0 := w.insts[honest[0]].cs.GetRoundState()
	p1 := rs0.Validators.CopyIncrementProposerPriority(1).GetProposer().Address
	cands := []int{}
	for _, i := range honest {
		if w.privs[w.insts[i].name].PubKey().Address() != p1 {
			cands = append(cands, i)
		}
	}
	victim := cands[w.rng.Intn(len(cands))]
	others := []int{}
	for _, i := range honest {
		if i != victim {
			others = append(others, i)
		}
	}
	// the victim and the informed twin see every prevote except the starved twin's
	for _, i := range []int{victim, a} {
		deliverWhere(i, func(nm netMsg) bool { return nm.Kind == "prevote" && fromTag(nm) != "b1b" })
	}
	// the others see each other's prevotes and the starved twin's nil: +2/3 any, no polka
	for _, i := range others {
		deliverWhere(i, func(nm netMsg) bool {
			t := fromTag(nm)
			return nm.Kind == "prevote" && t != "b1a" && t != w.insts[victim].tag
		})
		w.fire(i) // prevote-wait timeout -> precommit nil
		drain(i)
	}
	w.fire(b) // the starved twin precommits nil as well
	drain(b)
	// precommits: everybody hears the nils (+2/3 nil -> precommit wait -> next round); the victim keeps its lock
	for i := range w.insts {
		deliverWhere(i, func(nm netMsg) bool { return nm.Kind == "precommit" && nm.Value == "nil" })
		w.fire(i) // precommit-wait timeout -> round 1
		drain(i)
	}
	// round 1: whoever proposes (it did so on entering the round), the proposal goes to everybody, the victim included
	for i := range w.insts {
		deliverWhere(i, func(nm netMsg) bool {
			// if the Byzantine validator proposes round 1, the victim gets the starved twin's (fresh) block
			if i == victim && fromTag(nm) == "b1a" {
				return false
			}
			return (nm.Kind == "proposal" || nm.Kind == "part") && nm.R == 1
		})
		w.fire(i) // propose timeout if the proposal was not complete
		drain(i)
	}
	directed++
}

var windows int
var panics int
var directed int
var carried = map[string]bool{}

func scenario(f *mbt.Flags, rng *rand.Rand, out *bufio.Writer, powers []int64, byz bool, targetH int64, chaosSteps int) (map[string]any, bool) {
	names := []string{"h1", "h2", "h3", "b1"}
	privs := map[string]ed25519.PrivKeyEd25519{}
	var gvals []types.GenesisValidator
	for i, n := range names {
		p := ed25519.GenPrivKeyFromSecret([]byte("verif-cons-" + n))
		privs[n] = p
		gvals = append(gvals, types.GenesisValidator{PubKey: p.PubKey(), Power: powers[i], Address: p.PubKey().Address(), Name: n})
	}
	genDoc := &types.GenesisDoc{GenesisTime: time.Unix(1_700_000_000, 0).UTC(), ChainID: chainID, Validators: gvals}
	w := &world{rng: rng, privs: privs, out: out, known: map[string]types.BlockID{}, valIdx: map[string]int{}}
	w.insts = append(w.insts, newInst("h1", "h1", true, genDoc, privs["h1"]), newInst("h2", "h2", true, genDoc, privs["h2"]), newInst("h3", "h3", true, genDoc, privs["h3"]))
	if byz {
		w.insts = append(w.insts, newInst("b1", "b1a", false, genDoc, privs["b1"]), newInst("b1", "b1b", false, genDoc, privs["b1"]))
	} else {
		w.insts = append(w.insts, newInst("b1", "b1a", true, genDoc, privs["b1"]))
	}
	_, vals := w.insts[0].cs.GetValidators()
	pw := map[string]int64{}
	for i, v := range vals {
		for n, p := range privs {
			if p.PubKey().Address() == v.Address {
				w.valIdx[n] = i
				pw[n] = v.VotingPower
			}
		}
	}
	honestNames := []string{}
	for _, in := range w.insts {
		if in.honest {
			honestNames = append(honestNames, in.name)
		}
	}
	w.emit(map[string]any{"act": "Init", "power": pw, "honest": honestNames})
	for _, in := range w.insts {
		in.cs.VerifScheduleRound0()
		w.collectTimeouts(in)
	}
	if byz && powers[0] == powers[1] && powers[1] == powers[2] && powers[2] == powers[3] && rng.Intn(10) < 8 && f.Extra != "nodirected" {
		w.directedLockSplit()
	}
	if f.Extra == "directedonly" {
		chaosSteps = 0 // diagnostics: the directed schedule (if any) and the after-GST phase only
	}
	// ---- chaos phase: adversarial scheduling.
	// Besides uniformly random delivery, "asymmetric partition" windows make lock situations frequent: one honest
	// victim (and twin b1a, which follows the protocol on full information) hears everybody, while the other honest
	// nodes do not receive the prevotes of the victim and of b1a, and hear the starved twin b1b (which prevotes nil)
	// instead. The victim then sees a polka and locks; the others time out, precommit nil and move to the next round.
	victim := -1
	windowEnd := 0
	blocked := func(i int, nm netMsg) bool {
		if victim < 0 || !byz {
			return false
		}
		isVictim := i == victim || w.insts[i].tag == "b1a"
		fromB1b := nm.origin >= 0 && w.insts[nm.origin].tag == "b1b"
		fromInformed := nm.origin == victim || (nm.origin >= 0 && w.insts[nm.origin].tag == "b1a")
		if isVictim {
			return fromB1b
		}
		if w.insts[i].tag == "b1b" {
			return nm.Kind != "proposal" && nm.Kind != "part" && w.rng.Intn(4) != 0 // starved: mostly hears nothing
		}
		return nm.Kind == "prevote" && fromInformed
	}
	pick := func(in *inst, i int) (int, int, bool) { // choose a deliverable inbox entry
		for try := 0; try < 6 && len(in.inbox) > 0; try++ {
			k := w.rng.Intn(len(in.inbox))
			if !blocked(i, w.net[in.inbox[k]]) {
				return k, in.inbox[k], true
			}
		}
		return 0, 0, false
	}
	for iter := 0; w.steps < chaosSteps && w.minHonestHeight() < targetH && iter < 20*chaosSteps; iter++ {
		if victim >= 0 && w.steps > windowEnd {
			victim = -1
		}
		if victim < 0 && byz && (w.steps == 0 || w.rng.Intn(25) == 0) {
			victim = w.rng.Intn(3)
			windowEnd = w.steps + 80 + w.rng.Intn(160)
			windows++
		}
		i := w.rng.Intn(len(w.insts))
		in := w.insts[i]
		switch p := w.rng.Intn(100); {
		case p < 40:
			if !w.popInternal(i) {
				if k, idx, ok := pick(in, i); ok {
					in.inbox = append(in.inbox[:k], in.inbox[k+1:]...)
					w.deliver(i, idx)
				}
			}
		case p < 80:
			if k, idx, ok := pick(in, i); ok {
				if w.rng.Intn(12) != 0 { // otherwise: duplicate later
					in.inbox = append(in.inbox[:k], in.inbox[k+1:]...)
				}
				if w.rng.Intn(25) == 0 {
					break // lost (it stays in w.net: another node may still get it)
				}
				w.deliver(i, idx)
			}
		case p < 90:
			// timeouts fire when the instance has nothing deliverable (always possible with low probability)
			if _, _, ok := pick(in, i); !ok || w.rng.Intn(5) == 0 {
				w.fire(i)
			}
		default:
			if byz && w.rng.Intn(4) == 0 && len(w.known) > 0 {
				// lying about +2/3: the Byzantine peer claims a majority for some block at some round
				vals := []string{}
				for k := range w.known {
					vals = append(vals, k)
				}
				sort.Strings(vals)
				rs := in.cs.GetRoundState()
				typ := types.PrevoteType
				if w.rng.Intn(2) == 0 {
					typ = types.PrecommitType
				}
				rs.Votes.SetPeerMaj23(w.rng.Intn(rs.Round+2), typ, p2pTypes.ID("claim-b1"), w.known[vals[w.rng.Intn(len(vals))]])
			} else if byz && victim < 0 {
				w.craftByzVote(w.maxHeight())
			} else {
				w.popInternal(i)
			}
		}
	}
	chaosEnd := w.steps
	// ---- after GST: everything is delivered (twin b goes silent), timeouts fire only when nothing else is enabled
	startH := w.minHonestHeight()
	goal := startH + 2
	budget := 6000
	progressed := true
	claimed := map[string]bool{}
	regossip := false
	_ = windows
	for w.minHonestHeight() < goal {
		if budget <= 0 {
			progressed = false
			break
		}
		did := false
		for i, in := range w.insts {
			if in.tag == "b1b" {
				continue
			}
			for w.popInternal(i) {
				did = true
				budget--
			}
			// commit catch-up as the reactor does it: a peer that has committed this instance's height claims
			// +2/3 for the commit (VoteSetMaj23), after which conflicting precommits for it are tracked; resend them
			{
				rs := in.cs.GetRoundState()
				key := fmt.Sprintf("%d/%d", i, rs.Height)
				if !claimed[key] {
					for j, other := range w.insts {
						if j == i || other.bs.Height() < rs.Height {
							continue
						}
						commit := other.bs.LoadSeenCommit(rs.Height)
						if commit == nil {
							continue
						}
						claimed[key] = true
						rs.Votes.SetPeerMaj23(commit.Round(), types.PrecommitType, p2pTypes.ID("claim-"+other.tag), commit.BlockID)
						for idx := range w.net {
							if w.net[idx].H == rs.Height && w.net[idx].Kind == "precommit" && w.net[idx].R == commit.Round() {
								delete(in.seenIdx, idx)
							}
						}
						break
					}
				}
			}
			// deliver everything of the instance's height it has not seen after GST; block parts are gossiped
			// again while the instance still lacks the block (the reactor re-sends parts according to peer state)
			for idx := range w.net {
				nm := w.net[idx]
				rs := in.cs.GetRoundState()
				if nm.origin == i && !(nm.Kind == "part" && rs.ProposalBlock == nil && rs.ProposalBlockParts != nil) {
					continue // own messages come back only as block parts gossiped by peers that hold the block
				}
				if nm.H != rs.Height {
					continue // old, or not yet useful (looked at again in a later pass)
				}
				if in.seenIdx[idx] {
					needsBlock := rs.ProposalBlock == nil && rs.ProposalBlockParts != nil
					if !(nm.Kind == "part" && needsBlock && (regossip || w.rng.Intn(3) == 0)) {
						continue
					}
				}
				in.seenIdx[idx] = true
				w.deliver(i, idx)
				did = true
				budget--
				for w.popInternal(i) {
					budget--
				}
			}
		}
		if did {
			regossip = false
		}
		if !did {
			if !regossip {
				// nothing left to deliver: before any timeout fires (or the run is declared stuck), one pass in which
				// the parts of a block an instance is still waiting for are gossiped again unconditionally
				regossip = true
				continue
			}
			// fire the lowest pending timeout
			best := -1
			for i, in := range w.insts {
				if in.tag == "b1b" || in.pending == nil {
					continue
				}
				if best < 0 || hrsLess(*in.pending, *w.insts[best].pending) {
					best = i
				}
			}
			if best < 0 {
				progressed = false
				break
			}
			w.fire(best)
			budget--
		}
	}
	if !progressed && os.Getenv("VERIF_DEBUG") != "" {
		for _, in := range w.insts {
			rs := in.cs.GetRoundState()
			fmt.Fprintf(os.Stderr, "DBG %s h=%d r=%d s=%v commitRound=%d pbp=%v\n", in.tag, rs.Height, rs.Round, rs.Step, rs.CommitRound, rs.ProposalBlockParts)
			if rs.ProposalBlockParts != nil {
				fmt.Fprintf(os.Stderr, "   header=%v\n", rs.ProposalBlockParts.Header())
			}
		}
		for idx, nm := range w.net {
			if nm.H == 1 && (nm.Kind == "part" || nm.Kind == "proposal") {
				if pm, ok := nm.Msg.(*cns.BlockPartMessage); ok {
					fmt.Fprintf(os.Stderr, "   net[%d] part r=%d origin=%d root=%X idx=%d total=%d\n", idx, nm.R, nm.origin, pm.Part.Proof.LeafHash, pm.Part.Index, pm.Part.Proof.Total)
				} else {
					fmt.Fprintf(os.Stderr, "   net[%d] proposal r=%d origin=%d v=%s parts=%v\n", idx, nm.R, nm.origin, nm.Value, nm.Msg.(*cns.ProposalMessage).Proposal.BlockID.PartsHeader)
				}
			}
		}
	}
	w.emit(map[string]any{"act": "Reset"})
	return map[string]any{"steps": w.steps, "chaos_steps": chaosEnd, "heights": w.minHonestHeight(), "messages": len(w.net)}, progressed
}

func main() {
	f := mbt.ParseFlags()
	rng := f.Rand()
	outf, err := os.Create(f.Out)
	if err != nil {
		mbt.Die("%v", err)
	}
	out := bufio.NewWriterSize(outf, 1<<16)
	n := f.N
	if n <= 0 {
		n = 10
	}
	if f.Mode == "sched" {
		// model-driven schedules (sched.go): behaviours of spec/ConsensusSched.tla realised on the real nodes
		tot := schedMode(f, out)
		out.Flush()
		outf.Close()
		tot["node_panics"] = panics
		mbt.Summary(tot)
		mbt.Flush()
		return
	}
	powerSets := [][]int64{{1, 1, 1, 1}, {3, 2, 2, 3}, {2, 2, 3, 2}, {5, 4, 4, 6}}
	tot := map[string]any{"scenarios": 0, "steps": 0, "heights": 0, "noprogress": 0}
	defer func() {}()
	for s := 0; s < n; s++ {
		powers := powerSets[rng.Intn(len(powerSets))]
		if rng.Intn(2) == 0 {
			powers = powerSets[0]
		}
		byz := rng.Intn(5) != 0
		sum, progressed := scenario(f, rng, out, powers, byz, 3, 250+rng.Intn(500))
		tot["scenarios"] = tot["scenarios"].(int) + 1
		tot["steps"] = tot["steps"].(int) + sum["steps"].(int)
		tot["heights"] = tot["heights"].(int) + int(sum["heights"].(int64))
		if !progressed {
			tot["noprogress"] = tot["noprogress"].(int) + 1
			mbt.Emit(map[string]any{"kind": "noprogress", "scenario": s, "summary": sum})
		}
		if s < 2 {
			mbt.Sample(sum)
		}
	}
	out.Flush()
	outf.Close()
	tot["partition_windows"] = windows
	tot["node_panics"] = panics
	tot["directed_lock_splits"] = directed
	tot["locks_carried_to_later_round"] = len(carried)
	mbt.Summary(tot)
	mbt.Flush()
	_ = cstypes.RoundStepNewHeight
}
