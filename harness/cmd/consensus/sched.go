// Model-driven schedules for C31 (spec/ConsensusSched.tla): every behaviour TLC generated is a schedule
// -- one stimulus per step for one honest node (deliver a proposal with its block, deliver the parts of an awaited
// block, deliver one vote, fire the pending timeout), followed by draining that node's internal queue -- and is
// realised here on real ConsensusState objects with the primitives of the chaos driver (deliver / popInternal /
// fire; the Byzantine validator's proposals and votes are crafted with its key). Abstract values are bound to real
// block ids on the fly (the first real proposal carrying an abstract value binds it). After every step the real
// node's projection (round, step, lock, valid block, block in hand, polkas / commits seen per round, pending
// timeout, decision, messages it emitted) is compared with the model's. A difference is NOT a violation: the
// behaviour is counted as unrealisable:<reason> and abandoned; verdicts come only from validating the recorded
// execution (same NDJSON events as the chaos stage) against ConsensusTrace.tla.
package main

import (
	"bufio"
	"encoding/hex"
	"fmt"
	"strings"
	"time"

	abcicli "github.com/gnolang/gno/tm2/pkg/bft/abci/client"
	"github.com/gnolang/gno/tm2/pkg/bft/abci/example/kvstore"
	cns "github.com/gnolang/gno/tm2/pkg/bft/consensus"
	sm "github.com/gnolang/gno/tm2/pkg/bft/state"
	"github.com/gnolang/gno/tm2/pkg/bft/types"
	"github.com/gnolang/gno/tm2/pkg/crypto"
	"github.com/gnolang/gno/tm2/pkg/crypto/ed25519"
	"github.com/gnolang/gno/tm2/pkg/db/memdb"
	"github.com/gnolang/gno/tm2/pkg/log"
	"sync"

	"verifharness/mbt"
)

// Reasons a behaviour is abandoned (none of them is a verdict):
//
//	init-diverged            the real nodes' state after starting round 0 differs from the model's Init
//	message-not-sent         the model delivers an honest message the real sender has not produced (only after an
//	                         earlier difference went unnoticed)
//	message-differs          the real sender's vote of that (type, round) is for another value than the model's
//	block-unknown            the model delivers the parts of a block nobody has proposed on the real side
//	timeout-not-pending      the model fires a timeout the real node has not scheduled (or another one is pending)
//	node-panicked            the real node panicked inside the step (recorded as a Panic line; reported separately)
//	state-diverged:<field>   after the step the real node's projection differs from the model's in <field>
//	output-diverged          the real node emitted other messages during the step than the model's node
type schedWorld struct {
	*world
	hon      map[string]int    // honest name -> instance index
	bind     map[string]string // abstract value -> short block id
	rev      map[string]string // short block id -> abstract value
	partsHdr map[string]string // hex(parts header hash) -> short block id
	partsOf  map[string][]int  // short block id -> net indices of its part messages
	lastProp map[int]string    // origin instance -> short id of its last popped proposal
	scanned  int               // w.net entries already indexed
	byzVotes map[string]int    // kind/round/value -> net index
	byzProps map[string]int    // round/value/pol -> net index
	byzExec  *sm.BlockExecutor
	byzState sm.State
	maxRound int
}

type schedKeys struct {
	privs []ed25519.PrivKeyEd25519 // in proposer order of rounds 0..3
}

// the proposer of round r at height 1 is fixed by the keys: compute it once, model names are assigned accordingly
func makeSchedKeys() *schedKeys {
	var privs []ed25519.PrivKeyEd25519
	var gvals []types.GenesisValidator
	for i := 0; i < 4; i++ {
		p := ed25519.GenPrivKeyFromSecret([]byte(fmt.Sprintf("verif-cons-sched-%d", i)))
		privs = append(privs, p)
		gvals = append(gvals, types.GenesisValidator{PubKey: p.PubKey(), Power: 1, Address: p.PubKey().Address(), Name: fmt.Sprint(i)})
	}
	genDoc := &types.GenesisDoc{GenesisTime: time.Unix(1_700_000_000, 0).UTC(), ChainID: chainID, Validators: gvals}
	state, err := sm.LoadStateFromDBOrGenesisDoc(memdb.NewMemDB(), genDoc)
	if err != nil {
		mbt.Die("state: %v", err)
	}
	byAddr := map[crypto.Address]ed25519.PrivKeyEd25519{}
	for _, p := range privs {
		byAddr[p.PubKey().Address()] = p
	}
	k := &schedKeys{}
	seen := map[crypto.Address]bool{}
	for r := 0; r < 4; r++ {
		vs := state.Validators
		if r > 0 {
			vs = vs.CopyIncrementProposerPriority(r)
		}
		a := vs.GetProposer().Address
		if seen[a] {
			mbt.Die("proposer order is not a permutation over 4 rounds")
		}
		seen[a] = true
		k.privs = append(k.privs, byAddr[a])
	}
	return k
}

func newSchedWorld(out *bufio.Writer, keys *schedKeys, order []string, maxRound int) *schedWorld {
	privs := map[string]ed25519.PrivKeyEd25519{}
	var gvals []types.GenesisValidator
	for r, n := range order {
		privs[n] = keys.privs[r]
	}
	for _, n := range []string{"h1", "h2", "h3", "b1"} {
		p, ok := privs[n]
		if !ok {
			mbt.Die("order %v does not name %s", order, n)
		}
		gvals = append(gvals, types.GenesisValidator{PubKey: p.PubKey(), Power: 1, Address: p.PubKey().Address(), Name: n})
	}
	genDoc := &types.GenesisDoc{GenesisTime: time.Unix(1_700_000_000, 0).UTC(), ChainID: chainID, Validators: gvals}
	w := &world{privs: privs, out: out, known: map[string]types.BlockID{}, valIdx: map[string]int{}}
	sw := &schedWorld{world: w, hon: map[string]int{}, bind: map[string]string{}, rev: map[string]string{}, partsHdr: map[string]string{},
		partsOf: map[string][]int{}, lastProp: map[int]string{}, byzVotes: map[string]int{}, byzProps: map[string]int{}, maxRound: maxRound}
	for i, n := range []string{"h1", "h2", "h3"} {
		w.insts = append(w.insts, newInst(n, n, true, genDoc, privs[n]))
		sw.hon[n] = i
	}
	_, vals := w.insts[0].cs.GetValidators()
	pw := map[string]int64{}
	for i, v := range vals {
		for n, p := range privs {
			if p.PubKey().Address() == v.Address {
				w.valIdx[n] = i
				pw[n] = v.VotingPower
			}
		}
	}
	// the Byzantine validator's block factory (its blocks carry their own txs, so they differ from everybody's)
	stateDB := memdb.NewMemDB()
	st, err := sm.LoadStateFromDBOrGenesisDoc(stateDB, genDoc)
	if err != nil {
		mbt.Die("state: %v", err)
	}
	sm.SaveState(stateDB, st)
	sw.byzState = st
	sw.byzExec = sm.NewBlockExecutor(stateDB, log.NewNoopLogger(), abcicli.NewLocalClient(new(sync.Mutex), kvstore.NewKVStoreApplication()), &taggedMempool{tag: "byz"})
	w.emit(map[string]any{"act": "Init", "power": pw, "honest": []string{"h1", "h2", "h3"}})
	return sw
}

// index what the honest nodes have broadcast since the last call (proposal -> block id, parts -> their block)
func (sw *schedWorld) scan() {
	for ; sw.scanned < len(sw.net); sw.scanned++ {
		nm := sw.net[sw.scanned]
		switch nm.Kind {
		case "proposal":
			sw.lastProp[nm.origin] = nm.Value
			if len(sw.partsOf[nm.Value]) > 0 {
				sw.lastProp[nm.origin] = "" // a re-proposed block: its parts are already indexed
			}
			sw.partsHdr[hex.EncodeToString(sw.known[nm.Value].PartsHeader.Hash)] = nm.Value
		case "part":
			if id := sw.lastProp[nm.origin]; id != "" {
				sw.partsOf[id] = append(sw.partsOf[id], sw.scanned)
			}
		}
	}
}

func (sw *schedWorld) abs(id string) string {
	if id == "nil" {
		return "nil"
	}
	if a, ok := sw.rev[id]; ok {
		return a
	}
	return "?" + id
}

func (sw *schedWorld) drain(i int) {
	for sw.popInternal(i) {
	}
	sw.scan()
}

func majOf(vs *types.VoteSet) (string, bool) {
	bid, ok := vs.TwoThirdsMajority()
	if !ok {
		return "none", false
	}
	return short(bid.Hash), true
}

// the real node's projection in the model's vocabulary
func (sw *schedWorld) projectAbs(in *inst) map[string]any {
	rs := in.cs.GetRoundState()
	st := map[string]any{"r": rs.Round, "s": int(rs.Step), "lr": rs.LockedRound, "lv": "nil", "vr": rs.ValidRound, "vv": "nil", "pb": "nil", "pbp": "nil", "dec": "nil"}
	if rs.LockedBlock != nil {
		st["lv"] = sw.abs(short(rs.LockedBlock.Hash()))
	}
	if rs.ValidBlock != nil {
		st["vv"] = sw.abs(short(rs.ValidBlock.Hash()))
	}
	if rs.ProposalBlock != nil {
		st["pb"] = sw.abs(short(rs.ProposalBlock.Hash()))
	}
	if rs.ProposalBlockParts != nil {
		h := hex.EncodeToString(rs.ProposalBlockParts.Header().Hash)
		if id, ok := sw.partsHdr[h]; ok {
			st["pbp"] = sw.abs(id)
		} else {
			st["pbp"] = "?parts:" + h[:10]
		}
	}
	if meta := in.bs.LoadBlockMeta(1); meta != nil {
		st["dec"] = sw.abs(short(meta.BlockID.Hash))
	}
	pm, cm := []string{}, []string{}
	for r := 0; r <= sw.maxRound; r++ {
		p, c := "none", "none"
		if rs.Height == 1 {
			if v, ok := majOf(rs.Votes.Prevotes(r)); ok {
				p = sw.abs(v)
			}
			if v, ok := majOf(rs.Votes.Precommits(r)); ok {
				c = sw.abs(v)
			}
		}
		pm, cm = append(pm, p), append(cm, c)
	}
	st["pm"], st["cm"] = pm, cm
	st["tr"], st["ts"] = -1, 0
	if in.pending != nil {
		st["tr"], st["ts"] = in.pending.Round, int(in.pending.Step)
	}
	return st
}

var projFields = []string{"dec", "r", "s", "lr", "lv", "vr", "vv", "pb", "pbp", "pm", "cm", "tr", "ts"}

func diffProj(real, model map[string]any) string {
	for _, k := range projFields {
		if !mbt.Eq(real[k], model[k]) {
			return k
		}
	}
	return ""
}

// messages the node emitted during the step (everything broadcast since net index n0, parts left out), compared
// with the model's; an unbound abstract value of a proposal is bound here
func (sw *schedWorld) checkOut(n0 int, who string, want []any) string {
	var got []netMsg
	for _, nm := range sw.net[n0:] {
		if nm.Kind != "part" {
			got = append(got, nm)
		}
	}
	if len(got) != len(want) {
		return fmt.Sprintf("emitted %d messages, model %d", len(got), len(want))
	}
	for i, x := range want {
		m, _ := x.(map[string]any)
		ms := mbt.Step(m)
		g := got[i]
		if g.From != who || ms.Str("src") != who || g.Kind != ms.Str("kind") || g.R != ms.Int("round") {
			return fmt.Sprintf("message %d is %s/%s/r%d, model %s/%s/r%d", i, g.From, g.Kind, g.R, ms.Str("src"), ms.Str("kind"), ms.Int("round"))
		}
		v := ms.Str("value")
		if g.Kind == "proposal" {
			if g.Pol != ms.Int("pol") {
				return fmt.Sprintf("proposal POL round %d, model %d", g.Pol, ms.Int("pol"))
			}
			if _, bound := sw.bind[v]; !bound {
				if other, taken := sw.rev[g.Value]; taken {
					return fmt.Sprintf("proposal carries block of %s, model proposes the new value %s", other, v)
				}
				sw.bind[v], sw.rev[g.Value] = g.Value, v
			}
		}
		if sw.abs(g.Value) != v {
			return fmt.Sprintf("message %d (%s r%d) is for %s, model %s", i, g.Kind, g.R, sw.abs(g.Value), v)
		}
	}
	return ""
}

func (sw *schedWorld) craftByzProposal(round int, value string, pol int) int {
	key := fmt.Sprintf("%d/%s/%d", round, value, pol)
	if idx, ok := sw.byzProps[key]; ok {
		return idx
	}
	priv := sw.privs["b1"]
	var bid types.BlockID
	var parts *types.PartSet
	if id, ok := sw.bind[value]; ok {
		bid = sw.known[id]
	} else {
		block, ps := sw.byzExec.CreateProposalBlock(1, sw.byzState, types.NewCommit(types.BlockID{}, nil), priv.PubKey().Address())
		if block == nil {
			mbt.Die("cannot create a Byzantine block")
		}
		parts = ps
		bid = types.BlockID{Hash: block.Hash(), PartsHeader: ps.Header()}
		id := short(bid.Hash)
		sw.bind[value], sw.rev[id] = id, value
	}
	prop := types.NewProposal(1, round, pol, bid)
	sig, err := priv.Sign(prop.SignBytes(chainID))
	if err != nil {
		mbt.Die("sign: %v", err)
	}
	prop.Signature = sig
	nm := sw.describe(&cns.ProposalMessage{Proposal: prop}, "b1", -1)
	idx := len(sw.net)
	sw.net = append(sw.net, nm)
	id := short(bid.Hash)
	sw.partsHdr[hex.EncodeToString(bid.PartsHeader.Hash)] = id
	if parts != nil {
		for i := 0; i < parts.Total(); i++ {
			pm := sw.describe(&cns.BlockPartMessage{Height: 1, Round: round, Part: parts.GetPart(i)}, "b1", -1)
			sw.partsOf[id] = append(sw.partsOf[id], len(sw.net))
			sw.net = append(sw.net, pm)
		}
	}
	sw.scanned = len(sw.net)
	sw.byzProps[key] = idx
	return idx
}

func (sw *schedWorld) craftByzVoteFor(kind string, round int, value string) (int, bool) {
	key := fmt.Sprintf("%s/%d/%s", kind, round, value)
	if idx, ok := sw.byzVotes[key]; ok {
		return idx, true
	}
	bid := types.BlockID{}
	if value != "nil" {
		id, ok := sw.bind[value]
		if !ok {
			return 0, false
		}
		bid = sw.known[id]
	}
	typ := types.PrevoteType
	if kind == "precommit" {
		typ = types.PrecommitType
	}
	vote := &types.Vote{Type: typ, Height: 1, Round: round, BlockID: bid, Timestamp: time.Now().UTC(),
		ValidatorAddress: sw.privs["b1"].PubKey().Address(), ValidatorIndex: sw.valIdx["b1"]}
	sig, _ := sw.privs["b1"].Sign(vote.SignBytes(chainID))
	vote.Signature = sig
	nm := sw.describe(&cns.VoteMessage{Vote: vote}, "b1", -1)
	idx := len(sw.net)
	sw.net = append(sw.net, nm)
	sw.scanned = len(sw.net)
	sw.byzVotes[key] = idx
	return idx, true
}

// realise one model step; "" when the real node ended where the model says
func (sw *schedWorld) realise(st mbt.Step) (reason, detail string) {
	i, ok := sw.hon[st.Str("node")]
	if !ok {
		mbt.Die("unknown node %q", st.Str("node"))
	}
	in := sw.insts[i]
	if in.dead {
		return "node-panicked", ""
	}
	n0 := len(sw.net)
	src, kind, round, value := st.Str("src"), st.Str("kind"), st.Int("round"), st.Str("value")
	deliverParts := func(id string) {
		for _, idx := range sw.partsOf[id] {
			sw.deliver(i, idx)
			sw.drain(i)
		}
	}
	switch st.Act() {
	case "prop":
		idx := -1
		if src == "b1" {
			idx = sw.craftByzProposal(round, value, st.Int("pol"))
			n0 = len(sw.net)
		} else {
			for k, nm := range sw.net {
				if nm.Kind == "proposal" && nm.From == src && nm.R == round {
					idx = k
				}
			}
			if idx < 0 {
				return "message-not-sent", fmt.Sprintf("proposal of %s for round %d", src, round)
			}
			if sw.abs(sw.net[idx].Value) != value || sw.net[idx].Pol != st.Int("pol") {
				return "message-differs", fmt.Sprintf("proposal of %s r%d is %s/pol %d, model %s/pol %d", src, round, sw.abs(sw.net[idx].Value), sw.net[idx].Pol, value, st.Int("pol"))
			}
		}
		sw.deliver(i, idx)
		sw.drain(i)
		deliverParts(sw.net[idx].Value)
	case "block":
		id, ok := sw.bind[value]
		if !ok || len(sw.partsOf[id]) == 0 {
			return "block-unknown", value
		}
		deliverParts(id)
	case "vote":
		idx := -1
		if src == "b1" {
			var ok bool
			if idx, ok = sw.craftByzVoteFor(kind, round, value); !ok {
				return "block-unknown", value
			}
			n0 = len(sw.net)
		} else {
			for k, nm := range sw.net {
				if nm.Kind == kind && nm.From == src && nm.R == round && nm.H == 1 {
					idx = k
				}
			}
			if idx < 0 {
				return "message-not-sent", fmt.Sprintf("%s of %s for round %d", kind, src, round)
			}
			if sw.abs(sw.net[idx].Value) != value {
				return "message-differs", fmt.Sprintf("%s of %s r%d is for %s, model %s", kind, src, round, sw.abs(sw.net[idx].Value), value)
			}
		}
		sw.deliver(i, idx)
		sw.drain(i)
	case "timeout":
		if in.pending == nil || in.pending.Round != round || int(in.pending.Step) != st.Int("pol") || in.pending.Height != 1 {
			return "timeout-not-pending", fmt.Sprintf("model fires r%d/step %d, pending %v", round, st.Int("pol"), in.pending)
		}
		sw.fire(i)
		sw.drain(i)
	default:
		mbt.Die("unknown act %q", st.Act())
	}
	if in.dead {
		return "node-panicked", ""
	}
	wo, _ := st["out"].([]any)
	if d := sw.checkOut(n0, in.name, wo); d != "" { // also binds the abstract value of a fresh proposal
		return "output-diverged", d
	}
	want, _ := st["st"].(map[string]any)
	got := sw.projectAbs(in)
	if f := diffProj(got, want); f != "" {
		return "state-diverged:" + f, fmt.Sprintf("real %s, model %s", mbt.JS(got), mbt.JS(want))
	}
	return "", ""
}

func (sw *schedWorld) start(init mbt.Step) (reason, detail string) {
	sts, _ := init["st"].(map[string]any)
	outs, _ := init["out"].(map[string]any)
	for _, n := range []string{"h1", "h2", "h3"} {
		i := sw.hon[n]
		in := sw.insts[i]
		n0 := len(sw.net)
		in.cs.VerifScheduleRound0()
		sw.collectTimeouts(in)
		sw.fire(i) // NewHeight timeout: enterNewRound(1, 0), enterPropose
		sw.drain(i)
		if in.dead {
			return "node-panicked", ""
		}
		wo, _ := outs[n].([]any)
		if d := sw.checkOut(n0, n, wo); d != "" {
			return "init-diverged", d
		}
		want, _ := sts[n].(map[string]any)
		got := sw.projectAbs(in)
		if f := diffProj(got, want); f != "" {
			return "init-diverged", fmt.Sprintf("%s: field %s: real %s, model %s", n, f, mbt.JS(got), mbt.JS(want))
		}
	}
	return "", ""
}

func schedMode(f *mbt.Flags, out *bufio.Writer) map[string]any {
	behs, err := mbt.ReadBehaviours(f.In)
	if err != nil {
		mbt.Die("behaviours: %v", err)
	}
	keys := makeSchedKeys()
	tot := map[string]any{"sched_behaviours": 0, "sched_replayed_to_end": 0, "sched_steps": 0, "sched_model_steps": 0, "sched_lines": 0}
	inc := func(k string, n int) {
		if v, ok := tot[k].(int); ok {
			tot[k] = v + n
		} else {
			tot[k] = n
		}
	}
	samples := map[string]int{}
	for bi, beh := range behs {
		if len(beh) == 0 || beh[0].Act() != "Init" {
			mbt.Die("behaviour %d does not start with Init", bi)
		}
		order := mbt.Strs(beh[0]["order"])
		if len(order) != 4 {
			mbt.Die("behaviour %d: bad proposer order %v", bi, beh[0]["order"])
		}
		sw := newSchedWorld(out, keys, order, beh[0].Int("maxround"))
		inc("sched_behaviours", 1)
		inc("sched_model_steps", len(beh)-1)
		inc("order:"+strings.Join(order, ","), 1)
		reason, detail := sw.start(beh[0])
		at := 0
		sits := map[string]bool{}
		if reason == "" {
			for k := 1; k < len(beh); k++ {
				st := beh[k]
				before := sw.projectAbs(sw.insts[sw.hon[st.Str("node")]])
				if reason, detail = sw.realise(st); reason != "" {
					at = k
					break
				}
				inc("sched_steps", 1)
				inc("act:"+st.Act()+":"+st.Str("kind"), 1)
				for _, x := range mbt.Strs(st["br"]) {
					inc("br:"+x, 1)
				}
				for _, x := range mbt.Strs(st["sit"]) {
					inc("sit:"+x, 1)
					sits[x] = true
				}
				// the same situations read off the REAL node alone (lock / relock / unlock / decision)
				after := sw.projectAbs(sw.insts[sw.hon[st.Str("node")]])
				if after["dec"] != "nil" && before["dec"] == "nil" {
					inc("real:decide", 1)
				} else if after["dec"] == "nil" {
					bl, al := before["lv"].(string), after["lv"].(string)
					switch {
					case bl == "nil" && al != "nil":
						inc("real:lock", 1)
					case bl != "nil" && al == "nil":
						inc("real:unlock", 1)
					case bl != "nil" && al == bl && after["lr"].(int) > before["lr"].(int):
						inc("real:relock", 1)
					case bl != "nil" && al != bl:
						inc("real:lock-other-block", 1)
					}
				}
			}
		}
		for x := range sits {
			inc("sitb:"+x, 1)
		}
		if reason == "" {
			inc("sched_replayed_to_end", 1)
		} else {
			inc("unreal:"+reason, 1)
			if samples[reason] < 2 {
				samples[reason]++
				mbt.Emit(map[string]any{"kind": "unrealisable", "reason": reason, "behaviour": bi, "step": at, "detail": detail, "model_step": beh[at]})
			}
		}
		inc("sched_lines", sw.steps)
		sw.emit(map[string]any{"act": "Reset"})
	}
	return tot
}
