// Driver for C02/C10/C14/C15 (spec/BaseApp.tla, spec/BaseAppTrace.tla): runs seeded
// scenarios on the REAL gno.land application and records an NDJSON trace for validation.
package main

import (
	"bufio"
	"encoding/json"
	"fmt"
	"math/rand"
	"os"
	"sort"
	"strings"
	"syscall"
	"time"

	"github.com/gnolang/gno/gno.land/pkg/sdk/vm"
	"github.com/gnolang/gno/gnovm/pkg/gnolang"
	"github.com/gnolang/gno/tm2/pkg/crypto"
	"github.com/gnolang/gno/tm2/pkg/sdk/bank"
	"github.com/gnolang/gno/tm2/pkg/std"

	"verifharness/appenv"
	"verifharness/mbt"
)

const atomPath = "gno.land/r/verif/atom"

const atomSrc = `package atom

var x, y int = 1, 1

func get(name string) int {
	if name == "x" {
		return x
	}
	return y
}

func set(name string, v int) {
	if name == "x" {
		x = v
	} else {
		y = v
	}
}

func Set(cur realm, name string, v int)          { set(name, v) }
func SetThenPanic(cur realm, name string, v int) { set(name, v); panic("boom") }
func Inc(cur realm, name string)                 { set(name, get(name)+1) }
func Burn(cur realm) {
	for {
	}
}
func BurnN(cur realm, n int) {
	s := 0
	for i := 0; i < n; i++ {
		s += i
	}
	x = x + s - s
}
func Get(name string) int { return get(name) }

var blob string

func Grow(cur realm, n int) {
	for i := 0; i < n; i++ {
		blob += "x"
	}
}
func BlobLen() int { return len(blob) }
`

const privPath = "gno.land/r/verif/priv"

func privSrc(v int64) string {
	return fmt.Sprintf("package priv\n\nfunc Version() int { return %d }\n", v)
}

func privMsg(creator crypto.Address, v int64) vm.MsgAddPackage {
	files := []*std.MemFile{
		{Name: "gnomod.toml", Body: strings.TrimSpace(gnolang.GenGnoModLatest(privPath)) + "\nprivate = true\n"},
		{Name: "priv.gno", Body: privSrc(v)},
	}
	return vm.NewMsgAddPackage(creator, privPath, files)
}

func probe() {
	a, b, d := appenv.NewAccount("a"), appenv.NewAccount("b"), appenv.NewAccount("deployer")
	t0 := time.Now()
	e, err := appenv.New(appenv.Options{
		MaxGas:   100_000_000,
		Balances: map[crypto.Address]int64{a.Addr: 100_000_000, b.Addr: 100_000_000, d.Addr: 1_000_000_000},
		Deployer: d,
		Pkgs:     []appenv.Pkg{{Path: atomPath, Files: map[string]string{"atom.gno": atomSrc}}},
	})
	if err != nil {
		mbt.Die("new: %v", err)
	}
	fmt.Fprintln(os.Stderr, "init", time.Since(t0))
	ai := e.Account(a.Addr)
	fmt.Fprintf(os.Stderr, "acct a: %+v bal=%d\n", ai, e.Balance(a.Addr))
	run := func(label string, msgs []std.Msg, gw int64, signer *appenv.Account) {
		acc := e.Account(signer.Addr)
		tx := appenv.SignTx(msgs, gw, 1000, appenv.ChainID, signer, acc.Num, acc.Seq)
		e.BeginBlock()
		r := e.Deliver(tx)
		e.EndBlockCommit()
		x, _ := e.QEval(atomPath, `Get("x")`)
		fmt.Fprintf(os.Stderr, "%-14s ok=%v cls=%s used=%d wanted=%d bal(a)=%d bal(b)=%d realm=%d dep=%d x=%s\n", label, r.IsOK(), appenv.ErrClass(r.Error), r.GasUsed, r.GasWanted,
			e.Balance(a.Addr), e.Balance(b.Addr), e.Balance(appenv.PkgAddr(atomPath)), e.Balance(appenv.DepositAddr(atomPath)), x)
		if !r.IsOK() {
			fmt.Fprintf(os.Stderr, "     log: %.300s\n", r.Log)
		}
	}
	send := func(from, to *appenv.Account, amt int64) std.Msg {
		return bank.MsgSend{FromAddress: from.Addr, ToAddress: to.Addr, Amount: std.Coins{{Denom: "ugnot", Amount: amt}}}
	}
	call := func(c *appenv.Account, fn string, sendAmt int64, args ...string) std.Msg {
		var s std.Coins
		if sendAmt > 0 {
			s = std.Coins{{Denom: "ugnot", Amount: sendAmt}}
		}
		return vm.NewMsgCall(c.Addr, s, atomPath, fn, args)
	}
	run("send", []std.Msg{send(a, b, 5)}, 10_000_000, a)
	run("send2", []std.Msg{send(a, b, 5)}, 10_000_000, a)
	run("send x4", []std.Msg{send(a, b, 1), send(a, b, 1), send(a, b, 1), send(a, b, 1)}, 10_000_000, a)
	run("set x 7", []std.Msg{call(a, "Set", 0, "x", "7")}, 10_000_000, a)
	run("set x 50", []std.Msg{call(a, "Set", 0, "x", "50")}, 10_000_000, a)
	run("inc x", []std.Msg{call(a, "Inc", 0, "x")}, 10_000_000, a)
	run("setpanic", []std.Msg{call(a, "SetThenPanic", 0, "x", "9")}, 10_000_000, a)
	run("setpay", []std.Msg{call(a, "Set", 77, "y", "3")}, 10_000_000, a)
	run("burn", []std.Msg{call(a, "Burn", 0)}, 5_000_000, a)
	run("burnN 1000", []std.Msg{call(a, "BurnN", 0, "1000")}, 50_000_000, a)
	run("burnN 2000", []std.Msg{call(a, "BurnN", 0, "2000")}, 50_000_000, a)
	run("burnN 100000", []std.Msg{call(a, "BurnN", 0, "100000")}, 90_000_000, a)
	run("tiny gw", []std.Msg{send(a, b, 5)}, 1000, a)
	run("huge gw", []std.Msg{send(a, b, 5)}, 200_000_000, a)
	run("overdraft", []std.Msg{send(a, b, 5), send(a, b, 1_000_000_000)}, 10_000_000, a)
}

// ---------------------------------------------------------------- scenario generator + recorder

type msgSpec struct {
	Kind string `json:"kind"`
	To   string `json:"to"`
	Amt  int64  `json:"amt"`
	Var  string `json:"var"`
	Val  int64  `json:"val"`
	Dep  int64  `json:"dep"`
	n    int64  // burnn iterations
}

type txSpec struct {
	Signer string    `json:"signer"`
	Seq    int64     `json:"seq"`
	SigOK  bool      `json:"sigok"`
	Fee    int64     `json:"fee"`
	GW     int64     `json:"gw"`
	Msgs   []msgSpec `json:"msgs"`
	sigMut string
}

type resSpec struct {
	OK     bool   `json:"ok"`
	Cls    string `json:"cls"`
	Used   int64  `json:"used"`
	Wanted int64  `json:"wanted"`
	Loc    string `json:"loc"`
}

type recorder struct {
	w     *bufio.Writer
	lines int
}

func (r *recorder) emit(v any) {
	bz, err := json.Marshal(v)
	if err != nil {
		panic(err)
	}
	r.w.Write(bz)
	r.w.WriteByte('\n')
	r.lines++
}

type world struct {
	e                   *appenv.Env
	accts               map[string]*appenv.Account
	rng                 *rand.Rand
	rec                 *recorder
	maxGas              int64
	counts              map[string]int
	burnBase, burnSlope int64
	restart             bool
}

func (w *world) addr(name string) crypto.Address {
	switch name {
	case "realm":
		return appenv.PkgAddr(atomPath)
	case "dep":
		return appenv.DepositAddr(atomPath)
	case "coll":
		return crypto.AddressFromPreimage([]byte("fee_collector"))
	}
	return w.accts[name].Addr
}

func parseQInt(s string) int64 {
	s = strings.TrimSpace(s)
	s = strings.TrimPrefix(s, "(")
	var n int64
	fmt.Sscan(s, &n)
	return n
}

func (w *world) project() map[string]any {
	bal := map[string]int64{}
	for _, n := range []string{"a", "b", "c", "z", "realm", "dep", "coll"} {
		bal[n] = w.e.Balance(w.addr(n))
	}
	bal["dep"] += w.e.Balance(appenv.DepositAddr(privPath)) // "dep" = the storage deposit addresses of both test realms
	seq := map[string]int64{}
	for _, n := range []string{"a", "b", "c"} {
		seq[n] = int64(w.e.Account(w.addr(n)).Seq)
	}
	rv := map[string]int64{}
	for _, v := range []string{"x", "y"} {
		s, err := w.e.QEval(atomPath, fmt.Sprintf("Get(%q)", v))
		if err != nil {
			mbt.Die("qeval: %v", err)
		}
		rv[v] = parseQInt(s)
	}
	// the code version of the private realm, observed by CALLING it (the VM's node cache is what a later tx would use)
	pvs, err := w.e.QEval(privPath, "Version()")
	if err != nil {
		mbt.Die("qeval priv: %v", err)
	}
	rv["pv"] = parseQInt(pvs)
	bls, err := w.e.QEval(atomPath, "BlobLen()")
	if err != nil {
		mbt.Die("qeval blob: %v", err)
	}
	rv["blob"] = parseQInt(bls)
	return map[string]any{"bal": bal, "seq": seq, "rv": rv}
}

func (w *world) buildTx(t *txSpec) std.Tx {
	signer := w.accts[t.Signer]
	var msgs []std.Msg
	for _, m := range t.Msgs {
		switch m.Kind {
		case "send":
			msgs = append(msgs, bank.MsgSend{FromAddress: signer.Addr, ToAddress: w.addr(m.To), Amount: std.Coins{{Denom: "ugnot", Amount: m.Amt}}})
		case "set":
			msgs = append(msgs, vm.NewMsgCall(signer.Addr, nil, atomPath, "Set", []string{m.Var, fmt.Sprint(m.Val)}))
		case "inc":
			msgs = append(msgs, vm.NewMsgCall(signer.Addr, nil, atomPath, "Inc", []string{m.Var}))
		case "setpanic":
			msgs = append(msgs, vm.NewMsgCall(signer.Addr, nil, atomPath, "SetThenPanic", []string{m.Var, fmt.Sprint(m.Val)}))
		case "setpay":
			msgs = append(msgs, vm.NewMsgCall(signer.Addr, std.Coins{{Denom: "ugnot", Amount: m.Amt}}, atomPath, "Set", []string{m.Var, fmt.Sprint(m.Val)}))
		case "burn":
			msgs = append(msgs, vm.NewMsgCall(signer.Addr, nil, atomPath, "Burn", nil))
		case "burnn":
			msgs = append(msgs, vm.NewMsgCall(signer.Addr, nil, atomPath, "BurnN", []string{fmt.Sprint(m.n)}))
		case "redeploy":
			msgs = append(msgs, privMsg(signer.Addr, m.Val))
		case "grow":
			msgs = append(msgs, vm.NewMsgCall(signer.Addr, nil, atomPath, "Grow", []string{fmt.Sprint(m.Val)}))
		case "growfail": // same call, but the message allows at most 1ugnot of storage deposit
			mc := vm.NewMsgCall(signer.Addr, nil, atomPath, "Grow", []string{fmt.Sprint(m.Val)})
			mc.MaxDeposit = std.Coins{{Denom: "ugnot", Amount: 1}}
			msgs = append(msgs, mc)
		default:
			panic("kind " + m.Kind)
		}
	}
	var accNum, seq uint64
	if t.Signer != "w" {
		ai := w.e.Account(signer.Addr) // committed state; the generator tracks in-block bumps itself
		accNum = ai.Num
	}
	seq = uint64(t.Seq)
	chain := appenv.ChainID
	if t.sigMut == "chain" {
		chain = "other-chain"
	}
	tx := appenv.SignTx(msgs, t.GW, t.Fee, chain, signer, accNum, seq)
	if t.sigMut == "flip" {
		tx.Signatures[0].Signature[9] ^= 0x10
	}
	return tx
}

func locOf(log string) string {
	switch {
	case strings.Contains(log, "no block gas left"):
		return "noblock"
	case strings.Contains(log, "block gas meter"):
		return "block"
	}
	return "tx"
}

func isVM(k string) bool {
	return k == "set" || k == "inc" || k == "setpay" || k == "redeploy" || k == "grow"
}

// block = list of txs delivered in one block; returns false when the scenario must be resynchronised
func (w *world) runBlock(txs []*txSpec, nextSeq map[string]int64) {
	if w.restart {
		// a node restart between blocks: new application object over the same DB, every cache cold
		if err := w.e.Reopen(); err != nil {
			mbt.Die("reopen: %v", err)
		}
	}
	depBefore := w.e.Balance(w.addr("dep")) + w.e.Balance(appenv.DepositAddr(privPath))
	w.e.BeginBlock()
	type done struct {
		t *txSpec
		r resSpec
	}
	var ds []done
	okVM := 0
	for _, t := range txs {
		tx := w.buildTx(t)
		r := w.e.Deliver(tx)
		rs := resSpec{OK: r.IsOK(), Cls: appenv.ErrClass(r.Error), Used: r.GasUsed, Wanted: r.GasWanted, Loc: "none"}
		if !rs.OK {
			rs.Loc = locOf(r.Log + " " + fmt.Sprint(r.Error))
			if rs.Cls == "oog" && rs.Used == 0 && rs.Wanted == 0 {
				rs.Loc = "noblock" // runTx returned before any meter was installed: "no block gas left to run tx"
			}
		}
		// the generator's own view of sequences (only to choose later signatures): bumped iff GasWanted reported
		if rs.Wanted > 0 && t.Signer != "w" {
			nextSeq[t.Signer]++
		}
		if rs.OK {
			for _, m := range t.Msgs {
				if isVM(m.Kind) {
					okVM++
					break
				}
			}
		}
		w.counts["tx"]++
		if rs.OK {
			w.counts["ok"]++
		} else {
			w.counts["fail:"+rs.Cls+":"+rs.Loc]++
		}
		ds = append(ds, done{t, rs})
	}
	w.e.EndBlockCommit()
	st := w.project()
	depDelta := st["bal"].(map[string]int64)["dep"] - depBefore
	ambiguous := depDelta != 0 && okVM > 1
	if depDelta != 0 && okVM == 1 {
		for _, d := range ds {
			if !d.r.OK {
				continue
			}
			for k := range d.t.Msgs {
				if isVM(d.t.Msgs[k].Kind) {
					d.t.Msgs[k].Dep = depDelta
					goto assigned
				}
			}
		}
	assigned:
	}
	if ambiguous {
		// two successful realm calls share one observed deposit delta: not attributable; start a new scenario from the observed state
		w.counts["resync"]++
		w.rec.emit(map[string]any{"act": "Reset"})
		w.rec.emit(map[string]any{"act": "Init", "maxgas": w.maxGas, "st": st})
		return
	}
	w.rec.emit(map[string]any{"act": "BeginBlock"})
	for _, d := range ds {
		w.rec.emit(map[string]any{"act": "DeliverTx", "tx": d.t, "res": d.r})
	}
	w.rec.emit(map[string]any{"act": "Commit", "st": st})
}

func (w *world) burnIters(targetGas int64) int64 {
	n := (targetGas - w.burnBase) / w.burnSlope
	if n < 1 {
		n = 1
	}
	return n
}

func (w *world) randMsg(signer string) msgSpec {
	tos := []string{"a", "b", "c", "z", "z"}
	vars := []string{"x", "y"}
	m := msgSpec{To: "b", Var: vars[w.rng.Intn(2)]}
	switch p := w.rng.Intn(100); {
	case p < 28:
		m.Kind = "send"
		m.To = tos[w.rng.Intn(len(tos))]
		m.Amt = int64(1 + w.rng.Intn(50))
		if w.rng.Intn(12) == 0 {
			m.Amt = 2_000_000_000 // overdraft
		}
	case p < 48:
		m.Kind = "set"
		m.Val = int64(1 + w.rng.Intn(60))
	case p < 63:
		m.Kind = "inc"
	case p < 76:
		m.Kind = "setpanic"
		m.Val = int64(1 + w.rng.Intn(60))
	case p < 88:
		m.Kind = "setpay"
		m.Val = int64(1 + w.rng.Intn(60))
		m.Amt = int64(1 + w.rng.Intn(30))
		if w.rng.Intn(10) == 0 {
			m.Amt = 2_000_000_000
		}
	case p < 91:
		m.Kind = "burn"
	case p < 94:
		m.Kind = "grow"
		m.Val = int64(20 + w.rng.Intn(200))
		if w.rng.Intn(2) == 0 {
			m.Kind = "growfail"
		}
	default:
		m.Kind = "burnn"
		m.n = int64(100 + w.rng.Intn(1500))
	}
	return m
}

func (w *world) randTx(nextSeq map[string]int64) *txSpec {
	signers := []string{"a", "b", "c"}
	t := &txSpec{Signer: signers[w.rng.Intn(3)], SigOK: true, Fee: 1000, GW: 10_000_000}
	t.Seq = nextSeq[t.Signer]
	nm := 1 + w.rng.Intn(3)
	for k := 0; k < nm; k++ {
		t.Msgs = append(t.Msgs, w.randMsg(t.Signer))
	}
	if t.Signer == "c" && w.rng.Intn(4) == 0 { // the creator re-deploys its private realm (code is state too)
		t.Msgs[w.rng.Intn(len(t.Msgs))] = msgSpec{Kind: "redeploy", To: "b", Var: "pv", Val: int64(10 + w.rng.Intn(50))}
		t.GW = 12_000_000
	}
	switch p := w.rng.Intn(100); {
	case p < 8: // gas wanted in the middle of the messages
		t.GW = int64(900_000 + w.rng.Intn(3_000_000))
	case p < 11:
		t.GW = int64(500 + w.rng.Intn(3000)) // below the ante cost
	case p < 14:
		t.GW = w.maxGas + 1 + int64(w.rng.Intn(1000))
	case p < 17:
		t.Fee = 2_100_000_000 // above any balance
	case p < 21:
		t.SigOK, t.sigMut = false, "flip"
	case p < 24:
		t.SigOK, t.sigMut = false, "chain"
	case p < 28: // stale or future sequence (signature itself is fine)
		if t.Seq > 0 && w.rng.Intn(2) == 0 {
			t.Seq--
		} else {
			t.Seq += int64(1 + w.rng.Intn(2))
		}
	case p < 30:
		t.Signer, t.Seq = "w", 0
	}
	return t
}

func (w *world) scenario(blocks int) {
	w.rec.emit(map[string]any{"act": "Init", "maxgas": w.maxGas, "st": w.project()})
	nextSeq := map[string]int64{}
	sync := func() {
		for _, n := range []string{"a", "b", "c"} {
			nextSeq[n] = int64(w.e.Account(w.addr(n)).Seq)
		}
	}
	for b := 0; b < blocks; b++ {
		sync()
		var txs []*txSpec
		switch p := w.rng.Intn(100); {
		case p < 45: // single tx
			txs = append(txs, w.randTx(nextSeq))
		case p < 72: // several txs, later ones see earlier effects (and failed ones' non-effects)
			n := 2 + w.rng.Intn(3)
			tmp := map[string]int64{}
			for k, v := range nextSeq {
				tmp[k] = v
			}
			for k := 0; k < n; k++ {
				t := w.randTx(tmp)
				txs = append(txs, t)
				// optimistic: assume ante passes for well-formed txs so that following signatures are fresh
				if t.SigOK && t.Signer != "w" && t.Seq == tmp[t.Signer] && t.Fee < 2_000_000_000 && t.GW <= w.maxGas && t.GW > 100_000 {
					tmp[t.Signer]++
				}
			}
		case p < 90: // the block gas limit is crossed by an otherwise successful tx
			r := int64(2_300_000 + w.rng.Intn(1_200_000)) // remaining block gas after the filler
			fill := &txSpec{Signer: "c", Seq: nextSeq["c"], SigOK: true, Fee: 1000, GW: w.maxGas,
				Msgs: []msgSpec{{Kind: "burnn", To: "b", Var: "x", n: w.burnIters(w.maxGas - r)}}}
			g2 := r + 1_500_000 + int64(w.rng.Intn(1_500_000))
			victim := &txSpec{Signer: "a", Seq: nextSeq["a"], SigOK: true, Fee: 1000, GW: g2 + 3_000_000,
				Msgs: []msgSpec{{Kind: "send", To: "z", Amt: int64(1 + w.rng.Intn(9)), Var: "x"},
					{Kind: "set", To: "b", Var: "y", Val: int64(1 + w.rng.Intn(60))},
					{Kind: "burnn", To: "b", Var: "x", n: w.burnIters(g2 - 1_600_000)}}}
			if w.rng.Intn(2) == 0 {
				fill.Signer, fill.Seq = "b", nextSeq["b"]
				victim = &txSpec{Signer: "c", Seq: nextSeq["c"], SigOK: true, Fee: 1000, GW: g2 + 3_000_000,
					Msgs: []msgSpec{{Kind: "redeploy", To: "b", Var: "pv", Val: int64(10 + w.rng.Intn(50))},
						{Kind: "burnn", To: "b", Var: "x", n: w.burnIters(g2 - 2_600_000)}}}
			}
			if victim.GW > w.maxGas {
				victim.GW = w.maxGas
			}
			after := &txSpec{Signer: "a", Seq: nextSeq["a"], SigOK: true, Fee: 1000, GW: 5_000_000,
				Msgs: []msgSpec{{Kind: "inc", To: "b", Var: "y"}}}
			if victim.Signer == "a" {
				after.Signer, after.Seq = "b", nextSeq["b"]
			}
			txs = []*txSpec{fill, victim, after}
		default: // the pre-ante reads exhaust the remaining block gas
			r := int64(200_000 + w.rng.Intn(900_000))
			fill := &txSpec{Signer: "c", Seq: nextSeq["c"], SigOK: true, Fee: 1000, GW: w.maxGas,
				Msgs: []msgSpec{{Kind: "burnn", To: "b", Var: "x", n: w.burnIters(w.maxGas - r)}}}
			t2 := w.randTx(nextSeq)
			if t2.Signer == "c" {
				t2.Signer, t2.Seq = "a", nextSeq["a"]
			}
			t3 := &txSpec{Signer: "b", Seq: nextSeq["b"], SigOK: true, Fee: 1000, GW: 5_000_000,
				Msgs: []msgSpec{{Kind: "send", To: "a", Amt: 3, Var: "x"}}}
			txs = []*txSpec{fill, t2, t3}
		}
		w.runBlock(txs, nextSeq)
	}
	w.rec.emit(map[string]any{"act": "Reset"})
}

func record(f *mbt.Flags) {
	rng := f.Rand()
	out, err := os.Create(f.Out)
	if err != nil {
		mbt.Die("%v", err)
	}
	rec := &recorder{w: bufio.NewWriterSize(out, 1<<16)}
	counts := map[string]int{}
	scen := 0
	for _, mg := range []int64{14_000_000, 20_000_000} {
		accts := map[string]*appenv.Account{}
		for _, n := range []string{"a", "b", "c", "z", "w", "deployer"} {
			accts[n] = appenv.NewAccount(n)
		}
		e, err := appenv.New(appenv.Options{
			MaxGas:   mg,
			Balances: map[crypto.Address]int64{accts["a"].Addr: 400_000_000, accts["b"].Addr: 300_000_000, accts["c"].Addr: 500_000_000, accts["deployer"].Addr: 100_000_000},
			Deployer: accts["deployer"],
			Pkgs:     []appenv.Pkg{{Path: atomPath, Files: map[string]string{"atom.gno": atomSrc}}},
			GenesisTx: []std.Tx{{Msgs: []std.Msg{privMsg(accts["c"].Addr, 11)},
				Fee: std.Fee{GasWanted: mg, GasFee: std.Coin{Denom: "ugnot", Amount: 1_000_000}}, Signatures: []std.Signature{{}}}},
		})
		if err != nil {
			mbt.Die("new: %v", err)
		}
		w := &world{e: e, accts: accts, rng: rng, rec: rec, maxGas: mg, counts: counts, restart: strings.Contains(f.Extra, "restart")}
		// warm-up + calibration of the gas filler (not recorded): first touches of the realm change its storage
		seqc := uint64(0)
		cal := func(msgs ...std.Msg) int64 {
			ai := e.Account(accts["c"].Addr)
			tx := appenv.SignTx(msgs, mg, 1000, appenv.ChainID, accts["c"], ai.Num, ai.Seq)
			e.BeginBlock()
			r := e.Deliver(tx)
			e.EndBlockCommit()
			if !r.IsOK() {
				mbt.Die("calibration tx failed: %v", r.Log)
			}
			seqc++
			return r.GasUsed
		}
		cal(vm.NewMsgCall(accts["c"].Addr, std.Coins{{Denom: "ugnot", Amount: 5}}, atomPath, "Set", []string{"x", "2"}))
		cal(vm.NewMsgCall(accts["c"].Addr, nil, atomPath, "Set", []string{"y", "2"}))
		g1 := cal(vm.NewMsgCall(accts["c"].Addr, nil, atomPath, "BurnN", []string{"1000"}))
		g2 := cal(vm.NewMsgCall(accts["c"].Addr, nil, atomPath, "BurnN", []string{"3000"}))
		w.burnSlope = (g2 - g1) / 2000
		w.burnBase = g1 - 1000*w.burnSlope
		if w.burnSlope <= 0 {
			mbt.Die("calibration: slope %d", w.burnSlope)
		}
		n := f.N
		if n <= 0 {
			n = 6
		}
		for s := 0; s < n; s++ {
			w.scenario(5 + rng.Intn(4))
			scen++
		}
	}
	rec.w.Flush()
	out.Close()
	sum := map[string]any{"scenarios": scen, "lines": rec.lines}
	for k, v := range counts {
		sum["n_"+k] = v
	}
	mbt.Summary(sum)
}

// ---------------------------------------------------------------- C10: every Gno program stops within its gas limit

var workPrograms = map[string]string{
	"loop": `package main
func main() { for { } }`,
	"recursion": `package main
func f(n int) int { return f(n+1) + 1 }
func main() { println(f(0)) }`,
	"slicegrow": `package main
func main() { s := []int{1}; for { s = append(s, s...) } }`,
	"strgrow": `package main
func main() { s := "ab"; for { s = s + s } }`,
	"mapgrow": `package main
func main() { m := map[int]int{}; for i := 0; ; i++ { m[i] = i } }`,
	"alloc": `package main
type T struct{ a, b, c [16]int }
func main() { var keep []*T; for { keep = append(keep, &T{}) } }`,
	"native": `package main
import "crypto/sha256"
func main() { b := []byte("x"); for { h := sha256.Sum256(b); b = h[:] } }`,
	"strconv": `package main
import "strconv"
func main() { n := 0; for i := 0; ; i++ { n += len(strconv.Itoa(i)) } }`,
	"closure": `package main
func main() { var fs []func() int; for i := 0; ; i++ { j := i; fs = append(fs, func() int { return j }) } }`,
	"realmwrite": `package main
import "gno.land/r/verif/atom"
func main(cur realm) { for i := 0; ; i++ { atom.Set(cross(cur), "x", i%50+1) } }`,
	"defer": `package main
func main() { for { func() { defer func() { recover() }(); panic("x") }() } }`,
	"bigmul": `package main
func main() { x := uint64(3); for { x = x*x + 1 } }`,
}

// cpuTime is the user+system CPU time consumed by this process so far.
func cpuTime() time.Duration {
	var ru syscall.Rusage
	if err := syscall.Getrusage(syscall.RUSAGE_SELF, &ru); err != nil {
		mbt.Die("getrusage: %v", err)
	}
	return time.Duration(ru.Utime.Nano() + ru.Stime.Nano())
}

func terminate(f *mbt.Flags) {
	accts := map[string]*appenv.Account{}
	for _, n := range []string{"a", "deployer"} {
		accts[n] = appenv.NewAccount(n)
	}
	e, err := appenv.New(appenv.Options{
		MaxGas:   200_000_000,
		Balances: map[crypto.Address]int64{accts["a"].Addr: 2_000_000_000, accts["deployer"].Addr: 100_000_000},
		Deployer: accts["deployer"],
		Pkgs:     []appenv.Pkg{{Path: atomPath, Files: map[string]string{"atom.gno": atomSrc}}},
	})
	if err != nil {
		mbt.Die("new: %v", err)
	}
	limits := []int64{4_000_000}
	if f.Tier == "thorough" {
		limits = []int64{2_500_000, 6_000_000, 25_000_000, 80_000_000}
	}
	names := []string{}
	for n := range workPrograms {
		if f.Extra != "" && f.Extra != "restart" && n != f.Extra {
			continue // -x <program>: run a single program (diagnosis / replay)
		}
		names = append(names, n)
	}
	sort.Strings(names)
	runs, oog := 0, 0
	var maxRate float64
	for _, n := range names {
		for _, gw := range limits {
			ai := e.Account(accts["a"].Addr)
			msg := vm.NewMsgRun(accts["a"].Addr, nil, []*std.MemFile{{Name: "main.gno", Body: workPrograms[n]}})
			tx := appenv.SignTx([]std.Msg{msg}, gw, 1000, appenv.ChainID, accts["a"], ai.Num, ai.Seq)
			e.BeginBlock()
			type out struct {
				ok   bool
				cls  string
				used int64
				log  string
			}
			ch := make(chan out, 1)
			t0 := time.Now()
			go func() {
				r := e.Deliver(tx)
				ch <- out{r.IsOK(), appenv.ErrClass(r.Error), r.GasUsed, r.Log}
			}()
			// CPU-time bound (process user+sys time, so machine load cannot fake a hang): 20 s CPU per million gas
			// + 120 s, more than an order of magnitude above the measured rate (<= 1 s CPU per million gas).
			// There is no wall-clock verdict: the check's outer driver timeout makes a stalled machine INCONCLUSIVE.
			cpuBound := time.Duration(gw/1_000_000)*20*time.Second + 120*time.Second
			cpu0 := cpuTime()
			expired := make(chan struct{})
			done := make(chan struct{})
			go func() {
				for {
					select {
					case <-done:
						return
					case <-time.After(300 * time.Millisecond):
						if cpuTime()-cpu0 > cpuBound {
							close(expired)
							return
						}
					}
				}
			}()
			select {
			case o := <-ch:
				close(done)
				el := time.Since(t0)
				runs++
				rate := el.Seconds() / (float64(gw) / 1e6)
				if rate > maxRate {
					maxRate = rate
				}
				stopped := !o.ok && (o.cls == "oog" || strings.Contains(o.log, "allocation limit") || strings.Contains(o.log, "out of gas"))
				if stopped {
					oog++
				} else if o.ok {
					mbt.Mismatch("C10:unbounded-program-succeeded:"+n, fmt.Sprintf("program %q with gas wanted %d finished OK (used %d) although it never terminates", n, gw, o.used), map[string]any{"program": n, "gw": gw})
				} else {
					// failed for another reason (e.g. stack overflow reported as error): it stopped, which is what the clause asks
					oog++
					mbt.Emit(map[string]any{"kind": "sample", "sample": map[string]any{"program": n, "gw": gw, "stopped_with": o.cls, "log": o.log[:min(len(o.log), 600)]}})
				}
				if runs <= 3 {
					mbt.Sample(map[string]any{"program": n, "gw": gw, "cls": o.cls, "used": o.used, "ms": el.Milliseconds()})
				}
			case <-expired:
				mbt.Mismatch("C10:program-did-not-stop:"+n, fmt.Sprintf("program %q with gas wanted %d still running after %s of CPU time", n, gw, cpuBound), map[string]any{"program": n, "gw": gw})
				mbt.Summary(map[string]any{"programs_run": runs, "stopped": oog})
				mbt.Flush()
				os.Exit(0) // the stuck goroutine cannot be cancelled
			}
			e.EndBlockCommit()
		}
	}
	mbt.Summary(map[string]any{"programs_run": runs, "stopped": oog, "distinct_programs": len(names), "max_s_per_Mgas": maxRate})
}

func main() {
	f := mbt.ParseFlags()
	switch f.Mode {
	case "probe":
		probe()
	case "record":
		record(f)
	case "terminate":
		terminate(f)
	}
	mbt.Flush()
}
