// Driver for C43 (spec/MConn.tla, spec/MConnTrace.tla): runs two real conn.MConnection objects
// over an in-memory pipe and records what happens as NDJSON events for TLC to validate.
//
// The pipe is the driver: what a side writes is parsed into complete packets at once (Pkt events,
// payload labelled with the message bytes it carries), packets of the driver's own may be put at
// a packet boundary (Inject: ping / pong / unknown channel / undecodable bytes / oversize length),
// and the receiver's Read gets the bytes in chunks chosen by a seeded splitter (Chunk events).
// Close is a half-close: the peer reads what was written before and then EOF (released by the
// driver), the closing side may still read until the driver tears the pipe down.
//
// No sleeps: the driver waits on the events themselves (sender goroutines returned, FlushStop
// returned, EOF handed to a reader, onError called) under one mutex/condition variable; a watchdog
// turns a hang into exit 3 (inconclusive).
package main

import (
	"bytes"
	"encoding/binary"
	"encoding/json"
	"fmt"
	"io"
	"math/rand"
	"net"
	"os"
	"sync"
	"time"

	"github.com/gnolang/gno/tm2/pkg/amino"
	"github.com/gnolang/gno/tm2/pkg/log"
	"github.com/gnolang/gno/tm2/pkg/p2p/conn"

	"verifharness/mbt"
)

const watchdog = 90 * time.Second

type line map[string]any

type world struct {
	mu       sync.Mutex
	cond     *sync.Cond
	lines    []line
	gseq     map[string]int
	frozen   bool // after Final nothing is recorded
	timedOut bool
	killed   bool
	link     map[string]*link // by sending side
	errSeen  map[string]bool
	msgs     map[string][]*msg // by sending side, all planned messages
}

type msg struct {
	id        int
	ch        int
	data      []byte
	op        string
	delivered bool
	refused   bool // Send / TrySend returned false
}

type injection struct {
	After int    `json:"after"` // after this many packets of the stream
	Kind  string `json:"kind"`
}

// link: the stream written by side `from`.
type link struct {
	w        *world
	from     string
	parse    []byte
	inbox    []byte
	closed   bool // the writer closed
	eofOpen  bool // the driver lets the reader see the end of the stream
	eofSeen  bool
	gated    bool // backpressure: the writer's Write blocks until the driver opens the gate
	parked   bool // a Write is blocked at the gate
	npk      int
	plan     []injection
	rng      *rand.Rand
	chunking string
	cur      map[int]*cursor // per channel: which planned message is being packetised
	maxPkt   int
}

type cursor struct{ i, off int }

// log appends an event (mutex held); adjacent Chunk events of one stream are merged.
func (w *world) log(g, act string, kv ...any) int {
	if w.frozen {
		return -1
	}
	if act == "Chunk" && len(w.lines) > 0 {
		last := w.lines[len(w.lines)-1]
		if last["act"] == "Chunk" && last["x"] == kv[1] && last["g"] == g {
			last["n"] = last["n"].(int) + kv[3].(int)
			return len(w.lines) - 1
		}
	}
	w.gseq[g]++
	l := line{"act": act, "g": g, "seq": w.gseq[g]}
	for i := 0; i+1 < len(kv); i += 2 {
		l[kv[i].(string)] = kv[i+1]
	}
	w.lines = append(w.lines, l)
	return len(w.lines) - 1
}

func peer(x string) string {
	if x == "A" {
		return "B"
	}
	return "A"
}

// ---------------------------------------------------------------- the pipe

type vconn struct {
	w      *world
	side   string
	out    *link
	in     *link
	closed bool
	idle   bool // the reader is parked: it has consumed every byte handed to it and waits for more
}

type addr string

func (a addr) Network() string { return "verif" }
func (a addr) String() string  { return string(a) }

func (c *vconn) LocalAddr() net.Addr                { return addr(c.side) }
func (c *vconn) RemoteAddr() net.Addr               { return addr(peer(c.side)) }
func (c *vconn) SetDeadline(t time.Time) error      { return nil }
func (c *vconn) SetReadDeadline(t time.Time) error  { return nil }
func (c *vconn) SetWriteDeadline(t time.Time) error { return nil }

func (l *link) nextChunk() int {
	switch l.chunking {
	case "byte":
		return 1
	case "small":
		return 1 + l.rng.Intn(7)
	case "mixed":
		return []int{1, 2, 3, 5, 16, 100, 1000, 1024, 1025, 4096}[l.rng.Intn(10)]
	}
	return 1 << 30
}

func (c *vconn) Read(p []byte) (int, error) {
	w := c.w
	w.mu.Lock()
	defer w.mu.Unlock()
	for {
		if w.killed || w.timedOut {
			return 0, io.ErrClosedPipe
		}
		if len(c.in.inbox) > 0 && len(p) > 0 {
			n := c.in.nextChunk()
			if n > len(p) {
				n = len(p)
			}
			if n > len(c.in.inbox) {
				n = len(c.in.inbox)
			}
			copy(p, c.in.inbox[:n])
			c.in.inbox = c.in.inbox[n:]
			c.idle = false
			w.log(c.side+".recv", "Chunk", "x", c.in.from, "n", n)
			return n, nil
		}
		if c.in.closed && c.in.eofOpen {
			if !c.in.eofSeen {
				c.in.eofSeen = true
				w.log(c.side+".recv", "EOF", "x", c.side)
				w.cond.Broadcast()
			}
			return 0, io.EOF
		}
		if !c.idle && len(c.in.inbox) == 0 {
			c.idle = true
			w.cond.Broadcast()
		}
		w.cond.Wait()
	}
}

func (c *vconn) Write(p []byte) (int, error) {
	w := c.w
	w.mu.Lock()
	defer w.mu.Unlock()
	for c.out.gated && !w.killed && !w.timedOut {
		if !c.out.parked {
			c.out.parked = true
			w.cond.Broadcast()
		}
		w.cond.Wait()
	}
	if c.closed || w.killed {
		return 0, io.ErrClosedPipe
	}
	c.out.feed(p)
	w.cond.Broadcast()
	return len(p), nil
}

func (c *vconn) Close() error {
	w := c.w
	w.mu.Lock()
	defer w.mu.Unlock()
	if !c.closed {
		c.closed = true
		c.out.closed = true
		w.log(c.side+".cl", "Close", "x", c.side)
		w.cond.Broadcast()
	}
	return nil
}

func craft(kind string, maxPkt int, rng *rand.Rand) []byte {
	switch kind {
	case "ping":
		return amino.MustMarshalAnySized(conn.PacketPing{})
	case "pong":
		return amino.MustMarshalAnySized(conn.PacketPong{})
	case "unknownch":
		return amino.MustMarshalAnySized(conn.PacketMsg{ChannelID: 0x09, EOF: 1, Bytes: []byte{0x42}})
	case "garbage":
		// a well-formed length prefix followed by bytes that are no amino Any
		b := []byte{7, 0xff, 0xff, 0xff, 0xff, 0xff, 0xff, 0xff}
		return b
	case "oversize":
		var buf [binary.MaxVarintLen64]byte
		n := binary.PutUvarint(buf[:], uint64(maxPkt+1+rng.Intn(5000)))
		return append([]byte(nil), buf[:n]...)
	}
	mbt.Die("inject kind %q", kind)
	return nil
}

func (l *link) inject() {
	for _, in := range l.plan {
		if in.After == l.npk {
			b := craft(in.Kind, l.maxPkt, l.rng)
			l.w.log(l.from+".wr", "Inject", "x", l.from, "kind", in.Kind, "size", len(b))
			l.inbox = append(l.inbox, b...)
		}
	}
}

// label says which message bytes a payload on channel ch is: (id, off), or id -1.
func (l *link) label(ch int, payload []byte, eof bool) (int, int) {
	var plan []*msg
	for _, m := range l.w.msgs[l.from] {
		if m.ch == ch {
			plan = append(plan, m)
		}
	}
	cu := l.cur[ch]
	if cu == nil {
		cu = &cursor{}
		l.cur[ch] = cu
	}
	match := func(m *msg, off int) bool {
		return off+len(payload) <= len(m.data) && bytes.Equal(m.data[off:off+len(payload)], payload)
	}
	adv := func(i, off int) (int, int) {
		cu.i, cu.off = i, off+len(payload)
		if eof {
			cu.i, cu.off = i+1, 0
		}
		return plan[i].id, off
	}
	for cu.off == 0 && cu.i < len(plan) && plan[cu.i].refused {
		cu.i++
	}
	if cu.i < len(plan) && match(plan[cu.i], cu.off) && (len(payload) > 0 || cu.off == len(plan[cu.i].data)) {
		return adv(cu.i, cu.off)
	}
	if cu.off == 0 { // the expected message was not accepted by TrySend: a later one starts here
		for i := cu.i + 1; i < len(plan); i++ {
			if match(plan[i], 0) && (len(payload) > 0 || len(plan[i].data) == 0) {
				return adv(i, 0)
			}
		}
	}
	if len(payload) > 0 { // anywhere in any message of this side
		for _, m := range l.w.msgs[l.from] {
			if k := bytes.Index(m.data, payload); k >= 0 {
				return m.id, k
			}
		}
	}
	return -1, 0
}

// feed parses what the side wrote into complete packets, records and forwards them.
func (l *link) feed(p []byte) {
	w := l.w
	l.parse = append(l.parse, p...)
	for {
		n, k := binary.Uvarint(l.parse)
		if k == 0 {
			return
		}
		if k < 0 || n > 1<<24 {
			w.log(l.from+".wr", "Pkt", "x", l.from, "kind", "unparsable", "ch", 0, "eof", 0, "id", -1, "off", 0, "len", 0, "size", len(l.parse))
			l.inbox = append(l.inbox, l.parse...)
			l.parse = nil
			return
		}
		tot := k + int(n)
		if len(l.parse) < tot {
			return
		}
		raw := l.parse[:tot]
		var pkt conn.Packet
		if err := amino.UnmarshalSized(raw, &pkt); err != nil {
			w.log(l.from+".wr", "Pkt", "x", l.from, "kind", "undecodable", "ch", 0, "eof", 0, "id", -1, "off", 0, "len", 0, "size", tot)
		} else {
			switch pk := pkt.(type) {
			case conn.PacketPing:
				w.log(l.from+".wr", "Pkt", "x", l.from, "kind", "ping", "ch", 0, "eof", 0, "id", 0, "off", 0, "len", 0, "size", tot)
			case conn.PacketPong:
				w.log(l.from+".wr", "Pkt", "x", l.from, "kind", "pong", "ch", 0, "eof", 0, "id", 0, "off", 0, "len", 0, "size", tot)
			case conn.PacketMsg:
				id, off := l.label(int(pk.ChannelID), pk.Bytes, pk.EOF == 1)
				w.log(l.from+".wr", "Pkt", "x", l.from, "kind", "msg", "ch", int(pk.ChannelID), "eof", int(pk.EOF), "id", id, "off", off, "len", len(pk.Bytes), "size", tot)
			default:
				w.log(l.from+".wr", "Pkt", "x", l.from, "kind", "unknown", "ch", 0, "eof", 0, "id", -1, "off", 0, "len", 0, "size", tot)
			}
		}
		l.inbox = append(l.inbox, raw...)
		l.parse = l.parse[tot:]
		l.npk++
		l.inject()
	}
}

// ---------------------------------------------------------------- scenario

type planMsg struct {
	Ch  int    `json:"ch"`
	Len int    `json:"len"`
	Op  string `json:"op"`
}

type scenario struct {
	K        int                    `json:"k"`      // 1: MaxPacketMsgPayloadSize 1024, 2: 16
	Seed     int64                  `json:"seed"`
	Kind     string                 `json:"kind"`   // clean | malformed
	Gate     bool                   `json:"gate"`   // backpressure: everything is queued while the first flush is held
	QCap     int                    `json:"qcap"`
	Chunking map[string]string      `json:"chunking"`
	Msgs     map[string][]planMsg   `json:"msgs"`   // per sending side, in send order per channel
	Inject   map[string][]injection `json:"inject"` // per stream (sending side)
}

func maxPay(k int) int {
	if k == 2 {
		return 16
	}
	return 1024
}

func recvCap(k, ch int) int {
	if ch == 2 {
		return 2*maxPay(k) + 10
	}
	return 1000000
}

func npackets(n, mp int) int {
	if n == 0 {
		return 1
	}
	return (n + mp - 1) / mp
}

func genScenario(k int, seed int64) *scenario {
	rng := rand.New(rand.NewSource(seed))
	mp := maxPay(k)
	sc := &scenario{K: k, Seed: seed, Kind: "clean", Chunking: map[string]string{}, Msgs: map[string][]planMsg{}, Inject: map[string][]injection{}}
	classes := []int{0, 1, mp - 1, mp, mp + 1, 2 * mp, 2*mp + 1, 3 * mp, 2, 7}
	roll := rng.Intn(100)
	var bad string
	switch {
	case roll < 55:
	case roll < 65:
		bad = "unknownch"
	case roll < 75:
		bad = "garbage"
	case roll < 85:
		bad = "oversize"
	default:
		bad = "overcap"
	}
	if bad != "" {
		sc.Kind = "malformed"
	}
	sc.QCap = []int{1, 2, 64}[rng.Intn(3)]
	if sc.Kind == "malformed" {
		sc.QCap = 64 // blocking Send never waits: every planned packet reaches the stream unless the service stops
	}
	if sc.Kind == "clean" && rng.Intn(3) == 0 {
		sc.Gate = true
		sc.QCap = 64
	}
	modes := []string{"byte", "small", "mixed", "mixed", "big"}
	for _, x := range []string{"A", "B"} {
		sc.Chunking[x] = modes[rng.Intn(len(modes))]
		if k == 1 && sc.Chunking[x] == "byte" && rng.Intn(3) > 0 {
			sc.Chunking[x] = "small"
		}
		nch := 1 + rng.Intn(3)
		total := rng.Intn(9)
		if x == "A" && total == 0 {
			total = 1 + rng.Intn(6)
		}
		for i := 0; i < total; i++ {
			ch := 1 + rng.Intn(nch)
			n := classes[rng.Intn(len(classes))]
			if rng.Intn(5) == 0 {
				n = rng.Intn(3*mp + 1)
			}
			if ch == 2 && n > recvCap(k, 2) {
				n = recvCap(k, 2) - rng.Intn(12) // up to exactly the capacity
			}
			op := "Send"
			if sc.Kind == "clean" && !sc.Gate && rng.Intn(3) == 0 {
				op = "TrySend"
			}
			sc.Msgs[x] = append(sc.Msgs[x], planMsg{ch, n, op})
		}
	}
	// pings / unsolicited pongs at packet boundaries (also in the middle of a multi-packet message)
	for _, x := range []string{"A", "B"} {
		np := 0
		for _, m := range sc.Msgs[x] {
			np += npackets(m.Len, mp)
		}
		for i := rng.Intn(3); i > 0; i-- {
			kind := "ping"
			if rng.Intn(4) == 0 {
				kind = "pong"
			}
			sc.Inject[x] = append(sc.Inject[x], injection{rng.Intn(np + 1), kind})
		}
	}
	if bad != "" {
		// the failing packet is in A's stream (B fails, closes, A reads EOF and fails too)
		np := 0
		for _, m := range sc.Msgs["A"] {
			np += npackets(m.Len, mp)
		}
		if bad == "overcap" {
			at := rng.Intn(len(sc.Msgs["A"]) + 1)
			big := planMsg{2, recvCap(k, 2) + 1 + rng.Intn(mp), "Send"}
			ms := append([]planMsg(nil), sc.Msgs["A"][:at]...)
			ms = append(ms, big)
			sc.Msgs["A"] = append(ms, sc.Msgs["A"][at:]...)
		} else {
			sc.Inject["A"] = append(sc.Inject["A"], injection{rng.Intn(np + 1), bad})
		}
	}
	return sc
}

// ---------------------------------------------------------------- one run

type side struct {
	name string
	c    *vconn
	m    *conn.MConnection
}

func runScenario(sc *scenario, out *bufWriter) (nlines, nmsgs int) {
	w := &world{gseq: map[string]int{}, link: map[string]*link{}, errSeen: map[string]bool{}, msgs: map[string][]*msg{}}
	w.cond = sync.NewCond(&w.mu)
	mp := maxPay(sc.K)
	cfg := conn.DefaultMConnConfig()
	cfg.SendRate, cfg.RecvRate = 0, 0 // unthrottled
	cfg.MaxPacketMsgPayloadSize = mp
	cfg.FlushThrottle = 200 * time.Microsecond
	cfg.PingInterval = 2 * time.Hour
	cfg.PongTimeout = time.Hour
	maxPkt := len(amino.MustMarshalAnySized(conn.PacketMsg{ChannelID: 1, EOF: 1, Bytes: make([]byte, mp)})) + 10
	for i, x := range []string{"A", "B"} {
		w.link[x] = &link{w: w, from: x, rng: rand.New(rand.NewSource(sc.Seed*31 + int64(i))), chunking: sc.Chunking[x],
			cur: map[int]*cursor{}, plan: sc.Inject[x], maxPkt: maxPkt, eofOpen: sc.Kind != "clean", gated: sc.Gate}
		id := 0
		for _, pm := range sc.Msgs[x] {
			id++
			data := make([]byte, pm.Len)
			rand.New(rand.NewSource(sc.Seed*1009 + int64(i)*100003 + int64(id))).Read(data)
			w.msgs[x] = append(w.msgs[x], &msg{id: id, ch: pm.Ch, data: data, op: pm.Op})
		}
	}
	sides := map[string]*side{}
	for _, x := range []string{"A", "B"} {
		x := x
		s := &side{name: x}
		s.c = &vconn{w: w, side: x, out: w.link[x], in: w.link[peer(x)]}
		descs := []*conn.ChannelDescriptor{}
		for ch, prio := range map[int]int{1: 1, 2: 5, 3: 10} {
			descs = append(descs, &conn.ChannelDescriptor{ID: byte(ch), Priority: prio, SendQueueCapacity: sc.QCap,
				RecvMessageCapacity: recvCap(sc.K, ch)})
		}
		// deterministic channel order (sendPacketMsg scans c.channels in this order)
		for i := 0; i < len(descs); i++ {
			for j := i + 1; j < len(descs); j++ {
				if descs[j].ID < descs[i].ID {
					descs[i], descs[j] = descs[j], descs[i]
				}
			}
		}
		onRecv := func(ch byte, b []byte) {
			w.mu.Lock()
			defer w.mu.Unlock()
			// which message of the peer has exactly these bytes: same channel first, not yet delivered first
			var hit *msg
			for pass := 0; pass < 4 && hit == nil; pass++ {
				for _, m := range w.msgs[peer(x)] {
					if m.refused || !bytes.Equal(m.data, b) {
						continue
					}
					if (pass&2 == 0) != (m.ch == int(ch)) {
						continue
					}
					if pass&1 == 0 && m.delivered {
						continue
					}
					hit = m
					break
				}
			}
			id := -1
			if hit != nil {
				id = hit.id
				hit.delivered = true
			}
			w.log(x+".recv", "Recv", "x", x, "ch", int(ch), "id", id, "len", len(b))
		}
		onErr := func(err error) {
			w.mu.Lock()
			defer w.mu.Unlock()
			w.log(x+".err", "Err", "x", x)
			w.errSeen[x] = true
			w.cond.Broadcast()
		}
		s.m = conn.NewMConnectionWithConfig(s.c, descs, onRecv, onErr, cfg)
		s.m.SetLogger(log.NewNoopLogger())
		sides[x] = s
	}
	wd := time.AfterFunc(watchdog, func() {
		w.mu.Lock()
		w.timedOut = true
		w.cond.Broadcast()
		w.mu.Unlock()
	})
	defer wd.Stop()
	// injections scheduled before the first packet
	w.mu.Lock()
	w.link["A"].inject()
	w.link["B"].inject()
	w.mu.Unlock()
	for _, x := range []string{"A", "B"} {
		if err := sides[x].m.Start(); err != nil {
			mbt.Die("start: %v", err)
		}
	}
	// one sender goroutine per (side, channel): the order within a channel is the order of the plan
	var wg sync.WaitGroup
	slow := false
	for _, x := range []string{"A", "B"} {
		for ch := 1; ch <= 3; ch++ {
			var mine []*msg
			for _, m := range w.msgs[x] {
				if m.ch == ch {
					mine = append(mine, m)
				}
			}
			if len(mine) == 0 {
				continue
			}
			wg.Add(1)
			go func(x string, ch int, mine []*msg) {
				defer wg.Done()
				g := fmt.Sprintf("%s.s%d", x, ch)
				for _, m := range mine {
					if sc.Gate && m != w.msgs[x][0] {
						// backpressure scenario: the first message of the side is on its way and the send
						// routine is held in its flush; everything else is queued behind it
						w.mu.Lock()
						for !w.link[x].parked && !w.timedOut {
							w.cond.Wait()
						}
						w.mu.Unlock()
					}
					w.mu.Lock()
					idx := w.log(g, "Send", "x", x, "ch", ch, "id", m.id, "len", len(m.data), "op", m.op, "ok", false)
					w.mu.Unlock()
					t0 := time.Now()
					var ok bool
					if m.op == "TrySend" {
						ok = sides[x].m.TrySend(byte(ch), m.data)
					} else {
						ok = sides[x].m.Send(byte(ch), m.data)
					}
					w.mu.Lock()
					if !ok && m.op == "Send" && time.Since(t0) > 9*time.Second {
						slow = true // the 10 s send timeout, not a refusal
					}
					if idx >= 0 {
						w.lines[idx]["ok"] = ok
					}
					m.refused = !ok
					w.log(g, "Ret", "x", x, "id", m.id, "op", m.op, "ok", ok)
					w.mu.Unlock()
				}
			}(x, ch, mine)
		}
	}
	done := make(chan struct{})
	go func() { wg.Wait(); close(done) }()
	select {
	case <-done:
	case <-time.After(watchdog):
		mbt.Die("watchdog: sender goroutines did not return within %v", watchdog)
	}
	if sc.Gate {
		w.mu.Lock()
		w.link["A"].gated, w.link["B"].gated = false, false
		w.cond.Broadcast()
		w.mu.Unlock()
	}
	wait := func(pred func() bool, what string) {
		w.mu.Lock()
		for !pred() {
			if w.timedOut {
				w.mu.Unlock()
				dump(w, sc)
				mbt.Die("watchdog: %s did not happen within %v (scenario %s)", what, watchdog, mbt.JS(sc))
			}
			w.cond.Wait()
		}
		w.mu.Unlock()
	}
	if sc.Kind == "clean" {
		for _, x := range []string{"B", "A"} {
			w.mu.Lock()
			w.log("drv", "Stop", "x", x)
			w.mu.Unlock()
			sides[x].m.FlushStop()
		}
		w.mu.Lock()
		w.link["A"].eofOpen, w.link["B"].eofOpen = true, true
		w.cond.Broadcast()
		w.mu.Unlock()
		// each receive routine ends: it read EOF, or it failed and reported it
		wait(func() bool {
			return (w.link["A"].eofSeen || w.errSeen["B"]) && (w.link["B"].eofSeen || w.errSeen["A"])
		}, "both sides read the end of the peer's stream after FlushStop")
	} else {
		// B fails on the packet in A's stream and closes, A reads the end of B's stream and fails too.
		// If instead B has taken every byte of A's stream (all planned packets are on it) and is parked
		// in Read again without having failed, no failure will come: recorded as Idle, the model decides.
		expA := 0
		for _, m := range sc.Msgs["A"] {
			expA += npackets(m.Len, mp)
		}
		idleB := func() bool {
			return !w.errSeen["B"] && w.link["A"].npk >= expA && len(w.link["A"].parse) == 0 && len(w.link["A"].inbox) == 0 && sides["B"].c.idle
		}
		wait(func() bool { return (w.errSeen["A"] && w.errSeen["B"]) || idleB() }, "onError on both sides after the failing packet")
		w.mu.Lock()
		if idleB() {
			w.log("drv", "Idle", "x", "B")
		}
		w.mu.Unlock()
	}
	w.mu.Lock()
	w.log("drv", "Final")
	w.frozen = true
	w.killed = true
	w.cond.Broadcast()
	lines := w.lines
	w.mu.Unlock()
	sides["A"].m.Stop()
	sides["B"].m.Stop()
	if slow {
		return 0, 0 // discarded: a blocking Send ran into its 10 s timeout (scheduling, not a refusal)
	}
	out.write(line{"act": "Reset", "g": "drv", "seq": 0, "scenario": mbt.JS(sc)})
	for _, l := range lines {
		out.write(l)
	}
	n := 0
	for _, l := range lines {
		if l["act"] == "Send" && l["ok"] == true {
			n++
		}
	}
	return len(lines) + 1, n
}

func dump(w *world, sc *scenario) {
	w.mu.Lock()
	defer w.mu.Unlock()
	fmt.Fprintf(os.Stderr, "--- events of the hanging run\n")
	for _, l := range w.lines {
		fmt.Fprintln(os.Stderr, mbt.JS(l))
	}
}

type bufWriter struct {
	f *os.File
	n int
}

func (b *bufWriter) write(l line) {
	bz, err := json.Marshal(l)
	if err != nil {
		mbt.Die("%v", err)
	}
	b.f.Write(append(bz, '\n'))
	b.n++
}

func main() {
	f := mbt.ParseFlags()
	var o struct {
		K        int       `json:"k"`
		Scenario *scenario `json:"scenario"`
	}
	if f.Extra != "" {
		if err := json.Unmarshal([]byte(f.Extra), &o); err != nil {
			mbt.Die("bad -x: %v", err)
		}
	}
	if o.K == 0 {
		o.K = 1
	}
	if f.Out == "" {
		mbt.Die("-out required")
	}
	fh, err := os.Create(f.Out)
	if err != nil {
		mbt.Die("%v", err)
	}
	out := &bufWriter{f: fh}
	runs, lines, msgs, discarded := 0, 0, 0, 0
	kinds := map[string]int{}
	if o.Scenario != nil {
		for i := 0; i < f.N || i == 0; i++ { // the same scenario, repeated from fresh objects
			nl, nm := runScenario(o.Scenario, out)
			if nl == 0 {
				discarded++
				continue
			}
			runs++
			lines += nl
			msgs += nm
		}
	} else {
		for i := 0; i < f.N; i++ {
			sc := genScenario(o.K, f.Seed*100003+int64(i))
			nl, nm := runScenario(sc, out)
			if nl == 0 {
				discarded++
				continue
			}
			if i < 2 {
				mbt.Sample(sc)
			}
			runs++
			lines += nl
			msgs += nm
			kinds[sc.Kind]++
			if sc.Gate {
				kinds["gate"]++
			}
		}
	}
	fh.Close()
	mbt.Summary(map[string]any{"runs": runs, "lines": lines, "messages_sent": msgs, "discarded": discarded,
		"clean_runs": kinds["clean"], "malformed_runs": kinds["malformed"], "backpressure_runs": kinds["gate"]})
	mbt.Flush()
}
