package main

// -mode signers: replays spec/AnteSigners.tla on the REAL auth ante handler, the real account and
// bank keepers and real std.Tx values whose messages need SEVERAL signatures. No amino-registered
// production message has several signers (bank.MsgMultiSend is not registered), so the messages
// are the repository's own registered test message testutils.TestMsg, whose GetSigners returns the
// list it was built with. Tx.GetSigners / Tx.ValidateBasic / ante phases 1-3 are the code under
// test. Signatures are real secp256k1 signatures over the transaction's sign bytes with the
// signing account's current number and sequence.
// Verdict observables: accepted / rejected, every account's sequence, and the balances (the fee
// is charged only on acceptance, to the first required signer).

import (
	"bufio"
	"encoding/json"
	"fmt"
	"os"
	"runtime"
	"sync"
	"sync/atomic"
	"time"

	abcit "github.com/gnolang/gno/tm2/pkg/bft/abci/types"
	bft "github.com/gnolang/gno/tm2/pkg/bft/types"
	"github.com/gnolang/gno/tm2/pkg/crypto"
	"github.com/gnolang/gno/tm2/pkg/crypto/secp256k1"
	"github.com/gnolang/gno/tm2/pkg/db/memdb"
	"github.com/gnolang/gno/tm2/pkg/log"
	"github.com/gnolang/gno/tm2/pkg/sdk"
	"github.com/gnolang/gno/tm2/pkg/sdk/auth"
	"github.com/gnolang/gno/tm2/pkg/sdk/bank"
	"github.com/gnolang/gno/tm2/pkg/sdk/params"
	tu "github.com/gnolang/gno/tm2/pkg/sdk/testutils"
	"github.com/gnolang/gno/tm2/pkg/std"
	"github.com/gnolang/gno/tm2/pkg/store"
	storebptree "github.com/gnolang/gno/tm2/pkg/store/bptree"
	"github.com/gnolang/gno/tm2/pkg/store/dbadapter"

	"verifharness/mbt"
)

const (
	sgUnit  = int64(1000) // ugnot per spec unit
	sgStart = int64(9)
	sgChain = "verif-chain"
)

type senv struct {
	ms    store.CommitMultiStore
	acck  auth.AccountKeeper
	bankk bank.BankKeeper
	base  sdk.Context
	ante  sdk.AnteHandler
	keys  map[string]secp256k1.PrivKeySecp256k1
	addrs map[string]crypto.Address
	coll  crypto.Address
}

func newSenv() *senv {
	db := memdb.NewMemDB()
	baseKey, mainKey := store.NewStoreKey("base"), store.NewStoreKey("main")
	ms := store.NewCommitMultiStore(db)
	ms.MountStoreWithDB(baseKey, dbadapter.StoreConstructor, db)
	ms.MountStoreWithDB(mainKey, storebptree.FastStoreConstructor, db)
	if err := ms.LoadLatestVersion(); err != nil {
		mbt.Die("load: %v", err)
	}
	ctx := sdk.NewContext(sdk.RunTxModeDeliver, ms, &bft.Header{ChainID: sgChain, Height: 1, Time: time.Unix(1_700_000_000, 0).UTC()}, log.NewNoopLogger())
	prmk := params.NewParamsKeeper(mainKey)
	acck := auth.NewAccountKeeper(mainKey, prmk.ForModule(auth.ModuleName), std.ProtoBaseAccount, std.ProtoBaseSessionAccount)
	bankk := bank.NewBankKeeper(acck, prmk.ForModule(bank.ModuleName), mainKey, []string{"ugnot"})
	prmk.Register(auth.ModuleName, acck)
	prmk.Register(bank.ModuleName, bankk)
	if err := acck.SetParams(ctx, auth.DefaultParams()); err != nil {
		mbt.Die("auth params: %v", err)
	}
	e := &senv{ms: ms, acck: acck, bankk: bankk, base: ctx, keys: map[string]secp256k1.PrivKeySecp256k1{}, addrs: map[string]crypto.Address{}}
	for _, n := range []string{"a", "b", "c"} {
		e.keys[n] = secp256k1.GenPrivKeySecp256k1([]byte("verif-signers-" + n))
		e.addrs[n] = e.keys[n].PubKey().Address()
		acc := acck.NewAccountWithAddress(ctx, e.addrs[n])
		acck.SetAccount(ctx, acc)
		if err := bankk.MintCoins(ctx, e.addrs[n], std.Coins{{Denom: "ugnot", Amount: sgStart * sgUnit}}); err != nil {
			mbt.Die("funding: %v", err)
		}
	}
	ms.Commit()
	e.coll = acck.FeeCollectorAddress(ctx)
	e.ante = auth.NewAnteHandler(acck, bankk, auth.DefaultSigVerificationGasConsumer, auth.AnteOptions{VerifyGenesisSignatures: true})
	return e
}

func (e *senv) ctxOn(ms store.MultiStore) sdk.Context {
	c := e.base.WithMultiStore(ms)
	return c.WithConsensusParams(&abcit.ConsensusParams{Block: &abcit.BlockParams{MaxTxBytes: 1_000_000, MaxDataBytes: 2_000_000, MaxGas: 1_000_000_000, TimeIotaMS: 100}}).
		WithValue(auth.AuthParamsContextKey{}, e.acck.GetParams(c))
}

func names(v any) []string { return mbt.Strs(v) }

// build realises a transaction record: one TestMsg per message, one real signature per entry of sigs
func (e *senv) build(ctx sdk.Context, s mbt.Step) std.Tx {
	var msgs []std.Msg
	for _, m := range s["msgs"].([]any) {
		var as []crypto.Address
		for _, n := range names(m) {
			as = append(as, e.addrs[n])
		}
		msgs = append(msgs, tu.NewTestMsg(as...))
	}
	tx := std.Tx{Msgs: msgs, Fee: std.Fee{GasWanted: 50_000_000, GasFee: std.Coin{Denom: "ugnot", Amount: sgUnit}}}
	for _, n := range names(s["sigs"]) {
		acc := e.acck.GetAccount(ctx, e.addrs[n])
		sb, err := tx.GetSignBytes(sgChain, acc.GetAccountNumber(), acc.GetSequence())
		if err != nil {
			mbt.Die("sign bytes: %v", err)
		}
		sig, err := e.keys[n].Sign(sb)
		if err != nil {
			mbt.Die("sign: %v", err)
		}
		tx.Signatures = append(tx.Signatures, std.Signature{PubKey: e.keys[n].PubKey(), Signature: sig})
	}
	return tx
}

func (e *senv) project(ctx sdk.Context) map[string]any {
	seq, bal := map[string]any{}, map[string]any{}
	for _, n := range []string{"a", "b", "c"} {
		seq[n] = e.acck.GetAccount(ctx, e.addrs[n]).GetSequence()
		b := e.bankk.GetCoin(ctx, e.addrs[n], "ugnot")
		if b%sgUnit == 0 {
			bal[n] = b / sgUnit
		} else {
			bal[n] = fmt.Sprintf("%d ugnot", b)
		}
	}
	bal["coll"] = e.bankk.GetCoin(ctx, e.coll, "ugnot") / sgUnit
	return map[string]any{"seq": seq, "bal": bal}
}

func sgClass(s mbt.Step) string {
	req := map[string]bool{}
	n := 0
	for _, m := range s["msgs"].([]any) {
		for _, x := range names(m) {
			if !req[x] {
				req[x] = true
				n++
			}
		}
	}
	k := len(names(s["sigs"]))
	rel := "exact-count"
	if k < n {
		rel = "fewer-signatures"
	} else if k > n {
		rel = "more-signatures"
	}
	trap := ""
	if s.Bool("trap") {
		trap = ":later-message-starts-with-last-collected-signer"
	}
	return rel + trap
}

func (e *senv) replayOne(beh []mbt.Step) (*mism, int) {
	outer := e.ms.MultiCacheWrap()
	for k, s := range beh {
		layer := outer.MultiCacheWrap()
		ctx := e.ctxOn(layer)
		tx := e.build(ctx, s)
		reply := "reject"
		var abort bool
		var res sdk.Result
		if p, val, st := mbt.Guard(func() {
			if err := tx.ValidateBasic(); err != nil { // runTx reaches it through the ante handler; kept explicit for the log
				_ = err
			}
			_, res, abort = e.ante(ctx, tx, false)
		}); p {
			return &mism{"C15:signers:panic", fmt.Sprintf("ante handler panicked: %v at %s", val, mbt.ShortStack(st)), map[string]any{"mode": "signers", "steps": beh[:k+1]}}, k
		}
		if !abort {
			reply = "accept"
			layer.MultiWrite() // an aborted ante handler's writes are discarded (runTx)
		}
		obs := e.project(e.ctxOn(outer.MultiCacheWrap()))
		if reply != s.Str("reply") || !mbt.Eq(obs, s["st"]) {
			key := fmt.Sprintf("C15:signers:%s:%s->%s", sgClass(s), s.Str("reply"), reply)
			if reply == s.Str("reply") {
				key = fmt.Sprintf("C15:signers:state:%s:%s", sgClass(s), reply)
			}
			return &mism{key, fmt.Sprintf("step %d msgs %s signed by %s: the ante handler answered %q, the spec %q (%s); sequences / balances %s, spec %s",
				k, mbt.JS(s["msgs"]), mbt.JS(s["sigs"]), reply, s.Str("reply"), firstLineOf(res.Log), mbt.JS(obs), mbt.JS(s["st"])), map[string]any{"mode": "signers", "steps": beh[:k+1]}}, k
		}
	}
	return nil, len(beh)
}

func firstLineOf(s string) string {
	for i := 0; i < len(s); i++ {
		if s[i] == '\n' {
			s = s[:i]
			break
		}
	}
	if len(s) > 200 {
		s = s[:200]
	}
	return s
}

func signersMode(f *mbt.Flags) {
	fh, err := os.Open(f.In)
	if err != nil {
		mbt.Die("%v", err)
	}
	defer fh.Close()
	sc := bufio.NewScanner(fh)
	sc.Buffer(make([]byte, 1<<20), 1<<28)
	var total, okc, steps, flaky, trapRejected, trapAccepted int64
	var mu sync.Mutex
	seen := map[string]int{}
	var bad int64
	ch := make(chan []mbt.Step, 256)
	var wg sync.WaitGroup
	nw := runtime.NumCPU()
	if nw > 6 {
		nw = 6
	}
	for w := 0; w < nw; w++ {
		wg.Add(1)
		go func() {
			defer wg.Done()
			e := newSenv()
			for beh := range ch {
				mis, n := e.replayOne(beh)
				atomic.AddInt64(&steps, int64(n))
				if mis == nil {
					atomic.AddInt64(&okc, 1)
					continue
				}
				// soundness rule 4: once more on a fresh environment
				if mis2, _ := newSenv().replayOne(beh); mis2 != nil {
					mu.Lock()
					if seen[mis2.key] < 2 {
						mbt.Mismatch(mis2.key, mis2.what, mis2.cs)
					}
					seen[mis2.key]++
					atomic.AddInt64(&bad, 1)
					mu.Unlock()
				} else {
					atomic.AddInt64(&flaky, 1)
				}
			}
		}()
	}
	for sc.Scan() {
		if len(sc.Bytes()) == 0 {
			continue
		}
		var beh []mbt.Step
		if err := json.Unmarshal(sc.Bytes(), &beh); err != nil {
			mbt.Die("bad behaviour line: %v", err)
		}
		if total < 2 {
			mbt.Sample(beh)
		}
		total++
		last := beh[len(beh)-1]
		if last.Bool("trap") {
			if last.Str("reply") == "reject" {
				trapRejected++
			} else {
				trapAccepted++
			}
		}
		ch <- beh
	}
	close(ch)
	wg.Wait()
	mbt.Summary(map[string]any{"behaviours": total, "replays": total, "replays_ok": okc, "steps": steps, "flaky": flaky,
		"trap_rejected": trapRejected, "trap_accepted": trapAccepted, "mismatching": bad})
}
